(* C18 goal (3): the executable checker chk_C18 (Model/C18Spec.v) accepts the run of the daemon
   model (Model/IntfDaemon.v) on every well-formed history outside the known class. *)
From Coq Require Import List NArith Bool Lia PeanoNat.
From Mdns Require Import Res Bytes Rec Wire Intf IntfCache Responder IntfDaemon C18Spec
     IntfProofs IntfCacheProofs IntfDaemonProofs ResponderAddrProofs IntfHistoryProofs IntfRemovalProofs.
Import ListNotations.
Open Scope N_scope.

(* ---- addresses on the wire and back ------------------------------------------------------------- *)

Lemma n_of_octets_be k : forall n acc,
  fold_left (fun acc b => acc * 256 + b) (be_bytes k n) acc = acc * 256 ^ N.of_nat k + n mod 256 ^ N.of_nat k.
Proof.
  induction k as [|k IH]; intros n acc.
  - simpl. rewrite N.mod_1_r. lia.
  - cbn [be_bytes fold_left]. rewrite IH. rewrite Nat2N.inj_succ, N.pow_succ_r'.
    rewrite (N.mul_comm 256 (256 ^ N.of_nat k)).
    rewrite (N.mod_mul_r n (256 ^ N.of_nat k) 256) by (try apply N.pow_nonzero; lia).
    rewrite N.shiftr_div_pow2. replace (2 ^ (8 * N.of_nat k)) with (256 ^ N.of_nat k).
    + lia.
    + change 256 with (2 ^ 8). rewrite <- N.pow_mul_r. reflexivity.
Qed.

Lemma be_bytes_length k n : length (be_bytes k n) = k.
Proof. induction k; simpl; auto. Qed.

Lemma land_mod_mask n m w : m < 2 ^ w -> N.land (n mod 2 ^ w) m = N.land n m.
Proof.
  intros Hm. apply N.bits_inj. intros i. rewrite !N.land_spec.
  destruct (N.lt_ge_cases i w) as [Hi|Hi].
  - rewrite N.mod_pow2_bits_low by exact Hi. reflexivity.
  - rewrite N.mod_pow2_bits_high by exact Hi. simpl.
    assert (E : N.testbit m i = false); [|rewrite E, andb_false_r; reflexivity].
    rewrite <- (N.mod_small m (2 ^ w)) by exact Hm. apply N.mod_pow2_bits_high. exact Hi.
Qed.

(* the netmask of an interface address fits its family *)
Definition mask_wf (x : ifaddr) : bool :=
  match ia_ip x with V4 _ => ia_mask x <? 2 ^ 32 | V6 _ => ia_mask x <? 2 ^ 128 end.

Lemma valid_round_trip a x : mask_wf x = true ->
  valid_ip_on_intf (ip_of_octets (ip_octets a)) x = valid_ip_on_intf a x.
Proof.
  unfold mask_wf, ip_of_octets, valid_ip_on_intf, ip_octets, n_of_octets. intros Hm.
  destruct a as [n|n]; rewrite be_bytes_length; simpl Nat.eqb; cbv iota; rewrite n_of_octets_be; rewrite N.mul_0_l, N.add_0_l.
  - destruct (ia_ip x) as [i|i]; [|reflexivity]. apply N.ltb_lt in Hm.
    change (256 ^ N.of_nat 4) with (2 ^ 32). rewrite land_mod_mask by exact Hm. reflexivity.
  - destruct (ia_ip x) as [i|i]; [reflexivity|]. apply N.ltb_lt in Hm.
    change (256 ^ N.of_nat 16) with (2 ^ 128). rewrite land_mod_mask by exact Hm. reflexivity.
Qed.

(* ---- packets: pkt_just implies packet_ok --------------------------------------------------------- *)

Definition seen_wf (seen : list iface) : Prop := forall e, In e seen -> mask_wf (i_addr e) = true.
(* an IPv4 address is reported on one interface only (through the whole history) *)
Definition v4_single (seen : list iface) : Prop :=
  forall e e', In e seen -> In e' seen -> is_v4 (i_ip e) = true -> i_ip e' = i_ip e -> i_index e' = i_index e.

Lemma addrs_ok_of seen idx l : seen_wf seen -> Forall (seen_rec seen idx) l ->
  forallb (fun r => match r_data r with RAddr o => addr_ok seen idx o | _ => true end) l = true.
Proof.
  intros Hwf Hl. apply forallb_forall. intros r Hr. rewrite Forall_forall in Hl. specialize (Hl r Hr).
  unfold seen_rec in Hl. destruct (r_data r); auto. destruct Hl as (a & e & Ho & He & Hi & Hv).
  unfold addr_ok. apply existsb_exists. exists e. split; [exact He|]. subst octets.
  rewrite valid_round_trip by (apply Hwf; exact He). rewrite Hv, Hi, N.eqb_refl. reflexivity.
Qed.

Lemma selected_some_in states sels e : In sels states -> last_match sels e = true -> selected_some states e = true.
Proof. intros H1 H2. unfold selected_some. apply existsb_exists. exists sels. auto. Qed.

Lemma packet_ok_of_just seen cur states sels p :
  seen_wf seen -> v4_single seen -> incl cur seen -> In sels states ->
  pkt_just seen cur sels p -> packet_ok seen cur states p = true.
Proof.
  intros Hwf Hv4 Hcur Hin (intf & a & Ha & Hf & Hsel & Hif & Hrec & Hseen).
  unfold packet_ok. destruct (p_if p =? 0) eqn:E0; [reflexivity|]. simpl.
  assert (Hidx : p_if p = mi_index intf).
  { rewrite Hif in E0 |- *. unfold egress_if in *. destruct (dest_is_v4 p); [|reflexivity].
    destruct (find (fun a => is_v4 (ia_ip a)) (mi_addrs intf)) as [a0|] eqn:Ef0; [|discriminate].
    apply find_some in Ef0 as [Hin0 Hv0].
    destruct (find (fun i => ip_eqb (i_ip i) (ia_ip a0)) cur) as [i|] eqn:Efi; [|discriminate].
    apply find_some in Efi as [Hi Heq]. apply ip_eqb_eq in Heq.
    destruct (Hseen a0 Hin0) as [e [He Hk]]. apply key_is_eq in Hk as [Hk1 Hk2].
    rewrite <- Hk1. apply (Hv4 e i); [exact He|apply Hcur; exact Hi| |].
    - unfold i_ip. rewrite Hk2. exact Hv0.
    - rewrite Heq. unfold i_ip. rewrite Hk2. reflexivity. }
  apply andb_true_iff. split.
  - unfold addrs_ok. rewrite Hidx. apply addrs_ok_of; assumption.
  - unfold enabled_ok. destruct (Hseen a Ha) as [e [He Hk]]. apply existsb_exists. exists e. split; [exact He|].
    pose proof Hk as Hk'. apply key_is_eq in Hk' as [Hk1 Hk2].
    rewrite Hidx, Hk1, N.eqb_refl. unfold i_ip. rewrite Hk2, Hf, eqb_reflx. simpl.
    destruct (iface_mem e cur) eqn:Em; simpl; [|reflexivity].
    apply (selected_some_in _ sels); [exact Hin|]. apply Hsel; [apply iface_mem_In; exact Em|exact Hk].
Qed.

(* ---- the IpAdd / IpDel events of an observation list ------------------------------------------------ *)

Definition ipev1 (o : obs) : list (bool * ip) :=
  match o with OIpAdd a => [(true, a)] | OIpDel a => [(false, a)] | _ => [] end.
Definition ipev (l : list obs) : list (bool * ip) := flat_map ipev1 l.

Lemma ipev_app a b : ipev (a ++ b) = ipev a ++ ipev b.
Proof. unfold ipev. apply flat_map_app. Qed.

Definition quiet (o : obs) : Prop := ipev1 o = [].
Lemma ipev_quiet l : Forall quiet l -> ipev l = [].
Proof. induction 1 as [|o l H _ IH]; simpl; [reflexivity|]. unfold quiet in H. rewrite H, IH. reflexivity. Qed.

Lemma not_sent_or_sent_quiet l : Forall (fun o => match o with OIpAdd _ | OIpDel _ => False | _ => True end) l -> Forall quiet l.
Proof. apply Forall_impl. intros o. destruct o; simpl; unfold quiet; simpl; tauto. Qed.

(* what add_interface and del_interface_addr report *)
Lemma add_interface_ipev now st i :
  ipev (snd (add_interface now st i)) =
  if held (d_intfs st) (i_index i) (i_addr i) then [] else [(true, i_ip i)].
Proof.
  unfold add_interface, held.
  destruct (intf_get (i_index i) (d_intfs st)) as [m|] eqn:Eg.
  - destruct (has_ifaddr (i_addr i) (mi_addrs m)) eqn:Eh; simpl; [reflexivity|].
    rewrite intf_get_put. simpl. rewrite N.eqb_refl.
    match goal with |- context [fold_left ?f ?l ([], [], [])] => set (stepf := f); set (sv := l) end.
    assert (G : forall l acc, ipev (snd (fst acc)) = [] -> ipev (snd (fst (fold_left stepf l acc))) = []).
    { induction l as [|kv l IH]; intros [[svcs sent] resend] Hs; simpl in Hs |- *; [exact Hs|]. apply IH.
      destruct (ds_auto (snd kv)); [|exact Hs]. destruct (announce_on _ _ _); simpl; [|exact Hs].
      rewrite ipev_app, Hs. reflexivity. }
    specialize (G sv ([], [], []) eq_refl). destruct (fold_left stepf sv ([], [], [])) as [[svcs' sent] resend].
    simpl in *. rewrite ipev_app, G. reflexivity.
  - simpl. rewrite intf_get_app_new by exact Eg. simpl. rewrite N.eqb_refl.
    match goal with |- context [fold_left ?f ?l ([], [], [])] => set (stepf := f); set (sv := l) end.
    assert (G : forall l acc, ipev (snd (fst acc)) = [] -> ipev (snd (fst (fold_left stepf l acc))) = []).
    { induction l as [|kv l IH]; intros [[svcs sent] resend] Hs; simpl in Hs |- *; [exact Hs|]. apply IH.
      destruct (ds_auto (snd kv)); [|exact Hs]. destruct (announce_on _ _ _); simpl; [|exact Hs].
      rewrite ipev_app, Hs. reflexivity. }
    specialize (G sv ([], [], []) eq_refl). destruct (fold_left stepf sv ([], [], [])) as [[svcs' sent] resend].
    simpl in *. rewrite ipev_app, G. reflexivity.
Qed.

Lemma del_interface_addr_ipev st i :
  ipev (snd (del_interface_addr st i)) =
  if held (d_intfs st) (i_index i) (i_addr i) && negb (holds_ip (del_tbl (d_intfs st) i) (i_ip i))
  then [(false, i_ip i)] else [].
Proof.
  pose proof (del_interface_addr_intfs st i) as (A1 & _ & _). revert A1.
  unfold del_interface_addr, del_tbl, held.
  destruct (intf_get (i_index i) (d_intfs st)) as [m|] eqn:Eg; [|reflexivity].
  destruct (has_ifaddr (i_addr i) (mi_addrs m)) eqn:Eh; [|reflexivity].
  destruct (is_nil (del_ifaddr (i_addr i) (mi_addrs m))) eqn:En; simpl.
  - destruct (holds_ip _ _); reflexivity.
  - destruct (negb (family_enabled _ _)); simpl; destruct (holds_ip _ _); reflexivity.
Qed.

(* the events of apply_intf_selections as a function of the interface table *)
Fixpoint apply_ipev (f : iface -> bool) (l : list myintf) (tbl : list iface) : list (bool * ip) :=
  match tbl with
  | [] => []
  | e :: t =>
    (if f e then (if held l (i_index e) (i_addr e) then [] else [(true, i_ip e)])
     else (if held l (i_index e) (i_addr e) && negb (holds_ip (del_tbl l e) (i_ip e)) then [(false, i_ip e)] else []))
    ++ apply_ipev f (if f e then add_tbl l e else del_tbl l e) t
  end.

Lemma apply_fold_ipev now (f : iface -> bool) tbl : forall st out,
  ipev (snd (fold_left (fun (acc : dstate * list obs) (im : iface * bool) =>
                        let '(st, out) := acc in
                        let '(st', o) := if snd im then add_interface now st (fst im) else del_interface_addr st (fst im) in
                        (st', out ++ o)) (combine tbl (map f tbl)) (st, out)))
  = ipev out ++ apply_ipev f (d_intfs st) tbl.
Proof.
  induction tbl as [|e tbl IH]; intros st out; simpl; [rewrite app_nil_r; reflexivity|].
  destruct (f e) eqn:Ef.
  - pose proof (add_interface_ipev now st e) as Hev. pose proof (add_interface_intfs now st e) as (H1 & _ & _).
    destruct (add_interface now st e) as [st' o]. simpl in *. rewrite IH, ipev_app, Hev, H1, app_assoc. reflexivity.
  - pose proof (del_interface_addr_ipev st e) as Hev. pose proof (del_interface_addr_intfs st e) as (H1 & _ & _).
    destruct (del_interface_addr st e) as [st' o]. simpl in *. rewrite IH, ipev_app, Hev, H1, app_assoc. reflexivity.
Qed.

Lemma apply_ipev_spec now d tbl :
  ipev (snd (apply_intf_selections now d tbl)) = apply_ipev (last_match (d_sels d)) (d_intfs d) tbl.
Proof.
  unfold apply_intf_selections. rewrite apply_marks_last_match. rewrite apply_fold_ipev. reflexivity.
Qed.

(* every event of apply comes from an entry of the table, with its selection *)
Lemma apply_ipev_in f tbl : forall l b a, In (b, a) (apply_ipev f l tbl) -> exists e, In e tbl /\ i_ip e = a /\ f e = b.
Proof.
  induction tbl as [|e t IH]; intros l b a H; simpl in H; [destruct H|].
  apply in_app_or in H as [H|H].
  - exists e. destruct (f e) eqn:Ef.
    + destruct (held l _ _); [destruct H|]. destruct H as [H|[]]. inversion H; subst. simpl. auto.
    + destruct (_ && _); [|destruct H]. destruct H as [H|[]]. inversion H; subst. simpl. auto.
  - destruct (IH _ _ _ H) as [e' [H1 H2]]. exists e'. simpl. auto.
Qed.

(* ---- last word and order on event lists -------------------------------------------------------------- *)

Fixpoint lastdel (a : ip) (evs : list (bool * ip)) (acc : bool) : bool :=
  match evs with
  | [] => acc
  | (b, x) :: t => lastdel a t (if ip_eqb x a then negb b else acc)
  end.

Lemma lastdel_app a e1 e2 acc : lastdel a (e1 ++ e2) acc = lastdel a e2 (lastdel a e1 acc).
Proof. revert acc. induction e1 as [|[b x] t IH]; intros acc; simpl; [reflexivity|apply IH]. Qed.

Lemma last_is_del_ipev a os : forall acc, last_is_del a os acc = lastdel a (ipev os) acc.
Proof.
  induction os as [|o t IH]; intros acc; simpl; [reflexivity|].
  destruct o; simpl; rewrite IH; reflexivity.
Qed.

Definition is_del_of (a : ip) (ev : bool * ip) : bool := negb (fst ev) && ip_eqb a (snd ev).

Fixpoint nda (cur : list iface) (evs : list (bool * ip)) : bool :=
  match evs with
  | [] => true
  | (true, a) :: t => negb (single_in cur a && existsb (is_del_of a) t) && nda cur t
  | _ :: t => nda cur t
  end.

Lemma existsb_del_ipev a os :
  existsb (fun o => match o with OIpDel b => ip_eqb a b | _ => false end) os = existsb (is_del_of a) (ipev os).
Proof.
  induction os as [|o t IH]; simpl; [reflexivity|]. destruct o; simpl; rewrite IH; reflexivity.
Qed.

Lemma no_del_after_add_ipev cur os : no_del_after_add cur os = nda cur (ipev os).
Proof.
  induction os as [|o t IH]; simpl; [reflexivity|].
  destruct o; simpl; rewrite ?IH, ?existsb_del_ipev; reflexivity.
Qed.

Lemma nda_dels cur dels evs : nda cur (map (fun a => (false, a)) dels ++ evs) = nda cur evs.
Proof. induction dels; simpl; auto. Qed.

Lemma nda_mono cur cur' evs : (forall a, single_in cur' a = true -> single_in cur a = true) ->
  nda cur evs = true -> nda cur' evs = true.
Proof.
  intros Hm. induction evs as [|[b a] t IH]; simpl; [auto|]. destruct b; [|exact IH].
  intros H. apply andb_true_iff in H as [H1 H2]. rewrite (IH H2), andb_true_r.
  destruct (single_in cur' a) eqn:E; [|reflexivity]. rewrite (Hm a E) in H1. exact H1.
Qed.

Lemma single_in_cons x t a : single_in (x :: t) a = true -> single_in t a = true.
Proof.
  unfold single_in. simpl. destruct (ip_eqb (i_ip x) a); simpl; [|auto].
  destruct (length _); [reflexivity|]. intros H. apply Nat.leb_le in H. apply Nat.leb_le. lia.
Qed.

Lemma apply_nda f : forall tbl l, nda tbl (apply_ipev f l tbl) = true.
Proof.
  induction tbl as [|x t IH]; intros l; simpl; [reflexivity|].
  set (l' := if f x then add_tbl l x else del_tbl l x).
  assert (Hrest : nda (x :: t) (apply_ipev f l' t) = true).
  { apply (nda_mono t); [intros a; apply single_in_cons|apply IH]. }
  destruct (f x) eqn:Ef.
  - destruct (held l (i_index x) (i_addr x)); simpl; [exact Hrest|].
    rewrite Hrest, andb_true_r. destruct (existsb (is_del_of (i_ip x)) (apply_ipev f l' t)) eqn:Ex; [|rewrite andb_false_r; reflexivity].
    apply existsb_exists in Ex as [[b a] [Hin Hd]]. unfold is_del_of in Hd. simpl in Hd.
    apply andb_true_iff in Hd as [Hb Ha]. apply negb_true_iff in Hb. subst b. apply ip_eqb_eq in Ha. subst a.
    apply apply_ipev_in in Hin as [e' [He' [Hip _]]].
    unfold single_in. simpl. rewrite (proj2 (ip_eqb_eq _ _) eq_refl). simpl.
    assert (Hl : (1 <= length (filter (fun e => ip_eqb (i_ip e) (i_ip x)) t))%nat).
    { assert (Hin : In e' (filter (fun e => ip_eqb (i_ip e) (i_ip x)) t))
        by (apply filter_In; split; [exact He'|apply ip_eqb_eq; exact Hip]).
      destruct (filter _ t); [destruct Hin|simpl; lia]. }
    destruct (length _); [lia|reflexivity].
  - destruct (_ && _); simpl; exact Hrest.
Qed.

Lemma intf_get_in idx l m : intf_get idx l = Some m -> In m l.
Proof.
  induction l as [|x l IH]; simpl; [discriminate|]. destruct (mi_index x =? idx); [intros H; inversion H; auto|auto].
Qed.

Lemma held_holds l idx x : held l idx x = true -> holds_ip l (ia_ip x) = true.
Proof.
  intros H. apply held_get in H as [m [Hg Hx]]. unfold holds_ip. apply existsb_exists. exists m.
  split; [eapply intf_get_in; exact Hg|]. apply existsb_exists. exists x. split; [exact Hx|apply ip_eqb_eq; reflexivity].
Qed.

Section LastWord.
  Variable f : iface -> bool.
  Variable cur : list iface.
  Variable e : iface.
  Hypothesis Huk : uniq_keys cur.
  Hypothesis He : In e cur.
  Hypothesis Hf : f e = true.

  Lemma lw_step_held x l : In x cur -> held l (i_index e) (i_addr e) = true ->
    held (if f x then add_tbl l x else del_tbl l x) (i_index e) (i_addr e) = true.
  Proof.
    intros Hx Hh. destruct (f x) eqn:Efx.
    - rewrite held_add_tbl, Hh. reflexivity.
    - rewrite held_del_tbl, Hh. simpl. destruct (key_is x (i_index e) (i_addr e)) eqn:Ek; [|reflexivity].
      assert (x = e) by (apply Huk; assumption). subst x. congruence.
  Qed.

  Lemma apply_lw_held : forall tbl l, incl tbl cur -> held l (i_index e) (i_addr e) = true ->
    forall acc, lastdel (i_ip e) (apply_ipev f l tbl) acc = true -> acc = true.
  Proof.
    induction tbl as [|x t IH]; intros l Hi Hh acc H; simpl in H; [exact H|].
    rewrite lastdel_app in H.
    assert (Hx : In x cur) by (apply Hi; left; reflexivity).
    pose proof (lw_step_held x l Hx Hh) as Hh'.
    apply IH in H; [|intros y Hy; apply Hi; right; exact Hy|exact Hh'].
    destruct (f x) eqn:Efx.
    - destruct (held l (i_index x) (i_addr x)); simpl in H; [exact H|].
      destruct (ip_eqb (i_ip x) (i_ip e)); [discriminate|exact H].
    - destruct (held l (i_index x) (i_addr x) && negb (holds_ip (del_tbl l x) (i_ip x))) eqn:Ec; simpl in H; [|exact H].
      destruct (ip_eqb (i_ip x) (i_ip e)) eqn:Eip; [|exact H]. exfalso.
      apply andb_true_iff in Ec as [_ Ec]. apply negb_true_iff in Ec.
      apply ip_eqb_eq in Eip. rewrite Eip in Ec. apply held_holds in Hh'. unfold i_ip in Ec. congruence.
  Qed.

  Lemma apply_lw_new : forall tbl l, incl tbl cur -> In e tbl -> held l (i_index e) (i_addr e) = false ->
    forall acc, lastdel (i_ip e) (apply_ipev f l tbl) acc = false.
  Proof.
    induction tbl as [|x t IH]; intros l Hi Hin Hh acc; [destruct Hin|]. simpl. rewrite lastdel_app.
    assert (Hx : In x cur) by (apply Hi; left; reflexivity).
    assert (Hi' : incl t cur) by (intros y Hy; apply Hi; right; exact Hy).
    destruct (key_is x (i_index e) (i_addr e)) eqn:Ek.
    - assert (x = e) by (apply Huk; assumption). subst x. rewrite Hf, Hh. simpl.
      rewrite (proj2 (ip_eqb_eq _ _) eq_refl). simpl.
      destruct (lastdel (i_ip e) (apply_ipev f (add_tbl l e) t) false) eqn:El; [|reflexivity].
      apply apply_lw_held in El; [discriminate|exact Hi'|]. rewrite held_add_tbl, key_is_self. apply orb_true_r.
    - destruct Hin as [->|Hin]; [rewrite key_is_self in Ek; discriminate|].
      apply IH; [exact Hi'|exact Hin|].
      destruct (f x); [rewrite held_add_tbl, Hh, Ek|rewrite held_del_tbl, Hh]; reflexivity.
  Qed.

  Lemma apply_Q l : forall acc, lastdel (i_ip e) (apply_ipev f l cur) acc = true -> acc = true.
  Proof.
    intros acc H. destruct (held l (i_index e) (i_addr e)) eqn:Eh.
    - eapply apply_lw_held; [apply incl_refl|exact Eh|exact H].
    - rewrite apply_lw_new in H; [discriminate|apply incl_refl|exact He|exact Eh].
  Qed.
End LastWord.

(* ---- check_ip_changes in three phases ---------------------------------------------------------------- *)

Definition kept_of (d : dstate) : list myintf :=
  map (fun m => mkMyIntf (mi_name m) (mi_index m) (filter (fun a => os_has (d_os d) (mi_index m) a) (mi_addrs m))) (d_intfs d).
Definition vanished_of (d : dstate) : list ip :=
  flat_map (fun m => map ia_ip (filter (fun a => negb (os_has (d_os d) (mi_index m) a)) (mi_addrs m))) (d_intfs d).
Definition dels_of (d : dstate) : list ip := filter (fun a => negb (holds_ip (kept_of d) a)) (vanished_of d).
Definition rm_step (acc : dstate * list obs) (m : myintf) : dstate * list obs :=
  let '(st, out) := acc in
  let st1 := set_intfs (intf_remove (mi_index m) (d_intfs st)) (d_regs st) st in
  let rmv := remove_records_on_intf (d_cache st1) (mkIntfId (mi_name m) (mi_index m)) in
  let st2 := set_cache (rm_cache rmv) (d_resolved st1) st1 in
  let ev1 := notify_removed st2 (rm_removed rmv) in
  let '(st3, ev2) := resolve_updated st2 (rm_modified rmv) in
  (st3, out ++ ev1 ++ ev2).
Definition check_mid (d : dstate) : dstate * list obs :=
  let d1 := set_intfs (kept_of d) (d_regs d) d in
  let d2 := fold_left (fun st a => map_svcs (svc_remove_ip a) st) (dels_of d) d1 in
  fold_left rm_step (filter (fun m => is_nil (mi_addrs m)) (kept_of d)) (d2, []).

Lemma check_phases now d :
  check_ip_changes now d =
  (fst (apply_intf_selections now (fst (check_mid d)) (d_os d)),
   map OIpDel (dels_of d) ++ snd (check_mid d) ++ snd (apply_intf_selections now (fst (check_mid d)) (d_os d))).
Proof.
  unfold check_ip_changes, check_mid, dels_of, vanished_of, kept_of, rm_step.
  destruct (fold_left _ (filter _ _) (_, [])) as [d3 evc]. simpl.
  destruct (apply_intf_selections now d3 (d_os d)) as [d4 eva]. reflexivity.
Qed.

(* ---- the cache invariant: a cached address record belongs to an interface the daemon holds ---------- *)

Definition addr_rec_ok (l : list myintf) (r : crec) : Prop :=
  ((r_type (c_rr r) =? TY_A) || (r_type (c_rr r) =? TY_AAAA)) = true /\
  exists m a, intf_get (ii_index (c_src r)) l = Some m /\ ii_name (c_src r) = mi_name m /\ In a (mi_addrs m).
Definition cache_ok (l : list myintf) (c : cache) : Prop := forall k r, In_table (c_addr c) k r -> addr_rec_ok l r.
Definition CInv (d : dstate) : Prop := cache_ok (d_intfs d) (d_cache d).

(* where the addresses of a resolved instance come from *)
Definition res_src (c : cache) (o : obs) : Prop :=
  match o with
  | OResolved _ _ _ _ addrs => forall ai, In ai addrs -> exists k r, In_table (c_addr c) k r /\ ii_index (c_src r) = snd ai
  | _ => True
  end.
Definition rsq (c : cache) (o : obs) : Prop := res_src c o /\ quiet o /\ not_sent o.

Lemma tget_in k t r : In r (tget k t) -> exists k', In_table t k' r.
Proof.
  induction t as [|[k' v] t IH]; simpl; [intros []|]. destruct (beq k' k).
  - intros H. exists k', v. simpl. auto.
  - intros H. destruct (IH H) as [k2 [v2 [H1 H2]]]. exists k2, v2. simpl. auto.
Qed.

Lemma resolve_from_cache_rsq c ty inst ev : resolve_from_cache c ty inst = Some ev -> rsq c ev.
Proof.
  unfold resolve_from_cache. destruct (tget inst (c_srv c)) as [|r l]; [discriminate|].
  destruct (r_data (c_rr r)); try discriminate. destruct (_ || _); [discriminate|].
  intros H. inversion H; subst ev; clear H. split; [|split; [reflexivity|exact I]].
  simpl. intros ai Hai. apply in_flat_map in Hai as [a [Ha Hai]].
  destruct (r_data (c_rr a)); try (destruct Hai; fail). destruct Hai as [<-|[]]. simpl.
  apply tget_in in Ha as [k' Hk]. exists k', a. auto.
Qed.

Lemma resolve_updated_rsq d updated : Forall (rsq (d_cache d)) (snd (resolve_updated d updated)).
Proof.
  unfold resolve_updated.
  set (cands := flat_map _ (c_ptr (d_cache d))).
  match goal with |- context [fold_left ?f cands ([], [], [])] => set (stepf := f) end.
  assert (G : forall l acc, Forall (rsq (d_cache d)) (snd acc) -> Forall (rsq (d_cache d)) (snd (fold_left stepf l acc))).
  { induction l as [|[ty inst] l IH]; intros [[nr nl] out] Hout; simpl; [exact Hout|]. apply IH.
    destruct (resolve_from_cache (d_cache d) ty inst) as [ev|] eqn:Er; simpl.
    - apply Forall_app. split; [exact Hout|constructor; [eapply resolve_from_cache_rsq; exact Er|constructor]].
    - destruct (mem inst (d_resolved d)); simpl; [|exact Hout].
      apply Forall_app. split; [exact Hout|constructor; [|constructor]]. repeat split. }
  specialize (G cands ([], [], []) (Forall_nil _)).
  destruct (fold_left stepf cands ([], [], [])) as [[nr nl] out]. exact G.
Qed.

Lemma rsq_sub c c' o : (forall k r, In_table (c_addr c) k r -> In_table (c_addr c') k r) -> rsq c o -> rsq c' o.
Proof.
  intros Hs [H1 H2]. split; [|exact H2]. destruct o; simpl in *; auto.
  intros ai Hai. destruct (H1 ai Hai) as (k & r & Hr & Hi). exists k, r. auto.
Qed.

Lemma notify_removed_rsq c d rm : Forall (rsq c) (notify_removed d rm).
Proof.
  unfold notify_removed. apply Forall_forall. intros o Ho. apply in_flat_map in Ho as [kv [_ Ho]].
  destruct (mem _ _); [|destruct Ho]. apply in_map_iff in Ho as [x [<- _]]. repeat split.
Qed.

(* the per-observation facts, relative to one selection list *)
Definition ev1 (seen cur : list iface) (sels : list selection) (o : obs) : Prop :=
  match o with
  | OIpAdd a => exists e, In e cur /\ i_ip e = a /\ last_match sels e = true
  | OIpDel a => exists e, In e seen /\ i_ip e = a /\ (~ In e cur \/ last_match sels e = false)
  | OResolved _ _ _ _ addrs =>
    forall ai, In ai addrs -> exists e, In e seen /\ i_index e = snd ai /\ (~ In e cur \/ last_match sels e = true)
  | _ => True
  end.

Lemma rsq_ev1 seen d c o : Inv seen d -> cache_ok (d_intfs d) c -> rsq c o -> ev1 seen (d_os d) (d_sels d) o.
Proof.
  intros HI Hc (H & Hq & _). unfold quiet in Hq. destruct o; simpl in *; auto; try discriminate Hq.
  intros ai Hai. destruct (H ai Hai) as (k & r & Hr & Hi). destruct (Hc k r Hr) as [_ (m & a & Hg & _ & Ha)].
  rewrite Hi in Hg. destruct (inv_seen_held _ _ HI (snd ai) a (get_held _ _ _ _ Hg Ha)) as [e [He Hk]].
  exists e. pose proof Hk as Hk'. apply key_is_eq in Hk' as [Hk1 Hk2]. split; [exact He|]. split; [exact Hk1|].
  destruct (iface_mem e (d_os d)) eqn:Em.
  - right. apply (inv_sel _ _ HI); [apply iface_mem_In; exact Em|]. rewrite Hk1, Hk2. eapply get_held; eassumption.
  - left. intros Hin. apply iface_mem_In in Hin. congruence.
Qed.

(* ---- the cache invariant through the operations -------------------------------------------------------- *)

Lemma upsert_in key f t k v' : In (k, v') (upsert key f t) ->
  In (k, v') t \/ exists v, v' = f v /\ (v = [] \/ In (k, v) t).
Proof.
  induction t as [|[k0 v0] t IH]; simpl.
  - intros [H|[]]. inversion H; subst. right. exists []. auto.
  - destruct (beq k0 key); simpl.
    + intros [H|H]; [|auto]. inversion H; subst. right. exists v0. auto.
    + intros [H|H]; [auto|]. destruct (IH H) as [H'|[v [H1 [H2|H2]]]]; [auto| |]; right; exists v; auto.
Qed.

Lemma cache_insert_addr c r src k x : In_table (c_addr (cache_insert c r src)) k x ->
  In_table (c_addr c) k x \/ (x = mkCrec r src /\ ((r_type r =? TY_A) || (r_type r =? TY_AAAA)) = true).
Proof.
  unfold cache_insert. destruct (r_type r =? TY_PTR); [auto|]. destruct (r_type r =? TY_SRV); [auto|].
  destruct (r_type r =? TY_TXT); [auto|]. destruct ((r_type r =? TY_A) || (r_type r =? TY_AAAA)) eqn:Et; [|auto].
  cbn [c_addr]. intros [v' [H1 H2]]. apply upsert_in in H1 as [H1|[v [Hv Hin]]].
  - left. exists v'. auto.
  - subst v'. unfold insert_rec in H2. destruct (existsb _ v).
    + destruct Hin as [->|Hin]; [destruct H2|]. left. exists v. auto.
    + destruct H2 as [<-|H2]; [right; auto|]. destruct Hin as [->|Hin]; [destruct H2|]. left. exists v. auto.
Qed.

Lemma handle_response_CInv d intf m a :
  intf_get (mi_index intf) (d_intfs d) = Some intf -> In a (mi_addrs intf) -> CInv d ->
  CInv (fst (handle_response d intf m)) /\
  Forall (fun o => rsq (d_cache (fst (handle_response d intf m))) o) (snd (handle_response d intf m)).
Proof.
  intros Hg Ha HC. unfold handle_response. destruct (negb (for_us d m)); [split; [exact HC|constructor]|].
  match goal with |- context [fold_left ?f ?l (d_cache d, [], [])] => set (stepf := f); set (recs := l) end.
  assert (G : forall l acc, cache_ok (d_intfs d) (fst (fst acc)) /\ Forall (fun o => quiet o /\ not_sent o /\ res_src empty_cache o) (snd (fst acc)) ->
              cache_ok (d_intfs d) (fst (fst (fold_left stepf l acc))) /\
              Forall (fun o => quiet o /\ not_sent o /\ res_src empty_cache o) (snd (fst (fold_left stepf l acc)))).
  { induction l as [|r l IH]; intros [[c found] changes] [Hc Hf]; simpl in Hc, Hf |- *; [auto|]. apply IH.
    assert (Hc' : cache_ok (d_intfs d) (cache_insert c r (mkIntfId (mi_name intf) (mi_index intf)))).
    { intros k x Hx. apply cache_insert_addr in Hx as [Hx|[-> Ht]]; [apply Hc in Hx; exact Hx|].
      split; [exact Ht|]. exists intf, a. simpl. auto. }
    destruct (is_new c r _); [|simpl; auto].
    destruct ((r_type r =? TY_PTR) && (1 <? r_ttl r)); [|simpl; auto].
    destruct (r_data r); simpl; auto. split; [exact Hc'|].
    apply Forall_app. split; [exact Hf|]. destruct (mem (r_name r) (d_browsed d)); constructor; [|constructor].
    repeat split. }
  specialize (G recs (d_cache d, [], []) (conj HC (Forall_nil _))).
  destruct (fold_left stepf recs (d_cache d, [], [])) as [[c found] changes]. simpl in G. destruct G as [Gc Gf].
  match goal with |- context [resolve_updated ?d0 ?u] =>
    pose proof (resolve_updated_rsq d0 u) as Hr; pose proof (resolve_updated_cache d0 u) as Hcache;
    pose proof (resolve_updated_facts d0 u) as [(F1 & _) _];
    destruct (resolve_updated d0 u) as [d' evs] end.
  simpl in *. split.
  - unfold CInv. rewrite Hcache, F1. exact Gc.
  - rewrite Hcache. apply Forall_app. split; [|exact Hr].
    eapply Forall_impl; [|exact Gf]. intros o (H1 & H2 & H3). split; [|auto]. destruct o; simpl in *; auto.
    intros ai Hai. destruct (H3 ai Hai) as (k & r & [v [[] _]] & _).
Qed.

Lemma cache_ok_add l i c : cache_ok l c -> cache_ok (add_tbl l i) c.
Proof.
  intros Hc k r Hr. destruct (Hc k r Hr) as [Ht (m & a & Hg & Hn & Ha)]. split; [exact Ht|].
  unfold add_tbl. destruct (intf_get (i_index i) l) as [m0|] eqn:Eg.
  - destruct (has_ifaddr (i_addr i) (mi_addrs m0)); [exists m, a; auto|].
    rewrite intf_get_put. simpl. destruct (i_index i =? ii_index (c_src r)) eqn:Ei; [|exists m, a; auto].
    apply N.eqb_eq in Ei. rewrite Ei in Eg. rewrite Eg in Hg. inversion Hg; subst m0.
    eexists; exists a. split; [reflexivity|]. simpl. split; [exact Hn|apply in_or_app; left; exact Ha].
  - rewrite intf_get_app_new by exact Eg. simpl. destruct (i_index i =? ii_index (c_src r)) eqn:Ei; [|exists m, a; auto].
    apply N.eqb_eq in Ei. rewrite Ei in Eg. congruence.
Qed.

Lemma cache_ok_sub l c c' : (forall k r, In_table (c_addr c') k r -> In_table (c_addr c) k r) -> cache_ok l c -> cache_ok l c'.
Proof. intros Hs Hc k r Hr. apply (Hc k). apply Hs. exact Hr. Qed.

Lemma add_interface_CInv now st i : CInv st -> CInv (fst (add_interface now st i)).
Proof.
  intros HC. unfold CInv. pose proof (add_interface_intfs now st i) as (A1 & _). rewrite A1, add_interface_cache.
  apply cache_ok_add. exact HC.
Qed.

Lemma del_ifaddr_in b l a : In a (del_ifaddr b l) -> In a l.
Proof. unfold del_ifaddr. intros H. apply filter_In in H. tauto. Qed.

Lemma del_interface_addr_CInv st i : CInv st -> CInv (fst (del_interface_addr st i)).
Proof.
  intros HC. unfold CInv, del_interface_addr.
  destruct (intf_get (i_index i) (d_intfs st)) as [m|] eqn:Eg; [|exact HC].
  destruct (has_ifaddr (i_addr i) (mi_addrs m)) eqn:Eh; [|exact HC].
  destruct (is_nil (del_ifaddr (i_addr i) (mi_addrs m))) eqn:En.
  - (* the interface goes: every address record learned on it is dropped *)
    assert (G : cache_ok (intf_remove (i_index i) (d_intfs st)) (remove_addrs_on_disabled_intf (d_cache st) (i_index i) TBoth)).
    { intros k r Hr. pose proof (disabled_family_addresses_dropped (d_cache st) (i_index i) TBoth) as H. cbv zeta in H.
      destruct H as (_ & _ & _ & _ & _ & H). apply H in Hr as [Hr Hd].
      destruct (HC k r Hr) as [Ht (m0 & a & Hg & Hn & Ha)]. split; [exact Ht|].
      simpl in Hd. rewrite Ht, andb_true_r in Hd. rewrite intf_get_remove, Hd. exists m0, a. auto. }
    destruct (holds_ip _ _); simpl; exact G.
  - assert (G : forall c, (forall k r, In_table (c_addr c) k r -> In_table (c_addr (d_cache st)) k r) ->
                 cache_ok (intf_put (mkMyIntf (mi_name m) (i_index i) (del_ifaddr (i_addr i) (mi_addrs m))) (d_intfs st)) c).
    { intros c Hs k r Hr. destruct (HC k r (Hs k r Hr)) as [Ht (m0 & a & Hg & Hn & Ha)]. split; [exact Ht|].
      rewrite intf_get_put. simpl. destruct (i_index i =? ii_index (c_src r)) eqn:Ei; [|exists m0, a; auto].
      apply N.eqb_eq in Ei. rewrite Ei in Eg. rewrite Eg in Hg. inversion Hg; subst m0.
      destruct (del_ifaddr (i_addr i) (mi_addrs m)) as [|a' l'] eqn:Ed; [discriminate|].
      eexists; exists a'. split; [reflexivity|]. simpl. auto. }
    destruct (negb (family_enabled _ _)); destruct (holds_ip _ _); simpl; apply G; auto;
      intros k r Hr; pose proof (disabled_family_addresses_dropped (d_cache st) (i_index i) (if is_v4 (i_ip i) then TV4 else TV6)) as H;
      cbv zeta in H; destruct H as (_ & _ & _ & _ & _ & H); apply H in Hr; tauto.
Qed.

Lemma apply_CInv now tbl : forall d, CInv d -> CInv (fst (apply_intf_selections now d tbl)).
Proof.
  intros d. unfold apply_intf_selections. generalize (selection_marks ParamsResponder.apply_selection_default (d_sels d) tbl).
  intros marks. generalize (@nil obs). revert d marks.
  induction tbl as [|e tbl IH]; intros d marks out HC; simpl; [exact HC|].
  destruct marks as [|mk marks]; simpl; [exact HC|].
  destruct mk.
  - pose proof (add_interface_CInv now d e HC) as H. destruct (add_interface now d e) as [st' o]. apply IH. exact H.
  - pose proof (del_interface_addr_CInv d e HC) as H. destruct (del_interface_addr d e) as [st' o]. apply IH. exact H.
Qed.

(* ---- the middle phase of the IP check: interfaces without addresses are removed -------------------- *)

Definition id_of (m : myintf) : intf_id := mkIntfId (mi_name m) (mi_index m).

Lemma rm_step_facts st out x :
  let r := rm_step (st, out) x in
  d_sels (fst r) = d_sels st /\ d_os (fst r) = d_os st /\
  d_intfs (fst r) = intf_remove (mi_index x) (d_intfs st) /\
  d_cache (fst r) = rm_cache (remove_records_on_intf (d_cache st) (id_of x)) /\
  exists new, snd r = out ++ new /\ Forall (rsq (d_cache st)) new.
Proof.
  cbv zeta. unfold rm_step.
  match goal with |- context [resolve_updated ?st2 ?u] =>
    pose proof (resolve_updated_rsq st2 u) as Hr; pose proof (resolve_updated_cache st2 u) as Hc;
    pose proof (resolve_updated_facts st2 u) as [(F1 & F2 & F3 & _) _];
    destruct (resolve_updated st2 u) as [st3 ev2] end.
  simpl in *. rewrite F1, F2, F3, Hc. repeat split; try reflexivity.
  eexists. split; [reflexivity|].
  assert (Hs : forall k r, In_table (c_addr (rm_cache (remove_records_on_intf (d_cache st) (id_of x)))) k r ->
                           In_table (c_addr (d_cache st)) k r).
  { intros k r H. pose proof (removal_cache_contents (d_cache st) (id_of x)) as C. cbv zeta in C.
    destruct C as (_ & _ & _ & C & _). apply C in H. tauto. }
  apply Forall_app. split.
  - eapply Forall_impl; [|apply (notify_removed_rsq (d_cache st))]. auto.
  - eapply Forall_impl; [|exact Hr]. intros o. apply rsq_sub. exact Hs.
Qed.

Lemma rm_fold_facts : forall l acc,
  let r := fold_left rm_step l acc in
  d_sels (fst r) = d_sels (fst acc) /\ d_os (fst r) = d_os (fst acc) /\
  (forall k x, In_table (c_addr (d_cache (fst r))) k x ->
     In_table (c_addr (d_cache (fst acc))) k x /\ forall m, In m l -> on_intf (id_of m) x = false) /\
  (forall idx, (exists m, In m l /\ mi_index m = idx /\ intf_get idx (d_intfs (fst r)) = None) \/
               intf_get idx (d_intfs (fst r)) = intf_get idx (d_intfs (fst acc))) /\
  exists new, snd r = snd acc ++ new /\ Forall (rsq (d_cache (fst acc))) new.
Proof.
  induction l as [|m l IH]; intros [st out]; cbv zeta.
  - simpl. split; [reflexivity|]. split; [reflexivity|]. split; [intros k x H; split; [exact H|intros m []]|].
    split; [intros idx; right; reflexivity|]. exists []. rewrite app_nil_r. auto.
  - cbn [fold_left]. pose proof (rm_step_facts st out m) as S. cbv zeta in S.
    destruct (rm_step (st, out) m) as [st1 out1] eqn:Es. simpl in S.
    destruct S as (S1 & S2 & S3 & S4 & new1 & S5 & S6).
    specialize (IH (st1, out1)). cbv zeta in IH. destruct IH as (I1 & I2 & I3 & I4 & new2 & I5 & I6). simpl in *.
    pose proof (removal_cache_contents (d_cache st) (id_of m)) as C. cbv zeta in C. destruct C as (_ & _ & _ & C & _).
    split; [congruence|]. split; [congruence|]. split; [|split].
    + intros k x Hx. destruct (I3 k x Hx) as [Hx1 Hx2]. rewrite S4 in Hx1. apply C in Hx1 as [Hx1 Hx3].
      split; [exact Hx1|]. intros m' [<-|Hm']; [exact Hx3|apply Hx2; exact Hm'].
    + intros idx. destruct (I4 idx) as [(m' & Hm' & Hi & Hn)|Hsame].
      * left. exists m'. auto.
      * rewrite S3, intf_get_remove in Hsame. destruct (idx =? mi_index m) eqn:Ei; [|right; exact Hsame].
        left. exists m. apply N.eqb_eq in Ei. auto.
    + exists (new1 ++ new2). split; [rewrite I5, S5, app_assoc; reflexivity|].
      apply Forall_app. split; [exact S6|]. eapply Forall_impl; [|exact I6]. intros o. apply rsq_sub.
      intros k r H. rewrite S4 in H. apply C in H. tauto.
Qed.

Lemma kept_get d idx : intf_get idx (kept_of d) =
  option_map (fun m => mkMyIntf (mi_name m) (mi_index m) (filter (fun a => os_has (d_os d) (mi_index m) a) (mi_addrs m)))
             (intf_get idx (d_intfs d)).
Proof. unfold kept_of. apply intf_get_map. reflexivity. Qed.

Lemma svc_fold_frame l : forall st,
  let r := fold_left (fun st a => map_svcs (svc_remove_ip a) st) l st in
  d_sels r = d_sels st /\ d_os r = d_os st /\ d_intfs r = d_intfs st /\ d_cache r = d_cache st.
Proof. induction l as [|a l IH]; intros st; simpl; [auto|]. destruct (IH (map_svcs (svc_remove_ip a) st)) as (A & B & C & D). auto. Qed.

Lemma check_mid_facts seen d : Inv seen d -> CInv d ->
  let r := check_mid d in
  d_sels (fst r) = d_sels d /\ d_os (fst r) = d_os d /\
  (forall idx a, held (d_intfs (fst r)) idx a = true -> held (kept_of d) idx a = true) /\
  Forall (rsq (d_cache d)) (snd r) /\ CInv (fst r).
Proof.
  intros HI HC. cbv zeta. unfold check_mid.
  set (d1 := set_intfs (kept_of d) (d_regs d) d).
  pose proof (svc_fold_frame (dels_of d) d1) as F. cbv zeta in F.
  set (d2 := fold_left _ (dels_of d) d1) in *. destruct F as (F1 & F2 & F3 & F4). simpl in F1, F2, F3, F4.
  set (gone := filter (fun m => is_nil (mi_addrs m)) (kept_of d)).
  pose proof (rm_fold_facts gone (d2, [])) as R. cbv zeta in R. destruct (fold_left rm_step gone (d2, [])) as [d3 evc].
  simpl in R. destruct R as (R1 & R2 & R3 & R4 & new & R5 & R6). subst evc. rewrite F4 in R3, R6. rewrite F3 in R4.
  simpl fst. simpl snd. split; [congruence|]. split; [congruence|]. split; [|split; [exact R6|]].
  - intros idx a H. unfold held in *. destruct (R4 idx) as [(m & _ & _ & Hn)|Hs]; [rewrite Hn in H; discriminate|].
    rewrite Hs in H. exact H.
  - intros k r Hr. destruct (R3 k r Hr) as [Hr0 Hno]. destruct (HC k r Hr0) as [Ht (m & a & Hg & Hn & Ha)].
    split; [exact Ht|]. set (idx := ii_index (c_src r)) in *.
    set (m' := mkMyIntf (mi_name m) (mi_index m) (filter (fun a => os_has (d_os d) (mi_index m) a) (mi_addrs m))).
    assert (Hk : intf_get idx (kept_of d) = Some m') by (rewrite kept_get, Hg; reflexivity).
    pose proof (intf_get_index _ _ _ Hg) as Hidx.
    destruct (mi_addrs m') as [|a' l'] eqn:Ea.
    + (* the interface lost all its addresses: it was removed, and r with it *)
      exfalso. assert (Hin : In m' gone).
      { apply filter_In. split; [eapply intf_get_in; exact Hk|]. rewrite Ea. reflexivity. }
      specialize (Hno m' Hin). unfold on_intf, id_of, intf_id_eqb in Hno. subst m'. simpl in Hno.
      rewrite Hn, Hidx in Hno. unfold idx in Hno. rewrite N.eqb_refl, andb_true_r in Hno.
      rewrite (proj2 (beq_eq _ _) eq_refl) in Hno. discriminate.
    + destruct (R4 idx) as [(x & Hx & Hxi & _)|Hs].
      * (* a removed interface has this index: it is m' itself *)
        exfalso. apply filter_In in Hx as [Hx Hnil].
        assert (Hux : uniq_idx (kept_of d)).
        { unfold uniq_idx, kept_of. rewrite map_map. simpl. apply (inv_idx _ _ HI). }
        pose proof (in_get _ _ Hux Hx) as Hgx. rewrite Hxi, Hk in Hgx. inversion Hgx; subst x. rewrite Ea in Hnil. discriminate.
      * exists m', a'. rewrite Hs, Hk. split; [reflexivity|]. split; [exact Hn|]. rewrite Ea. left. reflexivity.
Qed.

(* ---- what each operation reports ------------------------------------------------------------------------ *)

Definition plain (o : obs) : Prop := match o with OSent _ | OFound _ _ | ORemoved _ _ => True | _ => False end.
Lemma plain_ev1 seen cur sels o : plain o -> ev1 seen cur sels o.
Proof. destruct o; simpl; tauto. Qed.
Lemma plain_quiet o : plain o -> quiet o.
Proof. destruct o; simpl; unfold quiet; simpl; tauto. Qed.
Lemma map_sent_plain {A} (f : A -> packet) l : Forall plain (map (fun p => OSent (f p)) l).
Proof. apply Forall_forall. intros o Ho. apply in_map_iff in Ho as [x [<- _]]. exact I. Qed.

(* the entry an IpAdd / IpDel is about *)
Definition ip_of_entry (i : iface) (b : bool) (o : obs) : Prop :=
  match o with
  | OSent _ => True
  | OIpAdd a => b = true /\ a = i_ip i
  | OIpDel a => b = false /\ a = i_ip i
  | _ => False
  end.

Lemma add_interface_shape now st i : Forall (ip_of_entry i true) (snd (add_interface now st i)).
Proof.
  unfold add_interface.
  destruct (match intf_get (i_index i) (d_intfs st) with Some m => _ | None => _ end) as [intfs' new_addr].
  destruct (negb new_addr); [constructor|]. destruct (intf_get (i_index i) intfs'); [|constructor].
  match goal with |- context [fold_left ?f ?l ([], [], [])] => set (stepf := f); set (sv := l) end.
  assert (G : forall l acc, Forall (ip_of_entry i true) (snd (fst acc)) -> Forall (ip_of_entry i true) (snd (fst (fold_left stepf l acc)))).
  { induction l as [|kv l IH]; intros [[svcs sent] resend] Hs; simpl in Hs |- *; [exact Hs|]. apply IH.
    destruct (ds_auto (snd kv)); [|exact Hs]. destruct (announce_on _ _ _); simpl; [|exact Hs].
    apply Forall_app. split; [exact Hs|constructor; [exact I|constructor]]. }
  specialize (G sv ([], [], []) (Forall_nil _)). destruct (fold_left stepf sv ([], [], [])) as [[svcs' sent] resend].
  simpl in *. apply Forall_app. split; [exact G|constructor; [split; reflexivity|constructor]].
Qed.

Lemma del_interface_addr_shape st i : Forall (ip_of_entry i false) (snd (del_interface_addr st i)).
Proof.
  unfold del_interface_addr. destruct (intf_get (i_index i) (d_intfs st)) as [m|]; [|constructor].
  destruct (has_ifaddr _ _); [|constructor].
  destruct (is_nil _).
  - destruct (holds_ip _ _); simpl; repeat constructor.
  - destruct (negb (family_enabled _ _)); destruct (holds_ip _ _); simpl; repeat constructor.
Qed.

Lemma apply_fold_ev1 seen cur sels now tbl : incl tbl cur -> incl cur seen -> forall st out,
  Forall (ev1 seen cur sels) out ->
  Forall (ev1 seen cur sels)
    (snd (fold_left (fun (acc : dstate * list obs) (im : iface * bool) =>
                        let '(st, out) := acc in
                        let '(st', o) := if snd im then add_interface now st (fst im) else del_interface_addr st (fst im) in
                        (st', out ++ o)) (combine tbl (map (last_match sels) tbl)) (st, out))).
Proof.
  intros Ht Hc. induction tbl as [|e tbl IH]; intros st out Ho; simpl; [exact Ho|].
  assert (He : In e cur) by (apply Ht; left; reflexivity).
  assert (Ht' : incl tbl cur) by (intros x Hx; apply Ht; right; exact Hx).
  destruct (last_match sels e) eqn:Es.
  - pose proof (add_interface_shape now st e) as Hs. destruct (add_interface now st e) as [st' o]. simpl in *.
    apply IH; [exact Ht'|]. apply Forall_app. split; [exact Ho|]. eapply Forall_impl; [|exact Hs].
    intros x Hx. destruct x; simpl in *; try tauto; destruct Hx as [Hb Ha]; try discriminate Hb. subst a. exists e. auto.
  - pose proof (del_interface_addr_shape st e) as Hs. destruct (del_interface_addr st e) as [st' o]. simpl in *.
    apply IH; [exact Ht'|]. apply Forall_app. split; [exact Ho|]. eapply Forall_impl; [|exact Hs].
    intros x Hx. destruct x; simpl in *; try tauto; destruct Hx as [Hb Ha]; try discriminate Hb. subst a.
    exists e. split; [apply Hc; exact He|]. auto.
Qed.

Lemma apply_ev1 seen now d : incl (d_os d) seen ->
  Forall (ev1 seen (d_os d) (d_sels d)) (snd (apply_intf_selections now d (d_os d))).
Proof.
  intros Hc. unfold apply_intf_selections. rewrite apply_marks_last_match.
  apply apply_fold_ev1; [apply incl_refl|exact Hc|constructor].
Qed.

(* register / unregister / retransmissions: packets only; interfaces and cache untouched *)
Lemma do_register_plain now d s auto :
  d_intfs (fst (do_register now d s auto)) = d_intfs d /\ d_cache (fst (do_register now d s auto)) = d_cache d /\
  Forall plain (snd (do_register now d s auto)).
Proof.
  unfold do_register.
  match goal with |- context [fold_left ?f (d_intfs d) ([], [], [])] => set (stepf := f) end.
  assert (G : forall l acc, Forall plain (snd (fst acc)) -> Forall plain (snd (fst (fold_left stepf l acc)))).
  { induction l as [|intf l IH]; intros [[st sent] resend] Hs; simpl in Hs |- *; [exact Hs|]. apply IH.
    destruct (is_nil _); simpl; [exact Hs|]. apply Forall_app. split; [exact Hs|apply map_sent_plain]. }
  specialize (G (d_intfs d) ([], [], []) (Forall_nil _)).
  destruct (fold_left stepf (d_intfs d) ([], [], [])) as [[st sent] resend]. simpl in *. auto.
Qed.

Lemma do_unregister_plain now d key :
  d_intfs (fst (do_unregister now d key)) = d_intfs d /\ d_cache (fst (do_unregister now d key)) = d_cache d /\
  Forall plain (snd (do_unregister now d key)).
Proof.
  unfold do_unregister. destruct (svc_get key (d_svcs d)) as [ds|]; [|simpl; auto].
  match goal with |- context [fold_left ?f (d_intfs d) ([], [])] => set (stepf := f) end.
  assert (G : forall l acc, Forall plain (fst acc) -> Forall plain (fst (fold_left stepf l acc))).
  { induction l as [|intf l IH]; intros [sent resend] Hs; simpl in Hs |- *; [exact Hs|]. apply IH.
    destruct (negb _); simpl; [exact Hs|]. apply Forall_app. split; [exact Hs|apply map_sent_plain]. }
  specialize (G (d_intfs d) ([], []) (Forall_nil _)).
  destruct (fold_left stepf (d_intfs d) ([], [])) as [sent resend]. simpl in *. auto.
Qed.

Lemma do_retrans_plain d c :
  d_intfs (fst (do_retrans d c)) = d_intfs d /\ d_cache (fst (do_retrans d c)) = d_cache d /\
  Forall plain (snd (do_retrans d c)).
Proof.
  destruct c as [key idx|p idx v4]; simpl.
  - destruct (svc_get key (d_svcs d)); [|simpl; auto]. destruct (intf_get idx (d_intfs d)); [|simpl; auto].
    destruct (memN idx (d_regs d)); [|simpl; auto]. destruct (is_nil _); simpl; [auto|].
    split; [reflexivity|]. split; [reflexivity|apply map_sent_plain].
  - destruct (intf_get idx (d_intfs d)); [|simpl; auto]. destruct (family_enabled _ _); simpl; auto.
    split; [reflexivity|]. split; [reflexivity|]. repeat constructor.
Qed.

Lemma do_browse_rsq d ty :
  d_intfs (fst (do_browse d ty)) = d_intfs d /\ d_cache (fst (do_browse d ty)) = d_cache d /\
  Forall (rsq (d_cache d)) (snd (do_browse d ty)).
Proof.
  unfold do_browse.
  match goal with |- context [fold_left ?f ?l (d_resolved d, [])] => set (stepf := f); set (recs := l) end.
  assert (G : forall l acc, Forall (rsq (d_cache d)) (snd acc) -> Forall (rsq (d_cache d)) (snd (fold_left stepf l acc))).
  { induction l as [|r l IH]; intros [res out] Ho; simpl in Ho |- *; [exact Ho|]. apply IH.
    destruct (alias_of r) as [inst|]; [|exact Ho].
    destruct (resolve_from_cache (d_cache d) ty inst) as [ev|] eqn:Er; simpl.
    - apply Forall_app. split; [exact Ho|]. constructor; [repeat split|].
      constructor; [eapply resolve_from_cache_rsq; exact Er|constructor].
    - apply Forall_app. split; [exact Ho|]. constructor; [repeat split|constructor]. }
  specialize (G recs (d_resolved d, []) (Forall_nil _)).
  destruct (fold_left stepf recs (d_resolved d, [])) as [res out]. simpl in *. auto.
Qed.

(* ---- one piece of an iteration: the observations made while one selection list is in force ---------- *)

Definition lw_ok (cur : list iface) (sels : list selection) (o : list obs) : Prop :=
  forall e, In e cur -> last_match sels e = true -> forall acc, lastdel (i_ip e) (ipev o) acc = true -> acc = true.

Lemma lw_ok_quiet cur sels o : ipev o = [] -> lw_ok cur sels o.
Proof. intros H e _ _ acc. rewrite H. simpl. auto. Qed.

Lemma rsq_list_ev1 seen d c l : Inv seen d -> cache_ok (d_intfs d) c -> Forall (rsq c) l ->
  Forall (ev1 seen (d_os d) (d_sels d)) l /\ ipev l = [].
Proof.
  intros HI Hc Hl. split.
  - eapply Forall_impl; [|exact Hl]. intros o. apply rsq_ev1; assumption.
  - apply ipev_quiet. eapply Forall_impl; [|exact Hl]. intros o (_ & H & _). exact H.
Qed.

Lemma plain_list seen cur sels l : Forall plain l -> Forall (ev1 seen cur sels) l /\ ipev l = [].
Proof.
  intros H. split; [eapply Forall_impl; [|exact H]; intros o; apply plain_ev1|].
  apply ipev_quiet. eapply Forall_impl; [|exact H]. intros o. apply plain_quiet.
Qed.

Lemma handle_dgram_ev seen d g : Inv seen d -> CInv d ->
  CInv (fst (handle_dgram d g)) /\
  Forall (ev1 seen (d_os d) (d_sels d)) (snd (handle_dgram d g)) /\ ipev (snd (handle_dgram d g)) = [].
Proof.
  intros HI HC. destruct (handle_dgram_ok seen d g HI) as [Hf _]. pose proof (Inv_frame _ _ _ Hf HI) as HI'.
  destruct Hf as (F1 & F2 & F3 & _). revert HI' F1 F2 F3. unfold handle_dgram.
  destruct (intf_get (dg_if g) (d_intfs d)) as [intf|] eqn:Eg; [|intros; split; [exact HC|split; [constructor|reflexivity]]].
  destruct (negb (family_enabled intf (is_v4 (dg_src g)))) eqn:Ef; [intros; split; [exact HC|split; [constructor|reflexivity]]|].
  apply negb_false_iff in Ef.
  destruct (decode (dg_data g)) as [m| | |]; try (intros; split; [exact HC|split; [constructor|reflexivity]]).
  destruct (N.land (m_flags m) 32768 =? 0).
  - destruct (memN (dg_if g) (d_regs d)); [|intros; split; [exact HC|split; [constructor|reflexivity]]].
    intros. split; [exact HC|]. apply plain_list. apply map_sent_plain.
  - intros HI' F1 F2 F3. destruct (family_enabled_addr _ _ Ef) as [a [Ha _]].
    pose proof (intf_get_index _ _ _ Eg) as Hidx. rewrite <- Hidx in Eg.
    destruct (handle_response_CInv d intf m a Eg Ha HC) as [H1 H2]. split; [exact H1|].
    rewrite <- F2, <- F3. apply (rsq_list_ev1 seen _ (d_cache (fst (handle_response d intf m)))); [exact HI'|exact H1|exact H2].
Qed.

Lemma sel_state_frame d sels :
  let d1 := mkD (d_os d) (d_intfs d) (d_regs d) sels (d_svcs d) (d_cache d) (d_browsed d) (d_resolved d)
                (d_interval d) (d_next_check d) (d_retrans d) in
  CInv d -> CInv d1.
Proof. intros d1 H. exact H. Qed.

Lemma do_call_ev seen now d c : Inv seen d -> CInv d ->
  let sels' := d_sels (fst (do_call now d c)) in
  CInv (fst (do_call now d c)) /\
  Forall (ev1 seen (d_os d) sels') (snd (do_call now d c)) /\ lw_ok (d_os d) sels' (snd (do_call now d c)) /\
  (match c with CEnable _ | CDisable _ => True | _ => ipev (snd (do_call now d c)) = [] end).
Proof.
  intros HI HC. destruct (do_call_ok seen now d c HI) as (HI' & Hos & _ & Hsel). cbv zeta. rewrite Hsel. clear Hsel.
  destruct c as [ks|ks|s auto|key|secs|ty]; simpl do_call in *.
  - set (sels := push_selections (d_sels d) ks true (d_os d)).
    set (d1 := mkD (d_os d) (d_intfs d) (d_regs d) sels (d_svcs d) (d_cache d) (d_browsed d) (d_resolved d)
                   (d_interval d) (d_next_check d) (d_retrans d)).
    split; [apply apply_CInv; exact HC|]. split; [apply (apply_ev1 seen now d1); apply (inv_seen_os _ _ HI)|]. split; [|exact I].
    intros e He Hl acc. rewrite (apply_ipev_spec now d1). apply apply_Q; [apply (inv_os _ _ HI)|exact He|exact Hl].
  - set (sels := push_selections (d_sels d) ks false (d_os d)).
    set (d1 := mkD (d_os d) (d_intfs d) (d_regs d) sels (d_svcs d) (d_cache d) (d_browsed d) (d_resolved d)
                   (d_interval d) (d_next_check d) (d_retrans d)).
    split; [apply apply_CInv; exact HC|]. split; [apply (apply_ev1 seen now d1); apply (inv_seen_os _ _ HI)|]. split; [|exact I].
    intros e He Hl acc. rewrite (apply_ipev_spec now d1). apply apply_Q; [apply (inv_os _ _ HI)|exact He|exact Hl].
  - destruct (do_register_plain now d s auto) as (A & B & C). destruct (plain_list seen (d_os d) (d_sels d) _ C) as [P1 P2].
    split; [unfold CInv; rewrite A, B; exact HC|]. split; [exact P1|]. split; [apply lw_ok_quiet; exact P2|exact P2].
  - destruct (do_unregister_plain now d key) as (A & B & C). destruct (plain_list seen (d_os d) (d_sels d) _ C) as [P1 P2].
    split; [unfold CInv; rewrite A, B; exact HC|]. split; [exact P1|]. split; [apply lw_ok_quiet; exact P2|exact P2].
  - split; [exact HC|]. split; [constructor|]. split; [apply lw_ok_quiet; reflexivity|reflexivity].
  - destruct (do_browse_rsq d ty) as (A & B & C). destruct (rsq_list_ev1 seen d (d_cache d) _ HI HC C) as [P1 P2].
    split; [unfold CInv; rewrite A, B; exact HC|]. split; [exact P1|]. split; [apply lw_ok_quiet; exact P2|exact P2].
Qed.

Lemma ipev_dels l : ipev (map OIpDel l) = map (fun a => (false, a)) l.
Proof. induction l; simpl; [reflexivity|]. unfold ipev in *. simpl. rewrite IHl. reflexivity. Qed.

Lemma lastdel_dels_notin a l : ~ In a l -> forall acc, lastdel a (map (fun x => (false, x)) l) acc = acc.
Proof.
  induction l as [|x l IH]; intros Hn acc; simpl; [reflexivity|].
  destruct (ip_eqb x a) eqn:E; [apply ip_eqb_eq in E; subst; exfalso; apply Hn; left; reflexivity|].
  apply IH. intros H. apply Hn. right. exact H.
Qed.

Lemma os_has_in tbl e : In e tbl -> os_has tbl (i_index e) (i_addr e) = true.
Proof.
  intros H. unfold os_has. apply existsb_exists. exists e. split; [exact H|]. rewrite N.eqb_refl. apply ifaddr_eqb_refl.
Qed.

Lemma check_ev seen now d : Inv seen d -> CInv d ->
  let r := check_ip_changes now d in
  CInv (fst r) /\ Forall (ev1 seen (d_os d) (d_sels d)) (snd r) /\ lw_ok (d_os d) (d_sels d) (snd r) /\
  nda (d_os d) (ipev (snd r)) = true.
Proof.
  intros HI HC. cbv zeta. rewrite check_phases. cbn [fst snd].
  pose proof (check_mid_facts seen d HI HC) as M. cbv zeta in M. destruct M as (M1 & M2 & M3 & M4 & M5).
  set (d3 := fst (check_mid d)) in *. set (evc := snd (check_mid d)) in *.
  destruct (rsq_list_ev1 seen d (d_cache d) evc HI HC M4) as [Ec1 Ec2].
  pose proof (apply_ev1 seen now d3) as Ea. rewrite M1, M2 in Ea. specialize (Ea (inv_seen_os _ _ HI)).
  pose proof (apply_ipev_spec now d3 (d_os d)) as Es. rewrite M1 in Es.
  split; [apply apply_CInv; exact M5|]. split; [|split].
  - apply Forall_app. split; [|apply Forall_app; split; assumption].
    apply Forall_forall. intros o Ho. apply in_map_iff in Ho as [a [<- Ha]]. simpl.
    unfold dels_of in Ha. apply filter_In in Ha as [Ha _]. unfold vanished_of in Ha.
    apply in_flat_map in Ha as [m [Hm Ha]]. apply in_map_iff in Ha as [x [<- Hx]]. apply filter_In in Hx as [Hx Hos].
    apply negb_true_iff in Hos.
    pose proof (in_get _ _ (inv_idx _ _ HI) Hm) as Hg.
    destruct (inv_seen_held _ _ HI _ _ (get_held _ _ _ _ Hg Hx)) as [e [He Hk]]. apply key_is_eq in Hk as [Hk1 Hk2].
    exists e. split; [exact He|]. split; [unfold i_ip; rewrite Hk2; reflexivity|]. left. intros Hin.
    apply os_has_in in Hin. rewrite Hk1, Hk2 in Hin. congruence.
  - intros e He Hl acc. rewrite !ipev_app, Ec2, ipev_dels, Es. simpl. rewrite lastdel_app. intros H.
    destruct (held (d_intfs d3) (i_index e) (i_addr e)) eqn:Eh.
    + rewrite lastdel_dels_notin in H.
      * eapply apply_lw_held; [apply (inv_os _ _ HI)|exact He|exact Hl|apply incl_refl|exact Eh|exact H].
      * intros Hin. unfold dels_of in Hin. apply filter_In in Hin as [_ Hin]. apply negb_true_iff in Hin.
        apply M3 in Eh. apply held_holds in Eh. unfold i_ip in Hin. congruence.
    + rewrite (apply_lw_new (last_match (d_sels d)) (d_os d) e (inv_os _ _ HI) He Hl) in H;
        [discriminate|apply incl_refl|exact He|exact Eh].
  - rewrite !ipev_app, Ec2, ipev_dels, Es. simpl. rewrite nda_dels. apply apply_nda.
Qed.

(* ---- lists of operations -------------------------------------------------------------------------------- *)

Definition ev_st (seen cur : list iface) (states : list (list selection)) (o : obs) : Prop :=
  exists sels, In sels states /\ ev1 seen cur sels o.
Definition lw_all (cur : list iface) (states : list (list selection)) (o : list obs) : Prop :=
  forall e, In e cur -> (forall sels, In sels states -> last_match sels e = true) ->
  forall acc, lastdel (i_ip e) (ipev o) acc = true -> acc = true.

Lemma ev_st_incl seen cur s1 s2 o : incl s1 s2 -> ev_st seen cur s1 o -> ev_st seen cur s2 o.
Proof. intros Hi (sels & H1 & H2). exists sels. auto. Qed.

Lemma lw_all_app cur states o1 o2 : lw_all cur states o1 -> lw_all cur states o2 -> lw_all cur states (o1 ++ o2).
Proof.
  intros H1 H2 e He Hs acc. rewrite ipev_app, lastdel_app. intros H. apply H2 in H; auto. apply H1 in H; auto.
Qed.

Lemma lw_all_of cur states sels o : In sels states -> lw_ok cur sels o -> lw_all cur states o.
Proof. intros Hin H e He Hs acc. apply H; auto. Qed.

Lemma lw_all_incl cur s1 s2 o : incl s1 s2 -> lw_all cur s1 o -> lw_all cur s2 o.
Proof. intros Hi H e He Hs acc. apply H; auto. Qed.

Lemma dgrams_ev seen l : forall d, Inv seen d -> CInv d ->
  CInv (fst (run_list handle_dgram l d)) /\
  Forall (ev1 seen (d_os d) (d_sels d)) (snd (run_list handle_dgram l d)) /\ ipev (snd (run_list handle_dgram l d)) = [].
Proof.
  induction l as [|g l IH]; intros d HI HC; [rewrite run_list_nil; simpl; auto|].
  rewrite run_list_cons. destruct (handle_dgram_ok seen d g HI) as [Hf _]. pose proof Hf as (F1 & F2 & F3 & F4).
  destruct (handle_dgram_ev seen d g HI HC) as (E1 & E2 & E3).
  destruct (IH (fst (handle_dgram d g)) (Inv_frame _ _ _ Hf HI) E1) as (H1 & H2 & H3).
  simpl. rewrite F2, F3 in H2. split; [exact H1|]. split; [apply Forall_app; auto|]. rewrite ipev_app, E3, H3. reflexivity.
Qed.

Lemma calls_ev seen now cur l : forall d, Inv seen d -> CInv d -> d_os d = cur ->
  let r := run_list (do_call now) l d in
  CInv (fst r) /\ Forall (ev_st seen cur (sel_states (d_sels d) cur l)) (snd r) /\
  lw_all cur (sel_states (d_sels d) cur l) (snd r) /\ (no_sel_calls l = true -> ipev (snd r) = []).
Proof.
  induction l as [|c l IH]; intros d HI HC Hos; cbv zeta.
  - rewrite run_list_nil. simpl. split; [exact HC|]. split; [constructor|]. split; [|reflexivity].
    intros e _ _ acc H. exact H.
  - rewrite run_list_cons. destruct (do_call_ok seen now d c HI) as (H1 & H2 & _ & H4).
    pose proof (do_call_ev seen now d c HI HC) as E. cbv zeta in E. destruct E as (E1 & E2 & E3 & E4).
    assert (Hfs : d_sels (fst (do_call now d c)) = final_sels (d_sels d) cur [c]).
    { rewrite H4, Hos. destruct c; reflexivity. }
    rewrite Hos, Hfs in E2, E3.
    pose proof (IH (fst (do_call now d c)) H1 E1 (eq_trans H2 Hos)) as K. cbv zeta in K. destruct K as (K1 & K2 & K3 & K4).
    rewrite Hfs in K2, K3.
    assert (Hin : In (final_sels (d_sels d) cur [c]) (sel_states (d_sels d) cur (c :: l)))
      by (apply sel_states_tail; apply sel_states_head).
    cbn [fst snd]. split; [exact K1|]. split; [|split].
    + apply Forall_app. split.
      * eapply Forall_impl; [|exact E2]. intros o Ho. exists (final_sels (d_sels d) cur [c]). auto.
      * eapply Forall_impl; [|exact K2]. intros o. apply ev_st_incl. apply sel_states_tail.
    + apply lw_all_app; [eapply lw_all_of; eassumption|]. eapply lw_all_incl; [|exact K3]. apply sel_states_tail.
    + intros Hn. simpl in Hn. apply andb_true_iff in Hn as [Hn1 Hn2]. rewrite ipev_app, (K4 Hn2).
      destruct c; try discriminate Hn1; rewrite E4; reflexivity.
Qed.

Lemma retrans_ev l : forall d, CInv d ->
  let r := run_list (fun st (x : N * rcmd) => do_retrans st (snd x)) l d in
  CInv (fst r) /\ Forall plain (snd r).
Proof.
  induction l as [|[t c] l IH]; intros d HC; cbv zeta; [simpl; auto|].
  rewrite run_list_cons. cbn [snd fst]. destruct (do_retrans_plain d c) as (A & B & C).
  assert (HC' : CInv (fst (do_retrans d c))) by (unfold CInv; rewrite A, B; exact HC).
  pose proof (IH _ HC') as K. cbv zeta in K. destruct K as [K1 K2]. split; [exact K1|apply Forall_app; auto].
Qed.

(* ---- one iteration ------------------------------------------------------------------------------------------ *)

Theorem iterate_ev seen d s : Inv seen d -> CInv d ->
  (forall tbl, st_os s = Some tbl -> uniq_keys tbl /\ hazard d tbl = false) ->
  let cur := match st_os s with Some tbl => tbl | None => d_os d end in
  let seen' := add_seen seen cur in
  let states := sel_states (d_sels d) cur (st_calls s) in
  CInv (fst (iterate d s)) /\
  Forall (ev_st seen' cur states) (snd (iterate d s)) /\
  lw_all cur states (snd (iterate d s)) /\
  (no_sel_calls (st_calls s) = true -> nda cur (ipev (snd (iterate d s))) = true) /\
  d_os (fst (iterate d s)) = cur /\ d_sels (fst (iterate d s)) = final_sels (d_sels d) cur (st_calls s).
Proof.
  intros HI HC Hwf cur seen' states.
  destruct (add_seen_incl seen cur) as [Hs1 Hs2]. fold seen' in Hs1, Hs2.
  unfold iterate.
  set (d0 := match st_os s with Some tbl => _ | None => d end).
  assert (H0 : Inv seen' d0 /\ d_os d0 = cur /\ d_sels d0 = d_sels d /\ CInv d0).
  { subst d0 cur. destruct (st_os s) as [tbl|] eqn:Eos.
    - destruct (Hwf tbl eq_refl) as [Huk Hhz]. split; [|simpl; auto].
      destruct HI as [I1 I2 I3 I4 I5 I6]. constructor; simpl; auto.
      + intros e He Hh. destruct (iface_mem e (d_os d)) eqn:Em.
        * apply I3; [apply iface_mem_In; exact Em|exact Hh].
        * unfold hazard in Hhz. destruct (last_match (d_sels d) e) eqn:El; [reflexivity|]. exfalso.
          assert (existsb (fun e => held (d_intfs d) (i_index e) (i_addr e) && negb (iface_mem e (d_os d))
                                    && negb (last_match (d_sels d) e)) tbl = true); [|congruence].
          apply existsb_exists. exists e. rewrite Hh, Em, El. auto.
      + intros idx a H. destruct (I5 idx a H) as [e [He Hk]]. exists e. auto.
      + intros t p idx v4 H. destruct (I6 t p idx v4 H) as [G1 G2]. split; [exact G1|].
        eapply Forall_impl; [|exact G2]. intros r. apply seen_rec_mono. exact Hs1.
    - split; [apply (Inv_mono seen); assumption|auto]. }
  destruct H0 as (HI0 & Hos0 & Hsel0 & HC0).
  set (dgs := filter _ (st_dgrams s) ++ filter _ (st_dgrams s)).
  destruct (dgrams_ok seen' dgs d0 HI0) as (A1 & A2 & A3 & _).
  destruct (dgrams_ev seen' dgs d0 HI0 HC0) as (A5 & A6 & A7).
  destruct (run_list handle_dgram dgs d0) as [d1 o1]. simpl in A1, A2, A3, A5, A6, A7.
  destruct (calls_ok seen' (st_now s) cur (st_calls s) d1 A1 (eq_trans A2 Hos0)) as (B1 & B2 & B3 & _).
  pose proof (calls_ev seen' (st_now s) cur (st_calls s) d1 A1 A5 (eq_trans A2 Hos0)) as B. cbv zeta in B.
  destruct B as (B5 & B6 & B7 & B8). rewrite A3, Hsel0 in B6, B7. fold states in B6, B7.
  destruct (run_list (do_call (st_now s)) (st_calls s) d1) as [d2 o2]. simpl in B1, B2, B3, B5, B6, B7, B8.
  set (due := filter _ (d_retrans d2)). set (rest := filter _ (d_retrans d2)).
  set (d2' := mkD (d_os d2) (d_intfs d2) (d_regs d2) (d_sels d2) (d_svcs d2) (d_cache d2) (d_browsed d2)
                  (d_resolved d2) (d_interval d2) (d_next_check d2) rest).
  assert (HI2' : Inv seen' d2').
  { eapply Inv_retrans; [| | | |exact B1]; simpl; try reflexivity.
    intros t p idx v4 H. left. subst rest. apply filter_In in H. tauto. }
  assert (Hdue : forall t p idx v4, In (t, RUnregisterResend p idx v4) due ->
             dest_is_v4 p = v4 /\ Forall (seen_rec seen' idx) (p_answers p ++ p_additionals p)).
  { intros t p idx v4 H. apply (inv_gb _ _ B1 t). subst due. apply filter_In in H. tauto. }
  pose proof (retrans_ok seen' due d2' HI2' Hdue) as C. cbv zeta in C.
  pose proof (retrans_ev due d2' B5) as C'. cbv zeta in C'.
  destruct (run_list _ due d2') as [d3 o3]. simpl in C, C'. destruct C as (C1 & C2 & C3 & _). destruct C' as [C5 C6].
  set (fs := final_sels (d_sels d) cur (st_calls s)).
  assert (Hsel3 : d_sels d3 = fs) by (rewrite C3; simpl; rewrite B3, A3, Hsel0; reflexivity).
  assert (Hos3 : d_os d3 = cur) by (rewrite C2; exact B2).
  assert (Hfs : In fs states) by apply sel_states_final.
  assert (Hhd : In (d_sels d) states) by apply sel_states_head.
  set (set_next := fun n st => mkD (d_os st) (d_intfs st) (d_regs st) (d_sels st) (d_svcs st) (d_cache st)
                                    (d_browsed st) (d_resolved st) (d_interval st) n (d_retrans st)).
  assert (Hsn : forall n, Inv seen' (set_next n d3)).
  { intros n. eapply Inv_frame; [|exact C1]. unfold frame4. simpl. auto. }
  match goal with |- context [if d_interval d3 =? 0 then ?a else ?b] => set (chk := if d_interval d3 =? 0 then a else b) end.
  assert (D : (CInv (fst chk) /\ Forall (ev1 seen' cur fs) (snd chk) /\ lw_ok cur fs (snd chk) /\ nda cur (ipev (snd chk)) = true)
              /\ d_os (fst chk) = cur /\ d_sels (fst chk) = fs).
  { assert (Triv : forall st : dstate, CInv st -> CInv st /\ Forall (ev1 seen' cur fs) [] /\ lw_ok cur fs [] /\ nda cur (ipev []) = true).
    { intros st H. split; [exact H|]. split; [constructor|]. split; [apply lw_ok_quiet; reflexivity|reflexivity]. }
    subst chk. destruct (d_interval d3 =? 0); [split; [apply (Triv (set_next 0 d3)); exact C5|simpl; auto]|].
    destruct (d_next_check d3 =? 0); [split; [apply (Triv (set_next _ d3)); exact C5|simpl; auto]|].
    destruct (ParamsResponder.ip_check_due _ _); [|split; [apply Triv; exact C5|auto]].
    pose proof (check_ev seen' (st_now s) (set_next (st_now s + d_interval d3) d3) (Hsn _) C5) as K.
    pose proof (check_ip_changes_ok seen' (st_now s) (set_next (st_now s + d_interval d3) d3) (Hsn _)) as K'.
    cbv zeta in K, K'. simpl d_os in K, K'. simpl d_sels in K, K'. rewrite Hos3, Hsel3 in K, K'.
    destruct K' as (_ & K2 & K3 & _). auto. }
  destruct chk as [d4 o4]. simpl in D. destruct D as ((D1 & D2 & D3 & D4) & D5 & D6). cbn [fst snd].
  destruct (plain_list seen' cur fs o3 C6) as [P1 P2].
  split; [exact D1|]. split; [|split].
  - apply Forall_app. split.
    + eapply Forall_impl; [|exact A6]. intros o Ho. rewrite Hos0, Hsel0 in Ho. exists (d_sels d). auto.
    + apply Forall_app. split; [exact B6|]. apply Forall_app. split.
      * eapply Forall_impl; [|exact P1]. intros o Ho. exists fs. auto.
      * eapply Forall_impl; [|exact D2]. intros o Ho. exists fs. auto.
  - apply lw_all_app; [apply (lw_all_of _ _ (d_sels d)); [exact Hhd|apply lw_ok_quiet; exact A7]|].
    apply lw_all_app; [exact B7|]. apply lw_all_app; [apply (lw_all_of _ _ fs); [exact Hfs|apply lw_ok_quiet; exact P2]|].
    apply (lw_all_of _ _ fs); assumption.
  - split; [|split; [exact D5|exact D6]]. intros Hn. rewrite !ipev_app, A7, (B8 Hn), P2. simpl. exact D4.
Qed.

(* ---- from the facts to the verdict of the executable checker -------------------------------------------- *)

Lemma unselected_some_in states sels e : In sels states -> last_match sels e = false -> unselected_some states e = true.
Proof. intros H1 H2. unfold unselected_some. apply existsb_exists. exists sels. rewrite H2. auto. Qed.

Lemma obs_ok_of seen cur states o : seen_wf seen -> v4_single seen -> incl cur seen ->
  obs_just seen cur states o -> ev_st seen cur states o -> obs_ok seen cur states o = true.
Proof.
  intros Hwf Hv4 Hcur Hj (sels & Hin & He). destruct o; simpl in *; auto.
  - destruct Hj as (sels' & Hin' & Hp). apply (packet_ok_of_just seen cur states sels'); assumption.
  - destruct He as (e & He1 & He2 & He3). apply existsb_exists. exists e. split; [apply Hcur; exact He1|].
    rewrite He2, (proj2 (ip_eqb_eq _ _) eq_refl). simpl. eapply selected_some_in; eassumption.
  - destruct He as (e & He1 & He2 & He3). apply existsb_exists. exists e. split; [exact He1|].
    rewrite He2, (proj2 (ip_eqb_eq _ _) eq_refl). simpl. destruct (iface_mem e cur) eqn:Em; simpl; [|reflexivity].
    destruct He3 as [Hn|Hl]; [exfalso; apply Hn; apply iface_mem_In; exact Em|]. eapply unselected_some_in; eassumption.
  - apply forallb_forall. intros ai Hai. destruct (He ai Hai) as (e & He1 & He2 & He3).
    unfold intf_live. apply existsb_exists. exists e. split; [exact He1|]. rewrite He2, N.eqb_refl. simpl.
    destruct (iface_mem e cur) eqn:Em; simpl; [|reflexivity].
    destruct He3 as [Hn|Hl]; [exfalso; apply Hn; apply iface_mem_In; exact Em|]. eapply selected_some_in; eassumption.
Qed.

Lemma last_word_of cur states os : lw_all cur states os -> last_word_ok cur states os = true.
Proof.
  intros H. unfold last_word_ok. apply forallb_forall. intros o _. destruct o; auto.
  unfold del_of_held. destruct (enabled_in_table cur states a) eqn:Een; [|rewrite andb_false_r; reflexivity].
  rewrite andb_true_r. apply negb_true_iff. unfold enabled_in_table in Een.
  apply existsb_exists in Een as [e [He Hc]]. apply andb_true_iff in Hc as [Hip Hall]. apply ip_eqb_eq in Hip.
  rewrite forallb_forall in Hall. rewrite last_is_del_ipev. subst a.
  destruct (lastdel (i_ip e) (ipev os) false) eqn:El; [|reflexivity].
  apply (H e He) in El; [discriminate|exact Hall].
Qed.

Lemma order_of cur calls os : (no_sel_calls calls = true -> nda cur (ipev os) = true) -> order_ok cur calls os = true.
Proof.
  intros H. unfold order_ok. destruct (no_sel_calls calls); [|reflexivity]. simpl.
  rewrite no_del_after_add_ipev. auto.
Qed.

Lemma last_sel_states calls : forall sels cur dflt, last (sel_states sels cur calls) dflt = final_sels sels cur calls.
Proof.
  induction calls as [|c t IH]; intros sels cur dflt; simpl; [reflexivity|].
  assert (Hne : forall s, sel_states s cur t <> []) by (intros s; clear; revert s; induction t as [|c t IH]; intros s; simpl; [discriminate|destruct c; try discriminate; apply IH]).
  destruct c; simpl; try apply IH.
  - specialize (IH (push_selections sels ks true cur) cur dflt). destruct (sel_states _ cur t) eqn:E; [exfalso; eapply Hne; exact E|exact IH].
  - specialize (IH (push_selections sels ks false cur) cur dflt). destruct (sel_states _ cur t) eqn:E; [exfalso; eapply Hne; exact E|exact IH].
Qed.

Lemma add_seen_sub tbl : forall seen x, In x (add_seen seen tbl) -> In x seen \/ In x tbl.
Proof.
  unfold add_seen. induction tbl as [|e tbl IH]; intros seen x H; simpl in H; [auto|].
  destruct (iface_mem e seen).
  - destruct (IH _ _ H); simpl; auto.
  - destruct (IH _ _ H) as [H'|H']; simpl; auto. apply in_app_or in H' as [H'|[<-|[]]]; auto.
Qed.

(* well-formed histories: every netmask fits its family; an IPv4 address is never reported on two
   interfaces (then the interface an IPv4 packet leaves on - the owner of the address given to
   IP_MULTICAST_IF - is the one the daemon means) *)
Definition all_entries (os0 : list iface) (steps : list step) : list iface :=
  os0 ++ flat_map (fun s => match st_os s with Some t => t | None => [] end) steps.
Definition v4_singleb (l : list iface) : bool :=
  forallb (fun e => forallb (fun e' => negb (is_v4 (i_ip e) && ip_eqb (i_ip e') (i_ip e)) || (i_index e' =? i_index e)) l) l.
Definition hist_wf (os0 : list iface) (steps : list step) : bool :=
  forallb (fun e => mask_wf (i_addr e)) (all_entries os0 steps) && v4_singleb (all_entries os0 steps).

Lemma hist_wf_ok os0 steps : hist_wf os0 steps = true -> seen_wf (all_entries os0 steps) /\ v4_single (all_entries os0 steps).
Proof.
  unfold hist_wf. intros H. apply andb_true_iff in H as [H1 H2]. split.
  - intros e He. rewrite forallb_forall in H1. apply H1. exact He.
  - intros e e' He He' Hv Hip. unfold v4_singleb in H2. rewrite forallb_forall in H2. specialize (H2 e He).
    rewrite forallb_forall in H2. specialize (H2 e' He'). rewrite Hv, Hip, (proj2 (ip_eqb_eq _ _) eq_refl) in H2.
    simpl in H2. apply N.eqb_eq. exact H2.
Qed.

Theorem chk_from_accepts all steps : seen_wf all -> v4_single all ->
  forall seen d, Inv seen d -> CInv d -> wf_steps steps -> known_class d steps = false ->
  incl seen all -> (forall s tbl, In s steps -> st_os s = Some tbl -> incl tbl all) ->
  chk_from seen (d_os d) (d_sels d) (combine steps (run d steps)) = true.
Proof.
  intros Hwf Hv4. induction steps as [|s t IH]; intros seen d HI HC Hst Hk Hseen Htab; [reflexivity|].
  simpl in Hk. apply orb_false_iff in Hk as [Hk1 Hk2].
  assert (Hs : forall tbl, st_os s = Some tbl -> uniq_keys tbl /\ hazard d tbl = false).
  { intros tbl E. split; [apply (Hst s tbl (or_introl eq_refl) E)|rewrite E in Hk1; exact Hk1]. }
  pose proof (iterate_ok seen d s HI Hs) as J. cbv zeta in J. destruct J as [J1 J2].
  pose proof (iterate_ev seen d s HI HC Hs) as E. cbv zeta in E. destruct E as (E1 & E2 & E3 & E4 & E5 & E6).
  simpl run. destruct (iterate d s) as [d' o] eqn:Eit. cbn [combine chk_from fst snd] in *.
  set (cur := match st_os s with Some tbl => tbl | None => d_os d end) in *.
  set (seen' := add_seen seen cur) in *.
  assert (Hcur_all : incl cur all).
  { subst cur. destruct (st_os s) as [tbl|] eqn:Eos; [apply (Htab s tbl (or_introl eq_refl) Eos)|].
    eapply incl_tran; [apply (inv_seen_os _ _ HI)|exact Hseen]. }
  assert (Hseen' : incl seen' all).
  { intros x Hx. apply add_seen_sub in Hx as [Hx|Hx]; auto. }
  assert (Hwf' : seen_wf seen') by (intros e He; apply Hwf; apply Hseen'; exact He).
  assert (Hv4' : v4_single seen') by (intros e e' He He'; apply Hv4; apply Hseen'; assumption).
  assert (Hcs : incl cur seen') by (apply add_seen_incl).
  apply andb_true_iff. split; [apply andb_true_iff; split; [apply andb_true_iff; split|]|].
  - apply forallb_forall. intros x Hx. rewrite Forall_forall in J2, E2. apply obs_ok_of; auto.
  - apply order_of. exact E4.
  - apply last_word_of. exact E3.
  - rewrite last_sel_states.
    assert (G : chk_from seen' (d_os d') (d_sels d') (combine t (run d' t)) = true).
    { apply IH; auto.
      + intros s' tbl Hin. apply Hst. right. exact Hin.
      + intros s' tbl Hin. apply Htab. right. exact Hin. }
    rewrite E5, E6 in G. exact G.
Qed.

Theorem checker_accepts_every_run t0 os0 steps :
  uniq_keys os0 -> wf_steps steps -> hist_wf os0 steps = true ->
  known_class (initial_state t0 os0) steps = false ->
  chk_C18 os0 (model_history t0 os0 steps) = true.
Proof.
  intros Huk Hst Hwf Hk. apply hist_wf_ok in Hwf as [Hw1 Hw2].
  unfold chk_C18, model_history.
  change os0 with (d_os (initial_state t0 os0)) at 2.
  change (@nil selection) with (d_sels (initial_state t0 os0)).
  apply (chk_from_accepts (all_entries os0 steps)); auto.
  - apply Inv_initial. exact Huk.
  - intros k r [v [[] _]].
  - intros x Hx. apply in_or_app. left. exact Hx.
  - intros s tbl Hs Eos x Hx. apply in_or_app. right. apply in_flat_map. exists s. rewrite Eos. auto.
Qed.
