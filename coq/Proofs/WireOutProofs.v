(* C02: the wire encoder model (Model/WireOut.v) round-trips through the independent
   reference parser (Model/Rfc1035.v).

   Status: both target theorems are proved as stated, for the general multi-packet case
   (no `_partial` variants, no counterexample found against the model as written):
     encode_total     : wf_out m -> exists pkts, to_packets m = Ok pkts
     encode_roundtrip : wf_out m -> fits m -> to_packets m = Ok pkts -> chk_C02 m pkts = true
   Main intermediate results: write_labels_correct, write_record_correct,
   put_answers_props / put_auths_props / put_addls_props, finish_parse.

   Proof plan
   1. The reference reader is stable under appended bytes (run_app, ref_name_app, ...,
      ref_records_stable) and consumes >= 1 / 5 / 11 bytes per name / question / record.
   2. write_labels is re-expressed through `enc`, a writer consulting a FIXED table
      (write_labels_enc): entries created while writing a name have strictly longer keys
      than the remaining labels, so they can never be hit by the same name.
   3. Table invariant `tbl_ok t d` (every entry lies inside d and reads back, by the reference
      reader, to its key); preserved by appending bytes, by writing names, by rollback.
   4. write_record's bytes parse with ref_record to `view_rr`.
   5. A packet under construction is `h ++ body` for an ARBITRARY 12-byte h (PINV/OPEN);
      finish_parse instantiates h with the real header.
   6. put_addls with the TC continuation: induction producing `GOOD`, the packet-list form
      of chk_C02. *)
From Coq Require Import List NArith ZArith Bool Lia Arith PeanoNat.
From Coq Require Import ZifyBool ZifyNat ZifyN.
From Mdns Require Import Res Bytes Utf8 Rec Wire WireOut Rfc1035 C02Spec.
Import ListNotations.
Open Scope N_scope.

Local Arguments N.add : simpl never.
Local Arguments N.sub : simpl never.
Local Arguments N.mul : simpl never.
Local Arguments N.div : simpl never.
Local Arguments N.modulo : simpl never.
Local Arguments N.eqb : simpl never.
Local Arguments N.ltb : simpl never.
Local Arguments N.leb : simpl never.
Local Arguments N.land : simpl never.
Local Arguments N.lor : simpl never.
Local Arguments N.of_nat : simpl never.
Local Arguments N.to_nat : simpl never.

(* ------------------------------------------------------------------------------------ *)
(* blen                                                                                  *)
(* ------------------------------------------------------------------------------------ *)

Lemma blen_app a b : blen (a ++ b) = blen a + blen b.
Proof. unfold blen. rewrite app_length. lia. Qed.

Lemma blen_cons x a : blen (x :: a) = 1 + blen a.
Proof. unfold blen. cbn [length]. lia. Qed.

Lemma blen_nil : blen [] = 0.
Proof. reflexivity. Qed.

Lemma blen_u16 v : blen (u16_bytes v) = 2.
Proof. reflexivity. Qed.

Lemma blen_u32 v : blen (u32_bytes v) = 4.
Proof. reflexivity. Qed.

Lemma to_nat_blen a : N.to_nat (blen a) = length a.
Proof. unfold blen. apply Nat2N.id. Qed.

Local Hint Rewrite blen_app blen_cons blen_nil blen_u16 blen_u32 : blen.

Ltac blen_norm := autorewrite with blen in *.

(* ------------------------------------------------------------------------------------ *)
(* 1. Reference reader: stability under appended bytes, fuel irrelevance                 *)
(* ------------------------------------------------------------------------------------ *)

Lemma run_app fuel : forall rest off x fuel',
  run fuel rest off <> RunBad -> (fuel <= fuel')%nat ->
  run fuel' (rest ++ x) off = run fuel rest off.
Proof.
  induction fuel as [|f IH]; intros rest off x fuel' Hnb Hle; [cbn in Hnb; congruence|].
  destruct fuel' as [|f']; [lia|].
  destruct rest as [|l tl]; [cbn in Hnb; congruence|].
  cbn [run app] in *.
  destruct (l =? 0); [reflexivity|].
  destruct (l <? 64).
  - destruct (Nat.ltb (length tl) (N.to_nat l)) eqn:E; [congruence|].
    apply Nat.ltb_ge in E.
    assert (E' : Nat.ltb (length (tl ++ x)) (N.to_nat l) = false).
    { apply Nat.ltb_ge. rewrite app_length. lia. }
    rewrite E'.
    rewrite skipn_app, firstn_app.
    replace (N.to_nat l - length tl)%nat with O by lia.
    cbn [skipn firstn]. rewrite app_nil_r.
    rewrite (IH (skipn (N.to_nat l) tl) (off + 1 + l) x f'); [reflexivity| |lia].
    destruct (run f (skipn (N.to_nat l) tl) (off + 1 + l)); congruence.
  - destruct (192 <=? l); [|congruence].
    destruct tl as [|b1 tl']; [congruence|]. reflexivity.
Qed.

Lemma run_fuel fuel fuel' rest off :
  run fuel rest off <> RunBad -> (fuel <= fuel')%nat ->
  run fuel' rest off = run fuel rest off.
Proof.
  intros H1 H2. rewrite <- (app_nil_r rest) at 1. apply run_app; assumption.
Qed.

Lemma skipn_app_le {A} n (d x : list A) :
  (n <= length d)%nat -> skipn n (d ++ x) = skipn n d ++ x.
Proof.
  intros H. rewrite skipn_app. replace (n - length d)%nat with O by lia. reflexivity.
Qed.

Lemma ref_name_from_app j : forall d off lim r x j',
  ref_name_from j d off lim = Some r -> (j <= j')%nat ->
  ref_name_from j' (d ++ x) off lim = Some r.
Proof.
  induction j as [|j IH]; intros d off lim r x j' H Hle; [discriminate|].
  destruct j' as [|j']; [lia|].
  cbn [ref_name_from] in *.
  destruct (Nat.le_gt_cases (N.to_nat off) (length d)) as [Hin|Hout].
  2:{ rewrite skipn_all2 in H by lia. cbn in H. discriminate. }
  rewrite (skipn_app_le _ _ _ Hin).
  set (rest := skipn (N.to_nat off) d) in *.
  assert (Hrun : run (S (length (rest ++ x))) (rest ++ x) off = run (S (length rest)) rest off).
  { apply run_app.
    - destruct (run (S (length rest)) rest off); congruence.
    - rewrite app_length. lia. }
  rewrite Hrun.
  destruct (run (S (length rest)) rest off) as [ls n|ls n t|]; [exact H| |discriminate].
  destruct (lim <=? t); [discriminate|].
  destruct (ref_name_from j d t t) as [[ls' n']|] eqn:E; [|discriminate].
  rewrite (IH d t t (ls', n') x j' E) by lia. exact H.
Qed.

Lemma ref_name_app d x off r : ref_name d off = Some r -> ref_name (d ++ x) off = Some r.
Proof.
  unfold ref_name. intros H. apply ref_name_from_app with (j := S (length d)); [exact H|].
  rewrite app_length. lia.
Qed.

Lemma nth_byte_stable d x off v : nth_byte d off = Some v -> nth_byte (d ++ x) off = Some v.
Proof.
  unfold nth_byte. intros H. rewrite nth_error_app1; [exact H|].
  apply nth_error_Some. congruence.
Qed.

Lemma ref_u16_stable d x off v : ref_u16 d off = Some v -> ref_u16 (d ++ x) off = Some v.
Proof.
  unfold ref_u16. intros H.
  destruct (nth_byte d off) as [a|] eqn:Ea; [|discriminate].
  destruct (nth_byte d (off + 1)) as [b|] eqn:Eb; [|discriminate].
  rewrite (nth_byte_stable _ x _ _ Ea), (nth_byte_stable _ x _ _ Eb). exact H.
Qed.

Lemma ref_u32_stable d x off v : ref_u32 d off = Some v -> ref_u32 (d ++ x) off = Some v.
Proof.
  unfold ref_u32. intros H.
  destruct (ref_u16 d off) as [a|] eqn:Ea; [|discriminate].
  destruct (ref_u16 d (off + 2)) as [b|] eqn:Eb; [|discriminate].
  rewrite (ref_u16_stable _ x _ _ Ea), (ref_u16_stable _ x _ _ Eb). exact H.
Qed.

Lemma ref_bytes_stable d x off n v :
  ref_bytes d off n = Some v -> ref_bytes (d ++ x) off n = Some v.
Proof.
  unfold ref_bytes. intros H.
  destruct (off + n <=? N.of_nat (length d)) eqn:E; [|discriminate].
  apply N.leb_le in E.
  assert (E' : off + n <=? N.of_nat (length (d ++ x)) = true).
  { apply N.leb_le. rewrite app_length. lia. }
  rewrite E'. rewrite skipn_app_le by lia.
  rewrite firstn_app.
  replace (N.to_nat n - length (skipn (N.to_nat off) d))%nat with O
    by (rewrite skipn_length; lia).
  cbn [firstn]. rewrite app_nil_r. exact H.
Qed.

Lemma ref_rdata_at_stable d x ty off n v :
  ref_rdata_at d ty off n = Some v -> ref_rdata_at (d ++ x) ty off n = Some v.
Proof.
  unfold ref_rdata_at. intros H.
  destruct ((ty =? 12) || (ty =? 5)).
  - destruct (ref_name d off) as [[ls o]|] eqn:E; [|discriminate].
    rewrite (ref_name_app _ x _ _ E). exact H.
  - destruct (ty =? 33).
    + destruct (ref_u16 d off) as [p|] eqn:E1; [|discriminate].
      destruct (ref_u16 d (off + 2)) as [w|] eqn:E2; [|discriminate].
      destruct (ref_u16 d (off + 4)) as [po|] eqn:E3; [|discriminate].
      destruct (ref_name d (off + 6)) as [[ls o]|] eqn:E4; [|discriminate].
      rewrite (ref_u16_stable _ x _ _ E1), (ref_u16_stable _ x _ _ E2),
        (ref_u16_stable _ x _ _ E3), (ref_name_app _ x _ _ E4). exact H.
    + destruct (ref_bytes d off n) as [b|] eqn:E; [|discriminate].
      rewrite (ref_bytes_stable _ x _ _ _ E). exact H.
Qed.

Lemma ref_record_stable d x off v :
  ref_record d off = Some v -> ref_record (d ++ x) off = Some v.
Proof.
  unfold ref_record. intros H.
  destruct (ref_name d off) as [[ls o]|] eqn:E; [|discriminate].
  rewrite (ref_name_app _ x _ _ E).
  destruct (ref_u16 d o) as [ty|] eqn:E1; [|discriminate].
  destruct (ref_u16 d (o + 2)) as [cl|] eqn:E2; [|discriminate].
  destruct (ref_u32 d (o + 4)) as [ttl|] eqn:E3; [|discriminate].
  destruct (ref_u16 d (o + 8)) as [rdl|] eqn:E4; [|discriminate].
  rewrite (ref_u16_stable _ x _ _ E1), (ref_u16_stable _ x _ _ E2),
    (ref_u32_stable _ x _ _ E3), (ref_u16_stable _ x _ _ E4).
  destruct (ref_rdata_at d ty (o + 10) rdl) as [rd|] eqn:E5; [|discriminate].
  rewrite (ref_rdata_at_stable _ x _ _ _ _ E5). exact H.
Qed.

Lemma ref_question_stable d x off v :
  ref_question d off = Some v -> ref_question (d ++ x) off = Some v.
Proof.
  unfold ref_question. intros H.
  destruct (ref_name d off) as [[ls o]|] eqn:E; [|discriminate].
  rewrite (ref_name_app _ x _ _ E).
  destruct (ref_u16 d o) as [ty|] eqn:E1; [|discriminate].
  destruct (ref_u16 d (o + 2)) as [cl|] eqn:E2; [|discriminate].
  rewrite (ref_u16_stable _ x _ _ E1), (ref_u16_stable _ x _ _ E2). exact H.
Qed.

Lemma ref_records_stable n : forall d x off v,
  ref_records n d off = Some v -> ref_records n (d ++ x) off = Some v.
Proof.
  induction n as [|n IH]; intros d x off v H; [exact H|].
  cbn [ref_records] in *.
  destruct (ref_record d off) as [[r o]|] eqn:E; [|discriminate].
  rewrite (ref_record_stable _ x _ _ E).
  destruct (ref_records n d o) as [[rs o']|] eqn:E2; [|discriminate].
  rewrite (IH _ x _ _ E2). exact H.
Qed.

Lemma ref_questions_stable n : forall d x off v,
  ref_questions n d off = Some v -> ref_questions n (d ++ x) off = Some v.
Proof.
  induction n as [|n IH]; intros d x off v H; [exact H|].
  cbn [ref_questions] in *.
  destruct (ref_question d off) as [[r o]|] eqn:E; [|discriminate].
  rewrite (ref_question_stable _ x _ _ E).
  destruct (ref_questions n d o) as [[rs o']|] eqn:E2; [|discriminate].
  rewrite (IH _ x _ _ E2). exact H.
Qed.

(* appending one more entry at the end *)
Lemma ref_records_snoc n : forall d off l o r o',
  ref_records n d off = Some (l, o) -> ref_record d o = Some (r, o') ->
  ref_records (S n) d off = Some (l ++ [r], o').
Proof.
  induction n as [|n IH]; intros d off l o r o' H1 H2.
  - cbn in H1. inversion H1; subst. cbn [ref_records]. rewrite H2. reflexivity.
  - cbn [ref_records] in H1.
    destruct (ref_record d off) as [[r1 o1]|] eqn:E; [|discriminate].
    destruct (ref_records n d o1) as [[rs o2]|] eqn:E2; [|discriminate].
    inversion H1; subst.
    specialize (IH _ _ _ _ _ _ E2 H2).
    change (ref_records (S (S n)) d off) with
      (match ref_record d off with
       | Some (r, o) =>
         match ref_records (S n) d o with Some (rs, o') => Some (r :: rs, o') | None => None end
       | None => None end).
    rewrite E, IH. reflexivity.
Qed.

Lemma ref_questions_snoc n : forall d off l o r o',
  ref_questions n d off = Some (l, o) -> ref_question d o = Some (r, o') ->
  ref_questions (S n) d off = Some (l ++ [r], o').
Proof.
  induction n as [|n IH]; intros d off l o r o' H1 H2.
  - cbn in H1. inversion H1; subst. cbn [ref_questions]. rewrite H2. reflexivity.
  - cbn [ref_questions] in H1.
    destruct (ref_question d off) as [[r1 o1]|] eqn:E; [|discriminate].
    destruct (ref_questions n d o1) as [[rs o2]|] eqn:E2; [|discriminate].
    inversion H1; subst.
    specialize (IH _ _ _ _ _ _ E2 H2).
    change (ref_questions (S (S n)) d off) with
      (match ref_question d off with
       | Some (r, o) =>
         match ref_questions (S n) d o with Some (rs, o') => Some (r :: rs, o') | None => None end
       | None => None end).
    rewrite E, IH. reflexivity.
Qed.

(* ------------------------------------------------------------------------------------ *)
(* The reference reader consumes at least 1 byte per name, 5 per question, 11 per record *)
(* ------------------------------------------------------------------------------------ *)

Lemma run_next_end fuel : forall rest off ls n, run fuel rest off = RunEnd ls n -> off + 1 <= n.
Proof.
  induction fuel as [|f IH]; intros rest off ls n H; [discriminate|].
  destruct rest as [|l tl]; [discriminate|]. cbn [run] in H.
  destruct (l =? 0); [inversion H; lia|].
  destruct (l <? 64).
  - destruct (Nat.ltb (length tl) (N.to_nat l)); [discriminate|].
    destruct (run f (skipn (N.to_nat l) tl) (off + 1 + l)) as [ls' n'|ls' n' t|] eqn:E;
      try discriminate.
    inversion H; subst. apply IH in E. lia.
  - destruct (192 <=? l); [|discriminate]. destruct tl; discriminate.
Qed.

Lemma run_next_ptr fuel : forall rest off ls n t, run fuel rest off = RunPtr ls n t -> off + 1 <= n.
Proof.
  induction fuel as [|f IH]; intros rest off ls n t H; [discriminate|].
  destruct rest as [|l tl]; [discriminate|]. cbn [run] in H.
  destruct (l =? 0); [discriminate|].
  destruct (l <? 64).
  - destruct (Nat.ltb (length tl) (N.to_nat l)); [discriminate|].
    destruct (run f (skipn (N.to_nat l) tl) (off + 1 + l)) as [ls' n'|ls' n' t'|] eqn:E;
      try discriminate.
    inversion H; subst. apply IH in E. lia.
  - destruct (192 <=? l); [|discriminate]. destruct tl; [discriminate|]. inversion H; lia.
Qed.

Lemma ref_name_next d off ls o : ref_name d off = Some (ls, o) -> off + 1 <= o.
Proof.
  unfold ref_name. cbn [ref_name_from].
  destruct (run _ _ off) as [ls' n|ls' n t|] eqn:E; [| |discriminate].
  - intros H; inversion H; subst. eapply run_next_end; eauto.
  - destruct (off <=? t); [discriminate|].
    destruct (ref_name_from _ d t t) as [[ls2 n2]|]; [|discriminate].
    intros H; inversion H; subst. eapply run_next_ptr; eauto.
Qed.

Lemma ref_record_next d off r o : ref_record d off = Some (r, o) -> off + 11 <= o.
Proof.
  unfold ref_record.
  destruct (ref_name d off) as [[ls o1]|] eqn:E; [|discriminate].
  apply ref_name_next in E.
  destruct (ref_u16 d o1); [|discriminate].
  destruct (ref_u16 d (o1 + 2)); [|discriminate].
  destruct (ref_u32 d (o1 + 4)); [|discriminate].
  destruct (ref_u16 d (o1 + 8)); [|discriminate].
  destruct (ref_rdata_at _ _ _ _); [|discriminate].
  intros H; inversion H; lia.
Qed.

Lemma ref_question_next d off r o : ref_question d off = Some (r, o) -> off + 5 <= o.
Proof.
  unfold ref_question.
  destruct (ref_name d off) as [[ls o1]|] eqn:E; [|discriminate].
  apply ref_name_next in E.
  destruct (ref_u16 d o1); [|discriminate].
  destruct (ref_u16 d (o1 + 2)); [|discriminate].
  intros H; inversion H; lia.
Qed.

Lemma ref_records_next n : forall d off l o,
  ref_records n d off = Some (l, o) -> off + 11 * N.of_nat n <= o /\ length l = n.
Proof.
  induction n as [|n IH]; intros d off l o H.
  - cbn in H. inversion H; subst. split; [lia|reflexivity].
  - cbn [ref_records] in H.
    destruct (ref_record d off) as [[r o1]|] eqn:E; [|discriminate].
    destruct (ref_records n d o1) as [[rs o2]|] eqn:E2; [|discriminate].
    inversion H; subst. apply ref_record_next in E. apply IH in E2. cbn [length]. lia.
Qed.

Lemma ref_questions_next n : forall d off l o,
  ref_questions n d off = Some (l, o) -> off + 5 * N.of_nat n <= o /\ length l = n.
Proof.
  induction n as [|n IH]; intros d off l o H.
  - cbn in H. inversion H; subst. split; [lia|reflexivity].
  - cbn [ref_questions] in H.
    destruct (ref_question d off) as [[r o1]|] eqn:E; [|discriminate].
    destruct (ref_questions n d o1) as [[rs o2]|] eqn:E2; [|discriminate].
    inversion H; subst. apply ref_question_next in E. apply IH in E2. cbn [length]. lia.
Qed.

(* ------------------------------------------------------------------------------------ *)
(* Decidable equalities                                                                  *)
(* ------------------------------------------------------------------------------------ *)

Lemma labels_beq_eq a : forall b, labels_beq a b = true <-> a = b.
Proof.
  induction a as [|x a IH]; destruct b as [|y b]; cbn [labels_beq]; split; intros H;
    try reflexivity; try discriminate.
  - apply andb_true_iff in H as [H1 H2]. apply beq_eq in H1. apply IH in H2. congruence.
  - inversion H; subst. rewrite beq_refl. apply IH. reflexivity.
Qed.

Lemma labels_beq_refl a : labels_beq a a = true.
Proof. apply labels_beq_eq. reflexivity. Qed.

Lemma ref_rdata_beq_refl a : ref_rdata_beq a a = true.
Proof.
  destruct a; cbn [ref_rdata_beq]; rewrite ?beq_refl, ?labels_beq_refl, ?N.eqb_refl; reflexivity.
Qed.

Lemma ref_rr_beq_refl a : ref_rr_beq a a = true.
Proof.
  unfold ref_rr_beq. rewrite labels_beq_refl, !N.eqb_refl, ref_rdata_beq_refl. reflexivity.
Qed.

Lemma ref_q_beq_refl a : ref_q_beq a a = true.
Proof. unfold ref_q_beq. rewrite labels_beq_refl, !N.eqb_refl. reflexivity. Qed.

Lemma list_beq_refl {A} (eqb : A -> A -> bool) :
  (forall x, eqb x x = true) -> forall l, list_beq eqb l l = true.
Proof.
  intros Hr. induction l as [|x l IH]; cbn [list_beq]; [reflexivity|]. rewrite Hr, IH. reflexivity.
Qed.

Lemma is_subseq_tail {A} (eqb : A -> A -> bool) : forall b a x,
  is_subseq eqb (x :: a) b = true -> is_subseq eqb a b = true.
Proof.
  induction b as [|z b IH]; intros a x H; [discriminate|].
  cbn [is_subseq] in H.
  assert (Hab : is_subseq eqb a b = true).
  { destruct (eqb x z); [exact H|]. eapply IH; exact H. }
  destruct a as [|y a]; [reflexivity|].
  cbn [is_subseq]. destruct (eqb y z); [|exact Hab].
  eapply IH; exact Hab.
Qed.

Lemma is_subseq_cons_r {A} (eqb : A -> A -> bool) a b y :
  is_subseq eqb a b = true -> is_subseq eqb a (y :: b) = true.
Proof.
  intros H. destruct a as [|x a]; [reflexivity|].
  cbn [is_subseq]. destruct (eqb x y); [|exact H]. eapply is_subseq_tail; exact H.
Qed.

Lemma is_subseq_cons_both {A} (eqb : A -> A -> bool) a b x :
  eqb x x = true -> is_subseq eqb a b = true -> is_subseq eqb (x :: a) (x :: b) = true.
Proof. intros Hr H. cbn [is_subseq]. rewrite Hr. exact H. Qed.

Lemma is_subseq_nil {A} (eqb : A -> A -> bool) b : is_subseq eqb [] b = true.
Proof. destruct b; reflexivity. Qed.

(* ------------------------------------------------------------------------------------ *)
(* Bit facts                                                                             *)
(* ------------------------------------------------------------------------------------ *)

Lemma lor_lt_pow2 a b n : a < 2 ^ n -> b < 2 ^ n -> N.lor a b < 2 ^ n.
Proof.
  intros Ha Hb.
  destruct (N.eq_dec (N.lor a b) 0) as [E|E].
  - rewrite E. destruct (2 ^ n) eqn:E2; [|lia]. apply N.pow_nonzero in E2; [contradiction|lia].
  - apply N.log2_lt_pow2; [lia|].
    rewrite N.log2_lor.
    destruct (N.eq_dec a 0) as [Ea|Ea]; destruct (N.eq_dec b 0) as [Eb|Eb]; subst.
    + exfalso. apply E. reflexivity.
    + rewrite N.max_r by (cbn; lia). apply N.log2_lt_pow2; lia.
    + rewrite N.max_l by (cbn; lia). apply N.log2_lt_pow2; lia.
    + apply N.max_lub_lt; apply N.log2_lt_pow2; lia.
Qed.

Lemma lor_lt_65536 a b : a < 65536 -> b < 65536 -> N.lor a b < 65536.
Proof. change 65536 with (2 ^ 16). apply lor_lt_pow2. Qed.

Lemma lor_ptr off : off < 16384 -> N.lor off 49152 = off + 49152.
Proof.
  intros H.
  assert (Hl : N.land off 49152 = 0).
  { apply N.bits_inj_0. intros n. rewrite N.land_spec.
    destruct (N.lt_ge_cases n 14) as [Hn|Hn].
    - change 49152 with (N.shiftl 3 14). rewrite N.shiftl_spec_low by exact Hn.
      apply andb_false_r.
    - destruct (N.eq_dec off 0) as [E|E]; [subst; rewrite N.bits_0; reflexivity|].
      rewrite (N.bits_above_log2 off n); [reflexivity|].
      assert (N.log2 off < 14) by (apply N.log2_lt_pow2; [lia|exact H]). lia. }
  rewrite <- N.lxor_lor by exact Hl. symmetry. apply N.add_nocarry_lxor. exact Hl.
Qed.

(* ------------------------------------------------------------------------------------ *)
(* Fixed-width fields: what was written is what is read                                  *)
(* ------------------------------------------------------------------------------------ *)

Local Ltac Zify.zify_post_hook ::= Z.div_mod_to_equations.

Lemma u16_join v : v < 65536 -> (v / 256) mod 256 * 256 + v mod 256 = v.
Proof. intros H. lia. Qed.

Lemma u32_join v : v < 4294967296 ->
  ((v / 16777216) mod 256 * 256 + (v / 65536) mod 256) * 65536
  + ((v / 256) mod 256 * 256 + v mod 256) = v.
Proof. intros H. lia. Qed.

Lemma nth_byte_shift a b k : nth_byte (a ++ b) (blen a + k) = nth_byte b k.
Proof.
  unfold nth_byte, blen. rewrite nth_error_app2 by lia. f_equal. lia.
Qed.

Lemma ref_u16_shift a b k : ref_u16 (a ++ b) (blen a + k) = ref_u16 b k.
Proof.
  unfold ref_u16. rewrite <- N.add_assoc, !nth_byte_shift. reflexivity.
Qed.

Lemma ref_u32_shift a b k : ref_u32 (a ++ b) (blen a + k) = ref_u32 b k.
Proof.
  unfold ref_u32. rewrite <- N.add_assoc, !ref_u16_shift. reflexivity.
Qed.

Lemma ref_u16_at0 b0 b1 rest : ref_u16 (b0 :: b1 :: rest) 0 = Some (b0 * 256 + b1).
Proof. reflexivity. Qed.

Lemma ref_u32_at0 b0 b1 b2 b3 rest :
  ref_u32 (b0 :: b1 :: b2 :: b3 :: rest) 0 = Some ((b0 * 256 + b1) * 65536 + (b2 * 256 + b3)).
Proof. reflexivity. Qed.

Lemma ref_u16_mid pre v post :
  v < 65536 -> ref_u16 (pre ++ u16_bytes v ++ post) (blen pre) = Some v.
Proof.
  intros H. rewrite <- (N.add_0_r (blen pre)), ref_u16_shift.
  unfold u16_bytes. cbn [app]. rewrite ref_u16_at0, u16_join by exact H. reflexivity.
Qed.

Lemma ref_u32_mid pre v post :
  v < 4294967296 -> ref_u32 (pre ++ u32_bytes v ++ post) (blen pre) = Some v.
Proof.
  intros H. rewrite <- (N.add_0_r (blen pre)), ref_u32_shift.
  unfold u32_bytes. cbn [app]. rewrite ref_u32_at0.
  rewrite u32_join by exact H. reflexivity.
Qed.

Lemma ref_bytes_end pre b : ref_bytes (pre ++ b) (blen pre) (blen b) = Some b.
Proof.
  unfold ref_bytes.
  assert (E : blen pre + blen b <=? N.of_nat (length (pre ++ b)) = true).
  { apply N.leb_le. rewrite app_length. unfold blen. lia. }
  rewrite E. rewrite !to_nat_blen.
  rewrite skipn_app, skipn_all, Nat.sub_diag. cbn [skipn app].
  rewrite firstn_all. reflexivity.
Qed.

(* the ten fixed bytes of a record *)
Lemma fixed_fields pre ty cl ttl rdl rd :
  ty < 65536 -> cl < 65536 -> ttl < 4294967296 -> rdl < 65536 ->
  let d := pre ++ (u16_bytes ty ++ u16_bytes cl ++ u32_bytes ttl) ++ u16_bytes rdl ++ rd in
  ref_u16 d (blen pre) = Some ty /\ ref_u16 d (blen pre + 2) = Some cl
  /\ ref_u32 d (blen pre + 4) = Some ttl /\ ref_u16 d (blen pre + 8) = Some rdl.
Proof.
  intros H1 H2 H3 H4 d. subst d. rewrite <- !app_assoc. repeat split.
  - apply ref_u16_mid. exact H1.
  - replace (blen pre + 2) with (blen (pre ++ u16_bytes ty)) by (blen_norm; lia).
    rewrite (app_assoc pre). apply ref_u16_mid. exact H2.
  - replace (blen pre + 4) with (blen ((pre ++ u16_bytes ty) ++ u16_bytes cl)) by (blen_norm; lia).
    rewrite (app_assoc pre), (app_assoc (pre ++ _)). apply ref_u32_mid. exact H3.
  - replace (blen pre + 8) with (blen (((pre ++ u16_bytes ty) ++ u16_bytes cl) ++ u32_bytes ttl))
      by (blen_norm; lia).
    rewrite (app_assoc pre), (app_assoc (pre ++ _)), (app_assoc ((pre ++ _) ++ _)).
    apply ref_u16_mid. exact H4.
Qed.

(* ------------------------------------------------------------------------------------ *)
(* 2/3. write_labels: an equivalent writer that consults a fixed table                   *)
(* ------------------------------------------------------------------------------------ *)

(* bytes written and table entries created (newest first) *)
Fixpoint enc (t : table) (pos : N) (ls : labels) : bytes * table :=
  match ls with
  | [] => ([0], [])
  | l :: rest =>
    match lookup ls t with
    | Some off => (u16_bytes (N.lor off 49152), [])
    | None =>
      let r := enc t (pos + 1 + blen l) rest in
      (blen l :: l ++ fst r, snd r ++ [(ls, pos mod 65536)])
    end
  end.

Lemma labels_beq_length a : forall b, labels_beq a b = true -> length a = length b.
Proof. intros b H. apply labels_beq_eq in H. congruence. Qed.

Lemma lookup_skip k pend t :
  (forall k' v, In (k', v) pend -> length k <> length k') ->
  lookup k (pend ++ t) = lookup k t.
Proof.
  induction pend as [|[k' v] pend IH]; intros H; [reflexivity|].
  cbn [app lookup].
  destruct (labels_beq k k') eqn:E.
  - apply labels_beq_length in E. exfalso. apply (H k' v); [left; reflexivity|exact E].
  - apply IH. intros k2 v2 Hin. apply (H k2 v2). right. exact Hin.
Qed.

Lemma lookup_In k t v : lookup k t = Some v -> In (k, v) t.
Proof.
  induction t as [|[k' v'] t IH]; cbn [lookup]; intros H; [discriminate|].
  destruct (labels_beq k k') eqn:E.
  - apply labels_beq_eq in E. inversion H; subst. left. reflexivity.
  - right. apply IH. exact H.
Qed.

Lemma label_ok_inv l : label_ok l = true -> 1 <= blen l /\ blen l <= 63.
Proof.
  unfold label_ok. intros H. apply andb_true_iff in H as [H _].
  apply andb_true_iff in H as [H1 H2]. apply N.leb_le in H1, H2. split; assumption.
Qed.

Lemma write_labels_enc : forall ls pend t pos,
  forallb label_ok ls = true ->
  (forall k v, In (k, v) pend -> (length ls < length k)%nat) ->
  write_labels (pend ++ t) pos ls
  = Ok (fst (enc t pos ls), snd (enc t pos ls) ++ pend ++ t).
Proof.
  induction ls as [|l rest IH]; intros pend t pos Hok Hpend; [reflexivity|].
  cbn [forallb] in Hok. apply andb_true_iff in Hok as [Hl Hrest].
  apply label_ok_inv in Hl.
  cbn [write_labels enc].
  rewrite lookup_skip.
  2:{ intros k' v Hin. apply Hpend in Hin. lia. }
  destruct (lookup (l :: rest) t) as [off|]; [reflexivity|].
  replace (64 <=? blen l) with false by (symmetry; apply N.leb_gt; lia).
  change (((l :: rest, pos mod 65536) :: pend ++ t)) with
    (((l :: rest, pos mod 65536) :: pend) ++ t).
  rewrite IH; [|exact Hrest|].
  - cbn [bind fst snd]. rewrite <- app_assoc. reflexivity.
  - intros k v [Hin|Hin].
    + inversion Hin; subst. cbn [length]. lia.
    + apply Hpend in Hin. cbn [length] in Hin. lia.
Qed.

Lemma write_labels_enc0 ls t pos :
  forallb label_ok ls = true ->
  write_labels t pos ls = Ok (fst (enc t pos ls), snd (enc t pos ls) ++ t).
Proof.
  intros H. apply (write_labels_enc ls [] t pos H). intros k v [].
Qed.

Lemma wire_len_nil : wire_len [] = 1.
Proof. reflexivity. Qed.

Lemma wire_len_cons l rest : wire_len (l :: rest) = 1 + blen l + wire_len rest.
Proof. reflexivity. Qed.

Lemma wire_len_pos ls : 1 <= wire_len ls.
Proof. destruct ls; [rewrite wire_len_nil|rewrite wire_len_cons]; lia. Qed.

Lemma enc_len : forall ls t pos,
  1 <= blen (fst (enc t pos ls)) /\ blen (fst (enc t pos ls)) <= wire_len ls.
Proof.
  induction ls as [|l rest IH]; intros t pos.
  - cbn [enc fst]. rewrite wire_len_nil. blen_norm. lia.
  - cbn [enc]. rewrite wire_len_cons. pose proof (wire_len_pos rest).
    destruct (lookup (l :: rest) t).
    + cbn [fst]. rewrite blen_u16. lia.
    + cbn [fst]. specialize (IH t (pos + 1 + blen l)). blen_norm. lia.
Qed.

Lemma firstn_exact {A} (a b : list A) : firstn (length a) (a ++ b) = a.
Proof. rewrite firstn_app, firstn_all, Nat.sub_diag. cbn [firstn]. apply app_nil_r. Qed.

Lemma skipn_exact {A} (a b : list A) : skipn (length a) (a ++ b) = b.
Proof. rewrite skipn_app, skipn_all, Nat.sub_diag. reflexivity. Qed.

Lemma enc_run : forall ls t pos x fuel,
  forallb label_ok ls = true ->
  (forall k off, lookup k t = Some off -> off < 16384) ->
  (length (fst (enc t pos ls) ++ x) < fuel)%nat ->
  run fuel (fst (enc t pos ls) ++ x) pos = RunEnd ls (pos + blen (fst (enc t pos ls)))
  \/ exists ls1 ls2 off, ls = ls1 ++ ls2 /\ lookup ls2 t = Some off /\
       run fuel (fst (enc t pos ls) ++ x) pos
       = RunPtr ls1 (pos + blen (fst (enc t pos ls))) off.
Proof.
  induction ls as [|l rest IH]; intros t pos x fuel Hok Hlt Hfuel.
  - cbn [enc fst app] in *. destruct fuel as [|f]; [lia|]. cbn [run].
    rewrite N.eqb_refl. left. blen_norm. f_equal.
  - cbn [forallb] in Hok. apply andb_true_iff in Hok as [Hl Hrest].
    apply label_ok_inv in Hl.
    cbn [enc] in *. destruct (lookup (l :: rest) t) as [off|] eqn:E.
    + cbn [fst] in *. right. exists [], (l :: rest), off.
      split; [reflexivity|]. split; [exact E|].
      pose proof (Hlt _ _ E) as Hoff.
      rewrite lor_ptr by exact Hoff. unfold u16_bytes. cbn [app].
      destruct fuel as [|f]; [lia|]. cbn [run].
      assert (Hhi : ((off + 49152) / 256) mod 256 = 192 + off / 256) by lia.
      assert (Hlo : (192 + off / 256 - 192) * 256 + (off + 49152) mod 256 = off) by lia.
      rewrite Hhi.
      replace (192 + off / 256 =? 0) with false by (symmetry; apply N.eqb_neq; lia).
      replace (192 + off / 256 <? 64) with false by (symmetry; apply N.ltb_ge; lia).
      replace (192 <=? 192 + off / 256) with true by (symmetry; apply N.leb_le; lia).
      rewrite Hlo. blen_norm. f_equal.
    + cbn [fst] in *. cbn [app] in *.
      destruct fuel as [|f]; [lia|]. cbn [run].
      replace (blen l =? 0) with false by (symmetry; apply N.eqb_neq; lia).
      replace (blen l <? 64) with true by (symmetry; apply N.ltb_lt; lia).
      rewrite to_nat_blen. rewrite <- app_assoc.
      replace (Nat.ltb (length (l ++ fst (enc t (pos + 1 + blen l) rest) ++ x)) (length l))
        with false by (symmetry; apply Nat.ltb_ge; rewrite app_length; lia).
      rewrite skipn_exact, firstn_exact.
      cbn [length] in Hfuel. rewrite <- app_assoc, app_length in Hfuel.
      destruct (IH t (pos + 1 + blen l) x f Hrest Hlt) as [H|(ls1 & ls2 & off & H1 & H2 & H3)];
        [lia| |].
      * left. rewrite H. f_equal. blen_norm. lia.
      * right. exists (l :: ls1), ls2, off. split; [cbn [app]; congruence|].
        split; [exact H2|]. rewrite H3. f_equal. blen_norm. lia.
Qed.

(* ---- the compression-table invariant, relative to the bytes `d` written so far -------- *)
Definition tbl_ok (t : table) (d : bytes) : Prop :=
  forall k off, In (k, off) t -> off < blen d /\ exists n, ref_name d off = Some (k, n).

Lemma tbl_ok_nil d : tbl_ok [] d.
Proof. intros k off []. Qed.

Lemma tbl_ok_app t d x : tbl_ok t d -> tbl_ok t (d ++ x).
Proof.
  intros H k off Hin. destruct (H k off Hin) as [H1 [n H2]]. split.
  - blen_norm. lia.
  - exists n. apply ref_name_app. exact H2.
Qed.

Lemma tbl_ok_union a b d : tbl_ok a d -> tbl_ok b d -> tbl_ok (a ++ b) d.
Proof.
  intros Ha Hb k off Hin. apply in_app_or in Hin as [Hin|Hin]; [apply Ha|apply Hb]; exact Hin.
Qed.

Lemma tbl_ok_filter f t d : tbl_ok t d -> tbl_ok (filter f t) d.
Proof. intros H k off Hin. apply filter_In in Hin as [Hin _]. apply H. exact Hin. Qed.

Lemma skipn_blen d x : skipn (N.to_nat (blen d)) (d ++ x) = x.
Proof. rewrite to_nat_blen. apply skipn_exact. Qed.

Lemma enc_read t d ls x :
  tbl_ok t d -> blen d <= 16384 -> forallb label_ok ls = true ->
  ref_name (d ++ fst (enc t (blen d) ls) ++ x) (blen d)
  = Some (ls, blen d + blen (fst (enc t (blen d) ls))).
Proof.
  intros Ht Hd Hok.
  assert (Hlt : forall k off, lookup k t = Some off -> off < 16384).
  { intros k off H. apply lookup_In in H. apply Ht in H. lia. }
  set (bs := fst (enc t (blen d) ls)).
  unfold ref_name. cbn [ref_name_from]. rewrite skipn_blen.
  assert (Hr := enc_run ls t (blen d) x (S (length (bs ++ x))) Hok Hlt).
  fold bs in Hr.
  destruct Hr as [H|(ls1 & ls2 & off & H1 & H2 & H3)]; [lia| |].
  - rewrite H. reflexivity.
  - rewrite H3. apply lookup_In in H2. destruct (Ht _ _ H2) as [Ho [n Hn]].
    replace (blen d <=? off) with false by (symmetry; apply N.leb_gt; lia).
    unfold ref_name in Hn.
    pose proof (enc_len ls t (blen d)) as [Hb _]. fold bs in Hb.
    rewrite (ref_name_from_app _ _ _ _ _ (bs ++ x) (length (d ++ bs ++ x)) Hn).
    + rewrite H1. reflexivity.
    + rewrite !app_length. unfold blen in Hb. lia.
Qed.

Lemma enc_entries : forall ls t d,
  tbl_ok t d -> forallb label_ok ls = true -> blen d + wire_len ls <= 16384 ->
  tbl_ok (snd (enc t (blen d) ls)) (d ++ fst (enc t (blen d) ls)).
Proof.
  induction ls as [|l rest IH]; intros t d Ht Hok Hsz.
  - cbn [enc snd]. apply tbl_ok_nil.
  - pose proof (wire_len_pos (l :: rest)) as Hwl.
    assert (Hread := enc_read t d (l :: rest) [] Ht ltac:(lia) Hok).
    rewrite app_nil_r in Hread.
    pose proof (enc_len (l :: rest) t (blen d)) as [Hb1 Hb2].
    rewrite wire_len_cons in Hsz.
    cbn [forallb] in Hok. apply andb_true_iff in Hok as [Hl Hrest].
    cbn [enc] in *. destruct (lookup (l :: rest) t) as [off|]; [apply tbl_ok_nil|].
    cbn [fst snd] in *.
    apply tbl_ok_union.
    + set (d1 := d ++ blen l :: l).
      assert (Hd1 : blen d1 = blen d + 1 + blen l) by (subst d1; blen_norm; lia).
      rewrite <- Hd1.
      replace (d ++ blen l :: l ++ fst (enc t (blen d1) rest))
        with (d1 ++ fst (enc t (blen d1) rest))
        by (subst d1; rewrite <- app_assoc; reflexivity).
      apply IH; [apply tbl_ok_app; exact Ht|exact Hrest|lia].
    + intros k off [Hin|[]]. inversion Hin; subst.
      rewrite N.mod_small by lia. split.
      * blen_norm. blen_norm. lia.
      * eexists. exact Hread.
Qed.

(* (i) correctness of write_labels *)
Theorem write_labels_correct t d ls :
  tbl_ok t d -> forallb label_ok ls = true -> blen d + wire_len ls <= 16384 ->
  exists bs t', write_labels t (blen d) ls = Ok (bs, t')
    /\ 1 <= blen bs /\ blen bs <= wire_len ls
    /\ tbl_ok t' (d ++ bs)
    /\ forall x, ref_name (d ++ bs ++ x) (blen d) = Some (ls, blen d + blen bs).
Proof.
  intros Ht Hok Hsz.
  exists (fst (enc t (blen d) ls)), (snd (enc t (blen d) ls) ++ t).
  pose proof (wire_len_pos ls) as Hwl.
  split; [apply write_labels_enc0; exact Hok|].
  split; [apply enc_len|]. split; [apply enc_len|].
  split.
  - apply tbl_ok_union; [apply enc_entries; assumption|apply tbl_ok_app; exact Ht].
  - intros x. apply enc_read; [exact Ht|lia|exact Hok].
Qed.

Lemma write_labels_total t pos ls :
  forallb label_ok ls = true -> exists r, write_labels t pos ls = Ok r.
Proof. intros H. rewrite write_labels_enc0 by exact H. eauto. Qed.

Lemma wf_name_inv name :
  wf_name name = true ->
  forallb label_ok (name_labels name) = true /\ wire_len (name_labels name) <= 255.
Proof.
  unfold wf_name. intros H. apply andb_true_iff in H as [H1 H2]. apply N.leb_le in H2.
  split; assumption.
Qed.

Lemma write_name_correct t d name :
  tbl_ok t d -> wf_name name = true -> blen d <= 16000 ->
  exists bs t', write_name t (blen d) name = Ok (bs, t')
    /\ 1 <= blen bs /\ blen bs <= 255
    /\ tbl_ok t' (d ++ bs)
    /\ forall x, ref_name (d ++ bs ++ x) (blen d) = Some (name_labels name, blen d + blen bs).
Proof.
  intros Ht Hwf Hsz. apply wf_name_inv in Hwf as [H1 H2].
  destruct (write_labels_correct t d (name_labels name) Ht H1) as (bs & t' & Hw & Hb1 & Hb2 & Ht' & Hr);
    [lia|].
  exists bs, t'. unfold write_name.
  split; [exact Hw|]. split; [exact Hb1|]. split; [lia|]. split; [exact Ht'|exact Hr].
Qed.

Lemma write_name_total t pos name :
  wf_name name = true -> exists r, write_name t pos name = Ok r.
Proof. intros H. apply wf_name_inv in H as [H _]. apply write_labels_total. exact H. Qed.

(* ------------------------------------------------------------------------------------ *)
(* 4. write_rdata / write_record                                                          *)
(* ------------------------------------------------------------------------------------ *)

Lemma Ok_pair_inj {A B} (a a' : A) (b b' : B) : Ok (a, b) = Ok (a', b') -> a = a' /\ b = b'.
Proof. intros H. inversion H. split; reflexivity. Qed.

Lemma ref_rdata_at_raw d ty off n :
  ty <> 12 -> ty <> 5 -> ty <> 33 ->
  ref_rdata_at d ty off n = match ref_bytes d off n with Some b => Some (FRaw b) | None => None end.
Proof.
  intros H1 H2 H3. unfold ref_rdata_at.
  replace (ty =? 12) with false by (symmetry; apply N.eqb_neq; exact H1).
  replace (ty =? 5) with false by (symmetry; apply N.eqb_neq; exact H2).
  replace (ty =? 33) with false by (symmetry; apply N.eqb_neq; exact H3).
  reflexivity.
Qed.

Lemma write_rdata_total t pos ty rd :
  wf_rdata ty rd = true -> exists r, write_rdata t pos rd = Ok r.
Proof.
  destruct rd as [o|a|p w po h|x|c o|n b]; cbn [wf_rdata write_rdata]; intros H;
    try discriminate; try (eexists; reflexivity).
  - apply andb_true_iff in H as [_ H]. apply write_name_total. exact H.
  - apply andb_true_iff in H as [_ H].
    destruct (write_name_total t (pos + 6) h H) as [[nb t'] Hw]. rewrite Hw. cbn [bind]. eauto.
Qed.

Lemma write_rdata_props t1 d1 ty rd rdb t2 :
  tbl_ok t1 d1 -> blen d1 <= 15000 -> wf_rdata ty rd = true ->
  write_rdata t1 (blen d1) rd = Ok (rdb, t2) ->
  tbl_ok t2 (d1 ++ rdb)
  /\ ref_rdata_at (d1 ++ rdb) ty (blen d1) (blen rdb) = Some (view_rdata rd).
Proof.
  intros Ht Hsz Hwf Hw.
  destruct rd as [o|a|p w po h|x|c o|n b]; cbn [wf_rdata write_rdata view_rdata] in *;
    try discriminate.
  - (* A / AAAA *)
    inversion Hw; subst. split; [apply tbl_ok_app; exact Ht|].
    apply andb_true_iff in Hwf as [_ Hwf].
    assert (Hty : ty = 1 \/ ty = 28).
    { apply orb_true_iff in Hwf as [H|H]; apply andb_true_iff in H as [H _];
        apply N.eqb_eq in H; auto. }
    rewrite ref_rdata_at_raw by lia. rewrite ref_bytes_end. reflexivity.
  - (* PTR / CNAME *)
    apply andb_true_iff in Hwf as [Hty Hwf].
    destruct (write_name_correct t1 d1 a Ht Hwf) as (bs & t' & Hw' & _ & _ & Ht' & Hr); [lia|].
    rewrite Hw' in Hw. inversion Hw; subst. split; [exact Ht'|].
    unfold ref_rdata_at. rewrite Hty.
    specialize (Hr []). rewrite app_nil_r in Hr. rewrite Hr, N.eqb_refl. reflexivity.
  - (* SRV *)
    apply andb_true_iff in Hwf as [Hwf Hh]. apply andb_true_iff in Hwf as [Hwf Hpo].
    apply andb_true_iff in Hwf as [Hwf Hw2]. apply andb_true_iff in Hwf as [Hty Hp].
    apply N.eqb_eq in Hty. apply N.ltb_lt in Hp, Hw2, Hpo. subst ty.
    set (d2 := d1 ++ u16_bytes p ++ u16_bytes w ++ u16_bytes po).
    assert (Hd2 : blen d2 = blen d1 + 6) by (subst d2; blen_norm; lia).
    rewrite <- Hd2 in Hw.
    destruct (write_name_correct t1 d2 h) as (bs & t' & Hw' & _ & _ & Ht' & Hr);
      [apply tbl_ok_app; exact Ht|exact Hh|lia|].
    rewrite Hw' in Hw. cbn [bind] in Hw. apply Ok_pair_inj in Hw as [E1 E2]. subst rdb t2.
    replace (d1 ++ u16_bytes p ++ u16_bytes w ++ u16_bytes po ++ bs) with (d2 ++ bs)
      by (subst d2; rewrite <- !app_assoc; reflexivity).
    split; [exact Ht'|].
    unfold ref_rdata_at.
    change ((33 =? 12) || (33 =? 5)) with false. change (33 =? 33) with true. cbv iota.
    specialize (Hr []). rewrite app_nil_r in Hr.
    rewrite <- Hd2, Hr.
    assert (H1 : ref_u16 (d2 ++ bs) (blen d1) = Some p).
    { subst d2. rewrite <- !app_assoc. apply ref_u16_mid. exact Hp. }
    assert (H2 : ref_u16 (d2 ++ bs) (blen d1 + 2) = Some w).
    { subst d2. rewrite <- !app_assoc.
      replace (blen d1 + 2) with (blen (d1 ++ u16_bytes p)) by (blen_norm; lia).
      rewrite (app_assoc d1). apply ref_u16_mid. exact Hw2. }
    assert (H3 : ref_u16 (d2 ++ bs) (blen d1 + 4) = Some po).
    { subst d2. rewrite <- !app_assoc.
      replace (blen d1 + 4) with (blen ((d1 ++ u16_bytes p) ++ u16_bytes w)) by (blen_norm; lia).
      rewrite (app_assoc d1), (app_assoc (d1 ++ _)). apply ref_u16_mid. exact Hpo. }
    rewrite H1, H2, H3.
    replace (blen d2 + blen bs =? blen d1 + blen (u16_bytes p ++ u16_bytes w ++ u16_bytes po ++ bs))
      with true by (symmetry; apply N.eqb_eq; blen_norm; lia).
    reflexivity.
  - (* TXT *)
    inversion Hw; subst. split; [apply tbl_ok_app; exact Ht|].
    apply andb_true_iff in Hwf as [Hty _]. apply N.eqb_eq in Hty.
    rewrite ref_rdata_at_raw by lia. rewrite ref_bytes_end. reflexivity.
Qed.

Lemma class_bits_lt r : r_class r <? 32768 = true -> class_bits r < 65536.
Proof.
  intros H. apply N.ltb_lt in H. unfold class_bits. destruct (r_flush r); [|lia].
  apply lor_lt_65536; lia.
Qed.

Definition ttl_ok (r : orec) (now : N) : bool :=
  (now =? 0) || (now <=? or_created r + r_ttl (or_rr r) * 1000).

Lemma ttl_written r now :
  ttl_ok r now = true -> r_ttl (or_rr r) < 4294967296 ->
  (if now =? 0 then Ok (r_ttl (or_rr r))
   else remaining_ttl (or_created r) (r_ttl (or_rr r)) now) = Ok (written_ttl r now)
  /\ written_ttl r now < 4294967296.
Proof.
  unfold ttl_ok, written_ttl, remaining_ttl. intros H Httl.
  destruct (now =? 0) eqn:E; [split; [reflexivity|exact Httl]|].
  cbn [orb] in H. apply N.leb_le in H.
  replace (or_created r + r_ttl (or_rr r) * 1000 <? now) with false
    by (symmetry; apply N.ltb_ge; exact H).
  split; [reflexivity|]. apply N.mod_lt. lia.
Qed.

Lemma wf_orec_inv r :
  wf_orec r = true ->
  wf_name (or_name r) = true /\ r_type (or_rr r) < 65536 /\ class_bits (or_rr r) < 65536
  /\ r_ttl (or_rr r) < 4294967296 /\ wf_rdata (r_type (or_rr r)) (r_data (or_rr r)) = true.
Proof.
  unfold wf_orec. intros H.
  apply andb_true_iff in H as [H H5]. apply andb_true_iff in H as [H H4].
  apply andb_true_iff in H as [H H3]. apply andb_true_iff in H as [H1 H2].
  apply N.ltb_lt in H2, H4. apply class_bits_lt in H3. repeat split; assumption.
Qed.

(* (ii) correctness of write_record *)
Theorem write_record_correct t d r now :
  tbl_ok t d -> blen d <= MAX_MSG -> wf_orec r = true -> ttl_ok r now = true ->
  exists w, write_record t (blen d) r now = Ok w /\
    match w with
    | None => True
    | Some (bs, t') =>
      tbl_ok t' (d ++ bs) /\ blen d + blen bs <= MAX_MSG /\ 11 <= blen bs
      /\ ref_record (d ++ bs) (blen d)
         = Some (view_rr r (written_ttl r now), blen d + blen bs)
    end.
Proof.
  unfold MAX_MSG. intros Ht Hsz Hwf Hnow.
  apply wf_orec_inv in Hwf as (Hname & Hty & Hcl & Httl & Hrd).
  destruct (ttl_written r now Hnow Httl) as [Hw_ttl Httl'].
  unfold write_record.
  destruct (write_name_correct t d (or_name r) Ht Hname) as (nb & t1 & Hw1 & Hn1 & Hn2 & Ht1 & Hr1);
    [lia|].
  rewrite Hw1. cbn [bind]. rewrite Hw_ttl. cbn [bind].
  set (ttl := written_ttl r now) in *.
  set (fixed := u16_bytes (r_type (or_rr r)) ++ u16_bytes (class_bits (or_rr r)) ++ u32_bytes ttl).
  destruct (write_rdata_total t1 (blen d + blen nb + 10) _ _ Hrd) as [[rdb t2] Hw2].
  rewrite Hw2. cbn [bind].
  set (bs := nb ++ fixed ++ u16_bytes (blen rdb mod 65536) ++ rdb).
  assert (Hbs : blen bs = blen nb + 10 + blen rdb) by (subst bs fixed; blen_norm; lia).
  unfold MAX_MSG.
  destruct (8972 <? blen d + blen bs) eqn:Efit; [exists None; split; [reflexivity|exact I]|].
  apply N.ltb_ge in Efit.
  exists (Some (bs, t2)). split; [reflexivity|].
  assert (Hrdl : blen rdb mod 65536 = blen rdb) by (apply N.mod_small; lia).
  set (d1 := (d ++ nb) ++ fixed ++ u16_bytes (blen rdb mod 65536)).
  assert (Hd1 : blen d1 = blen d + blen nb + 10) by (subst d1 fixed; blen_norm; lia).
  assert (Hdbs : d ++ bs = d1 ++ rdb).
  { subst d1 bs. rewrite <- !app_assoc. reflexivity. }
  rewrite <- Hd1 in Hw2.
  destruct (write_rdata_props t1 d1 _ _ _ _ ltac:(subst d1; apply tbl_ok_app; exact Ht1)
              ltac:(lia) Hrd Hw2) as [Ht2 Hrdv].
  split; [rewrite Hdbs; exact Ht2|]. split; [exact Efit|]. split; [lia|].
  unfold ref_record.
  specialize (Hr1 (fixed ++ u16_bytes (blen rdb mod 65536) ++ rdb)). fold bs in Hr1.
  rewrite Hr1.
  replace (blen d + blen nb) with (blen (d ++ nb)) by (blen_norm; lia).
  assert (Hd' : d ++ bs = (d ++ nb) ++ fixed ++ u16_bytes (blen rdb mod 65536) ++ rdb).
  { subst bs. rewrite <- !app_assoc. reflexivity. }
  destruct (fixed_fields (d ++ nb) (r_type (or_rr r)) (class_bits (or_rr r)) ttl
              (blen rdb mod 65536) rdb Hty Hcl Httl' ltac:(lia)) as (F1 & F2 & F3 & F4).
  fold fixed in F1, F2, F3, F4. rewrite <- Hd' in F1, F2, F3, F4.
  rewrite F1, F2, F3, F4.
  replace (blen (d ++ nb) + 10) with (blen d1) by (rewrite Hd1; blen_norm; lia).
  rewrite Hrdl. rewrite Hdbs, Hrdv.
  unfold view_rr. f_equal. f_equal. rewrite Hd1. lia.
Qed.

Lemma write_record_total t pos r now :
  wf_orec r = true -> ttl_ok r now = true -> exists w, write_record t pos r now = Ok w.
Proof.
  intros Hwf Hnow.
  apply wf_orec_inv in Hwf as (Hname & Hty & Hcl & Httl & Hrd).
  destruct (ttl_written r now Hnow Httl) as [Hw_ttl _].
  unfold write_record.
  destruct (write_name_total t pos _ Hname) as [[nb t1] Hw1]. rewrite Hw1. cbn [bind].
  rewrite Hw_ttl. cbn [bind].
  destruct (write_rdata_total t1 (pos + blen nb + 10) _ _ Hrd) as [[rdb t2] Hw2].
  rewrite Hw2. cbn [bind].
  match goal with |- context [if ?c then _ else _] => destruct c end; eauto.
Qed.

(* ------------------------------------------------------------------------------------ *)
(* 5. Packets under construction                                                         *)
(* ------------------------------------------------------------------------------------ *)

(* invariant of a packet under construction; the 12 header bytes are arbitrary *)
Definition PINV (p : pkt) : Prop :=
  p_size p <= MAX_MSG /\ forall h, blen h = 12 -> tbl_ok (p_table p) (h ++ p_body p).

Definition h0 : bytes := repeat 0 12.
Lemma blen_h0 : blen h0 = 12.
Proof. reflexivity. Qed.

Lemma blen_hb h b : blen h = 12 -> blen (h ++ b) = 12 + blen b.
Proof. intros H. blen_norm. lia. Qed.

Lemma PINV_empty : PINV empty_pkt.
Proof.
  split; [unfold p_size, empty_pkt, MAX_MSG; cbn [p_body]; blen_norm; lia|].
  intros h _. apply tbl_ok_nil.
Qed.

Lemma put_record_props p r now :
  PINV p -> wf_orec r = true -> ttl_ok r now = true ->
  exists p' ok, put_record p r now = Ok (p', ok) /\ PINV p'
    /\ (ok = false -> p_body p' = p_body p)
    /\ (ok = true ->
        (exists bs, p_body p' = p_body p ++ bs) /\
        forall h, blen h = 12 ->
          ref_record (h ++ p_body p') (p_size p)
          = Some (view_rr r (written_ttl r now), p_size p')).
Proof.
  intros [Hsz Ht] Hwf Hnow.
  assert (Hpos : forall h, blen h = 12 -> blen (h ++ p_body p) = p_size p).
  { intros h Hh. unfold p_size. apply blen_hb. exact Hh. }
  destruct (write_record_correct (p_table p) (h0 ++ p_body p) r now (Ht h0 blen_h0)) as [w [Hw Hprops]];
    [rewrite (Hpos h0 blen_h0); exact Hsz|exact Hwf|exact Hnow|].
  rewrite (Hpos h0 blen_h0) in Hw.
  unfold put_record. rewrite Hw. cbn [bind].
  destruct w as [[bs t']|].
  - exists (mkPkt (p_body p ++ bs) t'), true. split; [reflexivity|].
    assert (Hall : forall h, blen h = 12 ->
      tbl_ok t' ((h ++ p_body p) ++ bs) /\ p_size p + blen bs <= MAX_MSG
      /\ ref_record ((h ++ p_body p) ++ bs) (p_size p)
         = Some (view_rr r (written_ttl r now), p_size p + blen bs)).
    { intros h Hh.
      destruct (write_record_correct (p_table p) (h ++ p_body p) r now (Ht h Hh)) as [w' [Hw' Hp']];
        [rewrite (Hpos h Hh); exact Hsz|exact Hwf|exact Hnow|].
      rewrite (Hpos h Hh) in Hw', Hp'. rewrite Hw in Hw'. inversion Hw'; subst w'.
      destruct Hp' as (H1 & H2 & _ & H4). auto. }
    assert (Hsz' : p_size (mkPkt (p_body p ++ bs) t') = p_size p + blen bs).
    { unfold p_size. cbn [p_body]. blen_norm. lia. }
    split; [|split].
    + split.
      * rewrite Hsz'. apply (Hall h0 blen_h0).
      * intros h Hh. cbn [p_body p_table]. rewrite app_assoc. apply (Hall h Hh).
    + discriminate.
    + intros _. split; [exists bs; reflexivity|].
      intros h Hh. rewrite Hsz'. cbn [p_body]. rewrite app_assoc. apply (Hall h Hh).
  - exists (mkPkt (p_body p) (rollback_table (p_table p) (p_size p))), false.
    split; [reflexivity|]. split; [|split].
    + split; [exact Hsz|]. intros h Hh. cbn [p_body p_table]. unfold rollback_table.
      apply tbl_ok_filter. apply Ht. exact Hh.
    + reflexivity.
    + discriminate.
Qed.

Lemma put_record_total p r now :
  wf_orec r = true -> ttl_ok r now = true -> exists x, put_record p r now = Ok x.
Proof.
  intros Hwf Hnow. unfold put_record.
  destruct (write_record_total (p_table p) (p_size p) r now Hwf Hnow) as [w Hw].
  rewrite Hw. cbn [bind]. destruct w as [[bs t]|]; eauto.
Qed.

Lemma wf_answer_inv r now : wf_answer (r, now) = true -> wf_orec r = true /\ ttl_ok r now = true.
Proof. unfold wf_answer, ttl_ok. cbn [fst snd]. intros H. apply andb_true_iff in H. exact H. Qed.

Lemma to_nat_succ n : N.to_nat (n + 1) = S (N.to_nat n).
Proof. lia. Qed.

Lemma put_answers_props : forall rs p cnt,
  PINV p -> forallb wf_answer rs = true ->
  exists p' cnt' l' bs,
    put_answers p rs cnt = Ok (p', cnt') /\ PINV p' /\ p_body p' = p_body p ++ bs
    /\ is_subseq ref_rr_beq l' (map view_answer rs) = true
    /\ forall h off l, blen h = 12 ->
         ref_records (N.to_nat cnt) (h ++ p_body p) off = Some (l, p_size p) ->
         ref_records (N.to_nat cnt') (h ++ p_body p') off = Some (l ++ l', p_size p').
Proof.
  induction rs as [|[r now] rs IH]; intros p cnt Hp Hwf.
  - exists p, cnt, [], []. split; [reflexivity|]. split; [exact Hp|].
    split; [rewrite app_nil_r; reflexivity|]. split; [reflexivity|].
    intros h off l _ H. rewrite app_nil_r. exact H.
  - cbn [forallb] in Hwf. apply andb_true_iff in Hwf as [Hr Hrs].
    apply wf_answer_inv in Hr as [Hr Hnow].
    destruct (put_record_props p r now Hp Hr Hnow) as (p1 & ok & Hput & Hp1 & Hno & Hyes).
    cbn [put_answers]. rewrite Hput. cbn [bind].
    destruct (IH p1 (if ok then cnt + 1 else cnt) Hp1 Hrs)
      as (p' & cnt' & l' & bs & Hrun & Hp' & Hbody & Hsub & Hparse).
    rewrite Hrun. destruct ok.
    + destruct (Hyes eq_refl) as [[bs1 Hb1] Hrec].
      exists p', cnt', (view_answer (r, now) :: l'), (bs1 ++ bs).
      split; [reflexivity|]. split; [exact Hp'|].
      split; [rewrite Hbody, Hb1, app_assoc; reflexivity|].
      split; [cbn [map]; apply is_subseq_cons_both; [apply ref_rr_beq_refl|exact Hsub]|].
      intros h off l Hh Hl.
      replace (l ++ view_answer (r, now) :: l') with ((l ++ [view_answer (r, now)]) ++ l')
        by (rewrite <- app_assoc; reflexivity).
      apply Hparse; [exact Hh|]. rewrite to_nat_succ.
      eapply ref_records_snoc.
      * rewrite Hb1, app_assoc. apply ref_records_stable. exact Hl.
      * apply Hrec. exact Hh.
    + specialize (Hno eq_refl).
      exists p', cnt', l', bs.
      split; [reflexivity|]. split; [exact Hp'|].
      split; [rewrite Hbody, Hno; reflexivity|].
      split; [cbn [map]; apply is_subseq_cons_r; exact Hsub|].
      intros h off l Hh Hl. apply Hparse; [exact Hh|].
      rewrite Hno. unfold p_size. rewrite Hno. exact Hl.
Qed.

Lemma put_auths_eq : forall rs p cnt,
  put_auths p rs cnt = put_answers p (map (fun r => (r, 0)) rs) cnt.
Proof.
  induction rs as [|r rs IH]; intros p cnt; [reflexivity|].
  cbn [put_auths put_answers map].
  destruct (put_record p r 0) as [[p' ok]| | |]; cbn [bind]; [apply IH|reflexivity..].
Qed.

Lemma ttl_ok_0 r : ttl_ok r 0 = true.
Proof. reflexivity. Qed.

Lemma wf_other_answers rs :
  forallb wf_orec rs = true -> forallb wf_answer (map (fun r => (r, 0)) rs) = true.
Proof.
  induction rs as [|r rs IH]; cbn [forallb map]; intros H; [reflexivity|].
  apply andb_true_iff in H as [H1 H2]. rewrite (IH H2), andb_true_r.
  unfold wf_answer. cbn [fst snd]. rewrite H1. reflexivity.
Qed.

Lemma view_other_answers rs :
  map view_answer (map (fun r => (r, 0)) rs) = map view_other rs.
Proof. rewrite map_map. apply map_ext. intros r. reflexivity. Qed.

Lemma put_auths_props rs p cnt :
  PINV p -> forallb wf_orec rs = true ->
  exists p' cnt' l' bs,
    put_auths p rs cnt = Ok (p', cnt') /\ PINV p' /\ p_body p' = p_body p ++ bs
    /\ is_subseq ref_rr_beq l' (map view_other rs) = true
    /\ forall h off l, blen h = 12 ->
         ref_records (N.to_nat cnt) (h ++ p_body p) off = Some (l, p_size p) ->
         ref_records (N.to_nat cnt') (h ++ p_body p') off = Some (l ++ l', p_size p').
Proof.
  intros Hp Hwf. rewrite put_auths_eq, <- view_other_answers.
  apply put_answers_props; [exact Hp|apply wf_other_answers; exact Hwf].
Qed.

(* totality of the sections (no invariant needed) *)
Lemma put_answers_total : forall rs p cnt,
  forallb wf_answer rs = true -> exists x, put_answers p rs cnt = Ok x.
Proof.
  induction rs as [|[r now] rs IH]; intros p cnt Hwf; [cbn; eauto|].
  cbn [forallb] in Hwf. apply andb_true_iff in Hwf as [Hr Hrs].
  apply wf_answer_inv in Hr as [Hr Hnow].
  destruct (put_record_total p r now Hr Hnow) as [[p1 ok] Hput].
  cbn [put_answers]. rewrite Hput. cbn [bind]. apply IH. exact Hrs.
Qed.

Lemma put_auths_total rs p cnt :
  forallb wf_orec rs = true -> exists x, put_auths p rs cnt = Ok x.
Proof.
  intros H. rewrite put_auths_eq. apply put_answers_total. apply wf_other_answers. exact H.
Qed.

Lemma put_addls_total resp id fl : forall rs done p q a ns ar,
  forallb wf_orec rs = true -> exists x, put_addls resp id fl done p q a ns ar rs = Ok x.
Proof.
  induction rs as [|r rs IH]; intros done p q a ns ar Hwf; [cbn; eauto|].
  cbn [forallb] in Hwf. apply andb_true_iff in Hwf as [Hr Hrs].
  destruct (put_record_total p r 0 Hr (ttl_ok_0 r)) as [[p1 ok] Hput].
  cbn [put_addls]. rewrite Hput. cbn [bind].
  destruct ok; [apply IH; exact Hrs|].
  destruct resp; [eauto|].
  destruct (put_record_total empty_pkt r 0 Hr (ttl_ok_0 r)) as [[p2 ok2] Hput2].
  rewrite Hput2. cbn [bind]. apply IH. exact Hrs.
Qed.

Lemma write_questions_total : forall qs p,
  forallb (fun q => wf_name (fst q) && (snd q <? 65536)) qs = true ->
  exists p', write_questions p qs = Ok p'.
Proof.
  induction qs as [|q qs IH]; intros p Hwf; [cbn; eauto|].
  cbn [forallb] in Hwf. apply andb_true_iff in Hwf as [Hq Hqs].
  apply andb_true_iff in Hq as [Hq _].
  cbn [write_questions]. unfold write_question.
  destruct (write_name_total (p_table p) (p_size p) (fst q) Hq) as [[nb t] Hw].
  rewrite Hw. cbn [bind]. apply IH. exact Hqs.
Qed.

Lemma wf_out_inv m :
  wf_out m = true ->
  og_flags m < 65536 /\ og_id m < 65536
  /\ forallb (fun q => wf_name (fst q) && (snd q <? 65536)) (og_questions m) = true
  /\ forallb wf_answer (og_answers m) = true
  /\ forallb wf_orec (og_authorities m) = true /\ forallb wf_orec (og_additionals m) = true.
Proof.
  unfold wf_out. intros H.
  apply andb_true_iff in H as [H H6]. apply andb_true_iff in H as [H H5].
  apply andb_true_iff in H as [H H4]. apply andb_true_iff in H as [H H3].
  apply andb_true_iff in H as [H1 H2]. apply N.ltb_lt in H1, H2. repeat split; assumption.
Qed.

(* (iii) *)
Theorem encode_total : forall m, wf_out m = true -> exists pkts, to_packets m = Ok pkts.
Proof.
  intros m Hwf. apply wf_out_inv in Hwf as (_ & _ & Hq & Ha & Hn & Hr).
  unfold to_packets, to_packets_tables.
  destruct (write_questions_total _ empty_pkt Hq) as [p0 H0]. rewrite H0. cbn [bind].
  destruct (put_answers_total _ p0 0 Ha) as [[p1 a] H1]. rewrite H1. cbn [bind].
  destruct (put_auths_total _ p1 0 Hn) as [[p2 ns] H2]. rewrite H2. cbn [bind].
  destruct (put_addls_total (N.land (og_flags m) 32768 =? 32768)
              (if og_multicast m then 0 else og_id m) (og_flags m) _ [] p2
              (N.of_nat (length (og_questions m)) mod 65536) a ns 0 Hr)
    as [[[done p3] [[[q' a'] ns'] ar']] H3].
  rewrite H3. cbn [bind]. eauto.
Qed.

(* ---- the question section ---- *)

Lemma write_question_body p q p1 :
  write_question p q = Ok p1 -> exists bs, p_body p1 = p_body p ++ bs.
Proof.
  unfold write_question.
  destruct (write_name (p_table p) (p_size p) (fst q)) as [[nb t]| | |]; cbn [bind]; try discriminate.
  intros H. inversion H. cbn [p_body]. eauto.
Qed.

Lemma write_questions_mono : forall qs p p',
  write_questions p qs = Ok p' -> p_size p <= p_size p'.
Proof.
  induction qs as [|q qs IH]; intros p p' H.
  - cbn in H. inversion H. lia.
  - cbn [write_questions] in H.
    destruct (write_question p q) as [p1| | |] eqn:E; cbn [bind] in H; try discriminate.
    apply IH in H. apply write_question_body in E as [bs E].
    unfold p_size in *. rewrite E in H. blen_norm. lia.
Qed.

Definition TINV (p : pkt) : Prop := forall h, blen h = 12 -> tbl_ok (p_table p) (h ++ p_body p).

Lemma write_question_props p q :
  p_size p <= MAX_MSG -> TINV p -> wf_name (fst q) = true -> snd q < 65536 ->
  exists p1 bs, write_question p q = Ok p1 /\ p_body p1 = p_body p ++ bs /\ TINV p1
    /\ forall h, blen h = 12 ->
         ref_question (h ++ p_body p1) (p_size p) = Some (view_q q, p_size p1).
Proof.
  unfold MAX_MSG. intros Hsz Ht Hwf Hty.
  assert (Hpos : forall h, blen h = 12 -> blen (h ++ p_body p) = p_size p).
  { intros h Hh. unfold p_size. apply blen_hb. exact Hh. }
  destruct (write_name_correct (p_table p) (h0 ++ p_body p) (fst q) (Ht h0 blen_h0) Hwf)
    as (nb & t & Hw & _ & _ & _ & _); [rewrite (Hpos h0 blen_h0); lia|].
  rewrite (Hpos h0 blen_h0) in Hw.
  set (tail := u16_bytes (snd q) ++ u16_bytes 1).
  exists (mkPkt (p_body p ++ nb ++ tail) t), (nb ++ tail).
  unfold write_question. rewrite Hw. cbn [bind].
  split; [reflexivity|]. split; [reflexivity|].
  assert (Hall : forall h, blen h = 12 ->
    tbl_ok t ((h ++ p_body p) ++ nb) /\
    forall x, ref_name ((h ++ p_body p) ++ nb ++ x) (p_size p)
              = Some (name_labels (fst q), p_size p + blen nb)).
  { intros h Hh.
    destruct (write_name_correct (p_table p) (h ++ p_body p) (fst q) (Ht h Hh) Hwf)
      as (nb' & t' & Hw' & _ & _ & Ht' & Hr'); [rewrite (Hpos h Hh); lia|].
    rewrite (Hpos h Hh) in Hw', Hr'. rewrite Hw in Hw'. apply Ok_pair_inj in Hw' as [E1 E2].
    subst nb' t'. split; assumption. }
  split.
  - intros h Hh. cbn [p_body p_table].
    replace (h ++ p_body p ++ nb ++ tail) with (((h ++ p_body p) ++ nb) ++ tail)
      by (rewrite <- !app_assoc; reflexivity).
    apply tbl_ok_app. apply (Hall h Hh).
  - intros h Hh. cbn [p_body]. destruct (Hall h Hh) as [_ Hr].
    unfold ref_question.
    replace (h ++ p_body p ++ nb ++ tail) with ((h ++ p_body p) ++ nb ++ tail)
      by (rewrite <- !app_assoc; reflexivity).
    rewrite Hr.
    set (d := (h ++ p_body p) ++ nb).
    assert (Hd : blen d = p_size p + blen nb) by (subst d; rewrite blen_app, (Hpos h Hh); reflexivity).
    replace ((h ++ p_body p) ++ nb ++ tail) with (d ++ tail)
      by (subst d; rewrite <- !app_assoc; reflexivity).
    rewrite <- Hd.
    assert (H1 : ref_u16 (d ++ tail) (blen d) = Some (snd q)).
    { subst tail. apply ref_u16_mid. exact Hty. }
    assert (H2 : ref_u16 (d ++ tail) (blen d + 2) = Some 1).
    { subst tail. replace (blen d + 2) with (blen (d ++ u16_bytes (snd q))) by (blen_norm; lia).
      rewrite app_assoc. rewrite <- (app_nil_r (u16_bytes 1)). apply ref_u16_mid. lia. }
    rewrite H1, H2. unfold view_q. f_equal. f_equal.
    unfold p_size. cbn [p_body]. rewrite Hd. subst tail. unfold p_size. blen_norm. lia.
Qed.

Lemma write_questions_props : forall qs p p',
  write_questions p qs = Ok p' -> p_size p' <= MAX_MSG -> TINV p ->
  forallb (fun q => wf_name (fst q) && (snd q <? 65536)) qs = true ->
  TINV p' /\ exists bs, p_body p' = p_body p ++ bs /\
    forall h l n, blen h = 12 ->
      ref_questions n (h ++ p_body p) 12 = Some (l, p_size p) ->
      ref_questions (n + length qs) (h ++ p_body p') 12 = Some (l ++ map view_q qs, p_size p').
Proof.
  induction qs as [|q qs IH]; intros p p' Hrun Hsz Ht Hwf.
  - cbn in Hrun. inversion Hrun; subst p'. split; [exact Ht|].
    exists []. split; [rewrite app_nil_r; reflexivity|].
    intros h l n _ H. rewrite Nat.add_0_r, app_nil_r. exact H.
  - cbn [forallb] in Hwf. apply andb_true_iff in Hwf as [Hq Hqs].
    apply andb_true_iff in Hq as [Hq Hty]. apply N.ltb_lt in Hty.
    cbn [write_questions] in Hrun.
    destruct (write_question p q) as [p1| | |] eqn:E; cbn [bind] in Hrun; try discriminate.
    pose proof (write_questions_mono _ _ _ Hrun) as Hm1.
    pose proof (write_question_body _ _ _ E) as [bs0 Hb0].
    assert (Hp : p_size p <= MAX_MSG).
    { unfold p_size in *. rewrite Hb0 in Hm1. blen_norm. lia. }
    destruct (write_question_props p q Hp Ht Hq Hty) as (p1' & bs1 & E' & Hb1 & Ht1 & Hrq).
    rewrite E in E'. inversion E'; subst p1'.
    destruct (IH p1 p' Hrun Hsz Ht1 Hqs) as [Ht' (bs & Hb & Hparse)].
    split; [exact Ht'|].
    exists (bs1 ++ bs). split; [rewrite Hb, Hb1, app_assoc; reflexivity|].
    intros h l n Hh Hl.
    replace (n + length (q :: qs))%nat with (S n + length qs)%nat by (cbn [length]; lia).
    replace (l ++ map view_q (q :: qs)) with ((l ++ [view_q q]) ++ map view_q qs)
      by (rewrite <- app_assoc; reflexivity).
    apply Hparse; [exact Hh|].
    eapply ref_questions_snoc.
    + rewrite Hb1, app_assoc. apply ref_questions_stable. exact Hl.
    + apply Hrq. exact Hh.
Qed.

(* ------------------------------------------------------------------------------------ *)
(* 6. Finishing a packet                                                                 *)
(* ------------------------------------------------------------------------------------ *)

Definition OPEN (p : pkt) (q a ns ar : N) (Q : list ref_q) (A NS AR : list ref_rr) : Prop :=
  PINV p /\ forall h, blen h = 12 -> exists o1 o2 o3,
    ref_questions (N.to_nat q) (h ++ p_body p) 12 = Some (Q, o1)
    /\ ref_records (N.to_nat a) (h ++ p_body p) o1 = Some (A, o2)
    /\ ref_records (N.to_nat ns) (h ++ p_body p) o2 = Some (NS, o3)
    /\ ref_records (N.to_nat ar) (h ++ p_body p) o3 = Some (AR, p_size p).

Lemma blen_header id fl q a ns ar : blen (header_bytes id fl q a ns ar) = 12.
Proof. reflexivity. Qed.

Lemma header_read id fl q a ns ar body :
  id < 65536 -> fl < 65536 -> q < 65536 -> a < 65536 -> ns < 65536 -> ar < 65536 ->
  let d := header_bytes id fl q a ns ar ++ body in
  ref_u16 d 0 = Some id /\ ref_u16 d 2 = Some fl /\ ref_u16 d 4 = Some q
  /\ ref_u16 d 6 = Some a /\ ref_u16 d 8 = Some ns /\ ref_u16 d 10 = Some ar.
Proof.
  intros H1 H2 H3 H4 H5 H6 d. subst d. unfold header_bytes.
  repeat split.
  - exact (ref_u16_mid [] id
      (u16_bytes fl ++ u16_bytes q ++ u16_bytes a ++ u16_bytes ns ++ u16_bytes ar ++ body) H1).
  - exact (ref_u16_mid (u16_bytes id) fl
      (u16_bytes q ++ u16_bytes a ++ u16_bytes ns ++ u16_bytes ar ++ body) H2).
  - exact (ref_u16_mid (u16_bytes id ++ u16_bytes fl) q
      (u16_bytes a ++ u16_bytes ns ++ u16_bytes ar ++ body) H3).
  - exact (ref_u16_mid (u16_bytes id ++ u16_bytes fl ++ u16_bytes q) a
      (u16_bytes ns ++ u16_bytes ar ++ body) H4).
  - exact (ref_u16_mid (u16_bytes id ++ u16_bytes fl ++ u16_bytes q ++ u16_bytes a) ns
      (u16_bytes ar ++ body) H5).
  - exact (ref_u16_mid (u16_bytes id ++ u16_bytes fl ++ u16_bytes q ++ u16_bytes a ++ u16_bytes ns) ar
      body H6).
Qed.

Lemma finish_parse p id fl q a ns ar Q A NS AR :
  OPEN p q a ns ar Q A NS AR -> id < 65536 -> fl < 65536 ->
  ref_parse (finish p id fl q a ns ar) = Some (mkRefMsg id fl Q A NS AR)
  /\ blen (finish p id fl q a ns ar) <= MAX_MSG.
Proof.
  intros [[Hsz Ht] Hopen] Hid Hfl.
  set (h := header_bytes id fl q a ns ar).
  assert (Hh : blen h = 12) by reflexivity.
  destruct (Hopen h Hh) as (o1 & o2 & o3 & HQ & HA & HNS & HAR).
  pose proof (ref_questions_next _ _ _ _ _ HQ) as [B1 _].
  pose proof (ref_records_next _ _ _ _ _ HA) as [B2 _].
  pose proof (ref_records_next _ _ _ _ _ HNS) as [B3 _].
  pose proof (ref_records_next _ _ _ _ _ HAR) as [B4 _].
  rewrite !N2Nat.id in *. unfold MAX_MSG in *.
  destruct (header_read id fl q a ns ar (p_body p)) as (R1 & R2 & R3 & R4 & R5 & R6);
    try lia.
  unfold finish. fold h in R1, R2, R3, R4, R5, R6 |- *.
  split.
  - unfold ref_parse. rewrite R1, R2, R3, R4, R5, R6, HQ, HA, HNS, HAR.
    replace (p_size p =? N.of_nat (length (h ++ p_body p))) with true; [reflexivity|].
    symmetry. apply N.eqb_eq. unfold p_size. fold (blen (h ++ p_body p)). blen_norm. lia.
  - unfold p_size in Hsz. blen_norm. lia.
Qed.

Lemma OPEN_body p p1 q a ns ar Q A NS AR :
  OPEN p q a ns ar Q A NS AR -> PINV p1 -> p_body p1 = p_body p -> OPEN p1 q a ns ar Q A NS AR.
Proof.
  intros [_ Ho] Hp1 Hb. split; [exact Hp1|].
  intros h Hh. unfold p_size. rewrite Hb. apply Ho. exact Hh.
Qed.

Lemma OPEN_snoc p p1 q a ns ar Q A NS AR v :
  OPEN p q a ns ar Q A NS AR -> PINV p1 -> (exists bs, p_body p1 = p_body p ++ bs) ->
  (forall h, blen h = 12 -> ref_record (h ++ p_body p1) (p_size p) = Some (v, p_size p1)) ->
  OPEN p1 q a ns (ar + 1) Q A NS (AR ++ [v]).
Proof.
  intros [_ Ho] Hp1 [bs Hb] Hrec. split; [exact Hp1|].
  intros h Hh. destruct (Ho h Hh) as (o1 & o2 & o3 & HQ & HA & HNS & HAR).
  exists o1, o2, o3. rewrite Hb, app_assoc.
  split; [apply ref_questions_stable; exact HQ|].
  split; [apply ref_records_stable; exact HA|].
  split; [apply ref_records_stable; exact HNS|].
  rewrite to_nat_succ. eapply ref_records_snoc.
  - apply ref_records_stable. exact HAR.
  - rewrite <- app_assoc, <- Hb. apply Hrec. exact Hh.
Qed.

Lemma OPEN_empty : OPEN empty_pkt 0 0 0 0 [] [] [] [].
Proof.
  split; [exact PINV_empty|]. intros h _. exists 12, 12, 12. repeat split; reflexivity.
Qed.

Lemma put_addls_done resp id fl : forall rs done p q a ns ar,
  put_addls resp id fl done p q a ns ar rs
  = match put_addls resp id fl [] p q a ns ar rs with
    | Ok (m, p', c) => Ok (done ++ m, p', c)
    | Err => Err | Panic => Panic | OutOfFuel => OutOfFuel
    end.
Proof.
  induction rs as [|r rs IH]; intros done p q a ns ar.
  - cbn [put_addls]. rewrite app_nil_r. reflexivity.
  - cbn [put_addls].
    destruct (put_record p r 0) as [[p1 ok]| | |]; cbn [bind]; try reflexivity.
    destruct ok; [apply IH|].
    destruct resp; [rewrite app_nil_r; reflexivity|].
    destruct (put_record empty_pkt r 0) as [[p2 ok2]| | |]; cbn [bind]; try reflexivity.
    rewrite (IH (done ++ _)), (IH ([] ++ _)).
    destruct (put_addls false id fl [] p2 0 0 0 (if ok2 then 1 else 0) rs) as [[[m p'] c]| | |];
      try reflexivity.
    rewrite <- app_assoc. reflexivity.
Qed.

Definition GOOD (id fl : N) (pkts : list bytes) (Q : list ref_q) (A NS ARall : list ref_rr) : Prop :=
  exists m0 ms, parse_all pkts = Some (m0 :: ms)
    /\ forallb (fun p => blen p <=? MAX_MSG) pkts = true
    /\ forallb (fun x => fm_id x =? id) (m0 :: ms) = true
    /\ flags_ok fl (m0 :: ms) = true
    /\ fm_questions m0 = Q /\ fm_answers m0 = A /\ fm_authorities m0 = NS
    /\ Forall (fun m => fm_questions m = [] /\ fm_answers m = [] /\ fm_authorities m = []) ms
    /\ concat (map fm_additionals (m0 :: ms)) = ARall.

Lemma GOOD_single p id fl q a ns ar Q A NS AR :
  OPEN p q a ns ar Q A NS AR -> id < 65536 -> fl < 65536 ->
  GOOD id fl [finish p id fl q a ns ar] Q A NS AR.
Proof.
  intros Ho Hid Hfl. destruct (finish_parse _ id fl _ _ _ _ _ _ _ _ Ho Hid Hfl) as [Hp Hs].
  exists (mkRefMsg id fl Q A NS AR), [].
  split; [unfold parse_all; cbn [fold_right]; rewrite Hp; reflexivity|].
  split; [cbn [forallb]; rewrite andb_true_r; apply N.leb_le; exact Hs|].
  split; [cbn [forallb fm_id]; rewrite N.eqb_refl; reflexivity|].
  split; [cbn [flags_ok fm_flags]; apply N.eqb_refl|].
  repeat (split; [reflexivity|]). split; [constructor|].
  cbn [map concat fm_additionals]. apply app_nil_r.
Qed.

Lemma GOOD_cons id fl fin rest Q A NS AR AR2 :
  ref_parse fin = Some (mkRefMsg id (N.lor fl 512) Q A NS AR) -> blen fin <= MAX_MSG ->
  GOOD id fl rest [] [] [] AR2 -> GOOD id fl (fin :: rest) Q A NS (AR ++ AR2).
Proof.
  intros Hp Hs (m0 & ms & G1 & G2 & G3 & G4 & G5 & G6 & G7 & G8 & G9).
  exists (mkRefMsg id (N.lor fl 512) Q A NS AR), (m0 :: ms).
  split.
  { unfold parse_all in *. cbn [fold_right]. rewrite Hp, G1. reflexivity. }
  split.
  { cbn [forallb]. rewrite G2, andb_true_r. apply N.leb_le. exact Hs. }
  split.
  { change (forallb (fun x => fm_id x =? id) (mkRefMsg id (N.lor fl 512) Q A NS AR :: m0 :: ms))
      with ((id =? id) && forallb (fun x => fm_id x =? id) (m0 :: ms)).
    rewrite G3, N.eqb_refl. reflexivity. }
  split.
  { change (flags_ok fl (mkRefMsg id (N.lor fl 512) Q A NS AR :: m0 :: ms))
      with ((N.lor fl 512 =? N.lor fl 512) && flags_ok fl (m0 :: ms)).
    rewrite G4, N.eqb_refl. reflexivity. }
  repeat (split; [reflexivity|]).
  split; [constructor; [auto|exact G8]|].
  change (concat (map fm_additionals (mkRefMsg id (N.lor fl 512) Q A NS AR :: m0 :: ms)))
    with (AR ++ concat (map fm_additionals (m0 :: ms))).
  rewrite G9. reflexivity.
Qed.

Lemma put_addls_props resp id fl :
  id < 65536 -> fl < 65536 ->
  forall rs p q a ns ar Q A NS AR,
  OPEN p q a ns ar Q A NS AR -> forallb wf_orec rs = true ->
  exists mids p' q' a' ns' ar' ARnew,
    put_addls resp id fl [] p q a ns ar rs = Ok (mids, p', (q', a', ns', ar'))
    /\ is_subseq ref_rr_beq ARnew (map view_other rs) = true
    /\ GOOD id fl (map fst mids ++ [finish p' id fl q' a' ns' ar']) Q A NS (AR ++ ARnew).
Proof.
  intros Hid Hfl.
  induction rs as [|r rs IH]; intros p q a ns ar Q A NS AR Ho Hwf.
  - exists [], p, q, a, ns, ar, []. split; [reflexivity|]. split; [reflexivity|].
    rewrite app_nil_r. cbn [map app]. apply GOOD_single; assumption.
  - cbn [forallb] in Hwf. apply andb_true_iff in Hwf as [Hr Hrs].
    destruct (put_record_props p r 0 (proj1 Ho) Hr (ttl_ok_0 r)) as (p1 & ok & Hput & Hp1 & Hno & Hyes).
    cbn [put_addls]. rewrite Hput. cbn [bind].
    destruct ok.
    + destruct (Hyes eq_refl) as [Hbs Hrec].
      assert (Ho1 : OPEN p1 q a ns (ar + 1) Q A NS (AR ++ [view_other r])).
      { eapply OPEN_snoc; eauto. }
      destruct (IH p1 q a ns (ar + 1) Q A NS _ Ho1 Hrs)
        as (mids & p' & q' & a' & ns' & ar' & ARnew & Hrun & Hsub & Hgood).
      exists mids, p', q', a', ns', ar', (view_other r :: ARnew).
      split; [exact Hrun|].
      split; [cbn [map]; apply is_subseq_cons_both; [apply ref_rr_beq_refl|exact Hsub]|].
      rewrite <- app_assoc in Hgood. exact Hgood.
    + specialize (Hno eq_refl).
      assert (Ho1 : OPEN p1 q a ns ar Q A NS AR) by (eapply OPEN_body; eauto).
      destruct resp.
      * exists [], p1, q, a, ns, ar, []. split; [reflexivity|]. split; [reflexivity|].
        rewrite app_nil_r. cbn [map app]. apply GOOD_single; assumption.
      * assert (Hfl' : N.lor fl 512 < 65536) by (apply lor_lt_65536; [exact Hfl|lia]).
        destruct (finish_parse _ id (N.lor fl 512) _ _ _ _ _ _ _ _ Ho1 Hid Hfl') as [Hfp Hfs].
        destruct (put_record_props empty_pkt r 0 PINV_empty Hr (ttl_ok_0 r))
          as (p2 & ok2 & Hput2 & Hp2 & Hno2 & Hyes2).
        rewrite Hput2. cbn [bind]. rewrite put_addls_done.
        assert (Ho2 : exists AR2,
                  OPEN p2 0 0 0 (if ok2 then 1 else 0) [] [] [] AR2
                  /\ is_subseq ref_rr_beq AR2 [view_other r] = true).
        { destruct ok2.
          - exists [view_other r]. split.
            + destruct (Hyes2 eq_refl) as [Hbs2 Hrec2].
              apply (OPEN_snoc empty_pkt p2 0 0 0 0 [] [] [] [] (view_other r) OPEN_empty Hp2 Hbs2 Hrec2).
            + apply is_subseq_cons_both; [apply ref_rr_beq_refl|reflexivity].
          - exists []. split; [|reflexivity].
            apply (OPEN_body empty_pkt p2 _ _ _ _ _ _ _ _ OPEN_empty Hp2 (Hno2 eq_refl)). }
        destruct Ho2 as (AR2 & Ho2 & Hsub2).
        destruct (IH p2 0 0 0 (if ok2 then 1 else 0) [] [] [] AR2 Ho2 Hrs)
          as (mids & p' & q' & a' & ns' & ar' & ARnew & Hrun & Hsub & Hgood).
        rewrite Hrun.
        eexists _, p', q', a', ns', ar', (AR2 ++ ARnew).
        split; [reflexivity|].
        split.
        { cbn [map]. destruct AR2 as [|v AR2'].
          - apply is_subseq_cons_r. exact Hsub.
          - cbn [is_subseq] in Hsub2. destruct (ref_rr_beq v (view_other r)) eqn:Ev.
            + destruct AR2'; [|discriminate].
              (* AR2 = [v] arises only as [view_other r] *)
              cbn [app is_subseq]. rewrite Ev. exact Hsub.
            + discriminate. }
        cbn [app map fst]. apply GOOD_cons; assumption.
Qed.

(* ------------------------------------------------------------------------------------ *)
(* 7. The round trip                                                                     *)
(* ------------------------------------------------------------------------------------ *)

Lemma concat_nil_tail (ms : list ref_msg) :
  Forall (fun m => fm_questions m = [] /\ fm_answers m = [] /\ fm_authorities m = []) ms ->
  concat (map fm_questions ms) = [] /\ concat (map fm_answers ms) = []
  /\ concat (map fm_authorities ms) = [].
Proof.
  induction 1 as [|m ms (H1 & H2 & H3) _ (I1 & I2 & I3)]; [repeat split; reflexivity|].
  cbn [map concat]. rewrite H1, H2, H3, I1, I2, I3. repeat split; reflexivity.
Qed.

Lemma TINV_empty : TINV empty_pkt.
Proof. intros h _. apply tbl_ok_nil. Qed.

(* the state after questions, answers and authorities, and what was kept *)
Lemma sections_open m p0 :
  wf_out m = true -> write_questions empty_pkt (og_questions m) = Ok p0 -> p_size p0 <= MAX_MSG ->
  exists p1 a p2 ns lA lN,
    put_answers p0 (og_answers m) 0 = Ok (p1, a)
    /\ put_auths p1 (og_authorities m) 0 = Ok (p2, ns)
    /\ is_subseq ref_rr_beq lA (map view_answer (og_answers m)) = true
    /\ is_subseq ref_rr_beq lN (map view_other (og_authorities m)) = true
    /\ OPEN p2 (N.of_nat (length (og_questions m)) mod 65536) a ns 0
            (map view_q (og_questions m)) lA lN [].
Proof.
  intros Hwf H0 Hsz. apply wf_out_inv in Hwf as (_ & _ & Hq & Ha & Hn & _).
  destruct (write_questions_props _ _ _ H0 Hsz TINV_empty Hq) as [Ht0 (bs0 & Hb0 & Hpq)].
  assert (Hp0 : PINV p0) by (split; assumption).
  destruct (put_answers_props (og_answers m) p0 0 Hp0 Ha)
    as (p1 & a & lA & bsA & H1 & Hp1 & Hb1 & HsA & HpA).
  destruct (put_auths_props (og_authorities m) p1 0 Hp1 Hn)
    as (p2 & ns & lN & bsN & H2 & Hp2 & Hb2 & HsN & HpN).
  exists p1, a, p2, ns, lA, lN.
  split; [exact H1|]. split; [exact H2|]. split; [exact HsA|]. split; [exact HsN|].
  assert (HQ : forall h, blen h = 12 ->
    ref_questions (length (og_questions m)) (h ++ p_body p0) 12
    = Some (map view_q (og_questions m), p_size p0)).
  { intros h Hh. apply (Hpq h [] O Hh). reflexivity. }
  assert (Hlen : N.to_nat (N.of_nat (length (og_questions m)) mod 65536) = length (og_questions m)).
  { pose proof (ref_questions_next _ _ _ _ _ (HQ h0 blen_h0)) as [B _].
    unfold MAX_MSG in Hsz. rewrite N.mod_small by lia. apply Nat2N.id. }
  split; [exact Hp2|].
  intros h Hh. exists (p_size p0), (p_size p1), (p_size p2).
  rewrite Hlen.
  split.
  { rewrite Hb2, Hb1, !app_assoc. apply ref_questions_stable, ref_questions_stable.
    apply HQ. exact Hh. }
  split.
  { rewrite Hb2, app_assoc. apply ref_records_stable.
    apply (HpA h (p_size p0) [] Hh). reflexivity. }
  split.
  { apply (HpN h (p_size p1) [] Hh). reflexivity. }
  reflexivity.
Qed.

(* (v) *)
Theorem encode_roundtrip : forall m pkts,
  wf_out m = true -> fits m = true -> to_packets m = Ok pkts -> chk_C02 m pkts = true.
Proof.
  intros m pkts Hwf Hfits Hrun.
  unfold fits in Hfits.
  destruct (write_questions empty_pkt (og_questions m)) as [p0| | |] eqn:H0; try discriminate.
  apply N.leb_le in Hfits.
  destruct (sections_open m p0 Hwf H0 Hfits)
    as (p1 & a & p2 & ns & lA & lN & H1 & H2 & HsA & HsN & Hopen).
  apply wf_out_inv in Hwf as (Hfl & Hid0 & _ & _ & _ & Hr).
  set (id := if og_multicast m then 0 else og_id m) in *.
  assert (Hid : id < 65536) by (subst id; destruct (og_multicast m); [lia|exact Hid0]).
  destruct (put_addls_props (N.land (og_flags m) 32768 =? 32768) id (og_flags m) Hid Hfl
              (og_additionals m) p2 _ a ns 0 _ _ _ _ Hopen Hr)
    as (mids & p' & q' & a' & ns' & ar' & ARnew & H3 & HsR & Hgood).
  unfold to_packets, to_packets_tables in Hrun. fold id in Hrun.
  rewrite H0 in Hrun. cbn [bind] in Hrun. rewrite H1 in Hrun. cbn [bind] in Hrun.
  rewrite H2 in Hrun. cbn [bind] in Hrun. rewrite H3 in Hrun. cbn [bind] in Hrun.
  inversion Hrun as [Hpk]. clear Hrun. rewrite map_app. cbn [map fst].
  destruct Hgood as (m0 & ms & G1 & G2 & G3 & G4 & G5 & G6 & G7 & G8 & G9).
  destruct (concat_nil_tail ms G8) as (C1 & C2 & C3).
  unfold chk_C02. fold id. rewrite G2, G1, G3, G4, G9.
  cbn [map concat andb app]. rewrite C1, C2, C3, G5, G6, G7, !app_nil_r.
  rewrite (list_beq_refl ref_q_beq ref_q_beq_refl), HsA, HsN, HsR. reflexivity.
Qed.

Print Assumptions encode_total.
Print Assumptions encode_roundtrip.
