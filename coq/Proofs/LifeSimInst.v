(* The code's record operations (trec_ops) and the property's literal ones (astate_ops) are
   related by the refinement relation R of Proofs/LifeProofs.v; hence (Proofs/LifeSimProofs.v)
   the model of the cache layer and the property-level specification make the same
   observations on every history of daemon iterations. *)
From Coq Require Import List NArith Bool Lia.
From Mdns Require Import Res Bytes Rec ParamsLife Life LifeSpec LifeCache LifeCacheSpec
  LifeProofs LifeCacheProofs LifeSimProofs.
Import ListNotations.
Open Scope N_scope.

Local Arguments N.mul : simpl never.
Local Arguments N.add : simpl never.
Local Arguments N.sub : simpl never.
Local Arguments N.div : simpl never.
Local Arguments N.ltb : simpl never.
Local Arguments N.leb : simpl never.
Local Arguments N.eqb : simpl never.

Lemma R_fields r s : R r s ->
  t_ttl r = a_ttl s /\ t_created r = a_created s /\ t_expires r = a_expires s /\
  a_expires s <= a_created s + 1000 * a_ttl s /\ a_ttl s < U32 /\ a_created s < B63.
Proof. unfold R. intuition. Qed.

Lemma trec_astate_rel : ops_rel trec astate trec_ops astate_ops R.
Proof.
  constructor; simpl.
  - (* new *) intros now ttl Hn H1 H2.
    assert (Hfit : now + 1000 * ttl < U64) by (unfold U64, B63, U32 in *; lia).
    exists (mkT ttl now (now + 1000 * ttl) (now + 800 * ttl)), (a_init now ttl).
    split; [apply new_rec_ok; assumption|]. split; [reflexivity|]. apply R_init; assumption.
  - (* expired *) intros r s now HR. destruct (R_fields _ _ HR) as (_ & _ & He & _).
    unfold is_expired, is_expired_g. rewrite He. reflexivity.
  - (* refresh *) intros r s now HR. destruct (refresh_maybe_spec r s now HR) as (r' & E & HR').
    destruct (a_due s now); do 3 eexists; (split; [exact E|]); (split; [reflexivity | exact HR']).
  - (* refresh once *) intros r s now HR. destruct (refresh_once_spec r s now HR) as (r' & E & HR').
    destruct (a_due s now); do 3 eexists; (split; [exact E|]); (split; [reflexivity | exact HR']).
  - (* reset *) intros r s ttl now _ Hn H1 H2.
    exists (fresh_reset ttl now). eexists. split; [apply reset_ttl_ok; assumption|]. split; [reflexivity|].
    unfold fresh_reset, R, amark, mark_percent. destruct (1 <? ttl); simpl; repeat split; lia.
  - (* should_flush *) intros inc id r s now HR Hn. destruct (R_fields _ _ HR) as (_ & Hc & He & _ & _ & Hcb).
    exists (flushable inc now (mkC id r)). split.
    + apply (should_flush_trec_ok inc (mkC id r) now); simpl; [rewrite Hc; exact Hcb | exact Hn].
    + unfold should_flush_spec, flushable. simpl. rewrite Hc, He. reflexivity.
  - (* shorten *) intros inc id r s now HR Hn Hf. unfold flush_new_expire. simpl. split; [|reflexivity].
    unfold should_flush_spec in Hf. inversion Hf as [Hf']. clear Hf.
    rewrite !andb_true_iff in Hf'. destruct Hf' as ((((_ & _) & _) & Hlt) & _). apply N.ltb_lt in Hlt.
    destruct r as [tt tc te tr]; destruct s as [sc st sk se]. unfold R, set_expires, amark, mark_percent in *.
    simpl in *. intuition lia.
  - (* known answers *) intros r s now HR. destruct (R_fields _ _ HR) as (Ht & Hc & _ & _ & Htb & Hcb).
    split; [|eexists; reflexivity].
    eexists. apply ka_ttl_trec_ok; [rewrite Hc | rewrite Ht]; assumption.
  - (* ttl *) intros r s HR. destruct (R_fields _ _ HR) as (Ht & _). exact Ht.
Qed.

(* For every history of loop iterations with clock values below 2^63 and wire TTLs below 2^32:
   the model of the code and the property-level specification both run without panic and make
   the same observations - the same refresh / retransmitted queries (question lists; the
   answer sections are C10's subject), the same ServiceRemoved and AddressesRemoved reports in
   every iteration. *)
Theorem sim_refines cfg steps :
  Forall step_ok steps ->
  exists obs spec, model_run cfg steps = Ok obs /\ spec_run cfg steps = Ok spec /\ Forall2 io_eq obs spec.
Proof.
  intros H. unfold model_run, spec_run.
  apply (sim_run_rel trec astate trec_ops astate_ops R trec_astate_rel cfg steps [] []); [constructor | exact H].
Qed.

(* refresh needs an open search: without a browse and without a hostname resolver an iteration
   sends no query at all, whatever is cached and whatever arrives *)
Lemma no_search_no_queries c now nsb nsh recs c' o :
  sim_iter trec trec_ops (mkCfg None None) c now nsb nsh recs = Ok (c', o) -> io_queries o = [].
Proof.
  unfold sim_iter. simpl. intros H.
  destruct (ingest trec trec_ops c now recs) as [a| | |]; simpl in H; try discriminate.
  destruct (evict_services trec trec_ops a now None) as [c3 rs].
  inversion H; subst. reflexivity.
Qed.
