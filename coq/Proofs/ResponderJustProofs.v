(* C06, "nothing else", for ALL inputs of the responder model (no hypothesis on services, renames
   or the query): every record of every response - answer or additional - is a record of a listed
   service that is Announced on the receiving interface: its type / subtype / meta PTR, its SRV or
   TXT under a name that is (case-insensitively) its current instance name, or one of its
   addresses that lie on the link, under its current host name. *)
From Coq Require Import List NArith Bool Lia.
From Mdns Require Import Res Bytes Rec Intf Responder ResponderSpec ResponderProofs ResponderAddrProofs.
Import ListNotations.
Open Scope N_scope.

Local Opaque META_QUERY.

(* r is one of the records of service s on this link (the cache-flush bit aside: legacy unicast
   responses clear it) *)
Definition svc_rec (nc : list (bytes * bytes)) (intf : myintf) (s : service) (r : rr) : Prop :=
  let ci := resolve_name nc (s_fullname s) in
  let ch := resolve_name nc (s_host s) in
  clear_flush r = clear_flush (ptr_record (s_ty s) (s_other_ttl s) ci)
  \/ (exists sub, s_sub s = Some sub /\ clear_flush r = clear_flush (ptr_record sub (s_other_ttl s) ci))
  \/ clear_flush r = clear_flush (ptr_record META_QUERY (s_other_ttl s) (s_ty s))
  \/ (exists name, lower name = lower ci /\ clear_flush r = clear_flush (srv_record name s ch))
  \/ (exists name, lower name = lower ci /\ clear_flush r = clear_flush (txt_record name s))
  \/ (exists a, In a (s_addrs s) /\ addr_on_intf intf a = true /\ clear_flush r = clear_flush (addr_record ch s a)).

Definition just_rec (entries : list entry) (nc : list (bytes * bytes)) (intf : myintf) (r : rr) : Prop :=
  exists e, In e entries /\ is_announced (e_status e) = true /\ svc_rec nc intf (e_svc e) r.

Section Gen.
Variable P : rr -> Prop.
Definition okP (og : outgoing) : Prop := Forall P (og_answers og) /\ Forall P (og_additionals og).

Lemma okP_add_answer og m r : okP og -> P r -> okP (fst (add_answer og m r)).
Proof.
  intros [H1 H2] Hr. unfold add_answer. destruct (suppressed_by r m); simpl; split; auto.
  apply Forall_app. split; [exact H1|constructor; [exact Hr|constructor]].
Qed.
Lemma okP_add_additional og r : okP og -> P r -> okP (add_additional og r).
Proof.
  intros [H1 H2] Hr. unfold add_additional. split; simpl; auto.
  apply Forall_app. split; [exact H2|constructor; [exact Hr|constructor]].
Qed.
Lemma okP_fold {A} (step : outgoing -> A -> outgoing) (l : list A) :
  (forall og x, In x l -> okP og -> okP (step og x)) -> forall og, okP og -> okP (fold_left step l og).
Proof.
  induction l as [|x l IH]; simpl; intros H og Hok; [exact Hok|].
  apply IH; [intros og' y Hy; apply H; right; exact Hy|]. apply H; [left; reflexivity|exact Hok].
Qed.
End Gen.

Section Just.
Variable inp : hq_input.
Let entries := h_services inp.
Let nc := h_name_changes inp.
Let intf := h_intf inp.
Notation J := (just_rec (h_services inp) (h_name_changes inp) (h_intf inp)).
Notation ok := (okP J).

Lemma J_of e r : In e entries -> is_announced (e_status e) = true -> svc_rec nc intf (e_svc e) r -> J r.
Proof. intros H1 H2 H3. exists e. auto. Qed.

Lemma in_intf_addrs' v4 s a : In a (intf_addrs_of v4 s intf) -> In a (s_addrs s) /\ addr_on_intf intf a = true.
Proof. apply in_intf_addrs. Qed.

Lemma ok_awa' og e v4 : In e entries -> is_announced (e_status e) = true -> ok og ->
  ok (add_answer_with_additionals og (h_msg inp) (e_svc e) intf nc v4).
Proof.
  intros He Ha Hok. unfold add_answer_with_additionals.
  destruct (is_nil (intf_addrs_of v4 (e_svc e) intf)); [exact Hok|].
  assert (Hp : J (ptr_record (s_ty (e_svc e)) (s_other_ttl (e_svc e)) (resolve_name nc (s_fullname (e_svc e))))).
  { apply (J_of e); auto. left. reflexivity. }
  pose proof (okP_add_answer J og (h_msg inp) _ Hok Hp) as H1.
  destruct (add_answer og (h_msg inp) _) as [og1 added]. simpl in H1.
  destruct added; simpl; [|exact H1].
  apply okP_fold.
  - intros og' a Hin Hok'. apply okP_add_additional; [exact Hok'|].
    apply in_intf_addrs' in Hin as [Hi1 Hi2]. apply (J_of e); auto.
    right. right. right. right. right. exists a. auto.
  - apply okP_add_additional.
    + apply okP_add_additional.
      * destruct (s_sub (e_svc e)) as [sub|] eqn:Es; [|exact H1].
        apply okP_add_additional; [exact H1|]. apply (J_of e); auto. right. left. exists sub. auto.
      * apply (J_of e); auto. right. right. right. left. exists (resolve_name nc (s_fullname (e_svc e))). auto.
    + apply (J_of e); auto. right. right. right. right. left. exists (resolve_name nc (s_fullname (e_svc e))). auto.
Qed.

Lemma ok_aaos' og e name qtype ia : In e entries -> is_announced (e_status e) = true ->
  lower name = lower (resolve_name nc (s_fullname (e_svc e))) ->
  (forall a, In a ia -> In a (s_addrs (e_svc e)) /\ addr_on_intf intf a = true) ->
  ok og -> ok (add_answer_of_service_as og (h_msg inp) name (e_svc e) (resolve_name nc (s_host (e_svc e))) qtype ia).
Proof.
  intros He Ha Hn Hia Hok. unfold add_answer_of_service_as.
  set (pr := if (qtype =? TY_SRV) || (qtype =? TY_ANY) then add_answer og (h_msg inp) _ else (og, false)).
  assert (H1 : ok (fst pr)).
  { subst pr. destruct ((qtype =? TY_SRV) || (qtype =? TY_ANY)); [|exact Hok].
    apply okP_add_answer; [exact Hok|]. apply (J_of e); auto. right. right. right. left. exists name. auto. }
  destruct pr as [og1 added]. simpl in H1.
  set (og2 := if (qtype =? TY_TXT) || (qtype =? TY_ANY) then _ else og1).
  assert (H2 : ok og2).
  { subst og2. destruct ((qtype =? TY_TXT) || (qtype =? TY_ANY)); [|exact H1].
    apply okP_add_answer; [exact H1|]. apply (J_of e); auto. right. right. right. right. left. exists name. auto. }
  destruct ((qtype =? TY_SRV) && added); [|exact H2].
  apply okP_fold; [|exact H2]. intros og' a Hin Hok'. apply okP_add_additional; [exact Hok'|].
  destruct (Hia a Hin). apply (J_of e); auto. right. right. right. right. right. exists a. auto.
Qed.

Lemma ok_question_step' v4 og q : ok og -> ok (question_step inp v4 og q).
Proof.
  intros Hok. unfold question_step.
  destruct (q_type q =? TY_PTR).
  - assert (G : forall l (st : outgoing * list bytes), (forall e, In e l -> In e entries) -> ok (fst st) ->
                ok (fst (fold_left (ptr_step inp q v4) l st))).
    { induction l as [|e l IH]; intros [og' seen] Hl Hok'; simpl; [exact Hok'|].
      apply IH; [intros e' He'; apply Hl; right; exact He'|].
      unfold ptr_step. destruct (is_announced (e_status e)) eqn:Ea; simpl; [|exact Hok'].
      destruct (matches_type_or_subtype (e_svc e) (q_name q)); simpl.
      - apply ok_awa'; [apply Hl; left; reflexivity|exact Ea|exact Hok'].
      - destruct (beq (q_name q) META_QUERY) eqn:Eq; [|exact Hok'].
        destruct (mem (s_ty (e_svc e)) seen); [exact Hok'|]. simpl.
        apply okP_add_answer; [exact Hok'|]. apply (J_of e); [apply Hl; left; reflexivity|exact Ea|].
        right. right. left. apply beq_eq in Eq. rewrite Eq. reflexivity. }
    apply G; [auto|exact Hok].
  - set (og1 := if (q_type q =? TY_A) || (q_type q =? TY_AAAA) || (q_type q =? TY_ANY)
                then fold_left (addr_step inp q) (h_services inp) og else og).
    assert (H1 : ok og1).
    { subst og1. destruct ((q_type q =? TY_A) || (q_type q =? TY_AAAA) || (q_type q =? TY_ANY)); [|exact Hok].
      apply okP_fold; [|exact Hok]. intros og' e He Hok'. unfold addr_step.
      destruct (is_announced (e_status e)) eqn:Ea; simpl; [|exact Hok'].
      destruct (beq _ _); [|exact Hok'].
      apply okP_fold; [|exact Hok']. intros og'' a Hin Hok''. apply okP_add_answer; [exact Hok''|].
      apply (J_of e); auto. right. right. right. right. right. exists a.
      assert (Hx : In a (s_addrs (e_svc e)) /\ addr_on_intf intf a = true).
      { apply in_app_or in Hin as [Hin|Hin].
        - destruct (_ || _); [|destruct Hin]. apply filter_In in Hin as [H1 H2]. apply andb_true_iff in H2. tauto.
        - destruct (_ || _); [|destruct Hin]. apply filter_In in Hin as [H1 H2]. apply andb_true_iff in H2. tauto. }
      destruct Hx. auto. }
    destruct (find _ (h_services inp)) as [e|] eqn:Ef; [|exact H1].
    apply find_some in Ef as [He Hk]. apply beq_eq in Hk.
    destruct (is_announced (e_status e)) eqn:Ea; simpl; [|exact H1].
    destruct (is_nil (intf_addrs_of v4 (e_svc e) (h_intf inp))); [exact H1|].
    apply ok_aaos'; auto. intros a Hin. eapply in_intf_addrs'. exact Hin.
Qed.
End Just.

Lemma svc_rec_clear_flush nc intf s r : svc_rec nc intf s r -> svc_rec nc intf s (clear_flush r).
Proof. unfold svc_rec. assert (E : clear_flush (clear_flush r) = clear_flush r) by reflexivity. rewrite E. auto. Qed.

Lemma ok_loop' inp v4 qs : forall og,
  okP (just_rec (h_services inp) (h_name_changes inp) (h_intf inp)) og ->
  okP (just_rec (h_services inp) (h_name_changes inp) (h_intf inp)) (fold_left (question_step inp v4) qs og).
Proof. induction qs as [|q qs IH]; intros og Hok; simpl; [exact Hok|]. apply IH. apply ok_question_step'. exact Hok. Qed.

Lemma just_clear_flush entries nc intf l :
  Forall (just_rec entries nc intf) l -> Forall (just_rec entries nc intf) (map clear_flush l).
Proof.
  intros H. apply Forall_forall. intros r Hr. apply in_map_iff in Hr as [r0 [<- Hr]].
  rewrite Forall_forall in H. destruct (H r0 Hr) as (e & E1 & E2 & E3).
  exists e. split; [exact E1|]. split; [exact E2|]. apply svc_rec_clear_flush. exact E3.
Qed.

(* response_records_justified: for EVERY input *)
Theorem response_records_justified inp p : handle_query inp = Some p ->
  Forall (just_rec (h_services inp) (h_name_changes inp) (h_intf inp)) (p_answers p ++ p_additionals p).
Proof.
  unfold handle_query.
  set (JR := just_rec (h_services inp) (h_name_changes inp) (h_intf inp)).
  set (out := fold_left _ (m_questions (h_msg inp)) _).
  assert (Hout : okP JR out).
  { subst out. apply ok_loop'. split; constructor. }
  destruct (ParamsResponder.respond_guard _); [|intros H; discriminate H].
  set (out1 := set_id out (m_id (h_msg inp))).
  set (ud := if ParamsResponder.legacy_unicast_test (h_src_port inp) then Some (h_src_ip inp, h_src_port inp) else None).
  set (out2 := match ud with Some _ => _ | None => out1 end).
  assert (Hout2 : okP JR out2).
  { subst out2. destruct ud.
    - pose proof (fold_add_question (m_questions (h_msg inp)) out1) as Hf. cbv zeta in Hf.
      destruct Hf as (_ & _ & _ & _ & K5 & K6).
      unfold okP, set_multicast, clear_cache_flush_bits. simpl. rewrite K5, K6. simpl.
      destruct Hout as [H1 H2]. split; apply just_clear_flush; assumption.
    - exact Hout. }
  unfold send_response.
  destruct (match find _ _ with Some a => Some a | None => _ end) as [a|]; [|intros H; discriminate H].
  destruct (is_nil (og_answers out2) && is_nil (og_additionals out2)); [intros H; discriminate H|].
  intros H. inversion H; subst p; clear H. cbn [p_answers p_additionals].
  destruct Hout2 as [H1 H2]. apply Forall_app. split; assumption.
Qed.
