(* C14: lemmas about the command channel / shutdown model (Model/SafetyQueue.v).

   Plan
   1. deliver / drain: an iteration that does not get stuck is the capacity-free drain0.
   2. drain0 = sequential execution of the commands in front of the first Exit, then the
      clean-up (`drain0_spec`); nothing behind Exit influences state or goodbyes.
   3. do_calls: with the receiver alive and the queue empty at the start of the step, the
      queue at the end is exactly the `accepted` commands and the results satisfy
      chk_results; with the receiver gone every call fails (status() short-circuits).
   4. The outputs of exec/arrive never contain Shutdown; every executed command with a reply
      channel says something on it (chk_resolves).
   5. Invariant over histories: between iterations the queue is empty, the checker's
      tracked state is the daemon's state -> chk_C14 h (run h) = true.
   6. The named properties. *)
From Coq Require Import List NArith Bool Lia Arith PeanoNat.
From Mdns Require Import Res Bytes Utf8 WireOut ParamsSafety SafetyNames SafetyQueue SafetyNamesProofs.
Import ListNotations.
Open Scope N_scope.

(* ------------------------------------------------------------------------------------ *)
(* 0. small facts                                                                         *)
(* ------------------------------------------------------------------------------------ *)

Definition is_exit (c : cmd) : bool := match c with QExit _ => true | _ => false end.
Definition no_exit (q : list cmd) : Prop := Forall (fun c => is_exit c = false) q.

Lemma drain0_cons k rest d : is_exit k = false ->
  drain0 d (k :: rest) =
  (let (d1, o1) := exec d k in let '(d2, o2, g, x) := drain0 d1 rest in (d2, o1 ++ o2, exec_gb d k ++ g, x)).
Proof. destruct k; try discriminate; reflexivity. Qed.

Lemma drain_cons k rest d c : is_exit k = false ->
  drain d c (k :: rest) =
  (let (d1, o1) := exec d k in
   let '(o, c1, b) := deliver c o1 in
   if b then mkIter d1 o [] false true rest
   else let r := drain d1 c1 rest in
        mkIter (it_d r) (o ++ it_out r) (exec_gb d k ++ it_goodbyes r) (it_exited r) (it_stuck r) (it_rest r)).
Proof. destruct k; try discriminate; reflexivity. Qed.

Lemma before_exit_cons k rest : is_exit k = false -> before_exit (k :: rest) = k :: before_exit rest.
Proof. destruct k; try discriminate; reflexivity. Qed.

Lemma from_exit_cons k rest : is_exit k = false -> from_exit (k :: rest) = from_exit rest.
Proof. destruct k; try discriminate; reflexivity. Qed.

Lemma is_exit_true k : is_exit k = true -> exists x, k = QExit x.
Proof. destruct k; try discriminate. eauto. Qed.

Lemma ev_eqb_refl e : ev_eqb e e = true.
Proof. destruct e; reflexivity. Qed.

Lemma ev_eqb_eq a b : ev_eqb a b = true -> a = b.
Proof. destruct a, b; simpl; try discriminate; reflexivity. Qed.

Lemma evs_eqb_refl l : evs_eqb l l = true.
Proof. induction l as [|e l IH]; [reflexivity|]. simpl. rewrite ev_eqb_refl. exact IH. Qed.

Lemma cres_eqb_refl r : cres_eqb r r = true.
Proof. destruct r; reflexivity. Qed.

Lemma same_multiset_refl l : same_multiset l l = true.
Proof. unfold same_multiset. apply forallb_forall. intros x _. apply Nat.eqb_refl. Qed.

Lemma evs_of_app ch a b : evs_of ch (a ++ b) = evs_of ch a ++ evs_of ch b.
Proof. unfold evs_of. rewrite filter_app, map_app. reflexivity. Qed.

Lemma in_evs_of ch e l : In (ch, e) l -> In e (evs_of ch l).
Proof.
  intros H. unfold evs_of. apply in_map_iff. exists (ch, e). split; [reflexivity|].
  apply filter_In. split; [exact H|]. simpl. apply N.eqb_refl.
Qed.

Lemma evs_of_nonempty ch e l : In (ch, e) l -> evs_of ch l <> [].
Proof. intros H E. apply in_evs_of in H. rewrite E in H. exact H. Qed.

Lemma has_ev_in e l : In e l -> has_ev e l = true.
Proof. intros H. unfold has_ev. apply existsb_exists. exists e. split; [exact H|apply ev_eqb_refl]. Qed.

(* ------------------------------------------------------------------------------------ *)
(* 1. deliver / drain                                                                     *)
(* ------------------------------------------------------------------------------------ *)

Lemma deliver_unstuck : forall outs c o c', deliver c outs = (o, c', false) -> o = outs.
Proof.
  induction outs as [|[ch e] t IH]; intros c o c' H; simpl in H.
  - inversion H. reflexivity.
  - destruct (is_listener_msg e).
    + destruct (browse_listener_bound <=? cget ch c); [discriminate|].
      destruct (deliver (cincr ch c) t) as [[o1 c1] b1] eqn:E.
      inversion H; subst. f_equal. eapply IH. exact E.
    + destruct (deliver c t) as [[o1 c1] b1] eqn:E.
      inversion H; subst. f_equal. eapply IH. exact E.
Qed.

Lemma drain_unstuck : forall q d c,
  it_stuck (drain d c q) = false ->
  drain0 d q = (it_d (drain d c q), it_out (drain d c q), it_goodbyes (drain d c q), it_exited (drain d c q))
  /\ it_rest (drain d c q) = [].
Proof.
  induction q as [|k rest IH]; intros d c H.
  - simpl. split; reflexivity.
  - destruct (is_exit k) eqn:K.
    + apply is_exit_true in K as [x ->]. simpl in *.
      destruct (deliver c (shutdown_outputs d x rest)) as [[o c1] b] eqn:E.
      destruct b; [simpl in H; discriminate|].
      apply deliver_unstuck in E. subst o. simpl. split; reflexivity.
    + rewrite drain_cons in * by exact K. rewrite drain0_cons by exact K.
      destruct (exec d k) as [d1 o1].
      destruct (deliver c o1) as [[o c1] b] eqn:E.
      destruct b; [simpl in H; discriminate|].
      apply deliver_unstuck in E. subst o. simpl in H.
      destruct (IH d1 c1 H) as [E0 Er]. rewrite E0. simpl. split; [reflexivity|exact Er].
Qed.

(* ------------------------------------------------------------------------------------ *)
(* 2. drain0 = sequential execution cut at Exit                                           *)
(* ------------------------------------------------------------------------------------ *)

Lemma drain0_spec : forall q d,
  drain0 d q =
  match from_exit q with
  | None => (fst (exec_seq d q), snd (exec_seq d q), exec_seq_gb d q, false)
  | Some (x, rest) =>
    let d1 := fst (exec_seq d (before_exit q)) in
    (d1, snd (exec_seq d (before_exit q)) ++ shutdown_outputs d1 x rest,
     exec_seq_gb d (before_exit q) ++ cleanup_goodbyes d1, true)
  end.
Proof.
  induction q as [|k rest IH]; intros d; [reflexivity|].
  destruct (is_exit k) eqn:K.
  - apply is_exit_true in K as [x ->]. reflexivity.
  - rewrite drain0_cons, from_exit_cons, before_exit_cons by exact K.
    cbn [exec_seq exec_seq_gb]. destruct (exec d k) as [d1 o1] eqn:E. cbn [fst].
    rewrite IH. destruct (from_exit rest) as [[x r]|].
    + destruct (exec_seq d1 (before_exit rest)) as [d2 o2]. cbn [fst snd].
      rewrite <- !app_assoc. reflexivity.
    + destruct (exec_seq d1 rest) as [d2 o2]. reflexivity.
Qed.

Lemma from_exit_none q : from_exit q = None -> before_exit q = q /\ no_exit q.
Proof.
  induction q as [|k rest IH]; intros H; [split; [reflexivity|constructor]|].
  destruct (is_exit k) eqn:K.
  - apply is_exit_true in K as [x ->]. discriminate.
  - rewrite from_exit_cons in H by exact K. rewrite before_exit_cons by exact K.
    destruct (IH H) as [E N]. split; [rewrite E; reflexivity|constructor; assumption].
Qed.

Lemma from_exit_some q x rest :
  from_exit q = Some (x, rest) -> q = before_exit q ++ QExit x :: rest /\ no_exit (before_exit q).
Proof.
  revert x rest. induction q as [|k t IH]; intros x rest H; [discriminate|].
  destruct (is_exit k) eqn:K.
  - apply is_exit_true in K as [y ->]. simpl in H. inversion H; subst. simpl. split; [reflexivity|constructor].
  - rewrite from_exit_cons in H by exact K. rewrite before_exit_cons by exact K.
    destruct (IH x rest H) as [E N]. split; [simpl; rewrite <- E; reflexivity|constructor; assumption].
Qed.

Lemma no_exit_from_exit pre x post : no_exit pre ->
  from_exit (pre ++ QExit x :: post) = Some (x, post) /\ before_exit (pre ++ QExit x :: post) = pre.
Proof.
  induction 1 as [|k t K _ IH]; [split; reflexivity|].
  simpl app. rewrite from_exit_cons, before_exit_cons by exact K.
  destruct IH as [A B]. split; [exact A|rewrite B; reflexivity].
Qed.

(* cleanup for every queue content and every position of Exit *)
Lemma drain0_at_exit d pre x post : no_exit pre ->
  drain0 d (pre ++ QExit x :: post) =
  (fst (exec_seq d pre),
   snd (exec_seq d pre) ++ shutdown_outputs (fst (exec_seq d pre)) x post,
   exec_seq_gb d pre ++ cleanup_goodbyes (fst (exec_seq d pre)), true).
Proof.
  intros N. rewrite drain0_spec. destruct (no_exit_from_exit pre x post N) as [A B].
  rewrite A, B. reflexivity.
Qed.

(* ------------------------------------------------------------------------------------ *)
(* 3. do_calls                                                                            *)
(* ------------------------------------------------------------------------------------ *)

Definition wf_call (c : call) : Prop :=
  match c with
  | CRegister ty nm _ => utf8_valid ty = true /\ utf8_valid nm = true
  | _ => True
  end.

Lemma prepare_safe c ch : wf_call c -> safe (prepare c ch).
Proof.
  intros W. destruct c; simpl; try (split; discriminate).
  - pose proof (api_browse_total lower ty) as [A B]. destruct (api_browse lower ty) as [[]| | |]; simpl; try congruence; split; discriminate.
  - pose proof (api_resolve_hostname_total lower host) as [A B].
    destruct (api_resolve_hostname lower host) as [[]| | |]; simpl; try congruence; split; discriminate.
  - destruct W as [W1 W2].
    destruct (si_names_total ty name host) as [[[[tyd sub] full] server] E]. rewrite E. cbn [bind].
    pose proof (register_names_safe lower ty name host tyd sub full server W1 W2 E) as [A B].
    destruct (api_register_names lower full server sub) as [[]| | |]; simpl; try congruence; split; discriminate.
  - destruct (len_max_refused n); split; discriminate.
Qed.

Lemma prepare_cases c ch : wf_call c -> (exists k, prepare c ch = Ok k) \/ prepare c ch = Err.
Proof.
  intros W. destruct (prepare_safe c ch W) as [A B].
  destruct (prepare c ch); [left; eauto|right; reflexivity|congruence|congruence].
Qed.

Lemma do_call_alive items c ch k :
  prepare c ch = Ok k ->
  do_call (mkChan items false) c ch =
  (if cmd_queue_bound <=? N.of_nat (length items) then (mkChan items false, RAgain, [])
   else (mkChan (items ++ [k]) false, ROk, [])).
Proof.
  intros P. unfold do_call. rewrite P. unfold try_send. cbn [q_gone q_items].
  destruct c; destruct (cmd_queue_bound <=? N.of_nat (length items)); reflexivity.
Qed.

Lemma do_calls_alive : forall cs items base q' rs o,
  Forall wf_call cs ->
  do_calls (mkChan items false) cs base = (q', rs, o) ->
  q' = mkChan (items ++ accepted cs base rs) false /\ o = []
  /\ forall evs, chk_results false cs base rs (N.of_nat (length items)) evs = true.
Proof.
  induction cs as [|c t IH]; intros items base q' rs o W H.
  - simpl in H. inversion H; subst. rewrite app_nil_r. repeat split.
  - inversion W as [|? ? Wc Wt]; subst. cbn [do_calls] in H.
    destruct (prepare_cases c base Wc) as [[k P]|P].
    + rewrite (do_call_alive items c base k P) in H.
      destruct (cmd_queue_bound <=? N.of_nat (length items)) eqn:Full.
      * destruct (do_calls (mkChan items false) t (base + 1)) as [[q2 rs2] os] eqn:E.
        destruct (IH items (base + 1) q2 rs2 os Wt E) as (A & B & C).
        inversion H; subst. cbn [accepted]. rewrite ?P. repeat split.
        intros evs. cbn [chk_results]. rewrite P. cbn [negb]. rewrite Full. simpl. apply C.
      * destruct (do_calls (mkChan (items ++ [k]) false) t (base + 1)) as [[q2 rs2] os] eqn:E.
        destruct (IH (items ++ [k]) (base + 1) q2 rs2 os Wt E) as (A & B & C).
        inversion H; subst. cbn [accepted]. rewrite ?P. rewrite <- app_assoc. repeat split.
        intros evs. cbn [chk_results]. rewrite P. rewrite Full. simpl.
        specialize (C evs). rewrite app_length in C. simpl in C.
        replace (N.of_nat (length items) + 1) with (N.of_nat (length items + 1)) by lia. exact C.
    + unfold do_call in H. rewrite P in H.
      destruct (do_calls (mkChan items false) t (base + 1)) as [[q2 rs2] os] eqn:E.
      destruct (IH items (base + 1) q2 rs2 os Wt E) as (A & B & C).
      inversion H; subst. cbn [accepted]. rewrite ?P. repeat split.
      intros evs. cbn [chk_results]. rewrite P. simpl. apply C.
Qed.

Definition chans_lt (b : N) (l : list out) : Prop := Forall (fun p => fst p < b) l.
Definition only_shutdown_closed (l : list out) : Prop :=
  Forall (fun p => snd p = EShutdown \/ snd p = EClosed) l.

Lemma evs_of_lt b l : chans_lt b l -> evs_of b l = [].
Proof.
  unfold chans_lt, evs_of. induction 1 as [|[ch e] t H _ IH]; [reflexivity|].
  simpl in *. replace (ch =? b) with false by (symmetry; apply N.eqb_neq; lia). exact IH.
Qed.

Definition chans_ge (b : N) (l : list out) : Prop := Forall (fun p => b <= fst p) l.

Lemma evs_of_ge b l : chans_ge (b + 1) l -> evs_of b l = [].
Proof.
  unfold chans_ge, evs_of. induction 1 as [|[ch e] t H _ IH]; [reflexivity|].
  simpl in *. replace (ch =? b) with false by (symmetry; apply N.eqb_neq; lia). exact IH.
Qed.

Lemma do_call_gone items c ch : wf_call c ->
  exists r o, do_call (mkChan items true) c ch = (mkChan items true, r, o)
  /\ ((prepare c ch = Err /\ r = RMsg /\ o = [])
      \/ (exists k, prepare c ch = Ok k /\ is_status c = true /\ r = ROk /\ o = [(ch, EShutdown); (ch, EClosed)])
      \/ (exists k, prepare c ch = Ok k /\ is_status c = false /\ r = RShutdown /\ o = [])).
Proof.
  intros W. unfold do_call. destruct (prepare_cases c ch W) as [[k P]|P]; rewrite P.
  - destruct c; simpl; eexists; eexists; (split; [reflexivity|]);
      try (right; right; exists k; repeat split; reflexivity).
    right; left. exists k. repeat split.
  - eexists; eexists. split; [reflexivity|]. left. repeat split.
Qed.

Lemma do_calls_gone : forall cs items base q' rs o,
  Forall wf_call cs ->
  do_calls (mkChan items true) cs base = (q', rs, o) ->
  q' = mkChan items true /\ chans_ge base o /\ only_shutdown_closed o
  /\ forall pre, chans_lt base pre -> chk_results true cs base rs 0 (pre ++ o) = true.
Proof.
  induction cs as [|c t IH]; intros items base q' rs o W H.
  - simpl in H. inversion H; subst. repeat split; try constructor.
  - inversion W as [|? ? Wc Wt]; subst. cbn [do_calls] in H.
    destruct (do_call_gone items c base Wc) as (r & o1 & E1 & Cases). rewrite E1 in H.
    destruct (do_calls (mkChan items true) t (base + 1)) as [[q2 rs2] os] eqn:E.
    destruct (IH items (base + 1) q2 rs2 os Wt E) as (A & B & C & D).
    inversion H; subst.
    assert (Bge : chans_ge base os).
    { unfold chans_ge in *. eapply Forall_impl; [|exact B]. intros p Hp. simpl in Hp. lia. }
    destruct Cases as [(P & -> & ->)|[(k & P & S & -> & ->)|(k & P & S & -> & ->)]].
    + simpl app. repeat split; try assumption.
      intros pre Hpre. cbn [chk_results]. rewrite P. simpl. apply D.
      unfold chans_lt in *. eapply Forall_impl; [|exact Hpre]. intros p Hp. simpl in Hp. lia.
    + repeat split.
      * constructor; [simpl; lia|]. constructor; [simpl; lia|]. exact Bge.
      * constructor; [left; reflexivity|]. constructor; [right; reflexivity|]. exact C.
      * intros pre Hpre. cbn [chk_results]. rewrite P, S.
        match goal with |- context [evs_of base ?l] => replace (evs_of base l) with [EShutdown; EClosed] end.
        2:{ rewrite !evs_of_app, (evs_of_lt base pre Hpre), (evs_of_ge base os B).
            unfold evs_of. simpl. rewrite N.eqb_refl. reflexivity. }
        cbn [cres_eqb evs_eqb ev_eqb andb].
        rewrite app_assoc. apply D. unfold chans_lt in *. apply Forall_app. split.
        -- eapply Forall_impl; [|exact Hpre]. intros p Hp. simpl in Hp. lia.
        -- constructor; [simpl; lia|]. constructor; [simpl; lia|constructor].
    + simpl app. repeat split; try assumption.
      intros pre Hpre. cbn [chk_results]. rewrite P, S. simpl. apply D.
      unfold chans_lt in *. eapply Forall_impl; [|exact Hpre]. intros p Hp. simpl in Hp. lia.
Qed.

(* ------------------------------------------------------------------------------------ *)
(* 4. outputs                                                                             *)
(* ------------------------------------------------------------------------------------ *)

Definition no_shutdown (l : list out) : Prop := Forall (fun p => snd p <> EShutdown) l.

Lemma no_shutdown_app a b : no_shutdown a -> no_shutdown b -> no_shutdown (a ++ b).
Proof. intros. apply Forall_app. split; assumption. Qed.

Lemma no_shutdown_repeat ch e n : e <> EShutdown -> no_shutdown (repeat (ch, e) n).
Proof. intros H. apply Forall_forall. intros p Hp. apply repeat_spec in Hp. subst p. exact H. Qed.

Lemma closed_old_ns o : no_shutdown (closed_old o).
Proof. destruct o; simpl; repeat constructor; discriminate. Qed.

Lemma exec_no_shutdown d c : no_shutdown (snd (exec d c)).
Proof.
  destruct c; simpl.
  - constructor; [discriminate|]. apply no_shutdown_app; [apply closed_old_ns|].
    apply no_shutdown_app; [apply no_shutdown_repeat; discriminate|].
    destruct cache_only; repeat constructor; discriminate.
  - destruct (alookup ty (d_queriers d)); simpl; repeat constructor; discriminate.
  - constructor; [discriminate|apply closed_old_ns].
  - destruct (alookup (lower host) (d_resolvers d)); simpl; repeat constructor; discriminate.
  - destruct (check_service_name_length _ _); simpl; constructor.
  - destruct (mem fullname (d_services d)); simpl; repeat constructor; discriminate.
  - constructor.
  - repeat constructor; discriminate.
  - repeat constructor; discriminate.
  - constructor.
  - constructor.
  - constructor.
Qed.

Lemma exec_seq_no_shutdown : forall q d, no_shutdown (snd (exec_seq d q)).
Proof.
  induction q as [|k t IH]; intros d; [constructor|].
  cbn [exec_seq]. pose proof (exec_no_shutdown d k) as H. destruct (exec d k) as [d1 o1].
  specialize (IH d1). destruct (exec_seq d1 t) as [d2 o2]. simpl in *. apply no_shutdown_app; assumption.
Qed.

Lemma arrive_no_shutdown : forall a d, no_shutdown (snd (arrive d a)).
Proof.
  induction a as [|[ty n] t IH]; intros d; [constructor|].
  cbn [arrive]. destruct (alookup ty (d_queriers d)) as [ch|]; [|apply IH].
  specialize (IH (set_found d (ainsert ty (found_count ty d + n) (d_found d)))).
  destruct (arrive _ t) as [d2 o]. simpl in *.
  apply no_shutdown_app; [apply no_shutdown_repeat; discriminate|exact IH].
Qed.

Lemma no_shutdown_seen l : no_shutdown l -> existsb (fun p => ev_eqb (snd p) EShutdown) l = false.
Proof.
  intros H. apply not_true_is_false. intros E. apply existsb_exists in E as (p & Hp & He).
  apply ev_eqb_eq in He. unfold no_shutdown in H. rewrite Forall_forall in H. exact (H p Hp He).
Qed.

Lemma no_shutdown_has_ev ch l : no_shutdown l -> has_ev EShutdown (evs_of ch l) = false.
Proof.
  intros H. apply not_true_is_false. intros E. unfold has_ev in E.
  apply existsb_exists in E as (e & He & Hq). apply ev_eqb_eq in Hq. subst e.
  unfold evs_of in He. apply in_map_iff in He as ([c e] & Hs & Hf). simpl in Hs. subst e.
  apply filter_In in Hf as [Hf _]. unfold no_shutdown in H. rewrite Forall_forall in H.
  exact (H _ Hf eq_refl).
Qed.

(* every executed command (other than Exit and Monitor) says something on its channel *)
Lemma exec_answers d c ch :
  cmd_chan c = Some ch -> is_exit c = false -> (forall x, c <> QMonitor x) ->
  exists e, In (ch, e) (snd (exec d c)).
Proof.
  intros H K M. destruct c; simpl in H; try discriminate; inversion H; subst.
  - exists EStarted. simpl. left. reflexivity.
  - exists EStarted. simpl. left. reflexivity.
  - simpl. destruct (mem fullname (d_services d)); simpl; eexists; left; reflexivity.
  - exfalso. exact (M ch eq_refl).
  - exists ERunning. simpl. left. reflexivity.
  - exists EMetrics. simpl. left. reflexivity.
Qed.

Lemma exec_seq_incl : forall q d c, In c q -> exists d', incl (snd (exec d' c)) (snd (exec_seq d q)).
Proof.
  induction q as [|k t IH]; intros d c H; [destruct H|].
  cbn [exec_seq]. destruct H as [->|H].
  - exists d. destruct (exec d c) as [d1 o1]. destruct (exec_seq d1 t) as [d2 o2]. simpl.
    apply incl_appl, incl_refl.
  - destruct (exec d k) as [d1 o1]. destruct (IH d1 c H) as [d' I]. exists d'.
    destruct (exec_seq d1 t) as [d2 o2]. simpl in *. apply incl_appr. exact I.
Qed.

(* monitors stay with the daemon *)
Lemma exec_monitors d c ch : In ch (d_monitors d) -> In ch (d_monitors (fst (exec d c))).
Proof.
  intros H. destruct c; simpl; try exact H.
  - destruct (alookup ty (d_queriers d)); simpl; exact H.
  - destruct (alookup (lower host) (d_resolvers d)); simpl; exact H.
  - destruct (check_service_name_length _ _); simpl; exact H.
  - destruct (mem fullname (d_services d)); simpl; exact H.
  - apply in_or_app. left. exact H.
Qed.

Lemma exec_seq_monitors : forall q d ch, In ch (d_monitors d) -> In ch (d_monitors (fst (exec_seq d q))).
Proof.
  induction q as [|k t IH]; intros d ch H; [exact H|].
  cbn [exec_seq]. pose proof (exec_monitors d k ch H) as H1. destruct (exec d k) as [d1 o1]. simpl in H1.
  specialize (IH d1 ch H1). destruct (exec_seq d1 t) as [d2 o2]. exact IH.
Qed.

Lemma exec_seq_monitor_added : forall q d ch, In (QMonitor ch) q -> In ch (d_monitors (fst (exec_seq d q))).
Proof.
  induction q as [|k t IH]; intros d ch H; [destruct H|].
  cbn [exec_seq]. destruct H as [->|H].
  - simpl. pose proof (exec_seq_monitors t (set_monitors d (d_monitors d ++ [ch])) ch) as M.
    destruct (exec_seq _ t) as [d2 o2]. apply M. simpl. apply in_or_app. right. left. reflexivity.
  - destruct (exec d k) as [d1 o1]. specialize (IH d1 ch H). destruct (exec_seq d1 t) as [d2 o2]. exact IH.
Qed.

Lemma chans_of_in c ch q : In c q -> cmd_chan c = Some ch -> In ch (chans_of q).
Proof.
  intros H E. unfold chans_of. apply in_flat_map. exists c. split; [exact H|]. rewrite E. left. reflexivity.
Qed.

Lemma dropped_in c ch rest : In c rest -> cmd_chan c = Some ch -> In (ch, EClosed) (dropped rest).
Proof.
  intros H E. unfold dropped. apply in_flat_map. exists c. split; [exact H|]. rewrite E. left. reflexivity.
Qed.

Lemma null_false {A} (l : list A) : l <> [] -> negb (match l with [] => true | _ => false end) = true.
Proof. destruct l; [congruence|reflexivity]. Qed.

(* chk_resolves holds for what drain0 produces (prefixed by the events of arriving packets) *)
Lemma resolves_ok d q oa :
  let '(d', o, g, x) := drain0 d q in chk_resolves q x (oa ++ o) = true.
Proof.
  rewrite drain0_spec. destruct (from_exit q) as [[x rest]|] eqn:F.
  - destruct (from_exit_some q x rest F) as [Eq Npre]. cbn zeta.
    unfold chk_resolves. apply forallb_forall. intros c Hc.
    rewrite Eq in Hc. apply in_app_or in Hc.
    set (pre := before_exit q) in *. set (d1 := fst (exec_seq d pre)).
    assert (OUT : forall p, In p (snd (exec_seq d pre) ++ shutdown_outputs d1 x rest) ->
                  In p (oa ++ snd (exec_seq d pre) ++ shutdown_outputs d1 x rest))
      by (intros p Hp; apply in_or_app; right; exact Hp).
    destruct Hc as [Hc|[<-|Hc]].
    + (* in front of Exit *)
      assert (K : is_exit c = false) by (unfold no_exit in Npre; rewrite Forall_forall in Npre; apply Npre; exact Hc).
      destruct c; try reflexivity; try discriminate.
      * apply null_false. destruct (exec_seq_incl pre d _ Hc) as [d' I].
        eapply evs_of_nonempty. apply OUT. apply in_or_app. left. apply I. simpl. left. reflexivity.
      * apply null_false. destruct (exec_seq_incl pre d _ Hc) as [d' I].
        eapply evs_of_nonempty. apply OUT. apply in_or_app. left. apply I. simpl. left. reflexivity.
      * apply null_false. destruct (exec_seq_incl pre d _ Hc) as [d' I].
        destruct (exec_answers d' (QUnregister fullname ch) ch eq_refl eq_refl) as [e He]; [discriminate|].
        eapply evs_of_nonempty. apply OUT. apply in_or_app. left. apply I. exact He.
      * simpl. apply has_ev_in. apply in_evs_of. apply OUT. apply in_or_app. right.
        unfold shutdown_outputs. apply in_or_app. right. apply in_or_app. right. apply in_or_app. left.
        unfold drop_all. apply in_map_iff. exists ch. split; [reflexivity|].
        unfold held_channels. apply in_or_app. right. apply in_or_app. right.
        apply exec_seq_monitor_added. exact Hc.
      * apply null_false. destruct (exec_seq_incl pre d _ Hc) as [d' I].
        eapply evs_of_nonempty. apply OUT. apply in_or_app. left. apply I. simpl. left. reflexivity.
      * apply null_false. destruct (exec_seq_incl pre d _ Hc) as [d' I].
        eapply evs_of_nonempty. apply OUT. apply in_or_app. left. apply I. simpl. left. reflexivity.
    + (* Exit itself *)
      cbn [cmd_chan]. apply null_false. eapply evs_of_nonempty. apply OUT. apply in_or_app. right.
      unfold shutdown_outputs. apply in_or_app. right. apply in_or_app. right. apply in_or_app. right.
      left. reflexivity.
    + (* behind Exit: dropped, channel closed *)
      assert (D : forall ch, cmd_chan c = Some ch -> In (ch, EClosed) (oa ++ snd (exec_seq d pre) ++ shutdown_outputs d1 x rest)).
      { intros ch E. apply OUT. apply in_or_app. right. unfold shutdown_outputs.
        apply in_or_app. right. apply in_or_app. left. eapply dropped_in; eassumption. }
      destruct c; try reflexivity; cbn [cmd_chan];
        try (apply null_false; eapply evs_of_nonempty; apply D; reflexivity).
      simpl. apply has_ev_in. apply in_evs_of. apply D. reflexivity.
  - destruct (from_exit_none q F) as [_ N].
    unfold chk_resolves. apply forallb_forall. intros c Hc.
    assert (K : is_exit c = false) by (unfold no_exit in N; rewrite Forall_forall in N; apply N; exact Hc).
    destruct (exec_seq_incl q d c Hc) as [d' I].
    assert (OUT : forall p, In p (snd (exec d' c)) -> In p (oa ++ snd (exec_seq d q)))
      by (intros p Hp; apply in_or_app; right; apply I; exact Hp).
    destruct c; try reflexivity; try discriminate;
      try (apply null_false; eapply evs_of_nonempty; apply OUT; simpl; left; reflexivity).
    apply null_false.
    destruct (exec_answers d' (QUnregister fullname ch) ch eq_refl eq_refl) as [e He]; [discriminate|].
    eapply evs_of_nonempty. apply OUT. exact He.
Qed.

(* ------------------------------------------------------------------------------------ *)
(* 5. the invariant over histories                                                        *)
(* ------------------------------------------------------------------------------------ *)

Definition wf_hist (h : list stepin) : Prop := Forall (fun i => Forall wf_call (in_calls i)) h.

Lemma iterate_unstuck d found q :
  it_stuck (iterate d found q) = false ->
  drain0 (fst (arrive d found)) q =
    (it_d (iterate d found q),
     skipn (length (snd (arrive d found))) (it_out (iterate d found q)),
     it_goodbyes (iterate d found q), it_exited (iterate d found q))
  /\ firstn (length (snd (arrive d found))) (it_out (iterate d found q)) = snd (arrive d found)
  /\ it_rest (iterate d found q) = [].
Proof.
  unfold iterate. destruct (arrive d found) as [d0 oa]. cbn [fst snd].
  destruct (deliver [] oa) as [[o c] b] eqn:E.
  destruct b; [simpl; discriminate|].
  apply deliver_unstuck in E. subst o. cbn [it_stuck it_d it_out it_goodbyes it_exited it_rest].
  intros H. destruct (drain_unstuck q d0 c H) as [A B]. rewrite A.
  rewrite skipn_app, Nat.sub_diag, skipn_all. simpl.
  rewrite firstn_app, Nat.sub_diag, firstn_all. simpl. rewrite app_nil_r. auto.
Qed.

Lemma iterate_unstuck_out d found q :
  it_stuck (iterate d found q) = false ->
  exists o, it_out (iterate d found q) = snd (arrive d found) ++ o
    /\ drain0 (fst (arrive d found)) q =
       (it_d (iterate d found q), o, it_goodbyes (iterate d found q), it_exited (iterate d found q))
    /\ it_rest (iterate d found q) = [].
Proof.
  intros H. destruct (iterate_unstuck d found q H) as (A & B & C).
  eexists. split; [|split; [exact A|exact C]].
  rewrite <- (firstn_skipn (length (snd (arrive d found))) (it_out (iterate d found q))) at 1.
  rewrite B. reflexivity.
Qed.

Lemma shutdown_outputs_seen d x rest : In (x, EShutdown) (shutdown_outputs d x rest).
Proof.
  unfold shutdown_outputs. apply in_or_app. right. apply in_or_app. right. apply in_or_app. right.
  left. reflexivity.
Qed.

Lemma forallb_evs_refl l chs : forallb (fun ch => evs_eqb (evs_of ch l) (evs_of ch l)) chs = true.
Proof. apply forallb_forall. intros ch _. apply evs_eqb_refl. Qed.

Lemma shutdown_ok d found q rs d' oo g x :
  drain0 (fst (arrive d found)) q = (d', oo, g, x) ->
  chk_shutdown d found q (mkObs rs (snd (arrive d found) ++ oo) (if x then g else []) x false) = true
  /\ shutdown_seen (mkObs rs (snd (arrive d found) ++ oo) (if x then g else []) x false) = x
  /\ (x = false -> d' = fst (exec_seq (fst (arrive d found)) (before_exit q))).
Proof.
  rewrite drain0_spec. intros H. unfold chk_shutdown, shutdown_seen.
  cbn [so_events so_exited so_goodbyes].
  pose proof (arrive_no_shutdown found d) as NA.
  destruct (arrive d found) as [d0 oa]. cbn [fst snd] in *.
  destruct (from_exit q) as [[y rest]|] eqn:F.
  - cbn zeta in H. pose proof (exec_seq_no_shutdown (before_exit q) d0) as NE.
    destruct (exec_seq d0 (before_exit q)) as [d1 o1]. cbn [fst snd] in *.
    injection H as E1 E2 E3 E4. subst d' oo g x. repeat split.
    + rewrite same_multiset_refl. cbn [andb]. apply forallb_evs_refl.
    + apply existsb_exists. exists (y, EShutdown). split; [|reflexivity].
      apply in_or_app. right. apply in_or_app. right. apply shutdown_outputs_seen.
  - injection H as E1 E2 E3 E4. subst d' oo g x. destruct (from_exit_none q F) as [B _].
    pose proof (exec_seq_no_shutdown q d0) as NE. repeat split.
    + cbn [negb andb]. apply forallb_forall. intros ch _. rewrite no_shutdown_has_ev; [reflexivity|].
      apply no_shutdown_app; assumption.
    + apply no_shutdown_seen. apply no_shutdown_app; assumption.
    + intros _. rewrite B. reflexivity.
Qed.

Record step_alive_facts (s : sys) (i : stepin) (s' : sys) (o : sobs) : Prop := {
  saf_results : forall evs, chk_results false (in_calls i) (s_next s) (so_results o) 0 evs = true;
  saf_resolves : chk_resolves (accepted (in_calls i) (s_next s) (so_results o)) (so_exited o) (so_events o) = true;
  saf_shutdown : chk_shutdown (mark (s_d s) (in_announced i)) (in_found i)
                   (accepted (in_calls i) (s_next s) (so_results o)) o = true;
  saf_stuck : s_stuck s' = false;
  saf_items : q_items (s_chan s') = [];
  saf_next : s_next s' = s_next s + N.of_nat (length (in_calls i));
  saf_gone : q_gone (s_chan s') = so_exited o;
  saf_seen : shutdown_seen o = so_exited o;
  saf_d : so_exited o = false ->
          s_d s' = fst (exec_seq (fst (arrive (mark (s_d s) (in_announced i)) (in_found i)))
                                 (before_exit (accepted (in_calls i) (s_next s) (so_results o)))) }.

Lemma step_alive s i s' o :
  Forall wf_call (in_calls i) ->
  s_stuck s = false -> q_gone (s_chan s) = false -> q_items (s_chan s) = [] ->
  step s i = (s', o) -> so_stuck o = false ->
  step_alive_facts s i s' o.
Proof.
  intros W St G It H Hs. unfold step in H.
  destruct s as [[items gone] d nxt stuck]. simpl in St, G, It. subst items gone stuck.
  cbn [s_chan s_next s_d s_stuck] in *.
  destruct (do_calls (mkChan [] false) (in_calls i) nxt) as [[q1 rs] o0] eqn:E.
  destruct (do_calls_alive (in_calls i) [] nxt q1 rs o0 W E) as (Eq & Eo & Cr). subst q1 o0.
  cbn [q_gone q_items orb app] in H.
  remember (accepted (in_calls i) nxt rs) as q eqn:Hq.
  set (dm := mark d (in_announced i)) in *.
  remember (iterate dm (in_found i) q) as r eqn:Hr.
  injection H as Hs' Ho. subst s' o. cbn [so_stuck] in Hs.
  assert (Hst : it_stuck (iterate dm (in_found i) q) = false) by (rewrite <- Hr; exact Hs).
  destruct (iterate_unstuck_out dm (in_found i) q Hst) as (oo & Eout & Edr & Erest).
  rewrite <- Hr in Eout, Edr, Erest.
  pose proof (resolves_ok (fst (arrive dm (in_found i))) q (snd (arrive dm (in_found i)))) as R.
  rewrite Edr in R.
  destruct (shutdown_ok dm (in_found i) q rs _ _ _ _ Edr) as (S1 & S2 & S3).
  rewrite Hs, Eout.
  constructor; cbn [s_chan s_next s_d s_stuck q_gone q_items so_results so_events so_goodbyes so_exited];
    rewrite <- ?Hq.
  - exact Cr.
  - exact R.
  - exact S1.
  - reflexivity.
  - exact Erest.
  - reflexivity.
  - reflexivity.
  - exact S2.
  - exact S3.
Qed.

Lemma step_gone s i s' o :
  Forall wf_call (in_calls i) -> q_gone (s_chan s) = true -> step s i = (s', o) ->
  chk_results true (in_calls i) (s_next s) (so_results o) 0 (so_events o) = true
  /\ chk_quiet o = true /\ so_stuck o = false /\ so_exited o = false
  /\ q_gone (s_chan s') = true /\ s_stuck s' = s_stuck s /\ q_items (s_chan s') = q_items (s_chan s)
  /\ s_next s' = s_next s + N.of_nat (length (in_calls i)).
Proof.
  intros W G H. unfold step in H.
  destruct s as [[items gone] d nxt stuck]. simpl in G. subst gone. cbn [s_chan s_next s_d s_stuck] in *.
  destruct (do_calls (mkChan items true) (in_calls i) nxt) as [[q1 rs] o0] eqn:E.
  destruct (do_calls_gone (in_calls i) items nxt q1 rs o0 W E) as (Eq & Ge & Osc & Cr). subst q1.
  cbn [q_gone orb] in H. inversion H; subst s' o. clear H.
  cbn [so_results so_events so_goodbyes so_exited so_stuck s_chan s_next s_stuck q_gone q_items].
  repeat split; try reflexivity.
  - apply (Cr []). constructor.
  - unfold chk_quiet. cbn [so_exited so_goodbyes so_events]. simpl.
    apply forallb_forall. intros p Hp. unfold only_shutdown_closed in Osc. rewrite Forall_forall in Osc.
    destruct (Osc p Hp) as [-> | ->]; reflexivity.
Qed.

Lemma run_from_chk : forall h s d,
  wf_hist h -> s_stuck s = false -> q_items (s_chan s) = [] ->
  never_stuck (run_from s h) = true ->
  (q_gone (s_chan s) = false -> d = s_d s) ->
  chk_from d (s_next s) (q_gone (s_chan s)) h (run_from s h) = true.
Proof.
  induction h as [|i t IH]; intros s d W St It Ns Hd; [reflexivity|].
  inversion W as [|? ? Wi Wt]; subst.
  cbn [run_from] in *. destruct (step s i) as [s' o] eqn:E.
  cbn [never_stuck forallb] in Ns. apply andb_true_iff in Ns as [Ns1 Ns2].
  apply negb_true_iff in Ns1. cbn [chk_from]. rewrite Ns1. cbn [negb andb].
  destruct (q_gone (s_chan s)) eqn:G.
  - destruct (step_gone s i s' o Wi G E) as (A & B & C & _ & G' & St' & It' & Nx).
    rewrite A, B. cbn [andb]. rewrite <- Nx.
    assert (X : chk_from d (s_next s') (q_gone (s_chan s')) t (run_from s' t) = true).
    { apply IH; [exact Wt|congruence|congruence|exact Ns2|]. intros X. congruence. }
    rewrite G' in X. exact X.
  - pose proof (step_alive s i s' o Wi St G It E Ns1) as F.
    rewrite (Hd eq_refl). rewrite (saf_results _ _ _ _ F), (saf_resolves _ _ _ _ F), (saf_shutdown _ _ _ _ F).
    cbn [andb]. rewrite <- (saf_next _ _ _ _ F). rewrite (saf_seen _ _ _ _ F).
    assert (X : forall d', (q_gone (s_chan s') = false -> d' = s_d s') ->
                chk_from d' (s_next s') (q_gone (s_chan s')) t (run_from s' t) = true).
    { intros d' Hd'. apply IH; [exact Wt|exact (saf_stuck _ _ _ _ F)|exact (saf_items _ _ _ _ F)|exact Ns2|exact Hd']. }
    rewrite (saf_gone _ _ _ _ F) in X. apply X.
    intros Ex. symmetry. apply (saf_d _ _ _ _ F). exact Ex.
Qed.

Theorem model_passes_monitor h : wf_hist h -> never_stuck (run h) = true -> chk_C14 h (run h) = true.
Proof.
  intros W N. unfold chk_C14, run in *.
  apply (run_from_chk h sys_init d_init W eq_refl eq_refl N). intros _. reflexivity.
Qed.

(* ------------------------------------------------------------------------------------ *)
(* 6. the named properties                                                                *)
(* ------------------------------------------------------------------------------------ *)

(* ---- 6a. what chk_C14 = true says about a trace (model's or implementation's) -------- *)

Lemma cres_eqb_eq a b : cres_eqb a b = true -> a = b.
Proof. destruct a, b; simpl; try discriminate; reflexivity. Qed.

Definition fails_after_shutdown (cs : list call) (rs : list cres) : Prop :=
  Forall2 (fun c r => r = RMsg \/ r = RShutdown \/ (is_status c = true /\ r = ROk)) cs rs.

Lemma chk_results_seen : forall cs base rs q evs,
  chk_results true cs base rs q evs = true -> fails_after_shutdown cs rs.
Proof.
  induction cs as [|c t IH]; intros base rs q evs H; destruct rs as [|r rt]; simpl in H; try discriminate.
  - constructor.
  - destruct (prepare c base) as [k| | |]; try discriminate.
    + apply andb_true_iff in H as [H1 H2]. constructor; [|eapply IH; exact H2].
      destruct (is_status c) eqn:S.
      * apply andb_true_iff in H1 as [H1 _]. apply cres_eqb_eq in H1. right. right. auto.
      * apply cres_eqb_eq in H1. right. left. exact H1.
    + apply andb_true_iff in H as [H1 H2]. apply cres_eqb_eq in H1.
      constructor; [left; exact H1|eapply IH; exact H2].
Qed.

Definition quiet_step (i : stepin) (o : sobs) : Prop :=
  fails_after_shutdown (in_calls i) (so_results o) /\ chk_quiet o = true.

Lemma chk_from_seen : forall h tr d b, chk_from d b true h tr = true -> Forall2 quiet_step h tr.
Proof.
  induction h as [|i t IH]; intros tr d b H; destruct tr as [|o tr1]; simpl in H; try discriminate.
  - constructor.
  - apply andb_true_iff in H as [H H3]. apply andb_true_iff in H as [_ H1].
    apply andb_true_iff in H3 as [H2 H3].
    constructor; [split; [eapply chk_results_seen; exact H1|exact H2]|eapply IH; exact H3].
Qed.

Lemma chk_from_after : forall h tr d b seen k o,
  chk_from d b seen h tr = true -> nth_error tr k = Some o -> shutdown_seen o = true ->
  Forall2 quiet_step (skipn (S k) h) (skipn (S k) tr).
Proof.
  induction h as [|i t IH]; intros tr d b seen k o H Hk Hs; destruct tr as [|o1 tr1]; simpl in H; try discriminate.
  - destruct k; discriminate.
  - apply andb_true_iff in H as [H H3]. destruct k as [|k].
    + simpl in Hk. inversion Hk; subst o1. simpl skipn.
      destruct seen.
      * apply andb_true_iff in H3 as [_ H3]. eapply chk_from_seen. exact H3.
      * apply andb_true_iff in H3 as [_ H3]. rewrite Hs in H3. eapply chk_from_seen. exact H3.
    + simpl in Hk. simpl skipn. destruct seen.
      * apply andb_true_iff in H3 as [_ H3]. eapply IH; eassumption.
      * apply andb_true_iff in H3 as [_ H3]. eapply IH; eassumption.
Qed.

(* after_shutdown_fails *)
Theorem after_shutdown_fails h :
  wf_hist h -> never_stuck (run h) = true ->
  forall k o, nth_error (run h) k = Some o -> shutdown_seen o = true ->
  Forall2 quiet_step (skipn (S k) h) (skipn (S k) (run h)).
Proof.
  intros W N k o Hk Hs. eapply chk_from_after; [apply (model_passes_monitor h W N)|exact Hk|exact Hs].
Qed.

(* status() on a handle whose channel is disconnected answers Shutdown by itself *)
Lemma status_after_shutdown q ch :
  q_gone q = true -> do_call q CStatus ch = (q, ROk, [(ch, EShutdown); (ch, EClosed)]).
Proof. intros G. unfold do_call. simpl. rewrite G. reflexivity. Qed.

(* ---- 6b. the daemon ends at most once ------------------------------------------------ *)

Lemma do_call_flag q c ch : q_gone (fst (fst (do_call q c ch))) = q_gone q.
Proof.
  unfold do_call. destruct (prepare c ch); try reflexivity.
  assert (T : forall k, q_gone (fst (try_send q k)) = q_gone q).
  { intros k. unfold try_send. destruct (q_gone q) eqn:G; [exact G|].
    destruct (cmd_queue_bound <=? _); simpl; [exact G|reflexivity]. }
  destruct c; try (specialize (T a); destruct (try_send q a); exact T).
  destruct (q_gone q) eqn:G; [exact G|]. specialize (T a). destruct (try_send q a). simpl in *. congruence.
Qed.

Lemma do_calls_flag : forall cs q base, q_gone (fst (fst (do_calls q cs base))) = q_gone q.
Proof.
  induction cs as [|c t IH]; intros q base; [reflexivity|].
  cbn [do_calls]. pose proof (do_call_flag q c base) as F.
  destruct (do_call q c base) as [[q1 r] o]. simpl in F.
  specialize (IH q1 (base + 1)). destruct (do_calls q1 t (base + 1)) as [[q2 rs] os]. simpl in *. congruence.
Qed.

Lemma step_exit_flag s i : so_exited (snd (step s i)) = true -> q_gone (s_chan (fst (step s i))) = true.
Proof.
  unfold step. destruct (do_calls (s_chan s) (in_calls i) (s_next s)) as [[q1 rs] o0].
  destruct (q_gone q1 || s_stuck s); simpl; [discriminate|]. intros H. exact H.
Qed.

Lemma step_gone_flag s i : q_gone (s_chan s) = true ->
  q_gone (s_chan (fst (step s i))) = true /\ so_exited (snd (step s i)) = false.
Proof.
  intros G. unfold step. pose proof (do_calls_flag (in_calls i) (s_chan s) (s_next s)) as F.
  destruct (do_calls (s_chan s) (in_calls i) (s_next s)) as [[q1 rs] o0]. simpl in F.
  rewrite G in F. rewrite F. simpl. split; [exact F|reflexivity].
Qed.

Lemma gone_never_exits : forall h s, q_gone (s_chan s) = true -> filter so_exited (run_from s h) = [].
Proof.
  induction h as [|i t IH]; intros s G; [reflexivity|].
  cbn [run_from]. destruct (step_gone_flag s i G) as [G' E]. destruct (step s i) as [s' o]. simpl in *.
  rewrite E. apply IH. exact G'.
Qed.

Lemma exits_at_most_once_from : forall h s, (length (filter so_exited (run_from s h)) <= 1)%nat.
Proof.
  induction h as [|i t IH]; intros s; [simpl; lia|].
  cbn [run_from]. pose proof (step_exit_flag s i) as F. destruct (step s i) as [s' o]. simpl in *.
  destruct (so_exited o) eqn:E.
  - rewrite (gone_never_exits t s' (F eq_refl)). simpl. lia.
  - apply IH.
Qed.

Theorem exits_at_most_once h : (length (filter so_exited (run h)) <= 1)%nat.
Proof. apply exits_at_most_once_from. Qed.

(* ---- 6c. clean-up: exactly the state in front of Exit, nothing behind Exit executes ---- *)

Lemma dropped_only_closed rest : Forall (fun p => snd p = EClosed) (dropped rest).
Proof.
  unfold dropped. apply Forall_forall. intros p Hp. apply in_flat_map in Hp as (c & _ & Hc).
  destruct (cmd_chan c); [|destruct Hc]. destruct Hc as [<-|[]]. reflexivity.
Qed.

Theorem nothing_behind_exit_executes d pre x post : no_exit pre ->
  drain0 d (pre ++ QExit x :: post) =
  (fst (exec_seq d pre),
   snd (exec_seq d pre) ++ cleanup_events (fst (exec_seq d pre)) ++ dropped post
     ++ drop_all (fst (exec_seq d pre)) ++ [(x, EShutdown); (x, EClosed)],
   exec_seq_gb d pre ++ cleanup_goodbyes (fst (exec_seq d pre)), true)
  /\ Forall (fun p => snd p = EClosed) (dropped post).
Proof.
  intros N. split; [|apply dropped_only_closed]. rewrite (drain0_at_exit d pre x post N). reflexivity.
Qed.

Lemma monitor_closed_at_exit d x rest ch : In ch (d_monitors d) -> In (ch, EClosed) (shutdown_outputs d x rest).
Proof.
  intros H. unfold shutdown_outputs. apply in_or_app. right. apply in_or_app. right. apply in_or_app. left.
  unfold drop_all. apply in_map_iff. exists ch. split; [reflexivity|].
  unfold held_channels. apply in_or_app. right. apply in_or_app. right. exact H.
Qed.

(* exactly once: one entry per registered service, per browsed type, per resolved host *)
Definition dinv (d : dstate) : Prop :=
  NoDup (d_services d) /\ NoDup (map fst (d_queriers d)) /\ NoDup (map fst (d_resolvers d)).

Lemma NoDup_snoc {A} (l : list A) x : NoDup l -> ~ In x l -> NoDup (l ++ [x]).
Proof.
  induction 1 as [|y l Hy Hl IH]; intros Hx; simpl.
  - constructor; [intros []|constructor].
  - constructor.
    + intros H. apply in_app_or in H as [H|[H|[]]]; [exact (Hy H)|]. subst. apply Hx. left. reflexivity.
    + apply IH. intros H. apply Hx. right. exact H.
Qed.

Lemma sinsert_NoDup k l : NoDup l -> NoDup (sinsert k l).
Proof.
  intros H. unfold sinsert, sremove. apply NoDup_snoc; [apply NoDup_filter; exact H|].
  intros X. apply filter_In in X as [_ X]. rewrite beq_refl in X. discriminate.
Qed.

Lemma map_fst_aremove k l : map fst (aremove k l) = filter (fun e => negb (beq k e)) (map fst l).
Proof.
  unfold aremove. induction l as [|[a b] l IH]; [reflexivity|]. simpl.
  destruct (negb (beq k a)); simpl; rewrite IH; reflexivity.
Qed.

Lemma aremove_NoDup k l : NoDup (map fst l) -> NoDup (map fst (aremove k l)).
Proof. intros H. rewrite map_fst_aremove. apply NoDup_filter. exact H. Qed.

Lemma ainsert_NoDup k v l : NoDup (map fst l) -> NoDup (map fst (ainsert k v l)).
Proof.
  intros H. unfold ainsert. rewrite map_app. simpl. apply NoDup_snoc; [apply aremove_NoDup; exact H|].
  rewrite map_fst_aremove. intros X. apply filter_In in X as [_ X]. rewrite beq_refl in X. discriminate.
Qed.

Lemma dinv_init : dinv d_init.
Proof. repeat split; constructor. Qed.

Lemma exec_dinv d c : dinv d -> dinv (fst (exec d c)).
Proof.
  intros (A & B & C). destruct c; simpl; try (repeat split; assumption).
  - repeat split; try assumption. apply ainsert_NoDup. exact B.
  - destruct (alookup ty (d_queriers d)); simpl; repeat split; try assumption. apply aremove_NoDup. exact B.
  - repeat split; try assumption. apply ainsert_NoDup. exact C.
  - destruct (alookup (lower host) (d_resolvers d)); simpl; repeat split; try assumption. apply aremove_NoDup. exact C.
  - destruct (check_service_name_length _ _); simpl; repeat split; try assumption. apply sinsert_NoDup. exact A.
  - destruct (mem fullname (d_services d)); simpl; repeat split; try assumption.
    unfold sremove. apply NoDup_filter. exact A.
Qed.

Lemma exec_seq_dinv : forall q d, dinv d -> dinv (fst (exec_seq d q)).
Proof.
  induction q as [|k t IH]; intros d H; [exact H|].
  cbn [exec_seq]. pose proof (exec_dinv d k H) as H1. destruct (exec d k) as [d1 o1]. simpl in H1.
  specialize (IH d1 H1). destruct (exec_seq d1 t) as [d2 o2]. exact IH.
Qed.

Lemma arrive_dinv : forall a d, dinv d -> dinv (fst (arrive d a)).
Proof.
  induction a as [|[ty n] t IH]; intros d H; [exact H|].
  cbn [arrive]. destruct (alookup ty (d_queriers d)); [|apply IH; exact H].
  specialize (IH (set_found d (ainsert ty (found_count ty d + n) (d_found d)))).
  destruct (arrive _ t) as [d2 o]. apply IH. exact H.
Qed.

Theorem cleanup_exactly_once d found q :
  dinv d ->
  let d1 := fst (exec_seq (fst (arrive d found)) q) in
  NoDup (cleanup_goodbyes d1)
  /\ cleanup_events d1 = map (fun e => (snd e, EStopped)) (d_queriers d1 ++ d_resolvers d1)
  /\ NoDup (map fst (d_queriers d1)) /\ NoDup (map fst (d_resolvers d1)).
Proof.
  intros H. cbn zeta. destruct (exec_seq_dinv q _ (arrive_dinv found d H)) as (A & B & C).
  repeat split; try assumption; [apply NoDup_filter; exact A|].
  unfold cleanup_events. rewrite map_app. reflexivity.
Qed.

(* every state the model can reach satisfies dinv *)
Lemma drain_dinv : forall q d c, dinv d -> dinv (it_d (drain d c q)).
Proof.
  induction q as [|k rest IH]; intros d c H; [exact H|].
  destruct (is_exit k) eqn:K.
  - apply is_exit_true in K as [x ->]. simpl.
    destruct (deliver c (shutdown_outputs d x rest)) as [[o c1] b]. destruct b; exact H.
  - rewrite drain_cons by exact K. pose proof (exec_dinv d k H) as H1.
    destruct (exec d k) as [d1 o1]. simpl in H1. destruct (deliver c o1) as [[o c1] b].
    destruct b; [exact H1|]. simpl. apply IH. exact H1.
Qed.

Lemma mark_dinv d ann : dinv d -> dinv (mark d ann).
Proof. intros H. exact H. Qed.

Lemma step_dinv s i : dinv (s_d s) -> dinv (s_d (fst (step s i))).
Proof.
  intros H. unfold step. destruct (do_calls (s_chan s) (in_calls i) (s_next s)) as [[q1 rs] o0].
  destruct (q_gone q1 || s_stuck s); simpl; [exact H|].
  unfold iterate. pose proof (arrive_dinv (in_found i) _ (mark_dinv (s_d s) (in_announced i) H)) as H0.
  destruct (arrive (mark (s_d s) (in_announced i)) (in_found i)) as [d0 oa]. simpl in H0.
  destruct (deliver [] oa) as [[o c] b]. destruct b; [exact H0|]. simpl. apply drain_dinv. exact H0.
Qed.

Definition state_after (s : sys) (h : list stepin) : sys := fold_left (fun s i => fst (step s i)) h s.

Theorem reachable_dinv h : dinv (s_d (state_after sys_init h)).
Proof.
  unfold state_after. assert (G : forall h s, dinv (s_d s) -> dinv (s_d (fold_left (fun s i => fst (step s i)) h s))).
  { induction h0 as [|i t IH]; intros s H; [exact H|]. simpl. apply IH. apply step_dinv. exact H. }
  apply G. apply dinv_init.
Qed.

(* ---- 6d. every call resolves ----------------------------------------------------------- *)

Definition call_has_chan (c : call) : bool :=
  match c with
  | CBrowse _ _ | CResolve _ | CUnregister _ | CMonitor | CStatus | CMetrics | CShutdown => true
  | _ => false
  end.

Lemma prepare_chan c ch k :
  prepare c ch = Ok k -> call_has_chan c = true ->
  cmd_chan k = Some ch /\ (c <> CMonitor -> forall x, k <> QMonitor x).
Proof.
  intros P H. destruct c; simpl in H; try discriminate; simpl in P.
  - destruct (api_browse lower ty) as [[]| | |]; simpl in P; try discriminate. inversion P; subst.
    split; [reflexivity|intros _ x; discriminate].
  - destruct (api_resolve_hostname lower host) as [[]| | |]; simpl in P; try discriminate. inversion P; subst.
    split; [reflexivity|intros _ x; discriminate].
  - inversion P; subst. split; [reflexivity|intros _ x; discriminate].
  - inversion P; subst. split; [reflexivity|intros X; congruence].
  - inversion P; subst. split; [reflexivity|intros _ x; discriminate].
  - inversion P; subst. split; [reflexivity|intros _ x; discriminate].
  - inversion P; subst. split; [reflexivity|intros _ x; discriminate].
Qed.

Lemma accepted_in : forall cs base rs j c k,
  nth_error cs j = Some c -> nth_error rs j = Some ROk ->
  prepare c (base + N.of_nat j) = Ok k -> In k (accepted cs base rs).
Proof.
  induction cs as [|c0 t IH]; intros base rs j c k Hc Hr P; [destruct j; discriminate|].
  destruct rs as [|r0 rt]; [destruct j; discriminate|].
  destruct j as [|j].
  - simpl in Hc, Hr. inversion Hc; inversion Hr; subst. simpl in P. rewrite N.add_0_r in P.
    cbn [accepted]. rewrite P. left. reflexivity.
  - simpl in Hc, Hr. cbn [accepted].
    assert (In k (accepted t (base + 1) rt)).
    { eapply IH; [exact Hc|exact Hr|]. replace (base + 1 + N.of_nat j) with (base + N.of_nat (S j)) by lia. exact P. }
    destruct r0; try exact H. destruct (prepare c0 base); try exact H. right. exact H.
Qed.

Lemma results_ok_prepared : forall cs base rs q evs j c,
  chk_results false cs base rs q evs = true ->
  nth_error cs j = Some c -> nth_error rs j = Some ROk ->
  exists k, prepare c (base + N.of_nat j) = Ok k.
Proof.
  induction cs as [|c0 t IH]; intros base rs q evs j c H Hc Hr; [destruct j; discriminate|].
  destruct rs as [|r0 rt]; [destruct j; discriminate|]. simpl in H.
  destruct j as [|j].
  - simpl in Hc, Hr. inversion Hc; inversion Hr; subst. rewrite N.add_0_r.
    destruct (prepare c base) as [k| | |]; try discriminate; eauto.
  - simpl in Hc, Hr. replace (base + N.of_nat (S j)) with (base + 1 + N.of_nat j) by lia.
    destruct (prepare c0 base) as [k| | |]; try discriminate.
    + destruct (cmd_queue_bound <=? q); apply andb_true_iff in H as [_ H]; eapply IH; eassumption.
    + apply andb_true_iff in H as [_ H]. eapply IH; eassumption.
Qed.

Lemma results_seen_status : forall cs base rs q evs j c,
  chk_results true cs base rs q evs = true ->
  nth_error cs j = Some c -> nth_error rs j = Some ROk ->
  evs_of (base + N.of_nat j) evs <> [].
Proof.
  induction cs as [|c0 t IH]; intros base rs q evs j c H Hc Hr; [destruct j; discriminate|].
  destruct rs as [|r0 rt]; [destruct j; discriminate|]. simpl in H.
  destruct j as [|j].
  - simpl in Hc, Hr. inversion Hc; inversion Hr; subst. rewrite N.add_0_r.
    destruct (prepare c base) as [k| | |]; try discriminate.
    apply andb_true_iff in H as [H _]. destruct (is_status c).
    + apply andb_true_iff in H as [_ H]. intros E. rewrite E in H. discriminate.
    + discriminate.
  - simpl in Hc, Hr. replace (base + N.of_nat (S j)) with (base + 1 + N.of_nat j) by lia.
    destruct (prepare c0 base) as [k| | |]; try discriminate;
      apply andb_true_iff in H as [_ H]; eapply IH; eassumption.
Qed.

Lemma resolves_in q exited evs k ch :
  chk_resolves q exited evs = true -> In k q -> cmd_chan k = Some ch -> (forall x, k <> QMonitor x) ->
  evs_of ch evs <> [].
Proof.
  intros H Hk Hc Hm. unfold chk_resolves in H. rewrite forallb_forall in H. specialize (H k Hk).
  destruct k; simpl in Hc; try discriminate; inversion Hc; subst; simpl in H;
    try (intros E; rewrite E in H; discriminate).
  exfalso. exact (Hm ch eq_refl).
Qed.

(* every_call_resolves: in a step that does not get stuck, each call returns an error, or has
   no reply channel, or is a monitor subscription, or its channel has yielded a value or was
   closed by the end of the step *)
Theorem every_call_resolves s i :
  Forall wf_call (in_calls i) -> s_stuck s = false -> q_items (s_chan s) = [] ->
  so_stuck (snd (step s i)) = false ->
  forall j c r, nth_error (in_calls i) j = Some c -> nth_error (so_results (snd (step s i))) j = Some r ->
    r <> ROk \/ call_has_chan c = false \/ c = CMonitor
    \/ evs_of (s_next s + N.of_nat j) (so_events (snd (step s i))) <> [].
Proof.
  intros W St It Hs j c r Hc Hr.
  destruct (step s i) as [s' o] eqn:E. cbn [snd] in *.
  destruct r; try (left; discriminate).
  destruct (call_has_chan c) eqn:HC; [|right; left; reflexivity].
  destruct c; try discriminate; try (right; right; left; reflexivity); right; right; right.
  all: destruct (q_gone (s_chan s)) eqn:G;
    [ destruct (step_gone s i s' o W G E) as (A & _); eapply results_seen_status; eassumption
    | pose proof (step_alive s i s' o W St G It E Hs) as F;
      destruct (results_ok_prepared _ _ _ _ [] _ _ (saf_results _ _ _ _ F []) Hc Hr) as [k P];
      destruct (prepare_chan _ _ k P HC) as [Ck Mk];
      eapply resolves_in;
        [exact (saf_resolves _ _ _ _ F)|eapply accepted_in; eassumption|exact Ck|apply Mk; discriminate] ].
Qed.

(* a history that has not got stuck leaves the queue empty: the hypotheses of
   every_call_resolves hold at every step of such a history *)
Theorem reachable_queue_empty : forall h s,
  wf_hist h -> s_stuck s = false -> q_items (s_chan s) = [] -> never_stuck (run_from s h) = true ->
  s_stuck (state_after s h) = false /\ q_items (s_chan (state_after s h)) = [].
Proof.
  induction h as [|i t IH]; intros s W St It N; [split; assumption|].
  inversion W as [|? ? Wi Wt]; subst. cbn [run_from] in N. unfold state_after. simpl.
  destruct (step s i) as [s' o] eqn:E. simpl.
  cbn [never_stuck forallb] in N. apply andb_true_iff in N as [N1 N2]. apply negb_true_iff in N1.
  destruct (q_gone (s_chan s)) eqn:G.
  - destruct (step_gone s i s' o Wi G E) as (_ & _ & _ & _ & _ & St' & It' & _).
    apply (IH s'); try assumption; congruence.
  - pose proof (step_alive s i s' o Wi St G It E N1) as F.
    apply (IH s'); try assumption; [exact (saf_stuck _ _ _ _ F)|exact (saf_items _ _ _ _ F)].
Qed.

(* ---- 6e. without the no-overflow hypothesis the statement is false ------------------- *)

Definition ty_x : bytes := [95;120;46;95;116;99;112;46;108;111;99;97;108;46].    (* _x._tcp.local. *)
Definition stuck_history : list stepin :=
  [ mkIn [] [CBrowse ty_x false] [];                 (* channel 0 *)
    mkIn [(ty_x, 10)] [CShutdown; CStatus] [];       (* channels 1, 2: ten ServiceFound, then shutdown *)
    mkIn [] [CStatus; CMetrics] [] ].                (* channels 3, 4 *)

(* the shutdown call and every later call return Ok, yet nothing is ever read from their
   reply channels, and the daemon never ends: the clean-up blocks on the full listener *)
Theorem every_call_resolves_refuted :
  wf_hist stuck_history
  /\ never_stuck (run stuck_history) = false
  /\ chk_C14 stuck_history (run stuck_history) = false
  /\ map so_results (run stuck_history) = [[ROk]; [ROk; ROk]; [ROk; ROk]]
  /\ Forall (fun o => so_exited o = false
                      /\ evs_of 1 (so_events o) = [] /\ evs_of 2 (so_events o) = []
                      /\ evs_of 3 (so_events o) = [] /\ evs_of 4 (so_events o) = []) (run stuck_history).
Proof.
  split; [repeat constructor|]. repeat split; try (vm_compute; reflexivity).
  vm_compute. repeat constructor.
Qed.

Lemma params_pinned_c14 : cmd_queue_bound = 100 /\ browse_listener_bound = 10 /\ resolver_listener_bound = 10.
Proof. repeat split; reflexivity. Qed.
