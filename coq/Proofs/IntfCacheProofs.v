(* Proofs about the interface-related cache operations (C18): full functional statements of
   remove_records_on_intf and remove_addrs_on_disabled_intf over the list-based cache model. *)
From Coq Require Import List NArith Bool Lia.
From Mdns Require Import Bytes Rec IntfCache.
Import ListNotations.
Open Scope N_scope.

(* record r is stored under key k *)
Definition In_table (t : table) (k : bytes) (r : crec) : Prop := exists v, In (k, v) t /\ In r v.

(* ---- strip / prune ---------------------------------------------------------------------------- *)

Lemma in_prune t k v : In (k, v) (prune t) <-> In (k, v) t /\ v <> [].
Proof.
  unfold prune. rewrite filter_In. simpl. split; intros [H1 H2]; split; auto.
  - destruct v; [discriminate|discriminate].
  - destruct v; [congruence|reflexivity].
Qed.

Lemma in_strip id t k v' :
  In (k, v') (strip id t) <-> exists v, In (k, v) t /\ v' = filter (fun r => negb (on_intf id r)) v.
Proof.
  unfold strip. rewrite in_map_iff. split.
  - intros [[k0 v] [H1 H2]]. simpl in H1. inversion H1; subst. exists v. auto.
  - intros [v [H1 H2]]. exists (k, v). simpl. subst. auto.
Qed.

Lemma In_table_prune_strip id t k r :
  In_table (prune (strip id t)) k r <-> In_table t k r /\ on_intf id r = false.
Proof.
  unfold In_table. split.
  - intros [v' [H1 H2]]. apply in_prune in H1 as [H1 _]. apply in_strip in H1 as [v [H1 ->]].
    apply filter_In in H2 as [H2 H3]. apply negb_true_iff in H3. split; [exists v; auto|exact H3].
  - intros [[v [H1 H2]] H3]. exists (filter (fun r => negb (on_intf id r)) v).
    assert (Hin : In r (filter (fun r => negb (on_intf id r)) v)).
    { apply filter_In. rewrite H3. auto. }
    split; [|exact Hin]. apply in_prune. split; [apply in_strip; exists v; auto|].
    intros E. rewrite E in Hin. exact Hin.
Qed.

Lemma prune_no_empty t k v : In (k, v) (prune t) -> v <> [].
Proof. intros H. apply in_prune in H. tauto. Qed.

(* ---- small sets -------------------------------------------------------------------------------- *)

Lemma in_add_set x y l : In y (add_set x l) <-> y = x \/ In y l.
Proof.
  unfold add_set. destruct (mem x l) eqn:E.
  - apply mem_In in E. split; [auto|]. intros [->|H]; auto.
  - rewrite in_app_iff. simpl. split; [intros [H|[H|[]]]; auto|intros [->|H]; auto].
Qed.

Lemma in_union_set a b x : In x (union_set a b) <-> In x a \/ In x b.
Proof.
  unfold union_set. revert a. induction b as [|y b IH]; intros a; simpl.
  - tauto.
  - rewrite IH, in_add_set. split; [intros [[->|H]|H]|intros [H|[->|H]]]; auto.
Qed.

Lemma in_touched id t k :
  In k (touched id t) <-> exists v, In (k, v) t /\ existsb (on_intf id) v = true.
Proof.
  unfold touched. rewrite in_map_iff. split.
  - intros [[k0 v] [H1 H2]]. simpl in H1. subst. apply filter_In in H2 as [H2 H3]. exists v. auto.
  - intros [v [H1 H2]]. exists (k, v). split; [reflexivity|]. apply filter_In. auto.
Qed.

(* ---- the PTR part ------------------------------------------------------------------------------ *)

Lemma in_instances_on_intf id records inst :
  In inst (instances_on_intf id records) <->
  exists r, In r records /\ on_intf id r = true /\ alias_of r = Some inst.
Proof.
  unfold instances_on_intf.
  assert (G : forall acc,
    In inst (fold_left (fun acc r => if on_intf id r then match alias_of r with Some a => add_set a acc | None => acc end else acc)
                       records acc)
    <-> In inst acc \/ exists r, In r records /\ on_intf id r = true /\ alias_of r = Some inst).
  { induction records as [|r records IH]; intros acc; simpl.
    - split; [auto|]. intros [H|[r [[] _]]]. exact H.
    - rewrite IH. destruct (on_intf id r) eqn:Eo.
      + destruct (alias_of r) as [a|] eqn:Ea.
        * rewrite in_add_set. split.
          -- intros [[->|H]|[r' [H1 H2]]]; [right; exists r; auto|auto|right; exists r'; auto].
          -- intros [H|[r' [[->|H1] [H2 H3]]]]; [auto| |right; exists r'; auto].
             rewrite Ea in H3. inversion H3. auto.
        * split.
          -- intros [H|[r' [H1 H2]]]; [auto|right; exists r'; auto].
          -- intros [H|[r' [[->|H1] [H2 H3]]]]; [auto|congruence|right; exists r'; auto].
      + split.
        * intros [H|[r' [H1 H2]]]; [auto|right; exists r'; auto].
        * intros [H|[r' [[->|H1] [H2 H3]]]]; [auto|congruence|right; exists r'; auto]. }
  rewrite G. simpl. tauto.
Qed.

Lemma has_alias_false records inst :
  has_alias records inst = false <-> forall r, In r records -> alias_of r <> Some inst.
Proof.
  unfold has_alias. split.
  - intros H r Hr Ha. assert (existsb (fun r => match alias_of r with Some a => beq a inst | None => false end) records = true); [|congruence].
    apply existsb_exists. exists r. rewrite Ha, beq_refl. auto.
  - intros H. destruct (existsb _ records) eqn:E; [|reflexivity].
    apply existsb_exists in E as [r [Hr Hb]]. destruct (alias_of r) as [a|] eqn:Ea; [|discriminate].
    apply beq_eq in Hb. subst. exfalso. exact (H r Hr Ea).
Qed.

(* an instance is reported removed under a type iff it had a PTR learned on the interface and
   no PTR of that type for it was learned anywhere else *)
Lemma in_removed_of id records inst :
  In inst (removed_of id records) <->
  (exists r, In r records /\ on_intf id r = true /\ alias_of r = Some inst) /\
  (forall r, In r records -> alias_of r = Some inst -> on_intf id r = true).
Proof.
  unfold removed_of. rewrite filter_In, in_instances_on_intf, negb_true_iff, has_alias_false.
  split; intros [H1 H2]; split; auto.
  - intros r Hr Ha. destruct (on_intf id r) eqn:Eo; [reflexivity|].
    exfalso. apply (H2 r); [apply filter_In; rewrite Eo; auto|exact Ha].
  - intros r Hr Ha. apply filter_In in Hr as [Hr Ho]. apply negb_true_iff in Ho.
    rewrite (H2 r Hr Ha) in Ho. discriminate.
Qed.

(* ---- intf_removal_spec ------------------------------------------------------------------------- *)

Definition removed_set (c : cache) (id : intf_id) : list bytes :=
  concat (map snd (rm_removed (remove_records_on_intf c id))).

(* (1) which instances are reported removed, per type *)
Theorem removal_reports_removed c id ty inst :
  (exists l, In (ty, l) (rm_removed (remove_records_on_intf c id)) /\ In inst l) <->
  exists records, In (ty, records) (c_ptr c) /\
    (exists r, In r records /\ on_intf id r = true /\ alias_of r = Some inst) /\
    (forall r, In r records -> alias_of r = Some inst -> on_intf id r = true).
Proof.
  unfold remove_records_on_intf. cbn [rm_removed]. split.
  - intros [l [H1 H2]]. apply filter_In in H1 as [H1 _]. apply in_map_iff in H1 as [[k v] [E Hin]].
    simpl in E. inversion E; subst. exists v. split; [exact Hin|]. apply in_removed_of. exact H2.
  - intros [records [H1 H2]]. exists (removed_of id records).
    assert (Hin : In inst (removed_of id records)) by (apply in_removed_of; exact H2).
    split; [|exact Hin]. apply filter_In. split.
    + apply in_map_iff. exists (ty, records). auto.
    + simpl. destruct (removed_of id records); [destruct Hin|reflexivity].
Qed.

Lemma in_removed_set c id inst :
  In inst (removed_set c id) <->
  exists ty l, In (ty, l) (rm_removed (remove_records_on_intf c id)) /\ In inst l.
Proof.
  unfold removed_set. rewrite in_concat. split.
  - intros [l [H1 H2]]. apply in_map_iff in H1 as [[ty l'] [E H1]]. simpl in E. subst. exists ty, l. auto.
  - intros [ty [l [H1 H2]]]. exists l. split; [|exact H2]. apply in_map_iff. exists (ty, l). auto.
Qed.

(* (2) what is left in the cache: everything learned on the interface is gone; nothing else is,
   except the SRV and TXT records of the instances reported removed; no empty entries remain *)
Theorem removal_cache_contents c id :
  let c' := rm_cache (remove_records_on_intf c id) in
  (forall k r, In_table (c_ptr c') k r <-> In_table (c_ptr c) k r /\ on_intf id r = false) /\
  (forall k r, In_table (c_srv c') k r <->
               In_table (c_srv c) k r /\ on_intf id r = false /\ mem k (removed_set c id) = false) /\
  (forall k r, In_table (c_txt c') k r <->
               In_table (c_txt c) k r /\ on_intf id r = false /\ mem k (removed_set c id) = false) /\
  (forall k r, In_table (c_addr c') k r <-> In_table (c_addr c) k r /\ on_intf id r = false) /\
  (forall k r, In_table (c_nsec c') k r <-> In_table (c_nsec c) k r /\ on_intf id r = false) /\
  (forall k v, In (k, v) (c_ptr c') \/ In (k, v) (c_srv c') \/ In (k, v) (c_txt c') \/
               In (k, v) (c_addr c') \/ In (k, v) (c_nsec c') -> v <> []).
Proof.
  cbv zeta. unfold removed_set. unfold remove_records_on_intf. cbn [rm_cache rm_removed c_ptr c_srv c_txt c_addr c_nsec].
  set (removed := filter _ (map _ (c_ptr c))).
  assert (Hf : forall t k r,
    In_table (prune (strip id (filter (fun kv => negb (mem (fst kv) (concat (map snd removed)))) t))) k r
    <-> In_table t k r /\ on_intf id r = false /\ mem k (concat (map snd removed)) = false).
  { intros t k r. rewrite In_table_prune_strip. unfold In_table. split.
    - intros [[v [H1 H2]] H3]. apply filter_In in H1 as [H1 H4]. simpl in H4. apply negb_true_iff in H4.
      split; [exists v; auto|auto].
    - intros [[v [H1 H2]] [H3 H4]]. split; [|exact H3]. exists v. split; [|exact H2].
      apply filter_In. simpl. rewrite H4. auto. }
  split; [|split; [|split; [|split; [|split]]]].
  - intros k r. apply In_table_prune_strip.
  - intros k r. apply Hf.
  - intros k r. apply Hf.
  - intros k r. apply In_table_prune_strip.
  - intros k r. apply In_table_prune_strip.
  - intros k v [H|[H|[H|[H|H]]]]; eapply prune_no_empty; exact H.
Qed.

(* (3) which instances are reported modified (to be resolved again with what is left): those not
   reported removed that lost an SRV or TXT record learned on the interface, and those whose
   remaining SRV record points to a host that lost an address record learned on the interface *)
Theorem removal_reports_modified c id inst :
  let rmv := remove_records_on_intf c id in
  In inst (rm_modified rmv) <->
  (mem inst (removed_set c id) = false /\
   exists v, (In (inst, v) (c_srv c) \/ In (inst, v) (c_txt c)) /\ existsb (on_intf id) v = true)
  \/ (exists v r h, In (inst, v) (c_srv (rm_cache rmv)) /\ In r v /\ srv_host_of r = Some h /\
                    exists w, In (lower h, w) (c_addr c) /\ existsb (on_intf id) w = true).
Proof.
  cbv zeta. unfold removed_set. unfold remove_records_on_intf. cbn [rm_cache rm_removed rm_modified c_srv].
  set (removed := filter _ (map _ (c_ptr c))).
  set (gone := concat (map snd removed)).
  rewrite !in_union_set, !in_touched. split.
  - intros [[H|H]|H].
    + left. destruct H as [v [H1 H2]]. apply filter_In in H1 as [H1 H3]. simpl in H3.
      apply negb_true_iff in H3. split; [exact H3|]. exists v. auto.
    + left. destruct H as [v [H1 H2]]. apply filter_In in H1 as [H1 H3]. simpl in H3.
      apply negb_true_iff in H3. split; [exact H3|]. exists v. auto.
    + right. apply in_map_iff in H as [[k v] [E H]]. simpl in E. subst k.
      apply filter_In in H as [H1 H2]. simpl in H2. apply existsb_exists in H2 as [r [Hr Hh]].
      destruct (srv_host_of r) as [h|] eqn:Eh; [|discriminate].
      apply mem_In in Hh. apply in_touched in Hh as [w [Hw1 Hw2]].
      exists v, r, h. repeat split; auto. exists w. auto.
  - intros [[Hg [v [[H|H] Ho]]]|[v [r [h [H1 [H2 [H3 [w [H4 H5]]]]]]]]].
    + left. left. exists v. split; [|exact Ho]. apply filter_In. simpl. rewrite Hg. auto.
    + left. right. exists v. split; [|exact Ho]. apply filter_In. simpl. rewrite Hg. auto.
    + right. apply in_map_iff. exists (inst, v). split; [reflexivity|]. apply filter_In. split; [exact H1|].
      simpl. apply existsb_exists. exists r. split; [exact H2|]. rewrite H3.
      apply mem_In. apply in_touched. exists w. auto.
Qed.

(* ---- remove_addrs_on_disabled_intf ------------------------------------------------------------- *)

Theorem disabled_family_addresses_dropped c idx t :
  let c' := remove_addrs_on_disabled_intf c idx t in
  c_ptr c' = c_ptr c /\ c_srv c' = c_srv c /\ c_txt c' = c_txt c /\ c_nsec c' = c_nsec c /\
  map fst (c_addr c') = map fst (c_addr c) /\
  forall k r, In_table (c_addr c') k r <->
              In_table (c_addr c) k r /\
              ((ii_index (c_src r) =? idx) && type_in t (r_type (c_rr r))) = false.
Proof.
  cbv zeta. unfold remove_addrs_on_disabled_intf. cbn [c_ptr c_srv c_txt c_addr c_nsec].
  repeat split; try reflexivity.
  - rewrite map_map. reflexivity.
  - destruct H as [v' [H1 H2]]. apply in_map_iff in H1 as [[k0 v] [E H1]]. simpl in E. inversion E; subst.
    apply filter_In in H2 as [H2 _]. exists v. auto.
  - destruct H as [v' [H1 H2]]. apply in_map_iff in H1 as [[k0 v] [E H1]]. simpl in E. inversion E; subst.
    apply filter_In in H2 as [_ H2]. apply negb_true_iff in H2. exact H2.
  - intros [[v [H1 H2]] H3]. exists (filter (fun r => negb ((ii_index (c_src r) =? idx) && type_in t (r_type (c_rr r)))) v).
    split.
    + apply in_map_iff. exists (k, v). auto.
    + apply filter_In. rewrite H3. auto.
Qed.

(* a record that is received again on another interface keeps the interface it was first
   learned on (PTR / SRV / TXT: DnsRecordExt::matches ignores the interface) *)
Theorem insert_keeps_first_attribution r src records a :
  In a records -> crec_matches a r src = true -> insert_rec r src records = records.
Proof.
  intros Hin Hm. unfold insert_rec.
  assert (E : existsb (fun a => crec_matches a r src) records = true)
    by (apply existsb_exists; exists a; auto).
  rewrite E. reflexivity.
Qed.
