(* RFC 6763 escaping: the instance label a service is registered with survives
   escape_instance_name (src/service_info.rs) followed by the encoder's escape-aware label
   split (DnsOutPacket::parse_escaped_name), for every byte string. *)
From Coq Require Import List NArith Bool Lia Arith.
From Mdns Require Import Res Bytes WireOut.
Import ListNotations.
Open Scope N_scope.

(* escape_instance_name is WireOut.escape_label: '.' -> '\.', '\' -> '\\' *)

Lemma pen_escape_label : forall l s cur acc,
  pen (escape_label l ++ s) cur acc = pen s (cur ++ l) acc.
Proof.
  induction l as [|c l IH]; intros s cur acc.
  - simpl. rewrite app_nil_r. reflexivity.
  - unfold escape_label in *. cbn [flat_map].
    destruct ((c =? DOT) || (c =? BSL)) eqn:E.
    + cbn [app pen]. rewrite N.eqb_refl. rewrite E.
      rewrite IH. rewrite <- app_assoc. reflexivity.
    + cbn [app pen].
      apply orb_false_iff in E as [E1 E2].
      rewrite E2, E1. rewrite IH. rewrite <- app_assoc. reflexivity.
Qed.

(* the accumulator of finished labels only ever grows at its front *)
Lemma pen_acc_len : forall n s cur acc, (length s <= n)%nat ->
  pen s cur acc = rev acc ++ pen s cur [].
Proof.
  induction n as [|n IH]; intros s cur acc Hn.
  - destruct s; [|simpl in Hn; lia].
    cbn [pen]. destruct cur; simpl; [rewrite app_nil_r; reflexivity|reflexivity].
  - destruct s as [|c t].
    + cbn [pen]. destruct cur; simpl; [rewrite app_nil_r; reflexivity|reflexivity].
    + simpl in Hn. cbn [pen]. destruct (c =? BSL).
      * destruct t as [|m t'].
        -- apply IH. simpl; lia.
        -- destruct ((m =? DOT) || (m =? BSL)).
           ++ apply IH. simpl in Hn. lia.
           ++ apply IH. lia.
      * destruct (c =? DOT).
        -- rewrite (IH t [] (push_label cur acc)) by lia.
           rewrite (IH t [] (push_label cur [])) by lia.
           destruct cur; simpl; [reflexivity|]. rewrite <- app_assoc. reflexivity.
        -- apply IH. lia.
Qed.

Lemma pen_acc s cur acc : pen s cur acc = rev acc ++ pen s cur [].
Proof. apply (pen_acc_len (length s)). lia. Qed.

(* Main statement: for any instance label l (non-empty, any bytes - dots and backslashes
   included) and any rest r (e.g. "_ipp._tcp.local"), the escape-aware split of
   escape(l) ++ "." ++ r is l followed by the split of r. *)
Theorem escape_then_split : forall l r, l <> [] ->
  parse_escaped_name (escape_label l ++ DOT :: r) = l :: parse_escaped_name r.
Proof.
  intros l r Hl. unfold parse_escaped_name.
  rewrite pen_escape_label. cbn [app pen].
  replace (DOT =? BSL) with false by reflexivity. rewrite N.eqb_refl.
  destruct l as [|x l']; [congruence|]. cbn [push_label].
  rewrite pen_acc. reflexivity.
Qed.

(* ... and with the full name as ServiceInfo::new builds it, "<escaped>.<ty_domain>" where
   ty_domain ends with a dot (stripped by write_name before splitting). *)
Lemma strip_dot_app_dot s : strip_dot (s ++ [DOT]) = s.
Proof.
  unfold strip_dot. rewrite rev_app_distr. cbn [rev app]. rewrite N.eqb_refl. apply rev_involutive.
Qed.

Theorem fullname_labels : forall l ty, l <> [] ->
  name_labels (escape_label l ++ DOT :: ty ++ [DOT]) = l :: name_labels (ty ++ [DOT]).
Proof.
  intros l ty Hl. unfold name_labels.
  replace (escape_label l ++ DOT :: ty ++ [DOT]) with ((escape_label l ++ DOT :: ty) ++ [DOT])
    by (rewrite <- app_assoc; reflexivity).
  rewrite !strip_dot_app_dot. apply escape_then_split. exact Hl.
Qed.
