(* C18, "nothing outlives its removal": after an IP check of the daemon model no cached record is
   attributed to an interface the check removed - for every state, hence in every history. *)
From Coq Require Import List NArith Bool Lia.
From Mdns Require Import Res Bytes Rec Intf IntfCache Responder IntfDaemon IntfProofs IntfCacheProofs
     IntfDaemonProofs.
Import ListNotations.
Open Scope N_scope.

Definition in_cache (c : cache) (k : bytes) (r : crec) : Prop :=
  In_table (c_ptr c) k r \/ In_table (c_srv c) k r \/ In_table (c_txt c) k r \/
  In_table (c_addr c) k r \/ In_table (c_nsec c) k r.

(* no record of the cache is attributed to the interface *)
Definition no_src (c : cache) (id : intf_id) : Prop := forall k r, in_cache c k r -> on_intf id r = false.
Definition sub_cache (c' c : cache) : Prop := forall k r, in_cache c' k r -> in_cache c k r.

Lemma sub_cache_refl c : sub_cache c c. Proof. intros k r H. exact H. Qed.
Lemma sub_cache_trans a b c : sub_cache a b -> sub_cache b c -> sub_cache a c.
Proof. intros H1 H2 k r H. apply H2. apply H1. exact H. Qed.
Lemma sub_no_src c' c id : sub_cache c' c -> no_src c id -> no_src c' id.
Proof. intros Hs Hn k r H. apply (Hn k). apply Hs. exact H. Qed.

Lemma remove_records_facts c id :
  no_src (rm_cache (remove_records_on_intf c id)) id /\ sub_cache (rm_cache (remove_records_on_intf c id)) c.
Proof.
  pose proof (removal_cache_contents c id) as H. cbv zeta in H. destruct H as (H1 & H2 & H3 & H4 & H5 & _).
  split.
  - intros k r [H|[H|[H|[H|H]]]].
    + apply H1 in H. tauto.
    + apply H2 in H. tauto.
    + apply H3 in H. tauto.
    + apply H4 in H. tauto.
    + apply H5 in H. tauto.
  - intros k r [H|[H|[H|[H|H]]]]; unfold in_cache.
    + apply H1 in H. tauto.
    + apply H2 in H. tauto.
    + apply H3 in H. tauto.
    + apply H4 in H. tauto.
    + apply H5 in H. tauto.
Qed.

Lemma disabled_sub c idx t : sub_cache (remove_addrs_on_disabled_intf c idx t) c.
Proof.
  pose proof (disabled_family_addresses_dropped c idx t) as H. cbv zeta in H.
  destruct H as (H1 & H2 & H3 & H4 & _ & H6).
  intros k r [H|[H|[H|[H|H]]]]; unfold in_cache.
  - rewrite H1 in H. auto.
  - rewrite H2 in H. auto.
  - rewrite H3 in H. auto.
  - apply H6 in H. tauto.
  - rewrite H4 in H. auto.
Qed.

Lemma resolve_updated_cache d u : d_cache (fst (resolve_updated d u)) = d_cache d.
Proof. unfold resolve_updated. destruct (fold_left _ _ ([], [], [])) as [[a b] o]. reflexivity. Qed.

Lemma add_interface_cache now d i : d_cache (fst (add_interface now d i)) = d_cache d.
Proof.
  unfold add_interface.
  destruct (match intf_get (i_index i) (d_intfs d) with Some m => _ | None => _ end) as [intfs' new_addr].
  destruct (negb new_addr); [reflexivity|]. destruct (intf_get (i_index i) intfs'); [|reflexivity].
  destruct (fold_left _ _ ([], [], [])) as [[a b] o]. reflexivity.
Qed.

Lemma del_interface_addr_cache d i : sub_cache (d_cache (fst (del_interface_addr d i))) (d_cache d).
Proof.
  unfold del_interface_addr. destruct (intf_get (i_index i) (d_intfs d)) as [m|]; [|apply sub_cache_refl].
  destruct (has_ifaddr _ _); [|apply sub_cache_refl].
  destruct (is_nil _).
  - destruct (holds_ip _ _); simpl; apply disabled_sub.
  - destruct (negb (family_enabled _ _)); destruct (holds_ip _ _); simpl;
      first [apply disabled_sub|apply sub_cache_refl].
Qed.

Lemma apply_cache now tbl : forall d, sub_cache (d_cache (fst (apply_intf_selections now d tbl))) (d_cache d).
Proof.
  intros d. unfold apply_intf_selections. generalize (selection_marks ParamsResponder.apply_selection_default (d_sels d) tbl).
  intros marks. generalize (@nil obs). revert d marks.
  induction tbl as [|e tbl IH]; intros d marks out; simpl; [apply sub_cache_refl|].
  destruct marks as [|mk marks]; simpl; [apply sub_cache_refl|].
  destruct mk.
  - destruct (add_interface now d e) as [st' o] eqn:Ea. eapply sub_cache_trans; [apply IH|].
    pose proof (add_interface_cache now d e) as H. rewrite Ea in H. simpl in H. rewrite H. apply sub_cache_refl.
  - destruct (del_interface_addr d e) as [st' o] eqn:Ea. eapply sub_cache_trans; [apply IH|].
    pose proof (del_interface_addr_cache d e) as H. rewrite Ea in H. exact H.
Qed.

(* the interfaces an IP check removes: held, and none of their addresses is reported any more *)
Definition gone (d : dstate) (m : myintf) : Prop :=
  In m (d_intfs d) /\ forall a, In a (mi_addrs m) -> os_has (d_os d) (mi_index m) a = false.

Theorem check_forgets_removed_interfaces now d m : gone d m ->
  no_src (d_cache (fst (check_ip_changes now d))) (mkIntfId (mi_name m) (mi_index m)).
Proof.
  intros [Hin Hgone]. unfold check_ip_changes.
  set (tbl := d_os d).
  set (kept := map _ (d_intfs d)).
  set (deleted_ips := filter _ (flat_map _ (d_intfs d))).
  set (deleted_intfs := filter _ kept).
  set (d1 := set_intfs kept (d_regs d) d).
  set (d2 := fold_left _ deleted_ips d1).
  set (m0 := mkMyIntf (mi_name m) (mi_index m) (filter (fun a => os_has tbl (mi_index m) a) (mi_addrs m))).
  assert (Hdel : In m0 deleted_intfs).
  { subst deleted_intfs. apply filter_In. split.
    - subst kept. apply in_map_iff. exists m. split; [reflexivity|exact Hin].
    - subst m0. simpl. assert (E : filter (fun a => os_has tbl (mi_index m) a) (mi_addrs m) = []); [|rewrite E; reflexivity].
      clear -Hgone. subst tbl. induction (mi_addrs m) as [|a l IH]; simpl; [reflexivity|].
      rewrite (Hgone a (or_introl eq_refl)). apply IH. intros x Hx. apply Hgone. right. exact Hx. }
  match goal with |- context [fold_left ?f deleted_intfs (d2, [])] => set (step := f) end.
  (* every step shrinks the cache; the step of an interface removes what was learned on it *)
  assert (Hstep : forall acc x, sub_cache (d_cache (fst (step acc x))) (d_cache (fst acc)) /\
                                no_src (d_cache (fst (step acc x))) (mkIntfId (mi_name x) (mi_index x))).
  { intros [st out] x. subst step. cbv beta iota. simpl fst.
    match goal with |- context [resolve_updated ?st2 ?u] =>
      pose proof (resolve_updated_cache st2 u) as Hc; destruct (resolve_updated st2 u) as [st3 ev2] end.
    simpl in Hc. simpl fst. rewrite Hc. simpl.
    destruct (remove_records_facts (d_cache st) (mkIntfId (mi_name x) (mi_index x))) as [H1 H2]. auto. }
  assert (G : forall l acc, sub_cache (d_cache (fst (fold_left step l acc))) (d_cache (fst acc)) /\
              (In m0 l -> no_src (d_cache (fst (fold_left step l acc))) (mkIntfId (mi_name m) (mi_index m)))).
  { induction l as [|x l IH]; intros acc; simpl; [split; [apply sub_cache_refl|tauto]|].
    destruct (IH (step acc x)) as [I1 I2]. destruct (Hstep acc x) as [S1 S2]. split.
    - eapply sub_cache_trans; eassumption.
    - intros [E|Hl]; [|apply I2; exact Hl]. subst x. eapply sub_no_src; [exact I1|exact S2]. }
  destruct (G deleted_intfs (d2, [])) as [_ G2]. specialize (G2 Hdel).
  destruct (fold_left step deleted_intfs (d2, [])) as [d3 ev_cache]. simpl in G2.
  pose proof (apply_cache now tbl d3) as Ha.
  destruct (apply_intf_selections now d3 tbl) as [d4 ev_apply]. simpl in *.
  eapply sub_no_src; eassumption.
Qed.
