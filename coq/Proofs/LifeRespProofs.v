(* Responder side of C10: the answer assembly of the code (Model/LifeResp.v: resp_predict)
   against the property text (resp_spec). *)
From Coq Require Import List NArith Bool Lia.
From Mdns Require Import Res Bytes Rec ParamsLife Life LifeSpec LifeProofs LifeResp.
Import ListNotations.
Open Scope N_scope.

Definition cand_wf (c : cand) : Prop := cd_is_ptr c = false -> cd_has_addrs c = true.

Lemma question_cands_wf svcs q : Forall cand_wf (question_cands svcs q).
Proof.
  destruct q as [qname qtype]. unfold question_cands.
  destruct (qtype =? TY_PTR).
  - unfold ptr_cands. apply Forall_forall. intros c Hc. apply in_flat_map in Hc as (s & _ & Hc).
    destruct (names_type_or_sub qname s); [|contradiction]. destruct Hc as [<-|[]]. intros H; discriminate H.
  - apply Forall_app. split.
    + unfold addr_cands. destruct (_ || _); [|constructor].
      apply Forall_forall. intros c Hc. apply in_flat_map in Hc as (s & _ & Hc).
      destruct (beq _ _); [|contradiction]. apply in_map_iff in Hc as (a & <- & _). intros _; reflexivity.
    + unfold inst_cands. destruct (find_svc qname svcs); [|constructor].
      destruct (no_addrs s); [constructor|].
      apply Forall_app. split.
      * destruct (_ || _); [|constructor]. constructor; [intros _; reflexivity|constructor].
      * destruct (_ || _); [|constructor]. constructor; [intros _; reflexivity|constructor].
Qed.

Lemma cands_wf svcs qs : Forall cand_wf (flat_map (question_cands svcs) qs).
Proof.
  induction qs as [|q qs IH]; simpl; [constructor|].
  apply Forall_app. split; [apply question_cands_wf | exact IH].
Qed.

(* the code's two answer paths do what the property text says *)
Lemma suppressed_by_is_spec a kas : suppressed_by (o_id a) (o_ttl a) kas = suppressed_spec a kas.
Proof.
  unfold suppressed_by, suppressed_spec. induction kas as [|k kas IH]; [reflexivity|].
  simpl. rewrite IH, suppress_eq_spec. reflexivity.
Qed.

Lemma step_code_eq kas out c : cand_wf c -> step_code kas out c = step_spec kas out c.
Proof.
  intros Hwf. unfold step_code, step_spec. rewrite <- suppressed_by_is_spec.
  destruct (cd_is_ptr c) eqn:Ep.
  - unfold add_answer_with_additionals, add_answer.
    destruct (cd_has_addrs c); simpl; [|reflexivity].
    destruct (suppressed_by _ _ _); simpl; reflexivity.
  - rewrite (Hwf Ep). simpl. unfold add_answer.
    destruct (suppressed_by _ _ _); simpl; reflexivity.
Qed.

Lemma fold_left_ext_in {A B} (f g : A -> B -> A) l : forall a,
  Forall (fun x => forall a, f a x = g a x) l -> fold_left f l a = fold_left g l a.
Proof.
  induction l as [|x l IH]; intros a H; [reflexivity|].
  inversion H; subst. simpl. rewrite H2. apply IH. assumption.
Qed.

(* for every set of services, every question list and every known-answer list the daemon's
   response is the one the property prescribes *)
Lemma resp_is_text svcs qs kas : resp_predict svcs qs kas = resp_spec svcs qs kas.
Proof.
  unfold resp_predict, resp_spec. f_equal. apply fold_left_ext_in.
  eapply Forall_impl; [|apply cands_wf]. intros c Hc a. apply step_code_eq. exact Hc.
Qed.

(* a suppressed answer leaves nothing behind: whatever the step does when the answer is
   suppressed, the additionals are unchanged *)
Lemma suppressed_brings_nothing kas out c :
  suppressed_spec (cd_answer c) kas = true ->
  out_answers (step_spec kas out c) = out_answers out /\
  out_additionals (step_spec kas out c) = out_additionals out.
Proof.
  intros H. unfold step_spec. destruct (negb (cd_has_addrs c)); [split; reflexivity|].
  rewrite H. split; reflexivity.
Qed.

Lemma unsuppressed_brings_all kas out c :
  cd_has_addrs c = true -> suppressed_spec (cd_answer c) kas = false ->
  out_answers (step_spec kas out c) = out_answers out ++ [cd_answer c] /\
  out_additionals (step_spec kas out c) = out_additionals out ++ cd_adds c.
Proof.
  intros Ha H. unfold step_spec. rewrite Ha, H. split; reflexivity.
Qed.

(* ---- examples ---- *)
Definition ex_name : bytes := [105; 46].      (* "i." *)
Definition ex_host : bytes := [104; 46].      (* "h." *)
Definition ex_ty : bytes := [116; 46].        (* "t." *)
Definition ex_sub : bytes := [115; 46; 116; 46].   (* "s.t." *)
Definition ex_svc : svc :=
  mkSvc (mkO (mkId ex_ty TY_PTR 1 false (RPtr ex_name) 2) 4500)
        (Some (mkO (mkId ex_sub TY_PTR 1 false (RPtr ex_name) 2) 4500))
        (mkO (mkId ex_name TY_SRV 1 true (RSrv 0 0 80 ex_host) 2) 120)
        (mkO (mkId ex_name TY_TXT 1 true (RTxt [0]) 2) 4500)
        [mkO (mkId ex_host TY_A 1 true (RAddr [10; 0; 0; 1]) 2) 120].

(* SRV + TXT asked, SRV listed WITHOUT the cache-flush bit (the form RFC 6762 10.2 prescribes),
   TTL 100 > 60: the SRV answer and the address it would have brought are left out *)
Lemma resp_srv_example :
  resp_predict [ex_svc] [(ex_name, TY_SRV); (ex_name, TY_TXT)]
    [(mkId ex_name TY_SRV 1 false (RSrv 0 0 80 ex_host) 2, 100)] = Some ([sv_txt ex_svc], []).
Proof. vm_compute. reflexivity. Qed.

(* type PTR + TXT asked, the PTR listed above half: TXT is answered, the suppressed PTR brings
   no additional at all - not even the subtype PTR *)
Lemma resp_ptr_suppressed_example :
  resp_predict [ex_svc] [(ex_ty, TY_PTR); (ex_name, TY_TXT)] [(o_id (sv_ptr ex_svc), 2251)]
  = Some ([sv_txt ex_svc], []) /\
  resp_predict [ex_svc] [(ex_ty, TY_PTR)] [(o_id (sv_ptr ex_svc), 2251)] = None /\
  resp_predict [ex_svc] [(ex_ty, TY_PTR)] [(o_id (sv_ptr ex_svc), 2250)]
  = Some ([sv_ptr ex_svc], sub_list ex_svc ++ [sv_srv ex_svc; sv_txt ex_svc] ++ sv_addrs ex_svc).
Proof. repeat split; vm_compute; reflexivity. Qed.
