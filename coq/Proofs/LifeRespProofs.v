(* Responder side of C10: the answer assembly of the code (Model/LifeResp.v: resp_predict)
   against the property text (resp_spec). *)
From Coq Require Import List NArith Bool Lia.
From Mdns Require Import Res Bytes Rec ParamsLife Life LifeSpec LifeProofs LifeResp.
Import ListNotations.
Open Scope N_scope.

Definition cand_wf (c : cand) : Prop := cd_is_ptr c = false -> cd_has_addrs c = true.

Lemma question_cands_wf svcs q : Forall cand_wf (question_cands svcs q).
Proof.
  destruct q as [qname qtype]. unfold question_cands.
  destruct (qtype =? TY_PTR).
  - unfold ptr_cands. apply Forall_forall. intros c Hc. apply in_flat_map in Hc as (s & _ & Hc).
    destruct (beq qname _); [|contradiction]. destruct Hc as [<-|[]]. intros H; discriminate H.
  - apply Forall_app. split.
    + unfold addr_cands. destruct (_ || _); [|constructor].
      apply Forall_forall. intros c Hc. apply in_flat_map in Hc as (s & _ & Hc).
      destruct (beq _ _); [|contradiction]. apply in_map_iff in Hc as (a & <- & _). intros _; reflexivity.
    + unfold inst_cands. destruct (find_svc qname svcs); [|constructor].
      destruct (no_addrs s); [constructor|].
      apply Forall_app. split.
      * destruct (_ || _); [|constructor]. constructor; [intros _; reflexivity|constructor].
      * destruct (_ || _); [|constructor]. constructor; [intros _; reflexivity|constructor].
Qed.

Lemma cands_wf svcs qs : Forall cand_wf (flat_map (question_cands svcs) qs).
Proof.
  induction qs as [|q qs IH]; simpl; [constructor|].
  apply Forall_app. split; [apply question_cands_wf | exact IH].
Qed.

(* the code's two answer paths are step_gen with both switches on *)
Lemma step_code_eq kas out c : cand_wf c -> step_code kas out c = step_gen true true kas out c.
Proof.
  intros Hwf. unfold step_code, step_gen, suppressed_gen.
  destruct (cd_is_ptr c) eqn:Ep.
  - unfold add_answer_with_additionals, add_answer.
    destruct (cd_has_addrs c); simpl; [|reflexivity].
    destruct (suppressed_by _ _ _); simpl; reflexivity.
  - rewrite (Hwf Ep). simpl. unfold add_answer.
    destruct (suppressed_by _ _ _); simpl; reflexivity.
Qed.

Lemma fold_left_ext_in {A B} (f g : A -> B -> A) l : forall a,
  Forall (fun x => forall a, f a x = g a x) l -> fold_left f l a = fold_left g l a.
Proof.
  induction l as [|x l IH]; intros a H; [reflexivity|].
  inversion H; subst. simpl. rewrite H2. apply IH. assumption.
Qed.

Lemma resp_predict_is_gen svcs qs kas : resp_predict svcs qs kas = resp_gen true true svcs qs kas.
Proof.
  unfold resp_predict, resp_gen. f_equal. apply fold_left_ext_in.
  eapply Forall_impl; [|apply cands_wf]. intros c Hc a. apply step_code_eq. exact Hc.
Qed.

(* when do code and property text agree on a candidate answer *)
Definition flush_agree (a : orec) (kas : list (ident * N)) : Prop :=
  forall k, In k kas -> same_record (o_id a) (fst k) = true -> i_flush (o_id a) = i_flush (fst k).

Lemma suppressed_gen_agree a kas :
  flush_agree a kas -> suppressed_gen true a kas = suppressed_gen false a kas.
Proof.
  intros H. unfold suppressed_gen, suppressed_by. revert H. unfold flush_agree.
  induction kas as [|k kas IH]; intros H; [reflexivity|].
  simpl. rewrite IH by (intros k' Hk'; apply H; right; exact Hk'). f_equal.
  destruct (same_record (o_id a) (fst k)) eqn:Es.
  - apply suppress_agrees_with_spec. apply H; [left; reflexivity | exact Es].
  - unfold suppressed_by_answer, suppress_spec. rewrite matches_same_record, Es. reflexivity.
Qed.

Definition cand_agree (kas : list (ident * N)) (c : cand) : Prop :=
  flush_agree (cd_answer c) kas /\
  (cd_is_ptr c = false -> cd_adds c <> [] -> suppressed_gen false (cd_answer c) kas = false).

Lemma step_gen_agree kas out c :
  cand_agree kas c -> step_gen true true kas out c = step_gen false false kas out c.
Proof.
  intros [Hf Ha]. unfold step_gen. rewrite (suppressed_gen_agree _ _ Hf).
  destruct (negb (cd_has_addrs c)); [reflexivity|].
  destruct (suppressed_gen false (cd_answer c) kas) eqn:Es; [|reflexivity].
  destruct (cd_is_ptr c) eqn:Ep; simpl; [reflexivity|].
  destruct (cd_adds c) as [|x l] eqn:Ead.
  - rewrite app_nil_r. reflexivity.
  - exfalso. specialize (Ha eq_refl ltac:(discriminate)). discriminate Ha.
Qed.

(* outside the two listed classes the daemon's response is the one the property prescribes *)
Lemma resp_agrees_with_text svcs qs kas :
  Forall (cand_agree kas) (flat_map (question_cands svcs) qs) ->
  resp_predict svcs qs kas = resp_spec svcs qs kas.
Proof.
  intros H. rewrite resp_predict_is_gen. unfold resp_spec, resp_gen. f_equal.
  apply fold_left_ext_in. eapply Forall_impl; [|exact H].
  intros c Hc a. apply step_gen_agree. exact Hc.
Qed.

(* ---- witnesses of the two deviations ---- *)
Definition ex_name : bytes := [105; 46].      (* "i." *)
Definition ex_host : bytes := [104; 46].      (* "h." *)
Definition ex_ty : bytes := [116; 46].        (* "t." *)
Definition ex_svc : svc :=
  mkSvc (mkO (mkId ex_ty TY_PTR 1 false (RPtr ex_name) 2) 4500)
        (mkO (mkId ex_name TY_SRV 1 true (RSrv 0 0 80 ex_host) 2) 120)
        (mkO (mkId ex_name TY_TXT 1 true (RTxt [0]) 2) 4500)
        [mkO (mkId ex_host TY_A 1 true (RAddr [10; 0; 0; 1]) 2) 120].

(* SRV + TXT asked, SRV listed (with the flush bit, TTL 100 > 60): the SRV answer is left out
   but the address it would have brought is still sent *)
Lemma resp_srv_additionals_refuted :
  exists svcs qs kas, resp_predict svcs qs kas <> resp_spec svcs qs kas /\
    resp_predict svcs qs kas = Some ([sv_txt ex_svc], sv_addrs ex_svc) /\
    resp_spec svcs qs kas = Some ([sv_txt ex_svc], []).
Proof.
  exists [ex_svc], [(ex_name, TY_SRV); (ex_name, TY_TXT)], [(o_id (sv_srv ex_svc), 100)].
  split; [vm_compute; discriminate | split; vm_compute; reflexivity].
Qed.

(* SRV asked, SRV listed WITHOUT the cache-flush bit (as RFC 6762 10.2 requires of a querier),
   TTL 120: the property says silence, the daemon answers *)
Lemma resp_flush_bit_refuted :
  exists svcs qs kas, resp_spec svcs qs kas = None /\ resp_predict svcs qs kas <> None.
Proof.
  exists [ex_svc], [(ex_name, TY_SRV)], [(mkId ex_name TY_SRV 1 false (RSrv 0 0 80 ex_host) 2, 120)].
  split; [vm_compute; reflexivity | vm_compute; discriminate].
Qed.

(* the PTR path has no such deviation: a suppressed PTR leaves nothing behind *)
Lemma resp_ptr_example :
  resp_predict [ex_svc] [(ex_ty, TY_PTR)] [(o_id (sv_ptr ex_svc), 2251)] = None /\
  resp_predict [ex_svc] [(ex_ty, TY_PTR)] [(o_id (sv_ptr ex_svc), 2250)]
  = Some ([sv_ptr ex_svc], [sv_srv ex_svc; sv_txt ex_svc] ++ sv_addrs ex_svc).
Proof. split; vm_compute; reflexivity. Qed.
