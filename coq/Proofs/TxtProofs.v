From Coq Require Import List NArith Bool Lia Arith.
From Mdns Require Import Res Bytes Utf8 Params ParamsPinned Txt.
Import ListNotations.
Open Scope N_scope.

(* ---------- take / drop ---------- *)

Lemma take_app_exact (a b : bytes) : take (length a) (a ++ b) = Ok a.
Proof.
  unfold take. rewrite app_length.
  replace (Nat.leb (length a) (length a + length b)) with true
    by (symmetry; apply Nat.leb_le; lia).
  f_equal. rewrite firstn_app, Nat.sub_diag, firstn_all. simpl. apply app_nil_r.
Qed.

Lemma drop_app_exact (a b : bytes) : drop (length a) (a ++ b) = Ok b.
Proof.
  unfold drop. rewrite app_length.
  replace (Nat.leb (length a) (length a + length b)) with true
    by (symmetry; apply Nat.leb_le; lia).
  f_equal. rewrite skipn_app, Nat.sub_diag, skipn_all. reflexivity.
Qed.

Lemma take_safe n l : (n <= length l)%nat -> exists r, take n l = Ok r /\ length r = n.
Proof.
  intros H. unfold take. replace (Nat.leb n (length l)) with true
    by (symmetry; apply Nat.leb_le; lia).
  eexists; split; [reflexivity|]. apply firstn_length_le. exact H.
Qed.

Lemma drop_safe n l : (n <= length l)%nat -> exists r, drop n l = Ok r /\ length r = (length l - n)%nat.
Proof.
  intros H. unfold drop. replace (Nat.leb n (length l)) with true
    by (symmetry; apply Nat.leb_le; lia).
  eexists; split; [reflexivity|]. apply skipn_length.
Qed.

Lemma index_of_lt x l i : index_of x l = Some i -> (i < length l)%nat.
Proof.
  revert i; induction l as [|y t IH]; simpl; intros i H; [discriminate|].
  destruct (y =? x).
  - inversion H; lia.
  - destruct (index_of x t) as [j|]; simpl in H; [|discriminate].
    inversion H; subst. specialize (IH j eq_refl). lia.
Qed.

(* ---------- split_kv ---------- *)

Lemma split_kv_safe kv : exists p, split_kv kv = Ok p.
Proof.
  unfold split_kv. destruct (index_of eq_sign kv) as [i|] eqn:E; [|eauto].
  apply index_of_lt in E.
  destruct (take_safe i kv) as [k [Hk _]]; [lia|].
  destruct (drop_safe (S i) kv) as [v [Hv _]]; [lia|].
  rewrite Hk, Hv. simpl. eauto.
Qed.

Lemma split_kv_prop_bytes p :
  contains eq_sign (fst p) = false -> split_kv (prop_bytes p) = Ok p.
Proof.
  destruct p as [k [v|]]; unfold prop_bytes, split_kv; simpl; intros H.
  - rewrite (index_of_app_not_in _ _ _ H).
    rewrite take_app_exact. simpl.
    change (k ++ eq_sign :: v) with (k ++ [eq_sign] ++ v).
    rewrite app_assoc.
    replace (S (length k)) with (length (k ++ [eq_sign])) by (rewrite app_length; simpl; lia).
    rewrite drop_app_exact. reflexivity.
  - rewrite (index_of_none_not_in _ _ H). reflexivity.
Qed.

(* ---------- totality of decode_txt: no panic, no fuel exhaustion, for every input ------ *)

Lemma decode_txt_fuel_safe fuel : forall txt,
  (length txt < fuel)%nat -> exists r, decode_txt_fuel fuel txt = Ok r.
Proof.
  induction fuel as [|f IH]; intros txt Hf; [lia|].
  destruct txt as [|len rest]; simpl; [eauto|].
  destruct (len =? 0); [eauto|].
  destruct (Nat.ltb (length rest) (N.to_nat len)) eqn:E; [eauto|].
  apply Nat.ltb_ge in E.
  destruct (take_safe _ _ E) as [kv [Hkv _]]. rewrite Hkv. simpl.
  destruct (split_kv_safe kv) as [p Hp]. rewrite Hp. simpl.
  destruct (drop_safe _ _ E) as [rest' [Hr Hl]]. rewrite Hr. simpl.
  destruct (IH rest') as [tl Htl]; [simpl in Hf; lia|].
  rewrite Htl. simpl. eauto.
Qed.

Lemma decode_txt_total txt : exists r, decode_txt txt = Ok r.
Proof. apply decode_txt_fuel_safe. lia. Qed.

Lemma decode_txt_unique_total txt : exists r, decode_txt_unique txt = Ok r.
Proof.
  unfold decode_txt_unique. destruct (decode_txt_total txt) as [r H]. rewrite H. simpl. eauto.
Qed.

(* every decoded property was cut out of the input: key and value are contiguous sub-lists *)
Definition sublist_of (s l : bytes) : Prop := exists a b, l = a ++ s ++ b.

Lemma sublist_of_cons s x l : sublist_of s l -> sublist_of s (x :: l).
Proof. intros [a [b H]]. exists (x :: a), b. simpl. congruence. Qed.

Lemma sublist_of_trans s m l : sublist_of s m -> sublist_of m l -> sublist_of s l.
Proof.
  intros [a [b H1]] [c [d H2]]. exists (c ++ a), (b ++ d). subst.
  repeat rewrite <- app_assoc. reflexivity.
Qed.

Lemma take_sublist n l r : take n l = Ok r -> sublist_of r l.
Proof.
  unfold take. destruct (Nat.leb n (length l)); [|discriminate].
  intros H; inversion H; subst. exists [], (skipn n l). simpl. symmetry. apply firstn_skipn.
Qed.

Lemma drop_sublist n l r : drop n l = Ok r -> sublist_of r l.
Proof.
  unfold drop. destruct (Nat.leb n (length l)); [|discriminate].
  intros H; inversion H; subst. exists (firstn n l), []. rewrite app_nil_r. symmetry.
  apply firstn_skipn.
Qed.

Definition prop_inside (txt : bytes) (p : prop) : Prop :=
  sublist_of (fst p) txt /\ match snd p with None => True | Some v => sublist_of v txt end.

Lemma split_kv_inside kv p : split_kv kv = Ok p -> prop_inside kv p.
Proof.
  unfold split_kv. destruct (index_of eq_sign kv) as [i|].
  - destruct (take i kv) as [k| | |] eqn:Ek; simpl; try discriminate.
    destruct (drop (S i) kv) as [v| | |] eqn:Ev; simpl; try discriminate.
    intros H; inversion H; subst. split; simpl.
    + eapply take_sublist; eauto.
    + eapply drop_sublist; eauto.
  - intros H; inversion H; subst. split; simpl; [|exact I]. exists [], []. simpl.
    symmetry; apply app_nil_r.
Qed.

Lemma prop_inside_mono a b p : sublist_of a b -> prop_inside a p -> prop_inside b p.
Proof.
  intros Hab [H1 H2]. split.
  - eapply sublist_of_trans; eauto.
  - destruct (snd p); [|exact I]. eapply sublist_of_trans; eauto.
Qed.

Lemma decode_txt_fuel_inside fuel : forall txt r,
  decode_txt_fuel fuel txt = Ok r -> Forall (prop_inside txt) r.
Proof.
  induction fuel as [|f IH]; intros txt r; simpl; [discriminate|].
  destruct txt as [|len rest]; [intros H; inversion H; constructor|].
  destruct (len =? 0); [intros H; inversion H; constructor|].
  destruct (Nat.ltb (length rest) (N.to_nat len)); [intros H; inversion H; constructor|].
  destruct (take (N.to_nat len) rest) as [kv| | |] eqn:Ekv; simpl; try discriminate.
  destruct (split_kv kv) as [p| | |] eqn:Ep; simpl; try discriminate.
  destruct (drop (N.to_nat len) rest) as [rest'| | |] eqn:Er; simpl; try discriminate.
  destruct (decode_txt_fuel f rest') as [tl| | |] eqn:Et; simpl; try discriminate.
  intros H. inversion H; subst; clear H.
  assert (Htl : Forall (prop_inside (len :: rest)) tl).
  { apply IH in Et. eapply Forall_impl; [|exact Et]. intros q Hq.
    eapply prop_inside_mono; [|exact Hq]. apply sublist_of_cons. eapply drop_sublist; eauto. }
  assert (Hp : prop_inside (len :: rest) p).
  { eapply prop_inside_mono; [|eapply split_kv_inside; eauto].
    apply sublist_of_cons. eapply take_sublist; eauto. }
  destruct (utf8_valid (fst p)); [constructor|]; assumption.
Qed.

(* ---------- encode ---------- *)

Lemma accepted_prop_inv p : accepted_prop p = true ->
  is_ascii (fst p) = true /\ contains eq_sign (fst p) = false /\
  prop_bytes p <> [] /\ (length (prop_bytes p) <= 255)%nat.
Proof.
  unfold accepted_prop. intros H.
  apply andb_true_iff in H as [H H4]. apply andb_true_iff in H as [H H3].
  apply andb_true_iff in H as [H1 H2].
  apply negb_true_iff in H2. apply negb_true_iff in H3. apply negb_true_iff in H4.
  rewrite txt_prop_refused_len_pinned in H4. apply N.ltb_ge in H4.
  assert (H4' : (prop_len p <= 255)%nat) by lia. clear H4. rename H4' into H4.
  repeat split; auto.
  - destruct p as [k [v|]]; unfold prop_bytes; simpl in *.
    + destruct k; discriminate.
    + destruct k; [discriminate|]. discriminate.
  - destruct p as [k [v|]]; unfold prop_bytes, prop_len in *; simpl in *.
    + rewrite app_length. simpl. lia.
    + lia.
Qed.

Lemma encode_txt_body_accepted ps :
  accepted ps = true -> encode_txt_body ps = Ok (concat (map encode_one ps)).
Proof.
  induction ps as [|p t IH]; simpl; [reflexivity|].
  intros H. apply andb_true_iff in H as [Hp Ht].
  apply accepted_prop_inv in Hp as (_ & _ & _ & Hlen).
  replace (Nat.ltb 255 (length (prop_bytes p))) with false
    by (symmetry; apply Nat.ltb_ge; lia).
  rewrite (IH Ht). reflexivity.
Qed.

(* shape of the encoding: a sequence of (length byte, that many bytes), each <= 255 *)
Lemma encode_txt_shape ps b :
  encode_txt ps = Ok b ->
  Forall (fun p => (length (prop_bytes p) <= 255)%nat) ps /\
  b = match concat (map encode_one ps) with [] => [0] | x => x end.
Proof.
  unfold encode_txt.
  assert (H : forall r, encode_txt_body ps = Ok r ->
     Forall (fun p => (length (prop_bytes p) <= 255)%nat) ps /\ r = concat (map encode_one ps)).
  { induction ps as [|p t IH]; simpl; intros r Hr.
    - inversion Hr; split; [constructor|reflexivity].
    - destruct (Nat.ltb 255 (length (prop_bytes p))) eqn:E; [discriminate|].
      apply Nat.ltb_ge in E.
      destruct (encode_txt_body t) as [r'| | |]; simpl in Hr; try discriminate.
      inversion Hr; subst. destruct (IH r' eq_refl) as [H1 H2]. split.
      + constructor; assumption.
      + rewrite H2. reflexivity. }
  destruct (encode_txt_body ps) as [r| | |]; simpl; try discriminate.
  intros Hb; inversion Hb; subst. destruct (H r eq_refl) as [H1 H2]. split; [exact H1|].
  rewrite H2. destruct (concat (map encode_one ps)); reflexivity.
Qed.

(* ---------- round trip ---------- *)

Lemma decode_encode_one fuel p r :
  accepted_prop p = true ->
  decode_txt_fuel (S fuel) (encode_one p ++ r) =
    let? tl := decode_txt_fuel fuel r in Ok (p :: tl).
Proof.
  intros Hp. apply accepted_prop_inv in Hp as (Hasc & Hno & Hne & Hlen).
  unfold encode_one. cbn [app decode_txt_fuel].
  assert (Hn : N.to_nat (N.of_nat (length (prop_bytes p))) = length (prop_bytes p))
    by apply Nat2N.id.
  destruct (N.of_nat (length (prop_bytes p)) =? 0) eqn:E0.
  { apply N.eqb_eq in E0. destruct (prop_bytes p); [congruence|]. simpl in E0. lia. }
  rewrite Hn.
  replace (Nat.ltb (length (prop_bytes p ++ r)) (length (prop_bytes p))) with false
    by (symmetry; apply Nat.ltb_ge; rewrite app_length; lia).
  rewrite take_app_exact. cbn [bind].
  rewrite (split_kv_prop_bytes p Hno). cbn [bind].
  rewrite drop_app_exact. cbn [bind].
  rewrite (ascii_utf8_valid _ Hasc). reflexivity.
Qed.

Lemma decode_encode_body ps : forall fuel,
  accepted ps = true -> (length ps < fuel)%nat ->
  decode_txt_fuel fuel (concat (map encode_one ps)) = Ok ps.
Proof.
  induction ps as [|p t IH]; intros fuel Ha Hf.
  - destruct fuel; [lia|]. reflexivity.
  - destruct fuel as [|f]; [simpl in Hf; lia|].
    simpl in Ha. apply andb_true_iff in Ha as [Hp Ht].
    cbn [map concat]. rewrite (decode_encode_one f p _ Hp).
    rewrite (IH f Ht); [reflexivity|]. simpl in Hf. lia.
Qed.

Lemma length_concat_encode ps : (length ps <= length (concat (map encode_one ps)))%nat.
Proof.
  induction ps as [|p t IH]; simpl; [lia|]. rewrite app_length. lia.
Qed.

Lemma txt_roundtrip_decode ps :
  accepted ps = true ->
  exists b, encode_txt ps = Ok b /\ decode_txt b = Ok ps.
Proof.
  intros Ha. unfold encode_txt. rewrite (encode_txt_body_accepted _ Ha). cbn [bind].
  destruct ps as [|p t].
  - exists [0]. split; reflexivity.
  - eexists. split; [reflexivity|].
    assert (Hne : concat (map encode_one (p :: t)) <> []) by (simpl; discriminate).
    destruct (concat (map encode_one (p :: t))) as [|x l] eqn:E; [congruence|].
    rewrite <- E. unfold decode_txt. apply decode_encode_body; [exact Ha|].
    pose proof (length_concat_encode (p :: t)). lia.
Qed.

Lemma txt_roundtrip ps :
  accepted ps = true ->
  exists b, encode_txt ps = Ok b /\ decode_txt_unique b = Ok (dedup_ci ps).
Proof.
  intros Ha. destruct (txt_roundtrip_decode ps Ha) as [b [H1 H2]].
  exists b. split; [exact H1|]. unfold decode_txt_unique. rewrite H2. reflexivity.
Qed.

(* ---------- first-occurrence lookup is what dedup keeps ---------- *)

Lemma find_dedup_aux key : forall ps seen,
  mem (lower key) seen = false ->
  find (fun p => beq (lower (fst p)) (lower key)) (dedup_ci_aux seen ps) =
  find (fun p => beq (lower (fst p)) (lower key)) ps.
Proof.
  induction ps as [|p t IH]; intros seen Hs; simpl; [reflexivity|].
  destruct (mem (lower (fst p)) seen) eqn:Em.
  - destruct (beq (lower (fst p)) (lower key)) eqn:Eb.
    + apply beq_eq in Eb. rewrite Eb in Em. congruence.
    + apply IH. exact Hs.
  - simpl. destruct (beq (lower (fst p)) (lower key)) eqn:Eb; [reflexivity|].
    apply IH. simpl. rewrite Hs.
    destruct (beq (lower key) (lower (fst p))) eqn:Eb2; [|reflexivity].
    apply beq_eq in Eb2. rewrite Eb2, beq_refl in Eb. discriminate.
Qed.

Lemma txt_get_dedup ps key : txt_get (dedup_ci ps) key = txt_get ps key.
Proof. unfold txt_get, dedup_ci. apply find_dedup_aux. reflexivity. Qed.

(* dedup keeps a sub-sequence in order, keeps the first occurrence of every key, and is
   idempotent on its own output *)
Lemma dedup_ci_aux_keys_notin ps : forall seen p,
  In p (dedup_ci_aux seen ps) -> mem (lower (fst p)) seen = false.
Proof.
  induction ps as [|q t IH]; intros seen p; simpl; [tauto|].
  destruct (mem (lower (fst q)) seen) eqn:E.
  - apply IH.
  - intros [H|H]; [subst; exact E|].
    apply IH in H. simpl in H. apply orb_false_iff in H. tauto.
Qed.

Lemma dedup_ci_aux_idem ps : forall seen seen',
  (forall k, mem k seen' = true -> mem k seen = true) ->
  dedup_ci_aux seen' (dedup_ci_aux seen ps) = dedup_ci_aux seen ps.
Proof.
  induction ps as [|q t IH]; intros seen seen' Hs; simpl; [reflexivity|].
  destruct (mem (lower (fst q)) seen) eqn:E.
  - apply IH. exact Hs.
  - simpl. destruct (mem (lower (fst q)) seen') eqn:E'.
    + apply Hs in E'. congruence.
    + f_equal. apply IH. intros k. simpl. rewrite !orb_true_iff. intros [H|H]; auto.
Qed.

Lemma dedup_ci_idem ps : dedup_ci (dedup_ci ps) = dedup_ci ps.
Proof. unfold dedup_ci. apply dedup_ci_aux_idem. auto. Qed.

(* refusal characterised *)
Lemma refused_iff ps :
  accepted ps = false <->
  exists p, In p ps /\
    (is_ascii (fst p) = false \/ contains eq_sign (fst p) = true \/
     (fst p = [] /\ snd p = None) \/ (255 < prop_len p)%nat).
Proof.
  unfold accepted. split.
  - intros H. induction ps as [|p t IH]; simpl in H; [discriminate|].
    apply andb_false_iff in H as [H|H].
    + exists p. split; [left; reflexivity|]. unfold accepted_prop in H.
      apply andb_false_iff in H as [H|H];
        [|right; right; right; apply negb_false_iff in H;
          rewrite txt_prop_refused_len_pinned in H; apply N.ltb_lt in H; lia].
      apply andb_false_iff in H as [H|H].
      * apply andb_false_iff in H as [H|H]; [left; exact H|].
        right; left. apply negb_false_iff in H. exact H.
      * right; right; left. apply negb_false_iff in H.
        destruct p as [[|k0 k] [v|]]; simpl in *; try discriminate. split; reflexivity.
    + destruct (IH H) as [q [Hq Hc]]. exists q. split; [right; exact Hq|exact Hc].
  - intros [p [Hin Hc]]. destruct (forallb accepted_prop ps) eqn:E; [|reflexivity].
    rewrite forallb_forall in E. specialize (E p Hin). unfold accepted_prop in E.
    apply andb_true_iff in E as [E E4]. apply andb_true_iff in E as [E E3].
    apply andb_true_iff in E as [E1 E2].
    apply negb_true_iff in E2. apply negb_true_iff in E3. apply negb_true_iff in E4.
    rewrite txt_prop_refused_len_pinned in E4. apply N.ltb_ge in E4.
    destruct Hc as [Hc|[Hc|[[Hc1 Hc2]|Hc]]]; try congruence; try lia.
    destruct p as [k v]; simpl in *; subst. discriminate.
Qed.
