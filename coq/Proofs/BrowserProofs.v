(* C03 for the model of the cache + browser logic: along every history the cache satisfies the
   invariant Inv (Proofs/CacheInvProofs.v) for the log of deliveries processed so far, and every
   ServiceResolved is built by resolve_from_cache from records that do not expire within a
   second - hence passes resolved_ok of Model/C03Spec.v. *)
From Coq Require Import List NArith Bool Lia.
From Mdns Require Import Res Bytes Rec Wire Txt ParamsBrowser ParamsBrowserPinned Cache Browser C03Spec
  CacheProofs CacheInvProofs.
Import ListNotations.
Open Scope N_scope.

Definition times_le (L : list dlv) (now : N) : Prop := forall d, In d L -> dl_t d <= now.

(* ---- an entry that does not expire soon is a justified delivery -------------------------------------- *)

Lemma app_split {A} (l1 : list A) d l2 : forall p c,
  l1 ++ d :: l2 = p ++ c ->
  (exists l2', p = l1 ++ d :: l2' /\ l2 = l2' ++ c) \/ (exists c1, l1 = p ++ c1 /\ c = c1 ++ d :: l2).
Proof.
  induction l1 as [|x l1 IH]; intros p c H; simpl in *.
  - destruct p as [|y p]; simpl in *.
    + right. exists []. auto.
    + inversion H; subst. left. exists p. auto.
  - destruct p as [|y p]; simpl in *.
    + right. exists (x :: l1). auto.
    + inversion H; subst. destruct (IH p c H2) as [[l2' [E1 E2]]|[c1 [E1 E2]]].
      * left. exists l2'. subst. auto.
      * right. exists c1. subst. auto.
Qed.

Lemma just_prev_app sel now l1 l : just_prev sel now l = true -> just_prev sel now (l1 ++ l) = true.
Proof. intros H. induction l1; simpl; [assumption|]. rewrite IHl1. apply orb_true_r. Qed.

Lemma entry_justified prev cp now k key e sel :
  entry_ok (prev ++ cp) k key e -> expires_soon e now = false -> times_le prev now ->
  (forall d, dl_rr d = e_rr e -> (is_addr_type (e_type e) = true -> dl_if d = e_if e) -> sel d = true) ->
  justified prev cp now sel = true.
Proof.
  intros (Hk & Hkey & L1 & d & L2 & HL & Hrr & Ht & Hif & Hsame & Hexp & Hdis) Hsoon Htimes Hsel.
  apply expires_soon_false in Hsoon.
  assert (Hlive : live_dlv d now = true).
  { unfold live_dlv. apply N.ltb_lt. rewrite Ht, Hrr. unfold e_ttl in Hexp. lia. }
  unfold justified. symmetry in HL. destruct (app_split _ _ _ _ _ HL) as [[l2' [A B]]|[c1 [A B]]].
  - apply orb_true_iff. right. rewrite A. apply just_prev_app. simpl.
    rewrite (Hsel d Hrr Hif), Hlive. simpl.
    destruct (existsb (fun d' => same_key d d' || displaces d' d) l2') eqn:E; [|reflexivity].
    exfalso. apply existsb_exists in E as [x [Hx1 Hx2]].
    assert (HxL2 : In x L2) by (rewrite B; apply in_app_iff; now left).
    apply orb_true_iff in Hx2 as [Hx2|Hx2].
    + rewrite (Hsame x HxL2) in Hx2. discriminate.
    + specialize (Hdis x HxL2 Hx2).
      assert (dl_t x <= now) by (apply Htimes; rewrite A; apply in_app_iff; right; right; assumption).
      lia.
  - apply orb_true_iff. left. apply existsb_exists. exists d. split.
    + rewrite B. apply in_app_iff. right. now left.
    + now rewrite (Hsel d Hrr Hif), Hlive.
Qed.

Lemma justified_mono prev cp more now sel :
  justified prev cp now sel = true -> justified prev (cp ++ more) now sel = true.
Proof.
  unfold justified. intros H. apply orb_true_iff in H as [H|H]; apply orb_true_iff; [left|now right].
  apply existsb_exists in H as [x [H1 H2]]. apply existsb_exists. exists x. split; [|assumption].
  apply in_app_iff. now left.
Qed.

Lemma In_dedup_pairs l : forall seen p, In p (dedup_pairs l seen) -> In p l.
Proof.
  induction l as [|x l IH]; intros seen p; simpl; [tauto|].
  destruct (mem_pair x seen); [intros H; right; eauto|]. intros [H|H]; [now left|right; eauto].
Qed.

Lemma opt_beq_refl o : opt_beq o o = true.
Proof. destruct o; simpl; [apply beq_refl|reflexivity]. Qed.

Lemma props_beq_refl ps : props_beq ps ps = true.
Proof. induction ps as [|[k v] t IH]; simpl; [reflexivity|]. now rewrite beq_refl, opt_beq_refl, IH. Qed.

(* ---- resolve_service_from_cache ------------------------------------------------------------------------- *)

Lemma In_get_map_srv c inst b : bm_get inst (c_srv c) = Some b -> In (inst, b) (get_map c KSrv).
Proof. apply bm_get_In. Qed.

Theorem resolve_justified prev cp now c ty inst :
  Inv (prev ++ cp) c -> times_le prev now ->
  is_valid (resolve_from_cache c now ty inst) = true ->
  resolved_ok prev cp now (resolve_from_cache c now ty inst) = true.
Proof.
  intros HI Htimes Hvalid. unfold is_valid in Hvalid. apply negb_true_iff in Hvalid.
  apply orb_false_iff in Hvalid as [Hv Haddrs]. apply orb_false_iff in Hv as [Hv Hhost].
  unfold resolved_ok. rewrite Hhost, Haddrs. simpl.
  unfold resolve_from_cache in *. simpl in *.
  (* SRV *)
  destruct (match bm_get inst (c_srv c) with
            | Some b => find (fun e => negb (expires_soon e now)) b
            | None => None
            end) as [se|] eqn:Esrv; [|simpl in Hhost; discriminate].
  assert (Hse : exists b, bm_get inst (c_srv c) = Some b /\ In se b /\ expires_soon se now = false).
  { destruct (bm_get inst (c_srv c)) as [b|]; [|discriminate]. exists b. split; [reflexivity|].
    apply find_some in Esrv as [A B]. split; [assumption|]. now apply negb_true_iff in B. }
  destruct Hse as (sb & Hsb & Hin & Hsoon).
  destruct (HI KSrv) as [_ HK]. destruct (HK inst sb (bm_get_In _ _ _ Hsb)) as [_ Hok].
  specialize (Hok se Hin).
  assert (Jsrv : justified prev cp now (sel_srv inst (srv_host se) (srv_port se)) = true).
  { eapply entry_justified; eauto. intros d Hrr _. unfold sel_srv. rewrite Hrr.
    destruct Hok as (Hk & Hkey & _). apply kind_of_type_srv in Hk. unfold e_type in Hk. rewrite Hk.
    simpl in Hkey. unfold e_name in Hkey. rewrite <- Hkey.
    unfold srv_host, srv_port. now rewrite N.eqb_refl, !beq_refl, N.eqb_refl. }
  rewrite Jsrv. simpl.
  (* TXT *)
  assert (Jtxt : (is_nil (match bm_get inst (c_txt c) with
                          | Some b => match find (fun e => negb (expires_soon e now)) b with
                                      | Some e => txt_props (txt_text e)
                                      | None => []
                                      end
                          | None => []
                          end)
                  || justified prev cp now
                       (sel_txt inst (match bm_get inst (c_txt c) with
                                      | Some b => match find (fun e => negb (expires_soon e now)) b with
                                                  | Some e => txt_props (txt_text e)
                                                  | None => []
                                                  end
                                      | None => []
                                      end))) = true).
  { destruct (bm_get inst (c_txt c)) as [tb|] eqn:Etb; [|reflexivity].
    destruct (find (fun e => negb (expires_soon e now)) tb) as [te|] eqn:Ete; [|reflexivity].
    apply orb_true_iff. right. apply find_some in Ete as [A B]. apply negb_true_iff in B.
    destruct (HI KTxt) as [_ HKt]. destruct (HKt inst tb (bm_get_In _ _ _ Etb)) as [_ Hokt].
    specialize (Hokt te A).
    eapply entry_justified; eauto. intros d Hrr _. unfold sel_txt. rewrite Hrr.
    destruct Hokt as (Hk & Hkey & _). apply kind_of_type_txt in Hk. unfold e_type in Hk. rewrite Hk.
    simpl in Hkey. unfold e_name in Hkey. rewrite <- Hkey. unfold txt_text.
    now rewrite N.eqb_refl, beq_refl, props_beq_refl. }
  rewrite Jtxt, andb_true_r.
  (* addresses *)
  apply forallb_forall. intros [ip i] Ha. simpl.
  unfold get_addr in Ha.
  destruct (bm_get (lower (srv_host se)) (c_addr c)) as [ab|] eqn:Eab; [|destruct Ha].
  apply In_dedup_pairs in Ha. apply in_map_iff in Ha as [ae [Hae1 Hae2]].
  apply filter_In in Hae2 as [Hae2 Hae3]. apply negb_true_iff in Hae3. inversion Hae1; subst.
  destruct (HI KAddr) as [_ HKa]. destruct (HKa _ ab (bm_get_In _ _ _ Eab)) as [_ Hoka].
  specialize (Hoka ae Hae2).
  eapply entry_justified; eauto. intros d Hrr Hif. unfold sel_addr. rewrite Hrr.
  destruct Hoka as (Hk & Hkey & _). apply kind_of_type_addr in Hk.
  unfold e_type in Hk, Hif. rewrite Hk. simpl in Hkey. unfold e_name in Hkey. rewrite <- Hkey.
  unfold addr_octets. rewrite (Hif Hk). now rewrite !beq_refl, N.eqb_refl.
Qed.

(* ---- outputs of the browser functions --------------------------------------------------------------------- *)

Definition ok (prev cp : list dlv) (now : N) (x : out) : Prop := out_ok prev cp now x = true.

Lemma ok_mono prev cp more now x : ok prev cp now x -> ok prev (cp ++ more) now x.
Proof.
  unfold ok. destruct x as [ch [ | r | ]| |]; simpl; auto.
  unfold resolved_ok. intros H.
  apply andb_true_iff in H as [H Ht]. apply andb_true_iff in H as [H Ha].
  apply andb_true_iff in H as [H Hs].
  rewrite H, (justified_mono _ _ _ _ _ Hs). simpl.
  apply andb_true_iff. split.
  - apply forallb_forall. intros a Hin. rewrite forallb_forall in Ha. apply justified_mono. auto.
  - apply orb_true_iff in Ht as [Ht|Ht]; apply orb_true_iff; [now left|right]. now apply justified_mono.
Qed.

Lemma Forall_ok_mono prev cp more now o :
  Forall (ok prev cp now) o -> Forall (ok prev (cp ++ more) now) o.
Proof. intros H. eapply Forall_impl; [|exact H]. intros x. apply ok_mono. Qed.

Lemma ok_found prev cp now ch ty i : ok prev cp now (OEvt ch (EFound ty i)).
Proof. reflexivity. Qed.
Lemma ok_removed prev cp now ch ty i : ok prev cp now (OEvt ch (ERemoved ty i)).
Proof. reflexivity. Qed.
Lemma ok_query prev cp now q : ok prev cp now (OQuery q).
Proof. reflexivity. Qed.
Lemma ok_metrics prev cp now ch l : ok prev cp now (OMetrics ch l).
Proof. reflexivity. Qed.

Lemma notify_removal_ok prev cp now q ex : Forall (ok prev cp now) (notify_removal q ex).
Proof.
  apply Forall_forall. intros x Hx. unfold notify_removal in Hx.
  apply in_flat_map in Hx as [tc [_ Hx]]. apply in_map_iff in Hx as [i [<- _]]. apply ok_removed.
Qed.

Section Resolve.
  Variables (prev cp : list dlv) (now : N) (c : cache).
  Hypothesis HI : Inv (prev ++ cp) c.
  Hypothesis Htimes : times_le prev now.

  Lemma ru_ptrs_ok ty ch updated ptrs : forall rset,
    Forall (ok prev cp now) (fst (fst (fst (fst (ru_ptrs c now ty ch updated ptrs rset))))).
  Proof.
    induction ptrs as [|p rest IH]; intros rset; simpl; [constructor|].
    destruct (negb (expires_soon p now) && mem (alias_of (e_rr p)) updated); [|apply IH].
    destruct (is_valid (resolve_from_cache c now ty (alias_of (e_rr p)))) eqn:Ev.
    - specialize (IH rset). destruct (ru_ptrs c now ty ch updated rest rset) as [[[[o res] unres] rem] rset'].
      simpl in *. constructor; [|assumption]. unfold ok. simpl. now apply resolve_justified.
    - specialize (IH rset).
      destruct (ru_ptrs c now ty ch updated rest rset)
        as [[[[o res] unres] rem] rset']. simpl in *. assumption.
  Qed.

  Lemma ru_types_ok q updated ptr : forall rset,
    Forall (ok prev cp now) (fst (fst (fst (fst (ru_types c now q updated ptr rset))))).
  Proof.
    induction ptr as [|[ty ptrs] rest IH]; intros rset; simpl; [constructor|].
    destruct (q_get ty q) as [ch|]; [|apply IH].
    pose proof (ru_ptrs_ok ty ch updated ptrs rset) as H1.
    destruct (ru_ptrs c now ty ch updated ptrs rset) as [[[[o1 res1] un1] rem1] rset1]. simpl in H1.
    specialize (IH rset1).
    destruct (ru_types c now q updated rest rset1) as [[[[o2 res2] un2] rem2] rset2]. simpl in *.
    apply Forall_app. split; assumption.
  Qed.

  Lemma qc_ptrs_ok ty ch ptrs : Forall (ok prev cp now) (fst (fst (qc_ptrs c now ty ch ptrs))).
  Proof.
    induction ptrs as [|p rest IH]; simpl; [constructor|].
    destruct (qc_ptrs c now ty ch rest) as [[o res] unres]. simpl in *.
    destruct (expires_soon p now); [assumption|].
    destruct (is_valid (resolve_from_cache c now ty (alias_of (e_rr p)))) eqn:Ev; simpl.
    - constructor; [apply ok_found|]. constructor; [|assumption]. unfold ok. simpl. now apply resolve_justified.
    - constructor; [apply ok_found|assumption].
  Qed.
End Resolve.

(* bookkeeping that does not touch the cache *)
Lemma fold_mark_cache l : forall s, s_cache (fold_left mark_resolved l s) = s_cache s.
Proof. induction l as [|i l IH]; intros s; simpl; [reflexivity|]. now rewrite IH. Qed.

Lemma add_pending_cache s now i : s_cache (add_pending s now i) = s_cache s.
Proof. unfold add_pending. destruct (mem i (s_pending s)); reflexivity. Qed.

Lemma fold_pending_cache now l : forall s,
  s_cache (fold_left (fun s i => add_pending s now i) l s) = s_cache s.
Proof. induction l as [|i l IH]; intros s; simpl; [reflexivity|]. now rewrite IH, add_pending_cache. Qed.

Lemma resolve_updated_spec prev cp now s updated :
  Inv (prev ++ cp) (s_cache s) -> times_le prev now ->
  s_cache (fst (resolve_updated s now updated)) = s_cache s
  /\ Forall (ok prev cp now) (snd (resolve_updated s now updated)).
Proof.
  intros HI Ht. unfold resolve_updated. destruct updated as [|u us]; [split; [reflexivity|constructor]|].
  pose proof (ru_types_ok prev cp now (s_cache s) HI Ht (s_q s) (u :: us) (c_ptr (s_cache s)) (s_resolved s)) as H.
  destruct (ru_types (s_cache s) now (s_q s) (u :: us) (c_ptr (s_cache s)) (s_resolved s))
    as [[[[o res] unres] rem] rset]. simpl in *. split.
  - now rewrite fold_pending_cache, fold_mark_cache.
  - apply Forall_app. split; [assumption|apply notify_removal_ok].
Qed.

(* ---- handle_response: the log grows by the records of the message ------------------------------------------ *)

Lemma hr_records_spec now ifx q fu rs : forall L c,
  Inv L c ->
  Inv (L ++ map (mkDlv now ifx) rs) (fst (fst (hr_records c now ifx q fu rs)))
  /\ forall prev cp, Forall (ok prev cp now) (snd (fst (hr_records c now ifx q fu rs))).
Proof.
  induction rs as [|r rest IH]; intros L c HI; simpl.
  - rewrite app_nil_r. split; [assumption|constructor].
  - pose proof (add_or_update_inv L c now ifx r fu HI) as H1.
    destruct (add_or_update c now ifx r fu) as [c1 res]. simpl in H1.
    destruct (IH _ _ H1) as [H2 H3]. clear IH.
    set (oc := match res with
               | Some (e, true) =>
                 if (e_type e =? TY_PTR) && found_ttl_guard (e_ttl e)
                 then (match q_get (e_name e) q with
                       | Some ch => [OEvt ch (EFound (e_name e) (alias_of (e_rr e)))]
                       | None => []
                       end, [(TY_PTR, alias_of (e_rr e))])
                 else ([], [(e_type e, e_name e)])
               | _ => ([], [])
               end).
    destruct oc as [o1 ch1] eqn:Eoc.
    destruct (hr_records c1 now ifx q fu rest) as [[c2 o2] ch2]. simpl in *.
    split; [rewrite <- app_assoc in H2; exact H2|].
    intros prev cp. apply Forall_app. split; [|apply H3].
    subst oc. destruct res as [[e [|]]|]; try (inversion Eoc; subst; constructor).
    destruct ((e_type e =? TY_PTR) && found_ttl_guard (e_ttl e)); inversion Eoc; subst; [|constructor].
    destruct (q_get (e_name e) q); constructor; [apply ok_found|constructor].
Qed.

Lemma handle_response_spec prev cp now ifx s m :
  Inv (prev ++ cp) (s_cache s) -> times_le prev now ->
  Inv (prev ++ cp ++ map (mkDlv now ifx) (msg_records m)) (s_cache (fst (handle_response s now ifx m)))
  /\ Forall (ok prev (cp ++ map (mkDlv now ifx) (msg_records m)) now) (snd (handle_response s now ifx m)).
Proof.
  intros HI Ht. unfold handle_response.
  destruct (hr_records_spec now ifx (s_q s) (for_us (s_q s) (m_answers m))
              (m_answers m ++ m_authorities m ++ m_additionals m) _ _ HI) as [H1 H2].
  fold (msg_records m) in *.
  destruct (hr_records (s_cache s) now ifx (s_q s) (for_us (s_q s) (m_answers m)) (msg_records m))
    as [[c1 o1] changes]. simpl in *.
  rewrite <- app_assoc in H1.
  pose proof (resolve_updated_spec prev (cp ++ map (mkDlv now ifx) (msg_records m)) now
                (with_cache s c1) (updated_of c1 changes)) as H3.
  simpl in H3. specialize (H3 H1 Ht).
  destruct (resolve_updated (with_cache s c1) now (updated_of c1 changes)) as [s2 o2]. simpl in *.
  destruct H3 as [H3 H4]. split; [now rewrite H3|]. apply Forall_app. split; [apply H2|assumption].
Qed.

Lemma handle_read_spec ifs prev cp now s d :
  Inv (prev ++ cp) (s_cache s) -> times_le prev now ->
  Inv (prev ++ cp ++ dgram_dlvs ifs now d) (s_cache (fst (handle_read ifs s now d)))
  /\ Forall (ok prev (cp ++ dgram_dlvs ifs now d) now) (snd (handle_read ifs s now d)).
Proof.
  intros HI Ht. unfold handle_read, dgram_dlvs. destruct (accepted_msg ifs d) as [m|].
  - now apply handle_response_spec.
  - simpl. rewrite !app_nil_r. split; [assumption|constructor].
Qed.

Lemma reads_spec ifs prev now ds : forall cp s,
  Inv (prev ++ cp) (s_cache s) -> times_le prev now ->
  Inv (prev ++ cp ++ flat_map (dgram_dlvs ifs now) ds) (s_cache (fst (run_cmds (handle_read ifs) s now ds)))
  /\ Forall (ok prev (cp ++ flat_map (dgram_dlvs ifs now) ds) now) (snd (run_cmds (handle_read ifs) s now ds)).
Proof.
  induction ds as [|d rest IH]; intros cp s HI Ht; simpl.
  - rewrite !app_nil_r. split; [assumption|constructor].
  - destruct (handle_read_spec ifs prev cp now s d HI Ht) as [H1 H2].
    destruct (handle_read ifs s now d) as [s1 o1]. simpl in *.
    destruct (IH (cp ++ dgram_dlvs ifs now d) s1 H1 Ht) as [H3 H4].
    destruct (run_cmds (handle_read ifs) s1 now rest) as [s2 o2]. simpl in *.
    rewrite <- app_assoc in H3, H4. split; [exact H3|].
    apply Forall_app. split; [|exact H4].
    rewrite app_assoc. apply Forall_ok_mono. exact H2.
Qed.

(* ---- the phases that only shrink the cache ----------------------------------------------------------------- *)

Section Phases.
  Variables (prev cur : list dlv) (now : N).
  Hypothesis Htimes : times_le prev now.
  Let SI (s : st) : Prop := Inv (prev ++ cur) (s_cache s).
  Let OK (o : list out) : Prop := Forall (ok prev cur now) o.

  Lemma exec_browse_spec s ty ch : SI s -> SI (fst (exec_browse s now ty ch)) /\ OK (snd (exec_browse s now ty ch)).
  Proof.
    intros HI. unfold exec_browse. destruct (bm_get ty (c_ptr (s_cache s))) as [ptrs|]; [|split; [exact HI|constructor]].
    pose proof (qc_ptrs_ok prev cur now (s_cache s) HI Htimes ty ch ptrs) as H.
    destruct (qc_ptrs (s_cache s) now ty ch ptrs) as [[o res] unres]. simpl in *. split; [|exact H].
    unfold SI. now rewrite fold_pending_cache, fold_mark_cache.
  Qed.

  Lemma exec_stop_spec s ty : SI s -> SI (exec_stop s ty).
  Proof.
    intros HI. unfold exec_stop. destruct (q_get ty (s_q s)); [|exact HI].
    unfold SI. simpl. eapply Inv_shr; [exact HI|]. eapply cshr_remove_service_type; eauto.
  Qed.

  Lemma exec_verify_spec s inst timeout rep :
    SI s -> SI (fst (exec_verify s now inst timeout rep)) /\ OK (snd (exec_verify s now inst timeout rep)).
  Proof.
    intros HI. unfold exec_verify.
    pose proof (cshr_verify _ _ inst (if rep then None else Some (now + timeout)) HI) as Hs.
    destruct (service_verify_queries (s_cache s) inst (if rep then None else Some (now + timeout))) as [c1 qs].
    simpl in Hs. assert (H1 : Inv (prev ++ cur) c1) by (eapply Inv_shr; eauto).
    destruct qs as [|q0 qs]; simpl.
    - split; [exact H1|constructor].
    - split; [destruct rep; exact H1|]. constructor; [apply ok_query|constructor].
  Qed.

  Lemma exec_call_spec s cl : SI s -> SI (fst (exec_call s now cl)) /\ OK (snd (exec_call s now cl)).
  Proof.
    intros HI. destruct cl; simpl.
    - now apply exec_browse_spec.
    - split; [now apply exec_stop_spec|constructor].
    - now apply exec_verify_spec.
    - split; [exact HI|]. constructor; [apply ok_metrics|constructor].
  Qed.

  Lemma exec_resolve_spec s inst n : SI s -> SI (fst (exec_resolve s now inst n)) /\ OK (snd (exec_resolve s now inst n)).
  Proof.
    intros HI. unfold exec_resolve.
    assert (Hq : OK (snd (query_unresolved (s_cache s) inst))).
    { unfold query_unresolved. destruct (negb (valid_instance_name inst)); [constructor|].
      destruct (bm_get inst (c_srv (s_cache s))); [|constructor; [apply ok_query|constructor]].
      match goal with |- context [find ?f ?l] => destruct (find f l) end;
        [constructor; [apply ok_query|constructor]|constructor]. }
    assert (Hq2 : OK (snd (if has_ptr_to (s_cache s) inst then query_unresolved (s_cache s) inst else (false, []))))
      by (destruct (has_ptr_to (s_cache s) inst); [exact Hq|constructor]).
    clear Hq. rename Hq2 into Hq.
    destruct (if has_ptr_to (s_cache s) inst then query_unresolved (s_cache s) inst else (false, [])) as [sent o]. simpl in Hq.
    destruct (sent && retry_guard n max_try); simpl; split; assumption.
  Qed.

  Lemma exec_rcmd_spec s c : SI s -> SI (fst (exec_rcmd s now c)) /\ OK (snd (exec_rcmd s now c)).
  Proof. intros HI. destruct c; simpl; [now apply exec_resolve_spec|now apply exec_verify_spec]. Qed.

  Lemma run_cmds_spec {C} (f : st -> N -> C -> st * list out) :
    (forall s c, SI s -> SI (fst (f s now c)) /\ OK (snd (f s now c))) ->
    forall l s, SI s -> SI (fst (run_cmds f s now l)) /\ OK (snd (run_cmds f s now l)).
  Proof.
    intros Hf l. induction l as [|c t IH]; intros s HI; simpl; [split; [exact HI|constructor]|].
    destruct (Hf s c HI) as [H1 H2]. destruct (f s now c) as [s1 o1]. simpl in *.
    destruct (IH s1 H1) as [H3 H4]. destruct (run_cmds f s1 now t) as [s2 o2]. simpl in *.
    split; [exact H3|]. apply Forall_app. split; assumption.
  Qed.

  Lemma run_retrans_spec s : SI s -> SI (fst (run_retrans s now)) /\ OK (snd (run_retrans s now)).
  Proof. intros HI. unfold run_retrans. apply run_cmds_spec; [apply exec_rcmd_spec|exact HI]. Qed.

  Lemma refresh_all_spec q : forall c,
    Inv (prev ++ cur) c -> Inv (prev ++ cur) (fst (refresh_all c now q)) /\ OK (snd (refresh_all c now q)).
  Proof.
    induction q as [|[ty ch] rest IH]; intros c HI; simpl; [split; [exact HI|constructor]|].
    pose proof (cshr_refresh_type _ _ ty now HI) as Hs.
    destruct (refresh_type c ty now) as [c1 qs]. simpl in Hs.
    assert (H1 : Inv (prev ++ cur) c1) by (eapply Inv_shr; eauto).
    destruct (IH c1 H1) as [H2 H3]. destruct (refresh_all c1 now rest) as [c2 o]. simpl in *.
    split; [exact H2|]. apply Forall_app. split; [|exact H3].
    apply Forall_forall. intros x Hx. apply in_map_iff in Hx as [y [<- _]]. apply ok_query.
  Qed.

  Lemma resolve_hosts_spec names : forall s,
    SI s -> SI (fst (resolve_hosts s now names)) /\ OK (snd (resolve_hosts s now names)).
  Proof.
    induction names as [|h t IH]; intros s HI; simpl; [split; [exact HI|constructor]|].
    destruct (resolve_updated_spec prev cur now s (dedup (get_instances_on_host (s_cache s) h)) HI Htimes) as [H1 H2].
    destruct (resolve_updated s now (dedup (get_instances_on_host (s_cache s) h))) as [s1 o1]. simpl in *.
    assert (HI1 : SI s1) by (unfold SI; now rewrite H1).
    destruct (IH s1 HI1) as [H3 H4]. destruct (resolve_hosts s1 now t) as [s2 o2]. simpl in *.
    split; [exact H3|]. apply Forall_app. split; assumption.
  Qed.

  Lemma evict_spec s : SI s -> SI (fst (evict s now)) /\ OK (snd (evict s now)).
  Proof.
    intros HI. unfold evict.
    pose proof (cshr_evict_services _ _ now HI) as Hs1.
    destruct (evict_services (s_cache s) now) as [c1 expired]. simpl in Hs1.
    assert (H1 : Inv (prev ++ cur) c1) by (eapply Inv_shr; eauto).
    pose proof (cshr_evict_addr _ _ now H1) as Hs2.
    destruct (evict_addr c1 now) as [c2 names]. simpl in Hs2.
    assert (H2 : Inv (prev ++ cur) c2) by (eapply Inv_shr; eauto).
    destruct (resolve_hosts_spec (dedup names) (with_cache s c2) H2) as [H3 H4].
    destruct (resolve_hosts (with_cache s c2) now (dedup names)) as [s2 o2]. simpl in *.
    split; [exact H3|]. apply Forall_app. split; [apply notify_removal_ok|exact H4].
  Qed.
End Phases.

(* ---- one iteration, a whole history ------------------------------------------------------------------------- *)

Theorem iterate_spec ifs prev s it :
  Inv prev (s_cache s) -> times_le prev (i_now it) ->
  Inv (prev ++ iter_dlvs ifs it) (s_cache (fst (iterate ifs s it)))
  /\ Forall (ok prev (iter_dlvs ifs it) (i_now it)) (snd (iterate ifs s it)).
Proof.
  intros HI Ht. unfold iterate, iter_dlvs. set (now := i_now it) in *.
  set (cur := flat_map (dgram_dlvs ifs now) (deliveries_in_order (i_dgrams it))).
  assert (HI0 : Inv (prev ++ []) (s_cache s)) by now rewrite app_nil_r.
  destruct (reads_spec ifs prev now (deliveries_in_order (i_dgrams it)) [] s HI0 Ht) as [H1 O1].
  simpl in H1, O1. fold cur in H1, O1.
  destruct (run_cmds (handle_read ifs) s now (deliveries_in_order (i_dgrams it))) as [s1 o1]. simpl in *.
  destruct (run_cmds_spec prev cur now exec_call (exec_call_spec prev cur now Ht) (i_calls it) s1 H1) as [H2 O2].
  destruct (run_cmds exec_call s1 now (i_calls it)) as [s2 o2]. simpl in *.
  destruct (run_retrans_spec prev cur now s2 H2) as [H3 O3].
  destruct (run_retrans s2 now) as [s3 o3]. simpl in *.
  destruct (refresh_all_spec prev cur now (s_q s3) (s_cache s3) H3) as [H4 O4].
  destruct (refresh_all (s_cache s3) now (s_q s3)) as [c4 o4]. simpl in *.
  destruct (evict_spec prev cur now Ht (with_cache s3 c4) H4) as [H5 O5].
  destruct (evict (with_cache s3 c4) now) as [s5 o5]. simpl in *.
  split; [exact H5|]. repeat (apply Forall_app; split); assumption.
Qed.

Lemma iter_dlvs_times ifs it d : In d (iter_dlvs ifs it) -> dl_t d = i_now it.
Proof.
  unfold iter_dlvs. intros H. apply in_flat_map in H as [g [_ H]]. unfold dgram_dlvs in H.
  destruct (accepted_msg ifs g); [|destruct H]. apply in_map_iff in H as [r [<- _]]. reflexivity.
Qed.

Theorem run_from_chk ifs : forall h prev s t0,
  Inv prev (s_cache s) -> times_le prev t0 -> times_mono t0 h = true ->
  chk_C03_from ifs prev h (run_from ifs s h) = true.
Proof.
  induction h as [|it h IH]; intros prev s t0 HI Ht Hm; simpl; [reflexivity|].
  simpl in Hm. apply andb_true_iff in Hm as [Hm1 Hm2]. apply N.leb_le in Hm1.
  assert (Ht' : times_le prev (i_now it)) by (intros d Hd; specialize (Ht d Hd); lia).
  destruct (iterate_spec ifs prev s it HI Ht') as [H1 H2].
  destruct (iterate ifs s it) as [s1 o]. simpl in *.
  apply andb_true_iff. split.
  - apply forallb_forall. rewrite Forall_forall in H2. exact H2.
  - apply (IH _ s1 (i_now it)); [exact H1| |exact Hm2].
    intros d Hd. apply in_app_iff in Hd as [Hd|Hd]; [now apply Ht'|].
    rewrite (iter_dlvs_times _ _ _ Hd). lia.
Qed.

(* C03, history level: every ServiceResolved the model emits is justified by live received records *)
Theorem resolved_is_live ifs h : wf_history h = true -> chk_C03 ifs h (run_history ifs h) = true.
Proof.
  intros Hwf. unfold chk_C03, run_history. apply (run_from_chk ifs h [] init_st 0).
  - apply Inv_empty.
  - intros d [].
  - exact Hwf.
Qed.

(* the state reached after any history satisfies the cache invariant for the log of its deliveries *)
Fixpoint state_after (ifs : iftab) (s : st) (h : list iter) : st :=
  match h with [] => s | it :: t => state_after ifs (fst (iterate ifs s it)) t end.

Definition log_of (ifs : iftab) (h : list iter) : list dlv := flat_map (iter_dlvs ifs) h.

Theorem cache_from_history_aux ifs : forall h prev s t0,
  Inv prev (s_cache s) -> times_le prev t0 -> times_mono t0 h = true ->
  Inv (prev ++ log_of ifs h) (s_cache (state_after ifs s h)).
Proof.
  induction h as [|it h IH]; intros prev s t0 HI Ht Hm; simpl.
  - now rewrite app_nil_r.
  - simpl in Hm. apply andb_true_iff in Hm as [Hm1 Hm2]. apply N.leb_le in Hm1.
    assert (Ht' : times_le prev (i_now it)) by (intros d Hd; specialize (Ht d Hd); lia).
    destruct (iterate_spec ifs prev s it HI Ht') as [H1 _].
    rewrite app_assoc. apply (IH _ _ (i_now it)); [exact H1| |exact Hm2].
    intros d Hd. apply in_app_iff in Hd as [Hd|Hd]; [now apply Ht'|].
    rewrite (iter_dlvs_times _ _ _ Hd). lia.
Qed.

Theorem cache_from_history ifs h :
  wf_history h = true -> Inv (log_of ifs h) (s_cache (state_after ifs init_st h)).
Proof.
  intros Hwf. apply (cache_from_history_aux ifs h [] init_st 0); [apply Inv_empty|intros ? []|exact Hwf].
Qed.

(* in plain terms: every cached record was delivered, at the time recorded as its creation, on
   the interface it is tagged with (addresses), is filed under its own name and type, and
   expires no later than its TTL allows *)
Corollary cache_entry_delivered ifs h k key b e :
  wf_history h = true ->
  In (key, b) (get_map (s_cache (state_after ifs init_st h)) k) -> In e b ->
  exists d, In d (log_of ifs h) /\ dl_rr d = e_rr e /\ dl_t d = e_created e
    /\ (is_addr_type (e_type e) = true -> dl_if d = e_if e)
    /\ e_expires e <= e_created e + 1000 * e_ttl e
    /\ kind_of_type (e_type e) = Some k /\ key = key_of k (e_name e).
Proof.
  intros Hwf Hin He. destruct (cache_from_history ifs h Hwf k) as [_ H].
  destruct (H key b Hin) as [_ Hok]. destruct (Hok e He) as (A & B & L1 & d & L2 & HL & C & D & E & _ & F & _).
  exists d. repeat split; auto. rewrite HL. apply in_app_iff. right. now left.
Qed.
