(* The probe state machine of one interface's DnsRegistry (Model/Registry.v), for every sequence
   of operations and every sequence of times:
     - consecutive probe queries for a name are at least 250 ms apart,
     - a name becomes active no earlier than 750 ms after its probe's start and 250 ms after its
       last probe query,
     - on a schedule that is never late the timetable is exactly T, T+250, T+500, active at T+750,
     - a record is reported "probing done" only after its name was activated. *)
From Coq Require Import List NArith Bool Lia.
From Mdns Require Import Bytes Rec ParamsRegistry Names Registry RegistryParamsPinned.
Import ListNotations.
Open Scope N_scope.

(* ---- association lists -------------------------------------------------------------------------- *)

Section AListFacts.
  Context {V : Type}.
  Implicit Types (l : list (bytes * V)).

  Definition keys l : list bytes := map fst l.

  Lemma aget_In k v l : aget k l = Some v -> In (k, v) l.
  Proof.
    induction l as [|[k' v'] t IH]; simpl; [discriminate|].
    destruct (beq k k') eqn:E; intros H.
    - apply beq_eq in E. inversion H; subst. left. reflexivity.
    - right. auto.
  Qed.

  Lemma aget_none_notin k l : aget k l = None -> ~ In k (keys l).
  Proof.
    induction l as [|[k' v'] t IH]; simpl; [tauto|].
    destruct (beq k k') eqn:E; [discriminate|]. intros H [H1|H1].
    - subst. rewrite beq_refl in E. discriminate.
    - apply IH; assumption.
  Qed.

  Lemma In_aget k v l : NoDup (keys l) -> In (k, v) l -> aget k l = Some v.
  Proof.
    induction l as [|[k' v'] t IH]; simpl; [tauto|]. intros Hnd [H|H].
    - inversion H; subst. rewrite beq_refl. reflexivity.
    - inversion Hnd; subst. destruct (beq k k') eqn:E.
      + apply beq_eq in E. subst. exfalso. apply H2. change k' with (fst (k', v)). apply in_map. assumption.
      + auto.
  Qed.

  (* entries of aset: the new binding, or an old binding under another key *)
  Lemma aset_entries k v l k1 v1 :
    NoDup (keys l) -> In (k1, v1) (aset k v l) -> (k1 = k /\ v1 = v) \/ (k1 <> k /\ In (k1, v1) l).
  Proof.
    induction l as [|[k' v'] t IH]; simpl; intros Hnd.
    - intros [H|[]]. inversion H. auto.
    - inversion Hnd; subst. destruct (beq k k') eqn:E; simpl.
      + apply beq_eq in E. subst k'. intros [H|H].
        * inversion H. auto.
        * right. split; [|right; assumption]. intros ->. apply H1.
          change k with (fst (k, v1)). apply in_map. assumption.
      + intros [H|H].
        * inversion H; subst. right. split; [|left; reflexivity].
          intros ->. rewrite beq_refl in E. discriminate.
        * destruct (IH H2 H) as [?|[? ?]]; auto.
  Qed.

  Lemma keys_aset k v l : forall x, In x (keys (aset k v l)) <-> x = k \/ In x (keys l).
  Proof.
    induction l as [|[k' v'] t IH]; simpl; intros x.
    - split; intros [H|H]; subst; auto; contradiction.
    - destruct (beq k k') eqn:E; simpl.
      + apply beq_eq in E. subst. split; intros H; intuition auto.
      + rewrite IH. split; intros H; intuition auto.
  Qed.

  Lemma NoDup_aset k v l : NoDup (keys l) -> NoDup (keys (aset k v l)).
  Proof.
    induction l as [|[k' v'] t IH]; simpl; intros H.
    - constructor; [tauto|constructor].
    - inversion H; subst. destruct (beq k k') eqn:E; simpl.
      + apply beq_eq in E. subst. constructor; assumption.
      + constructor; [|auto]. intros Hin. apply keys_aset in Hin as [->|Hin]; [|contradiction].
        rewrite beq_refl in E. discriminate.
  Qed.

  Lemma aget_aset_same k v l : aget k (aset k v l) = Some v.
  Proof.
    induction l as [|[k' v'] t IH]; simpl.
    - rewrite beq_refl. reflexivity.
    - destruct (beq k k') eqn:E; simpl; [rewrite beq_refl; reflexivity|rewrite E; assumption].
  Qed.

  Lemma aget_aset_other k k1 v l : k1 <> k -> aget k1 (aset k v l) = aget k1 l.
  Proof.
    intros Hne. induction l as [|[k' v'] t IH]; simpl.
    - destruct (beq k1 k) eqn:E; [apply beq_eq in E; contradiction|reflexivity].
    - destruct (beq k k') eqn:E; simpl.
      + apply beq_eq in E. subst. destruct (beq k1 k') eqn:E1; [apply beq_eq in E1; contradiction|reflexivity].
      + destruct (beq k1 k'); [reflexivity|assumption].
  Qed.

  Lemma adel_entries k l k1 v1 : In (k1, v1) (adel k l) -> In (k1, v1) l.
  Proof.
    induction l as [|[k' v'] t IH]; simpl; [tauto|].
    destruct (beq k k'); simpl; [auto|]. intros [H|H]; auto.
  Qed.

  Lemma keys_adel k l x : In x (keys (adel k l)) -> In x (keys l).
  Proof.
    induction l as [|[k' v'] t IH]; simpl; [tauto|].
    destruct (beq k k'); simpl; [auto|]. intros [H|H]; auto.
  Qed.

  Lemma NoDup_adel k l : NoDup (keys l) -> NoDup (keys (adel k l)).
  Proof.
    induction l as [|[k' v'] t IH]; simpl; intros H; [constructor|].
    inversion H; subst. destruct (beq k k'); simpl; [assumption|].
    constructor; [|auto]. intros Hin. apply keys_adel in Hin. contradiction.
  Qed.

  Lemma aget_adel_same k l : NoDup (keys l) -> aget k (adel k l) = None.
  Proof.
    induction l as [|[k' v'] t IH]; simpl; intros H; [reflexivity|].
    inversion H; subst. destruct (beq k k') eqn:E; simpl.
    - apply beq_eq in E. subst. destruct (aget k' t) eqn:G; [|reflexivity].
      apply aget_In in G. exfalso. apply H2. change k' with (fst (k', v)). apply in_map. assumption.
    - rewrite E. auto.
  Qed.

  Lemma aget_adel_other k k1 l : k1 <> k -> aget k1 (adel k l) = aget k1 l.
  Proof.
    intros Hne. induction l as [|[k' v'] t IH]; simpl; [reflexivity|].
    destruct (beq k k') eqn:E; simpl.
    - apply beq_eq in E. subst. destruct (beq k1 k') eqn:E1; [apply beq_eq in E1; contradiction|reflexivity].
    - destruct (beq k1 k'); [reflexivity|assumption].
  Qed.
End AListFacts.

(* ---- check_probing as a map over the probes -------------------------------------------------------- *)

Definition sends (now : N) (p : probe) : bool := probe_due (pb_next p) now && negb (probe_expired (pb_start p) now).
Definition expires (now : N) (p : probe) : bool := probe_due (pb_next p) now && probe_expired (pb_start p) now.
Definition tick_probe (now : N) (p : probe) : probe :=
  if sends now p then mkProbe (pb_records p) (pb_waiting p) (pb_start p) (probe_next_send now) else p.

Lemma check_probes_spec ps now :
  check_probes ps now =
  (map (fun np => (fst np, tick_probe now (snd np))) ps,
   flat_map (fun np => if sends now (snd np) then [(fst np, pb_records (snd np))] else []) ps,
   flat_map (fun np => if expires now (snd np) then [fst np] else []) ps).
Proof.
  induction ps as [|[n p] t IH]; simpl; [reflexivity|].
  rewrite IH. unfold tick_probe, sends, expires. simpl.
  destruct (probe_due (pb_next p) now); simpl; [|reflexivity].
  destruct (probe_expired (pb_start p) now); reflexivity.
Qed.

Lemma sends_iff now p : sends now p = true <-> pb_next p <= now /\ now < pb_start p + 750.
Proof.
  unfold sends. rewrite probe_due_pinned, probe_expired_pinned, andb_true_iff, negb_true_iff, N.leb_le, N.leb_gt.
  tauto.
Qed.

Lemma expires_iff now p : expires now p = true <-> pb_next p <= now /\ pb_start p + 750 <= now.
Proof.
  unfold expires. rewrite probe_due_pinned, probe_expired_pinned, andb_true_iff, !N.leb_le. tauto.
Qed.

(* ---- ghost: the time of the last probe query per name ------------------------------------------------- *)

Definition lastmap := bytes -> option N.
Definition upd_all (f : lastmap) (names : list bytes) (now : N) : lastmap :=
  fun x => if mem x names then Some now else f x.

Record Inv (ps : list (bytes * probe)) (f : lastmap) (t : N) : Prop := mkInv {
  inv_nodup : NoDup (keys ps);
  inv_next : forall n p L, In (n, p) ps -> f n = Some L -> L + 250 <= pb_next p;
  inv_absent : forall n L, f n = Some L -> aget n ps = None -> L + 250 <= t;
  inv_past : forall n L, f n = Some L -> L <= t }.

Lemma Inv_init t : Inv [] (fun _ => None) t.
Proof. constructor; simpl; try discriminate; try tauto. constructor. Qed.

Lemma Inv_later ps f t t' : Inv ps f t -> t <= t' -> Inv ps f t'.
Proof.
  intros [H1 H2 H3 H4] Hle. constructor; auto.
  - intros n L Hf Hg. specialize (H3 n L Hf Hg). lia.
  - intros n L Hf. specialize (H4 n L Hf). lia.
Qed.

(* ---- updates that keep every probe's next_send, defer it by a lost tie-break, or add probes that
        start now or later --------------------------------------------------------------------------------- *)

Definition desc (now : N) (ps ps' : list (bytes * probe)) : Prop :=
  NoDup (keys ps') /\
  (forall n p', In (n, p') ps' ->
     (exists p, In (n, p) ps /\ (pb_next p' = pb_next p \/ pb_next p' = now + 1000))
     \/ (aget n ps = None /\ now <= pb_next p')) /\
  (forall n, aget n ps' = None -> aget n ps = None).

Lemma desc_refl now ps : NoDup (keys ps) -> desc now ps ps.
Proof. intros H. split; [assumption|split]; [|auto]. intros n p' Hin. left. exists p'. auto. Qed.

Lemma desc_trans now ps1 ps2 ps3 : desc now ps1 ps2 -> desc now ps2 ps3 -> desc now ps1 ps3.
Proof.
  intros (N2 & D2 & A2) (N3 & D3 & A3). split; [assumption|split]; [|auto].
  intros n p3 Hin. destruct (D3 n p3 Hin) as [(p2 & Hin2 & Hn)|(Hnone & Hle)].
  - destruct (D2 n p2 Hin2) as [(p1 & Hin1 & Hn1)|(Hnone1 & Hle1)].
    + left. exists p1. split; [assumption|]. destruct Hn as [->| ->]; auto.
    + right. split; [assumption|]. destruct Hn as [->| ->]; lia.
  - right. split; auto.
Qed.

Lemma desc_aset_same now ps k p p' :
  NoDup (keys ps) -> aget k ps = Some p -> (pb_next p' = pb_next p \/ pb_next p' = now + 1000) ->
  desc now ps (aset k p' ps).
Proof.
  intros Hnd Hg Hn. split; [apply NoDup_aset; assumption|split].
  - intros n q Hin. destruct (aset_entries _ _ _ _ _ Hnd Hin) as [[-> ->]|[Hne Hin']].
    + left. exists p. split; [apply aget_In; assumption|assumption].
    + left. exists q. auto.
  - intros n Hnone. destruct (beq n k) eqn:E.
    + apply beq_eq in E. subst. rewrite aget_aset_same in Hnone. discriminate.
    + rewrite aget_aset_other in Hnone; [assumption|]. intros ->. rewrite beq_refl in E. discriminate.
Qed.

Lemma desc_aset_new now ps k p' :
  NoDup (keys ps) -> aget k ps = None -> now <= pb_next p' -> desc now ps (aset k p' ps).
Proof.
  intros Hnd Hg Hn. split; [apply NoDup_aset; assumption|split].
  - intros n q Hin. destruct (aset_entries _ _ _ _ _ Hnd Hin) as [[-> ->]|[Hne Hin']].
    + right. auto.
    + left. exists q. auto.
  - intros n Hnone. destruct (beq n k) eqn:E.
    + apply beq_eq in E. subst. assumption.
    + rewrite aget_aset_other in Hnone; [assumption|]. intros ->. rewrite beq_refl in E. discriminate.
Qed.

Lemma keys_map_snd (g : probe -> probe) ps : keys (map (fun np => (fst np, g (snd np))) ps) = keys ps.
Proof. unfold keys. rewrite map_map. reflexivity. Qed.

Lemma aget_map_snd (g : probe -> probe) ps n :
  aget n (map (fun np => (fst np, g (snd np))) ps) = option_map g (aget n ps).
Proof.
  induction ps as [|[k p] t IH]; simpl; [reflexivity|]. destruct (beq n k); [reflexivity|assumption].
Qed.

Lemma desc_map now ps (g : probe -> probe) :
  NoDup (keys ps) -> (forall p, pb_next (g p) = pb_next p) ->
  desc now ps (map (fun np => (fst np, g (snd np))) ps).
Proof.
  intros Hnd Hg. split; [rewrite keys_map_snd; assumption|split].
  - intros n p' Hin. apply in_map_iff in Hin as ([k p] & E & Hin). simpl in E. inversion E; subst.
    left. exists p. auto.
  - intros n Hnone. rewrite aget_map_snd in Hnone. destruct (aget n ps); [discriminate|reflexivity].
Qed.

Lemma desc_nodup now ps ps' : desc now ps ps' -> NoDup (keys ps').
Proof. intros (H & _). exact H. Qed.

Lemma Inv_desc ps ps' f t now : Inv ps f t -> t <= now -> desc now ps ps' -> Inv ps' f now.
Proof.
  intros [H1 H2 H3 H4] Hle (N' & D & A). constructor; [assumption| | |].
  - intros n p' L Hin Hf. destruct (D n p' Hin) as [(p & Hinp & Hn)|(Hnone & Hn)].
    + specialize (H2 n p L Hinp Hf). specialize (H4 n L Hf). destruct Hn as [->| ->]; lia.
    + specialize (H3 n L Hf Hnone). lia.
  - intros n L Hf Hnone. specialize (H3 n L Hf (A n Hnone)). lia.
  - intros n L Hf. specialize (H4 n L Hf). lia.
Qed.

(* ---- one probing pass --------------------------------------------------------------------------------------- *)

Lemma tick_probe_next now p : sends now p = true -> pb_next (tick_probe now p) = now + 250.
Proof. intros H. unfold tick_probe. rewrite H. simpl. apply probe_next_send_pinned. Qed.

Lemma tick_probe_id now p : sends now p = false -> tick_probe now p = p.
Proof. intros H. unfold tick_probe. rewrite H. reflexivity. Qed.

Lemma sent_names_iff ps now n :
  In n (map fst (flat_map (fun np : bytes * probe => if sends now (snd np) then [(fst np, pb_records (snd np))] else []) ps))
  <-> exists p, In (n, p) ps /\ sends now p = true.
Proof.
  rewrite in_map_iff. split.
  - intros ([k recs] & E & Hin). simpl in E. subst k. apply in_flat_map in Hin as ([k p] & Hin & Hx).
    simpl in Hx. destruct (sends now p) eqn:S; [|contradiction]. destruct Hx as [Hx|[]]. inversion Hx; subst. eauto.
  - intros (p & Hin & S). exists (n, pb_records p). split; [reflexivity|].
    apply in_flat_map. exists (n, p). split; [assumption|]. simpl. rewrite S. left. reflexivity.
Qed.

Lemma expired_names_iff ps now n :
  In n (flat_map (fun np : bytes * probe => if expires now (snd np) then [fst np] else []) ps)
  <-> exists p, In (n, p) ps /\ expires now p = true.
Proof.
  rewrite in_flat_map. split.
  - intros ([k p] & Hin & Hx). simpl in Hx. destruct (expires now p) eqn:S; [|contradiction].
    destruct Hx as [Hx|[]]. subst. eauto.
  - intros (p & Hin & S). exists (n, p). split; [assumption|]. simpl. rewrite S. left. reflexivity.
Qed.

Lemma sends_expires_excl now p : sends now p = true -> expires now p = false.
Proof.
  unfold sends, expires. destruct (probe_due (pb_next p) now); simpl; [|reflexivity].
  destruct (probe_expired (pb_start p) now); simpl; [discriminate|reflexivity].
Qed.

Lemma tick_inv ps f t now :
  Inv ps f t -> t <= now ->
  forall ps' qs ex, check_probes ps now = (ps', qs, ex) ->
  Inv ps' (upd_all f (map fst qs) now) now /\
  (forall n, In n (map fst qs) -> match f n with Some L => L + 250 <= now | None => True end) /\
  (forall n, In n ex -> exists p, In (n, p) ps' /\ pb_next p <= now /\ pb_start p + 750 <= now) /\
  (forall n, In n ex -> match f n with Some L => L + 250 <= now | None => True end) /\
  (forall n, In n ex -> ~ In n (map fst qs)).
Proof.
  intros [Hnd Hnext Habs Hpast] Hle ps' qs ex Hck. rewrite check_probes_spec in Hck.
  inversion Hck; subst ps' qs ex; clear Hck.
  set (names := map fst (flat_map (fun np : bytes * probe => if sends now (snd np) then [(fst np, pb_records (snd np))] else []) ps)).
  assert (Huniq : forall n p q, In (n, p) ps -> In (n, q) ps -> p = q).
  { intros n p q H1 H2. apply (In_aget _ _ _ Hnd) in H1. apply (In_aget _ _ _ Hnd) in H2. congruence. }
  split; [|split; [|split; [|split]]].
  - constructor.
    + rewrite keys_map_snd. assumption.
    + intros n p' L Hin Hf. apply in_map_iff in Hin as ([k p] & E & Hin). simpl in E. inversion E; subst k p'; clear E.
      unfold upd_all in Hf. destruct (mem n names) eqn:M.
      * inversion Hf; subst L. apply mem_In in M. apply sent_names_iff in M as (q & Hq & S).
        rewrite (Huniq _ _ _ Hin Hq). rewrite tick_probe_next by assumption. lia.
      * destruct (sends now p) eqn:S.
        -- exfalso. assert (In n names) as Hc by (apply sent_names_iff; eauto).
           apply mem_In in Hc. congruence.
        -- rewrite tick_probe_id by assumption. eauto.
    + intros n L Hf Hg. rewrite aget_map_snd in Hg. destruct (aget n ps) eqn:G; [discriminate|].
      unfold upd_all in Hf. destruct (mem n names) eqn:M.
      * apply mem_In in M. apply sent_names_iff in M as (q & Hq & _).
        apply (In_aget _ _ _ Hnd) in Hq. congruence.
      * specialize (Habs n L Hf G). lia.
    + intros n L Hf. unfold upd_all in Hf. destruct (mem n names).
      * inversion Hf. lia.
      * specialize (Hpast n L Hf). lia.
  - intros n Hin. apply sent_names_iff in Hin as (p & Hp & S). apply sends_iff in S as [S1 S2].
    destruct (f n) eqn:F; [|exact I]. specialize (Hnext n p n0 Hp F). lia.
  - intros n Hin. apply expired_names_iff in Hin as (p & Hp & S).
    exists p. apply expires_iff in S as S'. destruct S' as [S1 S2]. split; [|auto].
    apply in_map_iff. exists (n, p). split; [|assumption]. simpl.
    rewrite tick_probe_id; [reflexivity|].
    destruct (sends now p) eqn:X; [|reflexivity]. apply sends_expires_excl in X. congruence.
  - intros n Hin. apply expired_names_iff in Hin as (p & Hp & S). apply expires_iff in S as [S1 S2].
    destruct (f n) eqn:F; [|exact I]. specialize (Hnext n p n0 Hp F). lia.
  - intros n Hin Hq. apply expired_names_iff in Hin as (p & Hp & S).
    apply sent_names_iff in Hq as (q & Hq & S'). rewrite (Huniq _ _ _ Hp Hq) in S.
    apply sends_expires_excl in S'. congruence.
Qed.

(* removing finished probes *)
Lemma Inv_adel ps f now n :
  Inv ps f now -> (forall p, In (n, p) ps -> pb_next p <= now) -> Inv (adel n ps) f now.
Proof.
  intros [Hnd Hnext Habs Hpast] Hdue. constructor; [apply NoDup_adel; assumption| | |assumption].
  - intros m p L Hin Hf. apply adel_entries in Hin. eauto.
  - intros m L Hf Hg. destruct (beq m n) eqn:E.
    + apply beq_eq in E. subst m. destruct (aget n ps) eqn:G.
      * apply aget_In in G. specialize (Hnext n p L G Hf). specialize (Hdue p G). lia.
      * eauto.
    + rewrite aget_adel_other in Hg; [eauto|]. intros ->. rewrite beq_refl in E. discriminate.
Qed.

Lemma expire_one_probing rg name :
  rg_probing (fst (fst (expire_one rg name))) = adel name (rg_probing rg) \/
  (aget name (rg_probing rg) = None /\ fst (fst (expire_one rg name)) = rg).
Proof.
  unfold expire_one. destruct (aget name (rg_probing rg)) eqn:G; [|right; auto].
  left. destruct (pb_records p); reflexivity.
Qed.

Lemma Inv_expire_all ex : forall rg f now,
  Inv (rg_probing rg) f now ->
  (forall n p, In n ex -> In (n, p) (rg_probing rg) -> pb_next p <= now) ->
  Inv (rg_probing (fst (fst (expire_all rg ex)))) f now.
Proof.
  induction ex as [|n t IH]; intros rg f now HI Hdue; simpl; [assumption|].
  destruct (expire_one rg n) as [[rg1 ev1] w1] eqn:E1.
  destruct (expire_all rg1 t) as [[rg2 ev2] w2] eqn:E2. simpl.
  replace rg2 with (fst (fst (expire_all rg1 t))) by (rewrite E2; reflexivity).
  assert (H1 : Inv (rg_probing rg1) f now /\ forall m p, In (m, p) (rg_probing rg1) -> In (m, p) (rg_probing rg)).
  { pose proof (expire_one_probing rg n) as Hp. rewrite E1 in Hp. simpl in Hp. destruct Hp as [Hp|[_ Hp]].
    - rewrite Hp. split; [apply Inv_adel; [assumption|]|].
      + intros p Hin. apply (Hdue n p); [left; reflexivity|assumption].
      + intros m p Hin. eapply adel_entries; eassumption.
    - subst rg1. auto. }
  destruct H1 as [HI1 Hsub]. apply IH; [assumption|].
  intros m p Hm Hin. apply (Hdue m p); [right; assumption|auto].
Qed.

Lemma tick_names_inv rg f t now rg' qs ex :
  Inv (rg_probing rg) f t -> t <= now -> tick_names rg now = (rg', qs, ex) ->
  Inv (rg_probing rg') (upd_all f qs now) now /\
  (forall n, In n qs \/ In n ex -> match f n with Some L => L + 250 <= now | None => True end) /\
  (forall n, In n ex -> ~ In n qs).
Proof.
  intros HI Hle Ht. unfold tick_names in Ht.
  destruct (check_probes (rg_probing rg) now) as [[ps qs0] ex0] eqn:Hck.
  destruct (expire_all (mkReg ps (rg_active rg) (rg_changes rg)) ex0) as [[rg1 ev] w] eqn:Hex.
  inversion Ht; subst rg' qs ex; clear Ht.
  destruct (tick_inv _ _ _ _ HI Hle _ _ _ Hck) as (HI' & Hsp & Hexp & Hexp2 & Hdis).
  split; [|split].
  - replace rg1 with (fst (fst (expire_all (mkReg ps (rg_active rg) (rg_changes rg)) ex0))) by (rewrite Hex; reflexivity).
    apply Inv_expire_all; [exact HI'|].
    simpl. intros n p Hn Hin. destruct (Hexp n Hn) as (q & Hq & Hd & _).
    destruct HI' as [Hnd _ _ _]. apply (In_aget _ _ _ Hnd) in Hin. apply (In_aget _ _ _ Hnd) in Hq.
    assert (p = q) by congruence. subst. assumption.
  - intros n [Hn|Hn]; [apply Hsp|apply Hexp2]; assumption.
  - assumption.
Qed.

(* ---- the other operations only keep, defer or add probes ---------------------------------------------------- *)

Lemma join_desc rg r svc now j :
  NoDup (keys (rg_probing rg)) ->
  desc now (rg_probing rg) (rg_probing (fst (is_probing_done rg r svc (now + j)))).
Proof.
  intros Hnd. unfold is_probing_done. destruct (in_active rg r); simpl; [apply desc_refl; assumption|].
  destruct (aget (p_name r) (rg_probing rg)) as [pb|] eqn:G.
  - eapply desc_aset_same; eauto.
  - apply desc_aset_new; auto. simpl. lia.
Qed.

Lemma tiebreak_next p incoming now :
  pb_next (tiebreak p incoming now) = pb_next p \/ pb_next (tiebreak p incoming now) = now + 1000.
Proof.
  unfold tiebreak. destruct (tiebreak_not_started (pb_start p) now); [auto|].
  destruct (tb_cmp (map p_rr (pb_records p)) incoming); simpl; auto.
Qed.

Lemma apply_tiebreak_desc rg qn incoming now :
  NoDup (keys (rg_probing rg)) -> desc now (rg_probing rg) (rg_probing (apply_tiebreak rg qn incoming now)).
Proof.
  intros Hnd. unfold apply_tiebreak. destruct (aget qn (rg_probing rg)) as [pb|] eqn:G; simpl.
  - eapply desc_aset_same; eauto. apply tiebreak_next.
  - apply desc_refl. assumption.
Qed.

(* folding steps that are each `desc` *)
Lemma fold_desc {A} now (proj : A -> list (bytes * probe)) {X} (step : A -> X -> A) (l : list X) :
  (forall acc x, NoDup (keys (proj acc)) -> desc now (proj acc) (proj (step acc x))) ->
  forall acc, NoDup (keys (proj acc)) -> desc now (proj acc) (proj (fold_left step l acc)).
Proof.
  intros Hstep. induction l as [|x t IH]; intros acc Hnd; simpl; [apply desc_refl; assumption|].
  eapply desc_trans; [apply Hstep; assumption|]. apply IH. eapply desc_nodup. apply Hstep. assumption.
Qed.

Lemma fold_left_preserves {A X} (P : A -> Prop) (step : A -> X -> A) (l : list X) :
  (forall a x, P a -> P (step a x)) -> forall a, P a -> P (fold_left step l a).
Proof. intros Hs. induction l as [|x t IH]; intros a Ha; simpl; auto. Qed.

(* conflict handling keeps one probe per name; it may restart probes (new names, and the probe of
   an SRV record whose target host was renamed): the spacing count starts afresh after it *)
Lemma update_hostname_nodup rg orig new_name pt :
  NoDup (keys (rg_probing rg)) -> NoDup (keys (rg_probing (fst (update_hostname rg orig new_name pt)))).
Proof.
  intros Hnd. unfold update_hostname.
  match goal with |- context [fold_left ?st ?l ?acc] =>
    apply (fold_left_preserves (fun a : registry * bool => NoDup (keys (rg_probing (fst a)))) st l)
  end.
  - intros [rg1 added] r0 H. simpl in *.
    destruct (aget (p_name (srv_set_host new_name r0)) (rg_probing rg1)); simpl; apply NoDup_aset; assumption.
  - simpl.
    rewrite (keys_map_snd (fun p : probe => mkProbe (filter (fun r => negb (srv_with_host orig r)) (pb_records p))
                                                  (pb_waiting p) (pb_start p) (pb_next p))).
    assumption.
Qed.

Lemma conflict_one_nodup rg ans ct :
  NoDup (keys (rg_probing rg)) -> NoDup (keys (rg_probing (conflict_one rg ans ct))).
Proof.
  intros Hnd. unfold conflict_one.
  destruct (aget (r_name ans) (rg_probing rg)) as [pb|]; [|assumption].
  match goal with |- context [fold_left ?st ?l ?acc] =>
    apply (fold_left_preserves (fun a : registry => NoDup (keys (rg_probing a))) st l)
  end.
  - intros rg1 r H.
    pose proof (update_hostname_nodup rg1 (r_name ans) (p_name r) ct H) as H2.
    destruct (update_hostname rg1 (r_name ans) (p_name r) ct) as [rg2 b]. simpl in *.
    apply NoDup_aset. assumption.
  - simpl. apply NoDup_aset. assumption.
Qed.

Lemma apply_conflict_nodup rg ans ct :
  NoDup (keys (rg_probing rg)) -> NoDup (keys (rg_probing (apply_conflict rg ans ct))).
Proof.
  intros H. unfold apply_conflict. destruct (conflict_applies rg ans); [apply conflict_one_nodup|]; assumption.
Qed.

Lemma Inv_reset ps t : NoDup (keys ps) -> Inv ps (fun _ => None) t.
Proof. intros H. constructor; [assumption| | |]; intros; discriminate. Qed.

(* ---- the theorem: spacing for every sequence of operations and times ------------------------------------------------- *)

Definition ghost_after (f : lastmap) (o : rop) (qs : list bytes) (now : N) : lastmap :=
  if is_conflict o then (fun _ => None) else upd_all f qs now.

Lemma apply_op_inv rg f t now o rg' qs ex :
  Inv (rg_probing rg) f t -> t <= now -> apply_op rg now o = (rg', qs, ex) ->
  Inv (rg_probing rg') (ghost_after f o qs now) now /\
  (forall n, In n qs \/ In n ex -> match f n with Some L => L + 250 <= now | None => True end).
Proof.
  intros HI Hle Hop. destruct o as [|jr jsvc jj|qn incoming|ans cj]; simpl in Hop; unfold ghost_after; simpl.
  - destruct (tick_names_inv _ _ _ _ _ _ _ HI Hle Hop) as (H1 & H2 & _). auto.
  - inversion Hop; subst. split; [|intros n [[]|[]]].
    eapply Inv_desc; [exact HI|exact Hle|]. apply join_desc. destruct HI; assumption.
  - inversion Hop; subst. split; [|intros n [[]|[]]].
    eapply Inv_desc; [exact HI|exact Hle|]. apply apply_tiebreak_desc. destruct HI; assumption.
  - inversion Hop; subst. split; [|intros n [[]|[]]].
    apply Inv_reset. apply apply_conflict_nodup. destruct HI; assumption.
Qed.

Lemma spaced_run ops : forall rg f t n,
  Inv (rg_probing rg) f t -> times_from t ops -> spaced_250 n (f n) ops (run_ops rg ops).
Proof.
  induction ops as [|[now o] rest IH]; intros rg f t n HI Ht; simpl; [exact I|].
  destruct Ht as [Hle Hrest].
  destruct (apply_op rg now o) as [[rg' qs] ex] eqn:Hop.
  destruct (apply_op_inv _ _ _ _ _ _ _ _ HI Hle Hop) as [HI' Hsp].
  split.
  - intros [H|H]; apply mem_In in H; apply Hsp; auto.
  - specialize (IH rg' (ghost_after f o qs now) now n HI' Hrest).
    unfold ghost_after in IH. destruct (is_conflict o); [exact IH|unfold upd_all in IH; exact IH].
Qed.

Theorem probe_spacing_all_schedules_proof : forall ops n t0,
  times_from t0 ops -> spaced_250 n None ops (run_ops reg_new ops).
Proof.
  intros ops n t0 Ht. apply (spaced_run ops reg_new (fun _ => None) t0 n); [apply Inv_init|assumption].
Qed.

(* what spaced_250 says about the list of probe times (gaps_250 is defined in Model/Registry.v) *)
Definition no_conflicts (ops : list (N * rop)) : Prop := Forall (fun o => is_conflict (snd o) = false) ops.

Lemma spaced_probe_times n : forall ops rg last,
  no_conflicts ops -> spaced_250 n last ops (run_ops rg ops) ->
  gaps_250 (probe_times n (run_ops rg ops)) /\
  match last, probe_times n (run_ops rg ops) with Some l, a :: _ => l + 250 <= a | _, _ => True end.
Proof.
  induction ops as [|[t o] r IH]; intros rg last Hnc H; simpl in *.
  - split; [exact I|destruct last; exact I].
  - inversion Hnc as [|x l Ho Hr]; subst. simpl in Ho.
    destruct (apply_op rg t o) as [[rg' qs] ex] eqn:Hop. simpl in *. rewrite Ho in H.
    destruct H as [H1 H2]. unfold probe_times in *. cbn [flat_map].
    destruct (mem n qs) eqn:M; simpl.
    + destruct (IH rg' _ Hr H2) as [G1 G2]. split.
      * destruct (flat_map _ (run_ops rg' r)) eqn:P; [exact I|]. split; assumption.
      * destruct last; [apply H1; auto|exact I].
    + apply IH; assumption.
Qed.

(* ---- one name through one probing pass ---------------------------------------------------------------------------------- *)

Lemma aget_adel_none {V} k m (l : list (bytes * V)) : aget m l = None -> aget m (adel k l) = None.
Proof.
  induction l as [|[k' v'] t IH]; simpl; [auto|].
  destruct (beq m k') eqn:E; [discriminate|]. intros H.
  destruct (beq k k'); simpl; [assumption|]. rewrite E. auto.
Qed.

Lemma expire_all_keeps_none ex : forall rg m,
  aget m (rg_probing rg) = None -> aget m (rg_probing (fst (fst (expire_all rg ex)))) = None.
Proof.
  induction ex as [|n t IH]; intros rg m H; simpl; [assumption|].
  destruct (expire_one rg n) as [[rg1 ev1] w1] eqn:E1.
  destruct (expire_all rg1 t) as [[rg2 ev2] w2] eqn:E2. simpl.
  replace rg2 with (fst (fst (expire_all rg1 t))) by (rewrite E2; reflexivity).
  apply IH. pose proof (expire_one_probing rg n) as Hp. rewrite E1 in Hp. simpl in Hp.
  destruct Hp as [Hp|[_ Hp]]; [rewrite Hp; apply aget_adel_none; assumption|subst; assumption].
Qed.

Lemma expire_one_nodup rg n : NoDup (keys (rg_probing rg)) -> NoDup (keys (rg_probing (fst (fst (expire_one rg n))))).
Proof.
  intros H. destruct (expire_one_probing rg n) as [Hp|[_ Hp]]; [rewrite Hp; apply NoDup_adel; assumption|rewrite Hp; assumption].
Qed.

Lemma expire_all_aget ex : forall rg m,
  NoDup (keys (rg_probing rg)) ->
  aget m (rg_probing (fst (fst (expire_all rg ex)))) = if mem m ex then None else aget m (rg_probing rg).
Proof.
  induction ex as [|n t IH]; intros rg m Hnd; simpl; [reflexivity|].
  destruct (expire_one rg n) as [[rg1 ev1] w1] eqn:E1.
  destruct (expire_all rg1 t) as [[rg2 ev2] w2] eqn:E2. simpl.
  replace rg2 with (fst (fst (expire_all rg1 t))) by (rewrite E2; reflexivity).
  assert (Hnd1 : NoDup (keys (rg_probing rg1))).
  { replace rg1 with (fst (fst (expire_one rg n))) by (rewrite E1; reflexivity). apply expire_one_nodup. assumption. }
  pose proof (expire_one_probing rg n) as Hp. rewrite E1 in Hp. simpl in Hp.
  destruct (beq m n) eqn:E; simpl.
  - apply beq_eq in E. subst m. apply expire_all_keeps_none.
    destruct Hp as [Hp|[Hp1 Hp]]; [rewrite Hp; apply aget_adel_same; assumption|subst; assumption].
  - rewrite IH by assumption. destruct (mem m t); [reflexivity|].
    destruct Hp as [Hp|[_ Hp]]; [rewrite Hp; apply aget_adel_other; intros ->; rewrite beq_refl in E; discriminate|subst; reflexivity].
Qed.

Lemma expire_all_nodup ex : forall rg, NoDup (keys (rg_probing rg)) -> NoDup (keys (rg_probing (fst (fst (expire_all rg ex))))).
Proof.
  induction ex as [|n t IH]; intros rg H; simpl; [assumption|].
  destruct (expire_one rg n) as [[rg1 ev1] w1] eqn:E1.
  destruct (expire_all rg1 t) as [[rg2 ev2] w2] eqn:E2. simpl.
  replace rg2 with (fst (fst (expire_all rg1 t))) by (rewrite E2; reflexivity).
  apply IH. replace rg1 with (fst (fst (expire_one rg n))) by (rewrite E1; reflexivity). apply expire_one_nodup. assumption.
Qed.

Lemma tick_names_nodup rg now : NoDup (keys (rg_probing rg)) -> NoDup (keys (rg_probing (fst (fst (tick_names rg now))))).
Proof.
  intros H. unfold tick_names. rewrite check_probes_spec.
  match goal with |- context [expire_all ?r ?e] => destruct (expire_all r e) as [[rg1 ev] w] eqn:Hex end. simpl.
  replace rg1 with (fst (fst (expire_all
     (mkReg (map (fun np : bytes * probe => (fst np, tick_probe now (snd np))) (rg_probing rg)) (rg_active rg) (rg_changes rg))
     (flat_map (fun np : bytes * probe => if expires now (snd np) then [fst np] else []) (rg_probing rg)))))
    by (rewrite Hex; reflexivity).
  apply expire_all_nodup. simpl. rewrite keys_map_snd. assumption.
Qed.

Lemma tick_names_aget rg now rg' qs ex n :
  NoDup (keys (rg_probing rg)) -> tick_names rg now = (rg', qs, ex) ->
  match aget n (rg_probing rg) with
  | None => aget n (rg_probing rg') = None /\ ~ In n qs /\ ~ In n ex
  | Some p =>
    if sends now p then In n qs /\ ~ In n ex /\ aget n (rg_probing rg') = Some (tick_probe now p)
    else if expires now p then ~ In n qs /\ In n ex /\ aget n (rg_probing rg') = None
    else ~ In n qs /\ ~ In n ex /\ aget n (rg_probing rg') = Some p
  end.
Proof.
  intros Hnd Ht. unfold tick_names in Ht. rewrite check_probes_spec in Ht.
  match type of Ht with context [expire_all ?r ?e] => destruct (expire_all r e) as [[rg1 ev] w] eqn:Hex end.
  inversion Ht; subst rg' qs ex; clear Ht.
  match type of Hex with expire_all ?r ?e = _ =>
    assert (Hag : aget n (rg_probing rg1) = if mem n e then None else aget n (rg_probing r))
      by (replace rg1 with (fst (fst (expire_all r e))) by (rewrite Hex; reflexivity);
          apply expire_all_aget; simpl; rewrite keys_map_snd; assumption)
  end.
  simpl in Hag. rewrite aget_map_snd in Hag.
  assert (Huniq : forall p q, In (n, p) (rg_probing rg) -> In (n, q) (rg_probing rg) -> p = q).
  { intros p q H1 H2. apply (In_aget _ _ _ Hnd) in H1. apply (In_aget _ _ _ Hnd) in H2. congruence. }
  destruct (aget n (rg_probing rg)) as [p|] eqn:G.
  - apply aget_In in G as Gin.
    assert (Hq : In n (map fst (flat_map (fun np : bytes * probe => if sends now (snd np) then [(fst np, pb_records (snd np))] else []) (rg_probing rg))) <-> sends now p = true).
    { rewrite sent_names_iff. split; [intros (q & Hq' & S); rewrite (Huniq _ _ Gin Hq'); assumption|eauto]. }
    assert (He : In n (flat_map (fun np : bytes * probe => if expires now (snd np) then [fst np] else []) (rg_probing rg)) <-> expires now p = true).
    { rewrite expired_names_iff. split; [intros (q & Hq' & S); rewrite (Huniq _ _ Gin Hq'); assumption|eauto]. }
    destruct (sends now p) eqn:S.
    + pose proof (sends_expires_excl _ _ S) as X. split; [apply Hq; reflexivity|]. split.
      * rewrite He. congruence.
      * rewrite Hag. simpl. destruct (mem n _) eqn:M; [|reflexivity]. apply mem_In in M. apply He in M. congruence.
    + destruct (expires now p) eqn:X.
      * split; [rewrite Hq; congruence|]. split; [apply He; reflexivity|].
        rewrite Hag. assert (M : In n (flat_map (fun np : bytes * probe => if expires now (snd np) then [fst np] else []) (rg_probing rg))) by (apply He; reflexivity).
        apply mem_In in M. rewrite M. reflexivity.
      * split; [rewrite Hq; congruence|]. split; [rewrite He; congruence|].
        rewrite Hag. simpl. rewrite tick_probe_id by assumption.
        destruct (mem n _) eqn:M; [|reflexivity]. apply mem_In in M. apply He in M. congruence.
  - split; [|split].
    + rewrite Hag. destruct (mem n _); reflexivity.
    + intros Hin. apply sent_names_iff in Hin as (q & Hq & _). apply (In_aget _ _ _ Hnd) in Hq. congruence.
    + intros Hin. apply expired_names_iff in Hin as (q & Hq & _). apply (In_aget _ _ _ Hnd) in Hq. congruence.
Qed.

(* a name is activated only when its probe's start lies 750 ms back and its next_send has come *)
Lemma activation_needs_750 rg now rg' qs ex n :
  NoDup (keys (rg_probing rg)) -> tick_names rg now = (rg', qs, ex) -> In n ex ->
  exists p, aget n (rg_probing rg) = Some p /\ pb_start p + 750 <= now /\ pb_next p <= now.
Proof.
  intros Hnd Ht Hin. pose proof (tick_names_aget rg now rg' qs ex n Hnd Ht) as H.
  destruct (aget n (rg_probing rg)) as [p|]; [|destruct H as (_ & _ & H); contradiction].
  exists p. split; [reflexivity|].
  destruct (sends now p); [destruct H as (_ & H & _); contradiction|].
  destruct (expires now p) eqn:X; [apply expires_iff in X; tauto|destruct H as (_ & H & _); contradiction].
Qed.

(* ---- the exact timetable on a schedule that is never late ----------------------------------------------------------------------- *)

Definition phase (rg : registry) (n : bytes) (T : N) (k : nat) : Prop :=
  exists p, aget n (rg_probing rg) = Some p /\ pb_start p = T /\ pb_next p = T + 250 * N.of_nat k.

Definition timetable (T : N) : list N := [T; T + 250; T + 500].

Lemma exact_from_phase n T : forall ts rg k t0,
  NoDup (keys (rg_probing rg)) -> (k <= 3)%nat -> phase rg n T k ->
  times_from t0 (ticks ts) -> never_late_for n rg ts ->
  exists j, (k + j <= 3)%nat /\
    probe_times n (run_ops rg (ticks ts)) = firstn j (skipn k (timetable T)) /\
    (activation_times n (run_ops rg (ticks ts)) = [] \/
     ((k + j = 3)%nat /\ activation_times n (run_ops rg (ticks ts)) = [T + 750])).
Proof.
  induction ts as [|t ts IH]; intros rg k t0 Hnd Hk Hph Hts Hnl.
  - exists O. simpl. split; [lia|]. split; [reflexivity|left; reflexivity].
  - simpl in Hnl, Hts. destruct Hts as [Ht0 Hts]. destruct Hnl as [Hle Hnl].
    destruct Hph as (p & G & Hs & Hn). rewrite G in Hle. rewrite Hn in Hle.
    simpl. destruct (tick_names rg t) as [[rg' qs] ex] eqn:Htk. simpl in Hnl.
    pose proof (tick_names_aget rg t rg' qs ex n Hnd Htk) as Hag. rewrite G in Hag.
    assert (Hnd' : NoDup (keys (rg_probing rg'))).
    { replace rg' with (fst (fst (tick_names rg t))) by (rewrite Htk; reflexivity). apply tick_names_nodup. assumption. }
    destruct (sends t p) eqn:S.
    + (* a probe goes out: t = T + 250k and k < 3 *)
      destruct Hag as (Hq & He & G').
      apply sends_iff in S as [S1 S2]. rewrite Hs, Hn in *.
      assert (Ht : t = T + 250 * N.of_nat k) by lia.
      assert (Hk3 : (k < 3)%nat) by lia.
      assert (Hph' : phase rg' n T (S k)).
      { exists (tick_probe t p). split; [assumption|]. unfold tick_probe.
        assert (sends t p = true) as -> by (apply sends_iff; rewrite Hs, Hn; lia).
        simpl. split; [assumption|]. rewrite probe_next_send_pinned. lia. }
      destruct (IH rg' (S k) t Hnd' Hk3 Hph' Hts Hnl) as (j & Hj & Hp & Ha).
      exists (S j). split; [lia|].
      unfold probe_times, activation_times in *. cbn [flat_map].
      apply mem_In in Hq. rewrite Hq.
      assert (mem n ex = false) as Hex by (destruct (mem n ex) eqn:M; [apply mem_In in M; contradiction|reflexivity]).
      rewrite Hex. simpl. split.
      * rewrite Hp. destruct k as [|[|[|k]]]; try lia; simpl; subst t; f_equal; try (f_equal; lia); lia.
      * destruct Ha as [Ha|[Ha1 Ha2]]; [left; assumption|right; split; [lia|assumption]].
    + destruct (expires t p) eqn:X.
      * (* the probe finishes: t = T + 750 and k = 3 *)
        destruct Hag as (Hq & He & G').
        apply expires_iff in X as [X1 X2]. rewrite Hs, Hn in *.
        assert (Hk3 : k = 3%nat) by lia. subst k.
        assert (Ht : t = T + 750) by lia.
        (* afterwards there is no probe for n *)
        assert (Hrest : forall ts' rg1, aget n (rg_probing rg1) = None -> NoDup (keys (rg_probing rg1)) ->
                  probe_times n (run_ops rg1 (ticks ts')) = [] /\ activation_times n (run_ops rg1 (ticks ts')) = []).
        { clear. induction ts' as [|t' ts' IH']; intros rg1 Hg Hnd1; simpl; [auto|].
          destruct (tick_names rg1 t') as [[rg2 qs2] ex2] eqn:Htk2.
          unfold probe_times, activation_times in *. cbn [flat_map].
          pose proof (tick_names_aget rg1 t' rg2 qs2 ex2 n Hnd1 Htk2) as H. rewrite Hg in H.
          destruct H as (G2 & Hq2 & He2).
          assert (mem n qs2 = false) as -> by (destruct (mem n qs2) eqn:M; [apply mem_In in M; contradiction|reflexivity]).
          assert (mem n ex2 = false) as -> by (destruct (mem n ex2) eqn:M; [apply mem_In in M; contradiction|reflexivity]).
          simpl. apply IH'; [assumption|].
          replace rg2 with (fst (fst (tick_names rg1 t'))) by (rewrite Htk2; reflexivity). apply tick_names_nodup. assumption. }
        destruct (Hrest ts rg' G' Hnd') as [Hp Ha].
        exists O. split; [lia|].
        unfold probe_times, activation_times in *. cbn [flat_map].
        assert (mem n qs = false) as -> by (destruct (mem n qs) eqn:M; [apply mem_In in M; contradiction|reflexivity]).
        apply mem_In in He. rewrite He. simpl. rewrite Hp, Ha. split; [reflexivity|].
        right. split; [reflexivity|]. subst t. reflexivity.
      * (* nothing happens for n *)
        destruct Hag as (Hq & He & G').
        assert (Hph' : phase rg' n T k) by (exists p; auto).
        destruct (IH rg' k t Hnd' Hk Hph' Hts Hnl) as (j & Hj & Hp & Ha).
        exists j. split; [assumption|].
        unfold probe_times, activation_times in *. cbn [flat_map].
        assert (mem n qs = false) as -> by (destruct (mem n qs) eqn:M; [apply mem_In in M; contradiction|reflexivity]).
        assert (mem n ex = false) as -> by (destruct (mem n ex) eqn:M; [apply mem_In in M; contradiction|reflexivity]).
        simpl. auto.
Qed.

Lemma phase_step_send rg n T k t rg' qs ex :
  NoDup (keys (rg_probing rg)) -> phase rg n T k -> (k < 3)%nat -> t = T + 250 * N.of_nat k ->
  tick_names rg t = (rg', qs, ex) ->
  In n qs /\ ~ In n ex /\ phase rg' n T (S k) /\ NoDup (keys (rg_probing rg')).
Proof.
  intros Hnd (p & G & Hs & Hn) Hk Ht Htk.
  pose proof (tick_names_aget rg t rg' qs ex n Hnd Htk) as Hag. rewrite G in Hag.
  assert (S : sends t p = true) by (apply sends_iff; rewrite Hs, Hn; lia).
  rewrite S in Hag. destruct Hag as (Hq & He & G'). repeat split; try assumption.
  - exists (tick_probe t p). split; [assumption|]. unfold tick_probe. rewrite S. simpl.
    split; [assumption|]. rewrite probe_next_send_pinned. lia.
  - replace rg' with (fst (fst (tick_names rg t))) by (rewrite Htk; reflexivity). apply tick_names_nodup. assumption.
Qed.

Lemma phase_step_expire rg n T t rg' qs ex :
  NoDup (keys (rg_probing rg)) -> phase rg n T 3 -> t = T + 750 ->
  tick_names rg t = (rg', qs, ex) -> ~ In n qs /\ In n ex.
Proof.
  intros Hnd (p & G & Hs & Hn) Ht Htk.
  pose proof (tick_names_aget rg t rg' qs ex n Hnd Htk) as Hag. rewrite G in Hag.
  assert (X : expires t p = true) by (apply expires_iff; rewrite Hs, Hn; simpl; lia).
  assert (S : sends t p = false).
  { destruct (sends t p) eqn:S; [|reflexivity]. apply sends_expires_excl in S. congruence. }
  rewrite S, X in Hag. tauto.
Qed.

(* woken exactly at T, T+250, T+500, T+750: three probe queries, then the name is active *)
Lemma exact_full rg n T :
  NoDup (keys (rg_probing rg)) -> phase rg n T 0 ->
  let tr := run_ops rg (ticks [T; T + 250; T + 500; T + 750]) in
  probe_times n tr = [T; T + 250; T + 500] /\ activation_times n tr = [T + 750].
Proof.
  intros Hnd Hph. cbn [ticks map run_ops apply_op].
  destruct (tick_names rg T) as [[rg1 qs1] ex1] eqn:H1.
  destruct (phase_step_send rg n T 0 T rg1 qs1 ex1 Hnd Hph) as (Q1 & E1 & P1 & N1); [lia|simpl; lia|assumption|].
  destruct (tick_names rg1 (T + 250)) as [[rg2 qs2] ex2] eqn:H2.
  destruct (phase_step_send rg1 n T 1 (T + 250) rg2 qs2 ex2 N1 P1) as (Q2 & E2 & P2 & N2); [lia|simpl; lia|assumption|].
  destruct (tick_names rg2 (T + 500)) as [[rg3 qs3] ex3] eqn:H3.
  destruct (phase_step_send rg2 n T 2 (T + 500) rg3 qs3 ex3 N2 P2) as (Q3 & E3 & P3 & N3); [lia|simpl; lia|assumption|].
  destruct (tick_names rg3 (T + 750)) as [[rg4 qs4] ex4] eqn:H4.
  destruct (phase_step_expire rg3 n T (T + 750) rg4 qs4 ex4 N3 P3) as (Q4 & E4); [reflexivity|assumption|].
  unfold probe_times, activation_times. cbn [flat_map].
  apply mem_In in Q1, Q2, Q3, E4. rewrite Q1, Q2, Q3, E4.
  assert (mem n ex1 = false) as -> by (destruct (mem n ex1) eqn:M; [apply mem_In in M; contradiction|reflexivity]).
  assert (mem n ex2 = false) as -> by (destruct (mem n ex2) eqn:M; [apply mem_In in M; contradiction|reflexivity]).
  assert (mem n ex3 = false) as -> by (destruct (mem n ex3) eqn:M; [apply mem_In in M; contradiction|reflexivity]).
  assert (mem n qs4 = false) as -> by (destruct (mem n qs4) eqn:M; [apply mem_In in M; contradiction|reflexivity]).
  split; reflexivity.
Qed.

(* a probe created by is_probing_done for a name that is neither active nor probing starts in
   phase 0 at T = now + jitter *)
Lemma join_creates_phase0 rg r svc T :
  in_active rg r = false -> aget (p_name r) (rg_probing rg) = None ->
  phase (fst (is_probing_done rg r svc T)) (p_name r) T 0.
Proof.
  intros Ha Hg. unfold is_probing_done. rewrite Ha, Hg. simpl.
  eexists. split; [apply aget_aset_same|]. simpl. split; [reflexivity|lia].
Qed.

(* ---- records are reported "probing done" only after their name was activated ------------------------------------------------ *)

Definition active_from (rg : registry) (acts : list bytes) : Prop :=
  forall name rs r, aget name (rg_active rg) = Some rs -> In r rs -> In name acts.

Lemma expire_one_active rg name rg' ev w :
  expire_one rg name = (rg', ev, w) ->
  forall m rs r, aget m (rg_active rg') = Some rs -> In r rs ->
  (exists rs0, aget m (rg_active rg) = Some rs0 /\ In r rs0) \/ m = name.
Proof.
  unfold expire_one. destruct (aget name (rg_probing rg)) as [pb|] eqn:G.
  - destruct (pb_records pb) as [|r0 recs] eqn:R; intros H; inversion H; subst; clear H; simpl; [eauto|].
    intros m rs r Hm Hr. destruct (beq m name) eqn:E; [right; apply beq_eq; assumption|].
    left. exists rs. split; [|assumption].
    assert (m <> name) by (intros ->; rewrite beq_refl in E; discriminate).
    destruct (aget name (rg_active rg)); rewrite aget_aset_other in Hm; assumption.
  - intros H; inversion H; subst. eauto.
Qed.

Lemma expire_all_active ex : forall rg rg' ev w,
  expire_all rg ex = (rg', ev, w) ->
  forall m rs r, aget m (rg_active rg') = Some rs -> In r rs ->
  (exists rs0, aget m (rg_active rg) = Some rs0 /\ In r rs0) \/ In m ex.
Proof.
  induction ex as [|n t IH]; intros rg rg' ev w H; simpl in H.
  - inversion H; subst. eauto.
  - destruct (expire_one rg n) as [[rg1 ev1] w1] eqn:E1.
    destruct (expire_all rg1 t) as [[rg2 ev2] w2] eqn:E2. inversion H; subst; clear H.
    intros m rs r Hm Hr. destruct (IH _ _ _ _ E2 m rs r Hm Hr) as [(rs1 & H1 & H1')|H1].
    + destruct (expire_one_active _ _ _ _ _ E1 m rs1 r H1 H1') as [?| ->]; [auto|right; left; reflexivity].
    + right. right. assumption.
Qed.

Lemma aget_map_filter (flt : prec -> bool) (l : list (bytes * list prec)) m rs :
  aget m (map (fun nr => (fst nr, filter flt (snd nr))) l) = Some rs ->
  exists rs0, aget m l = Some rs0 /\ rs = filter flt rs0.
Proof.
  induction l as [|[k v] t IH]; simpl; [discriminate|].
  destruct (beq m k); [intros H; inversion H; eauto|assumption].
Qed.

Lemma update_hostname_active rg orig new_name pt m rs r :
  aget m (rg_active (fst (update_hostname rg orig new_name pt))) = Some rs -> In r rs ->
  exists rs0, aget m (rg_active rg) = Some rs0 /\ In r rs0.
Proof.
  unfold update_hostname.
  match goal with |- context [fold_left ?st ?l ?acc] =>
    assert (Hact : rg_active (fst (fold_left st l acc)) = rg_active (fst acc))
  end.
  { match goal with |- rg_active (fst (fold_left ?st ?l ?acc)) = _ =>
      apply (fold_left_preserves (fun a => rg_active (fst a) = rg_active (fst acc)) st l); [|reflexivity]
    end.
    intros [rg1 added] x Ha. simpl in *.
    destruct (aget (p_name (srv_set_host new_name x)) (rg_probing rg1)); simpl; assumption. }
  rewrite Hact. simpl. intros Hm Hr. apply aget_map_filter in Hm as (rs0 & H0 & ->).
  apply filter_In in Hr as [Hr _]. eauto.
Qed.

Lemma conflict_one_active rg ans ct m rs r :
  aget m (rg_active (conflict_one rg ans ct)) = Some rs -> In r rs ->
  exists rs0, aget m (rg_active rg) = Some rs0 /\ In r rs0.
Proof.
  revert m rs r.
  unfold conflict_one. destruct (aget (r_name ans) (rg_probing rg)) as [pb|]; [|eauto].
  match goal with |- context [fold_left ?st ?l ?acc] =>
    apply (fold_left_preserves
             (fun a => forall m rs r, aget m (rg_active a) = Some rs -> In r rs ->
                                      exists rs0, aget m (rg_active rg) = Some rs0 /\ In r rs0) st l)
  end.
  - intros a x Ha m1 rs1 r1 Hm1 Hr1.
    destruct (update_hostname a (r_name ans) (p_name x) ct) as [rg2 b] eqn:U. simpl in Hm1.
    assert (H2 : exists rs0, aget m1 (rg_active a) = Some rs0 /\ In r1 rs0).
    { apply (update_hostname_active a (r_name ans) (p_name x) ct m1 rs1 r1); [rewrite U; simpl; exact Hm1|exact Hr1]. }
    destruct H2 as (rs0 & H0 & H0'). eauto.
  - simpl. eauto.
Qed.

Lemma apply_op_active rg now o rg' qs ex acts :
  active_from rg acts -> apply_op rg now o = (rg', qs, ex) -> active_from rg' (acts ++ ex).
Proof.
  intros Hact Hop. destruct o as [|jr jsvc jj|qn incoming|ans cj]; simpl in Hop.
  - unfold tick_names in Hop.
    destruct (check_probes (rg_probing rg) now) as [[ps qs0] ex0] eqn:Hck.
    destruct (expire_all (mkReg ps (rg_active rg) (rg_changes rg)) ex0) as [[rg1 ev] w] eqn:Hex.
    inversion Hop; subst; clear Hop. intros m rs r Hm Hr. apply in_or_app.
    destruct (expire_all_active _ _ _ _ _ Hex m rs r Hm Hr) as [(rs0 & H0 & H0')|H0]; [left|right; assumption].
    simpl in H0. eapply Hact; eassumption.
  - inversion Hop; subst; clear Hop. rewrite app_nil_r. intros m rs r Hm Hr.
    unfold is_probing_done in Hm. destruct (in_active rg jr); simpl in Hm; eapply Hact; eassumption.
  - inversion Hop; subst; clear Hop. rewrite app_nil_r. intros m rs r Hm Hr.
    unfold apply_tiebreak in Hm. destruct (aget qn (rg_probing rg)); simpl in Hm; eapply Hact; eassumption.
  - inversion Hop; subst; clear Hop. rewrite app_nil_r. intros m rs r Hm Hr.
    unfold apply_conflict in Hm. destruct (conflict_applies rg ans).
    + destruct (conflict_one_active _ _ _ _ _ _ Hm Hr) as (rs0 & H0 & H0'). eapply Hact; eassumption.
    + eapply Hact; eassumption.
Qed.

Definition all_activations (tr : list (N * list bytes * list bytes)) : list bytes :=
  flat_map (fun e => snd e) tr.

Lemma run_ops_active ops : forall rg acts,
  active_from rg acts -> active_from (final_reg rg ops) (acts ++ all_activations (run_ops rg ops)).
Proof.
  induction ops as [|[now o] t IH]; intros rg acts H; simpl.
  - rewrite app_nil_r. assumption.
  - destruct (apply_op rg now o) as [[rg' qs] ex] eqn:Hop. simpl.
    unfold all_activations. simpl. rewrite app_assoc. apply IH.
    eapply apply_op_active; eassumption.
Qed.

Theorem silent_until_activated_proof ops r svc start :
  snd (is_probing_done (final_reg reg_new ops) r svc start) = true ->
  In (p_name r) (all_activations (run_ops reg_new ops)).
Proof.
  intros H. unfold is_probing_done in H.
  destruct (in_active (final_reg reg_new ops) r) eqn:A; [|simpl in H; discriminate].
  unfold in_active in A. destruct (aget (p_name r) (rg_active (final_reg reg_new ops))) as [rs|] eqn:G; [|discriminate].
  apply existsb_exists in A as (r' & Hr' & _).
  pose proof (run_ops_active ops reg_new []) as Hact. simpl in Hact.
  apply (Hact ltac:(intros m rs0 r0 Hm; simpl in Hm; discriminate) (p_name r) rs r' G Hr').
Qed.

(* every registry reached from the empty one has one probe per name *)
Lemma reach_inv ops : forall rg f t,
  Inv (rg_probing rg) f t -> times_from t ops -> exists f' t', Inv (rg_probing (final_reg rg ops)) f' t'.
Proof.
  induction ops as [|[now o] rest IH]; intros rg f t HI Ht; simpl; [eauto|].
  destruct Ht as [Hle Hrest].
  destruct (apply_op rg now o) as [[rg' qs] ex] eqn:Hop. simpl.
  destruct (apply_op_inv _ _ _ _ _ _ _ _ HI Hle Hop) as [HI' _]. eauto.
Qed.

Lemma reachable_nodup ops t0 : times_from t0 ops -> NoDup (keys (rg_probing (final_reg reg_new ops))).
Proof.
  intros Ht. destruct (reach_inv ops reg_new (fun _ => None) t0 (Inv_init t0) Ht) as (f & t & [H _ _ _]). exact H.
Qed.

Corollary probe_times_gaps ops n t0 :
  times_from t0 ops -> no_conflicts ops -> gaps_250 (probe_times n (run_ops reg_new ops)).
Proof.
  intros Ht Hnc. apply (spaced_probe_times n ops reg_new None Hnc). eapply probe_spacing_all_schedules_proof. eassumption.
Qed.

(* a record registered at `now` with jitter j < 250 whose name is neither held nor being probed:
   woken exactly when asked, its name is active 750 ms after T = now + j, i.e. within a second *)
Lemma join_then_exact rg r svc now j :
  NoDup (keys (rg_probing rg)) -> in_active rg r = false -> aget (p_name r) (rg_probing rg) = None -> j < 250 ->
  let T := now + j in
  let tr := run_ops (fst (is_probing_done rg r svc T)) (ticks [T; T + 250; T + 500; T + 750]) in
  probe_times (p_name r) tr = [T; T + 250; T + 500] /\ activation_times (p_name r) tr = [T + 750] /\
  T + 750 < now + 250 + 750.
Proof.
  intros Hnd Ha Hg Hj T tr.
  assert (Hph : phase (fst (is_probing_done rg r svc T)) (p_name r) T 0) by (apply join_creates_phase0; assumption).
  assert (Hnd' : NoDup (keys (rg_probing (fst (is_probing_done rg r svc T))))).
  { unfold is_probing_done. rewrite Ha. simpl. apply NoDup_aset. assumption. }
  destruct (exact_full _ _ _ Hnd' Hph) as [H1 H2]. split; [exact H1|split; [exact H2|unfold T; lia]].
Qed.

Lemma three_probes_exact_lemma : forall n T ts rg t0,
  NoDup (keys (rg_probing rg)) -> phase rg n T 0 ->
  times_from t0 (ticks ts) -> never_late_for n rg ts ->
  exists j, (j <= 3)%nat /\
    probe_times n (run_ops rg (ticks ts)) = firstn j [T; T + 250; T + 500] /\
    (activation_times n (run_ops rg (ticks ts)) = [] \/
     (j = 3%nat /\ activation_times n (run_ops rg (ticks ts)) = [T + 750])).
Proof.
  intros n T ts rg t0 Hnd Hph Hts Hnl.
  destruct (exact_from_phase n T ts rg 0 t0 Hnd ltac:(lia) Hph Hts Hnl) as (j & Hj & Hp & Ha).
  exists j. split; [lia|]. split; [exact Hp|]. destruct Ha as [Ha|[Ha1 Ha2]]; [left; exact Ha|right; split; [lia|exact Ha2]].
Qed.
