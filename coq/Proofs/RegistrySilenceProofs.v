(* C09, silence: every live record of every response the daemon model emits is built from a service
   that is in the service map when the micro-step ends, under the names its interface's registry
   holds then.  Per micro-step lemmas, then phases, then the iteration, then all histories. *)
From Coq Require Import List NArith Bool Lia.
From Mdns Require Import Bytes Rec ParamsRegistry Names WireOut Registry RegistryDaemon RegistrySpec RegistryTrace
     RegistryParamsPinned RegistryProofs RegistryDaemonProofs RegistryLiftProofs RegistryHistoryProofs.
Import ListNotations.
Open Scope N_scope.

Definition ok_msg (svcs : list (bytes * svc)) (ch : list (bytes * bytes)) (m : omsg) : Prop :=
  forall r, In r (o_an m ++ o_ar m) -> exists k s, In (k, s) svcs /\ rec_of ch s r.

(* an output is fine for the state after its micro-step *)
Definition ok_out (post : dstate) (o : out) : Prop :=
  match o with
  | OSend i _ _ m => o_resp m = true -> is_goodbye m = true \/ ok_msg (d_svcs post) (chg post i) m
  | _ => True
  end.

Definition same_data (s s' : svc) : Prop :=
  s_ty s = s_ty s' /\ s_sub s = s_sub s' /\ s_full s = s_full s' /\ s_host s = s_host s' /\
  s_port s = s_port s' /\ s_txt s = s_txt s' /\ s_addrs s = s_addrs s'.

Lemma same_data_refl s : same_data s s. Proof. repeat split. Qed.
Lemma same_data_trans a b c : same_data a b -> same_data b c -> same_data a c.
Proof. unfold same_data. intuition congruence. Qed.
Lemma same_data_status i x s : same_data s (set_status i x s). Proof. repeat split. Qed.

Lemma rec_of_same_data ch s s' r : same_data s s' -> rec_of ch s r -> rec_of ch s' r.
Proof.
  intros (A & B & C & D & E & F & G). unfold rec_of. rewrite A, B, C, D, E, F, G. tauto.
Qed.

Lemma resolve_name_resolve rg n : resolve_name rg n = resolve (rg_changes rg) n.
Proof. reflexivity. Qed.

(* ---- records of an announcement --------------------------------------------------------------------- *)

Lemma with_change_name rg key p :
  r_name (p_rr p) = key -> p_new p = None -> p_name (with_change rg key p) = resolve (rg_changes rg) key.
Proof.
  intros E N. unfold with_change, resolve. destruct (aget key (rg_changes rg)) as [n|].
  - unfold set_new_name, p_name. cbn [p_new p_rr]. destruct (beq n (r_name (p_rr p))) eqn:B.
    + apply beq_eq in B. congruence.
    + reflexivity.
  - unfold p_name. rewrite N. exact E.
Qed.

Lemma with_change_rr rg key p : p_rr (with_change rg key p) = p_rr p.
Proof. unfold with_change. destruct (aget key (rg_changes rg)); reflexivity. Qed.

Lemma addrs_on_intf_in s i v4 a : In a (addrs_on_intf s i v4) -> In a (s_addrs s).
Proof. unfold addrs_on_intf. intros H. apply filter_In in H. tauto. Qed.

Lemma ptr_rrs_rec ch s ttl r : In r (ptr_rrs s ttl (resolve ch (s_full s))) -> rec_of ch s r.
Proof.
  unfold ptr_rrs. intros [<-|H].
  - left. cbn. split; [reflexivity|left; reflexivity].
  - destruct (s_sub s) as [sb|] eqn:E; [|contradiction]. destruct H as [<-|[]]. left. cbn. split; [reflexivity|right; rewrite E; reflexivity].
Qed.

Lemma announce_records_rec rg s i v4 r :
  In r (map wire_rr (announce_records rg s i v4)) -> rec_of (rg_changes rg) s r.
Proof.
  unfold announce_records. intros H. apply in_map_iff in H as (p & <- & Hp). destruct Hp as [<-|[<-|Hp]].
  - right. right. left. unfold wire_rr, srv_rec. cbn [r_name r_data]. rewrite with_change_name by reflexivity.
    rewrite with_change_rr. cbn. split; reflexivity.
  - right. right. right. left. unfold wire_rr, txt_rec. cbn [r_name r_data]. rewrite with_change_name by reflexivity.
    rewrite with_change_rr. cbn. split; reflexivity.
  - apply in_map_iff in Hp as (a & <- & Ha). right. right. right. right. exists a. split; [exact (addrs_on_intf_in _ _ _ _ Ha)|].
    unfold wire_rr, addr_rec. cbn [r_name r_data]. rewrite with_change_name by reflexivity. rewrite with_change_rr. cbn. split; reflexivity.
Qed.

Lemma ipd_changes rg r svc start : rg_changes (fst (is_probing_done rg r svc start)) = rg_changes rg.
Proof. unfold is_probing_done. destruct (in_active rg r); reflexivity. Qed.

Lemma probe_records_changes s start : forall recs rg, rg_changes (fst (probe_records rg s start recs)) = rg_changes rg.
Proof.
  induction recs as [|r t IH]; intros rg; [reflexivity|]. cbn [probe_records]. destruct (s_probe s); [|apply IH].
  pose proof (ipd_changes rg r (s_full s) start) as H1. destruct (is_probing_done rg r (s_full s) start) as [rg1 ok].
  specialize (IH rg1). destruct (probe_records rg1 s start t) as [rg2 ok2]. cbn [fst] in *. congruence.
Qed.

Lemma prepare_announce_ok s i rg v4 now js :
  let '(rg', m, _) := prepare_announce s i rg v4 now js in
  rg_changes rg' = rg_changes rg /\
  match m with Some msg => forall r, In r (o_an msg ++ o_ar msg) -> rec_of (rg_changes rg) s r | None => True end.
Proof.
  unfold prepare_announce. destruct (addrs_on_intf s i v4) eqn:EA; [split; [reflexivity|exact I]|].
  destruct (draw js) as [j js'].
  pose proof (probe_records_changes s (now + j) (announce_records rg s i v4) rg) as HC.
  destruct (probe_records rg s (now + j) (announce_records rg s i v4)) as [rg' ok]. cbn [fst] in HC.
  destruct ok; split; try exact HC; try exact I.
  cbn [o_an o_ar]. rewrite app_nil_r. intros r Hr. apply in_app_or in Hr as [Hr|Hr].
  - rewrite resolve_name_resolve in Hr. exact (ptr_rrs_rec _ _ _ _ Hr).
  - exact (announce_records_rec _ _ _ _ _ Hr).
Qed.

(* announce_both: the registry keeps its name changes; every packet is on the interface and its
   records are records of s *)
Definition sends_ok_for (idx : N) (ch : list (bytes * bytes)) (s : svc) (os : list out) : Prop :=
  forall o, In o os -> match o with OSend i _ _ m => i = idx /\ forall r, In r (o_an m ++ o_ar m) -> rec_of ch s r | _ => False end.

Lemma announce_both_ok s i rg now js :
  let '(rg', os, _, _) := announce_both s i rg now js in
  rg_changes rg' = rg_changes rg /\ sends_ok_for (if_index i) (rg_changes rg) s os.
Proof.
  unfold announce_both.
  pose proof (prepare_announce_ok s i rg true now js) as H1. destruct (prepare_announce s i rg true now js) as [[rg1 m4] js1].
  pose proof (prepare_announce_ok s i rg1 false now js1) as H2. destruct (prepare_announce s i rg1 false now js1) as [[rg2 m6] js2].
  destruct H1 as [C1 R1], H2 as [C2 R2]. split; [congruence|].
  intros o Ho. apply in_app_or in Ho as [Ho|Ho].
  - destruct m4; [|contradiction]. destruct Ho as [<-|[]]. split; [reflexivity|exact R1].
  - destruct m6; [|contradiction]. destruct Ho as [<-|[]]. split; [reflexivity|]. rewrite <- C1. exact R2.
Qed.

(* ---- answers to questions ------------------------------------------------------------------------------ *)

Definition from_svcs (svcs : list (bytes * svc)) (ch : list (bytes * bytes)) (rs : list rr) : Prop :=
  forall r, In r rs -> exists k s, In (k, s) svcs /\ rec_of ch s r.

Lemma from_svcs_app svcs ch a b : from_svcs svcs ch a -> from_svcs svcs ch b -> from_svcs svcs ch (a ++ b).
Proof. intros A B r Hr. apply in_app_or in Hr as [Hr|Hr]; auto. Qed.
Lemma from_svcs_nil svcs ch : from_svcs svcs ch []. Proof. intros r []. Qed.

Lemma add_all_in g recs r : In r (add_all g recs) -> In r (map wire_rr recs).
Proof. unfold add_all. intros H. apply in_map_iff in H as (p & <- & Hp). apply filter_In in Hp as [Hp _]. apply in_map. exact Hp. Qed.

Lemma answer_ptr_question_ok st g itf rg qn :
  from_svcs (d_svcs st) (rg_changes rg) (fst (answer_ptr_question st g itf rg qn) ++ snd (answer_ptr_question st g itf rg qn)).
Proof.
  unfold answer_ptr_question. set (ch := rg_changes rg).
  set (f := fun (accs : list rr * list rr * list bytes) (ks : bytes * svc) => _).
  assert (G : forall l accs, incl l (d_svcs st) ->
              from_svcs (d_svcs st) ch (fst (fst accs)) -> from_svcs (d_svcs st) ch (snd (fst accs)) ->
              from_svcs (d_svcs st) ch (fst (fst (fold_left f l accs))) /\ from_svcs (d_svcs st) ch (snd (fst (fold_left f l accs)))).
  { induction l as [|[k s] t IH]; intros accs Hincl A B; [split; assumption|]. cbn [fold_left].
    apply IH; [intros x Hx; apply Hincl; right; exact Hx| |];
    assert (Hin : In (k, s) (d_svcs st)) by (apply Hincl; left; reflexivity);
    unfold f; destruct accs as [[an ar] seen]; cbn [snd fst] in *;
    destruct (negb (announced_on (g_if g) s)); try assumption;
    destruct (beq qn (s_ty s) || opt_beq (s_sub s) qn).
    - destruct (addrs_on_intf s itf (g_v4 g)) eqn:EA; [assumption|]. rewrite <- EA.
      match goal with |- context [suppressed g ?p] => destruct (suppressed g p) end; [assumption|]. cbn [fst snd].
      apply from_svcs_app; [exact A|]. intros r [<-|[]]. exists k, s. split; [exact Hin|]. left. cbn. split; [reflexivity|left; reflexivity].
    - destruct (beq qn META_QUERY) eqn:M; [|assumption]. destruct (mem (s_ty s) seen); [assumption|]. cbn [fst snd].
      apply from_svcs_app; [exact A|]. intros r Hr. apply add_all_in in Hr. destruct Hr as [<-|[]].
      exists k, s. split; [exact Hin|]. right. left. cbn. apply beq_eq in M. split; [exact M|reflexivity].
    - destruct (addrs_on_intf s itf (g_v4 g)) eqn:EA; [assumption|]. rewrite <- EA.
      match goal with |- context [suppressed g ?p] => destruct (suppressed g p) end; [assumption|]. cbn [fst snd].
      apply from_svcs_app; [exact B|]. intros r Hr. exists k, s. split; [exact Hin|].
      apply in_app_or in Hr as [Hr|Hr]; [|apply in_app_or in Hr as [Hr|Hr]].
      + destruct (s_sub s) as [sb|] eqn:ES; [|contradiction]. destruct Hr as [<-|[]]. left. cbn. split; [reflexivity|right; rewrite ES; reflexivity].
      + destruct Hr as [<-|[<-|[]]].
        * right. right. left. cbn. split; reflexivity.
        * right. right. right. left. cbn. split; reflexivity.
      + apply in_map_iff in Hr as (a & <- & Ha). right. right. right. right. exists a.
        split; [exact (addrs_on_intf_in _ _ _ _ Ha)|]. cbn. split; reflexivity.
    - destruct (beq qn META_QUERY); [|assumption]. destruct (mem (s_ty s) seen); assumption. }
  destruct (G (d_svcs st) (([], []), []) (incl_refl _) (from_svcs_nil _ _) (from_svcs_nil _ _)) as [A B].
  apply from_svcs_app; assumption.
Qed.

Lemma answer_addr_question_ok st g itf rg qn qt :
  from_svcs (d_svcs st) (rg_changes rg) (answer_addr_question st g itf rg qn qt).
Proof.
  unfold answer_addr_question. intros r Hr. apply in_flat_map in Hr as ([k s] & Hin & Hr). cbn [snd] in Hr.
  destruct (negb (announced_on (g_if g) s)); [contradiction|].
  destruct (beq (lower (resolve_name rg (s_host s))) (lower qn)); [|contradiction].
  apply add_all_in in Hr. apply in_map_iff in Hr as (p & <- & Hp). apply in_map_iff in Hp as (a & <- & Ha).
  exists k, s. split; [exact Hin|]. right. right. right. right. exists a. split.
  - apply in_app_or in Ha as [Ha|Ha];
      match type of Ha with In _ (if ?c then _ else _) => destruct c end; try contradiction; exact (addrs_on_intf_in _ _ _ _ Ha).
  - cbn. split; reflexivity.
Qed.

Lemma answer_instance_question_ok st g itf rg qn qt :
  from_svcs (d_svcs st) (rg_changes rg)
            (fst (answer_instance_question st g itf rg qn qt) ++ snd (answer_instance_question st g itf rg qn qt)).
Proof.
  unfold answer_instance_question.
  destruct (find (fun ks => beq (lower (resolve_name rg (s_full (snd ks)))) (lower qn)) (d_svcs st)) as [[k s]|] eqn:F;
    [|apply from_svcs_nil].
  apply find_some in F as [Hin Hb]. cbn [snd] in Hb. apply beq_eq in Hb.
  destruct (negb (announced_on (g_if g) s)); [apply from_svcs_nil|].
  destruct (addrs_on_intf s itf (g_v4 g)) eqn:EA; [apply from_svcs_nil|]. rewrite <- EA. cbn [fst snd].
  intros r Hr. exists k, s. split; [exact Hin|].
  apply in_app_or in Hr as [Hr|Hr]; [apply in_app_or in Hr as [Hr|Hr]|].
  - match type of Hr with In _ (if ?c then _ else _) => destruct c end; [|contradiction]. destruct Hr as [<-|[]].
    right. right. left. cbn. split; [symmetry; exact Hb|reflexivity].
  - match type of Hr with In _ (if ?c then _ else _) => destruct c end; [|contradiction]. apply add_all_in in Hr. destruct Hr as [<-|[]].
    right. right. right. left. cbn. split; [symmetry; exact Hb|reflexivity].
  - match type of Hr with In _ (if ?c then _ else _) => destruct c end; [|contradiction].
    apply in_map_iff in Hr as (a & <- & Ha). right. right. right. right. exists a.
    split; [exact (addrs_on_intf_in _ _ _ _ Ha)|]. cbn. split; reflexivity.
Qed.

Lemma tiebreak_question_changes rg g qn qt now : rg_changes (tiebreak_question rg g qn qt now) = rg_changes rg.
Proof.
  unfold tiebreak_question. destruct ((qt =? TY_ANY) && negb match g_ns g with [] => true | _ => false end); [|reflexivity].
  unfold apply_tiebreak. destruct (aget qn (rg_probing rg)); reflexivity.
Qed.

Lemma handle_questions_ok st g itf now : forall qs rg,
  let '(rg', an, ar) := handle_questions st g itf rg qs now in
  rg_changes rg' = rg_changes rg /\ from_svcs (d_svcs st) (rg_changes rg) (an ++ ar).
Proof.
  induction qs as [|[qn qt] t IH]; intros rg; [split; [reflexivity|apply from_svcs_nil]|]. cbn [handle_questions].
  destruct (qt =? TY_PTR).
  - pose proof (answer_ptr_question_ok st g itf rg qn) as H1. destruct (answer_ptr_question st g itf rg qn) as [an ar].
    specialize (IH rg). destruct (handle_questions st g itf rg t now) as [[rg' an2] ar2]. destruct IH as [C F]. split; [exact C|].
    cbn [fst snd] in H1. intros r Hr. apply in_app_or in Hr as [Hr|Hr]; apply in_app_or in Hr as [Hr|Hr].
    + apply H1. apply in_or_app. left. exact Hr.
    + apply F. apply in_or_app. left. exact Hr.
    + apply H1. apply in_or_app. right. exact Hr.
    + apply F. apply in_or_app. right. exact Hr.
  - set (rg1 := tiebreak_question rg g qn qt now). pose proof (tiebreak_question_changes rg g qn qt now) as C1. fold rg1 in C1.
    pose proof (answer_addr_question_ok st g itf rg1 qn qt) as HA.
    pose proof (answer_instance_question_ok st g itf rg1 qn qt) as HI.
    destruct (answer_instance_question st g itf rg1 qn qt) as [an_i ar_i]. cbn [fst snd] in HI.
    specialize (IH rg1). destruct (handle_questions st g itf rg1 t now) as [[rg' an2] ar2]. destruct IH as [C F].
    rewrite C1 in *. split; [exact C|].
    intros r Hr. apply in_app_or in Hr as [Hr|Hr].
    + apply in_app_or in Hr as [Hr|Hr].
      * match type of Hr with In _ (if ?c then _ else _) => destruct c end; [exact (HA r Hr)|contradiction].
      * apply in_app_or in Hr as [Hr|Hr]; [apply HI; apply in_or_app; left; exact Hr|apply F; apply in_or_app; left; exact Hr].
    + apply in_app_or in Hr as [Hr|Hr]; [apply HI; apply in_or_app; right; exact Hr|apply F; apply in_or_app; right; exact Hr].
Qed.

(* ---- micro-step: one datagram ---------------------------------------------------------------------------- *)

Lemma rec_of_clear_flush ch s r : rec_of ch s r -> rec_of ch s (clear_flush r).
Proof. unfold rec_of, clear_flush. cbn [r_name r_data]. tauto. Qed.

Lemma from_svcs_clear svcs ch rs : from_svcs svcs ch rs -> from_svcs svcs ch (map clear_flush rs).
Proof. intros H r Hr. apply in_map_iff in Hr as (r0 & <- & H0). destruct (H r0 H0) as (k & s & I & R). exists k, s. split; [exact I|apply rec_of_clear_flush; exact R]. Qed.

Lemma rec_clear_ex (svcs : list (bytes * svc)) ch r : (exists k s, In (k, s) svcs /\ rec_of ch s r) -> exists k s, In (k, s) svcs /\ rec_of ch s (clear_flush r).
Proof. intros (k & s & I & R). exists k, s. split; [exact I|apply rec_of_clear_flush; exact R]. Qed.

Lemma chg_nset st i rg' svcs rt m d o sel intfs :
  chg (mkD intfs (nset i rg' (d_regs st)) svcs rt m d o sel) i = rg_changes rg'.
Proof. unfold chg, get_reg. cbn [d_regs]. rewrite nget_nset_same. reflexivity. Qed.

Lemma handle_query_ok st g now : Forall (ok_out (fst (handle_query st g now))) (snd (handle_query st g now)).
Proof.
  unfold handle_query. destruct (nget (g_if g) (d_regs st)) as [rg|] eqn:G; [|constructor].
  destruct (find_intf st (g_if g)) as [itf|]; [|constructor].
  pose proof (handle_questions_ok st g itf now (g_q g) rg) as H.
  destruct (handle_questions st g itf rg (g_q g) now) as [[rg' an] ar]. destruct H as [C F].
  destruct an as [|a an'] eqn:EA; [constructor|]. rewrite <- EA in *. clear EA. cbn [fst snd]. constructor.
  - cbn [ok_out]. intros _. right. rewrite chg_nset, C. cbn [d_svcs].
    destruct (g_port g =? MDNS_PORT); cbn [o_an o_ar]; intros r Hr.
    + exact (F r Hr).
    + apply in_app_or in Hr as [Hr|Hr]; apply in_map_iff in Hr as (r0 & <- & H0); apply rec_clear_ex;
        apply F; apply in_or_app; [left|right]; exact H0.
  - unfold mon. destruct (d_mon st); repeat constructor.
Qed.

Lemma handle_dgram_ok st g now js :
  Forall (ok_out (fst (fst (handle_dgram st g now js)))) (snd (fst (handle_dgram st g now js))).
Proof.
  unfold handle_dgram. destruct (find_intf st (g_if g)); [|constructor].
  destruct (negb (intf_has_family i (g_v4 g))); [constructor|]. destruct (g_resp g).
  - destruct (handle_response st g now js). constructor.
  - pose proof (handle_query_ok st g now) as H. destruct (handle_query st g now). exact H.
Qed.

(* every output of a phase is fine for the state after its own micro-step *)
Definition phase_ok (states : list dstate) (os : list out) : Prop :=
  forall o, In o os -> exists mid, In mid states /\ ok_out mid o.

Lemma phase_ok_app s1 s2 o1 o2 : phase_ok s1 o1 -> phase_ok s2 o2 -> phase_ok (s1 ++ s2) (o1 ++ o2).
Proof.
  intros A B o Ho. apply in_app_or in Ho as [Ho|Ho]; [destruct (A o Ho) as (m & I & K)|destruct (B o Ho) as (m & I & K)];
    exists m; split; try exact K; apply in_or_app; auto.
Qed.
Lemma phase_ok_one st os : Forall (ok_out st) os -> phase_ok [st] os.
Proof. intros H o Ho. exists st. split; [left; reflexivity|exact (proj1 (Forall_forall _ _) H o Ho)]. Qed.
Lemma phase_ok_cons st s2 o1 o2 : Forall (ok_out st) o1 -> phase_ok s2 o2 -> phase_ok (st :: s2) (o1 ++ o2).
Proof. intros A B. apply (phase_ok_app [st] s2); [apply phase_ok_one; exact A|exact B]. Qed.

Lemma handle_dgrams_ok now : forall gs st js,
  phase_ok (st_dgrams st gs now js) (snd (fst (handle_dgrams st gs now js))).
Proof.
  induction gs as [|g t IH]; intros st js; [intros o []|]. cbn [handle_dgrams st_dgrams].
  pose proof (handle_dgram_ok st g now js) as H1. destruct (handle_dgram st g now js) as [[st1 os1] js1]. cbn [fst snd] in H1.
  specialize (IH st1 js1). destruct (handle_dgrams st1 t now js1) as [[st2 os2] js2]. cbn [fst snd] in *.
  apply phase_ok_cons; assumption.
Qed.

(* ---- micro-step: one call ------------------------------------------------------------------------------------ *)

Lemma In_aset_same {V} k (v : V) l : In (k, v) (aset k v l).
Proof. apply aget_In. apply aget_aset_same. Qed.

Lemma In_aset_cases {V} k0 (v : V) k s : forall l,
  In (k, s) l -> In (k, s) (aset k0 v l) \/ (k = k0 /\ aget k0 l = Some s).
Proof.
  induction l as [|[k' v'] t IH]; intros H; [contradiction|]. cbn [aset aget]. destruct (beq k0 k') eqn:B.
  - apply beq_eq in B. subst k'. destruct H as [E|H]; [inversion E; subst; right; split; reflexivity|left; right; exact H].
  - destruct H as [E|H]; [left; left; exact E|]. destruct (IH H) as [I|[E G]]; [left; right; exact I|right; split; assumption].
Qed.

Definition svcs_le (a b : list (bytes * svc)) : Prop :=
  forall k s, In (k, s) a -> exists s', In (k, s') b /\ same_data s s'.

Lemma svcs_le_refl a : svcs_le a a. Proof. intros k s H. exists s. split; [exact H|apply same_data_refl]. Qed.
Lemma svcs_le_trans a b c : svcs_le a b -> svcs_le b c -> svcs_le a c.
Proof. intros A B k s H. destruct (A k s H) as (s1 & I1 & D1). destruct (B k s1 I1) as (s2 & I2 & D2). exists s2. split; [exact I2|eapply same_data_trans; eassumption]. Qed.

Lemma svcs_le_sput k0 s0 v l : aget k0 l = Some s0 -> same_data s0 v -> svcs_le l (sput k0 v l).
Proof.
  intros G D k s H. unfold sput. destruct (In_aset_cases k0 v k s l H) as [I|[-> G']].
  - exists s. split; [exact I|apply same_data_refl].
  - exists v. split; [apply In_aset_same|]. congruence.
Qed.

Lemma from_svcs_le a b ch rs : svcs_le a b -> from_svcs a ch rs -> from_svcs b ch rs.
Proof.
  intros L F r Hr. destruct (F r Hr) as (k & s & I & R). destruct (L k s I) as (s' & I' & D).
  exists k, s'. split; [exact I'|exact (rec_of_same_data _ _ _ _ D R)].
Qed.

Lemma reg_of_changes_nset regs idx rg' k :
  rg_changes rg' = rg_changes (reg_of regs idx) -> rg_changes (reg_of (nset idx rg' regs) k) = rg_changes (reg_of regs k).
Proof.
  intros E. destruct (N.eq_dec k idx) as [->|Hne]; [rewrite reg_of_nset_same; exact E|rewrite reg_of_nset_other by exact Hne; reflexivity].
Qed.

(* sends of os: on the interface they name, records of s' under the name changes regs has there *)
Definition sends_ok_regs (regs : list (N * registry)) (s' : svc) (os : list out) : Prop :=
  forall o, In o os -> match o with OSend i _ _ m => forall r, In r (o_an m ++ o_ar m) -> rec_of (rg_changes (reg_of regs i)) s' r | _ => False end.

Lemma register_intfs_ok now : forall ifs s regs js,
  let '(s', regs', os, _, _) := register_intfs ifs s regs now js in
  same_data s s' /\ (forall k, rg_changes (reg_of regs' k) = rg_changes (reg_of regs k)) /\ sends_ok_regs regs s' os.
Proof.
  induction ifs as [|itf t IH]; intros s regs js; [split; [apply same_data_refl|split; [reflexivity|intros o []]]|].
  cbn [register_intfs]. fold (reg_of regs (if_index itf)).
  pose proof (announce_both_ok s itf (reg_of regs (if_index itf)) now js) as H1.
  destruct (announce_both s itf (reg_of regs (if_index itf)) now js) as [[[rg' os] ann] js1]. destruct H1 as [C1 S1].
  match goal with |- context [register_intfs t ?a ?b now js1] => specialize (IH a b js1); destruct (register_intfs t a b now js1) as [[[[s2 regs2] os2] anns] js2] end.
  destruct IH as (D & CH & S2).
  assert (D0 : same_data s s2) by (eapply same_data_trans; [apply same_data_status|exact D]).
  split; [exact D0|]. split.
  - intros k. rewrite CH. apply reg_of_changes_nset. exact C1.
  - intros o Ho. apply in_app_or in Ho as [Ho|Ho].
    + specialize (S1 o Ho). destruct o; try contradiction. destruct S1 as [-> R]. intros r Hr.
      exact (rec_of_same_data _ _ _ _ D0 (R r Hr)).
    + specialize (S2 o Ho). destruct o; try contradiction. intros r Hr. specialize (S2 r Hr).
      rewrite reg_of_changes_nset in S2 by exact C1. exact S2.
Qed.

Lemma chg_reg_of st i : chg st i = rg_changes (reg_of (d_regs st) i).
Proof. unfold chg. rewrite get_reg_reg_of. reflexivity. Qed.

Lemma register_service_ok st s now js :
  Forall (ok_out (fst (fst (register_service st s now js)))) (snd (fst (register_service st s now js))).
Proof.
  unfold register_service.
  pose proof (register_intfs_ok now (d_intfs st) (auto_addrs st s) (d_regs st) js) as H.
  destruct (register_intfs (d_intfs st) (auto_addrs st s) (d_regs st) now js) as [[[[s' regs] os] anns] js'].
  destruct H as (D & CH & S). cbn [fst snd]. apply Forall_app. split.
  - apply Forall_forall. intros o Ho. specialize (S o Ho). destruct o; try contradiction. cbn [ok_out]. intros _. right.
    intros r Hr. exists (lower (s_full (auto_addrs st s))), s'. split; [cbn [d_svcs]; apply In_aset_same|].
    rewrite chg_reg_of. cbn [d_regs]. rewrite CH. exact (S r Hr).
  - destruct anns; [constructor|]. unfold mon. destruct (d_mon st); repeat constructor.
Qed.

Lemma goodbyes_ok post st s : Forall (ok_out post) (map send_of (goodbyes_of st s)).
Proof.
  apply Forall_forall. intros o Ho. apply in_map_iff in Ho as ([[i v4] m] & <- & Hin). cbn [send_of ok_out]. intros _. left.
  unfold goodbyes_of in Hin. apply in_flat_map in Hin as (itf & _ & Hin).
  destruct (announced_on (if_index itf) s); [|contradiction]. unfold goodbye_on in Hin.
  apply in_app_or in Hin as [Hin|Hin];
    match type of Hin with In _ (match (match ?a with _ => _ end) with _ => _ end) => destruct a eqn:A end;
    try contradiction; destruct Hin as [Hin|[]]; inversion Hin; subst; apply goodbye_all_ttl0.
Qed.

Lemma unregister_ok st k ch now : Forall (ok_out (fst (unregister st k ch now))) (snd (unregister st k ch now)).
Proof.
  unfold unregister. destruct (aget k (d_svcs st)) as [s|]; cbn [fst snd]; [|repeat constructor].
  apply Forall_app. split; [apply goodbyes_ok|repeat constructor].
Qed.

Lemma cleanup_ok st : Forall (ok_out (fst (cleanup st))) (snd (cleanup st)).
Proof.
  unfold cleanup. cbn [fst snd]. apply Forall_app. split; [|repeat constructor].
  apply Forall_forall. intros o Ho. apply in_flat_map in Ho as (ks & _ & Ho).
  exact (proj1 (Forall_forall _ _) (goodbyes_ok _ st (snd ks)) o Ho).
Qed.

(* ---- micro-step: one row of the interface table --------------------------------------------------------- *)

Lemma add_row_services_ok now : forall svcs itf rg ip js,
  let '(svcs', rg', os, _, _) := add_row_services svcs itf rg ip now js in
  rg_changes rg' = rg_changes rg /\
  forall o, In o os -> match o with
                       | OSend i _ _ m => i = if_index itf /\ from_svcs svcs' (rg_changes rg) (o_an m ++ o_ar m)
                       | _ => False end.
Proof.
  induction svcs as [|[k s] t IH]; intros itf rg ip js; [split; [reflexivity|intros o []]|]. cbn [add_row_services].
  destruct (s_auto s).
  - pose proof (prepare_announce_ok (set_addrs (add_ip ip (s_addrs s)) s) itf rg (is_v4 ip) now js) as H1.
    destruct (prepare_announce (set_addrs (add_ip ip (s_addrs s)) s) itf rg (is_v4 ip) now js) as [[rg1 m] js1]. destruct H1 as [C1 R1].
    specialize (IH itf rg1 ip js1). destruct (add_row_services t itf rg1 ip now js1) as [[[[t' rg2] os2] rt2] js2]. destruct IH as [C2 S2].
    split; [congruence|]. intros o Ho. apply in_app_or in Ho as [Ho|Ho].
    + destruct m as [msg|]; [|contradiction]. destruct Ho as [<-|[]]. split; [reflexivity|]. intros r Hr.
      eexists k, _. split; [left; reflexivity|]. eapply rec_of_same_data; [apply same_data_status|exact (R1 r Hr)].
    + specialize (S2 o Ho). destruct o; try contradiction. destruct S2 as [E F]. split; [exact E|].
      rewrite C1 in F. intros r Hr. destruct (F r Hr) as (k1 & s1 & I1 & Rr). exists k1, s1. split; [right; exact I1|exact Rr].
  - specialize (IH itf rg ip js). destruct (add_row_services t itf rg ip now js) as [[[[t' rg2] os2] rt2] js2]. destruct IH as [C2 S2].
    split; [exact C2|]. intros o Ho. specialize (S2 o Ho). destruct o; try contradiction. destruct S2 as [E F]. split; [exact E|].
    intros r Hr. destruct (F r Hr) as (k1 & s1 & I1 & Rr). exists k1, s1. split; [right; exact I1|exact Rr].
Qed.

Lemma add_interface_ok st r now js :
  Forall (ok_out (fst (fst (add_interface st r now js)))) (snd (fst (add_interface st r now js))).
Proof.
  unfold add_interface. destruct (find_intf st (os_index r)) as [itf0|].
  - destruct (has_addr itf0 (os_ip r)); [constructor|].
    match goal with |- context [add_row_services ?a ?b ?c ?d now js] =>
      pose proof (add_row_services_ok now a b c d js) as H; destruct (add_row_services a b c d now js) as [[[[svcs rg] os] rt] js'] end.
    destruct H as [C S]. cbn [fst snd]. apply Forall_app. split.
    + apply Forall_forall. intros o Ho. specialize (S o Ho). destruct o; try contradiction. destruct S as [E F]. cbn [ok_out]. intros _. right.
      cbn [if_index] in E. subst ifidx. rewrite chg_nset, C. exact F.
    + unfold mon. destruct (d_mon st); repeat constructor.
  - match goal with |- context [add_row_services ?a ?b ?c ?d now js] =>
      pose proof (add_row_services_ok now a b c d js) as H; destruct (add_row_services a b c d now js) as [[[[svcs rg] os] rt] js'] end.
    destruct H as [C S]. cbn [fst snd]. apply Forall_app. split.
    + apply Forall_forall. intros o Ho. specialize (S o Ho). destruct o; try contradiction. destruct S as [E F]. cbn [ok_out]. intros _. right.
      cbn [if_index] in E. subst ifidx. rewrite chg_nset, C. exact F.
    + unfold mon. destruct (d_mon st); repeat constructor.
Qed.

Lemma del_interface_addr_ok st r : Forall (ok_out (fst (del_interface_addr st r))) (snd (del_interface_addr st r)).
Proof.
  unfold del_interface_addr. destruct (find_intf st (os_index r)) as [itf0|]; [|constructor].
  destruct (negb (has_addr itf0 (os_ip r))); [constructor|]. cbn [fst snd].
  match goal with |- Forall _ (if ?c then _ else _) => destruct c end; [constructor|]. unfold mon. destruct (d_mon st); repeat constructor.
Qed.

Lemma apply_rows_ok now : forall rows st js, phase_ok (st_rows st rows now js) (snd (fst (apply_rows st rows now js))).
Proof.
  induction rows as [|r t IH]; intros st js; [intros o []|]. cbn [apply_rows st_rows]. destruct (row_selected (d_sel st) r).
  - pose proof (add_interface_ok st r now js) as H1. destruct (add_interface st r now js) as [[st1 os1] js1]. cbn [fst snd] in H1.
    specialize (IH st1 js1). destruct (apply_rows st1 t now js1) as [[st2 os2] js2]. cbn [fst snd] in *. apply phase_ok_cons; assumption.
  - pose proof (del_interface_addr_ok st r) as H1. destruct (del_interface_addr st r) as [st1 os1]. cbn [fst snd] in H1.
    specialize (IH st1 js). destruct (apply_rows st1 t now js) as [[st2 os2] js2]. cbn [fst snd] in *. apply phase_ok_cons; assumption.
Qed.

Lemma exec_call_ok st c now js : phase_ok (st_call st c now js) (snd (fst (fst (exec_call st c now js)))).
Proof.
  destruct c; cbn [exec_call st_call].
  - pose proof (register_service_ok st s now js) as H. destruct (register_service st s now js) as [[st1 os1] js1]. apply phase_ok_one. exact H.
  - pose proof (unregister_ok st (lower name) ch now) as H. destruct (unregister st (lower name) ch now) as [st1 os1]. apply phase_ok_one. exact H.
  - intros o [].
  - pose proof (cleanup_ok st) as H. destruct (cleanup st) as [st1 os1]. apply phase_ok_one. exact H.
  - unfold select_interfaces.
    match goal with |- context [apply_rows ?a ?b now js] => pose proof (apply_rows_ok now b a js) as H; destruct (apply_rows a b now js) as [[st1 os1] js1] end.
    cbn [fst snd] in *. intros o Ho. destruct (H o Ho) as (mid & I & K). exists mid. split; [right; exact I|exact K].
  - intros o [].
Qed.

Lemma exec_calls_ok now : forall cs st js, phase_ok (st_calls st cs now js) (snd (fst (exec_calls st cs now js))).
Proof.
  induction cs as [|c t IH]; intros st js; [intros o []|]. cbn [exec_calls st_calls].
  pose proof (exec_call_ok st c now js) as H1. destruct (exec_call st c now js) as [[[st1 os1] js1] stop]. cbn [fst snd] in H1.
  destruct stop.
  - cbn [fst snd]. rewrite app_nil_r. exact H1.
  - specialize (IH st1 js1). destruct (exec_calls st1 t now js1) as [[st2 os2] js2]. cbn [fst snd] in *. apply phase_ok_app; assumption.
Qed.

(* ---- micro-step: one due retransmission ----------------------------------------------------------------------- *)

Lemma sends_ok_to_ok_out post idx ch s os k :
  sends_ok_for idx ch s os -> chg post idx = ch -> In (k, s) (d_svcs post) -> Forall (ok_out post) os.
Proof.
  intros S C I. apply Forall_forall. intros o Ho. specialize (S o Ho). destruct o; try contradiction. destruct S as [-> R].
  cbn [ok_out]. intros _. right. rewrite C. intros r Hr. exists k, s. split; [exact I|exact (R r Hr)].
Qed.

Lemma sends_ok_same_data idx ch s s' os : same_data s s' -> sends_ok_for idx ch s os -> sends_ok_for idx ch s' os.
Proof.
  intros D S o Ho. specialize (S o Ho). destruct o; try contradiction. destruct S as [E R]. split; [exact E|].
  intros r Hr. exact (rec_of_same_data _ _ _ _ D (R r Hr)).
Qed.

Lemma register_resend_ok st full i now js :
  Forall (ok_out (fst (fst (register_resend st full i now js)))) (snd (fst (register_resend st full i now js))).
Proof.
  unfold register_resend. destruct (aget (lower full) (d_svcs st)) as [s|] eqn:G; [|constructor].
  destruct (nget i (d_regs st)) as [rg|] eqn:GR; [|constructor]. destruct (find_intf st i) as [itf|] eqn:F; [|constructor].
  assert (Ei : if_index itf = i) by (unfold find_intf in F; apply find_some in F as [_ F]; apply N.eqb_eq in F; exact F).
  pose proof (announce_both_ok s itf rg now js) as H. destruct (announce_both s itf rg now js) as [[[rg' os] ann] js']. destruct H as [C S].
  rewrite Ei in S. destruct ann; cbn [fst snd].
  - apply Forall_app. split; [|unfold mon; destruct (d_mon st); repeat constructor].
    apply (sends_ok_to_ok_out _ i (rg_changes rg) (set_status i SAnnounced s) os (lower full)).
    + exact (sends_ok_same_data _ _ _ _ _ (same_data_status _ _ _) S).
    + rewrite chg_nset. exact C.
    + cbn [d_svcs]. apply In_aset_same.
  - apply (sends_ok_to_ok_out _ i (rg_changes rg) s os (lower full)); [exact S|rewrite chg_nset; exact C|cbn [d_svcs]; apply aget_In; exact G].
Qed.

Lemma run_due_ok now : forall due st js, Forall gb_entry due ->
  phase_ok (st_due st due now js) (snd (fst (run_due st due now js))).
Proof.
  induction due as [|[t c] due IH]; intros st js HG; [intros o []|]. cbn [run_due st_due].
  assert (Hhd : gb_entry (t, c)) by (inversion HG; assumption). assert (Htl : Forall gb_entry due) by (inversion HG; assumption).
  destruct c.
  - pose proof (register_resend_ok st full ifidx now js) as R1. destruct (register_resend st full ifidx now js) as [[st1 os1] js1]. cbn [fst snd] in R1.
    specialize (IH st1 js1 Htl). destruct (run_due st1 due now js1) as [[st2 os2] js2]. cbn [fst snd] in *. apply phase_ok_cons; assumption.
  - specialize (IH st js Htl). destruct (run_due st due now js) as [[st2 os2] js2]. cbn [fst snd] in *. apply phase_ok_cons; [|exact IH].
    unfold unregister_resend. destruct (find_intf st ifidx); [|constructor]. destruct (intf_has_family i v4); [|constructor].
    constructor; [|constructor]. cbn [ok_out]. intros _. left. exact Hhd.
Qed.

(* ---- micro-step: the probing pass over one interface ------------------------------------------------------------- *)

Lemma announce_waiting_ok itf now m : forall waiting rg svcs js,
  let '(rg2, svcs2, os, _, _) := announce_waiting waiting itf rg svcs now js m in
  rg_changes rg2 = rg_changes rg /\ svcs_le svcs svcs2 /\
  forall o, In o os -> match o with
                       | OSend i _ _ msg => i = if_index itf /\ from_svcs svcs2 (rg_changes rg) (o_an msg ++ o_ar msg)
                       | _ => True end.
Proof.
  induction waiting as [|w t IH]; intros rg svcs js; [split; [reflexivity|split; [apply svcs_le_refl|intros o []]]|].
  cbn [announce_waiting]. destruct (aget (lower w) svcs) as [s|] eqn:G; [|apply IH].
  destruct (announced_on (if_index itf) s); [apply IH|].
  pose proof (announce_both_ok s itf rg now js) as H1. destruct (announce_both s itf rg now js) as [[[rg1 os] ann] js1]. destruct H1 as [C1 S1].
  assert (K : forall svcs1, svcs_le svcs svcs1 ->
              (let '(rg2, svcs2, os2, _, _) := announce_waiting t itf rg1 svcs1 now js1 m in
               rg_changes rg2 = rg_changes rg1 /\ svcs_le svcs1 svcs2 /\
               forall o, In o os2 -> match o with OSend i _ _ msg => i = if_index itf /\ from_svcs svcs2 (rg_changes rg1) (o_an msg ++ o_ar msg) | _ => True end) ->
              forall ev, (forall o, In o ev -> match o with OSend _ _ _ _ => False | _ => True end) ->
              let '(rg2, svcs2, os2, _, _) := announce_waiting t itf rg1 svcs1 now js1 m in
              rg_changes rg2 = rg_changes rg /\ svcs_le svcs svcs2 /\
              forall o, In o (os ++ ev ++ os2) -> match o with OSend i _ _ msg => i = if_index itf /\ from_svcs svcs2 (rg_changes rg) (o_an msg ++ o_ar msg) | _ => True end).
  { intros svcs1 L1 H ev Hev. destruct (announce_waiting t itf rg1 svcs1 now js1 m) as [[[[rg2 svcs2] os2] rt2] js2].
    destruct H as (C2 & L2 & S2). split; [congruence|]. split; [eapply svcs_le_trans; eassumption|].
    intros o Ho. apply in_app_or in Ho as [Ho|Ho]; [|apply in_app_or in Ho as [Ho|Ho]].
    - specialize (S1 o Ho). destruct o; try exact I. destruct S1 as [E R]. split; [exact E|].
      apply (from_svcs_le svcs svcs2); [eapply svcs_le_trans; eassumption|].
      intros r Hr. exists (lower w), s. split; [apply aget_In; exact G|exact (R r Hr)].
    - specialize (Hev o Ho). destruct o; try exact I. contradiction.
    - specialize (S2 o Ho). destruct o; try exact I. rewrite C1 in S2. exact S2. }
  destruct ann.
  - specialize (K (sput (lower w) (set_status (if_index itf) SAnnounced s) svcs) (svcs_le_sput _ _ _ _ G (same_data_status _ _ _))
                  (IH rg1 _ js1) (mon m [OAnnounce (resolve_name rg1 w) (Some (resolve_name rg1 (s_host s), if_name itf))])).
    destruct (announce_waiting t itf rg1 (sput (lower w) (set_status (if_index itf) SAnnounced s) svcs) now js1 m) as [[[[rg2 svcs2] os2] rt2] js2].
    apply K. intros o Ho. unfold mon in Ho. destruct m; [|contradiction]. destruct Ho as [<-|[]]. exact I.
  - specialize (K svcs (svcs_le_refl _) (IH rg1 svcs js1) []).
    destruct (announce_waiting t itf rg1 svcs now js1 m) as [[[[rg2 svcs2] os2] rt2] js2].
    specialize (K (fun o H => match H with end)). cbn [app] in K. exact K.
Qed.

Lemma probing_intfs_ok now : forall ifs st js,
  phase_ok (st_probing ifs st now js) (snd (fst (probing_intfs ifs st now js))).
Proof.
  induction ifs as [|itf t IH]; intros st js; [intros o []|]. cbn [probing_intfs st_probing].
  destruct (nget (if_index itf) (d_regs st)) as [rg|]; [|apply IH].
  destruct (probe_step rg now) as [[[rg1 qs] evs] waiting].
  pose proof (announce_waiting_ok itf now (d_mon st) waiting rg1 (d_svcs st) js) as H1.
  destruct (announce_waiting waiting itf rg1 (d_svcs st) now js (d_mon st)) as [[[[rg2 svcs2] os2] rt2] js2].
  destruct H1 as (C & L & S).
  match goal with |- context [probing_intfs t ?s now js2] => specialize (IH s js2); destruct (probing_intfs t s now js2) as [[st2 os3] js3] end.
  cbn [fst snd] in *.
  match goal with |- phase_ok (?s1 :: _) _ => set (post := s1) in * end.
  rewrite !app_assoc. apply phase_ok_cons; [|exact IH]. rewrite <- !app_assoc.
  apply Forall_app. split; [|apply Forall_app; split].
  - destruct qs; [constructor|]. apply Forall_app.
    split; [destruct (intf_has_family itf true)|destruct (intf_has_family itf false)]; repeat constructor; cbn; discriminate.
  - unfold mon. destruct (d_mon st); [|constructor]. apply Forall_forall. intros o Ho. apply in_map_iff in Ho as ([[a b] c] & <- & _). exact I.
  - apply Forall_forall. intros o Ho. specialize (S o Ho). destruct o; try exact I. destruct S as [-> F]. cbn [ok_out]. intros _. right.
    unfold post. rewrite chg_nset, C. exact F.
Qed.

(* ---- one iteration --------------------------------------------------------------------------------------------- *)

Lemma cut_in os : forall o, In o (fst (cut_at_panic os)) -> In o os.
Proof.
  induction os as [|x t IH]; intros o H; [contradiction|]. cbn [cut_at_panic] in H. destruct x;
    try (destruct (cut_at_panic t) as [r p]; cbn [fst] in *; destruct H as [H|H]; [left; exact H|right; apply IH; exact H]).
  destruct (msg_ok m); [|contradiction].
  destruct (cut_at_panic t) as [r p]; cbn [fst] in *; destruct H as [H|H]; [left; exact H|right; apply IH; exact H].
Qed.

(* every output of an iteration from a state whose queued goodbye repeats are goodbyes is fine for the
   state after its own micro-step *)
Theorem iterate_outputs_ok st it :
  saved_goodbyes st -> phase_ok (iter_states st it) (snd (fst (fst (iterate st it)))).
Proof.
  intros HG. unfold iterate, iter_states. destruct (d_dead st); [intros o []|]. set (now := it_now it).
  set (gs := filter (fun g => g_v4 g) (it_dgrams it) ++ filter (fun g => negb (g_v4 g)) (it_dgrams it)).
  pose proof (handle_dgrams_ok now gs st (it_jitter it)) as P1.
  pose proof (handle_dgrams_retrans now gs st (it_jitter it)) as Q1.
  destruct (handle_dgrams st gs now (it_jitter it)) as [[st1 os1] js1]. cbn [fst snd] in P1, Q1.
  pose proof (exec_calls_ok now (it_calls it) st1 js1) as P2.
  pose proof (exec_calls_retrans now (it_calls it) st1 js1) as Q2.
  destruct (exec_calls st1 (it_calls it) now js1) as [[st2 os2] js2]. cbn [fst snd] in P2, Q2.
  assert (G2 : Forall gb_entry (d_retrans st2)).
  { destruct Q2 as [(l & E & N)|(l & E & N)]; rewrite E.
    - apply Forall_app. split; [rewrite Q1; exact HG|]. apply Forall_forall. intros e He. exact (new_entry_gb _ _ (proj1 (Forall_forall _ _) N e He)).
    - apply Forall_forall. intros e He. exact (new_entry_gb _ _ (proj1 (Forall_forall _ _) N e He)). }
  destruct (d_dead st2) eqn:D2.
  - rewrite app_nil_r. destruct (cut_at_panic (os1 ++ os2)) as [os p] eqn:EC. cbn [fst snd].
    intros o Ho. assert (Ho' : In o (os1 ++ os2)) by (apply cut_in; rewrite EC; exact Ho).
    exact (phase_ok_app _ _ _ _ P1 P2 o Ho').
  - unfold retransmit. rewrite D2.
    set (due := filter (fun e => fst e <=? now) (d_retrans st2)).
    match goal with |- context [run_due ?s0 due now js2] => set (st2' := s0) end.
    assert (GD : Forall gb_entry due) by (apply Forall_forall; intros e He; apply filter_In in He as [He _]; exact (proj1 (Forall_forall _ _) G2 e He)).
    pose proof (run_due_ok now due st2' js2 GD) as P3.
    destruct (run_due st2' due now js2) as [[st3 os3] js3]. cbn [fst snd] in P3.
    pose proof (probing_intfs_ok now (d_intfs st3) st3 js3) as P4. unfold probing_handler.
    destruct (probing_intfs (d_intfs st3) st3 now js3) as [[st4 os4] js4]. cbn [fst snd] in P4.
    destruct (cut_at_panic (os1 ++ os2 ++ os3 ++ os4)) as [os p] eqn:EC.
    assert (K : phase_ok (st_dgrams st gs now (it_jitter it) ++ st_calls st1 (it_calls it) now js1 ++ st_due st2' due now js2 ++ st_probing (d_intfs st3) st3 now js3) os).
    { intros o Ho. assert (Ho' : In o (os1 ++ os2 ++ os3 ++ os4)) by (apply cut_in; rewrite EC; exact Ho).
      exact (phase_ok_app _ _ _ _ P1 (phase_ok_app _ _ _ _ P2 (phase_ok_app _ _ _ _ P3 P4)) o Ho'). }
    destruct p; cbn [fst snd]; exact K.
Qed.

(* ---- the keys of the service map during an iteration ------------------------------------------------------------ *)

Definition KS (base : list bytes) (st : dstate) : Prop := forall k s, In (k, s) (d_svcs st) -> In k base.

Lemma KS_svcs base st st' : d_svcs st' = d_svcs st -> KS base st -> KS base st'.
Proof. intros E H k s I. rewrite E in I. exact (H k s I). Qed.

Lemma In_keys {V} k (v : V) l : In (k, v) l -> In k (keys l).
Proof. intros H. unfold keys. change k with (fst (k, v)). apply in_map. exact H. Qed.

Lemma sput_keys k0 v l k s : In (k, s) (sput k0 v l) -> k = k0 \/ In k (keys l).
Proof. intros H. apply In_keys in H. unfold sput in H. apply keys_aset in H. exact H. Qed.

Lemma handle_dgram_svcs st g now js : d_svcs (fst (fst (handle_dgram st g now js))) = d_svcs st.
Proof.
  unfold handle_dgram. destruct (find_intf st (g_if g)); [|reflexivity].
  destruct (negb (intf_has_family i (g_v4 g))); [reflexivity|]. destruct (g_resp g).
  - unfold handle_response. destruct (find_intf st (g_if g)); [|reflexivity]. destruct (nget (g_if g) (d_regs st)); [|reflexivity].
    destruct (conflict_answers r (g_an g) now js). reflexivity.
  - unfold handle_query. destruct (nget (g_if g) (d_regs st)); [|reflexivity]. destruct (find_intf st (g_if g)); [|reflexivity].
    destruct (handle_questions st g i0 r (g_q g) now) as [[rg' an] ar]. destruct an; reflexivity.
Qed.

Lemma st_dgrams_KS base now : forall gs st js, KS base st ->
  (forall mid, In mid (st_dgrams st gs now js) -> KS base mid) /\ KS base (fst (fst (handle_dgrams st gs now js))).
Proof.
  induction gs as [|g t IH]; intros st js H; [split; [intros mid []|exact H]|]. cbn [st_dgrams handle_dgrams].
  pose proof (handle_dgram_svcs st g now js) as E. destruct (handle_dgram st g now js) as [[st1 os1] js1]. cbn [fst] in E.
  assert (H1 : KS base st1) by (exact (KS_svcs _ _ _ E H)).
  destruct (IH st1 js1 H1) as [A B]. destruct (handle_dgrams st1 t now js1) as [[st2 os2] js2]. cbn [fst] in *.
  split; [intros mid [<-|I]; [exact H1|exact (A mid I)]|exact B].
Qed.

Lemma auto_addrs_full st s : s_full (auto_addrs st s) = s_full s.
Proof. unfold auto_addrs. destruct (s_auto s); reflexivity. Qed.

Lemma register_service_KS base st s now js : KS base st -> In (lower (s_full s)) base ->
  KS base (fst (fst (register_service st s now js))).
Proof.
  intros H Hb. unfold register_service.
  destruct (register_intfs (d_intfs st) (auto_addrs st s) (d_regs st) now js) as [[[[s' regs] os] anns] js']. cbn [fst].
  intros k v I. cbn [d_svcs] in I. apply sput_keys in I as [->|I]; [rewrite auto_addrs_full; exact Hb|].
  unfold keys in I. apply in_map_iff in I as ([k1 v1] & <- & I). exact (H k1 v1 I).
Qed.

Lemma add_row_services_keys now : forall svcs itf rg ip js,
  map fst (fst (fst (fst (fst (add_row_services svcs itf rg ip now js))))) = map fst svcs.
Proof.
  induction svcs as [|[k s] t IH]; intros itf rg ip js; [reflexivity|]. cbn [add_row_services]. destruct (s_auto s).
  - destruct (prepare_announce (set_addrs (add_ip ip (s_addrs s)) s) itf rg (is_v4 ip) now js) as [[rg1 m] js1].
    specialize (IH itf rg1 ip js1). destruct (add_row_services t itf rg1 ip now js1) as [[[[t' rg2] os2] rt2] js2]. cbn [fst map] in *. congruence.
  - specialize (IH itf rg ip js). destruct (add_row_services t itf rg ip now js) as [[[[t' rg2] os2] rt2] js2]. cbn [fst map] in *. congruence.
Qed.

Lemma KS_keys base st st' : map fst (d_svcs st') = map fst (d_svcs st) -> KS base st -> KS base st'.
Proof.
  intros E H k s I. apply In_keys in I. unfold keys in I. rewrite E in I. apply in_map_iff in I as ([k1 v1] & <- & I). exact (H k1 v1 I).
Qed.

Lemma add_interface_KS base st r now js : KS base st -> KS base (fst (fst (add_interface st r now js))).
Proof.
  intros H. unfold add_interface. destruct (find_intf st (os_index r)) as [itf0|].
  - destruct (has_addr itf0 (os_ip r)); [exact H|].
    match goal with |- context [add_row_services ?a ?b ?c ?d now js] =>
      pose proof (add_row_services_keys now a b c d js) as E; destruct (add_row_services a b c d now js) as [[[[svcs rg] os] rt] js'] end.
    cbn [fst] in *. apply (KS_keys base st); [exact E|exact H].
  - match goal with |- context [add_row_services ?a ?b ?c ?d now js] =>
      pose proof (add_row_services_keys now a b c d js) as E; destruct (add_row_services a b c d now js) as [[[[svcs rg] os] rt] js'] end.
    cbn [fst] in *. apply (KS_keys base st); [exact E|exact H].
Qed.

Lemma del_interface_addr_KS base st r : KS base st -> KS base (fst (del_interface_addr st r)).
Proof.
  intros H. unfold del_interface_addr. destruct (find_intf st (os_index r)) as [itf0|]; [|exact H].
  destruct (negb (has_addr itf0 (os_ip r))); [exact H|]. cbn [fst]. apply (KS_keys base st); [|exact H]. cbn [d_svcs].
  match goal with |- context [if ?c then d_svcs st else _] => destruct c end; [reflexivity|]. rewrite map_map. reflexivity.
Qed.

Lemma st_rows_KS base now : forall rows st js, KS base st ->
  (forall mid, In mid (st_rows st rows now js) -> KS base mid) /\ KS base (fst (fst (apply_rows st rows now js))).
Proof.
  induction rows as [|r t IH]; intros st js H; [split; [intros mid []|exact H]|]. cbn [st_rows apply_rows].
  destruct (row_selected (d_sel st) r).
  - pose proof (add_interface_KS base st r now js H) as H1. destruct (add_interface st r now js) as [[st1 os1] js1]. cbn [fst] in H1.
    destruct (IH st1 js1 H1) as [A B]. destruct (apply_rows st1 t now js1) as [[st2 os2] js2]. cbn [fst] in *.
    split; [intros mid [<-|I]; [exact H1|exact (A mid I)]|exact B].
  - pose proof (del_interface_addr_KS base st r H) as H1. destruct (del_interface_addr st r) as [st1 os1]. cbn [fst] in H1.
    destruct (IH st1 js H1) as [A B]. destruct (apply_rows st1 t now js) as [[st2 os2] js2]. cbn [fst] in *.
    split; [intros mid [<-|I]; [exact H1|exact (A mid I)]|exact B].
Qed.

Lemma st_call_KS base st c now js : KS base st -> incl (registered_keys [c]) base ->
  (forall mid, In mid (st_call st c now js) -> KS base mid) /\ KS base (fst (fst (fst (exec_call st c now js)))).
Proof.
  intros H Hc. destruct c; cbn [st_call exec_call].
  - assert (K : KS base (fst (fst (register_service st s now js)))) by (apply register_service_KS; [exact H|apply Hc; left; reflexivity]).
    destruct (register_service st s now js) as [[st1 os1] js1]. cbn [fst] in *. split; [intros mid [<-|[]]; exact K|exact K].
  - assert (K : KS base (fst (unregister st (lower name) ch now))).
    { unfold unregister. destruct (aget (lower name) (d_svcs st)); [|exact H]. cbn [fst]. intros k0 s0 I. cbn [d_svcs] in I.
      apply adel_entries in I. exact (H k0 s0 I). }
    destruct (unregister st (lower name) ch now) as [st1 os1]. cbn [fst] in *. split; [intros mid [<-|[]]; exact K|exact K].
  - split; [intros mid [<-|[]]; exact H|exact H].
  - assert (K : KS base (fst (cleanup st))) by (intros k0 s0 []).
    destruct (cleanup st) as [st1 os1]. cbn [fst] in *. split; [intros mid [<-|[]]; exact K|exact K].
  - unfold select_interfaces.
    match goal with |- context [apply_rows ?a ?b now js] =>
      assert (Ha : KS base a) by exact H; destruct (st_rows_KS base now b a js Ha) as [A B]; destruct (apply_rows a b now js) as [[st1 os1] js1] end.
    cbn [fst] in *. split; [intros mid [<-|I]; [exact H|exact (A mid I)]|exact B].
  - split; [intros mid [<-|[]]; exact H|exact H].
Qed.

Lemma st_calls_KS base now : forall cs st js, KS base st -> incl (registered_keys cs) base ->
  (forall mid, In mid (st_calls st cs now js) -> KS base mid) /\ KS base (fst (fst (exec_calls st cs now js))).
Proof.
  induction cs as [|c t IH]; intros st js H Hc; [split; [intros mid []|exact H]|]. cbn [st_calls exec_calls].
  assert (Hc1 : incl (registered_keys [c]) base).
  { intros x Hx. apply Hc. unfold registered_keys in *. cbn [flat_map] in *. rewrite app_nil_r in Hx. apply in_or_app. left. exact Hx. }
  assert (Hc2 : incl (registered_keys t) base).
  { intros x Hx. apply Hc. unfold registered_keys in *. cbn [flat_map]. apply in_or_app. right. exact Hx. }
  destruct (st_call_KS base st c now js H Hc1) as [A1 B1].
  destruct (exec_call st c now js) as [[[st1 os1] js1] stop]. cbn [fst] in B1. destruct stop.
  - rewrite app_nil_r. split; [exact A1|exact B1].
  - destruct (IH st1 js1 B1 Hc2) as [A2 B2]. destruct (exec_calls st1 t now js1) as [[st2 os2] js2]. cbn [fst] in *.
    split; [intros mid I; apply in_app_or in I as [I|I]; [exact (A1 mid I)|exact (A2 mid I)]|exact B2].
Qed.

Lemma KS_sput_existing base st k0 s0 v intfs regs rt m d o sel :
  KS base st -> aget k0 (d_svcs st) = Some s0 -> KS base (mkD intfs regs (sput k0 v (d_svcs st)) rt m d o sel).
Proof.
  intros H G k s I. cbn [d_svcs] in I. apply sput_keys in I as [->|I].
  - exact (H k0 s0 (aget_In _ _ _ G)).
  - unfold keys in I. apply in_map_iff in I as ([k1 v1] & <- & I). exact (H k1 v1 I).
Qed.

Lemma register_resend_KS base st full i now js : KS base st -> KS base (fst (fst (register_resend st full i now js))).
Proof.
  intros H. unfold register_resend. destruct (aget (lower full) (d_svcs st)) as [s|] eqn:G; [|exact H].
  destruct (nget i (d_regs st)); [|exact H]. destruct (find_intf st i); [|exact H].
  destruct (announce_both s i0 r now js) as [[[rg' os] ann] js']. destruct ann; cbn [fst].
  - exact (KS_sput_existing base st _ _ _ _ _ _ _ _ _ _ H G).
  - intros k v I. exact (H k v I).
Qed.

Lemma st_due_KS base now : forall due st js, KS base st ->
  (forall mid, In mid (st_due st due now js) -> KS base mid) /\ KS base (fst (fst (run_due st due now js))).
Proof.
  induction due as [|[t c] due IH]; intros st js H; [split; [intros mid []|exact H]|]. cbn [st_due run_due]. destruct c.
  - pose proof (register_resend_KS base st full ifidx now js H) as H1. destruct (register_resend st full ifidx now js) as [[st1 os1] js1]. cbn [fst] in H1.
    destruct (IH st1 js1 H1) as [A B]. destruct (run_due st1 due now js1) as [[st2 os2] js2]. cbn [fst] in *.
    split; [intros mid [<-|I]; [exact H1|exact (A mid I)]|exact B].
  - destruct (IH st js H) as [A B]. destruct (run_due st due now js) as [[st2 os2] js2]. cbn [fst] in *.
    split; [intros mid [<-|I]; [exact H|exact (A mid I)]|exact B].
Qed.

Lemma announce_waiting_keys itf now m : forall waiting rg svcs js k s,
  In (k, s) (snd (fst (fst (fst (announce_waiting waiting itf rg svcs now js m))))) -> In k (keys svcs).
Proof.
  induction waiting as [|w t IH]; intros rg svcs js k s I; [exact (In_keys _ _ _ I)|]. cbn [announce_waiting] in I.
  destruct (aget (lower w) svcs) as [s0|] eqn:G; [|exact (IH _ _ _ _ _ I)].
  destruct (announced_on (if_index itf) s0); [exact (IH _ _ _ _ _ I)|].
  destruct (announce_both s0 itf rg now js) as [[[rg1 os] ann] js1]. destruct ann.
  - destruct (announce_waiting t itf rg1 (sput (lower w) (set_status (if_index itf) SAnnounced s0) svcs) now js1 m) as [[[[rg2 svcs2] os2] rt2] js2] eqn:E.
    cbn [fst snd] in I.
    assert (I' : In k (keys (sput (lower w) (set_status (if_index itf) SAnnounced s0) svcs))).
    { apply (IH rg1 _ js1 k s). rewrite E. exact I. }
    unfold sput in I'. apply keys_aset in I' as [->|I']; [exact (In_keys _ _ _ (aget_In _ _ _ G))|exact I'].
  - destruct (announce_waiting t itf rg1 svcs now js1 m) as [[[[rg2 svcs2] os2] rt2] js2] eqn:E. cbn [fst snd] in I.
    apply (IH rg1 svcs js1 k s). rewrite E. exact I.
Qed.

Lemma st_probing_KS base now : forall ifs st js, KS base st -> forall mid, In mid (st_probing ifs st now js) -> KS base mid.
Proof.
  induction ifs as [|itf t IH]; intros st js H mid I; [contradiction|]. cbn [st_probing] in I.
  destruct (nget (if_index itf) (d_regs st)) as [rg|]; [|exact (IH st js H mid I)].
  destruct (probe_step rg now) as [[[rg1 qs] evs] waiting].
  pose proof (announce_waiting_keys itf now (d_mon st) waiting rg1 (d_svcs st) js) as K.
  destruct (announce_waiting waiting itf rg1 (d_svcs st) now js (d_mon st)) as [[[[rg2 svcs2] os2] rt2] js2]. cbn [fst snd] in K.
  match type of I with In mid (?s1 :: _) => assert (H1 : KS base s1) end.
  { intros k s Hin. cbn [d_svcs] in Hin. specialize (K k s Hin). unfold keys in K. apply in_map_iff in K as ([k1 v1] & <- & K). exact (H k1 v1 K). }
  destruct I as [<-|I]; [exact H1|exact (IH _ js2 H1 mid I)].
Qed.

(* the keys present in the service map at any micro-step of an iteration were there before it or are
   registered by one of its calls *)
Lemma iter_states_KS st it :
  forall mid, In mid (iter_states st it) -> KS (keys (d_svcs st) ++ registered_keys (it_calls it)) mid.
Proof.
  set (base := keys (d_svcs st) ++ registered_keys (it_calls it)).
  assert (H0 : KS base st) by (intros k0 s0 I0; apply in_or_app; left; exact (In_keys _ _ _ I0)).
  unfold iter_states. destruct (d_dead st); [intros mid []|]. set (now := it_now it).
  set (gs := filter (fun g => g_v4 g) (it_dgrams it) ++ filter (fun g => negb (g_v4 g)) (it_dgrams it)).
  destruct (st_dgrams_KS base now gs st (it_jitter it) H0) as [A1 B1].
  destruct (handle_dgrams st gs now (it_jitter it)) as [[st1 os1] js1]. cbn [fst] in B1.
  assert (Hc : incl (registered_keys (it_calls it)) base) by (intros x Hx; apply in_or_app; right; exact Hx).
  destruct (st_calls_KS base now (it_calls it) st1 js1 B1 Hc) as [A2 B2].
  destruct (exec_calls st1 (it_calls it) now js1) as [[st2 os2] js2]. cbn [fst] in B2.
  intros mid I. apply in_app_or in I as [I|I]; [exact (A1 mid I)|]. apply in_app_or in I as [I|I]; [exact (A2 mid I)|].
  destruct (d_dead st2) eqn:D2; [contradiction|]. unfold retransmit in I. rewrite D2 in I.
  match type of I with context [run_due ?s0 ?d now js2] =>
    assert (Hs0 : KS base s0) by (intros k0 s1 I0; exact (B2 k0 s1 I0)); destruct (st_due_KS base now d s0 js2 Hs0) as [A3 B3];
    destruct (run_due s0 d now js2) as [[st3 os3] js3] end.
  cbn [fst] in B3. apply in_app_or in I as [I|I]; [exact (A3 mid I)|exact (st_probing_KS base now _ st3 js3 B3 mid I)].
Qed.

Theorem iter_states_keys st it mid k s :
  In mid (iter_states st it) -> In (k, s) (d_svcs mid) ->
  In k (keys (d_svcs st)) \/ In k (registered_keys (it_calls it)).
Proof. intros Hm Hk. apply in_app_or. exact (iter_states_KS st it mid Hm k s Hk). Qed.

(* ======================================================================================================
   ALL HISTORIES
   ====================================================================================================== *)

(* Every response the daemon model ever sends is a goodbye (all TTL 0), or each of its records is a
   record (rec_of) of a service that is in the service map when the micro-step that sends it ends -
   under the names the interface's registry holds at that moment - and whose key was in the map
   before the iteration or is registered by a call of the iteration. *)
Theorem responses_only_for_registered_services ifs os its it i v4 d m :
  let st := run_state (d_init_os ifs os) its in
  In (OSend i v4 d m) (snd (fst (fst (iterate st it)))) -> o_resp m = true ->
  is_goodbye m = true \/
  forall r, In r (o_an m ++ o_ar m) ->
  exists mid k s, In mid (iter_states st it) /\ In (k, s) (d_svcs mid) /\ rec_of (chg mid i) s r /\
                  (In k (keys (d_svcs st)) \/ In k (registered_keys (it_calls it))).
Proof.
  intros st Hin Hr.
  destruct (iterate_outputs_ok st it (saved_goodbyes_all_histories ifs os its) _ Hin) as (mid & Hm & Hok).
  cbn [ok_out] in Hok. destruct (Hok Hr) as [G|K]; [left; exact G|right].
  intros r Hr'. destruct (K r Hr') as (k & s & I & R). exists mid, k, s. split; [exact Hm|]. split; [exact I|]. split; [exact R|].
  exact (iter_states_keys st it mid k s Hm I).
Qed.

(* AFTER THE UNREGISTER: a key that is not in the service map (the service was unregistered, or never
   registered) and is not registered by a call of the iteration: no live record of any response of
   the iteration is built from a service stored under that key. *)
Corollary no_live_record_of_unregistered ifs os its it k0 i v4 d m :
  let st := run_state (d_init_os ifs os) its in
  aget k0 (d_svcs st) = None -> ~ In k0 (registered_keys (it_calls it)) ->
  In (OSend i v4 d m) (snd (fst (fst (iterate st it)))) -> o_resp m = true -> is_goodbye m = false ->
  forall r, In r (o_an m ++ o_ar m) ->
  exists mid k s, In mid (iter_states st it) /\ In (k, s) (d_svcs mid) /\ rec_of (chg mid i) s r /\ k <> k0.
Proof.
  intros st G NR Hin Hr NG r Hr'.
  destruct (responses_only_for_registered_services ifs os its it i v4 d m Hin Hr) as [GB|K]; [fold st in GB; congruence|].
  destruct (K r Hr') as (mid & k & s & Hm & I & R & [Hk|Hk]); exists mid, k, s; repeat split; try assumption.
  - intros ->. apply aget_none_notin in G. contradiction.
  - intros ->. contradiction.
Qed.
