(* The definitions regenerated from the Rust sources (Gen/ParamsRegistry.v) pinned to the
   literal numbers and comparison directions of the property texts C07, C08, C09.  A changed
   constant or a flipped comparison in /repo makes one of these `reflexivity` proofs fail. *)
From Coq Require Import NArith Bool.
From Mdns Require Import ParamsRegistry.
Open Scope N_scope.

Lemma probe_next_send_pinned now : probe_next_send now = now + 250.
Proof. reflexivity. Qed.
Lemma probe_expired_pinned start now : probe_expired start now = (start + 750 <=? now).
Proof. reflexivity. Qed.
Lemma probe_due_pinned next now : probe_due next now = (next <=? now).
Proof. reflexivity. Qed.
Lemma tiebreak_not_started_pinned start now : tiebreak_not_started start now = (now <=? start).
Proof. reflexivity. Qed.
Lemma tiebreak_defer_pinned now : tiebreak_defer_start now = now + 1000 /\ tiebreak_defer_next now = now + 1000.
Proof. split; reflexivity. Qed.
Lemma jitter_bound_pinned : jitter_bound_announce = 250 /\ jitter_bound_conflict = 250.
Proof. split; reflexivity. Qed.
Lemma announce_repeat_pinned now : announce_repeat_probing now = now + 1000 /\ announce_repeat_register = 1000.
Proof. split; reflexivity. Qed.
Lemma announce_repeat_add_interface_pinned : announce_repeat_add_interface = 1000.
Proof. reflexivity. Qed.
Lemma goodbye_repeat_pinned : goodbye_repeat_v4 = 120 /\ goodbye_repeat_v6 = 120.
Proof. split; reflexivity. Qed.
Lemma ttl_pinned : dns_host_ttl = 120 /\ dns_other_ttl = 4500 /\ class_in = 1.
Proof. repeat split; reflexivity. Qed.
Lemma suffix_step_pinned : name_suffix_step = 1 /\ host_suffix_step = 1.
Proof. split; reflexivity. Qed.

Lemma c07_constants :
  (forall now, probe_next_send now = now + 250) /\
  (forall start now, probe_expired start now = (start + 750 <=? now)) /\
  (forall next now, probe_due next now = (next <=? now)) /\
  jitter_bound_announce = 250 /\
  (forall now, announce_repeat_probing now = now + 1000) /\ announce_repeat_register = 1000 /\
  announce_repeat_add_interface = 1000.
Proof. repeat split; reflexivity. Qed.

Lemma c08_constants :
  (forall start now, tiebreak_not_started start now = (now <=? start)) /\
  (forall now, tiebreak_defer_start now = now + 1000 /\ tiebreak_defer_next now = now + 1000) /\
  jitter_bound_conflict = 250 /\ name_suffix_step = 1 /\ host_suffix_step = 1.
Proof. repeat split; reflexivity. Qed.

Lemma c09_constants :
  goodbye_repeat_v4 = 120 /\ goodbye_repeat_v6 = 120 /\ dns_host_ttl = 120 /\ dns_other_ttl = 4500 /\ class_in = 1.
Proof. repeat split; reflexivity. Qed.
