(* C17 case_insensitive: re-spelling the names of a history - the caller's host names by any
   map fc that only changes ASCII letter case, the responders' owner names by any map g that
   only changes letter case and keeps different spellings different - changes nothing in the
   trace of the model of the code except the spellings it reports: SearchStarted carries
   fc(host), AddressesFound / AddressesRemoved carry g(spelling), the questions sent are the same
   up to letter case; times, channels, address sets, SearchTimeout / SearchStopped are
   identical.  Simulation proof over arbitrary histories.  No axioms. *)
From Coq Require Import List NArith Bool Lia.
From Mdns Require Import Bytes ParamsHostres HostresBase HostresModel.
Import ListNotations.
Open Scope N_scope.

Section Rename.
Variable fc g : name -> name.
Hypothesis fc_lower : forall n, lower (fc n) = lower n.
Hypothesis g_lower : forall n, lower (g n) = lower n.
Hypothesis g_inj : forall n m, g n = g m -> n = m.

Lemma beq_g a b : beq (g a) (g b) = beq a b.
Proof.
  destruct (beq a b) eqn:E.
  - apply beq_eq in E. subst. apply beq_refl.
  - destruct (beq (g a) (g b)) eqn:E'; [|reflexivity].
    apply beq_eq in E'. apply g_inj in E'. subst. rewrite beq_refl in E. discriminate.
Qed.

(* ---- renaming of inputs, state and outputs ---- *)
Definition ren_inrec (r : inrec) : inrec :=
  mkIn (i_ans r) (i_ty r) (g (i_name r)) (i_class r) (i_flush r) (i_ttl r) (i_data r).
Definition ren_msg (m : msg) : msg := mkMsg (m_if m) (map ren_inrec (m_recs m)).
Definition ren_call (c : call) : call :=
  match c with
  | CResolve host to ch => CResolve (fc host) to ch
  | CStop host => CStop (fc host)
  end.
Definition ren_iter (i : iter) : iter :=
  mkIter (it_now i) (map ren_call (it_calls i)) (map ren_msg (it_msgs i)).

Definition ren_arec (x : arec) : arec :=
  mkA (g (a_name x)) (a_ty x) (a_class x) (a_flush x) (a_addr x) (a_if x) (a_life x).
Definition ren_cache (c : cache) : cache := map (fun kb => (fst kb, map ren_arec (snd kb))) c.
Definition ren_rr (rr : rerun) : rerun := mkRR (rr_time rr) (fc (rr_host rr)) (rr_delay rr) (rr_chan rr).
Definition ren_st (s : st) : st :=
  mkSt (ren_cache (s_cache s)) (s_res s) (map ren_rr (s_retr s)) (s_open s).

Definition ren_ev (e : ev) : ev :=
  match e with
  | EStarted h => EStarted (fc h)
  | EFound sp a => EFound (g sp) a
  | ERemoved sp a => ERemoved (g sp) a
  | _ => e
  end.
Definition ren_cev (ce : N * ev) : N * ev := (fst ce, ren_ev (snd ce)).
Definition lowerq (q : query) : query := map (fun x => (lower (fst x), snd x)) q.
Definition ren_g (x : name * list saddr) : name * list saddr := (g (fst x), snd x).

(* ---- cache operations commute with the renaming ---- *)
Lemma aget_ren k c : aget k (ren_cache c) = option_map (map ren_arec) (aget k c).
Proof. induction c as [|[k0 b] t IH]; simpl; [reflexivity|]. destruct (beq k k0); [reflexivity|exact IH]. Qed.

Lemma bucket_ren c k : bucket_of (ren_cache c) k = map ren_arec (bucket_of c k).
Proof. unfold bucket_of. rewrite aget_ren. destruct (aget k c); reflexivity. Qed.

Lemma aset_ren k b c : aset k (map ren_arec b) (ren_cache c) = ren_cache (aset k b c).
Proof.
  induction c as [|[k0 b0] t IH]; simpl; [reflexivity|].
  destruct (beq k k0); simpl; [reflexivity|]. rewrite IH. reflexivity.
Qed.

Lemma matches_ren r x : arec_matches (ren_arec r) (ren_arec x) = arec_matches r x.
Proof. unfold arec_matches. simpl. rewrite beq_g. reflexivity. Qed.

Lemma flush_ren now x r : flush_one now (ren_arec x) (ren_arec r) = ren_arec (flush_one now x r).
Proof. unfold flush_one. simpl. destruct (_ && _); reflexivity. Qed.

Lemma update_ren now x b :
  update_match now (ren_arec x) (map ren_arec b) = option_map (map ren_arec) (update_match now x b).
Proof.
  induction b as [|r t IH]; simpl; [reflexivity|].
  rewrite matches_ren. destruct (arec_matches r x); [reflexivity|].
  rewrite IH. destruct (update_match now x t); reflexivity.
Qed.

Lemma revived_ren x b : revived (ren_arec x) (map ren_arec b) = revived x b.
Proof.
  induction b as [|r t IH]; simpl; [reflexivity|]. rewrite matches_ren. destruct (arec_matches r x); [reflexivity|exact IH].
Qed.

Lemma aou_ren now fu x c :
  add_or_update now fu (ren_arec x) (ren_cache c)
  = (ren_cache (fst (add_or_update now fu x c)), snd (add_or_update now fu x c)).
Proof.
  unfold add_or_update. simpl a_name. rewrite g_lower, bucket_ren.
  set (k := lower (a_name x)). set (b := bucket_of c k).
  assert (Hb1 : (if a_flush (ren_arec x) then map (flush_one now (ren_arec x)) (map ren_arec b) else map ren_arec b)
                = map ren_arec (if a_flush x then map (flush_one now x) b else b)).
  { simpl. destruct (a_flush x); [|reflexivity]. rewrite !map_map. apply map_ext. intros r. apply flush_ren. }
  assert (Hgen : match update_match now (ren_arec x)
                         (if a_flush (ren_arec x) then map (flush_one now (ren_arec x)) (map ren_arec b) else map ren_arec b) with
                 | Some b2 => (aset k b2 (ren_cache c), revived (ren_arec x)
                                  (if a_flush (ren_arec x) then map (flush_one now (ren_arec x)) (map ren_arec b) else map ren_arec b))
                 | None => (aset k (ren_arec x ::
                           (if a_flush (ren_arec x) then map (flush_one now (ren_arec x)) (map ren_arec b) else map ren_arec b)) (ren_cache c), true)
                 end
                 = (ren_cache (fst (match update_match now x (if a_flush x then map (flush_one now x) b else b) with
                                    | Some b2 => (aset k b2 c, revived x (if a_flush x then map (flush_one now x) b else b))
                                    | None => (aset k (x :: (if a_flush x then map (flush_one now x) b else b)) c, true)
                                    end)),
                    snd (match update_match now x (if a_flush x then map (flush_one now x) b else b) with
                         | Some b2 => (aset k b2 c, revived x (if a_flush x then map (flush_one now x) b else b))
                         | None => (aset k (x :: (if a_flush x then map (flush_one now x) b else b)) c, true)
                         end))).
  { rewrite Hb1, update_ren, revived_ren.
    destruct (update_match now x (if a_flush x then map (flush_one now x) b else b)); simpl.
    - rewrite aset_ren. reflexivity.
    - rewrite <- aset_ren. reflexivity. }
  destruct b as [|y t]; simpl map at 1.
  - destruct fu; [exact Hgen|reflexivity].
  - exact Hgen.
Qed.

Lemma group_add_ren sp a m : group_add (g sp) a (map ren_g m) = map ren_g (group_add sp a m).
Proof.
  induction m as [|[s0 A0] t IH]; simpl; [reflexivity|].
  rewrite beq_g. destruct (beq sp s0); simpl; [reflexivity|]. rewrite IH. reflexivity.
Qed.

Lemma group_addrs_ren b : group_addrs (map ren_arec b) = map ren_g (group_addrs b).
Proof.
  unfold group_addrs.
  assert (G : forall b m, fold_left (fun m r => group_add (a_name r) (a_addr r, a_if r) m) (map ren_arec b) (map ren_g m)
                          = map ren_g (fold_left (fun m r => group_add (a_name r) (a_addr r, a_if r) m) b m)).
  { clear b. induction b as [|r t IH]; intros m; simpl; [reflexivity|].
    rewrite group_add_ren. apply IH. }
  apply (G b []).
Qed.

Lemma afh_ren c host host' :
  lower host' = lower host ->
  addresses_for_host (ren_cache c) host' = map ren_g (addresses_for_host c host).
Proof. intros H. unfold addresses_for_host. rewrite H, bucket_ren. apply group_addrs_ren. Qed.

Lemma found_ren res c host host' :
  lower host' = lower host ->
  found_events res (ren_cache c) host' = map ren_cev (found_events res c host).
Proof.
  intros H. unfold found_events. rewrite H. destruct (find_res (lower host) res) as [r|]; [|reflexivity].
  rewrite (afh_ren c host host' H), !map_map. reflexivity.
Qed.

Lemma for_us_scan_ren res rs acc :
  for_us_scan res (map ren_inrec rs) acc = for_us_scan res rs acc.
Proof.
  revert acc. induction rs as [|r t IH]; intros acc; simpl; [reflexivity|].
  rewrite g_lower. destruct (i_ty r =? ty_PTR); [apply IH|].
  destruct (is_addr_ty (i_ty r)); [|apply IH].
  destruct (find_res (lower (i_name r)) res); [reflexivity|apply IH].
Qed.

Lemma for_us_ren res m : is_for_us res (ren_msg m) = is_for_us res m.
Proof.
  unfold is_for_us. simpl.
  replace (filter i_ans (map ren_inrec (m_recs m))) with (map ren_inrec (filter i_ans (m_recs m))).
  - apply for_us_scan_ren.
  - induction (m_recs m) as [|r t IH]; simpl; [reflexivity|]. destruct (i_ans r); simpl; rewrite IH; reflexivity.
Qed.

Lemma absorb_step_ren now fu ifx c ch r :
  absorb now fu ifx (ren_cache c, map g ch) (ren_inrec r)
  = (ren_cache (fst (absorb now fu ifx (c, ch) r)), map g (snd (absorb now fu ifx (c, ch) r))).
Proof.
  unfold absorb. simpl i_ty. simpl fst. simpl snd.
  destruct (is_addr_ty (i_ty r)); [|reflexivity].
  change (arec_of now ifx (ren_inrec r)) with (ren_arec (arec_of now ifx r)).
  rewrite aou_ren. destruct (add_or_update now fu (arec_of now ifx r) c) as [c' isnew]. simpl.
  destruct isnew; [|reflexivity]. rewrite map_app. reflexivity.
Qed.

Lemma absorb_ren now fu ifx rs : forall c ch,
  fold_left (absorb now fu ifx) (map ren_inrec rs) (ren_cache c, map g ch)
  = (ren_cache (fst (fold_left (absorb now fu ifx) rs (c, ch))),
     map g (snd (fold_left (absorb now fu ifx) rs (c, ch)))).
Proof.
  induction rs as [|r t IH]; intros c ch; [reflexivity|]. cbn [fold_left map].
  rewrite absorb_step_ren. destruct (absorb now fu ifx (c, ch) r) as [c' ch']. apply IH.
Qed.

Lemma respond_ren now res c m :
  respond now res (ren_cache c) (ren_msg m)
  = (ren_cache (fst (respond now res c m)), map ren_cev (snd (respond now res c m))).
Proof.
  unfold respond. rewrite for_us_ren. simpl m_if. simpl m_recs.
  pose proof (absorb_ren now (is_for_us res m) (m_if m) (m_recs m) c []) as H. simpl in H. rewrite H.
  destruct (fold_left (absorb now (is_for_us res m) (m_if m)) (m_recs m) (c, [])) as [c' changes]. simpl.
  f_equal. clear H. induction changes as [|h t IH]; simpl; [reflexivity|].
  rewrite map_app, <- IH. f_equal. apply found_ren. apply g_lower.
Qed.

Lemma respond_all_ren now res ms : forall c e,
  fold_left (fun acc m => let '(c', e) := respond now res (fst acc) m in (c', snd acc ++ e))
            (map ren_msg ms) (ren_cache c, map ren_cev e)
  = (ren_cache (fst (fold_left (fun acc m => let '(c', e) := respond now res (fst acc) m in (c', snd acc ++ e)) ms (c, e))),
     map ren_cev (snd (fold_left (fun acc m => let '(c', e) := respond now res (fst acc) m in (c', snd acc ++ e)) ms (c, e)))).
Proof.
  induction ms as [|m t IH]; intros c e; simpl; [reflexivity|].
  rewrite respond_ren. destruct (respond now res c m) as [c' e']. simpl.
  rewrite <- map_app. apply IH.
Qed.

Lemma refresh_bucket_ren now b :
  refresh_bucket now (map ren_arec b) = (map ren_arec (fst (refresh_bucket now b)), snd (refresh_bucket now b)).
Proof.
  unfold refresh_bucket. simpl. f_equal.
  - rewrite !map_map. apply map_ext. intros r. unfold refresh_wanted. simpl. destruct (_ && _); reflexivity.
  - generalize (@nil saddr). induction b as [|r t IH]; intros acc; simpl; [reflexivity|].
    unfold refresh_wanted at 1. simpl. fold (refresh_wanted now r). apply IH.
Qed.

Lemma refresh_one_ren now c qs r :
  refresh_one now (ren_cache c, qs) r
  = (ren_cache (fst (refresh_one now (c, qs) r)), snd (refresh_one now (c, qs) r)).
Proof.
  unfold refresh_one. rewrite aget_ren. destruct (aget (r_key r) c) as [b|]; cbn [option_map]; [|reflexivity].
  rewrite refresh_bucket_ren. destruct (refresh_bucket now b) as [b' due]. cbn [fst snd]. rewrite aset_ren. reflexivity.
Qed.

Lemma refresh_all_ren now res : forall c qs,
  fold_left (refresh_one now) res (ren_cache c, qs)
  = (ren_cache (fst (fold_left (refresh_one now) res (c, qs))), snd (fold_left (refresh_one now) res (c, qs))).
Proof.
  induction res as [|r t IH]; intros c qs; [reflexivity|]. cbn [fold_left].
  rewrite refresh_one_ren. destruct (refresh_one now (c, qs) r) as [c' qs']. simpl. apply IH.
Qed.

Lemma evict_cache_ren now c : evict_cache now (ren_cache c) = ren_cache (evict_cache now c).
Proof.
  unfold evict_cache, ren_cache. induction c as [|[k b] t IH]; simpl; [reflexivity|].
  assert (E : filter (fun r => negb (a_expired now r)) (map ren_arec b)
              = map ren_arec (filter (fun r => negb (a_expired now r)) b)).
  { clear. induction b as [|r t IH]; simpl; [reflexivity|].
    unfold a_expired at 1. simpl. fold (a_expired now r). destruct (a_expired now r); simpl; rewrite IH; reflexivity. }
  rewrite E. destruct (filter (fun r => negb (a_expired now r)) b); simpl; rewrite IH; reflexivity.
Qed.

Lemma evicted_ren now c : evicted now (ren_cache c) = map ren_arec (evicted now c).
Proof.
  unfold evicted, ren_cache. induction c as [|[k b] t IH]; simpl; [reflexivity|].
  rewrite map_app, <- IH. f_equal.
  clear. induction b as [|r t IH]; simpl; [reflexivity|].
  unfold a_expired at 1. simpl. fold (a_expired now r). destruct (a_expired now r); simpl; rewrite IH; reflexivity.
Qed.

Lemma evict_all_ren now res c :
  evict_all now res (ren_cache c)
  = (ren_cache (fst (evict_all now res c)), map ren_cev (snd (evict_all now res c))).
Proof.
  unfold evict_all. simpl. rewrite evict_cache_ren, evicted_ren, group_addrs_ren. f_equal.
  induction (group_addrs (evicted now c)) as [|[sp A] t IH]; simpl; [reflexivity|].
  rewrite map_app, <- IH. f_equal. unfold removed_events. simpl. rewrite g_lower.
  destruct (find_res (lower sp) res); reflexivity.
Qed.

(* ---- the phases of one iteration ---- *)
Lemma fold_msgs_ren now s ms :
  fold_msgs now (ren_st s) (map ren_msg ms)
  = (ren_st (fst (fold_msgs now s ms)), map ren_cev (snd (fold_msgs now s ms))).
Proof.
  unfold fold_msgs, respond_all. simpl.
  pose proof (respond_all_ren now (s_res s) ms (s_cache s) []) as H. simpl in H. rewrite H.
  destruct (fold_left _ ms (s_cache s, [])) as [c e]. reflexivity.
Qed.

Lemma timeouts_ren now s :
  do_timeouts now (ren_st s) = (ren_st (fst (do_timeouts now s)), map ren_cev (snd (do_timeouts now s))).
Proof.
  unfold do_timeouts. simpl. f_equal.
  induction (filter (timed_out now) (s_res s)) as [|r t IH]; simpl; [reflexivity|]. rewrite <- IH. reflexivity.
Qed.

Lemma lowerq_host h : lowerq (host_query (fc h)) = lowerq (host_query h).
Proof. unfold lowerq, host_query. simpl. rewrite fc_lower. reflexivity. Qed.

Lemma retr_filter_ren k l :
  filter (fun rr => negb (beq (lower (rr_host rr)) k)) (map ren_rr l)
  = map ren_rr (filter (fun rr => negb (beq (lower (rr_host rr)) k)) l).
Proof.
  induction l as [|rr t IH]; simpl; [reflexivity|]. rewrite fc_lower.
  destruct (negb (beq (lower (rr_host rr)) k)); simpl; rewrite IH; reflexivity.
Qed.

Lemma send_rearm_ren now host delay chan s :
  send_and_rearm now (fc host) delay chan (ren_st s)
  = (ren_st (fst (send_and_rearm now host delay chan s)), [host_query (fc host)]).
Proof.
  unfold send_and_rearm, rearm_ok. simpl. rewrite fc_lower.
  destruct (find_res (lower host) (s_res s)) as [r|]; [destruct (r_deadline r) as [d|]; [destruct (hp_host_rearm _ d)|]|];
    unfold ren_st; simpl; rewrite ?map_app; reflexivity.
Qed.

Lemma exec_call_ren now s c :
  exists q', exec_call now (ren_st s) (ren_call c)
             = (ren_st (fst (fst (exec_call now s c))), map ren_cev (snd (fst (exec_call now s c))), q')
             /\ map lowerq q' = map lowerq (snd (exec_call now s c)).
Proof.
  destruct c as [host to chan|host]; cbn [exec_call ren_call ren_st s_cache s_res s_retr s_open].
  - rewrite fc_lower. rewrite retr_filter_ren.
    set (s1 := mkSt (s_cache s) (set_res (mkRes (lower host) chan (option_map (sat_add now) to)) (s_res s))
                    (filter (fun rr => negb (beq (lower (rr_host rr)) (lower host))) (s_retr s)) (s_open s ++ [chan])).
    change (mkSt (ren_cache (s_cache s)) (set_res (mkRes (lower host) chan (option_map (sat_add now) to)) (s_res s))
                 (map ren_rr (filter (fun rr => negb (beq (lower (rr_host rr)) (lower host))) (s_retr s))) (s_open s ++ [chan]))
      with (ren_st s1).
    rewrite send_rearm_ren.
    destruct (send_and_rearm now host hp_host_first_delay chan s1) as [s2 qs] eqn:E. simpl.
    assert (Eq : qs = [host_query host]) by (unfold send_and_rearm in E; inversion E; reflexivity).
    eexists. split.
    + rewrite (afh_ren (s_cache s) host (fc host) (fc_lower host)), !map_map. reflexivity.
    + subst qs. simpl. rewrite fc_lower. reflexivity.
  - rewrite fc_lower. destruct (find_res (lower host) (s_res s)) as [r|]; simpl.
    + eexists. split. { rewrite retr_filter_ren. reflexivity. } reflexivity.
    + eexists. split. { reflexivity. } reflexivity.
Qed.

Lemma fold_calls_ren now cs : forall s e q q0',
  map lowerq q0' = map lowerq q ->
  exists q',
    fold_left (fun acc c => let '(s0, e0, q0) := acc in
                            let '(s', e, q) := exec_call now s0 c in (s', e0 ++ e, q0 ++ q))
              (map ren_call cs) (ren_st s, map ren_cev e, q0')
    = (ren_st (fst (fst (fold_left (fun acc c => let '(s0, e0, q0) := acc in
                            let '(s', e, q) := exec_call now s0 c in (s', e0 ++ e, q0 ++ q)) cs (s, e, q)))),
       map ren_cev (snd (fst (fold_left (fun acc c => let '(s0, e0, q0) := acc in
                            let '(s', e, q) := exec_call now s0 c in (s', e0 ++ e, q0 ++ q)) cs (s, e, q)))),
       q')
    /\ map lowerq q' = map lowerq (snd (fold_left (fun acc c => let '(s0, e0, q0) := acc in
                            let '(s', e, q) := exec_call now s0 c in (s', e0 ++ e, q0 ++ q)) cs (s, e, q))).
Proof.
  induction cs as [|c t IH]; intros s e q q0' Hq; simpl.
  - exists q0'. auto.
  - destruct (exec_call_ren now s c) as [q1' [H1 H2]]. rewrite H1.
    destruct (exec_call now s c) as [[s1 e1] q1]. simpl in *.
    rewrite <- map_app. apply IH. rewrite !map_app, Hq, H2. reflexivity.
Qed.

Lemma exec_rerun_ren now s e q q0' rr :
  map lowerq q0' = map lowerq q ->
  exists q', exec_rerun now (ren_st s, map ren_cev e, q0') (ren_rr rr)
             = (ren_st (fst (fst (exec_rerun now (s, e, q) rr))),
                map ren_cev (snd (fst (exec_rerun now (s, e, q) rr))), q')
             /\ map lowerq q' = map lowerq (snd (exec_rerun now (s, e, q) rr)).
Proof.
  intros Hq. unfold exec_rerun. cbn [rr_host rr_delay rr_chan ren_rr ren_st s_res]. rewrite fc_lower.
  destruct (find_res (lower (rr_host rr)) (s_res s)); [|exists q0'; split; [reflexivity|exact Hq]].
  change (mkSt (ren_cache (s_cache s)) (s_res s) (map ren_rr (s_retr s)) (s_open s)) with (ren_st s).
  rewrite send_rearm_ren.
  destruct (send_and_rearm now (rr_host rr) (rr_delay rr) (rr_chan rr) s) as [s' qs] eqn:E. simpl.
  assert (Eq : qs = [host_query (rr_host rr)]) by (unfold send_and_rearm in E; inversion E; reflexivity).
  eexists. split.
  - rewrite map_app. reflexivity.
  - subst qs. rewrite !map_app, Hq. simpl. rewrite fc_lower. reflexivity.
Qed.

Lemma fold_reruns_ren now due : forall s e q q0',
  map lowerq q0' = map lowerq q ->
  exists q',
    fold_left (exec_rerun now) (map ren_rr due) (ren_st s, map ren_cev e, q0')
    = (ren_st (fst (fst (fold_left (exec_rerun now) due (s, e, q)))),
       map ren_cev (snd (fst (fold_left (exec_rerun now) due (s, e, q)))), q')
    /\ map lowerq q' = map lowerq (snd (fold_left (exec_rerun now) due (s, e, q))).
Proof.
  induction due as [|rr t IH]; intros s e q q0' Hq.
  - exists q0'. auto.
  - cbn [fold_left map]. destruct (exec_rerun_ren now s e q q0' rr Hq) as [q1' [H1 H2]]. rewrite H1.
    destruct (exec_rerun now (s, e, q) rr) as [[s1 e1] q1]. simpl in *. apply IH. exact H2.
Qed.

Lemma rr_due_filter_ren now l (f : bool -> bool) :
  filter (fun rr => f (rr_due now rr)) (map ren_rr l) = map ren_rr (filter (fun rr => f (rr_due now rr)) l).
Proof.
  induction l as [|rr t IH]; simpl; [reflexivity|]. unfold rr_due at 1. simpl. fold (rr_due now rr).
  destruct (f (rr_due now rr)); simpl; rewrite IH; reflexivity.
Qed.

Lemma rr_due_filter_ren1 now l :
  filter (rr_due now) (map ren_rr l) = map ren_rr (filter (rr_due now) l).
Proof.
  induction l as [|rr t IH]; simpl; [reflexivity|]. unfold rr_due at 1. simpl. fold (rr_due now rr).
  destruct (rr_due now rr); simpl; rewrite IH; reflexivity.
Qed.

Lemma do_reruns_ren now s :
  exists q', do_reruns now (ren_st s)
             = (ren_st (fst (fst (do_reruns now s))), map ren_cev (snd (fst (do_reruns now s))), q')
             /\ map lowerq q' = map lowerq (snd (do_reruns now s)).
Proof.
  unfold do_reruns. simpl s_retr. simpl s_cache. simpl s_res. simpl s_open.
  rewrite rr_due_filter_ren1.
  rewrite (rr_due_filter_ren now (s_retr s) negb).
  set (s0 := mkSt (s_cache s) (s_res s) (filter (fun rr => negb (rr_due now rr)) (s_retr s)) (s_open s)).
  change (mkSt (ren_cache (s_cache s)) (s_res s) (map ren_rr (filter (fun rr => negb (rr_due now rr)) (s_retr s))) (s_open s))
    with (ren_st s0).
  apply (fold_reruns_ren now (filter (rr_due now) (s_retr s)) s0 [] [] [] eq_refl).
Qed.

Lemma do_refresh_ren now s :
  do_refresh now (ren_st s) = (ren_st (fst (do_refresh now s)), snd (do_refresh now s)).
Proof.
  unfold do_refresh, refresh_all. simpl. rewrite refresh_all_ren.
  destruct (fold_left (refresh_one now) (s_res s) (s_cache s, [])) as [c qs]. reflexivity.
Qed.

Lemma do_evict_ren now s :
  do_evict now (ren_st s) = (ren_st (fst (do_evict now s)), map ren_cev (snd (do_evict now s))).
Proof.
  unfold do_evict. simpl s_res. simpl s_cache. rewrite evict_all_ren.
  destruct (evict_all now (s_res s) (s_cache s)) as [c e]. reflexivity.
Qed.

Lemma chan_held_ren s c : chan_held (ren_st s) c = chan_held s c.
Proof.
  unfold chan_held. simpl. f_equal. induction (s_retr s) as [|rr t IH]; simpl; [reflexivity|]. rewrite IH. reflexivity.
Qed.

Lemma do_closed_ren s :
  do_closed (ren_st s) = (ren_st (fst (do_closed s)), map ren_cev (snd (do_closed s))).
Proof.
  unfold do_closed. simpl. f_equal.
  - unfold ren_st. simpl. f_equal. apply filter_ext. intros c. apply chan_held_ren.
  - rewrite map_map. simpl.
    rewrite (filter_ext (fun c => negb (chan_held (ren_st s) c)) (fun c => negb (chan_held s c)))
      by (intros c; rewrite chan_held_ren; reflexivity).
    reflexivity.
Qed.

(* ---- one iteration, and histories ---- *)
Definition out_rel (o o' : out) : Prop :=
  o_now o' = o_now o /\ o_events o' = map ren_cev (o_events o)
  /\ map lowerq (o_queries o') = map lowerq (o_queries o).

Lemma step_ren s i :
  fst (step (ren_st s) (ren_iter i)) = ren_st (fst (step s i))
  /\ out_rel (snd (step s i)) (snd (step (ren_st s) (ren_iter i))).
Proof.
  unfold step. cbn [it_now it_msgs it_calls ren_iter].
  rewrite fold_msgs_ren. destruct (fold_msgs (it_now i) s (it_msgs i)) as [s1 e1]. cbn [fst snd].
  rewrite timeouts_ren. destruct (do_timeouts (it_now i) s1) as [s2 e2]. cbn [fst snd].
  unfold fold_calls.
  destruct (fold_calls_ren (it_now i) (it_calls i) s2 [] [] [] eq_refl) as [q3' [H3 H3q]].
  cbn [map] in H3. rewrite H3.
  destruct (fold_left _ (it_calls i) (s2, [], [])) as [[s3 e3] q3]. cbn [fst snd] in *.
  destruct (do_reruns_ren (it_now i) s3) as [q4' [H4 H4q]]. rewrite H4.
  destruct (do_reruns (it_now i) s3) as [[s4 e4] q4]. cbn [fst snd] in *.
  rewrite do_refresh_ren. destruct (do_refresh (it_now i) s4) as [s5 q5]. cbn [fst snd].
  rewrite do_evict_ren. destruct (do_evict (it_now i) s5) as [s6 e6]. cbn [fst snd].
  rewrite do_closed_ren. destruct (do_closed s6) as [s7 e7]. cbn [fst snd].
  split; [reflexivity|]. unfold out_rel. cbn [o_now o_events o_queries]. split; [reflexivity|]. split.
  - rewrite !map_app. reflexivity.
  - rewrite !map_app, H3q, H4q. reflexivity.
Qed.

Theorem run_ren h : forall s,
  Forall2 out_rel (run_from s h) (run_from (ren_st s) (map ren_iter h)).
Proof.
  induction h as [|i t IH]; intros s; simpl; [constructor|].
  destruct (step_ren s i) as [H1 H2].
  destruct (step s i) as [s' o]. destruct (step (ren_st s) (ren_iter i)) as [s'' o'']. simpl in *. subst s''.
  constructor; [exact H2|apply IH].
Qed.

Theorem case_insensitive_run h :
  Forall2 out_rel (run h) (run (map ren_iter h)).
Proof. unfold run. apply (run_ren h st0). Qed.

End Rename.

(* ---- a concrete re-spelling that satisfies the hypotheses: toggle the case of the first letter ---- *)
Definition toggle_byte (b : N) : N :=
  if (97 <=? b) && (b <=? 122) then b - 32
  else if (65 <=? b) && (b <=? 90) then b + 32 else b.
Definition toggle_first (n : name) : name :=
  match n with [] => [] | b :: t => toggle_byte b :: t end.

Lemma toggle_byte_lower b : lower_byte (toggle_byte b) = lower_byte b.
Proof.
  unfold toggle_byte, lower_byte.
  destruct (97 <=? b) eqn:E1; destruct (b <=? 122) eqn:E2; destruct (65 <=? b) eqn:E3; destruct (b <=? 90) eqn:E4; simpl;
    repeat match goal with
           | H : (_ <=? _) = true |- _ => apply N.leb_le in H
           | H : (_ <=? _) = false |- _ => apply N.leb_gt in H
           end; try lia;
    repeat match goal with
           | |- context [?a <=? ?c] => let E := fresh in destruct (a <=? c) eqn:E;
                                         [apply N.leb_le in E|apply N.leb_gt in E]
           end; simpl; lia.
Qed.

Lemma toggle_byte_invol b : toggle_byte (toggle_byte b) = b.
Proof.
  unfold toggle_byte.
  destruct (97 <=? b) eqn:E1; destruct (b <=? 122) eqn:E2; destruct (65 <=? b) eqn:E3; destruct (b <=? 90) eqn:E4; simpl;
    repeat match goal with
           | H : (_ <=? _) = true |- _ => apply N.leb_le in H
           | H : (_ <=? _) = false |- _ => apply N.leb_gt in H
           end; try lia;
    repeat match goal with
           | |- context [?a <=? ?c] => let E := fresh in destruct (a <=? c) eqn:E;
                                         [apply N.leb_le in E|apply N.leb_gt in E]
           end; simpl; lia.
Qed.

Lemma toggle_first_lower n : lower (toggle_first n) = lower n.
Proof. destruct n as [|b t]; [reflexivity|]. simpl. rewrite toggle_byte_lower. reflexivity. Qed.

Lemma toggle_first_inj n m : toggle_first n = toggle_first m -> n = m.
Proof.
  destruct n as [|b t], m as [|c u]; simpl; intros H; try discriminate; [reflexivity|].
  inversion H. f_equal. rewrite <- (toggle_byte_invol b), <- (toggle_byte_invol c). congruence.
Qed.

Lemma toggle_example :
  (forall n, lower (toggle_first n) = lower n)
  /\ (forall n m, toggle_first n = toggle_first m -> n = m)
  /\ toggle_first [97; 46; 76; 79; 67; 65; 76; 46] = [65; 46; 76; 79; 67; 65; 76; 46].
Proof. split; [exact toggle_first_lower|]. split; [exact toggle_first_inj|]. vm_compute. reflexivity. Qed.
