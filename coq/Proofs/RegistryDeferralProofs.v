(* C08 clause 29 over histories: after a lost tie-break the probe for the name is due one second
   later, and while the daemon sees only queries and register / monitor / shutdown calls no probe
   query for that name goes out on that interface before then. *)
From Coq Require Import List NArith Bool Lia.
From Mdns Require Import Bytes Rec ParamsRegistry Names WireOut Registry RegistryDaemon RegistrySpec RegistryTrace
     RegistryParamsPinned RegistryProofs RegistryDaemonProofs RegistryLiftProofs RegistryHistoryProofs.
Import ListNotations.
Open Scope N_scope.

(* ---- one plain iteration, seen from the registry of interface k --------------------------------------------
   (the skeleton of iterate_step without its invariant: quiet operations, then at most one probing
   pass followed by quiet operations) *)
Lemma plain_iterate_regs k st it st' outs e js' :
  d_dead st = false -> NoDup (map if_index (d_intfs st)) -> retrans_ok st -> plain_iter it ->
  iterate st it = (st', outs, e, js') ->
  exists rgA qs,
    QReach (it_now it) (reg_of (d_regs st) k) rgA /\
    tick_step (it_now it) rgA (reg_of (d_regs st') k) qs /\
    (forall n, In n (probe_names_on outs k) -> In n qs) /\
    retrans_ok st' /\ d_intfs st' = d_intfs st.
Proof.
  intros Halive Hnd Hret [Hq Hc] Hit. unfold iterate in Hit. rewrite Halive in Hit.
  set (now := it_now it) in *.
  set (gs := filter (fun g : dgram => g_v4 g) (it_dgrams it) ++ filter (fun g : dgram => negb (g_v4 g)) (it_dgrams it)) in *.
  assert (Hqs : all_queries gs) by (apply all_queries_split; assumption).
  pose proof (handle_dgrams_reach now gs st (it_jitter it) Hqs) as Q1.
  pose proof (handle_dgrams_resp now gs st (it_jitter it)) as [P1 R1].
  pose proof (handle_dgrams_intfs now gs st (it_jitter it)) as F1.
  destruct (handle_dgrams st gs now (it_jitter it)) as [[st1 os1] js1]. simpl in Q1, P1, R1, F1.
  assert (Hret1 : retrans_ok st1) by (unfold retrans_ok; rewrite R1; exact Hret).
  pose proof (exec_calls_reach now (it_calls it) st1 js1 Hc) as Q2.
  pose proof (exec_calls_resp now (it_calls it) st1 js1 Hc) as [P2 R2].
  pose proof (exec_calls_intfs now (it_calls it) st1 js1 Hc) as F2.
  destruct (exec_calls st1 (it_calls it) now js1) as [[st2 os2] js2]. simpl in Q2, P2, R2, F2.
  specialize (R2 Hret1).
  assert (QA : QReach now (reg_of (d_regs st) k) (reg_of (d_regs st2) k)) by (eapply QReach_trans; [apply Q1|apply Q2]).
  destruct (d_dead st2) eqn:D2.
  - destruct (cut_at_panic (os1 ++ os2)) as [os p] eqn:Ecut.
    inversion Hit; subst st' outs e js'; clear Hit.
    exists (reg_of (d_regs st2) k), []. split; [exact QA|]. split; [left; split; [apply QReach_refl|reflexivity]|].
    split; [|split; [exact R2|congruence]].
    intros n Hn. exfalso.
    assert (Hall : all_resp (os1 ++ os2)) by (apply all_resp_app; assumption).
    assert (Hn2 : In n (probe_names_on (os1 ++ os2) k)) by (apply cut_names; rewrite Ecut; exact Hn).
    rewrite (all_resp_no_probes _ k Hall) in Hn2. contradiction.
  - pose proof (retransmit_reach st2 now js2) as Q3.
    pose proof (retransmit_resp st2 now js2 R2) as [P3 R3].
    pose proof (retransmit_intfs st2 now js2) as F3.
    destruct (retransmit st2 now js2) as [[st3 os3] js3]. simpl in Q3, P3, R3, F3.
    unfold probing_handler in Hit.
    assert (Hnd3 : NoDup (map if_index (d_intfs st3))) by (rewrite F3, F2, F1; exact Hnd).
    pose proof (probing_intfs_step now (d_intfs st3) st3 js3 Hnd3) as (S1 & S2 & S3).
    pose proof (probing_intfs_intfs now (d_intfs st3) st3 js3) as F4.
    destruct (probing_intfs (d_intfs st3) st3 now js3) as [[st4 os4] js4]. simpl in S1, S2, S3, F4.
    destruct (cut_at_panic (os1 ++ os2 ++ os3 ++ os4)) as [os p] eqn:Ecut.
    assert (Hnames : forall n, In n (probe_names_on os k) -> In n (probe_names_on os4 k)).
    { intros n Hn.
      assert (Hn2 : In n (probe_names_on (os1 ++ os2 ++ os3 ++ os4) k)) by (apply cut_names; rewrite Ecut; exact Hn).
      rewrite !probe_names_app, (all_resp_no_probes _ k P1), (all_resp_no_probes _ k P2), (all_resp_no_probes _ k P3) in Hn2.
      exact Hn2. }
    assert (Hregs : d_regs st' = d_regs st4 /\ retrans_ok st' /\ d_intfs st' = d_intfs st /\ outs = os).
    { destruct p; inversion Hit; subst; simpl; (split; [reflexivity|split; [apply S3; exact R3|split; [congruence|reflexivity]]]). }
    destruct Hregs as (Hr & Hrt & Hif & ->). rewrite Hr.
    exists (reg_of (d_regs st3) k).
    destruct (in_dec N.eq_dec k (map if_index (d_intfs st3))) as [Hin|Hnin].
    + destruct (S2 k Hin) as (qs & T & Sub). exists qs.
      split; [eapply QReach_trans; [exact QA|apply Q3]|]. split; [exact T|]. split; [|split; assumption].
      intros n Hn. apply Sub. apply Hnames. exact Hn.
    + destruct (S1 k Hnin) as [E1 E2]. exists [].
      split; [eapply QReach_trans; [exact QA|apply Q3]|]. split; [left; split; [rewrite E1; apply QReach_refl|reflexivity]|].
      split; [|split; assumption]. intros n Hn. apply Hnames in Hn. rewrite E2 in Hn. contradiction.
Qed.

(* ---- the deferral at registry level ------------------------------------------------------------------------ *)

(* the probe for n exists and its next step is due at D or later *)
Definition deferred (n : bytes) (D : N) (rg : registry) : Prop :=
  NoDup (keys (rg_probing rg)) /\ exists p, aget n (rg_probing rg) = Some p /\ D <= pb_next p.

Lemma op_deferred n D rg now o :
  is_tick o = false -> is_conflict o = false -> D <= now + 1000 -> deferred n D rg ->
  deferred n D (fst (fst (apply_op rg now o))).
Proof.
  intros Ht Hc HD [Hnd (p & G & L)]. destruct o; try discriminate; cbn [apply_op fst].
  - unfold is_probing_done. destruct (in_active rg r); [split; [exact Hnd|exists p; auto]|]. cbv zeta. unfold deferred. cbn [fst rg_probing].
    split; [apply NoDup_aset; exact Hnd|].
    destruct (beq n (p_name r)) eqn:B.
    + apply beq_eq in B. subst n. rewrite aget_aset_same. eexists. split; [reflexivity|]. cbn [pb_next]. rewrite G. exact L.
    + rewrite aget_aset_other; [exists p; auto|]. intros E. rewrite E, beq_refl in B. discriminate.
  - unfold apply_tiebreak. destruct (aget qn (rg_probing rg)) as [pb|] eqn:GQ; [|split; [exact Hnd|exists p; auto]]. unfold deferred. cbn [rg_probing].
    split; [apply NoDup_aset; exact Hnd|].
    destruct (beq n qn) eqn:B.
    + apply beq_eq in B. subst qn. rewrite aget_aset_same. eexists. split; [reflexivity|].
      rewrite G in GQ. inversion GQ; subst pb. destruct (tiebreak_next p incoming now) as [E|E]; rewrite E; [exact L|exact HD].
    + rewrite aget_aset_other; [exists p; auto|]. intros E. rewrite E, beq_refl in B. discriminate.
Qed.

Lemma QReach_deferred n D now rg rg' : D <= now + 1000 -> QReach now rg rg' -> deferred n D rg -> deferred n D rg'.
Proof.
  intros HD (ops & Q & ->). revert rg. induction ops as [|[t o] r IH]; intros rg H; [exact H|]. cbn [final_reg].
  inversion Q as [|x l Hx Hr]; subst. destruct Hx as (Et & Ho & Hc). cbn [fst snd] in *. subst t.
  apply IH; [exact Hr|]. apply op_deferred; assumption.
Qed.

Lemma aget_map_snd {V W} (f : V -> W) n : forall l : list (bytes * V),
  aget n (map (fun np => (fst np, f (snd np))) l) = option_map f (aget n l).
Proof. induction l as [|[k v] t IH]; [reflexivity|]. cbn [map aget fst snd]. destruct (beq n k); [reflexivity|exact IH]. Qed.

(* a probing pass before D leaves the probe alone and sends nothing for n *)
Lemma tick_deferred n D rg now rg1 qs ex :
  now < D -> deferred n D rg -> tick_names rg now = (rg1, qs, ex) -> deferred n D rg1 /\ ~ In n qs.
Proof.
  intros Hlt [Hnd (p & G & L)] T.
  pose proof (tick_names_nodup rg now Hnd) as N1. rewrite T in N1. cbn [fst] in N1.
  unfold tick_names in T. rewrite check_probes_spec in T.
  set (ps' := map (fun np => (fst np, tick_probe now (snd np))) (rg_probing rg)) in *.
  set (qs0 := flat_map (fun np => if sends now (snd np) then [(fst np, pb_records (snd np))] else []) (rg_probing rg)) in *.
  set (ex0 := flat_map (fun np => if expires now (snd np) then [fst np] else []) (rg_probing rg)) in *.
  assert (Hnd' : NoDup (keys ps')) by (unfold ps', keys; rewrite map_map; exact Hnd).
  pose proof (expire_all_aget ex0 (mkReg ps' (rg_active rg) (rg_changes rg)) n Hnd') as A.
  destruct (expire_all (mkReg ps' (rg_active rg) (rg_changes rg)) ex0) as [[rg' evs] w]. inversion T; subst rg1 qs ex. clear T.
  cbn [fst rg_probing] in A.
  assert (Hdue : probe_due (pb_next p) now = false) by (rewrite probe_due_pinned; apply N.leb_gt; lia).
  assert (Hs : sends now p = false) by (unfold sends; rewrite Hdue; reflexivity).
  assert (He : expires now p = false) by (unfold expires; rewrite Hdue; reflexivity).
  assert (Hex : mem n ex0 = false).
  { destruct (mem n ex0) eqn:M; [|reflexivity]. apply mem_In in M. unfold ex0 in M. apply in_flat_map in M as ([n1 p1] & I1 & M). cbn [fst snd] in M.
    destruct (expires now p1) eqn:X; [|contradiction]. destruct M as [<-|[]]. rewrite (In_aget _ _ _ Hnd I1) in G. inversion G; subst. congruence. }
  rewrite Hex in A. unfold ps' in A. rewrite aget_map_snd, G in A. cbn [option_map] in A.
  split.
  - split; [exact N1|]. exists (tick_probe now p). split; [exact A|]. unfold tick_probe. rewrite Hs. exact L.
  - intros Hin. apply in_map_iff in Hin as ([n1 r1] & E & I1). cbn [fst] in E. subst n1. unfold qs0 in I1.
    apply in_flat_map in I1 as ([n2 p2] & I2 & M). cbn [fst snd] in M. destruct (sends now p2) eqn:X; [|contradiction].
    destruct M as [E|[]]. inversion E; subst. rewrite (In_aget _ _ _ Hnd I2) in G. inversion G; subst. congruence.
Qed.

Lemma tick_step_deferred n D now rgA rg' qs :
  now < D -> D <= now + 1000 -> tick_step now rgA rg' qs -> deferred n D rgA -> deferred n D rg' /\ ~ In n qs.
Proof.
  intros Hlt HD [[Q ->]|(rg1 & ex & T & Q)] H.
  - split; [exact (QReach_deferred n D now _ _ HD Q H)|intros []].
  - destruct (tick_deferred n D rgA now rg1 qs ex Hlt H T) as [H1 Hn]. split; [exact (QReach_deferred n D now _ _ HD Q H1)|exact Hn].
Qed.

(* ---- over histories ------------------------------------------------------------------------------------------ *)

(* CLAUSE 29: from a state in which the probe for n on interface k is deferred to D (what a lost
   tie-break leaves behind, D = its time + 1000), through any iterations before D that bring only
   queries (competing probes included) and register / monitor / shutdown calls, at any times in
   [D - 1000, D): no probe query for n goes out on interface k *)
Theorem deferral_respected k n D : forall its st,
  NoDup (map if_index (d_intfs st)) -> retrans_ok st -> deferred n D (get_reg st k) ->
  Forall plain_iter its -> Forall (fun it => it_now it < D /\ D <= it_now it + 1000) its ->
  wire_probe_times k n st its = [].
Proof.
  induction its as [|it rest IH]; intros st Hnd Hret Hd Hpl Hts; [reflexivity|]. cbn [wire_probe_times].
  inversion Hpl as [|x l Hp Hpl']; subst. inversion Hts as [|x l [Hlt HD] Hts']; subst.
  destruct (d_dead st) eqn:Dd.
  - pose proof (wire_dead k n (it :: rest) st Dd) as W. cbn [wire_probe_times] in W. exact W.
  - destruct (iterate st it) as [[[st' outs] e] js'] eqn:Hit.
    destruct (plain_iterate_regs k st it st' outs e js' Dd Hnd Hret Hp Hit) as (rgA & qs & QA & T & Sub & Hret' & Hif).
    rewrite get_reg_reg_of in Hd.
    pose proof (QReach_deferred n D (it_now it) _ _ HD QA Hd) as HdA.
    destruct (tick_step_deferred n D (it_now it) rgA _ qs Hlt HD T HdA) as [Hd' Hn].
    assert (M : mem n (probe_names_on outs k) = false).
    { destruct (mem n (probe_names_on outs k)) eqn:M; [|reflexivity]. apply mem_In in M. exfalso. apply Hn. apply Sub. exact M. }
    rewrite M. cbn [app]. apply IH; try assumption; try (rewrite Hif; exact Hnd); try (rewrite get_reg_reg_of; exact Hd').
Qed.

(* what a lost tie-break leaves behind (registry step) *)
Lemma lost_tiebreak_defers rg qn incoming now pb :
  NoDup (keys (rg_probing rg)) -> aget qn (rg_probing rg) = Some pb ->
  tiebreak_not_started (pb_start pb) now = false -> tb_cmp (map p_rr (pb_records pb)) incoming = Lt ->
  deferred qn (now + 1000) (apply_tiebreak rg qn incoming now).
Proof.
  intros Hnd G S C. unfold apply_tiebreak. rewrite G. split; [cbn [rg_probing]; apply NoDup_aset; exact Hnd|].
  cbn [rg_probing]. rewrite aget_aset_same. eexists. split; [reflexivity|]. unfold tiebreak. rewrite S, C. cbn [pb_next].
  destruct (tiebreak_defer_pinned now) as [_ ->]. lia.
Qed.

(* ---- the side conditions hold in every reachable state --------------------------------------------------- *)

Lemma find_intf_none_notin st i : find_intf st i = None -> ~ In i (map if_index (d_intfs st)).
Proof.
  unfold find_intf. intros F Hin. apply in_map_iff in Hin as (itf & E & Hin).
  pose proof (find_none _ _ F itf Hin) as H. cbn in H. rewrite E, N.eqb_refl in H. discriminate.
Qed.

Lemma NoDup_snoc {A} (a : A) : forall l, NoDup l -> ~ In a l -> NoDup (l ++ [a]).
Proof.
  induction l as [|x t IH]; intros H Hn; [repeat constructor; intros []|]. inversion H; subst. cbn [app]. constructor.
  - intros Hin. apply in_app_or in Hin as [Hin|[<-|[]]]; [contradiction|apply Hn; left; reflexivity].
  - apply IH; [assumption|]. intros Hin. apply Hn. right. exact Hin.
Qed.

Lemma NoDup_map_filter {A B} (f : A -> B) (g : A -> bool) : forall l, NoDup (map f l) -> NoDup (map f (filter g l)).
Proof.
  induction l as [|x t IH]; intros H; [constructor|]. cbn [map] in H. inversion H; subst. cbn [filter].
  destruct (g x); [|apply IH; assumption]. cbn [map]. constructor; [|apply IH; assumption].
  intros Hin. apply H2. apply in_map_iff in Hin as (y & E & Hy). apply filter_In in Hy as [Hy _]. apply in_map_iff. exists y. auto.
Qed.

Lemma add_interface_intfs_nodup st r now js :
  NoDup (map if_index (d_intfs st)) -> NoDup (map if_index (d_intfs (fst (fst (add_interface st r now js))))).
Proof.
  intros H. unfold add_interface. destruct (find_intf st (os_index r)) as [itf0|] eqn:F.
  - destruct (has_addr itf0 (os_ip r)); [exact H|].
    match goal with |- context [add_row_services ?a ?b ?c ?d now js] => destruct (add_row_services a b c d now js) as [[[[svcs rg] os] rt] js'] end.
    cbn [fst d_intfs]. rewrite map_map.
    match goal with |- NoDup (map ?g (d_intfs st)) => replace (map g (d_intfs st)) with (map if_index (d_intfs st)); [exact H|] end.
    apply map_ext. intros x. destruct (if_index x =? os_index r) eqn:E; [apply N.eqb_eq in E; cbn; congruence|reflexivity].
  - match goal with |- context [add_row_services ?a ?b ?c ?d now js] => destruct (add_row_services a b c d now js) as [[[[svcs rg] os] rt] js'] end.
    cbn [fst d_intfs]. rewrite map_app. cbn [map if_index]. apply NoDup_snoc; [exact H|apply find_intf_none_notin; exact F].
Qed.

Lemma del_interface_addr_intfs_nodup st r :
  NoDup (map if_index (d_intfs st)) -> NoDup (map if_index (d_intfs (fst (del_interface_addr st r)))).
Proof.
  intros H. unfold del_interface_addr. destruct (find_intf st (os_index r)) as [itf0|]; [|exact H].
  destruct (negb (has_addr itf0 (os_ip r))); [exact H|]. cbn [fst d_intfs].
  destruct (filter (fun a => negb (beq (ia_ip a) (os_ip r))) (if_addrs itf0)) as [|a0 l0].
  - apply NoDup_map_filter. exact H.
  - rewrite map_map.
    match goal with |- NoDup (map ?g (d_intfs st)) => replace (map g (d_intfs st)) with (map if_index (d_intfs st)); [exact H|] end.
    apply map_ext. intros x. destruct (if_index x =? os_index r) eqn:E; [apply N.eqb_eq in E; cbn; congruence|reflexivity].
Qed.

Lemma apply_rows_intfs_nodup now : forall rows st js,
  NoDup (map if_index (d_intfs st)) -> NoDup (map if_index (d_intfs (fst (fst (apply_rows st rows now js))))).
Proof.
  induction rows as [|r t IH]; intros st js H; [exact H|]. cbn [apply_rows]. destruct (row_selected (d_sel st) r).
  - pose proof (add_interface_intfs_nodup st r now js H) as H1. destruct (add_interface st r now js) as [[st1 os1] js1].
    specialize (IH st1 js1 H1). destruct (apply_rows st1 t now js1) as [[st2 os2] js2]. exact IH.
  - pose proof (del_interface_addr_intfs_nodup st r H) as H1. destruct (del_interface_addr st r) as [st1 os1].
    specialize (IH st1 js H1). destruct (apply_rows st1 t now js) as [[st2 os2] js2]. exact IH.
Qed.

Lemma exec_calls_intfs_nodup now : forall cs st js,
  NoDup (map if_index (d_intfs st)) -> NoDup (map if_index (d_intfs (fst (fst (exec_calls st cs now js))))).
Proof.
  induction cs as [|c t IH]; intros st js H; [exact H|]. cbn [exec_calls].
  assert (H1 : NoDup (map if_index (d_intfs (fst (fst (fst (exec_call st c now js))))))).
  { destruct c; cbn [exec_call].
    - unfold register_service. destruct (register_intfs (d_intfs st) (auto_addrs st s) (d_regs st) now js) as [[[[s' regs] os] anns] js']. exact H.
    - unfold unregister. destruct (aget (lower name) (d_svcs st)); exact H.
    - exact H.
    - exact H.
    - unfold select_interfaces.
      match goal with |- context [apply_rows ?a ?b now js] => pose proof (apply_rows_intfs_nodup now b a js H) as H0; destruct (apply_rows a b now js) as [[? ?] ?] end.
      exact H0.
    - exact H. }
  destruct (exec_call st c now js) as [[[st1 os1] js1] stop]. cbn [fst] in H1. destruct stop; [exact H1|].
  specialize (IH st1 js1 H1). destruct (exec_calls st1 t now js1) as [[st2 os2] js2]. exact IH.
Qed.

Lemma iterate_intfs_nodup st it :
  NoDup (map if_index (d_intfs st)) -> NoDup (map if_index (d_intfs (fst (fst (fst (iterate st it)))))).
Proof.
  intros H. unfold iterate. destruct (d_dead st); [exact H|]. set (now := it_now it).
  pose proof (handle_dgrams_intfs now (filter (fun g => g_v4 g) (it_dgrams it) ++ filter (fun g => negb (g_v4 g)) (it_dgrams it)) st (it_jitter it)) as F1.
  destruct (handle_dgrams st _ now (it_jitter it)) as [[st1 os1] js1]. cbn [fst] in F1.
  assert (H1 : NoDup (map if_index (d_intfs st1))) by (rewrite F1; exact H).
  pose proof (exec_calls_intfs_nodup now (it_calls it) st1 js1 H1) as H2.
  destruct (exec_calls st1 (it_calls it) now js1) as [[st2 os2] js2]. cbn [fst] in H2.
  destruct (d_dead st2); [destruct (cut_at_panic (os1 ++ os2)); exact H2|].
  pose proof (retransmit_intfs st2 now js2) as F3. destruct (retransmit st2 now js2) as [[st3 os3] js3]. cbn [fst] in F3.
  pose proof (probing_intfs_intfs now (d_intfs st3) st3 js3) as F4. unfold probing_handler.
  destruct (probing_intfs (d_intfs st3) st3 now js3) as [[st4 os4] js4]. cbn [fst] in F4.
  destruct (cut_at_panic (os1 ++ os2 ++ os3 ++ os4)) as [o p]. destruct p; cbn [fst d_intfs]; rewrite F4, F3; exact H2.
Qed.

Theorem intfs_nodup_all_histories ifs os : NoDup (map if_index ifs) ->
  forall its, NoDup (map if_index (d_intfs (run_state (d_init_os ifs os) its))).
Proof.
  intros H0 its. assert (G : forall st, NoDup (map if_index (d_intfs st)) -> NoDup (map if_index (d_intfs (run_state st its)))).
  { induction its as [|it t IH]; intros st H; [exact H|]. cbn [run_state]. apply IH. apply iterate_intfs_nodup. exact H. }
  apply G. exact H0.
Qed.

Lemma retrans_ok_all_histories ifs os its : retrans_ok (run_state (d_init_os ifs os) its).
Proof.
  pose proof (saved_goodbyes_all_histories ifs os its) as H. intros t m i v4 Hin.
  pose proof (proj1 (Forall_forall _ _) H _ Hin) as G. cbn in G. unfold is_goodbye in G.
  apply andb_true_iff in G as [G _]. apply andb_true_iff in G as [G _]. exact G.
Qed.

(* CLAUSE 29 AFTER ANY HISTORY: whatever happened before (responses, interface toggles, unregister),
   once the probe for n on interface k is deferred to D, no probe query for n goes out on k in the
   plain iterations before D *)
Theorem deferral_respected_after_any_history ifs os pre k n D its :
  NoDup (map if_index ifs) ->
  let st := run_state (d_init_os ifs os) pre in
  (exists p, aget n (rg_probing (get_reg st k)) = Some p /\ D <= pb_next p) ->
  Forall plain_iter its -> Forall (fun it => it_now it < D /\ D <= it_now it + 1000) its ->
  wire_probe_times k n st its = [].
Proof.
  intros H0 st Hp Hpl Hts. apply (deferral_respected k n D its st).
  - apply intfs_nodup_all_histories. exact H0.
  - apply retrans_ok_all_histories.
  - split; [|exact Hp]. apply get_reg_nodup. apply regs_nodup_all_histories.
  - exact Hpl.
  - exact Hts.
Qed.
