(* Lemmas about the lifetime arithmetic model (Model/Life.v) against the literal-number
   specifications of Model/LifeSpec.v. *)
From Coq Require Import List NArith Bool Lia.
From Mdns Require Import Res Bytes Rec ParamsLife Life LifeSpec.
Import ListNotations.
Open Scope N_scope.

(* keep arithmetic symbolic under simpl *)
Local Arguments N.mul : simpl never.
Local Arguments N.add : simpl never.
Local Arguments N.sub : simpl never.
Local Arguments N.div : simpl never.
Local Arguments N.modulo : simpl never.
Local Arguments N.ltb : simpl never.
Local Arguments N.leb : simpl never.
Local Arguments N.eqb : simpl never.
Local Arguments N.min : simpl never.
Local Arguments N.max : simpl never.

(* ------------------------------------------------------------------ arithmetic basics *)

Lemma chk64_ok_inv v x : chk64 v = Ok x -> x = v /\ v < U64.
Proof.
  unfold chk64. destruct (v <? U64) eqn:E; intros H; inversion H; subst.
  split; [reflexivity | apply N.ltb_lt; exact E].
Qed.

Lemma chk64_ok v : v < U64 -> chk64 v = Ok v.
Proof. intros H. unfold chk64. apply N.ltb_lt in H. rewrite H. reflexivity. Qed.

Lemma chk64_cases v : chk64 v = Ok v \/ chk64 v = Panic.
Proof. unfold chk64. destruct (v <? U64); auto. Qed.

Lemma exp_time_ok c t p :
  c < B63 -> t < U32 -> p <= 100 -> exp_time c t p = Ok (c + t * p * 10).
Proof.
  intros Hc Ht Hp. unfold exp_time, expiration_time. apply chk64_ok.
  assert (t * p <= 4294967295 * 100) by (apply N.mul_le_mono; unfold U32 in Ht; lia).
  unfold U64, B63 in *. lia.
Qed.

Lemma exp_time_inv c t p x : exp_time c t p = Ok x -> x = c + t * p * 10 /\ c + t * p * 10 < U64.
Proof. unfold exp_time, expiration_time. apply chk64_ok_inv. Qed.

(* monotone in the percentage: if the 100 % time fits into u64, every mark does *)
Lemma exp_time_le c t p q : p <= q -> c + t * q * 10 < U64 -> exp_time c t p = Ok (c + t * p * 10).
Proof.
  intros Hpq H. unfold exp_time, expiration_time. apply chk64_ok.
  assert (t * p <= t * q) by (apply N.mul_le_mono_l; exact Hpq). lia.
Qed.

(* ------------------------------------------------------------------ lifetime *)

Lemma new_rec_inv T t r :
  new_rec T t = Ok r ->
  r = mkT t T (T + 1000 * t) (T + 800 * t) /\ T + 1000 * t < U64.
Proof.
  unfold new_rec. intros H.
  apply bind_ok_inv in H as (f & Hf & H). apply bind_ok_inv in H as (e & He & H).
  apply exp_time_inv in Hf as [Hf _]. apply exp_time_inv in He as [He Hb].
  unfold new_refresh_percent in Hf. unfold new_expires_percent in He, Hb.
  inversion H; subst. split; [f_equal; lia | lia].
Qed.

Lemma new_rec_ok T t : T + 1000 * t < U64 -> new_rec T t = Ok (mkT t T (T + 1000 * t) (T + 800 * t)).
Proof.
  intros H. unfold new_rec, new_refresh_percent, new_expires_percent.
  rewrite (exp_time_le T t 80 100) by lia. simpl.
  rewrite (exp_time_le T t 100 100) by lia. simpl. f_equal. f_equal; lia.
Qed.

Lemma lifetime T t r now :
  new_rec T t = Ok r -> (is_expired r now = true <-> T + 1000 * t <= now).
Proof.
  intros H. apply new_rec_inv in H as [-> _]. unfold is_expired, is_expired_g. simpl.
  apply N.leb_le.
Qed.

Lemma stored_ttl_response t : stored_ttl true t = N.max 1 t.
Proof.
  unfold stored_ttl, ttl_zero_guard, ttl_zero_becomes. rewrite andb_true_r.
  destruct (t =? 0) eqn:E.
  - apply N.eqb_eq in E. subst. reflexivity.
  - apply N.eqb_neq in E. lia.
Qed.

Lemma stored_ttl_query t : stored_ttl false t = t.
Proof. unfold stored_ttl. rewrite andb_false_r. reflexivity. Qed.

Lemma lifetime_wire T t r now :
  new_rec T (stored_ttl true t) = Ok r ->
  (is_expired r now = true <-> T + 1000 * N.max 1 t <= now).
Proof. rewrite stored_ttl_response. apply lifetime. Qed.

(* operations that leave the expiry alone: everything but set_expire(_sooner) and reset_ttl *)
Definition keeps_expiry (o : lop) : bool :=
  match o with OSetExpire _ | OSetExpireSooner _ | OResetTtl _ _ => false | _ => true end.

Lemma refresh_no_more_expires r r' : refresh_no_more r = Ok r' -> t_expires r' = t_expires r.
Proof.
  unfold refresh_no_more. destruct (exp_time _ _ _); simpl; intros H; inversion H; reflexivity.
Qed.

Lemma refresh_maybe_expires r now r' b : refresh_maybe r now = Ok (r', b) -> t_expires r' = t_expires r.
Proof.
  unfold refresh_maybe.
  destruct (is_expired r now || negb (refresh_due r now)); [intros H; inversion H; reflexivity|].
  destruct (exp_time _ _ ladder_from1); simpl; try discriminate.
  destruct (_ =? _).
  { destruct (exp_time _ _ _); simpl; intros H; inversion H; reflexivity. }
  destruct (exp_time _ _ ladder_from2); simpl; try discriminate.
  destruct (_ =? _).
  { destruct (exp_time _ _ _); simpl; intros H; inversion H; reflexivity. }
  destruct (exp_time _ _ ladder_from3); simpl; try discriminate.
  destruct (_ =? _).
  { destruct (exp_time _ _ _); simpl; intros H; inversion H; reflexivity. }
  destruct (refresh_no_more r) eqn:E; simpl; intros H; inversion H; subst.
  apply refresh_no_more_expires; assumption.
Qed.

Lemma apply_op_expires r o r' x :
  keeps_expiry o = true -> apply_op r o = Ok (r', x) -> t_expires r' = t_expires r.
Proof.
  destruct o; simpl; try discriminate; intros _ H.
  - inversion H; reflexivity.
  - destruct (expires_soon r now); simpl in H; inversion H; reflexivity.
  - inversion H; reflexivity.
  - destruct (halflife_passed r now); simpl in H; inversion H; reflexivity.
  - destruct (refresh_maybe r now) as [[r1 b]| | |] eqn:E; simpl in H; inversion H; subst.
    eapply refresh_maybe_expires; eauto.
  - unfold updated_refresh_time in H.
    destruct (refresh_maybe r now) as [[r1 b]| | |] eqn:E; simpl in H; inversion H; subst.
    eapply refresh_maybe_expires; eauto.
  - unfold refresh_no_more in H. destruct (exp_time _ _ _); simpl in H; inversion H; reflexivity.
  - destruct (remaining_ttl r now); simpl in H; inversion H; reflexivity.
  - unfold update_ttl in H. destruct (update_ttl_guard _ _); [|inversion H; reflexivity].
    destruct (_ <? _); simpl in H; inversion H; reflexivity.
  - inversion H; reflexivity.
  - unfold refresh_once, refresh_no_more in H.
    destruct (_ || _); [inversion H; reflexivity|].
    destruct (exp_time _ _ _); simpl in H; inversion H; reflexivity.
Qed.

Lemma run_ops_expires ops : forall r r' outs,
  forallb keeps_expiry ops = true -> run_ops r ops = Ok (r', outs) -> t_expires r' = t_expires r.
Proof.
  induction ops as [|o ops IH]; simpl; intros r r' outs Hk H.
  - inversion H; reflexivity.
  - apply andb_true_iff in Hk as [Hk1 Hk2].
    apply bind_ok_inv in H as ([r1 x] & H1 & H). apply bind_ok_inv in H as ([r2 xs] & H2 & H).
    inversion H; subst. rewrite (IH _ _ _ Hk2 H2). eapply apply_op_expires; eauto.
Qed.

(* A record stays un-expired exactly until T + 1000*ttl whatever is asked of it or refreshed,
   as long as nothing shortens it. *)
Lemma lifetime_frame T t ops r0 r outs now :
  new_rec T t = Ok r0 -> forallb keeps_expiry ops = true -> run_ops r0 ops = Ok (r, outs) ->
  (is_expired r now = true <-> T + 1000 * t <= now).
Proof.
  intros H0 Hk H. pose proof (run_ops_expires _ _ _ _ Hk H) as E.
  apply new_rec_inv in H0 as [-> _]. unfold is_expired, is_expired_g. rewrite E. simpl.
  apply N.leb_le.
Qed.

(* ------------------------------------------------------------------ refinement to astate *)

Definition R (r : trec) (s : astate) : Prop :=
  t_ttl r = a_ttl s /\ t_created r = a_created s /\ t_expires r = a_expires s /\
  t_refresh r = amark s /\ a_k s <= 4 /\ a_expires s <= a_created s + 1000 * a_ttl s /\
  1 <= a_ttl s /\ a_ttl s < U32 /\ a_created s < B63.

Lemma R_init T t : 1 <= t -> t < U32 -> T < B63 ->
  R (mkT t T (T + 1000 * t) (T + 800 * t)) (a_init T t).
Proof.
  intros. unfold R, a_init, amark, mark_percent. simpl. repeat split; try lia.
Qed.

Ltac destr_R :=
  match goal with
  | H : R ?r ?s |- _ =>
      destruct r as [tt tc te tr]; destruct s as [sc st sk se];
      unfold R in H; simpl in H;
      destruct H as (? & ? & ? & ? & ? & ? & ? & ? & ?); subst tt tc te tr
  end.

Lemma mark_lt_U64 sc st p : sc < B63 -> st < U32 -> p <= 100 -> sc + st * p * 10 < U64.
Proof.
  intros. assert (st * p <= 4294967295 * 100) by (apply N.mul_le_mono; unfold U32 in *; lia).
  unfold U64, B63 in *. lia.
Qed.

Ltac normk :=
  repeat match goal with
  | |- context [80 + 5 * ?k] => let v := eval vm_compute in (80 + 5 * k) in change (80 + 5 * k) with v
  | |- context [?a <? 4] => let v := eval vm_compute in (a <? 4) in change (a <? 4) with v
  | H : context [80 + 5 * ?k] |- _ => let v := eval vm_compute in (80 + 5 * k) in change (80 + 5 * k) with v in H
  end.

Lemma k_cases k : k <= 4 -> k = 0 \/ k = 1 \/ k = 2 \/ k = 3 \/ k = 4.
Proof. lia. Qed.

(* the heart: refresh_maybe is "take the next mark if it is due and the record is alive" *)
Lemma refresh_maybe_spec r s now :
  R r s ->
  exists r', refresh_maybe r now = Ok (r', a_due s now) /\
             R r' (if a_due s now then a_setk s (a_k s + 1) else s).
Proof.
  intros HR. destr_R.
  unfold refresh_maybe, is_expired, refresh_due, is_expired_g, refresh_due_g, refresh_no_more,
    refresh_maybe_guard_returns, ladder_from1, ladder_to1, ladder_from2, ladder_to2,
    ladder_from3, ladder_to3, no_more_percent, a_due, set_refresh. simpl.
  unfold amark, mark_percent in *. simpl in *.
  destruct (se <=? now) eqn:Ee; simpl.
  { (* expired *)
    apply N.leb_le in Ee. assert (now <? se = false) as -> by (apply N.ltb_ge; lia). simpl.
    eexists; split; [reflexivity|]. unfold R, amark, mark_percent; simpl. repeat split; try lia. }
  apply N.leb_gt in Ee. assert (now <? se = true) as -> by (apply N.ltb_lt; lia). simpl.
  destruct (sc + st * (80 + 5 * sk) * 10 <=? now) eqn:Ed; simpl.
  2:{ rewrite andb_false_r. eexists; split; [reflexivity|].
      unfold R, amark, mark_percent; simpl. repeat split; try lia. }
  apply N.leb_le in Ed. rewrite andb_true_r.
  destruct (k_cases sk H3) as [K|[K|[K|[K|K]]]]; subst sk; simpl; normk.
  - rewrite !(exp_time_ok sc st) by (auto; lia). simpl.
    assert (sc + st * 80 * 10 =? sc + st * 80 * 10 = true) as -> by apply N.eqb_refl.
    simpl. eexists; split; [reflexivity|]. unfold R, amark, mark_percent; simpl. repeat split; try lia.
  - rewrite !(exp_time_ok sc st) by (auto; lia). simpl.
    assert (sc + st * 85 * 10 =? sc + st * 80 * 10 = false) as -> by (apply N.eqb_neq; lia).
    rewrite N.eqb_refl. simpl.
    eexists; split; [reflexivity|]. unfold R, amark, mark_percent; simpl. repeat split; try lia.
  - rewrite !(exp_time_ok sc st) by (auto; lia). simpl.
    assert (sc + st * 90 * 10 =? sc + st * 80 * 10 = false) as -> by (apply N.eqb_neq; lia).
    assert (sc + st * 90 * 10 =? sc + st * 85 * 10 = false) as -> by (apply N.eqb_neq; lia).
    rewrite N.eqb_refl. simpl.
    eexists; split; [reflexivity|]. unfold R, amark, mark_percent; simpl. repeat split; try lia.
  - rewrite !(exp_time_ok sc st) by (auto; lia). simpl.
    assert (sc + st * 95 * 10 =? sc + st * 80 * 10 = false) as -> by (apply N.eqb_neq; lia).
    assert (sc + st * 95 * 10 =? sc + st * 85 * 10 = false) as -> by (apply N.eqb_neq; lia).
    assert (sc + st * 95 * 10 =? sc + st * 90 * 10 = false) as -> by (apply N.eqb_neq; lia).
    simpl. eexists; split; [reflexivity|]. unfold R, amark, mark_percent; simpl. repeat split; try lia.
  - (* no mark left: due would mean expired *) exfalso. lia.
Qed.

Lemma refresh_once_spec r s now :
  R r s ->
  exists r', refresh_once r now = Ok (r', a_due s now) /\
             R r' (if a_due s now then a_setk s 4 else s).
Proof.
  intros HR. destr_R.
  unfold refresh_once, is_expired, refresh_due, is_expired_g, refresh_due_g, refresh_no_more,
    no_more_percent, a_due, set_refresh. simpl.
  unfold amark, mark_percent in *. simpl in *.
  destruct (se <=? now) eqn:Ee; simpl.
  { apply N.leb_le in Ee. assert (now <? se = false) as -> by (apply N.ltb_ge; lia). simpl.
    eexists; split; [reflexivity|]. unfold R, amark, mark_percent; simpl. repeat split; try lia. }
  apply N.leb_gt in Ee. assert (now <? se = true) as -> by (apply N.ltb_lt; lia). simpl.
  destruct (sc + st * (80 + 5 * sk) * 10 <=? now) eqn:Ed; simpl.
  2:{ rewrite andb_false_r. eexists; split; [reflexivity|].
      unfold R, amark, mark_percent; simpl. repeat split; try lia. }
  apply N.leb_le in Ed. rewrite andb_true_r.
  destruct (sk <? 4) eqn:Ek.
  - rewrite (exp_time_ok sc st) by (auto; lia). simpl.
    eexists; split; [reflexivity|]. unfold R, amark, mark_percent; simpl. repeat split; try lia.
  - apply N.ltb_ge in Ek. exfalso. assert (sk = 4) by lia. subst. lia.
Qed.

Lemma trec_eqb_refl x : trec_eqb x x = true.
Proof. unfold trec_eqb. rewrite !N.eqb_refl. reflexivity. Qed.

Lemma lout_eqb_refl x : lout_eqb x x = true.
Proof.
  destruct x; simpl; auto using Bool.eqb_reflx, N.eqb_refl, trec_eqb_refl.
  destruct o; auto using N.eqb_refl.
Qed.

(* one operation: the model's result is what the abstract specification prescribes *)
Lemma apply_op_refines r s o s' spec :
  R r s -> op_bounds o = true -> aspec_op s o = Some (s', spec) ->
  (op_total o = true -> exists r' x, apply_op r o = Ok (r', x)) /\
  (forall r' x, apply_op r o = Ok (r', x) ->
     R r' s' /\ (forall y, spec = Some y -> x = y)).
Proof.
  intros HR Hb Hs.
  destruct o; simpl in Hs; try discriminate.
  - (* is_expired *) inversion Hs; subst. destr_R. simpl. unfold is_expired, is_expired_g. simpl.
    split; [eauto|]. intros r' x H'; inversion H'; subst. split.
    + unfold R; simpl; repeat split; auto.
    + intros y Hy; inversion Hy; reflexivity.
  - (* expires_soon *) inversion Hs; subst. destr_R. simpl in *. unfold expires_soon, expires_soon_lhs, expires_soon_g. simpl.
    apply N.ltb_lt in Hb.
    rewrite chk64_ok by (unfold U64, B63 in *; lia). simpl.
    split; [eauto|]. intros r' x H'; inversion H'; subst. split.
    + unfold R; simpl; repeat split; auto.
    + intros y Hy; inversion Hy; reflexivity.
  - (* refresh_due *) inversion Hs; subst. destr_R. simpl. unfold refresh_due, refresh_due_g. simpl.
    split; [eauto|]. intros r' x H'; inversion H'; subst. split.
    + unfold R; simpl; repeat split; auto.
    + intros y Hy; inversion Hy; reflexivity.
  - (* halflife *) inversion Hs; subst. destr_R. simpl. unfold halflife_passed, halflife_percent, halflife_passed_g. simpl.
    rewrite (exp_time_ok sc st) by (auto; lia). simpl.
    split; [eauto|]. intros r' x H'; inversion H'; subst. split.
    + unfold R; simpl; repeat split; auto.
    + intros y Hy; inversion Hy. do 2 f_equal. f_equal. lia.
  - (* refresh_maybe *)
    destruct (refresh_maybe_spec r s now HR) as (r1 & E & HR1). simpl. rewrite E. simpl.
    split; [eauto|]. intros r' x H'; inversion H'; subst.
    destruct (a_due s now); inversion Hs; subst; split; auto; intros y Hy; inversion Hy; reflexivity.
  - (* updated_refresh_time *)
    destruct (refresh_maybe_spec r s now HR) as (r1 & E & HR1). simpl. unfold updated_refresh_time. rewrite E. simpl.
    split; [eauto|]. intros r' x H'; inversion H'; subst.
    destruct (a_due s now); inversion Hs; subst; split; auto; intros y Hy; inversion Hy; try reflexivity.
    destruct HR1 as (_ & _ & _ & HR1 & _). rewrite HR1. reflexivity.
  - (* refresh_no_more *) inversion Hs; subst. destr_R. simpl. unfold refresh_no_more, no_more_percent. simpl.
    rewrite (exp_time_ok sc st) by (auto; lia). simpl.
    split; [eauto|]. intros r' x H'; inversion H'; subst. split.
    + unfold R, amark, mark_percent; simpl; repeat split; auto; lia.
    + intros y Hy; inversion Hy; reflexivity.
  - (* remaining_ttl *) inversion Hs; subst. split; [discriminate|].
    intros r' x H'. simpl in H'. destruct (remaining_ttl r now); simpl in H'; inversion H'; subst.
    split; [assumption | discriminate].
  - (* set_expire_sooner *) inversion Hs; subst. destr_R. simpl.
    unfold set_expire_sooner, expire_sooner_guard, set_expires. simpl.
    split; [eauto|]. intros r' x0 H'; inversion H'; subst. split.
    + destruct (x <? se) eqn:E; [apply N.ltb_lt in E | apply N.ltb_ge in E];
        unfold R, amark, mark_percent in *; simpl in *; repeat split; auto; lia.
    + intros y Hy; inversion Hy; reflexivity.
  - (* reset_ttl *) inversion Hs; subst. simpl in Hb. apply andb_true_iff in Hb as [Ht Hc].
    unfold ttl_ok in Ht. apply andb_true_iff in Ht as [Ht1 Ht2].
    apply N.leb_le in Ht1. apply N.ltb_lt in Ht2, Hc.
    assert (Hfit : created + 1000 * ttl < U64) by (unfold U64, B63, U32 in *; lia).
    simpl. rewrite (new_rec_ok _ _ Hfit). simpl.
    unfold reset_ttl, reset_expires_percent, reset_refresh_guard, reset_refresh_percent.
    rewrite (exp_time_ok created ttl 100) by (auto; lia). simpl.
    destruct (1 <? ttl) eqn:E1.
    + rewrite (exp_time_ok created ttl 80) by (auto; lia). simpl.
      split; [eauto|]. intros r' x H'; inversion H'; subst. split.
      * unfold R, amark, mark_percent; simpl; repeat split; auto; lia.
      * intros y Hy; inversion Hy; reflexivity.
    + simpl. split; [eauto|]. intros r' x H'; inversion H'; subst. split.
      * unfold R, amark, mark_percent; simpl; repeat split; auto; lia.
      * intros y Hy; inversion Hy; reflexivity.
  - (* snapshot *) inversion Hs; subst. simpl. split; [eauto|].
    intros r' x H'; inversion H'; subst. split; [assumption|].
    intros y Hy; inversion Hy. destr_R. reflexivity.
  - (* refresh_once *)
    destruct (refresh_once_spec r s now HR) as (r1 & E & HR1). simpl. rewrite E. simpl.
    split; [eauto|]. intros r' x H'; inversion H'; subst.
    destruct (a_due s now); inversion Hs; subst; split; auto; intros y Hy; inversion Hy; reflexivity.
Qed.

Lemma chk_life_sound ops : forall r s r' outs,
  R r s -> forallb op_bounds ops = true -> run_ops r ops = Ok (r', outs) -> chk_life s ops outs = true.
Proof.
  induction ops as [|o ops IH]; simpl; intros r s r' outs HR Hb H.
  - inversion H; reflexivity.
  - apply andb_true_iff in Hb as [Hb1 Hb2].
    apply bind_ok_inv in H as ([r1 x] & H1 & H). apply bind_ok_inv in H as ([r2 xs] & H2 & H).
    inversion H; subst.
    destruct (aspec_op s o) as [[s' spec]|] eqn:Es; [|reflexivity].
    destruct (apply_op_refines r s o s' spec HR Hb1 Es) as [_ Hstep].
    destruct (Hstep _ _ H1) as [HR1 Hx].
    destruct spec as [y|].
    + rewrite (Hx y eq_refl), lout_eqb_refl. simpl. eapply IH; eauto.
    + eapply IH; eauto.
Qed.

(* the monitor theorem at record level *)
Lemma chk_C11_life_sound created ttl ops outs :
  life_case created ttl ops = Ok outs -> chk_C11_life created ttl ops outs = true.
Proof.
  unfold chk_C11_life, life_case. intros H.
  destruct (life_bounds created ttl ops) eqn:Eb; [|reflexivity].
  unfold life_bounds in Eb. apply andb_true_iff in Eb as [Eb Hops]. apply andb_true_iff in Eb as [Ht Hc].
  unfold ttl_ok in Ht. apply andb_true_iff in Ht as [Ht1 Ht2].
  apply N.leb_le in Ht1. apply N.ltb_lt in Ht2, Hc.
  apply bind_ok_inv in H as (r & Hr & H). apply bind_ok_inv in H as ([r' outs'] & Hrun & H).
  inversion H; subst. apply new_rec_inv in Hr as [-> _].
  eapply chk_life_sound; eauto. apply R_init; assumption.
Qed.

(* no operation of the property's alphabet can panic inside the bounds *)
Definition in_alphabet (o : lop) : bool :=
  match o with OSetExpire _ | OUpdateTtl _ | ORemaining _ => false | _ => true end.

Lemma run_ops_total ops : forall r s,
  R r s -> forallb op_bounds ops = true -> forallb in_alphabet ops = true ->
  exists r' outs, run_ops r ops = Ok (r', outs).
Proof.
  induction ops as [|o ops IH]; simpl; intros r s HR Hb Ha; [eauto|].
  apply andb_true_iff in Hb as [Hb1 Hb2]. apply andb_true_iff in Ha as [Ha1 Ha2].
  assert (exists s' spec, aspec_op s o = Some (s', spec)) as (s' & spec & Es).
  { destruct o; simpl in *; try discriminate; try (destruct (a_due s now)); eauto. }
  assert (Ht : op_total o = true) by (destruct o; simpl in *; auto; discriminate).
  destruct (apply_op_refines r s o s' spec HR Hb1 Es) as [Hex Hstep].
  destruct (Hex Ht) as (r1 & x & H1). destruct (Hstep _ _ H1) as [HR1 _].
  destruct (IH r1 s' HR1 Hb2 Ha2) as (r2 & xs & H2).
  rewrite H1. simpl. rewrite H2. simpl. eauto.
Qed.

Lemma life_case_total created ttl ops :
  life_bounds created ttl ops = true -> forallb in_alphabet ops = true ->
  exists outs, life_case created ttl ops = Ok outs.
Proof.
  intros Eb Ha. unfold life_bounds in Eb.
  apply andb_true_iff in Eb as [Eb Hops]. apply andb_true_iff in Eb as [Ht Hc].
  unfold ttl_ok in Ht. apply andb_true_iff in Ht as [Ht1 Ht2].
  apply N.leb_le in Ht1. apply N.ltb_lt in Ht2, Hc.
  assert (Hfit : created + 1000 * ttl < U64) by (unfold U64, B63, U32 in *; lia).
  unfold life_case. rewrite (new_rec_ok _ _ Hfit). simpl.
  destruct (run_ops_total ops _ _ (R_init created ttl Ht1 Ht2 Hc) Hops Ha) as (r' & outs & H).
  rewrite H. simpl. eauto.
Qed.

(* ------------------------------------------------------------------ the refresh ladder *)

Definition pending (s : astate) : list N :=
  let c := a_created s in let t := a_ttl s in
  let k := a_k s in
  if k =? 0 then [c + 800 * t; c + 850 * t; c + 900 * t; c + 950 * t]
  else if k =? 1 then [c + 850 * t; c + 900 * t; c + 950 * t]
  else if k =? 2 then [c + 900 * t; c + 950 * t]
  else if k =? 3 then [c + 950 * t]
  else [].

Lemma pending_step s :
  a_k s <= 4 ->
  match pending s with
  | m :: rest => a_k s < 4 /\ m = amark s /\ pending (a_setk s (a_k s + 1)) = rest
  | [] => a_k s = 4
  end.
Proof.
  intros Hk. destruct s as [c t k e]. unfold pending, amark, mark_percent, a_setk. simpl in *.
  destruct (k_cases k Hk) as [K|[K|[K|[K|K]]]]; subst k; simpl; repeat split; try lia; reflexivity.
Qed.

Lemma refresh_obs_spec obs : forall r s,
  R r s -> refresh_obs r obs = Ok (ladder_spec (pending s) (a_expires s) obs).
Proof.
  induction obs as [|now obs IH]; intros r s HR; [reflexivity|].
  simpl. destruct (refresh_maybe_spec r s now HR) as (r' & E & HR'). rewrite E. simpl.
  assert (Hk : a_k s <= 4) by (destruct HR as (_ & _ & _ & _ & Hk & _); exact Hk).
  pose proof (pending_step s Hk) as P.
  unfold a_due in *.
  destruct (pending s) as [|m rest] eqn:Ep.
  - assert (a_k s <? 4 = false) as Hf by (apply N.ltb_ge; lia).
    rewrite Hf, andb_false_r in *. simpl in *. rewrite (IH _ _ HR'). rewrite Ep. reflexivity.
  - destruct P as (Hlt & Hm & Hrest). apply N.ltb_lt in Hlt. rewrite Hlt, andb_true_r in *. subst m.
    destruct ((now <? a_expires s) && (amark s <=? now)) eqn:Ec.
    + rewrite (IH _ _ HR'). simpl. rewrite Hrest. reflexivity.
    + rewrite (IH _ _ HR'). rewrite Ep. reflexivity.
Qed.

(* a record received at T with TTL t: refresh_maybe over ANY sequence of observation times
   answers exactly as the ladder over the four marks says *)
Lemma refresh_marks T t r obs :
  new_rec T t = Ok r -> 1 <= t -> t < U32 -> T < B63 ->
  refresh_obs r obs = Ok (ladder_spec (marks4 T t) (T + 1000 * t) obs).
Proof.
  intros H Ht1 Ht2 HT. apply new_rec_inv in H as [-> _].
  rewrite (refresh_obs_spec obs _ _ (R_init T t Ht1 Ht2 HT)). reflexivity.
Qed.

Lemma refresh_once_obs_spec obs : forall r s,
  R r s -> refresh_once_obs r obs = Ok (ladder_spec (firstn 1 (pending s)) (a_expires s) obs).
Proof.
  induction obs as [|now obs IH]; intros r s HR; [reflexivity|].
  simpl. destruct (refresh_once_spec r s now HR) as (r' & E & HR'). rewrite E. simpl.
  assert (Hk : a_k s <= 4) by (destruct HR as (_ & _ & _ & _ & Hk & _); exact Hk).
  pose proof (pending_step s Hk) as P.
  unfold a_due in *.
  destruct (pending s) as [|m rest] eqn:Ep.
  - assert (a_k s <? 4 = false) as Hf by (apply N.ltb_ge; lia).
    rewrite Hf, andb_false_r in *. simpl in *. rewrite (IH _ _ HR'). rewrite Ep. reflexivity.
  - destruct P as (Hlt & Hm & Hrest). apply N.ltb_lt in Hlt. rewrite Hlt, andb_true_r in *. subst m.
    simpl. destruct ((now <? a_expires s) && (amark s <=? now)) eqn:Ec.
    + rewrite (IH _ _ HR').
      assert (pending (a_setk s 4) = []) as -> by (destruct s; reflexivity). reflexivity.
    + rewrite (IH _ _ HR'). rewrite Ep. reflexivity.
Qed.

(* hostname-resolver addresses: one refresh, at the first observation at or after 80 % *)
Lemma refresh_once_marks T t r obs :
  new_rec T t = Ok r -> 1 <= t -> t < U32 -> T < B63 ->
  refresh_once_obs r obs = Ok (ladder_spec [T + 800 * t] (T + 1000 * t) obs).
Proof.
  intros H Ht1 Ht2 HT. apply new_rec_inv in H as [-> _].
  rewrite (refresh_once_obs_spec obs _ _ (R_init T t Ht1 Ht2 HT)). reflexivity.
Qed.

(* facts about the ladder itself *)
Lemma ladder_count marks e obs : (count_true (ladder_spec marks e obs) <= length marks)%nat.
Proof.
  revert marks. induction obs as [|now obs IH]; intros marks; simpl; [unfold count_true; simpl; lia|].
  destruct marks as [|m marks'].
  - apply (IH []).
  - destruct ((now <? e) && (m <=? now)).
    + unfold count_true in *. simpl. specialize (IH marks'). lia.
    + apply (IH (m :: marks')).
Qed.

Lemma ladder_before_expiry marks e obs :
  Forall (fun now => now < e) (true_times obs (ladder_spec marks e obs)).
Proof.
  revert marks. induction obs as [|now obs IH]; intros marks; simpl; [constructor|].
  destruct marks as [|m marks'].
  - apply (IH []).
  - destruct ((now <? e) && (m <=? now)) eqn:E.
    + apply andb_true_iff in E as [E _]. apply N.ltb_lt in E. constructor; auto.
    + apply (IH (m :: marks')).
Qed.

Lemma ladder_at_or_after marks e obs :
  at_or_after marks (true_times obs (ladder_spec marks e obs)).
Proof.
  revert marks. induction obs as [|now obs IH]; intros marks; simpl; [exact I|].
  destruct marks as [|m marks'].
  - apply (IH []).
  - destruct ((now <? e) && (m <=? now)) eqn:E.
    + apply andb_true_iff in E as [_ E]. apply N.leb_le in E. simpl. split; auto.
    + apply (IH (m :: marks')).
Qed.

(* a mark is not skipped: while a mark is pending, an observation at or after it and before
   expiry is answered with true *)
Lemma ladder_takes_due m marks e now obs :
  m <= now -> now < e ->
  ladder_spec (m :: marks) e (now :: obs) = true :: ladder_spec marks e obs.
Proof.
  intros H1 H2. simpl. apply N.leb_le in H1. apply N.ltb_lt in H2. rewrite H1, H2. reflexivity.
Qed.

Lemma ladder_timer_exact T t :
  1 <= t ->
  ladder_spec (marks4 T t) (T + 1000 * t) (marks4 T t ++ [T + 1000 * t]) = [true; true; true; true; false].
Proof.
  intros Ht. unfold marks4. cbn [app].
  rewrite !ladder_takes_due by lia. reflexivity.
Qed.

(* reset_ttl forgets everything: it is a fresh record with the other record's TTL and
   creation time (for TTL > 1), so the ladder restarts from the new TTL *)
Lemma reset_ttl_is_new r t c : 1 < t -> reset_ttl r t c = new_rec c t.
Proof.
  intros H. unfold reset_ttl, new_rec, reset_expires_percent, reset_refresh_guard,
    reset_refresh_percent, new_refresh_percent, new_expires_percent.
  apply N.ltb_lt in H. rewrite H. unfold exp_time.
  destruct (chk64_cases (expiration_time c t 100)) as [-> | ->];
    destruct (chk64_cases (expiration_time c t 80)) as [-> | ->]; reflexivity.
Qed.

Lemma reset_ttl_one r c r' : reset_ttl r 1 c = Ok r' -> r' = mkT 1 c (c + 1000) (c + 1000).
Proof.
  unfold reset_ttl, reset_expires_percent, reset_refresh_guard. change (1 <? 1) with false. cbv iota.
  intros H. apply bind_ok_inv in H as (e & He & H). simpl in H. inversion H; subst.
  apply exp_time_inv in He as [-> _]. f_equal; lia.
Qed.

Lemma reset_restarts r t c r' obs :
  1 < t -> t < U32 -> c < B63 -> reset_ttl r t c = Ok r' ->
  refresh_obs r' obs = Ok (ladder_spec (marks4 c t) (c + 1000 * t) obs).
Proof.
  intros H1 H2 H3 H. rewrite reset_ttl_is_new in H by assumption.
  eapply refresh_marks; eauto. lia.
Qed.

(* ------------------------------------------------------------------ update_ttl / remaining *)

Lemma update_ttl_panic_iff r now :
  update_ttl r now = Panic <->
  t_created r < now /\ t_ttl r < ((now - t_created r) / 1000) mod U32.
Proof.
  unfold update_ttl, update_ttl_guard, update_ttl_dec, update_ttl_elapsed.
  destruct (t_created r <? now) eqn:E1.
  - apply N.ltb_lt in E1. destruct (t_ttl r <? _) eqn:E2.
    + apply N.ltb_lt in E2. tauto.
    + apply N.ltb_ge in E2. split; [discriminate | lia].
  - apply N.ltb_ge in E1. split; [discriminate | lia].
Qed.

(* under the half-life guard of get_known_answers the subtraction cannot underflow, and the
   TTL written is the remaining whole seconds *)
Lemma update_ttl_under_halflife r now :
  t_ttl r < U32 -> now <= t_created r + 500 * t_ttl r ->
  update_ttl r now = Ok (set_ttl r (ka_ttl_spec (t_ttl r) (t_created r) now))
  /\ (now - t_created r) / 1000 <= t_ttl r / 2.
Proof.
  intros Ht Hh. unfold update_ttl, update_ttl_guard, update_ttl_dec, update_ttl_elapsed, ka_ttl_spec.
  assert (Hd : (now - t_created r) / 1000 <= t_ttl r / 2).
  { apply N.div_le_lower_bound; [lia|].
    pose proof (N.mul_div_le (now - t_created r) 1000 ltac:(lia)). lia. }
  split; [|exact Hd].
  assert (Hle : t_ttl r / 2 <= t_ttl r) by (apply N.div_le_upper_bound; lia).
  destruct (t_created r <? now) eqn:E1.
  - rewrite N.mod_small by lia.
    assert (t_ttl r <? (now - t_created r) / 1000 = false) as -> by (apply N.ltb_ge; lia).
    reflexivity.
  - apply N.ltb_ge in E1. replace (now - t_created r) with 0 by lia.
    rewrite N.div_0_l by lia. rewrite N.sub_0_r. destruct r; reflexivity.
Qed.

Lemma halflife_passed_false_iff r now h :
  halflife_passed r now = Ok h -> (h = false <-> now <= t_created r + 500 * t_ttl r).
Proof.
  unfold halflife_passed, halflife_percent, halflife_passed_g. intros H.
  apply bind_ok_inv in H as (x & Hx & H). apply exp_time_inv in Hx as [-> _]. inversion H; subst.
  rewrite N.ltb_ge. lia.
Qed.

Lemma remaining_ttl_panic_iff r now :
  t_created r + 1000 * t_ttl r < U64 ->
  (remaining_ttl r now = Panic <-> t_created r + 1000 * t_ttl r < now).
Proof.
  intros Hfit. unfold remaining_ttl, remaining_percent.
  rewrite (exp_time_le _ _ 100 100) by lia. simpl.
  destruct (_ <? now) eqn:E.
  - apply N.ltb_lt in E. split; [lia | reflexivity].
  - apply N.ltb_ge in E. split; [discriminate | lia].
Qed.

(* ------------------------------------------------------------------ no overflow *)

Lemma no_overflow_marks c t p : c < B63 -> t < U32 -> p <= 100 -> exp_time c t p <> Panic.
Proof. intros. rewrite exp_time_ok by assumption. discriminate. Qed.

Lemma no_overflow_expires_soon r now : now < B63 -> expires_soon r now <> Panic.
Proof.
  intros H. unfold expires_soon, expires_soon_lhs. rewrite chk64_ok by (unfold U64, B63 in *; lia).
  simpl. discriminate.
Qed.

(* ------------------------------------------------------------------ C10: relations *)

Lemma half_lt a b : (a / 2 <? b) = (a <? 2 * b).
Proof.
  pose proof (N.div_mod a 2 ltac:(lia)) as H. pose proof (N.mod_lt a 2 ltac:(lia)) as H0.
  set (x := a / 2) in *. set (y := a mod 2) in *. clearbody x y.
  destruct (a <? 2 * b) eqn:E; [apply N.ltb_lt in E; apply N.ltb_lt | apply N.ltb_ge in E; apply N.ltb_ge]; lia.
Qed.

(* the identity test of suppressed_by_answer is the property's same_record *)
Lemma suppress_identity mine theirs :
  (if Bool.eqb (i_flush theirs) (i_flush mine) then matches mine theirs
   else matches mine (with_flush theirs (suppress_flush_override (i_flush mine)))) = same_record mine theirs.
Proof.
  unfold suppress_flush_override, with_flush, matches, same_record, rrdata_match, entry_eq. simpl.
  destruct (Bool.eqb (i_flush theirs) (i_flush mine)) eqn:E.
  - apply Bool.eqb_prop in E. rewrite E, Bool.eqb_reflx.
    destruct (beq_rdata (i_data mine) (i_data theirs)), (beq (i_name mine) (i_name theirs)),
      (i_type mine =? i_type theirs), (i_class mine =? i_class theirs), (is_addr_data (i_data mine)),
      (i_if mine =? i_if theirs); reflexivity.
  - rewrite Bool.eqb_reflx.
    destruct (beq_rdata (i_data mine) (i_data theirs)), (beq (i_name mine) (i_name theirs)),
      (i_type mine =? i_type theirs), (i_class mine =? i_class theirs), (is_addr_data (i_data mine)),
      (i_if mine =? i_if theirs); reflexivity.
Qed.

(* the code is the property text: same record and listed TTL above half *)
Lemma suppress_eq_spec mine tm theirs tt :
  suppressed_by_answer mine tm theirs tt = suppress_spec mine tm theirs tt.
Proof.
  unfold suppressed_by_answer, suppress_spec, suppress_ttl_cond. rewrite suppress_identity, half_lt. reflexivity.
Qed.

Lemma suppress_iff mine tm theirs tt :
  suppressed_by_answer mine tm theirs tt = true <-> same_record mine theirs = true /\ tm < 2 * tt.
Proof.
  rewrite suppress_eq_spec. unfold suppress_spec. rewrite andb_true_iff, N.ltb_lt. tauto.
Qed.

(* the boundary in words: above half suppresses, exactly half and below do not *)
Lemma suppress_boundary mine tm theirs tt :
  same_record mine theirs = true ->
  (2 * tt > tm -> suppressed_by_answer mine tm theirs tt = true) /\
  (2 * tt <= tm -> suppressed_by_answer mine tm theirs tt = false).
Proof.
  intros Hm. split; intros H.
  - apply suppress_iff. split; [assumption | lia].
  - destruct (suppressed_by_answer mine tm theirs tt) eqn:E; [|reflexivity].
    apply suppress_iff in E as [_ E]. lia.
Qed.

Lemma beq_rdata_eq a b : beq_rdata a b = true <-> a = b.
Proof.
  destruct a, b; simpl; try (split; [discriminate | intros H; discriminate H]);
    rewrite ?andb_true_iff, ?beq_eq, ?N.eqb_eq.
  - split; [intros ->; reflexivity | intros H; inversion H; reflexivity].
  - split; [intros ->; reflexivity | intros H; inversion H; reflexivity].
  - split; [intros [[[-> ->] ->] ->]; reflexivity | intros H; inversion H; auto].
  - split; [intros ->; reflexivity | intros H; inversion H; reflexivity].
  - split; [intros [-> ->]; reflexivity | intros H; inversion H; auto].
  - split; [intros [-> ->]; reflexivity | intros H; inversion H; auto].
Qed.

(* matches = same owner name (byte for byte), type, class, cache-flush bit, record kind and
   RDATA; for addresses also the same interface *)
Lemma matches_iff a b :
  matches a b = true <->
  i_data a = i_data b /\ i_name a = i_name b /\ i_type a = i_type b /\ i_class a = i_class b /\
  i_flush a = i_flush b /\ (is_addr_data (i_data a) = true -> i_if a = i_if b).
Proof.
  unfold matches, rrdata_match, entry_eq.
  rewrite !andb_true_iff, beq_rdata_eq, beq_eq, !N.eqb_eq, Bool.eqb_true_iff.
  destruct (is_addr_data (i_data a)).
  - rewrite N.eqb_eq. intuition.
  - intuition. discriminate.
Qed.

Lemma matches_rrdata a b : matches a b = true -> rrdata_match a b = true.
Proof. unfold matches. rewrite !andb_true_iff. tauto. Qed.

(* `matches` (used by the cache) additionally compares the cache-flush bit *)
Lemma matches_same_record a b :
  matches a b = same_record a b && Bool.eqb (i_flush a) (i_flush b).
Proof.
  unfold matches, same_record, rrdata_match, entry_eq.
  destruct (beq_rdata (i_data a) (i_data b)), (beq (i_name a) (i_name b)), (i_type a =? i_type b),
    (i_class a =? i_class b), (Bool.eqb (i_flush a) (i_flush b)), (is_addr_data (i_data a)),
    (i_if a =? i_if b); reflexivity.
Qed.

Lemma same_record_iff a b :
  same_record a b = true <->
  i_data a = i_data b /\ i_name a = i_name b /\ i_type a = i_type b /\ i_class a = i_class b /\
  (is_addr_data (i_data a) = true -> i_if a = i_if b).
Proof.
  unfold same_record.
  rewrite !andb_true_iff, beq_rdata_eq, beq_eq, !N.eqb_eq.
  destruct (is_addr_data (i_data a)).
  - rewrite N.eqb_eq. intuition.
  - intuition. discriminate.
Qed.

Lemma same_record_rrdata a b : same_record a b = true -> rrdata_match a b = true.
Proof. unfold same_record, rrdata_match. rewrite !andb_true_iff. tauto. Qed.

Lemma chk_C10_rel_sound mine tm theirs tt :
  chk_C10_rel mine tm theirs tt (matches mine theirs) (rrdata_match mine theirs)
    (suppressed_by_answer mine tm theirs tt) = true.
Proof.
  unfold chk_C10_rel. rewrite suppress_eq_spec, Bool.eqb_reflx. simpl.
  destruct (matches mine theirs) eqn:E; [|reflexivity]. rewrite (matches_rrdata _ _ E). reflexivity.
Qed.

Lemma suppressed_by_iff mine tm kas :
  suppressed_by mine tm kas = true <->
  exists k, In k kas /\ same_record mine (fst k) = true /\ tm < 2 * snd k.
Proof.
  unfold suppressed_by. rewrite existsb_exists. split; intros (k & Hin & H); exists k; split; auto.
  - apply suppress_iff; assumption.
  - apply suppress_iff; assumption.
Qed.

(* responder: add_answer drops the answer iff some known answer suppresses it *)
Lemma add_answer_spec kas out a :
  add_answer kas out a =
  if suppressed_by (o_id a) (o_ttl a) kas
  then (mkOut (out_answers out) (out_additionals out) (out_suppressed out + 1), false)
  else (mkOut (out_answers out ++ [a]) (out_additionals out) (out_suppressed out), true).
Proof. reflexivity. Qed.

Lemma add_answer_dropped_iff kas out a :
  snd (add_answer kas out a) = false <->
  exists k, In k kas /\ same_record (o_id a) (fst k) = true /\ o_ttl a < 2 * snd k.
Proof.
  rewrite <- suppressed_by_iff. unfold add_answer.
  destruct (suppressed_by _ _ _); simpl; split; auto; discriminate.
Qed.

(* a suppressed PTR takes all its additionals with it; an unsuppressed one brings all of them *)
Lemma add_answer_with_additionals_spec kas out ptr adds :
  add_answer_with_additionals kas out true ptr adds =
  if suppressed_by (o_id ptr) (o_ttl ptr) kas
  then mkOut (out_answers out) (out_additionals out) (out_suppressed out + 1)
  else mkOut (out_answers out ++ [ptr]) (out_additionals out ++ adds) (out_suppressed out).
Proof.
  unfold add_answer_with_additionals, add_answer. simpl.
  destruct (suppressed_by _ _ _); reflexivity.
Qed.

Lemma add_answer_with_additionals_no_addr kas out ptr adds :
  add_answer_with_additionals kas out false ptr adds = out.
Proof. reflexivity. Qed.
