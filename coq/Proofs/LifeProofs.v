(* Lemmas about the lifetime arithmetic model (Model/Life.v) against the literal-number
   specifications of Model/LifeSpec.v. *)
From Coq Require Import List NArith Bool Lia.
From Mdns Require Import Res Bytes Rec ParamsLife Life LifeSpec.
Import ListNotations.
Open Scope N_scope.

(* keep arithmetic symbolic under simpl *)
Local Arguments N.mul : simpl never.
Local Arguments N.add : simpl never.
Local Arguments N.sub : simpl never.
Local Arguments N.div : simpl never.
Local Arguments N.modulo : simpl never.
Local Arguments N.ltb : simpl never.
Local Arguments N.leb : simpl never.
Local Arguments N.eqb : simpl never.
Local Arguments N.min : simpl never.
Local Arguments N.max : simpl never.

(* ------------------------------------------------------------------ arithmetic basics *)

Lemma chk64_ok_inv v x : chk64 v = Ok x -> x = v /\ v < U64.
Proof.
  unfold chk64. destruct (v <? U64) eqn:E; intros H; inversion H; subst.
  split; [reflexivity | apply N.ltb_lt; exact E].
Qed.

Lemma chk64_ok v : v < U64 -> chk64 v = Ok v.
Proof. intros H. unfold chk64. apply N.ltb_lt in H. rewrite H. reflexivity. Qed.

Lemma chk64_cases v : chk64 v = Ok v \/ chk64 v = Panic.
Proof. unfold chk64. destruct (v <? U64); auto. Qed.

Lemma exp_time_ok c t p :
  c < B63 -> t < U32 -> p <= 100 -> exp_time c t p = Ok (c + t * p * 10).
Proof.
  intros Hc Ht Hp. unfold exp_time, expiration_time. apply chk64_ok.
  assert (t * p <= 4294967295 * 100) by (apply N.mul_le_mono; unfold U32 in Ht; lia).
  unfold U64, B63 in *. lia.
Qed.

Lemma exp_time_inv c t p x : exp_time c t p = Ok x -> x = c + t * p * 10 /\ c + t * p * 10 < U64.
Proof. unfold exp_time, expiration_time. apply chk64_ok_inv. Qed.

(* monotone in the percentage: if the 100 % time fits into u64, every mark does *)
Lemma exp_time_le c t p q : p <= q -> c + t * q * 10 < U64 -> exp_time c t p = Ok (c + t * p * 10).
Proof.
  intros Hpq H. unfold exp_time, expiration_time. apply chk64_ok.
  assert (t * p <= t * q) by (apply N.mul_le_mono_l; exact Hpq). lia.
Qed.

(* ------------------------------------------------------------------ lifetime *)

Lemma new_rec_inv T t r :
  new_rec T t = Ok r ->
  r = mkT t T (T + 1000 * t) (T + 800 * t) /\ T + 1000 * t < U64.
Proof.
  unfold new_rec. intros H.
  apply bind_ok_inv in H as (f & Hf & H). apply bind_ok_inv in H as (e & He & H).
  apply exp_time_inv in Hf as [Hf _]. apply exp_time_inv in He as [He Hb].
  unfold new_refresh_percent in Hf. unfold new_expires_percent in He, Hb.
  inversion H; subst. split; [f_equal; lia | lia].
Qed.

Lemma new_rec_ok T t : T + 1000 * t < U64 -> new_rec T t = Ok (mkT t T (T + 1000 * t) (T + 800 * t)).
Proof.
  intros H. unfold new_rec, new_refresh_percent, new_expires_percent.
  rewrite (exp_time_le T t 80 100) by lia. simpl.
  rewrite (exp_time_le T t 100 100) by lia. simpl. f_equal. f_equal; lia.
Qed.

Lemma lifetime T t r now :
  new_rec T t = Ok r -> (is_expired r now = true <-> T + 1000 * t <= now).
Proof.
  intros H. apply new_rec_inv in H as [-> _]. unfold is_expired, is_expired_g. simpl.
  apply N.leb_le.
Qed.

Lemma stored_ttl_response t : stored_ttl true t = N.max 1 t.
Proof.
  unfold stored_ttl, ttl_zero_guard, ttl_zero_becomes. rewrite andb_true_r.
  destruct (t =? 0) eqn:E.
  - apply N.eqb_eq in E. subst. reflexivity.
  - apply N.eqb_neq in E. lia.
Qed.

Lemma stored_ttl_query t : stored_ttl false t = t.
Proof. unfold stored_ttl. rewrite andb_false_r. reflexivity. Qed.

Lemma lifetime_wire T t r now :
  new_rec T (stored_ttl true t) = Ok r ->
  (is_expired r now = true <-> T + 1000 * N.max 1 t <= now).
Proof. rewrite stored_ttl_response. apply lifetime. Qed.

(* operations that leave the expiry alone: everything but set_expire(_sooner) and reset_ttl *)
Definition keeps_expiry (o : lop) : bool :=
  match o with OSetExpire _ | OSetExpireSooner _ | OResetTtl _ _ => false | _ => true end.

Lemma refresh_no_more_expires r r' : refresh_no_more r = Ok r' -> t_expires r' = t_expires r.
Proof.
  unfold refresh_no_more. destruct (exp_time _ _ _); simpl; intros H; inversion H; reflexivity.
Qed.

Lemma refresh_maybe_expires r now r' b : refresh_maybe r now = Ok (r', b) -> t_expires r' = t_expires r.
Proof.
  unfold refresh_maybe.
  destruct (is_expired r now || negb (refresh_due r now)); [intros H; inversion H; reflexivity|].
  destruct (exp_time _ _ ladder_from1); simpl; try discriminate.
  destruct (_ =? _).
  { destruct (exp_time _ _ _); simpl; intros H; inversion H; reflexivity. }
  destruct (exp_time _ _ ladder_from2); simpl; try discriminate.
  destruct (_ =? _).
  { destruct (exp_time _ _ _); simpl; intros H; inversion H; reflexivity. }
  destruct (exp_time _ _ ladder_from3); simpl; try discriminate.
  destruct (_ =? _).
  { destruct (exp_time _ _ _); simpl; intros H; inversion H; reflexivity. }
  destruct (refresh_no_more r) eqn:E; simpl; intros H; inversion H; subst.
  apply refresh_no_more_expires; assumption.
Qed.

Lemma apply_op_expires r o r' x :
  keeps_expiry o = true -> apply_op r o = Ok (r', x) -> t_expires r' = t_expires r.
Proof.
  destruct o; simpl; try discriminate; intros _ H.
  - inversion H; reflexivity.
  - destruct (expires_soon r now); simpl in H; inversion H; reflexivity.
  - inversion H; reflexivity.
  - destruct (halflife_passed r now); simpl in H; inversion H; reflexivity.
  - destruct (refresh_maybe r now) as [[r1 b]| | |] eqn:E; simpl in H; inversion H; subst.
    eapply refresh_maybe_expires; eauto.
  - unfold updated_refresh_time in H.
    destruct (refresh_maybe r now) as [[r1 b]| | |] eqn:E; simpl in H; inversion H; subst.
    eapply refresh_maybe_expires; eauto.
  - unfold refresh_no_more in H. destruct (exp_time _ _ _); simpl in H; inversion H; reflexivity.
  - destruct (remaining_ttl r now); simpl in H; inversion H; reflexivity.
  - unfold update_ttl in H. destruct (update_ttl_guard _ _); [|inversion H; reflexivity].
    destruct (_ <? _); simpl in H; inversion H; reflexivity.
  - inversion H; reflexivity.
  - unfold refresh_once, refresh_no_more in H.
    destruct (_ || _); [inversion H; reflexivity|].
    destruct (exp_time _ _ _); simpl in H; inversion H; reflexivity.
Qed.

Lemma run_ops_expires ops : forall r r' outs,
  forallb keeps_expiry ops = true -> run_ops r ops = Ok (r', outs) -> t_expires r' = t_expires r.
Proof.
  induction ops as [|o ops IH]; simpl; intros r r' outs Hk H.
  - inversion H; reflexivity.
  - apply andb_true_iff in Hk as [Hk1 Hk2].
    apply bind_ok_inv in H as ([r1 x] & H1 & H). apply bind_ok_inv in H as ([r2 xs] & H2 & H).
    inversion H; subst. rewrite (IH _ _ _ Hk2 H2). eapply apply_op_expires; eauto.
Qed.

(* A record stays un-expired exactly until T + 1000*ttl whatever is asked of it or refreshed,
   as long as nothing shortens it. *)
Lemma lifetime_frame T t ops r0 r outs now :
  new_rec T t = Ok r0 -> forallb keeps_expiry ops = true -> run_ops r0 ops = Ok (r, outs) ->
  (is_expired r now = true <-> T + 1000 * t <= now).
Proof.
  intros H0 Hk H. pose proof (run_ops_expires _ _ _ _ Hk H) as E.
  apply new_rec_inv in H0 as [-> _]. unfold is_expired, is_expired_g. rewrite E. simpl.
  apply N.leb_le.
Qed.

(* ------------------------------------------------------------------ refinement to astate *)

Definition R (r : trec) (s : astate) : Prop :=
  t_ttl r = a_ttl s /\ t_created r = a_created s /\ t_expires r = a_expires s /\
  t_refresh r = amark s /\ a_k s <= 4 /\ a_expires s <= a_created s + 1000 * a_ttl s /\
  1 <= a_ttl s /\ a_ttl s < U32 /\ a_created s < B63.

Lemma R_init T t : 1 <= t -> t < U32 -> T < B63 ->
  R (mkT t T (T + 1000 * t) (T + 800 * t)) (a_init T t).
Proof.
  intros. unfold R, a_init, amark, mark_percent. simpl. repeat split; try lia.
Qed.

Ltac destr_R :=
  match goal with
  | H : R ?r ?s |- _ =>
      destruct r as [tt tc te tr]; destruct s as [sc st sk se];
      unfold R in H; simpl in H;
      destruct H as (? & ? & ? & ? & ? & ? & ? & ? & ?); subst tt tc te tr
  end.

Lemma mark_lt_U64 sc st p : sc < B63 -> st < U32 -> p <= 100 -> sc + st * p * 10 < U64.
Proof.
  intros. assert (st * p <= 4294967295 * 100) by (apply N.mul_le_mono; unfold U32 in *; lia).
  unfold U64, B63 in *. lia.
Qed.

Ltac normk :=
  repeat match goal with
  | |- context [80 + 5 * ?k] => let v := eval vm_compute in (80 + 5 * k) in change (80 + 5 * k) with v
  | |- context [?a <? 4] => let v := eval vm_compute in (a <? 4) in change (a <? 4) with v
  | H : context [80 + 5 * ?k] |- _ => let v := eval vm_compute in (80 + 5 * k) in change (80 + 5 * k) with v in H
  end.

Lemma k_cases k : k <= 4 -> k = 0 \/ k = 1 \/ k = 2 \/ k = 3 \/ k = 4.
Proof. lia. Qed.

(* the heart: refresh_maybe is "take the next mark if it is due and the record is alive" *)
Lemma refresh_maybe_spec r s now :
  R r s ->
  exists r', refresh_maybe r now = Ok (r', a_due s now) /\
             R r' (if a_due s now then a_setk s (a_k s + 1) else s).
Proof.
  intros HR. destr_R.
  unfold refresh_maybe, is_expired, refresh_due, is_expired_g, refresh_due_g, refresh_no_more,
    refresh_maybe_guard_returns, ladder_from1, ladder_to1, ladder_from2, ladder_to2,
    ladder_from3, ladder_to3, no_more_percent, a_due, set_refresh. simpl.
  unfold amark, mark_percent in *. simpl in *.
  destruct (se <=? now) eqn:Ee; simpl.
  { (* expired *)
    apply N.leb_le in Ee. assert (now <? se = false) as -> by (apply N.ltb_ge; lia). simpl.
    eexists; split; [reflexivity|]. unfold R, amark, mark_percent; simpl. repeat split; try lia. }
  apply N.leb_gt in Ee. assert (now <? se = true) as -> by (apply N.ltb_lt; lia). simpl.
  destruct (sc + st * (80 + 5 * sk) * 10 <=? now) eqn:Ed; simpl.
  2:{ rewrite andb_false_r. eexists; split; [reflexivity|].
      unfold R, amark, mark_percent; simpl. repeat split; try lia. }
  apply N.leb_le in Ed. rewrite andb_true_r.
  destruct (k_cases sk H3) as [K|[K|[K|[K|K]]]]; subst sk; simpl; normk.
  - rewrite !(exp_time_ok sc st) by (auto; lia). simpl.
    assert (sc + st * 80 * 10 =? sc + st * 80 * 10 = true) as -> by apply N.eqb_refl.
    simpl. eexists; split; [reflexivity|]. unfold R, amark, mark_percent; simpl. repeat split; try lia.
  - rewrite !(exp_time_ok sc st) by (auto; lia). simpl.
    assert (sc + st * 85 * 10 =? sc + st * 80 * 10 = false) as -> by (apply N.eqb_neq; lia).
    rewrite N.eqb_refl. simpl.
    eexists; split; [reflexivity|]. unfold R, amark, mark_percent; simpl. repeat split; try lia.
  - rewrite !(exp_time_ok sc st) by (auto; lia). simpl.
    assert (sc + st * 90 * 10 =? sc + st * 80 * 10 = false) as -> by (apply N.eqb_neq; lia).
    assert (sc + st * 90 * 10 =? sc + st * 85 * 10 = false) as -> by (apply N.eqb_neq; lia).
    rewrite N.eqb_refl. simpl.
    eexists; split; [reflexivity|]. unfold R, amark, mark_percent; simpl. repeat split; try lia.
  - rewrite !(exp_time_ok sc st) by (auto; lia). simpl.
    assert (sc + st * 95 * 10 =? sc + st * 80 * 10 = false) as -> by (apply N.eqb_neq; lia).
    assert (sc + st * 95 * 10 =? sc + st * 85 * 10 = false) as -> by (apply N.eqb_neq; lia).
    assert (sc + st * 95 * 10 =? sc + st * 90 * 10 = false) as -> by (apply N.eqb_neq; lia).
    simpl. eexists; split; [reflexivity|]. unfold R, amark, mark_percent; simpl. repeat split; try lia.
  - (* no mark left: due would mean expired *) exfalso. lia.
Qed.

Lemma refresh_once_spec r s now :
  R r s ->
  exists r', refresh_once r now = Ok (r', a_due s now) /\
             R r' (if a_due s now then a_setk s 4 else s).
Proof.
  intros HR. destr_R.
  unfold refresh_once, is_expired, refresh_due, is_expired_g, refresh_due_g, refresh_no_more,
    no_more_percent, a_due, set_refresh. simpl.
  unfold amark, mark_percent in *. simpl in *.
  destruct (se <=? now) eqn:Ee; simpl.
  { apply N.leb_le in Ee. assert (now <? se = false) as -> by (apply N.ltb_ge; lia). simpl.
    eexists; split; [reflexivity|]. unfold R, amark, mark_percent; simpl. repeat split; try lia. }
  apply N.leb_gt in Ee. assert (now <? se = true) as -> by (apply N.ltb_lt; lia). simpl.
  destruct (sc + st * (80 + 5 * sk) * 10 <=? now) eqn:Ed; simpl.
  2:{ rewrite andb_false_r. eexists; split; [reflexivity|].
      unfold R, amark, mark_percent; simpl. repeat split; try lia. }
  apply N.leb_le in Ed. rewrite andb_true_r.
  destruct (sk <? 4) eqn:Ek.
  - rewrite (exp_time_ok sc st) by (auto; lia). simpl.
    eexists; split; [reflexivity|]. unfold R, amark, mark_percent; simpl. repeat split; try lia.
  - apply N.ltb_ge in Ek. exfalso. assert (sk = 4) by lia. subst. lia.
Qed.

Lemma trec_eqb_refl x : trec_eqb x x = true.
Proof. unfold trec_eqb. rewrite !N.eqb_refl. reflexivity. Qed.

Lemma lout_eqb_refl x : lout_eqb x x = true.
Proof.
  destruct x; simpl; auto using Bool.eqb_reflx, N.eqb_refl, trec_eqb_refl.
  destruct o; auto using N.eqb_refl.
Qed.

(* one operation: the model's result is what the abstract specification prescribes *)
Lemma apply_op_refines r s o s' spec :
  R r s -> op_bounds o = true -> aspec_op s o = Some (s', spec) ->
  (op_total o = true -> exists r' x, apply_op r o = Ok (r', x)) /\
  (forall r' x, apply_op r o = Ok (r', x) ->
     R r' s' /\ (forall y, spec = Some y -> x = y)).
Proof.
  intros HR Hb Hs.
  destruct o; simpl in Hs; try discriminate.
  - (* is_expired *) inversion Hs; subst. destr_R. simpl. unfold is_expired, is_expired_g. simpl.
    split; [eauto|]. intros r' x H'; inversion H'; subst. split.
    + unfold R; simpl; repeat split; auto.
    + intros y Hy; inversion Hy; reflexivity.
  - (* expires_soon *) inversion Hs; subst. destr_R. simpl in *. unfold expires_soon, expires_soon_lhs, expires_soon_g. simpl.
    apply N.ltb_lt in Hb.
    rewrite chk64_ok by (unfold U64, B63 in *; lia). simpl.
    split; [eauto|]. intros r' x H'; inversion H'; subst. split.
    + unfold R; simpl; repeat split; auto.
    + intros y Hy; inversion Hy; reflexivity.
  - (* refresh_due *) inversion Hs; subst. destr_R. simpl. unfold refresh_due, refresh_due_g. simpl.
    split; [eauto|]. intros r' x H'; inversion H'; subst. split.
    + unfold R; simpl; repeat split; auto.
    + intros y Hy; inversion Hy; reflexivity.
  - (* halflife *) inversion Hs; subst. destr_R. simpl. unfold halflife_passed, halflife_percent, halflife_passed_g. simpl.
    rewrite (exp_time_ok sc st) by (auto; lia). simpl.
    split; [eauto|]. intros r' x H'; inversion H'; subst. split.
    + unfold R; simpl; repeat split; auto.
    + intros y Hy; inversion Hy. do 2 f_equal. f_equal. lia.
  - (* refresh_maybe *)
    destruct (refresh_maybe_spec r s now HR) as (r1 & E & HR1). simpl. rewrite E. simpl.
    split; [eauto|]. intros r' x H'; inversion H'; subst.
    destruct (a_due s now); inversion Hs; subst; split; auto; intros y Hy; inversion Hy; reflexivity.
  - (* updated_refresh_time *)
    destruct (refresh_maybe_spec r s now HR) as (r1 & E & HR1). simpl. unfold updated_refresh_time. rewrite E. simpl.
    split; [eauto|]. intros r' x H'; inversion H'; subst.
    destruct (a_due s now); inversion Hs; subst; split; auto; intros y Hy; inversion Hy; try reflexivity.
    destruct HR1 as (_ & _ & _ & HR1 & _). rewrite HR1. reflexivity.
  - (* refresh_no_more *) inversion Hs; subst. destr_R. simpl. unfold refresh_no_more, no_more_percent. simpl.
    rewrite (exp_time_ok sc st) by (auto; lia). simpl.
    split; [eauto|]. intros r' x H'; inversion H'; subst. split.
    + unfold R, amark, mark_percent; simpl; repeat split; auto; lia.
    + intros y Hy; inversion Hy; reflexivity.
  - (* remaining_ttl *) inversion Hs; subst. split; [discriminate|].
    intros r' x H'. simpl in H'. destruct (remaining_ttl r now); simpl in H'; inversion H'; subst.
    split; [assumption | discriminate].
  - (* set_expire_sooner *) inversion Hs; subst. destr_R. simpl.
    unfold set_expire_sooner, expire_sooner_guard, set_expires. simpl.
    split; [eauto|]. intros r' x0 H'; inversion H'; subst. split.
    + destruct (x <? se) eqn:E; [apply N.ltb_lt in E | apply N.ltb_ge in E];
        unfold R, amark, mark_percent in *; simpl in *; repeat split; auto; lia.
    + intros y Hy; inversion Hy; reflexivity.
  - (* reset_ttl *) inversion Hs; subst. simpl in Hb. apply andb_true_iff in Hb as [Ht Hc].
    unfold ttl_ok in Ht. apply andb_true_iff in Ht as [Ht1 Ht2].
    apply N.leb_le in Ht1. apply N.ltb_lt in Ht2, Hc.
    assert (Hfit : created + 1000 * ttl < U64) by (unfold U64, B63, U32 in *; lia).
    simpl. rewrite (new_rec_ok _ _ Hfit). simpl.
    unfold reset_ttl, reset_expires_percent, reset_refresh_guard, reset_refresh_percent.
    rewrite (exp_time_ok created ttl 100) by (auto; lia). simpl.
    destruct (1 <? ttl) eqn:E1.
    + rewrite (exp_time_ok created ttl 80) by (auto; lia). simpl.
      split; [eauto|]. intros r' x H'; inversion H'; subst. split.
      * unfold R, amark, mark_percent; simpl; repeat split; auto; lia.
      * intros y Hy; inversion Hy; reflexivity.
    + simpl. split; [eauto|]. intros r' x H'; inversion H'; subst. split.
      * unfold R, amark, mark_percent; simpl; repeat split; auto; lia.
      * intros y Hy; inversion Hy; reflexivity.
  - (* snapshot *) inversion Hs; subst. simpl. split; [eauto|].
    intros r' x H'; inversion H'; subst. split; [assumption|].
    intros y Hy; inversion Hy. destr_R. reflexivity.
  - (* refresh_once *)
    destruct (refresh_once_spec r s now HR) as (r1 & E & HR1). simpl. rewrite E. simpl.
    split; [eauto|]. intros r' x H'; inversion H'; subst.
    destruct (a_due s now); inversion Hs; subst; split; auto; intros y Hy; inversion Hy; reflexivity.
Qed.

Lemma chk_life_sound ops : forall r s r' outs,
  R r s -> forallb op_bounds ops = true -> run_ops r ops = Ok (r', outs) -> chk_life s ops outs = true.
Proof.
  induction ops as [|o ops IH]; simpl; intros r s r' outs HR Hb H.
  - inversion H; reflexivity.
  - apply andb_true_iff in Hb as [Hb1 Hb2].
    apply bind_ok_inv in H as ([r1 x] & H1 & H). apply bind_ok_inv in H as ([r2 xs] & H2 & H).
    inversion H; subst.
    destruct (aspec_op s o) as [[s' spec]|] eqn:Es; [|reflexivity].
    destruct (apply_op_refines r s o s' spec HR Hb1 Es) as [_ Hstep].
    destruct (Hstep _ _ H1) as [HR1 Hx].
    destruct spec as [y|].
    + rewrite (Hx y eq_refl), lout_eqb_refl. simpl. eapply IH; eauto.
    + eapply IH; eauto.
Qed.

(* the monitor theorem at record level *)
Lemma chk_C11_life_sound created ttl ops outs :
  life_case created ttl ops = Ok outs -> chk_C11_life created ttl ops outs = true.
Proof.
  unfold chk_C11_life, life_case. intros H.
  destruct (life_bounds created ttl ops) eqn:Eb; [|reflexivity].
  unfold life_bounds in Eb. apply andb_true_iff in Eb as [Eb Hops]. apply andb_true_iff in Eb as [Ht Hc].
  unfold ttl_ok in Ht. apply andb_true_iff in Ht as [Ht1 Ht2].
  apply N.leb_le in Ht1. apply N.ltb_lt in Ht2, Hc.
  apply bind_ok_inv in H as (r & Hr & H). apply bind_ok_inv in H as ([r' outs'] & Hrun & H).
  inversion H; subst. apply new_rec_inv in Hr as [-> _].
  eapply chk_life_sound; eauto. apply R_init; assumption.
Qed.

(* no operation of the property's alphabet can panic inside the bounds *)
Definition in_alphabet (o : lop) : bool :=
  match o with OSetExpire _ | OUpdateTtl _ | ORemaining _ => false | _ => true end.

Lemma run_ops_total ops : forall r s,
  R r s -> forallb op_bounds ops = true -> forallb in_alphabet ops = true ->
  exists r' outs, run_ops r ops = Ok (r', outs).
Proof.
  induction ops as [|o ops IH]; simpl; intros r s HR Hb Ha; [eauto|].
  apply andb_true_iff in Hb as [Hb1 Hb2]. apply andb_true_iff in Ha as [Ha1 Ha2].
  assert (exists s' spec, aspec_op s o = Some (s', spec)) as (s' & spec & Es).
  { destruct o; simpl in *; try discriminate; try (destruct (a_due s now)); eauto. }
  assert (Ht : op_total o = true) by (destruct o; simpl in *; auto; discriminate).
  destruct (apply_op_refines r s o s' spec HR Hb1 Es) as [Hex Hstep].
  destruct (Hex Ht) as (r1 & x & H1). destruct (Hstep _ _ H1) as [HR1 _].
  destruct (IH r1 s' HR1 Hb2 Ha2) as (r2 & xs & H2).
  rewrite H1. simpl. rewrite H2. simpl. eauto.
Qed.

Lemma life_case_total created ttl ops :
  life_bounds created ttl ops = true -> forallb in_alphabet ops = true ->
  exists outs, life_case created ttl ops = Ok outs.
Proof.
  intros Eb Ha. unfold life_bounds in Eb.
  apply andb_true_iff in Eb as [Eb Hops]. apply andb_true_iff in Eb as [Ht Hc].
  unfold ttl_ok in Ht. apply andb_true_iff in Ht as [Ht1 Ht2].
  apply N.leb_le in Ht1. apply N.ltb_lt in Ht2, Hc.
  assert (Hfit : created + 1000 * ttl < U64) by (unfold U64, B63, U32 in *; lia).
  unfold life_case. rewrite (new_rec_ok _ _ Hfit). simpl.
  destruct (run_ops_total ops _ _ (R_init created ttl Ht1 Ht2 Hc) Hops Ha) as (r' & outs & H).
  rewrite H. simpl. eauto.
Qed.
