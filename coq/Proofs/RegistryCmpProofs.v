(* Order laws of DnsRecordExt::compare (Model/Registry.v: compare_rr, compare_rdata) and of the
   tie-break comparison of two record lists (tb_cmp, tiebreak). *)
From Coq Require Import List NArith Bool Lia.
From Mdns Require Import Bytes Rec ParamsRegistry Names Registry RegistryParamsPinned.
Import ListNotations.
Open Scope N_scope.

(* ---- a comparison function that is a total order ------------------------------------------------ *)

Definition cmp_ok {A} (c : A -> A -> comparison) : Prop :=
  (forall x y, c x y = Eq <-> x = y) /\
  (forall x y, c x y = CompOpp (c y x)) /\
  (forall x y z, c x y = Lt -> c y z = Lt -> c x z = Lt).

Lemma N_cmp_ok : cmp_ok N.compare.
Proof.
  split; [|split].
  - intros x y. apply N.compare_eq_iff.
  - intros x y. apply N.compare_antisym.
  - intros x y z H1 H2. rewrite N.compare_lt_iff in *. lia.
Qed.

Lemma cmp_bytes_eq a b : cmp_bytes a b = Eq <-> a = b.
Proof.
  revert b. induction a as [|x a IH]; destruct b as [|y b]; simpl; split; intros H;
    try reflexivity; try discriminate.
  - destruct (x ?= y) eqn:E; try discriminate.
    apply N.compare_eq_iff in E. apply IH in H. congruence.
  - inversion H; subst. rewrite N.compare_refl. apply IH. reflexivity.
Qed.

Lemma cmp_bytes_antisym a b : cmp_bytes a b = CompOpp (cmp_bytes b a).
Proof.
  revert b. induction a as [|x a IH]; destruct b as [|y b]; simpl; try reflexivity.
  rewrite (N.compare_antisym y x). destruct (y ?= x); simpl; auto.
Qed.

Lemma cmp_bytes_trans a b c : cmp_bytes a b = Lt -> cmp_bytes b c = Lt -> cmp_bytes a c = Lt.
Proof.
  revert b c. induction a as [|x a IH]; destruct b as [|y b]; destruct c as [|z c]; simpl;
    intros H1 H2; try reflexivity; try discriminate.
  destruct (x ?= y) eqn:E1; destruct (y ?= z) eqn:E2; try discriminate.
  - apply N.compare_eq_iff in E1, E2. subst. rewrite N.compare_refl. eauto.
  - apply N.compare_eq_iff in E1. subst. rewrite E2. reflexivity.
  - apply N.compare_eq_iff in E2. subst. rewrite E1. reflexivity.
  - rewrite N.compare_lt_iff in *. assert (x < z) by lia.
    apply N.compare_lt_iff in H. rewrite H. reflexivity.
Qed.

Lemma bytes_cmp_ok : cmp_ok cmp_bytes.
Proof. split; [|split]; [apply cmp_bytes_eq | apply cmp_bytes_antisym | apply cmp_bytes_trans]. Qed.

(* lexicographic pairs *)
Definition pair_cmp {A B} (ca : A -> A -> comparison) (cb : B -> B -> comparison) (x y : A * B) : comparison :=
  lex (ca (fst x) (fst y)) (cb (snd x) (snd y)).

Lemma CompOpp_lex a b : CompOpp (lex a b) = lex (CompOpp a) (CompOpp b).
Proof. destruct a; reflexivity. Qed.

Lemma pair_cmp_ok {A B} (ca : A -> A -> comparison) (cb : B -> B -> comparison) :
  cmp_ok ca -> cmp_ok cb -> cmp_ok (pair_cmp ca cb).
Proof.
  intros (Ea & Aa & Ta) (Eb & Ab & Tb). unfold pair_cmp. split; [|split].
  - intros [x1 x2] [y1 y2]; simpl. split.
    + destruct (ca x1 y1) eqn:E; simpl; intros H; try discriminate.
      apply Ea in E. apply Eb in H. congruence.
    + intros H; inversion H; subst.
      assert (ca y1 y1 = Eq) as -> by (apply Ea; reflexivity). simpl. apply Eb. reflexivity.
  - intros [x1 x2] [y1 y2]; simpl. rewrite CompOpp_lex, <- Aa, <- Ab. reflexivity.
  - intros [x1 x2] [y1 y2] [z1 z2]; simpl.
    destruct (ca x1 y1) eqn:E1; destruct (ca y1 z1) eqn:E2; simpl; intros H1 H2; try discriminate.
    + apply Ea in E1, E2. subst.
      assert (ca z1 z1 = Eq) as -> by (apply Ea; reflexivity). simpl. eauto.
    + apply Ea in E1. subst. rewrite E2. reflexivity.
    + apply Ea in E2. subst. rewrite E1. reflexivity.
    + rewrite (Ta _ _ _ E1 E2). reflexivity.
Qed.

(* ---- IpAddr ordering ---------------------------------------------------------------------------------- *)

Lemma cmp_addr_ok : cmp_ok cmp_addr.
Proof.
  unfold cmp_addr. split; [|split].
  - intros x y. destruct (is_v4 x) eqn:Ex; destruct (is_v4 y) eqn:Ey;
      try apply cmp_bytes_eq; split; intros H; try discriminate; subst; congruence.
  - intros x y. destruct (is_v4 x), (is_v4 y); simpl; try reflexivity; apply cmp_bytes_antisym.
  - intros x y z. destruct (is_v4 x), (is_v4 y), (is_v4 z); intros H1 H2;
      try discriminate; try reflexivity; eapply cmp_bytes_trans; eauto.
Qed.

(* ---- compare_rdata on records of one kind --------------------------------------------------------------- *)

Lemma kind_eqb_eq a b : kind_eqb a b = true <-> a = b.
Proof. destruct a, b; simpl; split; intros H; try reflexivity; try discriminate. Qed.

Lemma compare_rdata_eq d d' : compare_rdata d d' = Eq <-> d = d'.
Proof.
  destruct (N_cmp_ok) as (En & _ & _). destruct bytes_cmp_ok as (Eb & _ & _).
  destruct cmp_addr_ok as (Ea & _ & _).
  destruct d, d'; simpl; try (split; intros H; discriminate).
  - rewrite Ea. split; congruence.
  - rewrite Eb. split; congruence.
  - split.
    + destruct (priority ?= priority0) eqn:E1; simpl; try discriminate.
      destruct (weight ?= weight0) eqn:E2; simpl; try discriminate.
      destruct (port ?= port0) eqn:E3; simpl; try discriminate.
      intros H. apply En in E1, E2, E3. apply Eb in H. congruence.
    + intros H; inversion H; subst. rewrite !N.compare_refl. simpl. apply Eb. reflexivity.
  - rewrite Eb. split; congruence.
  - split.
    + destruct (cmp_bytes cpu cpu0) eqn:E1; simpl; try discriminate.
      intros H. apply Eb in E1, H. congruence.
    + intros H; inversion H; subst.
      assert (cmp_bytes cpu0 cpu0 = Eq) as -> by (apply Eb; reflexivity). simpl. apply Eb. reflexivity.
  - split.
    + destruct (cmp_bytes next next0) eqn:E1; simpl; try discriminate.
      intros H. apply Eb in E1, H. congruence.
    + intros H; inversion H; subst.
      assert (cmp_bytes next0 next0 = Eq) as -> by (apply Eb; reflexivity). simpl. apply Eb. reflexivity.
Qed.

Lemma compare_rdata_antisym d d' :
  kind_of d = kind_of d' -> compare_rdata d d' = CompOpp (compare_rdata d' d).
Proof.
  destruct d, d'; simpl; intros K; try discriminate.
  - apply cmp_addr_ok.
  - apply cmp_bytes_antisym.
  - rewrite !CompOpp_lex, <- !N.compare_antisym, <- cmp_bytes_antisym. reflexivity.
  - apply cmp_bytes_antisym.
  - rewrite CompOpp_lex, <- !cmp_bytes_antisym. reflexivity.
  - rewrite CompOpp_lex, <- !cmp_bytes_antisym. reflexivity.
Qed.

(* the rdata of one kind as nested pairs, ordered lexicographically *)
Lemma lex3_trans (c1 : N -> N -> comparison) :
  forall (p p' p'' w w' w'' o o' o'' : N) (h h' h'' : bytes),
  lex (p ?= p') (lex (w ?= w') (lex (o ?= o') (cmp_bytes h h'))) = Lt ->
  lex (p' ?= p'') (lex (w' ?= w'') (lex (o' ?= o'') (cmp_bytes h' h''))) = Lt ->
  lex (p ?= p'') (lex (w ?= w'') (lex (o ?= o'') (cmp_bytes h h''))) = Lt.
Proof.
  intros.
  pose proof (pair_cmp_ok _ _ N_cmp_ok (pair_cmp_ok _ _ N_cmp_ok (pair_cmp_ok _ _ N_cmp_ok bytes_cmp_ok))) as (_ & _ & T).
  exact (T (p, (w, (o, h))) (p', (w', (o', h'))) (p'', (w'', (o'', h''))) H H0).
Qed.

Lemma lex_bytes2_trans (a a' a'' b b' b'' : bytes) :
  lex (cmp_bytes a a') (cmp_bytes b b') = Lt -> lex (cmp_bytes a' a'') (cmp_bytes b' b'') = Lt ->
  lex (cmp_bytes a a'') (cmp_bytes b b'') = Lt.
Proof.
  intros H H0.
  pose proof (pair_cmp_ok _ _ bytes_cmp_ok bytes_cmp_ok) as (_ & _ & T).
  exact (T (a, b) (a', b') (a'', b'') H H0).
Qed.

Lemma compare_rdata_trans d d' d'' :
  kind_of d = kind_of d' -> kind_of d' = kind_of d'' ->
  compare_rdata d d' = Lt -> compare_rdata d' d'' = Lt -> compare_rdata d d'' = Lt.
Proof.
  destruct d, d', d''; simpl; intros K1 K2; try discriminate.
  - apply cmp_addr_ok.
  - apply cmp_bytes_trans.
  - apply (lex3_trans N.compare).
  - apply cmp_bytes_trans.
  - apply lex_bytes2_trans.
  - apply lex_bytes2_trans.
Qed.

(* ---- compare_rr ---------------------------------------------------------------------------------------------- *)

Lemma well_typed_kind a b :
  well_typed a = true -> well_typed b = true -> r_type a = r_type b ->
  kind_of (r_data a) = kind_of (r_data b).
Proof.
  unfold well_typed. intros Ha Hb E. rewrite E in Ha.
  destruct (kind_of_type (r_type b)); try discriminate.
  apply kind_eqb_eq in Ha, Hb. congruence.
Qed.

Lemma compare_rr_eq a b :
  compare_rr a b = Eq <-> r_class a = r_class b /\ r_type a = r_type b /\ r_data a = r_data b.
Proof.
  unfold compare_rr. split.
  - destruct (r_class a ?= r_class b) eqn:E1; simpl; try discriminate.
    destruct (r_type a ?= r_type b) eqn:E2; simpl; try discriminate.
    intros H. apply N.compare_eq_iff in E1, E2. apply compare_rdata_eq in H. auto.
  - intros (H1 & H2 & H3). rewrite H1, H2, H3, !N.compare_refl. simpl. apply compare_rdata_eq. reflexivity.
Qed.

Lemma compare_rr_antisym a b :
  well_typed a = true -> well_typed b = true -> compare_rr a b = CompOpp (compare_rr b a).
Proof.
  intros Ha Hb. unfold compare_rr. rewrite !CompOpp_lex, <- !N.compare_antisym.
  destruct (r_class a ?= r_class b) eqn:E1; simpl; try reflexivity.
  destruct (r_type a ?= r_type b) eqn:E2; simpl; try reflexivity.
  apply N.compare_eq_iff in E2. apply compare_rdata_antisym. apply well_typed_kind; auto.
Qed.

Lemma compare_rr_trans a b c :
  well_typed a = true -> well_typed b = true -> well_typed c = true ->
  compare_rr a b = Lt -> compare_rr b c = Lt -> compare_rr a c = Lt.
Proof.
  intros Ha Hb Hc. unfold compare_rr.
  destruct (r_class a ?= r_class b) eqn:C1; simpl; try discriminate;
  destruct (r_class b ?= r_class c) eqn:C2; simpl; try discriminate.
  - apply N.compare_eq_iff in C1, C2. rewrite C1, C2, N.compare_refl. simpl.
    destruct (r_type a ?= r_type b) eqn:T1; simpl; try discriminate;
    destruct (r_type b ?= r_type c) eqn:T2; simpl; try discriminate.
    + apply N.compare_eq_iff in T1, T2. rewrite T1, T2, N.compare_refl. simpl.
      apply compare_rdata_trans; apply well_typed_kind; auto.
    + apply N.compare_eq_iff in T1. rewrite T1, T2. reflexivity.
    + apply N.compare_eq_iff in T2. rewrite <- T2, T1. reflexivity.
    + rewrite N.compare_lt_iff in *. assert (r_type a < r_type c) by lia.
      apply N.compare_lt_iff in H. rewrite H. reflexivity.
  - apply N.compare_eq_iff in C1. rewrite C1, C2. reflexivity.
  - apply N.compare_eq_iff in C2. rewrite <- C2, C1. reflexivity.
  - rewrite N.compare_lt_iff in *. assert (r_class a < r_class c) by lia.
    apply N.compare_lt_iff in H. rewrite H. reflexivity.
Qed.

(* Without the typing hypothesis antisymmetry fails: an address record and a pointer record
   that carry the same class and type are each Greater than the other. *)
Lemma compare_rr_illtyped_refuted :
  exists a b, r_class a = r_class b /\ r_type a = r_type b /\ compare_rr a b = Gt /\ compare_rr b a = Gt.
Proof.
  exists (mkRR [97] 1 1 true 120 (RAddr [1;2;3;4])), (mkRR [97] 1 1 true 120 (RPtr [97])).
  repeat split; reflexivity.
Qed.

(* ---- the tie-break comparison of two record lists ------------------------------------------------------------------ *)

Definition all_typed (l : list rr) : Prop := Forall (fun r => well_typed r = true) l.

Lemma tb_cmp_antisym mine theirs :
  all_typed mine -> all_typed theirs -> tb_cmp mine theirs = CompOpp (tb_cmp theirs mine).
Proof.
  revert theirs. induction mine as [|a m IH]; destruct theirs as [|b t]; simpl; intros Hm Ht; try reflexivity.
  inversion Hm; inversion Ht; subst.
  rewrite (compare_rr_antisym b a) by assumption.
  destruct (compare_rr a b); simpl; auto.
Qed.

(* record data that the comparison looks at *)
Definition rr_key (r : rr) : N * N * rdata := (r_class r, r_type r, r_data r).

Lemma tb_cmp_eq mine theirs : tb_cmp mine theirs = Eq <-> map rr_key mine = map rr_key theirs.
Proof.
  revert theirs. induction mine as [|a m IH]; destruct theirs as [|b t]; simpl; split; intros H;
    try reflexivity; try discriminate.
  - destruct (compare_rr a b) eqn:E; try discriminate.
    apply compare_rr_eq in E as (E1 & E2 & E3). apply IH in H. unfold rr_key at 1 3. congruence.
  - inversion H. unfold rr_key in H1. inversion H1.
    assert (compare_rr a b = Eq) as -> by (apply compare_rr_eq; auto). apply IH. assumption.
Qed.

(* both sides of a simultaneous probe reach opposite verdicts: exactly one of them sees Less
   unless the data are the same *)
Lemma tiebreak_opposite mine theirs :
  all_typed mine -> all_typed theirs ->
  (tb_cmp mine theirs = Lt <-> tb_cmp theirs mine = Gt) /\
  (tb_cmp mine theirs = Gt <-> tb_cmp theirs mine = Lt) /\
  (tb_cmp mine theirs = Eq <-> tb_cmp theirs mine = Eq).
Proof.
  intros Hm Ht. rewrite (tb_cmp_antisym mine theirs Hm Ht).
  destruct (tb_cmp theirs mine); simpl; repeat split; intros H; try discriminate; reflexivity.
Qed.

(* ---- Probe::tiebreaking ---------------------------------------------------------------------------------------------------- *)

Lemma tiebreak_before_start p incoming now :
  now <= pb_start p -> tiebreak p incoming now = p.
Proof.
  intros H. unfold tiebreak. rewrite tiebreak_not_started_pinned.
  apply N.leb_le in H. rewrite H. reflexivity.
Qed.

Lemma tiebreak_lost p incoming now :
  pb_start p < now -> tb_cmp (map p_rr (pb_records p)) incoming = Lt ->
  tiebreak p incoming now = mkProbe (pb_records p) (pb_waiting p) (now + 1000) (now + 1000).
Proof.
  intros H L. unfold tiebreak. rewrite tiebreak_not_started_pinned.
  apply N.leb_gt in H. rewrite H, L. reflexivity.
Qed.

Lemma tiebreak_not_lost p incoming now :
  tb_cmp (map p_rr (pb_records p)) incoming <> Lt -> tiebreak p incoming now = p.
Proof.
  intros L. unfold tiebreak. destruct (tiebreak_not_started (pb_start p) now); [reflexivity|].
  destruct (tb_cmp (map p_rr (pb_records p)) incoming); congruence.
Qed.

Lemma tiebreak_keeps_records p incoming now :
  pb_records (tiebreak p incoming now) = pb_records p /\ pb_waiting (tiebreak p incoming now) = pb_waiting p.
Proof.
  unfold tiebreak. destruct (tiebreak_not_started (pb_start p) now); [auto|].
  destruct (tb_cmp (map p_rr (pb_records p)) incoming); auto.
Qed.
