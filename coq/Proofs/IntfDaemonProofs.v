(* Proofs about the interface table of the daemon model (Model/IntfDaemon.v): what
   add_interface / del_interface_addr / apply_intf_selections / check_ip_changes leave in
   my_intfs, and which addresses the packets the daemon sends on its own carry (C18). *)
From Coq Require Import List NArith Bool Lia.
From Mdns Require Import Res Bytes Rec Intf IntfCache Responder IntfDaemon IntfProofs
     ParamsResponder ParamsResponderPinned.
Import ListNotations.
Open Scope N_scope.

(* ---- equality tests ---------------------------------------------------------------------------- *)

Lemma ip_eqb_eq a b : ip_eqb a b = true <-> a = b.
Proof.
  destruct a, b; simpl; rewrite ?N.eqb_eq; split; intros H; try congruence; try discriminate.
Qed.

Lemma ifaddr_eqb_eq a b : ifaddr_eqb a b = true <-> a = b.
Proof.
  unfold ifaddr_eqb. rewrite andb_true_iff, ip_eqb_eq, N.eqb_eq. destruct a, b; simpl.
  split; [intros [-> ->]; reflexivity|intros H; inversion H; auto].
Qed.

Lemma ifaddr_eqb_refl a : ifaddr_eqb a a = true.
Proof. apply ifaddr_eqb_eq. reflexivity. Qed.

Lemma ifaddr_eqb_sym a b : ifaddr_eqb a b = ifaddr_eqb b a.
Proof.
  destruct (ifaddr_eqb a b) eqn:E.
  - apply ifaddr_eqb_eq in E. subst. symmetry. apply ifaddr_eqb_refl.
  - destruct (ifaddr_eqb b a) eqn:E'; [|reflexivity]. apply ifaddr_eqb_eq in E'. subst.
    rewrite ifaddr_eqb_refl in E. discriminate.
Qed.

(* ---- the table: which (interface, address) pairs are held ---------------------------------------- *)

Definition held (l : list myintf) (idx : N) (a : ifaddr) : bool :=
  match intf_get idx l with Some m => has_ifaddr a (mi_addrs m) | None => false end.

Lemma intf_get_put x l idx :
  intf_get idx (intf_put x l) = if mi_index x =? idx then Some x else intf_get idx l.
Proof.
  induction l as [|i l IH]; simpl.
  - reflexivity.
  - destruct (mi_index i =? mi_index x) eqn:E; simpl.
    + apply N.eqb_eq in E. rewrite E. destruct (mi_index x =? idx); reflexivity.
    + rewrite IH. destruct (mi_index i =? idx) eqn:E2; [|reflexivity].
      apply N.eqb_eq in E2. subst idx. rewrite N.eqb_sym, E. reflexivity.
Qed.

Lemma intf_get_app_new l x idx : intf_get (mi_index x) l = None ->
  intf_get idx (l ++ [x]) = if mi_index x =? idx then Some x else intf_get idx l.
Proof.
  induction l as [|i l IH]; simpl; intros H.
  - reflexivity.
  - destruct (mi_index i =? mi_index x) eqn:E; [discriminate|].
    destruct (mi_index i =? idx) eqn:E2.
    + apply N.eqb_eq in E2. subst idx. rewrite N.eqb_sym, E. reflexivity.
    + apply IH. exact H.
Qed.

Lemma intf_get_remove l idx idx' :
  intf_get idx' (intf_remove idx l) = if idx' =? idx then None else intf_get idx' l.
Proof.
  unfold intf_remove. induction l as [|i l IH]; simpl.
  - destruct (idx' =? idx); reflexivity.
  - destruct (mi_index i =? idx) eqn:E; simpl.
    + rewrite IH. apply N.eqb_eq in E. destruct (idx' =? idx) eqn:E2; [reflexivity|].
      destruct (mi_index i =? idx') eqn:E3; [|reflexivity].
      apply N.eqb_eq in E3. rewrite <- E3, E, N.eqb_refl in E2. discriminate.
    + destruct (mi_index i =? idx') eqn:E3.
      * apply N.eqb_eq in E3. rewrite <- E3, E. reflexivity.
      * exact IH.
Qed.

Lemma intf_get_index l idx m : intf_get idx l = Some m -> mi_index m = idx.
Proof.
  induction l as [|i l IH]; simpl; [discriminate|].
  destruct (mi_index i =? idx) eqn:E; [|exact IH]. intros H. inversion H; subst. apply N.eqb_eq. exact E.
Qed.

Lemma has_ifaddr_app a l b : has_ifaddr a (l ++ [b]) = has_ifaddr a l || ifaddr_eqb a b.
Proof. unfold has_ifaddr. rewrite existsb_app. simpl. rewrite orb_false_r. reflexivity. Qed.

Lemma has_ifaddr_del a b l : has_ifaddr a (del_ifaddr b l) = has_ifaddr a l && negb (ifaddr_eqb b a).
Proof.
  unfold has_ifaddr, del_ifaddr. induction l as [|x l IH]; simpl; [reflexivity|].
  destruct (ifaddr_eqb b x) eqn:E; simpl.
  - rewrite IH. apply ifaddr_eqb_eq in E. subst x.
    destruct (ifaddr_eqb a b) eqn:E2; simpl.
    + rewrite ifaddr_eqb_sym, E2. simpl. rewrite andb_false_r. reflexivity.
    + reflexivity.
  - rewrite IH. destruct (ifaddr_eqb a x) eqn:E2; simpl; [|reflexivity].
    apply ifaddr_eqb_eq in E2. subst x. rewrite E. reflexivity.
Qed.

Lemma del_ifaddr_nil b l a : del_ifaddr b l = [] -> has_ifaddr a l = true -> a = b.
Proof.
  intros Hn Hh. assert (H := has_ifaddr_del a b l). rewrite Hn, Hh in H. simpl in H.
  symmetry in H. apply negb_false_iff in H. apply ifaddr_eqb_eq in H. congruence.
Qed.

(* the key of an OS entry *)
Definition key_is (e : iface) (idx : N) (a : ifaddr) : bool := (i_index e =? idx) && ifaddr_eqb a (i_addr e).

(* ---- add_interface / del_interface_addr on the table ---------------------------------------------- *)

Definition add_tbl (l : list myintf) (i : iface) : list myintf :=
  match intf_get (i_index i) l with
  | Some m => if has_ifaddr (i_addr i) (mi_addrs m) then l
              else intf_put (mkMyIntf (mi_name m) (i_index i) (mi_addrs m ++ [i_addr i])) l
  | None => l ++ [mkMyIntf (i_name i) (i_index i) [i_addr i]]
  end.

Definition del_tbl (l : list myintf) (i : iface) : list myintf :=
  match intf_get (i_index i) l with
  | None => l
  | Some m =>
    if has_ifaddr (i_addr i) (mi_addrs m) then
      let addrs' := del_ifaddr (i_addr i) (mi_addrs m) in
      if is_nil addrs' then intf_remove (i_index i) l
      else intf_put (mkMyIntf (mi_name m) (i_index i) addrs') l
    else l
  end.

Lemma held_add_tbl l i idx a : held (add_tbl l i) idx a = held l idx a || key_is i idx a.
Proof.
  unfold add_tbl, held, key_is.
  destruct (intf_get (i_index i) l) as [m|] eqn:Eg.
  - destruct (has_ifaddr (i_addr i) (mi_addrs m)) eqn:Eh.
    + (* already there *)
      destruct (i_index i =? idx) eqn:Ei; [|rewrite orb_false_r; reflexivity].
      apply N.eqb_eq in Ei. subst idx. rewrite Eg. simpl.
      destruct (ifaddr_eqb a (i_addr i)) eqn:Ea; [|rewrite orb_false_r; reflexivity].
      apply ifaddr_eqb_eq in Ea. subst a. rewrite Eh. reflexivity.
    + rewrite intf_get_put. simpl. destruct (i_index i =? idx) eqn:Ei.
      * apply N.eqb_eq in Ei. subst idx. rewrite Eg. simpl. apply has_ifaddr_app.
      * rewrite orb_false_r. reflexivity.
  - rewrite intf_get_app_new by exact Eg. simpl. destruct (i_index i =? idx) eqn:Ei.
    + apply N.eqb_eq in Ei. subst idx. rewrite Eg. simpl. unfold has_ifaddr. simpl.
      rewrite orb_false_r. reflexivity.
    + rewrite orb_false_r. reflexivity.
Qed.

Lemma held_del_tbl l i idx a : held (del_tbl l i) idx a = held l idx a && negb (key_is i idx a).
Proof.
  unfold del_tbl, held, key_is.
  destruct (intf_get (i_index i) l) as [m|] eqn:Eg.
  - destruct (has_ifaddr (i_addr i) (mi_addrs m)) eqn:Eh.
    + destruct (is_nil (del_ifaddr (i_addr i) (mi_addrs m))) eqn:En.
      * (* the interface goes away *)
        rewrite intf_get_remove. destruct (idx =? i_index i) eqn:Ei.
        -- apply N.eqb_eq in Ei. subst idx. rewrite Eg, N.eqb_refl. simpl.
           destruct (has_ifaddr a (mi_addrs m)) eqn:Ea; [|reflexivity]. simpl.
           destruct (del_ifaddr (i_addr i) (mi_addrs m)) eqn:Ed; [|discriminate].
           rewrite (del_ifaddr_nil _ _ _ Ed Ea), ifaddr_eqb_refl. reflexivity.
        -- rewrite N.eqb_sym, Ei. simpl. rewrite andb_true_r. reflexivity.
      * rewrite intf_get_put. simpl. destruct (i_index i =? idx) eqn:Ei.
        -- apply N.eqb_eq in Ei. subst idx. rewrite Eg. simpl. rewrite has_ifaddr_del.
           rewrite (ifaddr_eqb_sym a). reflexivity.
        -- simpl. rewrite andb_true_r. reflexivity.
    + (* not held: nothing changes *)
      destruct (i_index i =? idx) eqn:Ei; [|simpl; rewrite andb_true_r; reflexivity].
      apply N.eqb_eq in Ei. subst idx. rewrite Eg. simpl.
      destruct (ifaddr_eqb a (i_addr i)) eqn:Ea; [|simpl; rewrite andb_true_r; reflexivity].
      apply ifaddr_eqb_eq in Ea. subst a. rewrite Eh. reflexivity.
  - destruct (i_index i =? idx) eqn:Ei; [|simpl; rewrite andb_true_r; reflexivity].
    apply N.eqb_eq in Ei. subst idx. rewrite Eg. reflexivity.
Qed.

(* the model's operations change my_intfs exactly as add_tbl / del_tbl, and leave selections and
   the OS table alone *)
Lemma add_interface_intfs now d i :
  d_intfs (fst (add_interface now d i)) = add_tbl (d_intfs d) i /\
  d_sels (fst (add_interface now d i)) = d_sels d /\ d_os (fst (add_interface now d i)) = d_os d.
Proof.
  unfold add_interface, add_tbl.
  destruct (intf_get (i_index i) (d_intfs d)) as [m|] eqn:Eg.
  - destruct (has_ifaddr (i_addr i) (mi_addrs m)) eqn:Eh; simpl; [auto|].
    rewrite intf_get_put. simpl. rewrite N.eqb_refl.
    destruct (fold_left _ (d_svcs _) ([], [], [])) as [[svcs' sent] resend]. simpl. auto.
  - simpl. rewrite intf_get_app_new by exact Eg. simpl. rewrite N.eqb_refl.
    destruct (fold_left _ (d_svcs _) ([], [], [])) as [[svcs' sent] resend]. simpl. auto.
Qed.

Lemma del_interface_addr_intfs d i :
  d_intfs (fst (del_interface_addr d i)) = del_tbl (d_intfs d) i /\
  d_sels (fst (del_interface_addr d i)) = d_sels d /\ d_os (fst (del_interface_addr d i)) = d_os d.
Proof.
  unfold del_interface_addr, del_tbl.
  destruct (intf_get (i_index i) (d_intfs d)) as [m|] eqn:Eg; [|simpl; auto].
  destruct (has_ifaddr (i_addr i) (mi_addrs m)) eqn:Eh; [|simpl; auto].
  destruct (is_nil (del_ifaddr (i_addr i) (mi_addrs m))) eqn:En.
  - destruct (holds_ip _ _); simpl; auto.
  - destruct (negb (family_enabled _ _)); destruct (holds_ip _ _); simpl; auto.
Qed.

(* ---- apply_intf_selections ------------------------------------------------------------------------- *)

Definition apply_tbl (f : iface -> bool) (l : list myintf) (tbl : list iface) : list myintf :=
  fold_left (fun acc e => if f e then add_tbl acc e else del_tbl acc e) tbl l.

Lemma held_apply_tbl f tbl : forall l idx a,
  held (apply_tbl f l tbl) idx a =
  match find (fun e => key_is e idx a) (rev tbl) with
  | Some e => f e
  | None => held l idx a
  end.
Proof.
  induction tbl as [|e tbl IH]; intros l idx a; simpl; [reflexivity|].
  unfold apply_tbl in *. simpl. rewrite IH. rewrite find_app. simpl.
  destruct (find (fun e0 => key_is e0 idx a) (rev tbl)); [reflexivity|].
  destruct (f e) eqn:Ef.
  - rewrite held_add_tbl. destruct (key_is e idx a); simpl; [rewrite orb_true_r, Ef; reflexivity|apply orb_false_r].
  - rewrite held_del_tbl. destruct (key_is e idx a); simpl; [rewrite andb_false_r, Ef; reflexivity|apply andb_true_r].
Qed.

Lemma apply_fold_intfs now (f : iface -> bool) tbl : forall d,
  let r := fold_left (fun (acc : dstate * list obs) (im : iface * bool) =>
                        let '(st, out) := acc in
                        let '(st', o) := if snd im then add_interface now st (fst im) else del_interface_addr st (fst im) in
                        (st', out ++ o)) (combine tbl (map f tbl)) d in
  d_intfs (fst r) = apply_tbl f (d_intfs (fst d)) tbl /\ d_sels (fst r) = d_sels (fst d) /\ d_os (fst r) = d_os (fst d).
Proof.
  induction tbl as [|e tbl IH]; intros [st out]; simpl; [auto|].
  change (apply_tbl f (d_intfs st) (e :: tbl))
    with (apply_tbl f (if f e then add_tbl (d_intfs st) e else del_tbl (d_intfs st) e) tbl).
  destruct (f e) eqn:Ef.
  - destruct (add_interface now st e) as [st' o] eqn:Ea.
    pose proof (add_interface_intfs now st e) as (H1 & H2 & H3). rewrite Ea in H1, H2, H3. simpl in H1, H2, H3.
    specialize (IH (st', out ++ o)). simpl in IH. destruct IH as (I1 & I2 & I3).
    rewrite I1, I2, I3, H1, H2, H3. auto.
  - destruct (del_interface_addr st e) as [st' o] eqn:Ea.
    pose proof (del_interface_addr_intfs st e) as (H1 & H2 & H3). rewrite Ea in H1, H2, H3. simpl in H1, H2, H3.
    specialize (IH (st', out ++ o)). simpl in IH. destruct IH as (I1 & I2 & I3).
    rewrite I1, I2, I3, H1, H2, H3. auto.
Qed.

(* interface_table_after_apply: an (interface, address) pair the table names is held afterwards
   iff the last matching selection enables its entry; pairs the table does not name are untouched *)
Theorem interface_table_after_apply now d tbl idx a :
  let d' := fst (apply_intf_selections now d tbl) in
  held (d_intfs d') idx a =
  match find (fun e => key_is e idx a) (rev tbl) with
  | Some e => last_match (d_sels d) e
  | None => held (d_intfs d) idx a
  end
  /\ d_sels d' = d_sels d.
Proof.
  cbv zeta. unfold apply_intf_selections. rewrite apply_marks_last_match.
  pose proof (apply_fold_intfs now (last_match (d_sels d)) tbl (d, [])) as H. cbv zeta in H. simpl in H.
  destruct H as (H1 & H2 & _). rewrite H1, H2. split; [apply held_apply_tbl|reflexivity].
Qed.

(* ---- check_ip_changes -------------------------------------------------------------------------------- *)

Lemma intf_get_map g l idx : (forall m, mi_index (g m) = mi_index m) ->
  intf_get idx (map g l) = option_map g (intf_get idx l).
Proof.
  intros Hg. induction l as [|m l IH]; simpl; [reflexivity|].
  rewrite Hg. destruct (mi_index m =? idx); [reflexivity|exact IH].
Qed.

Lemma has_ifaddr_filter a p l : has_ifaddr a (filter p l) = has_ifaddr a l && p a.
Proof.
  unfold has_ifaddr. induction l as [|x l IH]; simpl; [reflexivity|].
  destruct (p x) eqn:Ep; simpl.
  - rewrite IH. destruct (ifaddr_eqb a x) eqn:E; simpl; [|reflexivity].
    apply ifaddr_eqb_eq in E. subst x. rewrite Ep. reflexivity.
  - rewrite IH. destruct (ifaddr_eqb a x) eqn:E; simpl; [|reflexivity].
    apply ifaddr_eqb_eq in E. subst x. rewrite Ep, andb_false_r. reflexivity.
Qed.

Definition frame (d d' : dstate) : Prop :=
  d_intfs d' = d_intfs d /\ d_sels d' = d_sels d /\ d_os d' = d_os d.

Lemma frame_refl d : frame d d. Proof. unfold frame. auto. Qed.
Lemma frame_trans a b c : frame a b -> frame b c -> frame a c.
Proof. unfold frame. intros (A1 & A2 & A3) (B1 & B2 & B3). rewrite B1, B2, B3. auto. Qed.

Lemma resolve_updated_frame d updated : frame d (fst (resolve_updated d updated)).
Proof.
  unfold resolve_updated.
  destruct (fold_left _ _ ([], [], [])) as [[nr nl] out]. unfold frame. simpl. auto.
Qed.

Lemma held_remove l i idx a : held (intf_remove i l) idx a = true -> held l idx a = true.
Proof. unfold held. rewrite intf_get_remove. destruct (idx =? i); [discriminate|auto]. Qed.

Lemma existsb_find_rev {A} (p : A -> bool) l :
  existsb p l = match find p (rev l) with Some _ => true | None => false end.
Proof.
  induction l as [|x l IH]; simpl; [reflexivity|].
  rewrite find_app. simpl. rewrite IH.
  destruct (find p (rev l)); [apply orb_true_r|]. destruct (p x); reflexivity.
Qed.

Lemma os_has_find tbl idx a :
  os_has tbl idx a = match find (fun e => key_is e idx a) (rev tbl) with Some _ => true | None => false end.
Proof.
  unfold os_has. rewrite <- existsb_find_rev. unfold key_is.
  induction tbl as [|e l IH]; simpl; [reflexivity|].
  rewrite IH, (ifaddr_eqb_sym (i_addr e) a). reflexivity.
Qed.

(* interface_table_after_check: after an IP check the daemon holds exactly the (interface,
   address) pairs of the OS table whose last matching selection enables them - whatever it held
   before, and whenever the selections were made (also before the interface existed) *)
Theorem interface_table_after_check now d idx a :
  let d' := fst (check_ip_changes now d) in
  held (d_intfs d') idx a =
  match find (fun e => key_is e idx a) (rev (d_os d)) with
  | Some e => last_match (d_sels d) e
  | None => false
  end
  /\ d_sels d' = d_sels d /\ d_os d' = d_os d.
Proof.
  cbv zeta. unfold check_ip_changes.
  set (tbl := d_os d).
  set (kept := map _ (d_intfs d)).
  set (deleted_ips := filter _ (flat_map _ (d_intfs d))).
  set (deleted_intfs := filter _ kept).
  set (d1 := set_intfs kept (d_regs d) d).
  set (d2 := fold_left _ deleted_ips d1).
  (* d2: only the services changed *)
  assert (F2 : frame d1 d2).
  { subst d2. generalize d1. induction deleted_ips as [|x l IH]; intros st; simpl; [apply frame_refl|].
    eapply frame_trans; [|apply IH]. unfold frame, map_svcs, upd_svcs. simpl. auto. }
  (* d3: interfaces without addresses are removed *)
  match goal with |- context [fold_left ?f deleted_intfs (d2, [])] => set (step := f) end.
  pose (P := fun d0 d0' : dstate =>
               d_sels d0' = d_sels d0 /\ d_os d0' = d_os d0 /\
               (held (d_intfs d0') idx a = true -> held (d_intfs d0) idx a = true)).
  assert (Pstep : forall acc m, P (fst acc) (fst (step acc m))).
  { intros [st out] m. subst step. cbv beta iota. simpl fst.
    match goal with |- context [resolve_updated ?st2 ?u] =>
      pose proof (resolve_updated_frame st2 u) as Hr; destruct (resolve_updated st2 u) as [st3 ev2] end.
    simpl in Hr. destruct Hr as (R1 & R2 & R3). simpl in R1, R2, R3. simpl fst.
    unfold P. rewrite R1, R2, R3. simpl. repeat split; auto. apply held_remove. }
  assert (F3 : forall l acc, P (fst acc) (fst (fold_left step l acc))).
  { induction l as [|m l IH]; intros acc; simpl.
    - unfold P. auto.
    - specialize (IH (step acc m)). specialize (Pstep acc m). unfold P in *.
      destruct IH as (I1 & I2 & I3), Pstep as (Q1 & Q2 & Q3).
      rewrite I1, I2, Q1, Q2. repeat split; auto. }
  specialize (F3 deleted_intfs (d2, [])). unfold P in F3. simpl in F3.
  destruct (fold_left step deleted_intfs (d2, [])) as [d3 ev_cache] eqn:E3. simpl in F3.
  destruct F3 as (S3 & O3 & H3).
  pose proof (interface_table_after_apply now d3 tbl idx a) as Ha. cbv zeta in Ha.
  destruct (apply_intf_selections now d3 tbl) as [d4 ev_apply] eqn:E4. simpl in Ha. simpl.
  destruct Ha as (Ha & Hs).
  destruct F2 as (F21 & F22 & F23).
  assert (Hsel : d_sels d3 = d_sels d) by (rewrite S3, F22; reflexivity).
  assert (Hos : d_os d3 = d_os d) by (rewrite O3, F23; reflexivity).
  pose proof (apply_fold_intfs now (last_match (d_sels d3)) tbl (d3, [])) as Hf. cbv zeta in Hf. simpl in Hf.
  split; [|split].
  - rewrite Ha, Hsel. fold tbl.
    destruct (find (fun e => key_is e idx a) (rev tbl)) eqn:Ef; [reflexivity|].
    (* not named by the OS table: it was dropped before *)
    destruct (held (d_intfs d3) idx a) eqn:Eh; [|reflexivity].
    exfalso. specialize (H3 eq_refl). rewrite F21 in H3. unfold d1 in H3. simpl in H3.
    unfold held in H3. subst kept. rewrite intf_get_map in H3 by reflexivity.
    destruct (intf_get idx (d_intfs d)) as [m|] eqn:Eg; simpl in H3; [|discriminate].
    rewrite has_ifaddr_filter in H3. apply andb_true_iff in H3 as [_ H3].
    rewrite (intf_get_index _ _ _ Eg) in H3. rewrite os_has_find, Ef in H3. discriminate.
  - rewrite Hs. exact Hsel.
  - unfold apply_intf_selections in E4. rewrite apply_marks_last_match in E4.
    destruct Hf as (_ & _ & Hf3). rewrite E4 in Hf3. simpl in Hf3. rewrite Hf3. exact Hos.
Qed.

(* ---- what the packets the daemon sends on its own carry ---------------------------------------------- *)

Lemma in_intf_addrs_of v4 s intf a :
  In a (intf_addrs_of v4 s intf) ->
  In a (s_addrs s) /\ is_v4 a = v4 /\ exists x, In x (mi_addrs intf) /\ valid_ip_on_intf a x = true.
Proof.
  unfold intf_addrs_of. destruct v4; intros H.
  - apply addrs_on_intf_v4_spec in H. tauto.
  - apply addrs_on_intf_v6_spec in H. tauto.
Qed.

(* only_on_matching_subnet for announcements: an announcement leaves on an interface only with
   address records, all of them addresses of the service that lie in a subnet of an address of
   that interface and have the family of the socket *)
Theorem announcement_carries_link_addresses s intf v4 p :
  announce_on s intf v4 = Some p ->
  intf_addrs_of v4 s intf <> [] /\
  forall r o, In r (p_answers p) -> r_data r = RAddr o ->
    exists a x, In a (s_addrs s) /\ o = ip_octets a /\ is_v4 a = v4 /\
                In x (mi_addrs intf) /\ valid_ip_on_intf a x = true.
Proof.
  unfold announce_on. destruct (is_nil (intf_addrs_of v4 s intf)) eqn:En; [discriminate|].
  destruct (family_enabled intf v4); [|discriminate]. intros H. inversion H; subst p; clear H. simpl.
  split; [intros E; rewrite E in En; discriminate|].
  intros r o Hin Hd. unfold announce_records in Hin.
  simpl in Hin. destruct Hin as [<-|Hin]; [discriminate|].
  apply in_app_or in Hin as [Hin|Hin].
  { destruct (s_sub s); [destruct Hin as [<-|[]]; discriminate|destruct Hin]. }
  destruct Hin as [<-|[<-|Hin]]; try discriminate.
  apply in_map_iff in Hin as [a [<- Ha]]. simpl in Hd. inversion Hd; subst o.
  apply in_intf_addrs_of in Ha as (H1 & H2 & x & H3 & H4). exists a, x. auto.
Qed.

Theorem goodbye_carries_link_addresses s intf v4 p :
  goodbye_on s intf v4 = Some p ->
  forall r o, In r (p_answers p) -> r_data r = RAddr o ->
    exists a x, In a (s_addrs s) /\ o = ip_octets a /\ is_v4 a = v4 /\
                In x (mi_addrs intf) /\ valid_ip_on_intf a x = true.
Proof.
  unfold goodbye_on. destruct (announce_on s intf v4) as [q|] eqn:Ea; [|discriminate].
  intros H. inversion H; subst p; clear H. simpl. intros r o Hin Hd.
  apply in_map_iff in Hin as [r0 [<- Hin]]. simpl in Hd.
  eapply (proj2 (announcement_carries_link_addresses _ _ _ _ Ea)); eassumption.
Qed.
