(* C05, safety, second half: no ServiceResolved after a ServiceRemoved of the same instance on the
   same channel unless a record of the instance (or of its host) was delivered in between -
   the checker's F05_again never fires on the model's trace, outside the classes of safe_class
   and for histories whose browse calls use increasing channel numbers.

   The invariant (DI) ties the checker's "dead" list to the model state: for every dead entry
   (channel, instance, iteration j) and the type browsed on that channel, either a relevant
   delivery with index >= j is in the log, or the instance is not strongly alive in the cache.
   Liveness only decreases without a relevant delivery (alive_shrinks, alive_later, aou_frame);
   what the daemon reports resolved is strongly alive (valid_alive). *)
From Coq Require Import List NArith Bool Lia.
From Mdns Require Import Res Bytes Rec Wire Txt ParamsBrowser ParamsBrowserPinned Cache Browser C03Spec BrowserSpec
  BrowserKnown CacheProofs CacheInvProofs BrowserProofs BrowserStepProofs SpecTrackProofs C05SafetyProofs
  C04StepProofs AouCasesProofs C04OrderProofs.
Import ListNotations.
Open Scope N_scope.

(* ---- strong liveness, unfolded ------------------------------------------------------------------------ *)

Lemma alive_elim c now ty inst :
  alive_strong c now ty inst = true ->
  exists pb p sb e ab a,
    bm_get ty (c_ptr c) = Some pb /\ In p pb /\ alias_of (e_rr p) = inst /\ expires_soon p now = false
    /\ bm_get inst (c_srv c) = Some sb /\ In e sb /\ expires_soon e now = false /\ srv_host e <> []
    /\ bm_get (lower (srv_host e)) (c_addr c) = Some ab /\ In a ab /\ expires_soon a now = false.
Proof.
  unfold alive_strong. intros H. apply andb_true_iff in H as [Hp Hs].
  apply existsb_exists in Hp as [p [Hp Hps]]. apply negb_true_iff in Hps.
  unfold ptr_entries in Hp. destruct (bm_get ty (c_ptr c)) as [pb|] eqn:Epb; [|destruct Hp].
  apply filter_In in Hp as [Hp Hal]. apply beq_eq in Hal.
  apply existsb_exists in Hs as [e [He Hc]].
  apply andb_true_iff in Hc as [Hc Ha]. apply andb_true_iff in Hc as [Hes Hh].
  apply negb_true_iff in Hes. apply negb_true_iff in Hh.
  unfold srv_entries in He. destruct (bm_get inst (c_srv c)) as [sb|] eqn:Esb; [|destruct He].
  apply existsb_exists in Ha as [a [Ha Has]]. apply negb_true_iff in Has.
  unfold addr_entries, get_addr in Ha. destruct (bm_get (lower (srv_host e)) (c_addr c)) as [ab|] eqn:Eab; [|destruct Ha].
  exists pb, p, sb, e, ab, a. repeat split; auto.
  intros E. rewrite E in Hh. discriminate.
Qed.

Lemma alive_intro c now ty inst pb p sb e ab a :
  bm_get ty (c_ptr c) = Some pb -> In p pb -> alias_of (e_rr p) = inst -> expires_soon p now = false ->
  bm_get inst (c_srv c) = Some sb -> In e sb -> expires_soon e now = false -> srv_host e <> [] ->
  bm_get (lower (srv_host e)) (c_addr c) = Some ab -> In a ab -> expires_soon a now = false ->
  alive_strong c now ty inst = true.
Proof.
  intros Epb Hp Hal Hps Esb He Hes Hh Eab Ha Has. unfold alive_strong. apply andb_true_iff. split.
  - apply existsb_exists. exists p. split; [|now rewrite Hps].
    unfold ptr_entries. rewrite Epb. apply filter_In. split; [exact Hp|]. rewrite Hal. apply beq_refl.
  - apply existsb_exists. exists e. split; [unfold srv_entries; now rewrite Esb|].
    rewrite Hes. simpl.
    assert (Hn : negb (is_nil (srv_host e)) = true) by (destruct (srv_host e); [congruence|reflexivity]).
    rewrite Hn. simpl.
    apply existsb_exists. exists a. split; [unfold addr_entries, get_addr; now rewrite Eab|now rewrite Has].
Qed.

Lemma eshr_soon e e' now : eshr e e' -> expires_soon e' now = false -> expires_soon e now = false.
Proof. intros (_ & _ & _ & H) Hs. apply expires_soon_false in Hs. apply expires_soon_false. lia. Qed.

Lemma soon_later e now now' : now <= now' -> expires_soon e now' = false -> expires_soon e now = false.
Proof. intros H Hs. apply expires_soon_false in Hs. apply expires_soon_false. lia. Qed.

(* liveness only decreases when the cache shrinks ... *)
Lemma alive_shrinks L c c' now ty inst :
  Inv L c -> shrinks_to c c' -> alive_strong c' now ty inst = true -> alive_strong c now ty inst = true.
Proof.
  intros HI Hs Ha. apply alive_elim in Ha as (pb & p & sb & e & ab & a & Epb & Hp & Hal & Hps & Esb & He & Hes & Hh & Eab & Hin & Has).
  destruct (Hs KPtr ty pb p (bm_get_In _ _ _ Epb) Hp) as (pb0 & p0 & A1 & A2 & A3).
  destruct (Hs KSrv inst sb e (bm_get_In _ _ _ Esb) He) as (sb0 & e0 & B1 & B2 & B3).
  destruct (Hs KAddr _ ab a (bm_get_In _ _ _ Eab) Hin) as (ab0 & a0 & C1 & C2 & C3).
  assert (Ee : e_rr e = e_rr e0) by apply B3.
  assert (Ep : e_rr p = e_rr p0) by apply A3.
  apply (alive_intro c now ty inst pb0 p0 sb0 e0 ab0 a0).
  - apply In_bm_get; [apply (Inv_nodup L c KPtr HI)|exact A1].
  - exact A2.
  - now rewrite <- Ep.
  - eapply eshr_soon; eauto.
  - apply In_bm_get; [apply (Inv_nodup L c KSrv HI)|exact B1].
  - exact B2.
  - eapply eshr_soon; eauto.
  - unfold srv_host in *. now rewrite <- Ee.
  - unfold srv_host in *. rewrite <- Ee. apply In_bm_get; [apply (Inv_nodup L c KAddr HI)|exact C1].
  - exact C2.
  - eapply eshr_soon; eauto.
Qed.

(* ... and as time goes by *)
Lemma alive_later c now now' ty inst :
  now <= now' -> alive_strong c now' ty inst = true -> alive_strong c now ty inst = true.
Proof.
  intros Hle Ha. apply alive_elim in Ha as (pb & p & sb & e & ab & a & Epb & Hp & Hal & Hps & Esb & He & Hes & Hh & Eab & Hin & Has).
  apply (alive_intro c now ty inst pb p sb e ab a); eauto using soon_later.
Qed.

(* what resolve_service_from_cache finds valid is strongly alive *)
Lemma dedup_pairs_nil l : forall seen, dedup_pairs l seen <> [] -> l <> [].
Proof. destruct l; intros seen H; [simpl in H; congruence|discriminate]. Qed.

Lemma valid_alive c now ty inst pb p :
  bm_get ty (c_ptr c) = Some pb -> In p pb -> alias_of (e_rr p) = inst -> expires_soon p now = false ->
  is_valid (resolve_from_cache c now ty inst) = true ->
  alive_strong c now ty inst = true
  /\ exists sb e, bm_get inst (c_srv c) = Some sb /\ In e sb
                  /\ srv_host e = rs_host (resolve_from_cache c now ty inst)
                  /\ rs_host (resolve_from_cache c now ty inst) <> [].
Proof.
  intros Epb Hp Hal Hps Hv. unfold is_valid in Hv. apply negb_true_iff in Hv.
  apply orb_false_iff in Hv as [Hv Haddrs]. apply orb_false_iff in Hv as [_ Hhost].
  unfold resolve_from_cache in *. cbn [rs_host rs_addrs] in *.
  destruct (bm_get inst (c_srv c)) as [sb|] eqn:Esb; [|discriminate].
  destruct (find (fun e => negb (expires_soon e now)) sb) as [e|] eqn:Ef; [|discriminate].
  apply find_some in Ef as [He Hes]. apply negb_true_iff in Hes.
  assert (Hh : srv_host e <> []) by (intros E; rewrite E in Hhost; discriminate).
  destruct (get_addr c (srv_host e)) as [ab|] eqn:Eab; [|discriminate].
  assert (Hne : filter (fun e0 => negb (expires_soon e0 now)) ab <> []).
  { intros E. rewrite E in Haddrs. discriminate. }
  destruct (filter (fun e0 => negb (expires_soon e0 now)) ab) as [|a rest] eqn:Efl; [congruence|].
  assert (Ha : In a (filter (fun e0 => negb (expires_soon e0 now)) ab)) by (rewrite Efl; now left).
  apply filter_In in Ha as [Ha Has]. apply negb_true_iff in Has.
  split.
  - apply (alive_intro c now ty inst pb p sb e ab a); auto.
  - exists sb, e. auto.
Qed.

(* ---- deliveries that do not concern the instance leave its liveness alone ---------------------------- *)

(* in cases (B) and (C) of aou_cases the new entry carries the incoming record *)
Lemma aou_new_rr c now ifx r fu k key b' e' :
  In (key, b') (get_map (fst (add_or_update c now ifx r fu)) k) -> In e' b' ->
  (exists b e, In (key, b) (get_map c k) /\ In e b /\ eshr e e')
  \/ (kind_of_type (r_type r) = Some k /\ key = key_of k (r_name r)
      /\ r_name (e_rr e') = r_name r /\ r_type (e_rr e') = r_type r /\ r_data (e_rr e') = r_data r).
Proof.
  intros Hb He. destruct (aou_cases c now ifx r fu k key b' e' Hb He) as [H|(Hk & Hkey & [[-> _]|H])]; [now left| |].
  - right. repeat split; auto.
  - right. destruct H as (b & e & _ & _ & Hm & -> & _). split; [exact Hk|]. split; [exact Hkey|].
    unfold entry_matches in Hm. apply rr_matches_spec in Hm as (M1 & M2 & _ & _ & M5 & _).
    destruct (fl_eshr r ifx now e) as (S1 & _). unfold reset_ttl, set_ttl. simpl. rewrite S1. auto.
Qed.

Section Again.
  Variable Lf : list dlv.
  Hypothesis Hvar : known_ptr_variant Lf = false.
  Hypothesis Htgt : known_srv_targets Lf = false.
  Hypothesis Hnames : ptr_names_ok Lf = true.

  (* relevance without knowing the host: an address record counts when some SRV record of the
     instance in the whole history names its owner *)
  Definition relevantL (inst : bytes) (d : dlv) : bool :=
    relevant inst [] d
    || (is_addr_type (r_type (dl_rr d))
        && existsb (fun d' => (r_type (dl_rr d') =? TY_SRV) && beq (r_name (dl_rr d')) inst
                              && beq (lower (r_name (dl_rr d))) (lower (rr_host (dl_rr d')))) Lf).

  Lemma aou_frame L c now ifx r fu now' ty inst :
    Inv L c -> incl L Lf -> relevantL inst (mkDlv now ifx r) = false ->
    alive_strong (fst (add_or_update c now ifx r fu)) now' ty inst = true ->
    alive_strong c now' ty inst = true.
  Proof.
    intros HI Hsub Hrel Ha.
    apply orb_false_iff in Hrel as [Hr1 Hr2]. unfold relevant in Hr1. cbn [dl_rr] in *.
    apply orb_false_iff in Hr1 as [Hr1 _]. apply orb_false_iff in Hr1 as [Hrp Hrs].
    apply alive_elim in Ha as (pb & p & sb & e & ab & a & Epb & Hp & Hal & Hps & Esb & He & Hes & Hh & Eab & Hin & Has).
    set (c' := fst (add_or_update c now ifx r fu)) in *.
    (* the PTR entry *)
    destruct (aou_new_rr c now ifx r fu KPtr ty pb p (bm_get_In _ _ _ Epb) Hp) as [(pb0 & p0 & A1 & A2 & A3)|(Hk & _ & _ & _ & Hd)].
    2:{ exfalso. apply kind_of_type_ptr in Hk. rewrite Hk, N.eqb_refl in Hrp. simpl in Hrp.
        unfold alias_of in Hal, Hrp. rewrite Hd in Hal. rewrite Hal, beq_refl in Hrp. discriminate. }
    (* the SRV entry *)
    destruct (aou_new_rr c now ifx r fu KSrv inst sb e (bm_get_In _ _ _ Esb) He) as [(sb0 & e0 & B1 & B2 & B3)|(Hk & Hkey & _)].
    2:{ exfalso. apply kind_of_type_srv in Hk. simpl in Hkey. rewrite Hk, <- Hkey, beq_refl in Hrs.
        rewrite N.eqb_refl in Hrs. simpl in Hrs. discriminate. }
    assert (Ee : e_rr e = e_rr e0) by apply B3.
    (* the address entry *)
    destruct (aou_new_rr c now ifx r fu KAddr _ ab a (bm_get_In _ _ _ Eab) Hin) as [(ab0 & a0 & C1 & C2 & C3)|(Hk & Hkey & _)].
    2:{ exfalso. apply kind_of_type_addr in Hk. rewrite Hk in Hr2. simpl in Hr2, Hkey.
        destruct (entry_delivery Lf L c HI Hsub KSrv inst sb0 e0 B1 B2) as (d0 & Hd0 & Hrr & Hk0 & Hkey0).
        apply kind_of_type_srv in Hk0.
        pose proof (existsb_false_forall _ _ Hr2 d0 Hd0) as Hx. cbv beta in Hx.
        unfold e_type, e_name in *. simpl in Hkey0.
        rewrite Hrr, Hk0, N.eqb_refl, <- Hkey0, beq_refl in Hx. simpl in Hx.
        unfold srv_host in Hkey. rewrite Ee in Hkey. rewrite <- Hkey, beq_refl in Hx. discriminate. }
    assert (Ep : e_rr p = e_rr p0) by apply A3.
    apply (alive_intro c now' ty inst pb0 p0 sb0 e0 ab0 a0).
    - apply In_bm_get; [apply (Inv_nodup L c KPtr HI)|exact A1].
    - exact A2.
    - now rewrite <- Ep.
    - eapply eshr_soon; eauto.
    - apply In_bm_get; [apply (Inv_nodup L c KSrv HI)|exact B1].
    - exact B2.
    - eapply eshr_soon; eauto.
    - unfold srv_host in *. now rewrite <- Ee.
    - unfold srv_host in *. rewrite <- Ee. apply In_bm_get; [apply (Inv_nodup L c KAddr HI)|exact C1].
    - exact C2.
    - eapply eshr_soon; eauto.
  Qed.

  (* ---- the checker's dead list, abstractly --------------------------------------------------------------- *)
  Variable k : N.                       (* index of the iteration *)
  Variable log : list (N * dlv).        (* the checker's log, including all deliveries of iteration k *)

  Definition dlist := list (N * (bytes * N)).

  Definition dead_step (D : dlist) (x : out) : dlist :=
    match x with
    | OEvt ch (ERemoved _ i) => D ++ [(ch, (i, k))]
    | OEvt ch (EResolved r) => filter (fun y => negb (dead_is ch (rs_name r) y)) D
    | _ => D
    end.

  Definition deads (D : dlist) (o : list out) : dlist := fold_left dead_step o D.

  Definition res_ok (D : dlist) (ch : N) (r : resolved) : Prop :=
    forall y, In y D -> dead_is ch (rs_name r) y = true ->
      exists jd, In jd log /\ snd (snd y) <= fst jd /\ relevant (rs_name r) (rs_host r) (snd jd) = true.

  Fixpoint again_ok (D : dlist) (o : list out) : Prop :=
    match o with
    | [] => True
    | x :: t => match x with OEvt ch (EResolved r) => res_ok D ch r | _ => True end /\ again_ok (dead_step D x) t
    end.

  Lemma deads_app D a b : deads D (a ++ b) = deads (deads D a) b.
  Proof. unfold deads. apply fold_left_app. Qed.

  Lemma again_ok_app : forall a D b, again_ok D a -> again_ok (deads D a) b -> again_ok D (a ++ b).
  Proof. induction a as [|x t IH]; intros D b Ha Hb; simpl in *; [exact Hb|]. destruct Ha as [H1 H2]. split; auto. Qed.

  (* the invariant *)
  Definition DI (c : cache) (q : list (bytes * N)) (now : N) (D : dlist) : Prop :=
    forall ch inst j ty, In (ch, (inst, j)) D -> q_get ty q = Some ch ->
      alive_strong c now ty inst = false
      \/ exists jd, In jd log /\ j <= fst jd /\ relevantL inst (snd jd) = true.

  Definition side (q : list (bytes * N)) (D : dlist) (m : N) : Prop :=
    NoDup (map snd q) /\ (forall tc, In tc q -> snd tc <= m)
    /\ (forall y, In y D -> fst y <= m /\ snd (snd y) <= k).

  Lemma DI_incl c q now D D' : incl D' D -> DI c q now D -> DI c q now D'.
  Proof. intros Hi H ch inst j ty Hin Hq. apply (H ch inst j ty (Hi _ Hin) Hq). Qed.

  Lemma side_incl q D D' m : incl D' D -> side q D m -> side q D' m.
  Proof. intros Hi (A & B & C). split; [exact A|]. split; [exact B|]. intros y Hy. apply C, Hi, Hy. Qed.

  Lemma DI_shrink L c c' q now D : Inv L c -> shrinks_to c c' -> DI c q now D -> DI c' q now D.
  Proof.
    intros HI Hs H ch inst j ty Hin Hq. destruct (H ch inst j ty Hin Hq) as [Hb|Ha]; [left|now right].
    destruct (alive_strong c' now ty inst) eqn:E; [|reflexivity].
    rewrite (alive_shrinks L c c' now ty inst HI Hs E) in Hb. discriminate.
  Qed.

  Lemma DI_aou L c now ifx r fu q D m :
    Inv L c -> incl L Lf -> In (k, mkDlv now ifx r) log -> side q D m ->
    DI c q now D -> DI (fst (add_or_update c now ifx r fu)) q now D.
  Proof.
    intros HI Hsub Hlog (_ & _ & HD) H ch inst j ty Hin Hq.
    destruct (relevantL inst (mkDlv now ifx r)) eqn:Er.
    - right. exists (k, mkDlv now ifx r). split; [exact Hlog|]. split; [|exact Er]. apply (HD _ Hin).
    - destruct (H ch inst j ty Hin Hq) as [Hb|Ha]; [left|now right].
      destruct (alive_strong (fst (add_or_update c now ifx r fu)) now ty inst) eqn:E; [|reflexivity].
      rewrite (aou_frame L c now ifx r fu now ty inst HI Hsub Er E) in Hb. discriminate.
  Qed.

  (* ---- events emitted while cache and queriers stand still ---------------------------------------------------- *)
  Definition evt_ok (c : cache) (q : list (bytes * N)) (now : N) (x : out) : Prop :=
    match x with
    | OEvt ch (EResolved r) =>
      exists ty, q_get ty q = Some ch /\ alive_strong c now ty (rs_name r) = true
                 /\ exists sb e, bm_get (rs_name r) (c_srv c) = Some sb /\ In e sb
                                 /\ srv_host e = rs_host r /\ rs_host r <> []
    | OEvt ch (ERemoved ty i) => In (ty, ch) q /\ alive_strong c now ty i = false
    | _ => True
    end.

  Lemma nodup_snd_inj (q : list (bytes * N)) a b ch : NoDup (map snd q) -> In (a, ch) q -> In (b, ch) q -> a = b.
  Proof.
    induction q as [|[t c0] rest IH]; simpl; [tauto|]. intros ND. inversion ND as [|x l Hn ND']; subst.
    intros [H1|H1] [H2|H2].
    - congruence.
    - inversion H1; subst. exfalso. apply Hn. apply in_map_iff. exists (b, ch). auto.
    - inversion H2; subst. exfalso. apply Hn. apply in_map_iff. exists (a, ch). auto.
    - auto.
  Qed.

  Lemma relevantL_host L c inst sb e d :
    Inv L c -> incl L Lf -> bm_get inst (c_srv c) = Some sb -> In e sb -> srv_host e <> [] ->
    relevantL inst d = true -> relevant inst (srv_host e) d = true.
  Proof.
    intros HI Hsub Esb He Hh Hr. unfold relevantL in Hr. apply orb_true_iff in Hr as [Hr|Hr].
    - unfold relevant in *. apply orb_true_iff in Hr as [Hr|Hr]; [now rewrite Hr|].
      simpl in Hr. rewrite andb_false_r in Hr. discriminate.
    - apply andb_true_iff in Hr as [Hat Hex]. apply existsb_exists in Hex as [d' [Hd' Hc]].
      apply andb_true_iff in Hc as [Hc Hlow]. apply andb_true_iff in Hc as [Hty Hname].
      apply N.eqb_eq in Hty. apply beq_eq in Hname. apply beq_eq in Hlow.
      destruct (entry_delivery Lf L c HI Hsub KSrv inst sb e (bm_get_In _ _ _ Esb) He) as (d0 & Hd0 & Hrr & Hk0 & Hkey0).
      apply kind_of_type_srv in Hk0. unfold e_type, e_name in *. simpl in Hkey0.
      pose proof (existsb_false_forall _ _ (existsb_false_forall _ _ Htgt d0 Hd0) d' Hd') as Hv.
      unfold srv_tgt in Hv. rewrite Hrr, Hk0, Hty, <- Hkey0, Hname in Hv.
      rewrite !N.eqb_refl, !beq_refl in Hv. simpl in Hv. apply negb_false_iff in Hv. apply beq_eq in Hv.
      unfold relevant. rewrite Hat. apply orb_true_iff. right.
      assert (Hn : negb (is_nil (srv_host e)) = true) by (destruct (srv_host e); [congruence|reflexivity]).
      rewrite Hn. simpl. unfold srv_host. rewrite Hlow, <- Hv. apply beq_refl.
  Qed.

  Lemma dead_is_true ch inst y : dead_is ch inst y = true -> y = (ch, (inst, snd (snd y))).
  Proof.
    destruct y as [c0 [i j]]. unfold dead_is. simpl. intros H. apply andb_true_iff in H as [A B].
    apply N.eqb_eq in A. apply beq_eq in B. now subst.
  Qed.

  Lemma events_step L c q now m : forall o D,
    Inv L c -> incl L Lf -> side q D m -> DI c q now D -> Forall (evt_ok c q now) o ->
    again_ok D o /\ DI c q now (deads D o) /\ side q (deads D o) m.
  Proof.
    induction o as [|x t IH]; intros D HI Hsub Hside HD Ho; simpl; [auto|].
    inversion Ho as [|x0 t0 Hx Ht]; subst.
    assert (Hstep : match x with OEvt ch (EResolved r) => res_ok D ch r | _ => True end
                    /\ DI c q now (dead_step D x) /\ side q (dead_step D x) m).
    { destruct x as [ch [ty i|r|ty i]|qs|ch l]; simpl; auto.
      - (* resolved *)
        destruct Hx as (ty & Hq & Hal & sb & e & Esb & He & Hhost & Hne).
        split.
        + intros y Hy Hdi. apply dead_is_true in Hdi. rewrite Hdi in Hy.
          destruct (HD ch (rs_name r) (snd (snd y)) ty Hy Hq) as [Hb|(jd & A & B & C)]; [congruence|].
          exists jd. split; [exact A|]. split; [exact B|]. rewrite <- Hhost.
          apply (relevantL_host L c (rs_name r) sb e (snd jd) HI Hsub Esb He); [now rewrite Hhost|exact C].
        + assert (Hi : incl (filter (fun y => negb (dead_is ch (rs_name r) y)) D) D)
            by (intros y Hy; apply filter_In in Hy; tauto).
          split; [eapply DI_incl; eauto|eapply side_incl; eauto].
      - (* removed *)
        destruct Hx as [Hin Hal]. destruct Hside as (S1 & S2 & S3). split; [exact I|]. split.
        + intros ch' inst j ty' Hy Hq. apply in_app_iff in Hy as [Hy|[Hy|[]]]; [now apply (HD ch' inst j ty')|].
          inversion Hy; subst. left. apply q_get_In in Hq.
          now rewrite (nodup_snd_inj q ty' ty ch' S1 Hq Hin).
        + split; [exact S1|]. split; [exact S2|]. intros y Hy. apply in_app_iff in Hy as [Hy|[<-|[]]]; [now apply S3|].
          simpl. split; [apply (S2 _ Hin)|lia]. }
    destruct Hstep as (A & B & C). destruct (IH (dead_step D x) HI Hsub C B Ht) as (A2 & B2 & C2).
    split; [split; assumption|]. split; assumption.
  Qed.

  Definition silent5 (x : out) : Prop :=
    match x with OEvt _ (EResolved _) => False | OEvt _ (ERemoved _ _) => False | _ => True end.

  Lemma silent_deads : forall o D, Forall silent5 o -> again_ok D o /\ deads D o = D.
  Proof.
    induction o as [|x t IH]; intros D H; simpl; [auto|]. inversion H as [|x0 t0 Hx Ht]; subst.
    assert (E : dead_step D x = D) by (destruct x as [ch [ty i|r|ty i]|qs|ch l]; simpl in *; tauto).
    unfold deads in *. simpl. rewrite E. destruct (IH D Ht) as [A B]. split; [|exact B].
    split; [destruct x as [ch [ty i|r|ty i]|qs|ch l]; simpl in *; tauto|exact A].
  Qed.

  (* ---- sources of the events ------------------------------------------------------------------------------------ *)
  Lemma ru_ptrs_resolved_full c now ty ch updated : forall ptrs rset ch' r,
    In (OEvt ch' (EResolved r)) (fst (fst (fst (fst (ru_ptrs c now ty ch updated ptrs rset))))) ->
    ch' = ch /\ exists p, In p ptrs /\ expires_soon p now = false
                          /\ r = resolve_from_cache c now ty (alias_of (e_rr p)) /\ is_valid r = true.
  Proof.
    induction ptrs as [|p rest IH]; intros rset ch' r; simpl; [tauto|].
    destruct (negb (expires_soon p now) && mem (alias_of (e_rr p)) updated) eqn:Ec.
    2:{ intros H. destruct (IH rset ch' r H) as [A [q0 [B C]]]. split; [exact A|]. exists q0. tauto. }
    apply andb_true_iff in Ec as [Ec _]. apply negb_true_iff in Ec.
    destruct (is_valid (resolve_from_cache c now ty (alias_of (e_rr p)))) eqn:Ev.
    - specialize (IH rset ch' r). destruct (ru_ptrs c now ty ch updated rest rset) as [[[[o res] unres] rem] rset'].
      simpl in *. intros [H|H].
      + inversion H; subst. split; [reflexivity|]. exists p. auto.
      + destruct (IH H) as [A [q0 [B C]]]. split; [exact A|]. exists q0. tauto.
    - specialize (IH rset ch' r). destruct (ru_ptrs c now ty ch updated rest rset) as [[[[o res] unres] rem] rset'].
      simpl in *. intros H. destruct (IH H) as [A [q0 [B C]]]. split; [exact A|]. exists q0. tauto.
  Qed.

  Lemma ru_types_resolved_full c now q updated : forall ptr rset ch' r,
    In (OEvt ch' (EResolved r)) (fst (fst (fst (fst (ru_types c now q updated ptr rset))))) ->
    exists ty ptrs p, In (ty, ptrs) ptr /\ q_get ty q = Some ch' /\ In p ptrs /\ expires_soon p now = false
                      /\ r = resolve_from_cache c now ty (alias_of (e_rr p)) /\ is_valid r = true.
  Proof.
    induction ptr as [|[ty ptrs] rest IH]; intros rset ch' r; simpl; [tauto|].
    destruct (q_get ty q) as [ch|] eqn:Eq.
    2:{ intros H. destruct (IH rset ch' r H) as (t & ps & p & A & B). exists t, ps, p. tauto. }
    pose proof (ru_ptrs_resolved_full c now ty ch updated ptrs rset ch' r) as H1.
    destruct (ru_ptrs c now ty ch updated ptrs rset) as [[[[o1 res1] un1] rem1] rset1]. simpl in H1.
    specialize (IH rset1 ch' r).
    destruct (ru_types c now q updated rest rset1) as [[[[o2 res2] un2] rem2] rset2]. simpl in *.
    intros H. apply in_app_iff in H as [H|H].
    - destruct (H1 H) as [-> (p & A & B & C & D)]. exists ty, ptrs, p. tauto.
    - destruct (IH H) as (t & ps & p & A & B). exists t, ps, p. tauto.
  Qed.

  Lemma notify_removal_shape q ex x :
    In x (notify_removal q ex) -> exists ch t i, x = OEvt ch (ERemoved t i) /\ In (t, ch) q /\ In (t, i) ex.
  Proof.
    intros H. pose proof H as H0. unfold notify_removal in H. apply in_flat_map in H as [[ty c0] [Hq H]]. simpl in H.
    apply in_map_iff in H as [j [<- _]]. exists c0, ty, j. split; [reflexivity|]. split; [exact Hq|].
    apply (notify_removal_In q ex c0 ty j H0).
  Qed.

  Lemma qc_ptrs_shape c now ty ch : forall ptrs x,
    In x (fst (fst (qc_ptrs c now ty ch ptrs))) ->
    (exists i, x = OEvt ch (EFound ty i))
    \/ exists p, In p ptrs /\ expires_soon p now = false
                 /\ x = OEvt ch (EResolved (resolve_from_cache c now ty (alias_of (e_rr p))))
                 /\ is_valid (resolve_from_cache c now ty (alias_of (e_rr p))) = true.
  Proof.
    induction ptrs as [|p rest IH]; intros x; simpl; [tauto|].
    specialize (IH x). destruct (qc_ptrs c now ty ch rest) as [[o res] unres]. simpl in *.
    destruct (expires_soon p now) eqn:Es.
    - intros H. destruct (IH H) as [A|(p0 & A)]; [now left|right; exists p0; tauto].
    - destruct (is_valid (resolve_from_cache c now ty (alias_of (e_rr p)))) eqn:Ev; simpl.
      + intros [<-|[<-|H]]; [left; eauto|right; exists p; auto|].
        destruct (IH H) as [A|(p0 & A)]; [now left|right; exists p0; tauto].
      + intros [<-|H]; [left; eauto|]. destruct (IH H) as [A|(p0 & A)]; [now left|right; exists p0; tauto].
  Qed.

  (* ---- the phases of one iteration ------------------------------------------------------------------------------------ *)
  Variable now : N.
  Variable cur : list dlv.              (* the deliveries of this iteration *)
  Hypothesis Hcur_log : forall x, In x cur -> In (k, x) log.

  Definition good5 (L : list dlv) (s : st) (D : dlist) (m : N) : Prop :=
    Inv L (s_cache s) /\ times_le L now /\ incl L Lf /\ DI (s_cache s) (s_q s) now D /\ side (s_q s) D m.

  Definition step5 (D : dlist) (o : list out) (L' : list dlv) (s' : st) (m' : N) : Prop :=
    again_ok D o /\ good5 L' s' (deads D o) m'.

  Lemma step5_nil L s D m : good5 L s D m -> step5 D [] L s m.
  Proof. intros H. split; [exact I|exact H]. Qed.

  Lemma step5_app D o1 L1 s1 m1 o2 L2 s2 m2 :
    step5 D o1 L1 s1 m1 -> step5 (deads D o1) o2 L2 s2 m2 -> step5 D (o1 ++ o2) L2 s2 m2.
  Proof. intros [A B] [C E]. split; [now apply again_ok_app|]. now rewrite deads_app. Qed.

  Lemma still_step L s D m s' o :
    good5 L s D m -> s_cache s' = s_cache s -> s_q s' = s_q s ->
    Forall (evt_ok (s_cache s) (s_q s) now) o -> step5 D o L s' m.
  Proof.
    intros (HI & Ht & Hsub & HD & Hs) Ec Eq Ho.
    destruct (events_step L (s_cache s) (s_q s) now m o D HI Hsub Hs HD Ho) as (A & B & C).
    split; [exact A|]. unfold good5. rewrite Ec, Eq. auto.
  Qed.

  Lemma silent_shrink_step L s D m s' o :
    good5 L s D m -> Inv L (s_cache s') -> shrinks_to (s_cache s) (s_cache s') -> s_q s' = s_q s ->
    Forall silent5 o -> step5 D o L s' m.
  Proof.
    intros (HI & Ht & Hsub & HD & Hs) HI' Hsh Eq Ho. destruct (silent_deads o D Ho) as [A B].
    split; [exact A|]. rewrite B. unfold good5. rewrite Eq. split; [exact HI'|]. split; [exact Ht|]. split; [exact Hsub|].
    split; [|exact Hs]. apply (DI_shrink L (s_cache s) (s_cache s')); assumption.
  Qed.

  Lemma resolve_updated_evts L s updated :
    Inv L (s_cache s) -> incl L Lf ->
    Forall (evt_ok (s_cache s) (s_q s) now) (snd (resolve_updated s now updated)).
  Proof.
    intros HI Hsub. unfold resolve_updated. destruct updated as [|u us]; [constructor|].
    pose proof (ru_types_resolved_full (s_cache s) now (s_q s) (u :: us) (c_ptr (s_cache s)) (s_resolved s)) as Hsrc.
    pose proof (ru_types_only_resolved (s_cache s) now (s_q s) (u :: us) (c_ptr (s_cache s)) (s_resolved s)) as Hres.
    pose proof (ru_types_removed_ptr (s_cache s) now (s_q s) (u :: us) (c_ptr (s_cache s)) (s_resolved s)) as Hrem.
    destruct (ru_types (s_cache s) now (s_q s) (u :: us) (c_ptr (s_cache s)) (s_resolved s))
      as [[[[o res] unres] rem] rset]. cbn [fst snd] in *.
    apply Forall_forall. intros x Hx. apply in_app_iff in Hx as [Hx|Hx].
    - specialize (Hres x Hx). destruct x as [ch [ty i|r|ty i]|qs|ch l]; try contradiction.
      destruct (Hsrc ch r Hx) as (ty & ptrs & p & A & B & C & E & F & G).
      assert (Epb : bm_get ty (c_ptr (s_cache s)) = Some ptrs)
        by (apply In_bm_get; [apply (Inv_nodup L _ KPtr HI)|exact A]).
      subst r.
      destruct (valid_alive (s_cache s) now ty (alias_of (e_rr p)) ptrs p Epb C eq_refl E G) as [V1 V2].
      simpl. exists ty. split; [exact B|]. split; [exact V1|exact V2].
    - apply notify_removal_shape in Hx as (ch & t & i & -> & Hq & Hin). simpl. split; [exact Hq|].
      destruct (Hrem t i Hin) as (ptrs & p & A & B & C & E). rewrite <- C in *.
      apply (invalid_not_alive Lf Htgt Hnames L (s_cache s) HI Hsub now t ptrs p A B E).
  Qed.

  Lemma resolve_updated_step5 L s D m updated :
    good5 L s D m -> step5 D (snd (resolve_updated s now updated)) L (fst (resolve_updated s now updated)) m.
  Proof.
    intros Hg. pose proof Hg as (HI & Ht & Hsub & HD & Hs).
    destruct (resolve_updated_state s now updated) as [E1 E2].
    apply (still_step L s D m); auto. now apply (resolve_updated_evts L).
  Qed.

  Lemma hr_records_DI ifx q fu D m : forall rs L c,
    Inv L c -> incl L Lf -> (forall r, In r rs -> In (k, mkDlv now ifx r) log /\ In (mkDlv now ifx r) Lf) ->
    side q D m -> DI c q now D -> DI (fst (fst (hr_records c now ifx q fu rs))) q now D.
  Proof.
    induction rs as [|r rest IH]; intros L c HI Hsub Hlog Hs HD; simpl; [exact HD|].
    pose proof (add_or_update_inv L c now ifx r fu HI) as H1.
    pose proof (DI_aou L c now ifx r fu q D m HI Hsub (proj1 (Hlog r (or_introl eq_refl))) Hs HD) as H2.
    destruct (add_or_update c now ifx r fu) as [c1 res]. cbn [fst snd] in H1, H2.
    assert (Hsub1 : incl (L ++ [mkDlv now ifx r]) Lf).
    { intros x Hx. apply in_app_iff in Hx as [Hx|[<-|[]]]; [now apply Hsub|]. apply (Hlog r). now left. }
    specialize (IH (L ++ [mkDlv now ifx r]) c1 H1 Hsub1 (fun r0 H0 => Hlog r0 (or_intror H0)) Hs H2).
    destruct (hr_records c1 now ifx q fu rest) as [[c2 o2] ch2]. cbn [fst snd] in *.
    destruct res as [[e [|]]|]; simpl in *; try exact IH.
    destruct ((e_type e =? TY_PTR) && found_ttl_guard (e_ttl e)); simpl in *; [|exact IH].
    destruct (q_get (e_name e) q); simpl in *; exact IH.
  Qed.

  Lemma only_found_silent o : Forall only_found o -> Forall silent5 o.
  Proof.
    intros H. apply Forall_forall. intros x Hx. rewrite Forall_forall in H. specialize (H x Hx).
    destruct x as [ch [ty i|r|ty i]|qs|ch l]; simpl in *; tauto.
  Qed.

  Lemma handle_read_step5 ifs prev cp s d D m :
    good5 (prev ++ cp) s D m -> times_le prev now -> incl (dgram_dlvs ifs now d) cur -> incl cur Lf ->
    step5 D (snd (handle_read ifs s now d)) (prev ++ cp ++ dgram_dlvs ifs now d) (fst (handle_read ifs s now d)) m.
  Proof.
    intros (HI & Ht & Hsub & HD & Hs) Htp Hcur HcurLf.
    unfold handle_read, dgram_dlvs in *. destruct (accepted_msg ifs d) as [msg|].
    2:{ simpl. rewrite !app_nil_r. apply step5_nil. unfold good5. auto. }
    unfold handle_response. fold (msg_records msg).
    destruct (hr_records_spec now (d_if d) (s_q s) (for_us (s_q s) (m_answers msg)) (msg_records msg) _ _ HI) as [HI1 _].
    pose proof (hr_records_found_only now (d_if d) (s_q s) (for_us (s_q s) (m_answers msg)) (msg_records msg) (s_cache s)) as Ho1.
    assert (Hl : forall r, In r (msg_records msg) ->
                 In (k, mkDlv now (d_if d) r) log /\ In (mkDlv now (d_if d) r) Lf).
    { intros r Hr. assert (In (mkDlv now (d_if d) r) cur) by (apply Hcur, in_map, Hr). auto. }
    pose proof (hr_records_DI (d_if d) (s_q s) (for_us (s_q s) (m_answers msg)) D m (msg_records msg) _ _ HI Hsub Hl Hs HD) as HD1.
    destruct (hr_records (s_cache s) now (d_if d) (s_q s) (for_us (s_q s) (m_answers msg)) (msg_records msg))
      as [[c1 o1] changes]. cbn [fst snd] in *.
    assert (Ht1 : times_le ((prev ++ cp) ++ map (mkDlv now (d_if d)) (msg_records msg)) now).
    { intros x Hx. apply in_app_iff in Hx as [Hx|Hx]; [now apply Ht|].
      apply in_map_iff in Hx as [r [<- _]]. simpl. lia. }
    assert (Hsub1 : incl ((prev ++ cp) ++ map (mkDlv now (d_if d)) (msg_records msg)) Lf).
    { intros x Hx. apply in_app_iff in Hx as [Hx|Hx]; [now apply Hsub|]. apply HcurLf, Hcur, Hx. }
    destruct (silent_deads o1 D (only_found_silent _ Ho1)) as [Q1 Q2].
    assert (Hg1 : good5 ((prev ++ cp) ++ map (mkDlv now (d_if d)) (msg_records msg)) (with_cache s c1) (deads D o1) m).
    { rewrite Q2. unfold good5. simpl. auto. }
    pose proof (resolve_updated_step5 _ (with_cache s c1) _ m (updated_of c1 changes) Hg1) as Hst.
    destruct (resolve_updated (with_cache s c1) now (updated_of c1 changes)) as [s2 o2]. cbn [fst snd] in *.
    rewrite <- app_assoc in Hst.
    apply (step5_app D o1 ((prev ++ cp) ++ map (mkDlv now (d_if d)) (msg_records msg)) (with_cache s c1) m); [|exact Hst].
    split; [exact Q1|exact Hg1].
  Qed.

  Lemma reads_step5 ifs prev ds : forall cp s D m,
    good5 (prev ++ cp) s D m -> times_le prev now -> incl (flat_map (dgram_dlvs ifs now) ds) cur -> incl cur Lf ->
    step5 D (snd (run_cmds (handle_read ifs) s now ds)) (prev ++ cp ++ flat_map (dgram_dlvs ifs now) ds)
          (fst (run_cmds (handle_read ifs) s now ds)) m.
  Proof.
    induction ds as [|d rest IH]; intros cp s D m Hg Htp Hcur HcurLf; simpl.
    - rewrite !app_nil_r. now apply step5_nil.
    - simpl in Hcur.
      assert (Hc1 : incl (dgram_dlvs ifs now d) cur) by (intros x Hx; apply Hcur, in_app_iff; now left).
      assert (Hc2 : incl (flat_map (dgram_dlvs ifs now) rest) cur) by (intros x Hx; apply Hcur, in_app_iff; now right).
      pose proof (handle_read_step5 ifs prev cp s d D m Hg Htp Hc1 HcurLf) as H1.
      destruct (handle_read ifs s now d) as [s1 o1]. cbn [fst snd] in *.
      pose proof (IH (cp ++ dgram_dlvs ifs now d) s1 _ m (proj2 H1) Htp Hc2 HcurLf) as H2.
      destruct (run_cmds (handle_read ifs) s1 now rest) as [s2 o2]. cbn [fst snd] in *.
      rewrite <- app_assoc in H2. eapply step5_app; eauto.
  Qed.

  (* ---- commands ------------------------------------------------------------------------------------------------------ *)
  Lemma q_set_In ty ch q tc : In tc (q_set ty ch q) -> (In tc q \/ snd tc = ch).
  Proof.
    induction q as [|[t c] r IH]; simpl.
    - intros [<-|[]]. now right.
    - destruct (beq ty t); simpl; intros [<-|H]; auto. destruct (IH H); auto.
  Qed.

  Lemma q_set_nodup ty ch q : NoDup (map snd q) -> ~ In ch (map snd q) -> NoDup (map snd (q_set ty ch q)).
  Proof.
    induction q as [|[t c] r IH]; simpl; intros ND Hn.
    - constructor; [tauto|constructor].
    - inversion ND as [|x l Hx ND']; subst. destruct (beq ty t); simpl.
      + constructor; [tauto|exact ND'].
      + constructor.
        * intros Hin. apply in_map_iff in Hin as [tc [E Hin]]. apply q_set_In in Hin as [Hin|Hin].
          -- apply Hx. apply in_map_iff. exists tc. auto.
          -- apply Hn. left. congruence.
        * apply IH; [exact ND'|tauto].
  Qed.

  Lemma silent_queries (o : list out) : (forall x, In x o -> exists qs, x = OQuery qs) -> Forall silent5 o.
  Proof. intros H. apply Forall_forall. intros x Hx. destruct (H x Hx) as [qs ->]. exact I. Qed.

  Lemma exec_call_step5 L s D m cl m' :
    good5 L s D m -> call_fresh m cl = Some m' ->
    step5 D (snd (exec_call s now cl)) L (fst (exec_call s now cl)) m'.
  Proof.
    intros Hg Hfr. pose proof Hg as (HI & Ht & Hsub & HD & (S1 & S2 & S3)).
    destruct cl as [ty ch|ty|inst timeout|ch]; simpl in *.
    - (* browse: a fresh channel *)
      destruct (m <? ch) eqn:Em; [|discriminate]. inversion Hfr; subst m'. apply N.ltb_lt in Em.
      set (q' := q_set ty ch (s_q s)).
      assert (HD' : DI (s_cache s) q' now D).
      { intros ch0 inst j ty' Hin Hq. unfold q' in Hq. rewrite q_get_q_set in Hq.
        destruct (beq ty' ty); [|now apply (HD ch0 inst j ty')].
        inversion Hq; subst ch0. destruct (S3 _ Hin) as [Hle _]. simpl in Hle. lia. }
      assert (Hs' : side q' D ch).
      { split.
        - apply q_set_nodup; [exact S1|]. intros Hin. apply in_map_iff in Hin as [tc [E Hin]].
          specialize (S2 _ Hin). lia.
        - split.
          + intros tc Hin. apply q_set_In in Hin as [Hin|Hin]; [specialize (S2 _ Hin); lia|lia].
          + intros y Hy. destruct (S3 _ Hy). split; lia. }
      unfold exec_browse. fold q'.
      destruct (bm_get ty (c_ptr (s_cache s))) as [ptrs|] eqn:Eb.
      + pose proof (qc_ptrs_shape (s_cache s) now ty ch ptrs) as Hsh.
        destruct (qc_ptrs (s_cache s) now ty ch ptrs) as [[o res] unres]. cbn [fst snd] in *.
        assert (Ho : Forall (evt_ok (s_cache s) q' now) o).
        { apply Forall_forall. intros x Hx. destruct (Hsh x Hx) as [[i ->]|(p & A & B & -> & V)]; [exact I|].
          destruct (valid_alive (s_cache s) now ty (alias_of (e_rr p)) ptrs p Eb A eq_refl B V) as [V1 V2].
          simpl. exists ty. split; [|split; [exact V1|exact V2]].
          unfold q'. rewrite q_get_q_set, beq_refl. reflexivity. }
        destruct (events_step L (s_cache s) q' now ch o D HI Hsub Hs' HD' Ho) as (A & B & C).
        split; [exact A|]. unfold good5.
        rewrite fold_pending_cache, fold_mark_cache, fold_pending_q, fold_mark_q. cbn [s_cache s_q]. auto.
      + apply step5_nil. unfold good5. cbn [s_cache s_q]. auto.
    - (* stop *)
      inversion Hfr; subst m'. unfold exec_stop. destruct (q_get ty (s_q s)) eqn:Eq; [|now apply step5_nil].
      apply step5_nil.
      pose proof (cshr_remove_service_type L (s_cache s) ty HI) as Hs.
      unfold good5. cbn [s_cache s_q]. split; [eapply Inv_shr; eauto|]. split; [exact Ht|]. split; [exact Hsub|]. split.
      + apply (DI_shrink L (s_cache s)); [exact HI|now apply cshr_shrinks|].
        intros ch0 inst j ty' Hin Hq. apply q_get_q_remove in Hq. now apply (HD ch0 inst j ty').
      + split.
        * unfold q_remove. clear -S1. induction (s_q s) as [|[t c] r IH]; simpl; [constructor|].
          inversion S1 as [|x l Hx ND]; subst. destruct (negb (beq ty t)); simpl; [|now apply IH].
          constructor; [|now apply IH]. intros Hin. apply Hx. apply in_map_iff in Hin as [tc [E Hin]].
          apply filter_In in Hin as [Hin _]. apply in_map_iff. exists tc. auto.
        * split; [|exact S3]. intros tc Hin. apply filter_In in Hin as [Hin _]. now apply S2.
    - (* verify *)
      inversion Hfr; subst m'.
      unfold exec_verify. pose proof (cshr_verify L (s_cache s) inst (Some (now + timeout)) HI) as Hs.
      destruct (service_verify_queries (s_cache s) inst (Some (now + timeout))) as [c1 qs]. cbn [fst] in Hs.
      assert (H1 : Inv L c1) by (eapply Inv_shr; eauto).
      destruct qs as [|q0 qs]; cbn [fst snd].
      + apply (silent_shrink_step L s D m (with_cache s c1) []); auto using cshr_shrinks.
      + apply (silent_shrink_step L s D m); auto using cshr_shrinks. repeat constructor.
    - inversion Hfr; subst m'. apply (silent_shrink_step L s D m s); auto using shrinks_refl. repeat constructor.
  Qed.

  Lemma calls_step5 L : forall cls s D m m',
    good5 L s D m -> calls_fresh m cls = Some m' ->
    step5 D (snd (run_cmds exec_call s now cls)) L (fst (run_cmds exec_call s now cls)) m'.
  Proof.
    induction cls as [|cl rest IH]; intros s D m m' Hg Hfr; simpl in *.
    - inversion Hfr; subst. now apply step5_nil.
    - destruct (call_fresh m cl) as [m1|] eqn:E1; [|discriminate].
      pose proof (exec_call_step5 L s D m cl m1 Hg E1) as H1.
      destruct (exec_call s now cl) as [s1 o1]. cbn [fst snd] in *.
      pose proof (IH s1 _ m1 m' (proj2 H1) Hfr) as H2.
      destruct (run_cmds exec_call s1 now rest) as [s2 o2]. cbn [fst snd] in *.
      eapply step5_app; eauto.
  Qed.

  Lemma rcmd_step5 L s D m c : good5 L s D m -> step5 D (snd (exec_rcmd s now c)) L (fst (exec_rcmd s now c)) m.
  Proof.
    intros Hg. pose proof Hg as (HI & Ht & Hsub & HD & Hs). destruct c as [inst n|inst timeout]; simpl.
    - unfold exec_resolve.
      assert (Hq : Forall silent5 (snd (query_unresolved (s_cache s) inst))).
      { unfold query_unresolved. destruct (negb (valid_instance_name inst)); [constructor|].
        destruct (bm_get inst (c_srv (s_cache s))); [|constructor; [exact I|constructor]].
        match goal with |- context [find ?f ?l] => destruct (find f l) end;
          [constructor; [exact I|constructor]|constructor]. }
      assert (Hq2 : Forall silent5 (snd (if has_ptr_to (s_cache s) inst then query_unresolved (s_cache s) inst else (false, []))))
        by (destruct (has_ptr_to (s_cache s) inst); [exact Hq|constructor]).
      clear Hq. rename Hq2 into Hq.
      destruct (if has_ptr_to (s_cache s) inst then query_unresolved (s_cache s) inst else (false, [])) as [sent o]. cbn [snd] in Hq.
      destruct (sent && retry_guard n max_try); cbn [fst snd];
        apply (silent_shrink_step L s D m); auto using shrinks_refl.
    - unfold exec_verify. pose proof (cshr_verify L (s_cache s) inst None HI) as Hsh.
      destruct (service_verify_queries (s_cache s) inst None) as [c1 qs]. cbn [fst] in Hsh.
      assert (H1 : Inv L c1) by (eapply Inv_shr; eauto).
      destruct qs as [|q0 qs]; cbn [fst snd].
      + apply (silent_shrink_step L s D m (with_cache s c1) []); auto using cshr_shrinks.
      + apply (silent_shrink_step L s D m (with_cache s c1)); auto using cshr_shrinks. repeat constructor.
  Qed.

  Lemma rcmds_step5 L : forall l s D m,
    good5 L s D m -> step5 D (snd (run_cmds exec_rcmd s now l)) L (fst (run_cmds exec_rcmd s now l)) m.
  Proof.
    induction l as [|c rest IH]; intros s D m Hg; simpl.
    - now apply step5_nil.
    - pose proof (rcmd_step5 L s D m c Hg) as H1. destruct (exec_rcmd s now c) as [s1 o1]. cbn [fst snd] in *.
      pose proof (IH s1 _ m (proj2 H1)) as H2. destruct (run_cmds exec_rcmd s1 now rest) as [s2 o2]. cbn [fst snd] in *.
      eapply step5_app; eauto.
  Qed.

  Lemma refresh_all_silent q : forall c, Forall silent5 (snd (refresh_all c now q)).
  Proof.
    induction q as [|[ty ch] rest IH]; intros c; simpl; [constructor|].
    destruct (refresh_type c ty now) as [c1 qs]. specialize (IH c1).
    destruct (refresh_all c1 now rest) as [c2 o]. simpl in *. apply Forall_app. split; [|assumption].
    apply Forall_forall. intros x Hx. apply in_map_iff in Hx as [y [<- _]]. exact I.
  Qed.

  Lemma resolve_hosts_step5 L names : forall s D m,
    good5 L s D m -> step5 D (snd (resolve_hosts s now names)) L (fst (resolve_hosts s now names)) m.
  Proof.
    induction names as [|h t IH]; intros s D m Hg; simpl.
    - now apply step5_nil.
    - pose proof (resolve_updated_step5 L s D m (dedup (get_instances_on_host (s_cache s) h)) Hg) as H1.
      destruct (resolve_updated s now (dedup (get_instances_on_host (s_cache s) h))) as [s1 o1]. cbn [fst snd] in *.
      pose proof (IH s1 _ m (proj2 H1)) as H2. destruct (resolve_hosts s1 now t) as [s2 o2]. cbn [fst snd] in *.
      eapply step5_app; eauto.
  Qed.

  Lemma evict_step5 L s D m : good5 L s D m -> step5 D (snd (evict s now)) L (fst (evict s now)) m.
  Proof.
    intros (HI & Ht & Hsub & HD & Hs). unfold evict.
    pose proof (cshr_evict_services L (s_cache s) now HI) as Hs1.
    pose proof (evicted_not_alive Lf L (s_cache s) now) as Hev.
    destruct (evict_services (s_cache s) now) as [c1 expired]. cbn [fst snd] in *.
    assert (H1 : Inv L c1) by (eapply Inv_shr; eauto).
    pose proof (cshr_evict_addr L c1 now H1) as Hs2.
    destruct (evict_addr c1 now) as [c2 names]. cbn [fst] in *.
    assert (H2 : Inv L c2) by (eapply Inv_shr; eauto).
    assert (Hg2 : good5 L (with_cache s c2) D m).
    { unfold good5. cbn [s_cache s_q with_cache]. split; [exact H2|]. split; [exact Ht|]. split; [exact Hsub|]. split; [|exact Hs].
      apply (DI_shrink L (s_cache s)); [exact HI| |exact HD].
      eapply shrinks_trans; apply cshr_shrinks; eassumption. }
    assert (Ho1 : Forall (evt_ok c2 (s_q s) now) (notify_removal (s_q s) expired)).
    { apply Forall_forall. intros x Hx. apply notify_removal_shape in Hx as (ch & t & i & -> & Hq & Hin).
      simpl. split; [exact Hq|]. apply (Hev t i Hvar HI Hsub Hin). }
    pose proof (still_step L (with_cache s c2) D m (with_cache s c2) _ Hg2 eq_refl eq_refl Ho1) as St1.
    pose proof (resolve_hosts_step5 L (dedup names) (with_cache s c2) _ m (proj2 St1)) as St2.
    destruct (resolve_hosts (with_cache s c2) now (dedup names)) as [s2 o2]. cbn [fst snd] in *.
    eapply step5_app; eauto.
  Qed.

  (* ---- one iteration ------------------------------------------------------------------------------------------------ *)
  Theorem iterate_again ifs prev s it D m m' :
    i_now it = now -> iter_dlvs ifs it = cur -> incl cur Lf ->
    good5 prev s D m -> calls_fresh m (i_calls it) = Some m' ->
    step5 D (snd (iterate ifs s it)) (prev ++ cur) (fst (iterate ifs s it)) m'.
  Proof.
    intros Enow Ecur HcurLf Hg Hfr. unfold iterate. cbv zeta. unfold iter_dlvs in Ecur. rewrite Enow in *.
    set (dgs := deliveries_in_order (i_dgrams it)) in *.
    assert (Ht : times_le prev now) by apply Hg.
    assert (Hg0 : good5 (prev ++ []) s D m) by (now rewrite app_nil_r).
    assert (Hc : incl (flat_map (dgram_dlvs ifs now) dgs) cur) by (rewrite Ecur; apply incl_refl).
    pose proof (reads_step5 ifs prev dgs [] s D m Hg0 Ht Hc HcurLf) as St1. simpl in St1. rewrite Ecur in St1.
    destruct (run_cmds (handle_read ifs) s now dgs) as [s1 o1]. cbn [fst snd] in *.
    pose proof (calls_step5 _ (i_calls it) s1 _ m m' (proj2 St1) Hfr) as St2.
    destruct (run_cmds exec_call s1 now (i_calls it)) as [s2 o2]. cbn [fst snd] in *.
    unfold run_retrans.
    set (keep := filter (fun tc => negb (fst tc <=? now)) (s_retrans s2)).
    assert (Hg2 : good5 (prev ++ cur) (mkSt (s_cache s2) (s_q s2) (s_pending s2) (s_resolved s2) keep)
                        (deads (deads D o1) o2) m') by exact (proj2 St2).
    pose proof (rcmds_step5 _ (map snd (filter (fun tc => fst tc <=? now) (s_retrans s2))) _ _ m' Hg2) as St3.
    destruct (run_cmds exec_rcmd (mkSt (s_cache s2) (s_q s2) (s_pending s2) (s_resolved s2) keep) now
                (map snd (filter (fun tc => fst tc <=? now) (s_retrans s2)))) as [s3 o3]. cbn [fst snd] in *.
    pose proof (proj2 St3) as Hg3. pose proof Hg3 as (HI3 & Ht3 & Hsub3 & HD3 & Hs3).
    pose proof (refresh_all_silent (s_q s3) (s_cache s3)) as Q4.
    pose proof (refresh_all_shrinks now _ (s_q s3) (s_cache s3) HI3) as S4.
    destruct (refresh_all_spec prev cur now (s_q s3) (s_cache s3) HI3) as [HI4 _].
    destruct (refresh_all (s_cache s3) now (s_q s3)) as [c4 o4]. cbn [fst snd] in *.
    pose proof (silent_shrink_step (prev ++ cur) s3 _ m' (with_cache s3 c4) o4 Hg3 HI4 S4 eq_refl Q4) as St4.
    pose proof (evict_step5 _ (with_cache s3 c4) _ m' (proj2 St4)) as St5.
    destruct (evict (with_cache s3 c4) now) as [s5 o5]. cbn [fst snd] in *.
    eapply step5_app; [exact St1|]. eapply step5_app; [exact St2|]. eapply step5_app; [exact St3|].
    eapply step5_app; [exact St4|exact St5].
  Qed.
End Again.

(* ---- the checker on the model's trace: no F05_again --------------------------------------------------------- *)

Definition no_again (fs : list fail) : Prop := forall f, In f fs -> is_again_fail f = false.

Lemma no_again_app a b : no_again a -> no_again b -> no_again (a ++ b).
Proof. intros Ha Hb f Hf. apply in_app_iff in Hf as [Hf|Hf]; auto. Qed.

Lemma no_again_nil : no_again [].
Proof. intros f []. Qed.

Lemma no_again_flat {A} (f : A -> list fail) l :
  (forall a x, In x (f a) -> is_again_fail x = false) -> no_again (flat_map f l).
Proof. intros H x Hx. apply in_flat_map in Hx as [a [_ Ha]]. eauto. Qed.

Lemma fold_ev05_again k now snaps log : forall o ups D fs,
  again_ok k log D o -> no_again fs ->
  let r := fold_left (ev05 k now snaps log) (evs o) (ups, D, fs) in
  no_again (snd r) /\ snd (fst r) = deads k D o.
Proof.
  induction o as [|x t IH]; intros ups D fs Hok Hfs; simpl; [auto|].
  destruct Hok as [Hx Ht]. rewrite evs_cons. rewrite fold_left_app.
  destruct x as [c [ty i|r|ty i]|qs|c l]; simpl in *.
  - apply (IH ups D fs Ht Hfs).
  - (* resolved *)
    match goal with |- context [if ?b then _ else _] => assert (Hb : b = false) end.
    { match goal with |- ?b = false => destruct b eqn:E; [|reflexivity] end. exfalso.
      apply existsb_exists in E as [y [Hy Hc]]. apply andb_true_iff in Hc as [Hd Hn].
      apply negb_true_iff in Hn. destruct (Hx y Hy Hd) as (jd & A & B & C).
      pose proof (existsb_false_forall _ _ Hn jd A) as Hf. cbv beta in Hf.
      rewrite C, andb_true_r in Hf. apply N.leb_gt in Hf. lia. }
    rewrite Hb. apply (IH _ _ fs Ht Hfs).
  - (* removed *)
    apply IH; [exact Ht|].
    match goal with |- context [if ?b then _ else _] => destruct b end; [exact Hfs|].
    apply no_again_app; [exact Hfs|]. intros f [<-|[]]. reflexivity.
  - apply (IH ups D fs Ht Hfs).
  - apply (IH ups D fs Ht Hfs).
Qed.

Lemma step05_again ifs k t it w o :
  again_ok k (t5_log t ++ map (fun d => (k, d)) (iter_dlvs ifs it)) (t5_dead t) o ->
  no_again (snd (step05 ifs k t it w (obs_of o)))
  /\ t5_sp (fst (step05 ifs k t it w (obs_of o))) = snd (iter_snaps ifs (t5_sp t) it)
  /\ t5_dead (fst (step05 ifs k t it w (obs_of o)))
     = filter (fun x => existsb (fun tc => snd tc =? fst x) (sp_q (snd (iter_snaps ifs (t5_sp t) it))))
              (deads k (t5_dead t) o)
  /\ t5_log (fst (step05 ifs k t it w (obs_of o))) = t5_log t ++ map (fun d => (k, d)) (iter_dlvs ifs it).
Proof.
  intros Hok. unfold step05. cbv zeta.
  destruct (iter_snaps ifs (t5_sp t) it) as [[ds sp2] sp3]. cbn [snd].
  pose proof (fold_ev05_again k (i_now it) (ds ++ [sp2; sp3]) _ o (t5_ups t) (t5_dead t) [] Hok no_again_nil) as Hf.
  cbv zeta in Hf. unfold dlist in Hf. fold (evs o). revert Hf.
  destruct (fold_left (ev05 k (i_now it) (ds ++ [sp2; sp3]) (t5_log t ++ map (fun d => (k, d)) (iter_dlvs ifs it)))
                      (evs o) (t5_ups t, t5_dead t, [])) as [[ups1 dead1] fs1].
  intros Hf. cbn [fst snd] in Hf. destruct Hf as [Hf1 Hd]. cbn [fst snd t5_sp t5_dead t5_log].
  split; [|split; [reflexivity|split; [now rewrite Hd|reflexivity]]].
  apply no_again_app; [exact Hf1|]. apply no_again_app.
  - apply no_again_flat. intros u x Hx. destruct (alive_weak _ _ _ _); [destruct Hx|]. destruct Hx as [<-|[]]. reflexivity.
  - apply no_again_flat. intros u x Hx.
    match type of Hx with In x (if ?b then _ else _) => destruct b end; [destruct Hx|]. destruct Hx as [<-|[]]. reflexivity.
Qed.

Lemma DI_mono Lf log log' c q now now' D :
  incl log log' -> now <= now' -> DI Lf log c q now D -> DI Lf log' c q now' D.
Proof.
  intros Hi Hle H ch inst j ty Hin Hq. destruct (H ch inst j ty Hin Hq) as [Hb|(jd & A & B)].
  - left. destruct (alive_strong c now' ty inst) eqn:E; [|reflexivity].
    rewrite (alive_later c now now' ty inst Hle E) in Hb. discriminate.
  - right. exists jd. split; [apply Hi, A|exact B].
Qed.

Lemma side_mono k k' q D m : k <= k' -> side k q D m -> side k' q D m.
Proof. intros Hle (A & B & C). split; [exact A|]. split; [exact B|]. intros y Hy. destruct (C y Hy). split; lia. Qed.

Section History5.
  Variable Lf : list dlv.
  Hypothesis Hvar : known_ptr_variant Lf = false.
  Hypothesis Htgt : known_srv_targets Lf = false.
  Hypothesis Hnames : ptr_names_ok Lf = true.

  Lemma viol05_no_again ifs : forall h k t s prev t0 wakes m,
    Inv prev (s_cache s) -> times_le prev t0 -> times_mono t0 h = true -> tracks s (t5_sp t) ->
    incl (prev ++ flat_map (iter_dlvs ifs) h) Lf ->
    DI Lf (t5_log t) (s_cache s) (s_q s) t0 (t5_dead t) -> side k (s_q s) (t5_dead t) m ->
    fresh_channels_from m h = true ->
    no_again (viol05_from ifs k t h wakes (map obs_of (run_from ifs s h))).
  Proof.
    induction h as [|it h IH]; intros k t s prev t0 wakes m HI Ht Hm Htr Hsub HD Hs Hfr.
    - simpl. destruct wakes; simpl; intros f Hf; [destruct Hf|destruct Hf as [<-|[]]; reflexivity].
    - simpl in Hm. apply andb_true_iff in Hm as [Hm1 Hm2]. apply N.leb_le in Hm1.
      assert (Ht' : times_le prev (i_now it)) by (intros d Hd; specialize (Ht d Hd); lia).
      simpl in Hfr. destruct (calls_fresh m (i_calls it)) as [m'|] eqn:Ecf; [|discriminate].
      set (log := t5_log t ++ map (fun d => (k, d)) (iter_dlvs ifs it)).
      assert (Hcur : forall x, In x (iter_dlvs ifs it) -> In (k, x) log).
      { intros x Hx. unfold log. apply in_app_iff. right. apply in_map_iff. exists x. auto. }
      assert (HcurLf : incl (iter_dlvs ifs it) Lf).
      { intros x Hx. apply Hsub. simpl. rewrite !in_app_iff. tauto. }
      assert (Hg : good5 Lf k log (i_now it) prev s (t5_dead t) m).
      { split; [exact HI|]. split; [exact Ht'|]. split; [intros x Hx; apply Hsub, in_app_iff; now left|].
        split; [|exact Hs]. apply (DI_mono Lf (t5_log t) log _ _ t0); [|exact Hm1|exact HD].
        intros x Hx. unfold log. apply in_app_iff. now left. }
      destruct (iterate_again Lf Hvar Htgt Hnames k log (i_now it) (iter_dlvs ifs it) Hcur ifs prev s it
                  (t5_dead t) m m' eq_refl eq_refl HcurLf Hg Ecf) as [Hok Hg1].
      pose proof (tracks_iterate ifs s (t5_sp t) it Htr) as Htr1.
      simpl. destruct (iterate ifs s it) as [s1 o] eqn:Eit. cbn [fst snd] in *.
      destruct wakes as [|w wakes']; [intros f [<-|[]]; reflexivity|].
      simpl. destruct (step05_again ifs k t it w o Hok) as (Hs1 & Hs2 & Hs3 & Hs4).
      destruct (step05 ifs k t it w (obs_of o)) as [t1 fs] eqn:Est. cbn [fst snd] in *.
      apply no_again_app; [assumption|].
      destruct Hg1 as (HI1 & Ht1 & Hsub1 & HD1 & Hside1).
      assert (Hinc : incl (t5_dead t1) (deads k (t5_dead t) o))
        by (rewrite Hs3; intros y Hy; apply filter_In in Hy; tauto).
      apply (IH (k + 1) t1 s1 (prev ++ iter_dlvs ifs it) (i_now it) wakes' m' HI1 Ht1 Hm2).
      + rewrite Hs2. exact Htr1.
      + intros x Hx. apply Hsub. simpl. rewrite !in_app_iff in *. tauto.
      + rewrite Hs4. fold log. eapply DI_incl; eauto.
      + apply (side_mono k); [lia|]. eapply side_incl; eauto.
      + exact Hfr.
  Qed.
End History5.

(* C05, safety, second half: outside the classes "PTR variants" and "two SRV targets" (no PTR
   record with the root name as owner or target), and when every browse call uses a channel
   number greater than all used before, the checker never reports "ServiceResolved after
   ServiceRemoved of the same instance on the same channel with no record of the instance or its
   host delivered in between" on the model's trace - whatever the wake-ups, for every history in
   which time does not run backwards. *)
Theorem no_resolved_again ifs h wakes :
  wf_history h = true -> safe_class ifs h = true -> fresh_channels h = true ->
  forall f, In f (viol_C05 ifs h wakes (map obs_of (run_history ifs h))) -> is_again_fail f = false.
Proof.
  intros Hwf Hsafe Hfr. unfold safe_class in Hsafe.
  apply andb_true_iff in Hsafe as [Hsafe Hn]. apply andb_true_iff in Hsafe as [Hv Ht].
  apply negb_true_iff in Hv, Ht.
  unfold viol_C05, run_history.
  apply (viol05_no_again (log_of_history ifs h) Hv Ht Hn ifs h 0 _ init_st [] 0 wakes 0).
  - apply Inv_empty.
  - intros d [].
  - exact Hwf.
  - split; [apply ceqr_refl|reflexivity].
  - simpl. apply incl_refl.
  - intros ch inst j ty [].
  - split; [constructor|]. split; [intros tc []|intros y []].
  - exact Hfr.
Qed.
