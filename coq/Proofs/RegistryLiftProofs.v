(* Lifting the registry theorems to the daemon model: in every loop iteration the registry of each
   interface changes only through the operations OJoin / OTiebreak / OConflict (any number, at
   the iteration's time) and at most one probing pass OTick, whose probed names are the question
   names of the probe query the iteration sends on that interface.  Hence the spacing theorem of
   Proofs/RegistryProofs.v holds for the probe queries of every history of the daemon model. *)
From Coq Require Import List NArith Bool Lia.
From Mdns Require Import Bytes Rec ParamsRegistry Names WireOut Registry RegistryDaemon RegistrySpec
     RegistryParamsPinned RegistryProofs RegistryDaemonProofs.
Import ListNotations.
Open Scope N_scope.

(* ---- sequences of operations ---------------------------------------------------------------------- *)

Lemma final_reg_app ops1 : forall rg ops2, final_reg rg (ops1 ++ ops2) = final_reg (final_reg rg ops1) ops2.
Proof. induction ops1 as [|[t o] r IH]; intros rg ops2; simpl; [reflexivity|apply IH]. Qed.

Lemma run_ops_app ops1 : forall rg ops2,
  run_ops rg (ops1 ++ ops2) = run_ops rg ops1 ++ run_ops (final_reg rg ops1) ops2.
Proof.
  induction ops1 as [|[t o] r IH]; intros rg ops2; simpl; [reflexivity|].
  destruct (apply_op rg t o) as [[rg' qs] ex]. simpl. rewrite IH. reflexivity.
Qed.

Definition is_tick (o : rop) : bool := match o with OTick => true | _ => false end.

(* operations at time `now`, none of them a probing pass or the handling of a conflicting response *)
Definition quiet_ops (now : N) (ops : list (N * rop)) : Prop :=
  Forall (fun o => fst o = now /\ is_tick (snd o) = false /\ is_conflict (snd o) = false) ops.

Definition QReach (now : N) (rg rg' : registry) : Prop :=
  exists ops, quiet_ops now ops /\ rg' = final_reg rg ops.

Lemma QReach_refl now rg : QReach now rg rg.
Proof. exists []. split; [constructor|reflexivity]. Qed.

Lemma QReach_trans now a b c : QReach now a b -> QReach now b c -> QReach now a c.
Proof.
  intros (o1 & Q1 & ->) (o2 & Q2 & ->). exists (o1 ++ o2). split.
  - apply Forall_app. auto.
  - symmetry. apply final_reg_app.
Qed.

Lemma QReach_one now rg o : is_tick o = false -> is_conflict o = false -> QReach now rg (fst (fst (apply_op rg now o))).
Proof. intros H H2. exists [(now, o)]. split; [repeat constructor; assumption|reflexivity]. Qed.

Lemma quiet_run now ops : forall rg, quiet_ops now ops -> Forall (fun e => e = (now, [], [])) (run_ops rg ops).
Proof.
  induction ops as [|[t o] r IH]; intros rg H; simpl; [constructor|].
  inversion H as [|x l Hx Hr]; subst. destruct Hx as (Ht & Ho & Hc). simpl in Ht, Ho, Hc. subst t.
  destruct o; try discriminate; simpl; constructor; auto.
Qed.

(* ---- prepare_announce and friends only join ------------------------------------------------------------- *)

Lemma probe_records_reach s now j : forall recs rg,
  QReach now rg (fst (probe_records rg s (now + j) recs)).
Proof.
  intros recs rg. destruct (s_probe s) eqn:P.
  - rewrite probe_records_ops by assumption. eexists. split; [|reflexivity].
    apply Forall_forall. intros o Ho. apply in_map_iff in Ho as (r & <- & _). simpl. auto.
  - assert (H : forall recs rg, probe_records rg s (now + j) recs = (rg, true)).
    { induction recs0 as [|r t IH]; intros rg0; simpl; [reflexivity|]. rewrite P. apply IH. }
    rewrite H. apply QReach_refl.
Qed.

Lemma prepare_announce_reach s i rg v4 now js :
  QReach now rg (fst (fst (prepare_announce s i rg v4 now js))).
Proof.
  unfold prepare_announce. destruct (addrs_on_intf s i v4); [apply QReach_refl|].
  destruct (draw js) as [j js1].
  pose proof (probe_records_reach s now j (announce_records rg s i v4) rg) as H.
  destruct (probe_records rg s (now + j) (announce_records rg s i v4)) as [rg1 ok]. simpl in H.
  destruct ok; simpl; exact H.
Qed.

Lemma announce_both_reach s i rg now js :
  QReach now rg (fst (fst (fst (announce_both s i rg now js)))).
Proof.
  unfold announce_both.
  pose proof (prepare_announce_reach s i rg true now js) as H1.
  destruct (prepare_announce s i rg true now js) as [[rg1 m4] js1]. simpl in H1.
  pose proof (prepare_announce_reach s i rg1 false now js1) as H2.
  destruct (prepare_announce s i rg1 false now js1) as [[rg2 m6] js2]. simpl in *.
  eapply QReach_trans; eassumption.
Qed.

(* ---- registries of a daemon state, per interface index ----------------------------------------------------- *)

Definition reg_of (regs : list (N * registry)) (i : N) : registry :=
  match nget i regs with Some r => r | None => reg_new end.

Lemma get_reg_reg_of st i : get_reg st i = reg_of (d_regs st) i.
Proof. reflexivity. Qed.

Lemma nget_nset_same {V} k (v : V) l : nget k (nset k v l) = Some v.
Proof.
  induction l as [|[k' v'] t IH]; simpl.
  - rewrite N.eqb_refl. reflexivity.
  - destruct (k =? k') eqn:E; simpl; [rewrite N.eqb_refl; reflexivity|rewrite E; assumption].
Qed.

Lemma nget_nset_other {V} k k1 (v : V) l : k1 <> k -> nget k1 (nset k v l) = nget k1 l.
Proof.
  intros Hne. induction l as [|[k' v'] t IH]; simpl.
  - destruct (k1 =? k) eqn:E; [apply N.eqb_eq in E; contradiction|reflexivity].
  - destruct (k =? k') eqn:E; simpl.
    + apply N.eqb_eq in E. subst. destruct (k1 =? k') eqn:E1; [apply N.eqb_eq in E1; contradiction|reflexivity].
    + destruct (k1 =? k'); [reflexivity|assumption].
Qed.

Lemma reg_of_nset_same k v regs : reg_of (nset k v regs) k = v.
Proof. unfold reg_of. rewrite nget_nset_same. reflexivity. Qed.

Lemma reg_of_nset_other k k1 v regs : k1 <> k -> reg_of (nset k v regs) k1 = reg_of regs k1.
Proof. intros H. unfold reg_of. rewrite nget_nset_other by assumption. reflexivity. Qed.

(* all registries move by quiet operations *)
Definition AllQ (now : N) (regs regs' : list (N * registry)) : Prop :=
  forall i, QReach now (reg_of regs i) (reg_of regs' i).

Lemma AllQ_refl now regs : AllQ now regs regs.
Proof. intros i. apply QReach_refl. Qed.

Lemma AllQ_trans now a b c : AllQ now a b -> AllQ now b c -> AllQ now a c.
Proof. intros H1 H2 i. eapply QReach_trans; [apply H1|apply H2]. Qed.

Lemma AllQ_nset now regs k rg' : QReach now (reg_of regs k) rg' -> AllQ now regs (nset k rg' regs).
Proof.
  intros H i. destruct (N.eq_dec i k) as [->|Hne].
  - rewrite reg_of_nset_same. assumption.
  - rewrite reg_of_nset_other by assumption. apply QReach_refl.
Qed.

Lemma register_intfs_reach now : forall ifs s regs js,
  AllQ now regs (snd (fst (fst (fst (register_intfs ifs s regs now js))))).
Proof.
  induction ifs as [|i t IH]; intros s regs js; simpl; [apply AllQ_refl|].
  pose proof (announce_both_reach s i (match nget (if_index i) regs with Some r => r | None => reg_new end) now js) as H1.
  destruct (announce_both s i (match nget (if_index i) regs with Some r => r | None => reg_new end) now js)
    as [[[rg' os] ann] js1]. simpl in H1.
  specialize (IH (set_status (if_index i) (if ann then SAnnounced else SProbing) s) (nset (if_index i) rg' regs) js1).
  destruct (register_intfs t (set_status (if_index i) (if ann then SAnnounced else SProbing) s)
                           (nset (if_index i) rg' regs) now js1) as [[[[s2 regs2] os2] anns] js2]. simpl in *.
  eapply AllQ_trans; [|exact IH]. apply AllQ_nset. exact H1.
Qed.

Lemma register_service_reach st s now js :
  AllQ now (d_regs st) (d_regs (fst (fst (register_service st s now js)))).
Proof.
  unfold register_service.
  pose proof (register_intfs_reach now (d_intfs st) (auto_addrs st s) (d_regs st) js) as H.
  destruct (register_intfs (d_intfs st) (auto_addrs st s) (d_regs st) now js) as [[[[s' regs] os] anns] js']. simpl in *. exact H.
Qed.

Lemma register_resend_reach st full i now js :
  AllQ now (d_regs st) (d_regs (fst (fst (register_resend st full i now js)))).
Proof.
  unfold register_resend.
  destruct (aget (lower full) (d_svcs st)) as [s|]; [|apply AllQ_refl].
  destruct (nget i (d_regs st)) as [rg|] eqn:G; [|apply AllQ_refl].
  destruct (find_intf st i) as [itf|]; [|apply AllQ_refl].
  pose proof (announce_both_reach s itf rg now js) as H.
  destruct (announce_both s itf rg now js) as [[[rg' os] ann] js']. simpl in H.
  assert (Hr : reg_of (d_regs st) i = rg) by (unfold reg_of; rewrite G; reflexivity).
  destruct ann; simpl; apply AllQ_nset; rewrite Hr; exact H.
Qed.

(* ---- incoming datagrams --------------------------------------------------------------------------------------------- *)

Lemma tiebreak_question_reach rg g qn qt now : QReach now rg (tiebreak_question rg g qn qt now).
Proof.
  unfold tiebreak_question. destruct ((qt =? TY_ANY) && negb match g_ns g with [] => true | _ :: _ => false end).
  - apply (QReach_one now rg (OTiebreak qn (filter (fun r => beq (r_name r) qn) (g_ns g)))); reflexivity.
  - apply QReach_refl.
Qed.

Lemma handle_questions_reach st g itf now : forall qs rg,
  QReach now rg (fst (fst (handle_questions st g itf rg qs now))).
Proof.
  induction qs as [|[qn qt] t IH]; intros rg; simpl; [apply QReach_refl|].
  destruct (qt =? TY_PTR).
  - destruct (answer_ptr_question st g itf rg qn) as [an ar].
    specialize (IH rg). destruct (handle_questions st g itf rg t now) as [[rg' an2] ar2]. simpl in *. exact IH.
  - destruct (answer_instance_question st g itf (tiebreak_question rg g qn qt now) qn qt) as [an_i ar_i].
    specialize (IH (tiebreak_question rg g qn qt now)).
    destruct (handle_questions st g itf (tiebreak_question rg g qn qt now) t now) as [[rg' an2] ar2]. simpl in *.
    eapply QReach_trans; [apply tiebreak_question_reach|exact IH].
Qed.

Lemma handle_query_reach st g now : AllQ now (d_regs st) (d_regs (fst (handle_query st g now))).
Proof.
  unfold handle_query. destruct (nget (g_if g) (d_regs st)) as [rg|] eqn:G; [|apply AllQ_refl].
  destruct (find_intf st (g_if g)) as [itf|]; [|apply AllQ_refl].
  pose proof (handle_questions_reach st g itf now (g_q g) rg) as H.
  destruct (handle_questions st g itf rg (g_q g) now) as [[rg' an] ar]. simpl in H.
  assert (A : AllQ now (d_regs st) (nset (g_if g) rg' (d_regs st))).
  { apply AllQ_nset. unfold reg_of. rewrite G. exact H. }
  destruct an; simpl; exact A.
Qed.

Definition all_queries (gs : list dgram) : Prop := Forall (fun g => g_resp g = false) gs.

Lemma handle_dgram_reach st g now js :
  g_resp g = false -> AllQ now (d_regs st) (d_regs (fst (fst (handle_dgram st g now js)))).
Proof.
  intros Hq. unfold handle_dgram. destruct (find_intf st (g_if g)); [|apply AllQ_refl].
  destruct (negb (intf_has_family i (g_v4 g))); [apply AllQ_refl|].
  rewrite Hq.
  pose proof (handle_query_reach st g now) as H.
  destruct (handle_query st g now) as [st' os]. simpl in *. exact H.
Qed.

Lemma handle_dgrams_reach now : forall gs st js,
  all_queries gs -> AllQ now (d_regs st) (d_regs (fst (fst (handle_dgrams st gs now js)))).
Proof.
  induction gs as [|g t IH]; intros st js Hq; simpl; [apply AllQ_refl|].
  inversion Hq as [|x l Hg Ht]; subst.
  pose proof (handle_dgram_reach st g now js Hg) as H1.
  destruct (handle_dgram st g now js) as [[st1 os1] js1]. simpl in H1.
  specialize (IH st1 js1 Ht). destruct (handle_dgrams st1 t now js1) as [[st2 os2] js2]. simpl in *.
  eapply AllQ_trans; eassumption.
Qed.

(* ---- calls and retransmissions ----------------------------------------------------------------------------------------- *)

(* calls that leave every registry to its own operations: enable/disable_interface drops and creates
   registries, a successful unregister makes them forget the service's names (fix d685fcf) *)
Definition no_ifsel (c : call) : Prop := match c with CIfSel _ _ | CUnregister _ _ => False | _ => True end.

Lemma exec_call_reach st c now js :
  no_ifsel c -> AllQ now (d_regs st) (d_regs (fst (fst (fst (exec_call st c now js))))).
Proof.
  intros Hc. destruct c; simpl; try contradiction.
  - pose proof (register_service_reach st s now js) as H.
    destruct (register_service st s now js) as [[st1 os1] js1]. simpl in *. exact H.
  - apply AllQ_refl.
  - apply AllQ_refl.
  - apply AllQ_refl.
Qed.

Lemma exec_calls_reach now : forall cs st js,
  Forall no_ifsel cs -> AllQ now (d_regs st) (d_regs (fst (fst (exec_calls st cs now js)))).
Proof.
  induction cs as [|c t IH]; intros st js Hc; simpl; [apply AllQ_refl|].
  inversion Hc as [|x l Hx Ht]; subst.
  pose proof (exec_call_reach st c now js Hx) as H1.
  destruct (exec_call st c now js) as [[[st1 os1] js1] stop]. simpl in H1.
  destruct stop; simpl; [exact H1|].
  specialize (IH st1 js1 Ht). destruct (exec_calls st1 t now js1) as [[st2 os2] js2]. simpl in *.
  eapply AllQ_trans; eassumption.
Qed.

Lemma run_due_reach now : forall due st js,
  AllQ now (d_regs st) (d_regs (fst (fst (run_due st due now js)))).
Proof.
  induction due as [|[t c] r IH]; intros st js; simpl; [apply AllQ_refl|].
  destruct c as [full i|m i v4].
  - pose proof (register_resend_reach st full i now js) as H1.
    destruct (register_resend st full i now js) as [[st1 os1] js1]. simpl in H1.
    specialize (IH st1 js1). destruct (run_due st1 r now js1) as [[st2 os2] js2]. simpl in *.
    eapply AllQ_trans; eassumption.
  - specialize (IH st js). destruct (run_due st r now js) as [[st2 os2] js2]. simpl in *. exact IH.
Qed.

Lemma retransmit_reach st now js : AllQ now (d_regs st) (d_regs (fst (fst (retransmit st now js)))).
Proof. unfold retransmit. apply (run_due_reach now _ (mkD _ _ _ _ _ _ _ _) js). Qed.

(* ---- which outputs are probe queries ----------------------------------------------------------------------------------- *)

(* no probe query among these outputs: every send is a response *)
Definition all_resp (os : list out) : Prop :=
  forall o, In o os -> match o with
                       | OSend _ _ _ m => o_resp m = true
                       | _ => True end.

Lemma all_resp_app a b : all_resp a -> all_resp b -> all_resp (a ++ b).
Proof. intros Ha Hb o Ho. apply in_app_or in Ho as [H|H]; [apply Ha|apply Hb]; assumption. Qed.

Lemma all_resp_nil : all_resp [].
Proof. intros o []. Qed.

Lemma all_resp_no_probes os k : all_resp os -> probe_names_on os k = [].
Proof.
  intros H. unfold probe_names_on. apply flat_map_nil. intros o Ho. specialize (H o Ho).
  destruct o; try reflexivity. rewrite H. rewrite andb_false_r. reflexivity.
Qed.

Lemma probe_names_app a b k : probe_names_on (a ++ b) k = probe_names_on a k ++ probe_names_on b k.
Proof. unfold probe_names_on. apply flat_map_app. Qed.

Lemma mon_all_resp m os : (forall o, In o os -> match o with OSend _ _ _ _ => False | _ => True end) -> all_resp (mon m os).
Proof.
  intros H. unfold mon. destruct m; [|apply all_resp_nil]. intros o Ho. specialize (H o Ho). destruct o; tauto.
Qed.

Lemma prepare_announce_resp s i rg v4 now js rg' m js' :
  prepare_announce s i rg v4 now js = (rg', Some m, js') -> o_resp m = true.
Proof. intros H. apply prepare_announce_some in H as (_ & _ & ->). reflexivity. Qed.

Lemma announce_both_resp s i rg now js : all_resp (snd (fst (fst (announce_both s i rg now js)))).
Proof.
  unfold announce_both.
  destruct (prepare_announce s i rg true now js) as [[rg1 m4] js1] eqn:E4.
  destruct (prepare_announce s i rg1 false now js1) as [[rg2 m6] js2] eqn:E6. simpl.
  apply all_resp_app.
  - destruct m4 as [m|]; [|apply all_resp_nil]. intros o [<-|[]]. eapply prepare_announce_resp; eassumption.
  - destruct m6 as [m|]; [|apply all_resp_nil]. intros o [<-|[]]. eapply prepare_announce_resp; eassumption.
Qed.

Lemma ev_all_resp (m : bool) o : match o with OSend _ _ _ _ => False | _ => True end -> all_resp (mon m [o]).
Proof. intros H. apply mon_all_resp. intros x [<-|[]]. exact H. Qed.

(* pending goodbye repeats hold responses *)
Definition retrans_ok (st : dstate) : Prop :=
  forall t m i v4, In (t, UnregisterResend m i v4) (d_retrans st) -> o_resp m = true.

Lemma register_intfs_resp now : forall ifs s regs js,
  all_resp (snd (fst (fst (register_intfs ifs s regs now js)))).
Proof.
  induction ifs as [|i t IH]; intros s regs js; simpl; [apply all_resp_nil|].
  pose proof (announce_both_resp s i (match nget (if_index i) regs with Some r => r | None => reg_new end) now js) as H1.
  destruct (announce_both s i (match nget (if_index i) regs with Some r => r | None => reg_new end) now js)
    as [[[rg' os] ann] js1]. simpl in H1.
  specialize (IH (set_status (if_index i) (if ann then SAnnounced else SProbing) s) (nset (if_index i) rg' regs) js1).
  destruct (register_intfs t (set_status (if_index i) (if ann then SAnnounced else SProbing) s)
                           (nset (if_index i) rg' regs) now js1) as [[[[s2 regs2] os2] anns] js2]. simpl in *.
  apply all_resp_app; assumption.
Qed.

Lemma register_service_resp st s now js :
  all_resp (snd (fst (register_service st s now js))) /\
  (retrans_ok st -> retrans_ok (fst (fst (register_service st s now js)))).
Proof.
  unfold register_service.
  pose proof (register_intfs_resp now (d_intfs st) (auto_addrs st s) (d_regs st) js) as H.
  destruct (register_intfs (d_intfs st) (auto_addrs st s) (d_regs st) now js) as [[[[s' regs] os] anns] js']. simpl in *. split.
  - apply all_resp_app; [assumption|]. destruct anns; [apply all_resp_nil|]. apply ev_all_resp. exact I.
  - intros R t m i v4 Hin. apply in_app_or in Hin as [Hin|Hin]; [eapply R; eassumption|].
    apply in_map_iff in Hin as (x & Hx & _). discriminate.
Qed.

Lemma register_resend_resp st full i now js :
  all_resp (snd (fst (register_resend st full i now js))) /\
  (retrans_ok st -> retrans_ok (fst (fst (register_resend st full i now js)))).
Proof.
  unfold register_resend.
  destruct (aget (lower full) (d_svcs st)) as [s|]; [|split; [apply all_resp_nil|auto]].
  destruct (nget i (d_regs st)) as [rg|]; [|split; [apply all_resp_nil|auto]].
  destruct (find_intf st i) as [itf|]; [|split; [apply all_resp_nil|auto]].
  pose proof (announce_both_resp s itf rg now js) as H.
  destruct (announce_both s itf rg now js) as [[[rg' os] ann] js']. simpl in H.
  destruct ann; simpl; split; auto. apply all_resp_app; [assumption|]. apply ev_all_resp. exact I.
Qed.

Lemma goodbye_sends_resp st s : all_resp (map send_of (goodbyes_of st s)).
Proof.
  intros o Ho. apply in_map_iff in Ho as ([[i v4] m] & <- & Hin). simpl.
  unfold goodbyes_of in Hin. apply in_flat_map in Hin as (itf & _ & Hin).
  destruct (announced_on (if_index itf) s); [|contradiction].
  apply in_app_or in Hin as [Hin|Hin]; unfold goodbye_on in Hin;
    [destruct (addrs_on_intf s itf true)|destruct (addrs_on_intf s itf false)]; simpl in Hin; try contradiction;
    destruct Hin as [Hin|[]]; inversion Hin; reflexivity.
Qed.

Lemma unregister_resp st k ch now :
  all_resp (snd (unregister st k ch now)) /\ (retrans_ok st -> retrans_ok (fst (unregister st k ch now))).
Proof.
  unfold unregister. destruct (aget k (d_svcs st)) as [s|]; simpl.
  - split.
    + apply all_resp_app; [apply goodbye_sends_resp|]. intros o [<-|[]]. exact I.
    + intros R t m i v4 Hin. apply in_app_or in Hin as [Hin|Hin]; [eapply R; eassumption|].
      apply in_map_iff in Hin as ([[i' v4'] m'] & Hx & Hin). unfold resend_of in Hx. inversion Hx; subst.
      pose proof (goodbye_sends_resp st s (send_of (i, v4, m))) as G.
      apply G. apply in_map. assumption.
  - split; [intros o [<-|[]]; exact I|auto].
Qed.

Lemma cleanup_resp st : all_resp (snd (cleanup st)) /\ retrans_ok (fst (cleanup st)).
Proof.
  unfold cleanup. simpl. split.
  - apply all_resp_app; [|intros o [<-|[]]; exact I].
    intros o Ho. apply in_flat_map in Ho as (ks & _ & Ho). eapply goodbye_sends_resp. eassumption.
  - intros t m i v4 [].
Qed.

Lemma exec_call_resp st c now js :
  no_ifsel c ->
  all_resp (snd (fst (fst (exec_call st c now js)))) /\
  (retrans_ok st -> retrans_ok (fst (fst (fst (exec_call st c now js))))).
Proof.
  intros Hc. destruct c; simpl; try contradiction.
  - pose proof (register_service_resp st s now js) as H.
    destruct (register_service st s now js) as [[st1 os1] js1]. simpl in *. exact H.
  - split; [apply all_resp_nil|auto].
  - split; [exact (proj1 (cleanup_resp st))|intros _; exact (proj2 (cleanup_resp st))].
  - split; [apply all_resp_nil|auto].
Qed.

Lemma exec_calls_resp now : forall cs st js,
  Forall no_ifsel cs ->
  all_resp (snd (fst (exec_calls st cs now js))) /\
  (retrans_ok st -> retrans_ok (fst (fst (exec_calls st cs now js)))).
Proof.
  induction cs as [|c t IH]; intros st js Hc; simpl; [split; [apply all_resp_nil|auto]|].
  inversion Hc as [|x l Hx Ht]; subst.
  pose proof (exec_call_resp st c now js Hx) as [H1 R1].
  destruct (exec_call st c now js) as [[[st1 os1] js1] stop]. simpl in H1, R1.
  destruct stop; simpl; [split; assumption|].
  specialize (IH st1 js1 Ht). destruct (exec_calls st1 t now js1) as [[st2 os2] js2]. simpl in *.
  destruct IH as [H2 R2]. split; [apply all_resp_app; assumption|auto].
Qed.

Lemma handle_query_resp st g now :
  all_resp (snd (handle_query st g now)) /\ d_retrans (fst (handle_query st g now)) = d_retrans st.
Proof.
  unfold handle_query. destruct (nget (g_if g) (d_regs st)) as [rg|]; [|split; [apply all_resp_nil|reflexivity]].
  destruct (find_intf st (g_if g)) as [itf|]; [|split; [apply all_resp_nil|reflexivity]].
  destruct (handle_questions st g itf rg (g_q g) now) as [[rg' an] ar].
  destruct an; simpl; [split; [apply all_resp_nil|reflexivity]|]. split; [|reflexivity].
  intros o [<-|Ho].
  - destruct (g_port g =? MDNS_PORT); reflexivity.
  - revert o Ho. fold (all_resp (mon (d_mon st) [ORespond (if_name itf)])). apply ev_all_resp. exact I.
Qed.

Lemma handle_dgram_resp st g now js :
  all_resp (snd (fst (handle_dgram st g now js))) /\
  d_retrans (fst (fst (handle_dgram st g now js))) = d_retrans st.
Proof.
  unfold handle_dgram. destruct (find_intf st (g_if g)); [|split; [apply all_resp_nil|reflexivity]].
  destruct (negb (intf_has_family i (g_v4 g))); [split; [apply all_resp_nil|reflexivity]|].
  destruct (g_resp g).
  - unfold handle_response. destruct (find_intf st (g_if g)); [|split; [apply all_resp_nil|reflexivity]].
    destruct (nget (g_if g) (d_regs st)); [|split; [apply all_resp_nil|reflexivity]].
    destruct (conflict_answers r (g_an g) now js). simpl. split; [apply all_resp_nil|reflexivity].
  - pose proof (handle_query_resp st g now) as H. destruct (handle_query st g now) as [st' os]. simpl in *. exact H.
Qed.

Lemma handle_dgrams_resp now : forall gs st js,
  all_resp (snd (fst (handle_dgrams st gs now js))) /\
  d_retrans (fst (fst (handle_dgrams st gs now js))) = d_retrans st.
Proof.
  induction gs as [|g t IH]; intros st js; simpl; [split; [apply all_resp_nil|reflexivity]|].
  pose proof (handle_dgram_resp st g now js) as [H1 R1].
  destruct (handle_dgram st g now js) as [[st1 os1] js1]. simpl in H1, R1.
  specialize (IH st1 js1). destruct (handle_dgrams st1 t now js1) as [[st2 os2] js2]. simpl in *.
  destruct IH as [H2 R2]. split; [apply all_resp_app; assumption|congruence].
Qed.

Lemma run_due_resp now : forall due st js,
  (forall t m i v4, In (t, UnregisterResend m i v4) due -> o_resp m = true) ->
  all_resp (snd (fst (run_due st due now js))) /\
  (retrans_ok st -> retrans_ok (fst (fst (run_due st due now js)))).
Proof.
  induction due as [|[t c] r IH]; intros st js Hd; simpl; [split; [apply all_resp_nil|auto]|].
  destruct c as [full i|m i v4].
  - pose proof (register_resend_resp st full i now js) as [H1 R1].
    destruct (register_resend st full i now js) as [[st1 os1] js1]. simpl in H1, R1.
    specialize (IH st1 js1 (fun t' m' i' v' Hin => Hd t' m' i' v' (or_intror Hin))).
    destruct (run_due st1 r now js1) as [[st2 os2] js2]. simpl in *.
    destruct IH as [H2 R2]. split; [apply all_resp_app; assumption|auto].
  - specialize (IH st js (fun t' m' i' v' Hin => Hd t' m' i' v' (or_intror Hin))).
    destruct (run_due st r now js) as [[st2 os2] js2]. simpl in *. destruct IH as [H2 R2]. split; [|assumption].
    apply all_resp_app; [|assumption].
    unfold unregister_resend. destruct (find_intf st i); [|apply all_resp_nil].
    destruct (intf_has_family i0 v4); [|apply all_resp_nil].
    intros o [<-|[]]. apply (Hd t m i v4). left. reflexivity.
Qed.

Lemma retransmit_resp st now js :
  retrans_ok st ->
  all_resp (snd (fst (retransmit st now js))) /\ retrans_ok (fst (fst (retransmit st now js))).
Proof.
  intros R. unfold retransmit.
  match goal with |- context [run_due ?s ?d now js] => pose proof (run_due_resp now d s js) as H end.
  destruct H as [H1 H2].
  - intros t m i v4 Hin. apply filter_In in Hin as [Hin _]. eapply R. eassumption.
  - split; [exact H1|]. apply H2. intros t m i v4 Hin. simpl in Hin. apply filter_In in Hin as [Hin _]. eapply R. eassumption.
Qed.

(* ---- the probing handler ------------------------------------------------------------------------------------------------------- *)

Lemma announce_waiting_facts itf now m : forall waiting rg svcs js,
  let r := announce_waiting waiting itf rg svcs now js m in
  QReach now rg (fst (fst (fst (fst r)))) /\ all_resp (snd (fst (fst r))) /\
  (forall t c, In (t, c) (snd (fst r)) -> exists f i, c = RegisterResend f i).
Proof.
  induction waiting as [|w t IH]; intros rg svcs js; simpl.
  - split; [apply QReach_refl|split; [apply all_resp_nil|intros ? ? []]].
  - destruct (aget (lower w) svcs) as [s|]; [|apply IH].
    destruct (announced_on (if_index itf) s); [apply IH|].
    pose proof (announce_both_reach s itf rg now js) as H1. pose proof (announce_both_resp s itf rg now js) as H2.
    destruct (announce_both s itf rg now js) as [[[rg1 os] ann] js1]. simpl in H1, H2.
    destruct ann.
    + specialize (IH rg1 (sput (lower w) (set_status (if_index itf) SAnnounced s) svcs) js1).
      destruct (announce_waiting t itf rg1 (sput (lower w) (set_status (if_index itf) SAnnounced s) svcs) now js1 m)
        as [[[[rg2 svcs2] os2] rt2] js2]. simpl in *. destruct IH as (I1 & I2 & I3).
      split; [eapply QReach_trans; eassumption|split].
      * apply all_resp_app; [assumption|]. apply all_resp_app; [|assumption]. apply ev_all_resp. exact I.
      * intros t0 c [Hc|Hc]; [inversion Hc; eauto|eauto].
    + specialize (IH rg1 svcs js1).
      destruct (announce_waiting t itf rg1 svcs now js1 m) as [[[[rg2 svcs2] os2] rt2] js2]. simpl in *.
      destruct IH as (I1 & I2 & I3).
      split; [eapply QReach_trans; eassumption|split; [apply all_resp_app; assumption|assumption]].
Qed.

Lemma probe_step_tick rg now rg1 qs evs w :
  probe_step rg now = (rg1, qs, evs, w) -> exists ex, tick_names rg now = (rg1, map fst qs, ex).
Proof.
  unfold probe_step, tick_names. destruct (check_probes (rg_probing rg) now) as [[ps qs0] ex0].
  destruct (expire_all (mkReg ps (rg_active rg) (rg_changes rg)) ex0) as [[rg' evs'] w'].
  intros H; inversion H; subst. eauto.
Qed.

(* one interface's registry during the probing handler: quiet operations only, or one probing
   pass followed by quiet operations *)
Definition tick_step (now : N) (rg rg' : registry) (qs : list bytes) : Prop :=
  (QReach now rg rg' /\ qs = []) \/
  (exists rg1 ex, tick_names rg now = (rg1, qs, ex) /\ QReach now rg1 rg').

Lemma probe_query_names qs : map fst (o_q (probe_query qs)) = map fst qs.
Proof. unfold probe_query. simpl. rewrite map_map. reflexivity. Qed.

Lemma probing_intfs_step now : forall ifs st js,
  NoDup (map if_index ifs) ->
  let r := probing_intfs ifs st now js in
  (forall k, ~ In k (map if_index ifs) ->
     reg_of (d_regs (fst (fst r))) k = reg_of (d_regs st) k /\ probe_names_on (snd (fst r)) k = []) /\
  (forall k, In k (map if_index ifs) ->
     exists qs, tick_step now (reg_of (d_regs st) k) (reg_of (d_regs (fst (fst r))) k) qs /\
                (forall n, In n (probe_names_on (snd (fst r)) k) -> In n qs)) /\
  (retrans_ok st -> retrans_ok (fst (fst r))).
Proof.
  induction ifs as [|itf t IH]; intros st js Hnd; simpl.
  - split; [intros k _; split; reflexivity|split; [intros k []|auto]].
  - inversion Hnd as [|x l Hnotin Hnd']; subst.
    destruct (nget (if_index itf) (d_regs st)) as [rg|] eqn:G.
    + destruct (probe_step rg now) as [[[rg1 qs] evs] waiting] eqn:Hps.
      destruct (probe_step_tick _ _ _ _ _ _ Hps) as (ex & Htick).
      pose proof (announce_waiting_facts itf now (d_mon st) waiting rg1 (d_svcs st) js) as Haw.
      destruct (announce_waiting waiting itf rg1 (d_svcs st) now js (d_mon st)) as [[[[rg2 svcs2] os2] rt2] js2].
      simpl in Haw. destruct Haw as (A1 & A2 & A3).
      set (st1 := mkD (d_intfs st) (nset (if_index itf) rg2 (d_regs st)) svcs2 (d_retrans st ++ rt2)
                      (d_mon st) (d_dead st) (d_os st) (d_sel st)).
      specialize (IH st1 js2 Hnd').
      destruct (probing_intfs t st1 now js2) as [[st2 os3] js3]. simpl in IH. destruct IH as (I1 & I2 & I3). simpl.
      assert (Hnev : all_resp (mon (d_mon st) (map (fun e : name_event => let '(o, n, ty) := e in ONameChange o n ty (if_name itf)) evs))).
      { apply mon_all_resp. intros o Ho. apply in_map_iff in Ho as ([[o1 n1] ty1] & <- & _). exact I. }
      assert (Hrest : forall k, probe_names_on
                 (mon (d_mon st) (map (fun e : name_event => let '(o, n, ty) := e in ONameChange o n ty (if_name itf)) evs)
                  ++ os2 ++ os3) k = probe_names_on os3 k).
      { intros k. rewrite !probe_names_app, (all_resp_no_probes _ k Hnev), (all_resp_no_probes _ k A2). reflexivity. }
      split; [|split].
      * intros k Hk. assert (k <> if_index itf) by (intros ->; apply Hk; left; reflexivity).
        destruct (I1 k (fun H0 => Hk (or_intror H0))) as [R1 R2]. split.
        -- rewrite R1. simpl. apply reg_of_nset_other. assumption.
        -- rewrite probe_names_app, Hrest, R2, app_nil_r.
           destruct qs; [reflexivity|]. unfold probe_names_on. apply flat_map_nil. intros o Ho.
           apply in_app_or in Ho as [Ho|Ho];
             [destruct (intf_has_family itf true)|destruct (intf_has_family itf false)]; simpl in Ho; try contradiction;
             destruct Ho as [<-|[]]; assert (if_index itf =? k = false) as -> by (apply N.eqb_neq; congruence); reflexivity.
      * intros k [Hk|Hk].
        -- subst k. exists (map fst qs). destruct (I1 (if_index itf) Hnotin) as [R1 R2]. split.
           ++ right. exists rg1, ex. split.
              ** unfold reg_of. rewrite G. exact Htick.
              ** rewrite R1. simpl. rewrite reg_of_nset_same. exact A1.
           ++ intros n Hn. rewrite probe_names_app, Hrest, R2, app_nil_r in Hn.
              destruct qs as [|q0 qs0]; [contradiction|].
              unfold probe_names_on in Hn. apply in_flat_map in Hn as (o & Ho & Hn).
              apply in_app_or in Ho as [Ho|Ho];
                [destruct (intf_has_family itf true)|destruct (intf_has_family itf false)]; simpl in Ho; try contradiction;
                destruct Ho as [<-|[]]; rewrite N.eqb_refl in Hn; simpl in Hn;
                rewrite map_map in Hn; simpl in Hn; exact Hn.
        -- assert (k <> if_index itf) by (intros ->; contradiction).
           destruct (I2 k Hk) as (qs' & T' & S'). exists qs'. split.
           ++ simpl in T'. rewrite reg_of_nset_other in T' by assumption. exact T'.
           ++ intros n Hn. apply S'. rewrite probe_names_app, Hrest in Hn.
              apply in_app_or in Hn as [Hn|Hn]; [|assumption]. exfalso.
              destruct qs; [contradiction|]. unfold probe_names_on in Hn. apply in_flat_map in Hn as (o & Ho & Hn).
              apply in_app_or in Ho as [Ho|Ho];
                [destruct (intf_has_family itf true)|destruct (intf_has_family itf false)]; simpl in Ho; try contradiction;
                destruct Ho as [<-|[]]; assert (if_index itf =? k = false) as E by (apply N.eqb_neq; congruence);
                rewrite E in Hn; contradiction.
      * intros R. apply I3. intros t0 m i v4 Hin. simpl in Hin. apply in_app_or in Hin as [Hin|Hin]; [eapply R; eassumption|].
        destruct (A3 _ _ Hin) as (f & i' & Hc). discriminate.
    + specialize (IH st js Hnd'). destruct (probing_intfs t st now js) as [[st2 os3] js3]. simpl in *.
      destruct IH as (I1 & I2 & I3). split; [|split; [|assumption]].
      * intros k Hk. apply I1. intros H0. apply Hk. right. assumption.
      * intros k [Hk|Hk].
        -- subst k. exists []. destruct (I1 (if_index itf) Hnotin) as [R1 R2]. split.
           ++ left. split; [rewrite R1; apply QReach_refl|reflexivity].
           ++ rewrite R2. intros n [].
        -- apply I2. assumption.
Qed.

(* ---- the interface table does not change without enable_interface / disable_interface ------------------------------------------ *)

Lemma handle_dgrams_intfs now : forall gs st js, d_intfs (fst (fst (handle_dgrams st gs now js))) = d_intfs st.
Proof.
  induction gs as [|g t IH]; intros st js; simpl; [reflexivity|].
  assert (H1 : d_intfs (fst (fst (handle_dgram st g now js))) = d_intfs st).
  { unfold handle_dgram. destruct (find_intf st (g_if g)); [|reflexivity].
    destruct (negb (intf_has_family i (g_v4 g))); [reflexivity|]. destruct (g_resp g).
    - unfold handle_response. destruct (find_intf st (g_if g)); [|reflexivity].
      destruct (nget (g_if g) (d_regs st)); [|reflexivity]. destruct (conflict_answers r (g_an g) now js). reflexivity.
    - unfold handle_query. destruct (nget (g_if g) (d_regs st)); [|reflexivity].
      destruct (find_intf st (g_if g)); [|reflexivity].
      destruct (handle_questions st g i0 r (g_q g) now) as [[rg' an] ar]. destruct an; reflexivity. }
  destruct (handle_dgram st g now js) as [[st1 os1] js1]. simpl in H1.
  specialize (IH st1 js1). destruct (handle_dgrams st1 t now js1) as [[st2 os2] js2]. simpl in *. congruence.
Qed.

Lemma register_resend_intfs st full i now js : d_intfs (fst (fst (register_resend st full i now js))) = d_intfs st.
Proof.
  unfold register_resend. destruct (aget (lower full) (d_svcs st)); [|reflexivity].
  destruct (nget i (d_regs st)); [|reflexivity]. destruct (find_intf st i); [|reflexivity].
  destruct (announce_both s i0 r now js) as [[[rg' os] ann] js']. destruct ann; reflexivity.
Qed.

Lemma exec_calls_intfs now : forall cs st js,
  Forall no_ifsel cs -> d_intfs (fst (fst (exec_calls st cs now js))) = d_intfs st.
Proof.
  induction cs as [|c t IH]; intros st js Hc; simpl; [reflexivity|].
  inversion Hc as [|x l Hx Ht]; subst.
  assert (H1 : d_intfs (fst (fst (fst (exec_call st c now js)))) = d_intfs st).
  { destruct c; simpl; try reflexivity; try contradiction.
    unfold register_service. destruct (register_intfs (d_intfs st) (auto_addrs st s) (d_regs st) now js) as [[[[s' regs] os] anns] js']. reflexivity. }
  destruct (exec_call st c now js) as [[[st1 os1] js1] stop]. simpl in H1.
  destruct stop; simpl; [assumption|].
  specialize (IH st1 js1 Ht). destruct (exec_calls st1 t now js1) as [[st2 os2] js2]. simpl in *. congruence.
Qed.

Lemma run_due_intfs now : forall due st js, d_intfs (fst (fst (run_due st due now js))) = d_intfs st.
Proof.
  induction due as [|[t c] r IH]; intros st js; simpl; [reflexivity|].
  destruct c as [full i|m i v4].
  - pose proof (register_resend_intfs st full i now js) as H1.
    destruct (register_resend st full i now js) as [[st1 os1] js1]. simpl in H1.
    specialize (IH st1 js1). destruct (run_due st1 r now js1) as [[st2 os2] js2]. simpl in *. congruence.
  - specialize (IH st js). destruct (run_due st r now js) as [[st2 os2] js2]. simpl in *. assumption.
Qed.

Lemma retransmit_intfs st now js : d_intfs (fst (fst (retransmit st now js))) = d_intfs st.
Proof. unfold retransmit. rewrite run_due_intfs. reflexivity. Qed.

Lemma probing_intfs_intfs now : forall ifs st js, d_intfs (fst (fst (probing_intfs ifs st now js))) = d_intfs st.
Proof.
  induction ifs as [|itf t IH]; intros st js; simpl; [reflexivity|].
  destruct (nget (if_index itf) (d_regs st)) as [rg|]; [|apply IH].
  destruct (probe_step rg now) as [[[rg1 qs] evs] waiting].
  destruct (announce_waiting waiting itf rg1 (d_svcs st) now js (d_mon st)) as [[[[rg2 svcs2] os2] rt2] js2].
  match goal with |- context [probing_intfs t ?s now js2] => specialize (IH s js2); destruct (probing_intfs t s now js2) as [[st2 os3] js3] end.
  simpl in *. exact IH.
Qed.

(* ---- an iteration's outputs are cut at the first send that cannot be written --------------------------------------------------------- *)

Lemma cut_names os k : forall n, In n (probe_names_on (fst (cut_at_panic os)) k) -> In n (probe_names_on os k).
Proof.
  induction os as [|o t IH]; intros n Hn; simpl in *; [assumption|].
  destruct o; simpl in *;
    try (destruct (cut_at_panic t) as [r p]; simpl in *; apply IH; exact Hn).
  destruct (msg_ok m).
  - destruct (cut_at_panic t) as [r p]. simpl in *. apply in_app_or in Hn as [Hn|Hn]; apply in_or_app; [left; assumption|right; apply IH; assumption].
  - simpl in Hn. contradiction.
Qed.

(* ---- the invariant along the operations of one iteration ------------------------------------------------------------------------------ *)

Lemma Inv_ext ps f f' t : (forall x, f x = f' x) -> Inv ps f t -> Inv ps f' t.
Proof.
  intros E [H1 H2 H3 H4]. constructor; [assumption| | |]; intros; rewrite <- E in *; eauto.
Qed.

Lemma quiet_ops_inv now : forall ops rg f t,
  quiet_ops now ops -> Inv (rg_probing rg) f t -> t <= now -> Inv (rg_probing (final_reg rg ops)) f now.
Proof.
  induction ops as [|[t0 o] r IH]; intros rg f t Q HI Hle; simpl.
  - eapply Inv_later; eassumption.
  - inversion Q as [|x l Hx Hr]; subst. destruct Hx as (Ht & Ho & Hcf). simpl in Ht, Ho, Hcf. subst t0.
    destruct (apply_op rg now o) as [[rg' qs] ex] eqn:Hop. simpl.
    destruct (apply_op_inv _ _ _ _ _ _ _ _ HI Hle Hop) as [HI' _].
    assert (qs = []) by (destruct o; try discriminate; simpl in Hop; inversion Hop; reflexivity). subst qs.
    apply (IH rg' f now Hr); [|lia]. eapply Inv_ext; [|exact HI'].
    intros x. unfold ghost_after. rewrite Hcf. reflexivity.
Qed.

Lemma QReach_inv now rg rg' f t :
  QReach now rg rg' -> Inv (rg_probing rg) f t -> t <= now -> Inv (rg_probing rg') f now.
Proof. intros (ops & Q & ->) HI Hle. eapply quiet_ops_inv; eassumption. Qed.

Lemma tick_step_inv now rg rg' qs f t :
  tick_step now rg rg' qs -> Inv (rg_probing rg) f t -> t <= now ->
  Inv (rg_probing rg') (upd_all f qs now) now /\
  (forall n, In n qs -> match f n with Some L => L + 250 <= now | None => True end).
Proof.
  intros [[Q ->]|(rg1 & ex & Ht & Q)] HI Hle.
  - split; [|intros n []]. eapply Inv_ext; [|eapply QReach_inv; eassumption]. intros x. reflexivity.
  - destruct (tick_names_inv _ _ _ _ _ _ _ HI Hle Ht) as (H1 & H2 & _). split.
    + eapply QReach_inv; [exact Q|exact H1|lia].
    + intros n Hn. apply H2. left. assumption.
Qed.

(* ---- one iteration, seen from the registry of interface k ------------------------------------------------------------------------------- *)

(* an iteration without response datagrams and without enable/disable_interface calls *)
Definition plain_iter (it : iter) : Prop := all_queries (it_dgrams it) /\ Forall no_ifsel (it_calls it).

Lemma all_queries_split gs :
  all_queries gs -> all_queries (filter (fun g : dgram => g_v4 g) gs ++ filter (fun g : dgram => negb (g_v4 g)) gs).
Proof.
  intros H. unfold all_queries in *. rewrite Forall_forall in H.
  apply Forall_app. split; apply Forall_forall; intros g Hg; apply filter_In in Hg as [Hg _]; auto.
Qed.

Lemma iterate_step k st it st' outs e js' f t :
  d_dead st = false -> NoDup (map if_index (d_intfs st)) -> retrans_ok st -> plain_iter it ->
  iterate st it = (st', outs, e, js') ->
  Inv (rg_probing (get_reg st k)) f t -> t <= it_now it ->
  exists qs,
    Inv (rg_probing (get_reg st' k)) (upd_all f qs (it_now it)) (it_now it) /\
    (forall n, In n qs -> match f n with Some L => L + 250 <= it_now it | None => True end) /\
    (forall n, In n (probe_names_on outs k) -> In n qs) /\
    retrans_ok st' /\ d_intfs st' = d_intfs st.
Proof.
  intros Halive Hnd Hret [Hq Hc] Hit HI Hle. unfold iterate in Hit. rewrite Halive in Hit.
  set (now := it_now it) in *.
  set (gs := filter (fun g : dgram => g_v4 g) (it_dgrams it) ++ filter (fun g : dgram => negb (g_v4 g)) (it_dgrams it)) in *.
  assert (Hqs : all_queries gs) by (apply all_queries_split; assumption).
  pose proof (handle_dgrams_reach now gs st (it_jitter it) Hqs) as Q1.
  pose proof (handle_dgrams_resp now gs st (it_jitter it)) as [P1 R1].
  pose proof (handle_dgrams_intfs now gs st (it_jitter it)) as F1.
  destruct (handle_dgrams st gs now (it_jitter it)) as [[st1 os1] js1]. simpl in Q1, P1, R1, F1.
  assert (Hret1 : retrans_ok st1) by (unfold retrans_ok; rewrite R1; exact Hret).
  pose proof (exec_calls_reach now (it_calls it) st1 js1 Hc) as Q2.
  pose proof (exec_calls_resp now (it_calls it) st1 js1 Hc) as [P2 R2].
  pose proof (exec_calls_intfs now (it_calls it) st1 js1 Hc) as F2.
  destruct (exec_calls st1 (it_calls it) now js1) as [[st2 os2] js2]. simpl in Q2, P2, R2, F2.
  specialize (R2 Hret1).
  assert (HI2 : Inv (rg_probing (reg_of (d_regs st2) k)) f now).
  { eapply QReach_inv; [eapply QReach_trans; [apply Q1|apply Q2]|exact HI|exact Hle]. }
  destruct (d_dead st2) eqn:D2.
  - (* the daemon exited while executing the calls *)
    destruct (cut_at_panic (os1 ++ os2)) as [os p] eqn:Ecut.
    inversion Hit; subst st' outs e js'; clear Hit.
    exists []. split; [|split; [intros n []|split; [|split]]].
    + simpl. eapply Inv_ext; [|exact HI2]. intros x. reflexivity.
    + intros n Hn. exfalso.
      assert (Hall : all_resp (os1 ++ os2)) by (apply all_resp_app; assumption).
      assert (Hn2 : In n (probe_names_on (os1 ++ os2) k)) by (apply cut_names; rewrite Ecut; exact Hn).
      rewrite (all_resp_no_probes _ k Hall) in Hn2. contradiction.
    + exact R2.
    + congruence.
  - pose proof (retransmit_reach st2 now js2) as Q3.
    pose proof (retransmit_resp st2 now js2 R2) as [P3 R3].
    pose proof (retransmit_intfs st2 now js2) as F3.
    destruct (retransmit st2 now js2) as [[st3 os3] js3]. simpl in Q3, P3, R3, F3.
    assert (HI3 : Inv (rg_probing (reg_of (d_regs st3) k)) f now).
    { eapply QReach_inv; [apply Q3|exact HI2|lia]. }
    unfold probing_handler in Hit.
    assert (Hnd3 : NoDup (map if_index (d_intfs st3))) by (rewrite F3, F2, F1; exact Hnd).
    pose proof (probing_intfs_step now (d_intfs st3) st3 js3 Hnd3) as (S1 & S2 & S3).
    pose proof (probing_intfs_intfs now (d_intfs st3) st3 js3) as F4.
    destruct (probing_intfs (d_intfs st3) st3 now js3) as [[st4 os4] js4]. simpl in S1, S2, S3, F4.
    destruct (cut_at_panic (os1 ++ os2 ++ os3 ++ os4)) as [os p] eqn:Ecut.
    assert (Hnames : forall n, In n (probe_names_on os k) -> In n (probe_names_on os4 k)).
    { intros n Hn.
      assert (Hn2 : In n (probe_names_on (os1 ++ os2 ++ os3 ++ os4) k)) by (apply cut_names; rewrite Ecut; exact Hn).
      rewrite !probe_names_app, (all_resp_no_probes _ k P1), (all_resp_no_probes _ k P2), (all_resp_no_probes _ k P3) in Hn2.
      exact Hn2. }
    assert (Hregs : d_regs st' = d_regs st4 /\ retrans_ok st' /\ d_intfs st' = d_intfs st /\ outs = os).
    { destruct p; inversion Hit; subst; simpl; (split; [reflexivity|split; [apply S3; exact R3|split; [congruence|reflexivity]]]). }
    destruct Hregs as (Hr & Hrt & Hif & ->).
    unfold get_reg. rewrite Hr. fold (reg_of (d_regs st4) k).
    destruct (in_dec N.eq_dec k (map if_index (d_intfs st3))) as [Hin|Hnin].
    + destruct (S2 k Hin) as (qs & T & Sub).
      destruct (tick_step_inv _ _ _ _ _ _ T HI3 ltac:(lia)) as [HI4 Hsp].
      exists qs. split; [exact HI4|split; [exact Hsp|split; [|split; assumption]]].
      intros n Hn. apply Sub. apply Hnames. exact Hn.
    + destruct (S1 k Hnin) as [E1 E2].
      exists []. split; [|split; [intros n []|split; [|split; assumption]]].
      * rewrite E1. eapply Inv_ext; [|exact HI3]. intros x. reflexivity.
      * intros n Hn. apply Hnames in Hn. rewrite E2 in Hn. contradiction.
Qed.

(* ---- the history theorem ---------------------------------------------------------------------------------------------------------------- *)

Definition lb_gaps (lo : option N) (l : list N) : Prop :=
  match lo, l with Some L, a :: _ => L + 250 <= a | _, _ => True end /\ gaps_250 l.

Lemma wire_dead k n : forall its st, d_dead st = true -> wire_probe_times k n st its = [].
Proof.
  induction its as [|it t IH]; intros st Hd; simpl; [reflexivity|].
  unfold iterate. rewrite Hd. simpl. apply IH. assumption.
Qed.

Lemma wire_spacing_gen k n : forall its st f t,
  Inv (rg_probing (get_reg st k)) f t -> retrans_ok st -> NoDup (map if_index (d_intfs st)) ->
  Forall plain_iter its -> iter_times_from t its -> lb_gaps (f n) (wire_probe_times k n st its).
Proof.
  induction its as [|it rest IH]; intros st f t HI Hret Hnd Hpl Hts; simpl.
  - split; [destruct (f n); exact I|exact I].
  - destruct Hts as [Hle Hrest]. inversion Hpl as [|x l Hp Hpr]; subst.
    destruct (d_dead st) eqn:Hd.
    + unfold iterate. rewrite Hd. simpl. rewrite wire_dead by assumption.
      split; [destruct (f n); exact I|exact I].
    + destruct (iterate st it) as [[[st' outs] e] js'] eqn:Hit.
      destruct (iterate_step k st it st' outs e js' f t Hd Hnd Hret Hp Hit HI Hle) as (qs & HI' & Hsp & Hsub & Hret' & Hif).
      assert (Hnd' : NoDup (map if_index (d_intfs st'))) by (rewrite Hif; exact Hnd).
      specialize (IH st' (upd_all f qs (it_now it)) (it_now it) HI' Hret' Hnd' Hpr Hrest).
      destruct IH as [B G]. unfold upd_all in B.
      destruct (mem n (probe_names_on outs k)) eqn:M.
      * apply mem_In in M. apply Hsub in M. assert (M' := M). apply mem_In in M'. rewrite M' in B.
        simpl. split; [specialize (Hsp n M); destruct (f n); [exact Hsp|exact I]|].
        destruct (wire_probe_times k n st' rest) eqn:W; [exact I|]. split; [exact B|exact G].
      * simpl. split; [|exact G].
        destruct (wire_probe_times k n st' rest) as [|a l] eqn:W; [destruct (f n); exact I|].
        destruct (mem n qs) eqn:Mq; simpl in B.
        -- apply mem_In in Mq. specialize (Hsp n Mq). destruct (f n) as [L|]; [|exact I]. lia.
        -- destruct (f n); exact B.
Qed.

(* In every history of the daemon model without response datagrams and without
   enable/disable_interface calls - any interface table without repeated indexes, any query
   datagrams (competing probes included), register / unregister / shutdown calls, jitter values, at
   any nondecreasing iteration times - the iterations that put a probe query for a name on an
   interface are at least 250 ms apart.  (A conflicting response restarts probes at now + 0..250, a
   removed interface takes its registry with it: across those events the count starts afresh,
   see spaced_250.) *)
Theorem wire_probe_spacing ifs its t0 k n :
  NoDup (map if_index ifs) -> Forall plain_iter its -> iter_times_from t0 its ->
  gaps_250 (wire_probe_times k n (d_init ifs) its).
Proof.
  intros Hnd Hpl Hts.
  apply (wire_spacing_gen k n its (d_init ifs) (fun _ => None) t0).
  - unfold get_reg. simpl. apply Inv_init.
  - intros t m i v4 [].
  - exact Hnd.
  - exact Hpl.
  - exact Hts.
Qed.
