(* The definitions regenerated from the Rust sources (Gen/ParamsResponder.v) pinned to the literal
   numbers and comparison directions the texts of C06 / C18 use.  A changed constant or flipped
   comparison in /repo makes one of these `reflexivity` proofs fail. *)
From Coq Require Import NArith Bool.
From Mdns Require Import ParamsResponder.
Open Scope N_scope.

Lemma dns_host_ttl_pinned : dns_host_ttl = 120.                  Proof. reflexivity. Qed.
Lemma dns_other_ttl_pinned : dns_other_ttl = 4500.               Proof. reflexivity. Qed.
Lemma mdns_port_pinned : mdns_port = 5353.                       Proof. reflexivity. Qed.
Lemma response_flags_pinned : N.lor flags_qr_response flags_aa = 33792.  Proof. reflexivity. Qed.
Lemma class_in_pinned : class_in = 1.                            Proof. reflexivity. Qed.
Lemma class_cache_flush_pinned : class_cache_flush = 32768.      Proof. reflexivity. Qed.
Lemma class_mask_pinned : class_mask = 32767.                    Proof. reflexivity. Qed.
Lemma suppress_ttl_test_pinned o s : suppress_ttl_test o s = (s / 2 <? o).   Proof. reflexivity. Qed.
Lemma respond_guard_pinned n : respond_guard n = (0 <? n).       Proof. reflexivity. Qed.
Lemma legacy_unicast_test_pinned p : legacy_unicast_test p = negb (p =? 5353).  Proof. reflexivity. Qed.
Lemma outgoing_multicast_default_pinned : outgoing_multicast_default = true.    Proof. reflexivity. Qed.
Lemma wire_id_when_multicast_pinned : wire_id_when_multicast = 0.               Proof. reflexivity. Qed.
Lemma selection_default_pinned : selection_default = true.       Proof. reflexivity. Qed.
Lemma apply_selection_default_pinned : apply_selection_default = true.  Proof. reflexivity. Qed.
Lemma subnet_test_v4_pinned a b : subnet_test_v4 a b = (a =? b). Proof. reflexivity. Qed.
Lemma subnet_test_v6_pinned a b : subnet_test_v6 a b = (a =? b). Proof. reflexivity. Qed.
Lemma ip_check_due_pinned now next : ip_check_due now next = (next <=? now).    Proof. reflexivity. Qed.
Lemma ip_check_default_pinned : ip_check_default_millis = 5000.  Proof. reflexivity. Qed.
Lemma legacy_multicast_flag_pinned : legacy_multicast_flag = false.       Proof. reflexivity. Qed.
