(* C10 querier side over histories: every query the daemon-level model sends in any reachable
   history lists as known answers exactly what the property prescribes for the cache as it is
   after the records of that iteration have been taken in. *)
From Coq Require Import List NArith Bool Lia.
From Mdns Require Import Res Bytes Rec ParamsLife Life LifeSpec LifeCache LifeCacheSpec
  LifeProofs LifeCacheProofs LifeSimProofs LifeSimInst LifeMapProofs.
Import ListNotations.
Open Scope N_scope.

Notation tcache := (cache trec).
Notation getb := (get_bucket trec).
Notation setb := (set_bucket trec).

(* ---- what refreshing leaves alone ---- *)

Definition S (e e' : tentry) : Prop :=
  c_id e = c_id e' /\ t_ttl (c_t e) = t_ttl (c_t e') /\ t_created (c_t e) = t_created (c_t e').

Lemma refresh_no_more_keeps r r' : refresh_no_more r = Ok r' -> t_ttl r' = t_ttl r /\ t_created r' = t_created r.
Proof. unfold refresh_no_more. destruct (exp_time _ _ _); simpl; intros H; inversion H; auto. Qed.

Lemma refresh_maybe_keeps r now r' b :
  refresh_maybe r now = Ok (r', b) -> t_ttl r' = t_ttl r /\ t_created r' = t_created r.
Proof.
  unfold refresh_maybe.
  destruct (is_expired r now || negb (refresh_due r now)); [intros H; inversion H; auto|].
  destruct (exp_time _ _ ladder_from1); simpl; try discriminate.
  destruct (_ =? _).
  { destruct (exp_time _ _ _); simpl; intros H; inversion H; auto. }
  destruct (exp_time _ _ ladder_from2); simpl; try discriminate.
  destruct (_ =? _).
  { destruct (exp_time _ _ _); simpl; intros H; inversion H; auto. }
  destruct (exp_time _ _ ladder_from3); simpl; try discriminate.
  destruct (_ =? _).
  { destruct (exp_time _ _ _); simpl; intros H; inversion H; auto. }
  destruct (refresh_no_more r) eqn:E; simpl; intros H; inversion H; subst.
  apply refresh_no_more_keeps; assumption.
Qed.

Lemma refresh_once_keeps r now r' b :
  refresh_once r now = Ok (r', b) -> t_ttl r' = t_ttl r /\ t_created r' = t_created r.
Proof.
  unfold refresh_once. destruct (_ || _); [intros H; inversion H; auto|].
  destruct (refresh_no_more r) eqn:E; simpl; intros H; inversion H; subst.
  apply refresh_no_more_keeps; assumption.
Qed.

Lemma refresh_bucket_S now : forall (b b' : tbucket) any,
  refresh_bucket trec trec_ops b now = Ok (b', any) -> Forall2 S b b'.
Proof.
  induction b as [|e b IH]; intros b' any H; simpl in H.
  - inversion H; constructor.
  - apply bind_ok_inv in H as ([t' d] & H1 & H). apply bind_ok_inv in H as ([r a] & H2 & H).
    inversion H; subst. constructor; [|eapply IH; eauto].
    apply refresh_maybe_keeps in H1 as [? ?]. repeat split; simpl; auto.
Qed.

Lemma refresh_once_bucket_S now : forall (b b' : tbucket) due,
  refresh_once_bucket trec trec_ops b now = Ok (b', due) -> Forall2 S b b'.
Proof.
  induction b as [|e b IH]; intros b' due H; simpl in H.
  - inversion H; constructor.
  - apply bind_ok_inv in H as ([t' d] & H1 & H). apply bind_ok_inv in H as ([r a] & H2 & H).
    inversion H; subst. constructor; [|eapply IH; eauto].
    apply refresh_once_keeps in H1 as [? ?]. repeat split; simpl; auto.
Qed.

Definition E (c c' : tcache) : Prop := forall k, Forall2 S (getb c k) (getb c' k).

Lemma S_refl e : S e e. Proof. repeat split. Qed.
Lemma Forall2_S_refl (b : tbucket) : Forall2 S b b.
Proof. induction b; constructor; auto using S_refl. Qed.
Lemma E_refl c : E c c. Proof. intros k. apply Forall2_S_refl. Qed.

Lemma Forall2_S_trans (a b c : tbucket) : Forall2 S a b -> Forall2 S b c -> Forall2 S a c.
Proof.
  intros H. revert c. induction H as [|x y a b Hxy Hab IH]; intros c Hc; inversion Hc; subst; constructor.
  - destruct Hxy as (? & ? & ?), H1 as (? & ? & ?). repeat split; congruence.
  - apply IH. assumption.
Qed.
Lemma E_trans a b c : E a b -> E b c -> E a c.
Proof. intros H1 H2 k. eapply Forall2_S_trans; eauto. Qed.

Lemma E_set c k b' : wf trec c -> Forall2 S (getb c k) b' -> E c (setb c k b').
Proof.
  intros Hw H k2. rewrite get_set by assumption. destruct (key_eqb k2 k) eqn:Ek.
  - apply key_eqb_eq in Ek. subst. assumption.
  - apply Forall2_S_refl.
Qed.

Lemma refresh_srv_txt_E now : forall insts c c' acc acc',
  wf trec c -> refresh_srv_txt trec trec_ops c now insts acc = Ok (c', acc') -> E c c'.
Proof.
  induction insts as [|i insts IH]; intros c c' acc acc' Hw H; simpl in H.
  - inversion H; subst. apply E_refl.
  - apply bind_ok_inv in H as ([bs ds] & H1 & H). apply bind_ok_inv in H as ([bt dt] & H2 & H).
    pose proof (E_set c (1, i) bs Hw (refresh_bucket_S _ _ _ _ H1)) as E1.
    pose proof (set_wf trec c (1, i) bs Hw) as W1.
    pose proof (E_set _ (2, i) bt W1 (refresh_bucket_S _ _ _ _ H2)) as E2.
    eapply E_trans; [exact E1|]. eapply E_trans; [exact E2|].
    eapply IH; [|exact H]. auto using set_wf.
Qed.

Lemma refresh_hosts_E now : forall hosts c c' qs,
  wf trec c -> refresh_hosts trec trec_ops c now hosts = Ok (c', qs) -> E c c'.
Proof.
  induction hosts as [|h hosts IH]; intros c c' qs Hw H; simpl in H.
  - inversion H; subst. apply E_refl.
  - apply bind_ok_inv in H as ([b d] & H1 & H). apply bind_ok_inv in H as ([c2 q2] & H2 & H).
    inversion H; subst.
    eapply E_trans; [apply (E_set c (3, lower h) b Hw (refresh_bucket_S _ _ _ _ H1))|].
    eapply IH; [|exact H2]. auto using set_wf.
Qed.

(* ---- known answers depend only on identity, TTL and creation time ---- *)

Lemma ka_ttl_trec_S r r' now :
  t_ttl r = t_ttl r' -> t_created r = t_created r' -> ka_ttl_trec r now = ka_ttl_trec r' now.
Proof.
  destruct r as [t c e f], r' as [t' c' e' f']. simpl. intros -> ->.
  unfold ka_ttl_trec, halflife_passed, update_ttl. simpl.
  destruct (exp_time c' t' halflife_percent); simpl; try reflexivity.
  destruct (halflife_passed_g now a); [reflexivity|].
  destruct (update_ttl_guard now c'); [|reflexivity].
  destruct (t' <? _); reflexivity.
Qed.

Lemma known_answers_S now : forall (b b' : tbucket),
  Forall2 S b b' -> known_answers trec trec_ops b now = known_answers trec trec_ops b' now.
Proof.
  intros b b' H. induction H as [|e e' b b' (Hid & Ht & Hc) Hb IH]; [reflexivity|].
  simpl. rewrite IH, Hid, (ka_ttl_trec_S _ _ now Ht Hc). reflexivity.
Qed.

Lemma ka_of_questions_E c c' now : forall qs,
  E c c' -> ka_of_questions trec trec_ops c qs now = ka_of_questions trec trec_ops c' qs now.
Proof.
  intros qs HE. induction qs as [|[n t] qs IH]; [reflexivity|].
  simpl. rewrite IH. unfold ka_of. destruct (kind_of_type t); [|reflexivity].
  rewrite (known_answers_S now _ _ (HE _)). reflexivity.
Qed.

Lemma mk_query_E c c' qs now : E c c' -> mk_query trec trec_ops c qs now = mk_query trec trec_ops c' qs now.
Proof. intros HE. unfold mk_query. rewrite (ka_of_questions_E c c' now qs HE). reflexivity. Qed.

(* ---- the list is what the property prescribes ---- *)

Definition cache_ok (c : tcache) : Prop := forall k, Forall entry_ok (getb c k).

Lemma Rc_cache_ok c c2 : Rc trec astate R c c2 -> cache_ok c.
Proof.
  intros H k. pose proof (get_bucket_rel trec astate R k c c2 H) as Hb.
  induction Hb as [|e1 e2 b1 b2 [_ HR] Hb IH]; constructor; auto.
  destruct (R_fields _ _ HR) as (Ht & Hc & _ & _ & Htb & Hcb). split; [rewrite Hc | rewrite Ht]; assumption.
Qed.

Lemma ka_of_questions_spec c now : forall qs,
  cache_ok c -> ka_of_questions trec trec_ops c qs now = Ok (ka_of_spec c qs now).
Proof.
  intros qs Hok. induction qs as [|[n t] qs IH]; [reflexivity|].
  simpl. rewrite IH. unfold ka_of, ka_of_spec at 2, question_key. simpl.
  destruct (kind_of_type t) as [k|]; simpl.
  - rewrite known_answers_spec by apply Hok. reflexivity.
  - reflexivity.
Qed.

Lemma mk_query_spec c qs now q :
  cache_ok c -> mk_query trec trec_ops c qs now = Ok q ->
  qd_questions q = qs /\ qd_answers q = ka_of_spec c qs now.
Proof.
  intros Hok. unfold mk_query. rewrite (ka_of_questions_spec c now qs Hok). simpl.
  intros H. inversion H. split; reflexivity.
Qed.

Definition good_query (c0 : tcache) (now : N) (q : qdesc) : Prop :=
  qd_answers q = ka_of_spec c0 (qd_questions q) now.

Lemma mk_queries_good c0 c now : forall qss qs,
  cache_ok c0 -> E c0 c -> mk_queries trec trec_ops c qss now = Ok qs -> Forall (good_query c0 now) qs.
Proof.
  induction qss as [|x qss IH]; intros qs Hok HE H; simpl in H.
  - inversion H; constructor.
  - apply bind_ok_inv in H as (q & H1 & H). apply bind_ok_inv in H as (r & H2 & H). inversion H; subst.
    constructor; [|eapply IH; eauto].
    rewrite <- (mk_query_E c0 c x now HE) in H1.
    destruct (mk_query_spec c0 x now q Hok H1) as [Hq Ha]. unfold good_query. rewrite Hq. exact Ha.
Qed.

Lemma repeat_q_good c0 now n q : good_query c0 now q -> Forall (good_query c0 now) (repeat_q n q).
Proof. intros H. induction n; simpl; constructor; auto. Qed.

Lemma refresh_browse_good c0 now ty c' qs :
  wf trec c0 -> cache_ok c0 -> refresh_browse trec trec_ops c0 now ty = Ok (c', qs) ->
  Forall (good_query c0 now) qs /\ E c0 c' /\ wf trec c'.
Proof.
  intros Hw Hok H. pose proof (refresh_browse_wf trec trec_ops _ _ _ _ _ Hw H) as Wc'.
  unfold refresh_browse in H.
  apply bind_ok_inv in H as ([bp dp] & Hp & H). apply bind_ok_inv in H as (qp & Hqp & H).
  apply bind_ok_inv in H as ([c2 due] & H2 & H). apply bind_ok_inv in H as (qi & Hqi & H).
  apply bind_ok_inv in H as ([c3 hq] & H3 & H). apply bind_ok_inv in H as (qh & Hqh & H).
  inversion H; subst.
  pose proof (E_set c0 (0, ty) bp Hw (refresh_bucket_S _ _ _ _ Hp)) as E1.
  pose proof (set_wf trec c0 (0, ty) bp Hw) as W1.
  pose proof (E_trans _ _ _ E1 (refresh_srv_txt_E _ _ _ _ _ _ W1 H2)) as E2.
  pose proof (refresh_srv_txt_wf trec trec_ops _ _ _ _ _ _ W1 H2) as W2.
  pose proof (E_trans _ _ _ E2 (refresh_hosts_E _ _ _ _ _ W2 H3)) as E3.
  split; [|split; assumption].
  apply Forall_app; split; [eapply mk_queries_good; [exact Hok | exact E1 | exact Hqp]|].
  apply Forall_app; split; [eapply mk_queries_good; [exact Hok | exact E2 | exact Hqi]|].
  eapply mk_queries_good; [exact Hok | exact E3 | exact Hqh].
Qed.

Lemma refresh_host_good c0 c now h c' qs :
  wf trec c -> cache_ok c0 -> E c0 c -> refresh_host trec trec_ops c now h = Ok (c', qs) ->
  Forall (good_query c0 now) qs.
Proof.
  intros Hw Hok HE H. unfold refresh_host in H.
  apply bind_ok_inv in H as ([b due] & Hb & H). apply bind_ok_inv in H as (q & Hq & H).
  inversion H; subst.
  eapply mk_queries_good; [exact Hok | | exact Hq].
  eapply E_trans; [exact HE|]. apply E_set; [assumption|]. eapply refresh_once_bucket_S; eauto.
Qed.

(* one iteration from a cache that is well-formed and within the bounds *)
Lemma sim_iter_queries_good cfg c c2 now nsb nsh recs c' o :
  wf trec c -> Rc trec astate R c c2 -> now < B63 -> Forall rec_ok recs ->
  sim_iter trec trec_ops cfg c now nsb nsh recs = Ok (c', o) ->
  exists c0, ingest trec trec_ops c now recs = Ok c0 /\ Forall (good_query c0 now) (io_queries o).
Proof.
  intros Hw HRc Hn Hr H.
  destruct (ingest_rel trec astate trec_ops astate_ops R trec_astate_rel now recs c c2 HRc Hn Hr)
    as (c0 & c0s & I1 & _ & HRc0).
  exists c0. split; [exact I1|].
  pose proof (Rc_cache_ok _ _ HRc0) as Hok.
  pose proof (ingest_wf trec trec_ops now recs c c0 Hw I1) as W0.
  unfold sim_iter in H. rewrite I1 in H. simpl in H.
  apply bind_ok_inv in H as (qb & Hqb & H). apply bind_ok_inv in H as (qh & Hqh & H).
  apply bind_ok_inv in H as ([c1 qr] & H1 & H). apply bind_ok_inv in H as ([c2' qa] & H2 & H).
  destruct (evict_services trec trec_ops c2' now (sc_browse cfg)) as [c3 rs].
  destruct (evict_addrs trec trec_ops c3 now (sc_host cfg)) as [c4 ra].
  inversion H; subst. simpl.
  assert (Gb : Forall (good_query c0 now) qb).
  { destruct (sc_browse cfg) as [ty|]; [|inversion Hqb; constructor].
    apply bind_ok_inv in Hqb as (q & Hq & Hqb). inversion Hqb; subst. apply repeat_q_good.
    destruct (mk_query_spec c0 _ now q Hok Hq) as [Hqq Ha]. unfold good_query. rewrite Hqq. exact Ha. }
  assert (Gh : Forall (good_query c0 now) qh).
  { destruct (sc_host cfg) as [h|]; [|inversion Hqh; constructor].
    apply bind_ok_inv in Hqh as (q & Hq & Hqh). inversion Hqh; subst. apply repeat_q_good.
    destruct (mk_query_spec c0 _ now q Hok Hq) as [Hqq Ha]. unfold good_query. rewrite Hqq. exact Ha. }
  assert (Gr : Forall (good_query c0 now) qr /\ E c0 c1 /\ wf trec c1).
  { destruct (sc_browse cfg) as [ty|].
    - eapply refresh_browse_good; eauto.
    - inversion H1; subst. split; [constructor | split; [apply E_refl | assumption]]. }
  destruct Gr as (Gr & E1 & W1).
  assert (Ga : Forall (good_query c0 now) qa).
  { destruct (sc_host cfg) as [h|]; [|inversion H2; constructor].
    eapply refresh_host_good; eauto. }
  repeat (apply Forall_app; split); assumption.
Qed.

(* reachable caches are well-formed and within the bounds *)
Lemma reach_inv cfg c : reach cfg c -> wf trec c /\ exists c2, Rc trec astate R c c2.
Proof.
  induction 1 as [|c s c' o Hr [Hw (c2 & HRc)] [Hn Hrec] Hs].
  - split; [constructor | exists []; constructor].
  - split; [eapply sim_iter_wf; eauto|].
    destruct (sim_iter_rel trec astate trec_ops astate_ops R trec_astate_rel cfg c c2 _ (ss_nsb s) (ss_nsh s) _ HRc Hn Hrec)
      as (c1' & c2' & o1 & o2 & E1 & _ & HRc' & _).
    rewrite Hs in E1. inversion E1; subst. exists c2'. assumption.
Qed.

(* every query sent in an iteration from a reachable cache *)
Theorem reach_queries_good cfg c s c' o :
  reach cfg c -> step_ok s ->
  sim_iter trec trec_ops cfg c (ss_now s) (ss_nsb s) (ss_nsh s) (ss_recs s) = Ok (c', o) ->
  exists c0, ingest trec trec_ops c (ss_now s) (ss_recs s) = Ok c0 /\
             Forall (fun q => qd_answers q = ka_of_spec c0 (qd_questions q) (ss_now s)) (io_queries o).
Proof.
  intros Hr [Hn Hrec] H. destruct (reach_inv cfg c Hr) as [Hw (c2 & HRc)].
  eapply sim_iter_queries_good; eauto.
Qed.

(* ... and over whole runs of the model: the i-th observation comes from a reachable cache *)
Lemma sim_run_good cfg : forall steps c obs,
  reach cfg c -> Forall step_ok steps -> sim_run trec trec_ops cfg c steps = Ok obs ->
  Forall2 (fun s o => exists c c0, reach cfg c /\ ingest trec trec_ops c (ss_now s) (ss_recs s) = Ok c0 /\
             Forall (fun q => qd_answers q = ka_of_spec c0 (qd_questions q) (ss_now s)) (io_queries o)) steps obs.
Proof.
  induction steps as [|s steps IH]; intros c obs Hr Hs H; simpl in H.
  - inversion H; constructor.
  - inversion Hs as [|? ? Hs1 Hs2]; subst.
    apply bind_ok_inv in H as ([c' o] & H1 & H). apply bind_ok_inv in H as (os & H2 & H). inversion H; subst.
    constructor.
    + destruct (reach_queries_good cfg c s c' o Hr Hs1 H1) as (c0 & I & G). exists c, c0. auto.
    + apply (IH c' os); [eapply reach_step; eauto | assumption | assumption].
Qed.

Theorem model_run_known_answers cfg steps obs :
  Forall step_ok steps -> model_run cfg steps = Ok obs ->
  Forall2 (fun s o => exists c c0, reach cfg c /\ ingest trec trec_ops c (ss_now s) (ss_recs s) = Ok c0 /\
             Forall (fun q => qd_answers q = ka_of_spec c0 (qd_questions q) (ss_now s)) (io_queries o)) steps obs.
Proof. intros Hs H. eapply sim_run_good; eauto. constructor. Qed.
