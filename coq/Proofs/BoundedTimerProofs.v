(* C20, the timer heap over all states (hence all histories) of the size model, either rule:
   - entries leave the heap only by being popped, and every entry whose time has come is popped:
     after an iteration at time `now` the heap is (old heap ++ what this iteration's responses
     pushed), restricted to times > now, followed by what the rest of the iteration pushed;
   - nothing is pushed without work: an iteration without responses, calls, due retransmission,
     browsed type and due interface check only pops.
   No axioms. *)
From Coq Require Import List NArith Bool Lia.
From Mdns Require Import Bytes ParamsHostres HostresBase BoundedModel BoundedSpec HostresPinned BoundedProofs.
Import ListNotations.
Open Scope N_scope.

Definition ext (l l' : list N) : Prop := exists e, l' = l ++ e.
Lemma ext_refl l : ext l l. Proof. exists []. rewrite app_nil_r. reflexivity. Qed.
Lemma ext_trans a b c : ext a b -> ext b c -> ext a c.
Proof. intros [e1 ->] [e2 ->]. exists (e1 ++ e2). rewrite app_assoc. reflexivity. Qed.
Lemma ext_app l e : ext l (l ++ e). Proof. exists e. reflexivity. Qed.

Lemma add_retr_ext t c s : ext (b_timers s) (b_timers (add_retr t c s)).
Proof. apply ext_app. Qed.

Lemma add_pending_ext now s i : ext (b_timers s) (b_timers (add_pending now s i)).
Proof. unfold add_pending. destruct (mem i (b_pending s)); [apply ext_refl|]. simpl. apply ext_app. Qed.

Lemma fold_add_pending_ext now l : forall s, ext (b_timers s) (b_timers (fold_left (add_pending now) l s)).
Proof.
  induction l as [|i t IH]; intros s; simpl; [apply ext_refl|].
  eapply ext_trans; [apply add_pending_ext|apply IH].
Qed.

Lemma settle_ext u now s l : ext (b_timers s) (b_timers (settle u now s l)).
Proof. unfold settle. eapply ext_trans; [|apply fold_add_pending_ext]. simpl. apply ext_refl. Qed.

Lemma resolve_updated_ext now s l : ext (b_timers s) (b_timers (resolve_updated now s l)).
Proof. unfold resolve_updated. destruct l; [apply ext_refl|apply settle_ext]. Qed.

Lemma handle_response_ext pol now s m : ext (b_timers s) (b_timers (handle_response pol now s m)).
Proof.
  unfold handle_response.
  destruct (fold_left _ (bm_recs m) (b_cache s, [], [], b_excess s)) as [[[c tm] ch] ex].
  eapply ext_trans; [|apply resolve_updated_ext]. simpl. apply ext_app.
Qed.

Lemma fold_responses_ext pol now ms : forall s, ext (b_timers s) (b_timers (fold_left (handle_response pol now) ms s)).
Proof.
  induction ms as [|m t IH]; intros s; simpl; [apply ext_refl|].
  eapply ext_trans; [apply handle_response_ext|apply IH].
Qed.

Lemma host_send_ext now host delay s : ext (b_timers s) (b_timers (host_send now host delay s)).
Proof.
  unfold host_send. destruct (match aget _ _ with Some (Some d) => _ | _ => true end); [apply add_retr_ext|apply ext_refl].
Qed.

Lemma exec_call_ext now acc c : ext (b_timers (fst acc)) (b_timers (fst (exec_call now acc c))).
Proof.
  destruct acc as [s out]. destruct c; cbn [exec_call fst].
  - unfold browse_send. eapply ext_trans; [|apply add_retr_ext]. eapply ext_trans; [|apply settle_ext]. simpl. apply ext_refl.
  - destruct (mem ty (b_queriers s)); apply ext_refl.
  - eapply ext_trans; [|apply host_send_ext]. simpl. apply ext_app.
  - destruct (ahas (lower host) (b_resolvers s)); apply ext_refl.
  - apply ext_refl.
  - apply ext_refl.
Qed.

Lemma fold_calls_ext now cs : forall acc, ext (b_timers (fst acc)) (b_timers (fst (fold_left (exec_call now) cs acc))).
Proof.
  induction cs as [|c t IH]; intros acc; simpl; [apply ext_refl|].
  eapply ext_trans; [apply exec_call_ext|apply IH].
Qed.

Lemma exec_rerun_ext now s x : ext (b_timers s) (b_timers (exec_rerun now s x)).
Proof.
  unfold exec_rerun. destruct (snd x).
  - apply add_retr_ext.
  - destruct (_ && _); [apply add_retr_ext|apply ext_refl].
  - destruct (ahas _ _); [apply host_send_ext|apply ext_refl].
Qed.

Lemma do_reruns_ext now s : ext (b_timers s) (b_timers (do_reruns now s)).
Proof.
  unfold do_reruns.
  assert (G : forall l s0, ext (b_timers s0) (b_timers (fold_left (exec_rerun now) l s0))).
  { induction l as [|x t IH]; intros s0; simpl; [apply ext_refl|]. eapply ext_trans; [apply exec_rerun_ext|apply IH]. }
  eapply ext_trans; [|apply G]. simpl. apply ext_refl.
Qed.

Lemma do_refresh_ext now s : ext (b_timers s) (b_timers (do_refresh now s)).
Proof. unfold do_refresh. destruct (fold_left (refresh_type now) (b_queriers s) (b_cache s, [])). simpl. apply ext_app. Qed.

Lemma do_evict_ext now s : ext (b_timers s) (b_timers (do_evict now s)).
Proof.
  unfold do_evict.
  match goal with |- context [fold_left ?f ?hs ?st] =>
    assert (G : forall l0 s0, ext (b_timers s0) (b_timers (fold_left f l0 s0))) end.
  { induction l0 as [|h l0 IH]; intros s0; simpl; [apply ext_refl|]. eapply ext_trans; [apply resolve_updated_ext|apply IH]. }
  eapply ext_trans; [|apply G]. simpl. apply ext_refl.
Qed.

Lemma ip_check_ext now s : ext (b_timers s) (b_timers (ip_check now s)).
Proof.
  unfold ip_check. destruct (b_ip_interval s =? 0); [simpl; apply ext_app|].
  destruct (b_next_ip s =? 0); [simpl; apply ext_app|].
  destruct (hp_ip_check_due now (b_next_ip s)); [simpl; apply ext_app|apply ext_refl].
Qed.

(* entries leave the heap only when their time has come, and then they do *)
Theorem timers_step_shape pol s i :
  exists pushed_by_responses pushed_later,
    b_timers (fst (step pol s i))
    = filter (fun v => bi_now i <? v) (b_timers s ++ pushed_by_responses) ++ pushed_later.
Proof.
  unfold step. set (now := bi_now i).
  destruct (fold_responses_ext pol now (bi_msgs i) s) as [e1 E1].
  set (s1 := fold_left (handle_response pol now) (bi_msgs i) s) in *.
  set (s2 := do_timeouts now (pop_timers now s1)).
  assert (E2 : b_timers s2 = filter (fun v => now <? v) (b_timers s ++ e1)).
  { unfold s2, do_timeouts, pop_timers. cbn [b_timers]. rewrite E1. reflexivity. }
  pose proof (fold_calls_ext now (bi_calls i) (s2, [])) as H3.
  destruct (fold_left (exec_call now) (bi_calls i) (s2, [])) as [s3 out]. cbn [fst] in *.
  assert (H7 : ext (b_timers s2) (b_timers (ip_check now (do_evict now (do_refresh now (do_reruns now s3)))))).
  { eapply ext_trans; [exact H3|]. eapply ext_trans; [apply do_reruns_ext|].
    eapply ext_trans; [apply do_refresh_ext|]. eapply ext_trans; [apply do_evict_ext|apply ip_check_ext]. }
  destruct H7 as [e2 E7]. exists e1, e2. rewrite E7, E2. reflexivity.
Qed.

(* so every entry of the old heap that is still there afterwards has its time in the future *)
Corollary timers_kept_are_future pol s i :
  exists kept pushed_later,
    b_timers (fst (step pol s i)) = kept ++ pushed_later /\ Forall (fun v => bi_now i < v) kept
    /\ (forall v, In v (b_timers s) -> bi_now i < v -> In v kept)
    /\ (forall v, In v (b_timers s) -> v <= bi_now i -> ~ In v kept).
Proof.
  destruct (timers_step_shape pol s i) as [e1 [e2 E]].
  exists (filter (fun v => bi_now i <? v) (b_timers s ++ e1)), e2. split; [exact E|]. split; [|split].
  - apply Forall_forall. intros v Hv. apply filter_In in Hv as [_ Hv]. apply N.ltb_lt. exact Hv.
  - intros v Hv Hlt. apply filter_In. split; [apply in_or_app; left; exact Hv|apply N.ltb_lt; exact Hlt].
  - intros v _ Hle Hin. apply filter_In in Hin as [_ Hin]. apply N.ltb_lt in Hin. lia.
Qed.

(* nothing is pushed without work *)
Theorem timers_idle_step pol s i :
  bi_msgs i = [] -> bi_calls i = [] -> b_queriers s = [] ->
  Forall (fun x => hp_rerun_due (bi_now i) (fst x) = false) (b_retr s) ->
  (b_ip_interval s = 0 \/ (b_next_ip s <> 0 /\ bi_now i < b_next_ip s)) ->
  b_timers (fst (step pol s i)) = filter (fun v => bi_now i <? v) (b_timers s).
Proof.
  intros Hm Hc Hq Hr Hip. unfold step. rewrite Hm, Hc. simpl fold_left.
  set (now := bi_now i).
  set (s2 := do_timeouts now (pop_timers now s)).
  assert (E2 : b_timers s2 = filter (fun v => now <? v) (b_timers s) /\ b_retr s2 = b_retr s /\ b_queriers s2 = []
               /\ b_next_ip s2 = b_next_ip s /\ b_ip_interval s2 = b_ip_interval s).
  { unfold s2, do_timeouts, pop_timers. simpl. repeat split; try assumption; try reflexivity. }
  destruct E2 as [Et [Er [Eq [En Ei]]]].
  assert (Hnd : filter (fun x => hp_rerun_due now (fst x)) (b_retr s2) = []).
  { rewrite Er. clear -Hr. induction Hr as [|x t Hx _ IH]; simpl; [reflexivity|]. fold now in Hx. rewrite Hx. exact IH. }
  assert (E4 : b_timers (do_reruns now s2) = b_timers s2 /\ b_queriers (do_reruns now s2) = []
               /\ b_next_ip (do_reruns now s2) = b_next_ip s2 /\ b_ip_interval (do_reruns now s2) = b_ip_interval s2).
  { unfold do_reruns. rewrite Hnd. simpl. auto. }
  destruct E4 as [E4t [E4q [E4n E4i]]].
  destruct (do_refresh_noq now (do_reruns now s2) E4q) as [E5t [_ [E5q [E5n E5i]]]].
  set (s5 := do_refresh now (do_reruns now s2)) in *.
  assert (E6 : b_timers (do_evict now s5) = b_timers s5 /\ b_next_ip (do_evict now s5) = b_next_ip s5
               /\ b_ip_interval (do_evict now s5) = b_ip_interval s5).
  { unfold do_evict.
    match goal with |- context [fold_left ?f ?hs ?st] =>
      assert (G : forall l0 s0, b_queriers s0 = [] ->
                 b_timers (fold_left f l0 s0) = b_timers s0 /\ b_next_ip (fold_left f l0 s0) = b_next_ip s0
                 /\ b_ip_interval (fold_left f l0 s0) = b_ip_interval s0) end.
    { induction l0 as [|h l0 IH]; intros s0 H0; simpl; [auto|].
      destruct (resolve_updated_quiet now s0 (instances_on_host (b_cache s0) h) H0) as [A1 [A2 [A3 [A4 A5]]]].
      destruct (IH _ A3) as [B1 [B2 B3]]. rewrite B1, B2, B3. auto. }
    match goal with |- context [fold_left ?f ?hs ?st] => destruct (G hs st) as [B1 [B2 B3]]; [exact E5q|] end.
    rewrite B1, B2, B3. simpl. auto. }
  destruct E6 as [E6t [E6n E6i]].
  cbn [fst]. unfold ip_check. rewrite E6n, E6i, E5n, E5i, E4n, E4i, En, Ei.
  destruct Hip as [Hz|[Hnz Hlt]].
  - rewrite Hz. change (0 =? 0) with true. cbn [b_timers]. rewrite app_nil_r, E6t, E5t, E4t, Et. reflexivity.
  - destruct (b_ip_interval s =? 0); [cbn [b_timers]; rewrite app_nil_r, E6t, E5t, E4t, Et; reflexivity|].
    destruct (b_next_ip s =? 0) eqn:E0; [apply N.eqb_eq in E0; contradiction|].
    rewrite pin_ip_check_due. destruct (b_next_ip s <=? now) eqn:Ed; [apply N.leb_le in Ed; unfold now in Ed; lia|].
    rewrite E6t, E5t, E4t, Et. reflexivity.
Qed.
