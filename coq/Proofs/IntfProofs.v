(* Proofs about interface selection, subnets and per-interface address filtering (C18). *)
From Coq Require Import List NArith Bool Lia.
From Mdns Require Import Bytes Intf ParamsResponder ParamsResponderPinned.
Import ListNotations.
Open Scope N_scope.

(* ---- selection: the last matching selection wins ---------------------------------------------- *)

Lemma find_app {A} (p : A -> bool) (a b : list A) :
  find p (a ++ b) = match find p a with Some x => Some x | None => find p b end.
Proof. induction a as [|x a IH]; simpl; [reflexivity|]. destruct (p x); auto. Qed.

Lemma mark_one_map s tbl (f : iface -> bool) :
  mark_one s tbl (map f tbl) = map (fun i => if kind_matches (fst s) i then snd s else f i) tbl.
Proof. induction tbl as [|i tbl IH]; simpl; [reflexivity|]. rewrite IH. reflexivity. Qed.

Lemma fold_marks sels : forall tbl (f : iface -> bool),
  fold_left (fun marks s => mark_one s tbl marks) sels (map f tbl)
  = map (fun i => match find (fun s : selection => kind_matches (fst s) i) (rev sels) with
                  | Some s => snd s
                  | None => f i
                  end) tbl.
Proof.
  induction sels as [|s sels IH]; intros tbl f; simpl.
  - reflexivity.
  - rewrite mark_one_map, IH. apply map_ext. intros i. rewrite find_app. simpl.
    destruct (find _ (rev sels)); [reflexivity|]. destruct (kind_matches (fst s) i); reflexivity.
Qed.

Lemma repeat_map {A B} (b : B) (l : list A) : repeat b (length l) = map (fun _ => b) l.
Proof. induction l; simpl; congruence. Qed.

Lemma selection_marks_spec d sels tbl :
  selection_marks d sels tbl
  = map (fun i => match find (fun s : selection => kind_matches (fst s) i) (rev sels) with
                  | Some s => snd s | None => d end) tbl.
Proof. unfold selection_marks. rewrite repeat_map. apply fold_marks. Qed.

Lemma pick_marked_filter {A} (f : A -> bool) l : pick_marked l (map f l) = filter f l.
Proof. induction l as [|x l IH]; simpl; [reflexivity|]. rewrite IH. reflexivity. Qed.

(* selection_last_match_wins: for ALL selection lists and ALL interface tables, the selected
   entries are exactly those whose last matching selection says "enabled" (none: enabled). *)
Theorem selection_last_match_wins sels tbl :
  selected_intfs sels tbl = filter (last_match sels) tbl.
Proof.
  unfold selected_intfs. rewrite selection_marks_spec, selection_default_pinned.
  apply pick_marked_filter.
Qed.

(* the marks apply_intf_selections computes are the same function *)
Theorem apply_marks_last_match sels tbl :
  selection_marks apply_selection_default sels tbl = map (last_match sels) tbl.
Proof. rewrite selection_marks_spec, apply_selection_default_pinned. reflexivity. Qed.

(* a later call overrides an earlier one for the entries it matches and only for those *)
Theorem last_match_snoc sels k en i :
  last_match (sels ++ [(k, en)]) i = if kind_matches k i then en else last_match sels i.
Proof.
  unfold last_match. rewrite rev_app_distr. simpl. destruct (kind_matches k i); reflexivity.
Qed.

(* Addr(ip) is resolved at call time: present in the table -> "that interface, that family" *)
Theorem resolve_addr_present a tbl i :
  find (fun i => ip_eqb (i_ip i) a) tbl = Some i ->
  resolve_addr_to_index (KAddr a) tbl = if is_v4 a then KIndexV4 (i_index i) else KIndexV6 (i_index i).
Proof. intros H. simpl. rewrite H. reflexivity. Qed.

Theorem resolve_addr_absent a tbl :
  find (fun i => ip_eqb (i_ip i) a) tbl = None -> resolve_addr_to_index (KAddr a) tbl = KAddr a.
Proof. intros H. simpl. rewrite H. reflexivity. Qed.

Theorem resolve_other k tbl : (forall a, k <> KAddr a) -> resolve_addr_to_index k tbl = k.
Proof. intros H. destruct k; try reflexivity. exfalso. apply (H a). reflexivity. Qed.

(* ---- valid_ip_on_intf = equality under the netmask -------------------------------------------- *)

Definition ip_num (a : ip) : N := match a with V4 n => n | V6 n => n end.
Definition same_family (a b : ip) : Prop := is_v4 a = is_v4 b.

Lemma land_eq_iff a b m :
  N.land a m = N.land b m <-> (forall n, N.testbit m n = true -> N.testbit a n = N.testbit b n).
Proof.
  split.
  - intros H n Hm. apply (f_equal (fun x => N.testbit x n)) in H.
    rewrite !N.land_spec, Hm, !andb_true_r in H. exact H.
  - intros H. apply N.bits_inj. intros n. rewrite !N.land_spec.
    destruct (N.testbit m n) eqn:Hm; [rewrite (H n Hm); reflexivity|rewrite !andb_false_r; reflexivity].
Qed.

(* for every address and every mask (any bit pattern, 32 or 128 bits - the statement does not
   depend on the width): the address is on the interface's network iff it has the family of
   the interface address and agrees with it on every bit the mask selects *)
Theorem valid_ip_on_intf_spec a x :
  valid_ip_on_intf a x = true <->
  same_family a (ia_ip x) /\
  (forall n, N.testbit (ia_mask x) n = true -> N.testbit (ip_num a) n = N.testbit (ip_num (ia_ip x)) n).
Proof.
  unfold valid_ip_on_intf, same_family.
  destruct a as [a|a], (ia_ip x) as [i|i]; simpl;
    rewrite ?subnet_test_v4_pinned, ?subnet_test_v6_pinned, ?N.eqb_eq, ?land_eq_iff;
    try (split; [intros H; split; [reflexivity|exact H]|intros [_ H]; exact H]);
    split; try discriminate; intros [H _]; discriminate.
Qed.

(* prefix masks: /p on a w-bit address compares the first p bits *)
Lemma testbit_prefix_mask w p n : p <= w ->
  N.testbit (N.shiftl (N.ones p) (w - p)) n = (w - p <=? n) && (n <? w).
Proof.
  intros Hp. destruct (N.leb_spec (w - p) n) as [H|H].
  - rewrite N.shiftl_spec_high' by exact H. simpl.
    destruct (N.ltb_spec n w) as [H2|H2].
    + apply N.ones_spec_low. lia.
    + apply N.ones_spec_high. lia.
  - rewrite N.shiftl_spec_low by exact H. reflexivity.
Qed.

Lemma land_prefix_eq w p a i : p <= w -> a < 2 ^ w -> i < 2 ^ w ->
  (N.land a (N.shiftl (N.ones p) (w - p)) = N.land i (N.shiftl (N.ones p) (w - p))
   <-> N.shiftr a (w - p) = N.shiftr i (w - p)).
Proof.
  intros Hp Ha Hi. rewrite land_eq_iff. split.
  - intros H. apply N.bits_inj. intros n. rewrite !N.shiftr_spec'.
    destruct (N.ltb_spec (n + (w - p)) w) as [Hn|Hn].
    + apply H. rewrite testbit_prefix_mask by exact Hp.
      apply andb_true_iff. split; [apply N.leb_le; lia|apply N.ltb_lt; exact Hn].
    + assert (Hlog : forall z, z < 2 ^ w -> z = 0 \/ N.log2 z < w).
      { intros z Hz. destruct (N.eq_dec z 0) as [->|Hnz]; [left; reflexivity|right].
        apply N.log2_lt_pow2; [lia|exact Hz]. }
      assert (Hbit : forall z, z < 2 ^ w -> N.testbit z (n + (w - p)) = false).
      { intros z Hz. destruct (Hlog z Hz) as [->|Hl]; [apply N.bits_0|].
        apply N.bits_above_log2. lia. }
      rewrite (Hbit a Ha), (Hbit i Hi). reflexivity.
  - intros H n Hm. rewrite testbit_prefix_mask in Hm by exact Hp.
    apply andb_true_iff in Hm as [H1 H2]. apply N.leb_le in H1.
    apply (f_equal (fun x => N.testbit x (n - (w - p)))) in H.
    rewrite !N.shiftr_spec' in H. replace (n - (w - p) + (w - p)) with n in H by lia. exact H.
Qed.

(* a /p network on IPv4 (32 bit) and on IPv6 (128 bit): same first p bits *)
Theorem valid_ip_prefix_v4 a i p : p <= 32 -> a < 2 ^ 32 -> i < 2 ^ 32 ->
  valid_ip_on_intf (V4 a) (mkIfAddr (V4 i) (N.shiftl (N.ones p) (32 - p))) = true
  <-> N.shiftr a (32 - p) = N.shiftr i (32 - p).
Proof.
  intros Hp Ha Hi. unfold valid_ip_on_intf. cbn [ia_ip ia_mask].
  rewrite subnet_test_v4_pinned, N.eqb_eq. apply land_prefix_eq; assumption.
Qed.

Theorem valid_ip_prefix_v6 a i p : p <= 128 -> a < 2 ^ 128 -> i < 2 ^ 128 ->
  valid_ip_on_intf (V6 a) (mkIfAddr (V6 i) (N.shiftl (N.ones p) (128 - p))) = true
  <-> N.shiftr a (128 - p) = N.shiftr i (128 - p).
Proof.
  intros Hp Ha Hi. unfold valid_ip_on_intf. cbn [ia_ip ia_mask].
  rewrite subnet_test_v6_pinned, N.eqb_eq. apply land_prefix_eq; assumption.
Qed.

(* ---- per-interface address filtering ---------------------------------------------------------- *)

(* only_on_matching_subnet (function level): what get_addrs_on_my_intf_v4 / _v6 return *)
Theorem addrs_on_intf_v4_spec addrs intf a :
  In a (addrs_on_intf_v4 addrs intf) <->
  In a addrs /\ is_v4 a = true /\ exists x, In x (mi_addrs intf) /\ valid_ip_on_intf a x = true.
Proof.
  unfold addrs_on_intf_v4, addr_on_intf. rewrite filter_In, andb_true_iff, existsb_exists. tauto.
Qed.

Theorem addrs_on_intf_v6_spec addrs intf a :
  In a (addrs_on_intf_v6 addrs intf) <->
  In a addrs /\ is_v4 a = false /\ exists x, In x (mi_addrs intf) /\ valid_ip_on_intf a x = true.
Proof.
  unfold addrs_on_intf_v6, addr_on_intf, is_v6. rewrite filter_In, andb_true_iff, existsb_exists, negb_true_iff.
  tauto.
Qed.
