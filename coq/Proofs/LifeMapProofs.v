(* The cache of Model/LifeCache.v seen as a finite map: keys are unique (wf), get/set laws,
   lookups after the eviction sweeps.  Generic in the record type. *)
From Coq Require Import List NArith Bool Lia.
From Mdns Require Import Res Bytes Rec ParamsLife Life LifeSpec LifeCache.
Import ListNotations.
Open Scope N_scope.

Lemma key_eqb_eq a b : key_eqb a b = true <-> a = b.
Proof.
  destruct a as [a1 a2], b as [b1 b2]. unfold key_eqb. simpl.
  rewrite andb_true_iff, N.eqb_eq, beq_eq. split; [intros [-> ->]; reflexivity | intros H; inversion H; auto].
Qed.

Lemma key_eqb_refl a : key_eqb a a = true.
Proof. apply key_eqb_eq. reflexivity. Qed.

Lemma key_eqb_neq a b : key_eqb a b = false <-> a <> b.
Proof.
  split; intros H.
  - intros E. apply key_eqb_eq in E. congruence.
  - destruct (key_eqb a b) eqn:E; [apply key_eqb_eq in E; contradiction | reflexivity].
Qed.

Section Map.
Variable T : Type.
Variable OP : ops T.

Definition wf (c : cache T) : Prop := NoDup (map fst c).

Lemma get_absent (c : cache T) k : ~ In k (map fst c) -> get_bucket T c k = [].
Proof.
  induction c as [|[k1 b1] c IH]; intros H; [reflexivity|].
  simpl in *. destruct (key_eqb k k1) eqn:E.
  - apply key_eqb_eq in E. subst. exfalso. apply H. left. reflexivity.
  - apply IH. intros Hin. apply H. right. exact Hin.
Qed.

Lemma get_in (c : cache T) k b : wf c -> In (k, b) c -> get_bucket T c k = b.
Proof.
  unfold wf. induction c as [|[k1 b1] c IH]; intros Hw Hin; [contradiction|].
  simpl in *. inversion Hw as [|? ? Hn Hw']; subst. destruct Hin as [Hin|Hin].
  - inversion Hin; subst. rewrite key_eqb_refl. reflexivity.
  - destruct (key_eqb k k1) eqn:E.
    + apply key_eqb_eq in E. subst. exfalso. apply Hn. apply in_map_iff. exists (k1, b). auto.
    + apply IH; assumption.
Qed.

Lemma set_keys (c : cache T) k b x : In x (map fst (set_bucket T c k b)) -> In x (map fst c) \/ x = k.
Proof.
  induction c as [|[k1 b1] c IH]; simpl.
  - destruct (is_nil b); simpl; [tauto | intros [H|[]]; auto].
  - destruct (key_eqb k k1) eqn:E.
    + destruct (is_nil b); simpl; tauto.
    + simpl. intros [H|H]; [auto|]. destruct (IH H); auto.
Qed.

Lemma set_wf (c : cache T) k b : wf c -> wf (set_bucket T c k b).
Proof.
  unfold wf. induction c as [|[k1 b1] c IH]; simpl; intros Hw.
  - destruct (is_nil b); simpl; [constructor | constructor; [intros [] | constructor]].
  - inversion Hw as [|? ? Hn Hw']; subst. destruct (key_eqb k k1) eqn:E.
    + destruct (is_nil b); simpl; [assumption | constructor; assumption].
    + simpl. constructor; [|apply IH; assumption].
      intros Hin. apply set_keys in Hin as [Hin|Hin]; [contradiction|].
      subst. rewrite key_eqb_refl in E. discriminate.
Qed.

Lemma get_set (c : cache T) k b k2 :
  wf c -> get_bucket T (set_bucket T c k b) k2 = if key_eqb k2 k then b else get_bucket T c k2.
Proof.
  unfold wf. induction c as [|[k1 b1] c IH]; simpl; intros Hw.
  - destruct (is_nil b) eqn:En; simpl.
    + destruct b; [|discriminate]. destruct (key_eqb k2 k); reflexivity.
    + reflexivity.
  - inversion Hw as [|? ? Hn Hw']; subst. destruct (key_eqb k k1) eqn:E.
    + apply key_eqb_eq in E. subst k1. destruct (is_nil b) eqn:En; simpl.
      * destruct b; [|discriminate]. destruct (key_eqb k2 k) eqn:E2; [|reflexivity].
        apply key_eqb_eq in E2. subst. apply get_absent. assumption.
      * destruct (key_eqb k2 k); reflexivity.
    + simpl. destruct (key_eqb k2 k1) eqn:E1.
      * destruct (key_eqb k2 k) eqn:E2; [|reflexivity].
        apply key_eqb_eq in E1, E2. subst. rewrite key_eqb_refl in E. discriminate.
      * apply IH. assumption.
Qed.

(* ---- sweeps ---- *)

Lemma sweep_keys kinds (c : cache T) now x : In x (map fst (sweep T OP kinds c now)) -> In x (map fst c).
Proof.
  induction c as [|[k1 b1] c IH]; simpl; [tauto|].
  destruct (kinds (fst k1)); [destruct (is_nil _)|]; simpl; tauto.
Qed.

Lemma sweep_wf kinds (c : cache T) now : wf c -> wf (sweep T OP kinds c now).
Proof.
  unfold wf. induction c as [|[k1 b1] c IH]; simpl; intros Hw; [constructor|].
  inversion Hw as [|? ? Hn Hw']; subst.
  destruct (kinds (fst k1)); [destruct (is_nil _)|]; simpl; auto;
    constructor; auto; intros Hin; apply sweep_keys in Hin; contradiction.
Qed.

Lemma get_sweep kinds (c : cache T) now k :
  wf c ->
  get_bucket T (sweep T OP kinds c now) k =
  if kinds (fst k) then fst (evict T OP (get_bucket T c k) now) else get_bucket T c k.
Proof.
  unfold wf. induction c as [|[k1 b1] c IH]; simpl; intros Hw.
  - destruct (kinds (fst k)); reflexivity.
  - inversion Hw as [|? ? Hn Hw']; subst. destruct (key_eqb k k1) eqn:E.
    + apply key_eqb_eq in E. subst k1. destruct (kinds (fst k)) eqn:Ek.
      * destruct (is_nil (filter _ b1)) eqn:En; simpl.
        -- rewrite get_absent by (intros Hin; apply sweep_keys in Hin; contradiction).
           destruct (filter _ b1); [reflexivity | discriminate].
        -- rewrite key_eqb_refl. reflexivity.
      * simpl. rewrite key_eqb_refl. reflexivity.
    + destruct (kinds (fst k1)); [destruct (is_nil _)|]; simpl; rewrite ?E; apply IH; assumption.
Qed.

Lemma sweep_srv_keys (c : cache T) now x : In x (map fst (fst (sweep_srv T OP c now))) -> In x (map fst c).
Proof.
  induction c as [|[k1 b1] c IH]; simpl; [tauto|].
  destruct (sweep_srv T OP c now) as [r g]. simpl in *.
  destruct (fst k1 =? 1); [destruct (is_nil _)|]; simpl; tauto.
Qed.

Lemma sweep_srv_wf (c : cache T) now : wf c -> wf (fst (sweep_srv T OP c now)).
Proof.
  unfold wf. induction c as [|[k1 b1] c IH]; simpl; intros Hw; [constructor|].
  inversion Hw as [|? ? Hn Hw']; subst. specialize (IH Hw').
  pose proof (sweep_srv_keys c now k1) as Hk.
  destruct (sweep_srv T OP c now) as [r g]. simpl in *.
  destruct (fst k1 =? 1); [destruct (is_nil _)|]; simpl; auto; constructor; auto.
Qed.

Lemma get_sweep_srv (c : cache T) now k :
  wf c ->
  get_bucket T (fst (sweep_srv T OP c now)) k =
  if fst k =? 1 then fst (evict T OP (get_bucket T c k) now) else get_bucket T c k.
Proof.
  unfold wf. induction c as [|[k1 b1] c IH]; simpl; intros Hw.
  - destruct (fst k =? 1); reflexivity.
  - inversion Hw as [|? ? Hn Hw']; subst. specialize (IH Hw').
    pose proof (sweep_srv_keys c now k1) as Hk.
    destruct (sweep_srv T OP c now) as [r g]. simpl in *.
    destruct (key_eqb k k1) eqn:E.
    + apply key_eqb_eq in E. subst k1. destruct (fst k =? 1) eqn:Ek.
      * destruct (is_nil (filter _ b1)) eqn:En; simpl.
        -- rewrite get_absent by tauto. destruct (filter _ b1); [reflexivity | discriminate].
        -- rewrite key_eqb_refl. reflexivity.
      * simpl. rewrite key_eqb_refl. reflexivity.
    + destruct (fst k1 =? 1); [destruct (is_nil _)|]; simpl; rewrite ?E; exact IH.
Qed.

(* ---- keys stay unique through every phase of an iteration ---- *)

Lemma ingest_wf now : forall recs (c c' : cache T), wf c -> ingest T OP c now recs = Ok c' -> wf c'.
Proof.
  induction recs as [|[id t] recs IH]; intros c c' Hw H; simpl in H.
  - inversion H; subst. assumption.
  - apply bind_ok_inv in H as (c1 & H1 & H). eapply IH; [|exact H].
    destruct (key_of id) as [k|]; simpl in H1; [|inversion H1; subst; assumption].
    apply bind_ok_inv in H1 as (r & _ & H1). destruct r as [[[b' ?] ?]|]; inversion H1; subst; auto using set_wf.
Qed.

Lemma refresh_srv_txt_wf now : forall insts (c c' : cache T) acc acc',
  wf c -> refresh_srv_txt T OP c now insts acc = Ok (c', acc') -> wf c'.
Proof.
  induction insts as [|i insts IH]; intros c c' acc acc' Hw H; simpl in H.
  - inversion H; subst. assumption.
  - apply bind_ok_inv in H as ([bs ds] & _ & H). apply bind_ok_inv in H as ([bt dt] & _ & H).
    eapply IH; [|exact H]. auto using set_wf.
Qed.

Lemma refresh_hosts_wf now : forall hosts (c c' : cache T) qs,
  wf c -> refresh_hosts T OP c now hosts = Ok (c', qs) -> wf c'.
Proof.
  induction hosts as [|h hosts IH]; intros c c' qs Hw H; simpl in H.
  - inversion H; subst. assumption.
  - apply bind_ok_inv in H as ([b d] & _ & H). apply bind_ok_inv in H as ([c2 q2] & H2 & H).
    inversion H; subst. eapply IH; [|exact H2]. auto using set_wf.
Qed.

Lemma refresh_browse_wf (c c' : cache T) now ty qs :
  wf c -> refresh_browse T OP c now ty = Ok (c', qs) -> wf c'.
Proof.
  unfold refresh_browse. intros Hw H.
  apply bind_ok_inv in H as ([bp dp] & _ & H). apply bind_ok_inv in H as (qp & _ & H).
  apply bind_ok_inv in H as ([c2 due] & H2 & H). apply bind_ok_inv in H as (qi & _ & H).
  apply bind_ok_inv in H as ([c3 hq] & H3 & H). apply bind_ok_inv in H as (qh & _ & H).
  inversion H; subst. eapply refresh_hosts_wf; [|exact H3]. eapply refresh_srv_txt_wf; [|exact H2]. auto using set_wf.
Qed.

Lemma refresh_host_wf (c c' : cache T) now h qs :
  wf c -> refresh_host T OP c now h = Ok (c', qs) -> wf c'.
Proof.
  unfold refresh_host. intros Hw H.
  apply bind_ok_inv in H as ([b due] & _ & H). apply bind_ok_inv in H as (q & _ & H).
  inversion H; subst. auto using set_wf.
Qed.

Lemma fold_evict_instance_wf now gone : forall (b : bucket T) (c : cache T) rm,
  wf c -> wf (fst (fold_left (evict_instance T OP now gone) b (c, rm))).
Proof.
  induction b as [|e b IH]; intros c rm Hw; simpl; [assumption|].
  unfold evict_instance at 2. destruct (alias_of (c_id e)); [|apply IH; assumption].
  apply IH. auto using set_wf.
Qed.

Lemma evict_services_wf (c : cache T) now browse : wf c -> wf (fst (evict_services T OP c now browse)).
Proof.
  intros Hw. unfold evict_services. pose proof (sweep_srv_wf c now Hw) as H0.
  destruct (sweep_srv T OP c now) as [c0 gone]. simpl in H0.
  destruct browse as [ty|]; simpl.
  - pose proof (fold_evict_instance_wf now gone (get_bucket T c0 (0, ty)) c0 [] H0) as H1.
    destruct (fold_left _ _ _) as [c1 rm1]. simpl in *.
    destruct (evict T OP (get_bucket T c0 (0, ty)) now) as [kp xp]. simpl.
    apply sweep_wf. apply set_wf. assumption.
  - apply sweep_wf. assumption.
Qed.

Lemma evict_addrs_wf (c : cache T) now host : wf c -> wf (fst (evict_addrs T OP c now host)).
Proof. intros Hw. unfold evict_addrs. simpl. apply sweep_wf. assumption. Qed.

Lemma sim_iter_wf cfg (c c' : cache T) now nsb nsh recs o :
  wf c -> sim_iter T OP cfg c now nsb nsh recs = Ok (c', o) -> wf c'.
Proof.
  unfold sim_iter. intros Hw H.
  apply bind_ok_inv in H as (c0 & H0 & H). apply bind_ok_inv in H as (qb & _ & H).
  apply bind_ok_inv in H as (qh & _ & H). apply bind_ok_inv in H as ([c1 qr] & H1 & H).
  apply bind_ok_inv in H as ([c2 qa] & H2 & H).
  pose proof (ingest_wf now recs c c0 Hw H0) as W0.
  assert (W1 : wf c1).
  { destruct (sc_browse cfg); [eapply refresh_browse_wf; eauto | inversion H1; subst; assumption]. }
  assert (W2 : wf c2).
  { destruct (sc_host cfg); [eapply refresh_host_wf; eauto | inversion H2; subst; assumption]. }
  pose proof (evict_services_wf c2 now (sc_browse cfg) W2) as W3.
  destruct (evict_services T OP c2 now (sc_browse cfg)) as [c3 rs]. simpl in W3.
  pose proof (evict_addrs_wf c3 now (sc_host cfg) W3) as W4.
  destruct (evict_addrs T OP c3 now (sc_host cfg)) as [c4 ra]. simpl in W4.
  inversion H; subst. assumption.
Qed.

End Map.
