(* C06 on the daemon model (Model/IntfDaemon.v): in EVERY state - hence in every state reachable
   by any history of registrations, unregistrations, interface events, selections and traffic -
   every record of every response to an injected datagram is a record of a service that is in
   my_services at that moment and Announced on the receiving interface. *)
From Coq Require Import List NArith Bool Lia.
From Mdns Require Import Res Bytes Rec Wire Intf IntfCache Responder IntfDaemon
     ResponderAddrProofs ResponderJustProofs IntfHistoryProofs.
Import ListNotations.
Open Scope N_scope.

(* the service registered under key k is Announced on interface idx and r is one of its records *)
Definition registered_announced_rec (d : dstate) (idx : N) (intf : myintf) (r : rr) : Prop :=
  exists k ds, In (k, ds) (d_svcs d) /\ status_get idx (ds_status ds) = Announced /\
               svc_rec [] intf (ds_svc ds) r.

Theorem daemon_answers_justified d g o : In o (snd (handle_dgram d g)) ->
  match o with
  | OSent p => exists intf p0,
      intf_get (dg_if g) (d_intfs d) = Some intf /\ p = reroute (d_os d) intf p0 /\
      Forall (registered_announced_rec d (dg_if g) intf) (p_answers p0 ++ p_additionals p0)
  | _ => True
  end.
Proof.
  unfold handle_dgram.
  destruct (intf_get (dg_if g) (d_intfs d)) as [intf|] eqn:Eg; [|intros []].
  destruct (negb (family_enabled intf (is_v4 (dg_src g)))); [intros []|].
  destruct (decode (dg_data g)) as [m| | |]; try (intros []).
  destruct (N.land (m_flags m) 32768 =? 0).
  - destruct (memN (dg_if g) (d_regs d)); [|intros []]. simpl.
    destruct (handle_query _) as [p0|] eqn:Eq; [|intros []]. simpl. intros [<-|[]].
    exists intf, p0. split; [reflexivity|]. split; [reflexivity|].
    pose proof (response_records_justified _ _ Eq) as H. cbn [h_services h_name_changes h_intf] in H.
    eapply Forall_impl; [|exact H]. intros r (e & He & Ha & Hr).
    unfold entries_on in He. apply in_map_iff in He as [[k ds] [<- Hin]]. simpl in *.
    exists k, ds. split; [exact Hin|]. split; [|exact Hr].
    destruct (status_get (dg_if g) (ds_status ds)); try discriminate. reflexivity.
  - intros Hin. pose proof (handle_response_facts d intf m) as [_ Hn]. rewrite Forall_forall in Hn.
    specialize (Hn o Hin). destruct o; simpl in *; tauto.
Qed.
