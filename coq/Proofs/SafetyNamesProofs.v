(* C15: lemmas about the validators and renaming functions of Model/SafetyNames.v.

   1. The regenerated guards (Gen/ParamsSafety.v) pinned to the literal numbers.
   2. str primitives: prefixb / ends_with / find / rfind / split_on / slice specifications.
   3. Valid UTF-8 has no continuation byte directly after an ASCII byte (`nca`), which is
      what makes `&s[i+1..]` safe after an ASCII character was found at i; `nca` is inherited
      by substrings, in particular by the pieces of str::split.
   4. validators_total: no validator / renaming function returns Panic on valid UTF-8.
   5. The encoder's label split (WireOut.pen): labels are non-empty and made of input bytes;
      accepted names are encodable (connects to WireOutProofs.write_labels_total).
   6. The two refutations (conflict renaming, names from the wire) and the positive part of
      the latter (no backslash -> safe). *)
From Coq Require Import List NArith Bool Lia Arith PeanoNat.
From Mdns Require Import Res Bytes Utf8 Rec WireOut C02Spec WireOutProofs ParamsSafety SafetyNames.
Import ListNotations.
Open Scope N_scope.

(* ------------------------------------------------------------------------------------ *)
(* 1. parameters                                                                          *)
(* ------------------------------------------------------------------------------------ *)

Lemma domain_len_pinned : DOMAIN_LEN = 12.
Proof. reflexivity. Qed.
Lemma svc_type_too_short_pinned n : svc_type_too_short n DOMAIN_LEN = (n <=? 13).
Proof. reflexivity. Qed.
Lemma svc_name_len_pinned n : svc_name_len n DOMAIN_LEN = n - 12 - 1.
Proof. reflexivity. Qed.
Lemma svc_name_too_long_pinned n l : svc_name_too_long n l = (l <? n).
Proof. reflexivity. Qed.
Lemma hostname_too_long_pinned n : hostname_too_long n = (255 <? n).
Proof. reflexivity. Qed.
Lemma label_fits_pinned n : label_fits n = (n <? 64).
Proof. reflexivity. Qed.
Lemma write_utf8_assert_pinned n : write_utf8_assert n = (n <? 64).
Proof. reflexivity. Qed.
Lemma len_max_refused_pinned n : len_max_refused n = (30 <? n).
Proof. reflexivity. Qed.
Lemma service_name_len_max_default_pinned : service_name_len_max_default = 15.
Proof. reflexivity. Qed.
Lemma instance_min_parts_pinned : instance_min_parts = 5.
Proof. reflexivity. Qed.
Lemma cmd_queue_bound_pinned : cmd_queue_bound = 100.
Proof. reflexivity. Qed.
Lemma listener_bounds_pinned : browse_listener_bound = 10 /\ resolver_listener_bound = 10.
Proof. split; reflexivity. Qed.

(* ------------------------------------------------------------------------------------ *)
(* 2. str primitives                                                                      *)
(* ------------------------------------------------------------------------------------ *)

Lemma prefixb_spec p : forall s, prefixb p s = true <-> exists t, s = p ++ t.
Proof.
  induction p as [|x p IH]; intros s; simpl.
  - split; [intros _; exists s; reflexivity | reflexivity].
  - destruct s as [|y s].
    + split; [discriminate | intros [t H]; discriminate].
    + rewrite andb_true_iff, N.eqb_eq, IH. split.
      * intros [-> [t ->]]. exists t. reflexivity.
      * intros [t H]. inversion H; subst. split; [reflexivity | exists t; reflexivity].
Qed.

Lemma ends_with_spec s suf : ends_with s suf = true <-> exists a, s = a ++ suf.
Proof.
  unfold ends_with. rewrite prefixb_spec. split.
  - intros [t H]. exists (rev t).
    apply (f_equal (@rev N)) in H. rewrite rev_involutive, rev_app_distr, rev_involutive in H.
    exact H.
  - intros [a ->]. exists (rev a). apply rev_app_distr.
Qed.

Lemma nth_error_app_r {A} (a b : list A) k : nth_error (a ++ b) (length a + k) = nth_error b k.
Proof. rewrite nth_error_app2 by lia. f_equal. lia. Qed.

Lemma boundary_0 s : is_char_boundary s 0 = true.
Proof. reflexivity. Qed.

Lemma boundary_len s : is_char_boundary s (length s) = true.
Proof.
  unfold is_char_boundary. destruct (length s) eqn:E; [reflexivity|].
  rewrite <- E.
  assert (H : nth_error s (length s) = None) by (apply nth_error_None; lia).
  rewrite H. apply Nat.eqb_refl.
Qed.

Lemma boundary_at_noncont s i b :
  nth_error s i = Some b -> cont b = false -> is_char_boundary s i = true.
Proof.
  intros H Hc. unfold is_char_boundary. destruct i; [reflexivity|]. rewrite H, Hc. reflexivity.
Qed.

Lemma slice_ok s a b :
  (a <= b)%nat -> (b <= length s)%nat ->
  is_char_boundary s a = true -> is_char_boundary s b = true ->
  slice s a b = Ok (firstn (b - a) (skipn a s)).
Proof.
  intros H1 H2 H3 H4. unfold slice.
  apply Nat.leb_le in H1. apply Nat.leb_le in H2. rewrite H1, H2, H3, H4. reflexivity.
Qed.

Lemma ascii_not_cont b : b < 128 -> cont b = false.
Proof.
  intros H. unfold cont, in_range. apply andb_false_iff. left. apply N.leb_gt. lia.
Qed.

(* find / rfind return a position where the pattern is a prefix of the rest *)
Lemma find_sub_some p : forall s i, find_sub p s = Some i -> prefixb p (skipn i s) = true.
Proof.
  induction s as [|x s IH]; intros i H; simpl in H.
  - destruct (prefixb p []) eqn:E; [|discriminate]. inversion H; subst. exact E.
  - destruct (prefixb p (x :: s)) eqn:E.
    + inversion H; subst. exact E.
    + destruct (find_sub p s) as [j|] eqn:F; [|discriminate].
      inversion H; subst. simpl. apply IH. reflexivity.
Qed.

Lemma rfind_sub_some p : forall s i, rfind_sub p s = Some i -> prefixb p (skipn i s) = true.
Proof.
  induction s as [|x s IH]; intros i H; simpl in H.
  - destruct (prefixb p []) eqn:E; [|discriminate]. inversion H; subst. exact E.
  - destruct (rfind_sub p s) as [j|] eqn:F.
    + inversion H; subst. simpl. apply IH. reflexivity.
    + destruct (prefixb p (x :: s)) eqn:E; [|discriminate]. inversion H; subst. exact E.
Qed.

Lemma prefixb_skipn_nth p s i k b :
  prefixb p (skipn i s) = true -> nth_error p k = Some b -> nth_error s (i + k) = Some b.
Proof.
  intros H Hk. apply prefixb_spec in H as [t H].
  rewrite <- (firstn_skipn i s) at 1.
  assert (Hi : (i <= length s)%nat).
  { destruct (Nat.le_gt_cases i (length s)) as [L|L]; [exact L|].
    rewrite skipn_all2 in H by lia. destruct p; [destruct k; discriminate|discriminate]. }
  replace (i + k)%nat with (length (firstn i s) + k)%nat by (rewrite firstn_length; lia).
  rewrite nth_error_app_r, H.
  rewrite nth_error_app1; [exact Hk|]. apply nth_error_Some. congruence.
Qed.

Lemma nth_error_lt {A} (l : list A) i x : nth_error l i = Some x -> (i < length l)%nat.
Proof. intros H. apply nth_error_Some. congruence. Qed.

Lemma split_on_nonempty c s : split_on c s <> [].
Proof.
  destruct s as [|x s]; simpl; [discriminate|].
  destruct (x =? c); [discriminate|]. destruct (split_on c s); discriminate.
Qed.

(* the first piece is a prefix *)
Lemma split_on_head c : forall s h r, split_on c s = h :: r -> exists b, s = h ++ b.
Proof.
  induction s as [|y s IH]; intros h r E; simpl in E.
  - inversion E; subst. exists []. reflexivity.
  - destruct (y =? c).
    + inversion E; subst. exists (y :: s). reflexivity.
    + destruct (split_on c s) as [|h' r'] eqn:E'; [exfalso; exact (split_on_nonempty c s E')|].
      injection E as Eh Er. subst h r. destruct (IH h' r' eq_refl) as [b ->]. exists b. reflexivity.
Qed.

(* pieces of split_on are contiguous substrings *)
Lemma split_on_substr c : forall s p, In p (split_on c s) -> exists a b, s = a ++ p ++ b.
Proof.
  induction s as [|x s IH]; intros p H; simpl in H.
  - destruct H as [<-|[]]. exists [], []. reflexivity.
  - destruct (x =? c).
    + destruct H as [<-|H].
      * exists [], (x :: s). reflexivity.
      * destruct (IH p H) as (a & b & ->). exists (x :: a), b. reflexivity.
    + destruct (split_on c s) as [|h r] eqn:E; [exfalso; exact (split_on_nonempty c s E)|].
      destruct H as [<-|H].
      * destruct (split_on_head c s h r E) as [b ->]. exists [], b. reflexivity.
      * destruct (IH p (or_intror H)) as (a & b & ->). exists (x :: a), b. reflexivity.
Qed.

(* ------------------------------------------------------------------------------------ *)
(* 3. no continuation byte after an ASCII byte                                            *)
(* ------------------------------------------------------------------------------------ *)

Fixpoint nca (s : bytes) : bool :=
  match s with
  | [] => true
  | a :: t =>
    match t with
    | b :: _ => negb (a <? 128) || negb (cont b)
    | [] => true
    end && nca t
  end.

Lemma cont_ge b : cont b = true -> 128 <= b.
Proof. unfold cont, in_range. intros H. apply andb_true_iff in H as [H _]. apply N.leb_le in H. exact H. Qed.

Lemma in_range_spec lo hi b : in_range lo hi b = true -> lo <= b /\ b <= hi.
Proof. unfold in_range. intros H. apply andb_true_iff in H as [H1 H2]. apply N.leb_le in H1, H2. lia. Qed.

(* the first byte of a valid string is not a continuation byte *)
Lemma valid_head_not_cont b t : utf8_valid (b :: t) = true -> cont b = false.
Proof.
  intros H. destruct (cont b) eqn:C; [|reflexivity]. exfalso.
  apply in_range_spec in C. simpl in H.
  destruct (b <? 128) eqn:E1; [apply N.ltb_lt in E1; lia|].
  destruct (in_range 194 223 b) eqn:E2; [apply in_range_spec in E2; lia|].
  destruct (b =? 224) eqn:E3; [apply N.eqb_eq in E3; lia|].
  destruct (in_range 225 236 b || in_range 238 239 b) eqn:E4.
  { apply orb_true_iff in E4 as [E4|E4]; apply in_range_spec in E4; lia. }
  destruct (b =? 237) eqn:E5; [apply N.eqb_eq in E5; lia|].
  destruct (b =? 240) eqn:E6; [apply N.eqb_eq in E6; lia|].
  destruct (in_range 241 243 b) eqn:E7; [apply in_range_spec in E7; lia|].
  destruct (b =? 244) eqn:E8; [apply N.eqb_eq in E8; lia|].
  discriminate.
Qed.

Lemma nca_cons_hi a t : 128 <= a -> nca (a :: t) = nca t.
Proof.
  intros H. simpl. destruct t as [|b t']; [reflexivity|].
  replace (a <? 128) with false by (symmetry; apply N.ltb_ge; exact H). reflexivity.
Qed.

Lemma valid_nca_len n : forall s, (length s <= n)%nat -> utf8_valid s = true -> nca s = true.
Proof.
  induction n as [|n IH]; intros s Hl Hv.
  - destruct s; [reflexivity|simpl in Hl; lia].
  - destruct s as [|b0 t]; [reflexivity|].
    pose proof Hv as Hv0. simpl in Hv.
    destruct (b0 <? 128) eqn:E1.
    { (* ASCII *)
      assert (Ht : nca t = true) by (apply IH; [simpl in Hl; lia|exact Hv]).
      simpl. rewrite Ht, andb_true_r. destruct t as [|b1 t1]; [reflexivity|].
      rewrite (valid_head_not_cont b1 t1 Hv). rewrite orb_true_r. reflexivity. }
    apply N.ltb_ge in E1.
    assert (TWO : forall b1 t1, t = b1 :: t1 -> cont b1 = true -> utf8_valid t1 = true -> nca (b0 :: t) = true).
    { intros b1 t1 -> C1 V1. rewrite nca_cons_hi by exact E1.
      rewrite nca_cons_hi by (apply cont_ge; exact C1). apply IH; [simpl in Hl; lia|exact V1]. }
    assert (THREE : forall b1 b2 t2, t = b1 :: b2 :: t2 -> 128 <= b1 -> cont b2 = true ->
                    utf8_valid t2 = true -> nca (b0 :: t) = true).
    { intros b1 b2 t2 -> C1 C2 V2. rewrite nca_cons_hi by exact E1.
      rewrite nca_cons_hi by exact C1. rewrite nca_cons_hi by (apply cont_ge; exact C2).
      apply IH; [simpl in Hl; lia|exact V2]. }
    assert (FOUR : forall b1 b2 b3 t3, t = b1 :: b2 :: b3 :: t3 -> 128 <= b1 -> cont b2 = true ->
                   cont b3 = true -> utf8_valid t3 = true -> nca (b0 :: t) = true).
    { intros b1 b2 b3 t3 -> C1 C2 C3 V3. rewrite nca_cons_hi by exact E1.
      rewrite nca_cons_hi by exact C1. rewrite nca_cons_hi by (apply cont_ge; exact C2).
      rewrite nca_cons_hi by (apply cont_ge; exact C3).
      apply IH; [simpl in Hl; lia|exact V3]. }
    destruct (in_range 194 223 b0).
    { destruct t as [|b1 t1]; [discriminate|]. apply andb_true_iff in Hv as [C V].
      eapply TWO; eauto. }
    destruct (b0 =? 224).
    { destruct t as [|b1 [|b2 t2]]; try discriminate.
      apply andb_true_iff in Hv as [Hv V]. apply andb_true_iff in Hv as [C1 C2].
      eapply THREE; eauto. apply in_range_spec in C1. lia. }
    destruct (in_range 225 236 b0 || in_range 238 239 b0).
    { destruct t as [|b1 [|b2 t2]]; try discriminate.
      apply andb_true_iff in Hv as [Hv V]. apply andb_true_iff in Hv as [C1 C2].
      eapply THREE; eauto. apply cont_ge. exact C1. }
    destruct (b0 =? 237).
    { destruct t as [|b1 [|b2 t2]]; try discriminate.
      apply andb_true_iff in Hv as [Hv V]. apply andb_true_iff in Hv as [C1 C2].
      eapply THREE; eauto. apply in_range_spec in C1. lia. }
    destruct (b0 =? 240).
    { destruct t as [|b1 [|b2 [|b3 t3]]]; try discriminate.
      apply andb_true_iff in Hv as [Hv V]. apply andb_true_iff in Hv as [Hv C3].
      apply andb_true_iff in Hv as [C1 C2].
      eapply FOUR; eauto. apply in_range_spec in C1. lia. }
    destruct (in_range 241 243 b0).
    { destruct t as [|b1 [|b2 [|b3 t3]]]; try discriminate.
      apply andb_true_iff in Hv as [Hv V]. apply andb_true_iff in Hv as [Hv C3].
      apply andb_true_iff in Hv as [C1 C2].
      eapply FOUR; eauto. apply cont_ge. exact C1. }
    destruct (b0 =? 244).
    { destruct t as [|b1 [|b2 [|b3 t3]]]; try discriminate.
      apply andb_true_iff in Hv as [Hv V]. apply andb_true_iff in Hv as [Hv C3].
      apply andb_true_iff in Hv as [C1 C2].
      eapply FOUR; eauto. apply in_range_spec in C1. lia. }
    discriminate.
Qed.

Lemma valid_nca s : utf8_valid s = true -> nca s = true.
Proof. apply (valid_nca_len (length s)). lia. Qed.

Lemma nca_app_l a : forall b, nca (a ++ b) = true -> nca a = true.
Proof.
  induction a as [|x a IH]; intros b H; [reflexivity|].
  simpl in H. apply andb_true_iff in H as [H1 H2].
  simpl. rewrite (IH b H2), andb_true_r.
  destruct a as [|y a']; [reflexivity|]. exact H1.
Qed.

Lemma nca_app_r a : forall b, nca (a ++ b) = true -> nca b = true.
Proof.
  induction a as [|x a IH]; intros b H; [exact H|].
  simpl in H. apply andb_true_iff in H as [_ H2]. apply IH. exact H2.
Qed.

Lemma nca_substr s a p b : s = a ++ p ++ b -> nca s = true -> nca p = true.
Proof. intros -> H. apply nca_app_r in H. apply nca_app_l in H. exact H. Qed.

(* the byte after an ASCII byte starts a character (or is the end) *)
Lemma nca_boundary_after : forall s i a,
  nca s = true -> nth_error s i = Some a -> a < 128 -> is_char_boundary s (S i) = true.
Proof.
  induction s as [|x s IH]; intros i a Hn Hi Ha; [destruct i; discriminate|].
  simpl in Hn. apply andb_true_iff in Hn as [H1 H2].
  destruct i as [|i].
  - simpl in Hi. inversion Hi; subst x.
    unfold is_char_boundary. simpl. destruct s as [|y s']; [reflexivity|]. simpl.
    replace (a <? 128) with true in H1 by (symmetry; apply N.ltb_lt; exact Ha).
    simpl in H1. exact H1.
  - simpl in Hi. specialize (IH i a H2 Hi Ha).
    unfold is_char_boundary in *. simpl. exact IH.
Qed.

(* ------------------------------------------------------------------------------------ *)
(* 4. validators_total                                                                    *)
(* ------------------------------------------------------------------------------------ *)

Lemma check_domain_suffix_total s : check_domain_suffix s <> Panic /\ check_domain_suffix s <> OutOfFuel.
Proof. unfold check_domain_suffix. destruct (_ || _); split; discriminate. Qed.

Lemma check_domain_suffix_ok s :
  check_domain_suffix s = Ok tt -> exists a suf, s = a ++ suf /\ length suf = 12%nat /\ nth_error suf 0 = Some DOT.
Proof.
  unfold check_domain_suffix. destruct (ends_with s tcp_suffix) eqn:E1.
  - intros _. apply ends_with_spec in E1 as [a ->]. exists a, tcp_suffix. repeat split.
  - destruct (ends_with s udp_suffix) eqn:E2; [|discriminate].
    intros _. apply ends_with_spec in E2 as [a ->]. exists a, udp_suffix. repeat split.
Qed.

Lemma last_map_some {A} (l : list A) : l <> [] -> exists x, last (map Some l) None = Some x /\ In x l.
Proof.
  induction l as [|x l IH]; [congruence|]. intros _.
  destruct l as [|y l'].
  - exists x. split; [reflexivity|left; reflexivity].
  - destruct IH as (z & Hz & Hin); [discriminate|].
    exists z. split; [exact Hz|right; exact Hin].
Qed.

Lemma firstn_skipn0 {A} (l : list A) n : firstn (n - 0) (skipn 0 l) = firstn n l.
Proof. rewrite Nat.sub_0_r. reflexivity. Qed.

Lemma bind_not_panic {A B} (r : res A) (f : A -> res B) :
  r <> Panic -> r <> OutOfFuel -> (forall a, r = Ok a -> f a <> Panic /\ f a <> OutOfFuel) ->
  bind r f <> Panic /\ bind r f <> OutOfFuel.
Proof.
  intros H1 H2 H3. destruct r; simpl; try (split; discriminate); try congruence.
  apply H3. reflexivity.
Qed.

Definition total {A} (r : res A) : Prop := safe r.

Lemma total_ok {A} (a : A) : total (Ok a). Proof. split; discriminate. Qed.
Lemma total_err {A} : total (@Err A). Proof. split; discriminate. Qed.

Lemma check_service_name_total_nca s : nca s = true -> total (check_service_name s).
Proof.
  intros Hv. unfold check_service_name.
  destruct (check_domain_suffix s) as [[]| | |] eqn:E; simpl; try apply total_err.
  2:{ exfalso. apply (proj1 (check_domain_suffix_total s)). exact E. }
  2:{ exfalso. apply (proj2 (check_domain_suffix_total s)). exact E. }
  apply check_domain_suffix_ok in E as (a & suf & -> & Hl & Hd).
  assert (Hb : blen (a ++ suf) <? DOMAIN_LEN = false).
  { apply N.ltb_ge. unfold blen. rewrite app_length, Hl. rewrite domain_len_pinned. lia. }
  rewrite Hb.
  assert (Hlen : (length (a ++ suf) - Pos.to_nat 12)%nat = length a).
  { rewrite app_length, Hl. change (Pos.to_nat 12) with 12%nat. lia. }
  rewrite Hlen.
  rewrite (slice_ok (a ++ suf) 0 (length a)).
  2:{ lia. }
  2:{ rewrite app_length. lia. }
  2:{ reflexivity. }
  2:{ eapply boundary_at_noncont.
      - replace (length a) with (length a + 0)%nat by lia. rewrite nth_error_app_r. exact Hd.
      - reflexivity. }
  cbn [bind]. rewrite firstn_skipn0, firstn_app, Nat.sub_diag, firstn_all. simpl firstn. rewrite app_nil_r.
  destruct (last_map_some (split_on DOT a) (split_on_nonempty DOT a)) as (name & -> & Hin).
  destruct (first_is USC name) eqn:F; simpl; [|apply total_err].
  destruct name as [|x rest]; [discriminate|]. simpl in F. apply N.eqb_eq in F. subst x.
  assert (Hn : nca (USC :: rest) = true).
  { destruct (split_on_substr DOT a _ Hin) as (p & q & Ha).
    eapply nca_substr; [exact Ha|]. apply nca_app_l with (b := suf). exact Hv. }
  rewrite slice_ok; simpl length; try lia.
  2:{ eapply nca_boundary_after; [exact Hn|reflexivity|unfold USC; lia]. }
  2:{ apply (boundary_len (USC :: rest)). }
  simpl bind.
  destruct (contains_sub _ _); [apply total_err|].
  destruct (_ || _); [apply total_err|].
  destruct (existsb _ _); [apply total_ok|apply total_err].
Qed.

Lemma check_service_name_total s : utf8_valid s = true -> total (check_service_name s).
Proof. intros H. apply check_service_name_total_nca. apply valid_nca. exact H. Qed.

Lemma check_service_name_length_total s l : total (check_service_name_length s l).
Proof.
  unfold check_service_name_length. rewrite svc_type_too_short_pinned.
  destruct (blen s <=? 13) eqn:E; [apply total_err|].
  apply N.leb_gt in E.
  replace (blen s <? DOMAIN_LEN + 1) with false
    by (symmetry; apply N.ltb_ge; rewrite domain_len_pinned; lia).
  destruct (svc_name_too_long _ _); [apply total_err|apply total_ok].
Qed.

Lemma check_hostname_total s : total (check_hostname s).
Proof.
  unfold check_hostname. destruct (negb _); [apply total_err|].
  destruct (beq _ _); [apply total_err|]. destruct (hostname_too_long _); [apply total_err|apply total_ok].
Qed.

Lemma check_label_lengths_total lc s : total (check_label_lengths lc s).
Proof. unfold check_label_lengths. destruct (labels_fit s && labels_fit (lc s)); [apply total_ok|apply total_err]. Qed.

Lemma normalize_hostname_total s : exists r, normalize_hostname s = Ok r.
Proof.
  unfold normalize_hostname. destruct (ends_with s local_local_suffix) eqn:E; [|eauto].
  apply ends_with_spec in E as [a ->].
  assert (Hl : length (a ++ local_local_suffix) = (length a + 13)%nat) by (rewrite app_length; reflexivity).
  replace (length (a ++ local_local_suffix) <? 6)%nat with false
    by (symmetry; apply Nat.ltb_ge; lia).
  rewrite slice_ok; [eauto|lia|lia|reflexivity|].
  eapply boundary_at_noncont.
  - replace (length (a ++ local_local_suffix) - 6)%nat with (length a + 7)%nat by lia.
    rewrite nth_error_app_r. reflexivity.
  - reflexivity.
Qed.

Lemma si_names_total ty nm host : exists r, si_names ty nm host = Ok r.
Proof.
  unfold si_names. destruct (split_sub_domain ty) as [t sub].
  destruct (normalize_hostname_total host) as [r ->]. simpl. eauto.
Qed.

(* ---- name_change / hostname_change ---- *)

Lemma first_part_nca s first rest :
  utf8_valid s = true -> split_on DOT s = first :: rest -> nca first = true.
Proof.
  intros Hv Hs.
  destruct (split_on_substr DOT s first) as (a & b & Ha); [rewrite Hs; left; reflexivity|].
  eapply nca_substr; [exact Ha|apply valid_nca; exact Hv].
Qed.

Lemma nth_error_skipn' {A} : forall n (l : list A) k, nth_error (skipn n l) k = nth_error l (n + k).
Proof.
  induction n as [|n IH]; intros l k; [reflexivity|].
  destruct l as [|x l]; [destruct k; reflexivity|]. simpl. apply IH.
Qed.

Lemma find_rpar_ge2 rest ep : find_sub [RPAR] (SPC :: LPAR :: rest) = Some ep -> (2 <= ep)%nat.
Proof.
  simpl. unfold RPAR, SPC, LPAR. simpl.
  destruct (find_sub [41] rest); simpl; intros H; inversion H; lia.
Qed.

Lemma skipn_firstn_all {A} (l : list A) n : (n <= length l)%nat -> firstn (length l - n) (skipn n l) = skipn n l.
Proof. intros H. apply firstn_all2. rewrite skipn_length. lia. Qed.

Lemma total_bind {A B} (r : res A) (f : A -> res B) :
  total r -> (forall a, r = Ok a -> total (f a)) -> total (bind r f).
Proof. intros [H1 H2] H. apply bind_not_panic; assumption. Qed.

Lemma api_browse_total lc s : total (api_browse lc s).
Proof.
  unfold api_browse. apply total_bind; [apply check_domain_suffix_total|].
  intros _ _. apply check_label_lengths_total.
Qed.

Lemma api_resolve_hostname_total lc s : total (api_resolve_hostname lc s).
Proof.
  unfold api_resolve_hostname. apply total_bind; [apply check_hostname_total|].
  intros _ _. apply check_label_lengths_total.
Qed.

(* `wfs s`: s could follow an ASCII character: its first byte is not a continuation byte and
   no continuation byte follows an ASCII byte inside it *)
Definition wfs (s : bytes) : Prop := nca (DOT :: s) = true.

Lemma valid_wfs s : utf8_valid s = true -> wfs s.
Proof.
  intros H. unfold wfs. simpl. rewrite (valid_nca s H), andb_true_r.
  destruct s as [|b t]; [reflexivity|]. rewrite (valid_head_not_cont b t H). reflexivity.
Qed.

Lemma wfs_nca s : wfs s -> nca s = true.
Proof. unfold wfs. simpl. intros H. apply andb_true_iff in H as [_ H]. exact H. Qed.

Lemma wfs_cons_ascii a s : a < 128 -> wfs (a :: s) <-> wfs s.
Proof.
  intros Ha. unfold wfs. simpl.
  replace (a <? 128) with true by (symmetry; apply N.ltb_lt; exact Ha).
  rewrite (ascii_not_cont a Ha). simpl. reflexivity.
Qed.

Lemma nca_app_noncont a : forall b y,
  nca a = true -> nca (y :: b) = true -> cont y = false -> nca (a ++ y :: b) = true.
Proof.
  induction a as [|x a IH]; intros b y Ha Hb Hy; [exact Hb|].
  simpl in Ha. apply andb_true_iff in Ha as [H1 H2].
  change ((x :: a) ++ y :: b) with (x :: (a ++ y :: b)).
  cbn [nca]. rewrite (IH b y H2 Hb Hy), andb_true_r.
  destruct a as [|z a']; simpl app; cbv iota.
  - rewrite Hy. apply orb_true_r.
  - exact H1.
Qed.

Lemma wfs_app a b : wfs a -> wfs b -> wfs (a ++ DOT :: b).
Proof.
  unfold wfs. intros Ha Hb.
  change (DOT :: a ++ DOT :: b) with ((DOT :: a) ++ DOT :: b).
  apply nca_app_noncont; [exact Ha|exact Hb|reflexivity].
Qed.

Lemma nca_head_ascii a a' s : a < 128 -> a' < 128 -> nca (a :: s) = nca (a' :: s).
Proof.
  intros H H'. simpl.
  replace (a <? 128) with true by (symmetry; apply N.ltb_lt; exact H).
  replace (a' <? 128) with true by (symmetry; apply N.ltb_lt; exact H'). reflexivity.
Qed.

Lemma nca_cons2 x y l : nca (x :: y :: l) = (negb (x <? 128) || negb (cont y)) && nca (y :: l).
Proof. reflexivity. Qed.

Lemma nca_escape : forall s x, nca (x :: s) = true -> nca (x :: escape_label s) = true.
Proof.
  induction s as [|a t IH]; intros x H; [exact H|].
  unfold escape_label. cbn [flat_map]. fold (escape_label t).
  rewrite nca_cons2 in H. apply andb_true_iff in H as [H1 H2].
  destruct ((a =? DOT) || (a =? BSL)) eqn:E.
  - assert (Ca : cont a = false).
    { apply orb_true_iff in E as [E|E]; apply N.eqb_eq in E; subst a; reflexivity. }
    change ([BSL; a] ++ escape_label t) with (BSL :: a :: escape_label t).
    rewrite !nca_cons2. rewrite Ca. change (cont BSL) with false.
    rewrite !orb_true_r. simpl andb. apply IH. exact H2.
  - change ([a] ++ escape_label t) with (a :: escape_label t).
    rewrite nca_cons2, H1. simpl andb. apply IH. exact H2.
Qed.

Lemma wfs_escape s : wfs s -> wfs (escape_label s).
Proof. unfold wfs. apply nca_escape. Qed.

Lemma wfs_skipn_after d i a :
  nca d = true -> nth_error d i = Some a -> a < 128 -> wfs (skipn (S i) d).
Proof.
  intros Hn Hi Ha. unfold wfs.
  rewrite (nca_head_ascii DOT a) by (unfold DOT; lia || exact Ha).
  assert (Hd : d = firstn i d ++ a :: skipn (S i) d).
  { rewrite <- (firstn_skipn i d) at 1. f_equal.
    clear Hn. revert d Hi. induction i as [|i IH]; intros d Hi; destruct d as [|y d]; try discriminate.
    - simpl in Hi. inversion Hi; subst. reflexivity.
    - simpl in Hi. simpl. apply IH. exact Hi. }
  rewrite Hd in Hn. apply nca_app_r in Hn. exact Hn.
Qed.

Lemma split_sub_domain_wfs ty : utf8_valid ty = true -> wfs (fst (split_sub_domain ty)).
Proof.
  intros Hv. unfold split_sub_domain.
  destruct (rfind_sub sub_marker ty) as [i|] eqn:R; simpl; [|apply valid_wfs; exact Hv].
  apply rfind_sub_some in R.
  assert (P5 : nth_error ty (i + 5) = Some DOT) by (eapply prefixb_skipn_nth; [exact R|reflexivity]).
  change (length sub_marker) with 6%nat. replace (i + 6)%nat with (S (i + 5)) by lia.
  eapply wfs_skipn_after; [apply valid_nca; exact Hv|exact P5|unfold DOT; lia].
Qed.

Lemma api_register_names_total lc full server sub :
  nca full = true -> total (api_register_names lc full server sub).
Proof.
  intros Hn. unfold api_register_names.
  apply total_bind; [apply check_service_name_total_nca; exact Hn|]. intros _ _.
  apply total_bind; [apply check_hostname_total|]. intros _ _.
  apply total_bind; [apply check_label_lengths_total|]. intros _ _.
  apply total_bind; [apply check_label_lengths_total|]. intros _ _.
  destruct sub; [apply check_label_lengths_total|apply total_ok].
Qed.

Lemma si_names_fullname ty nm host tyd sub full server :
  si_names ty nm host = Ok (tyd, sub, full, server) ->
  tyd = fst (split_sub_domain ty) /\ sub = snd (split_sub_domain ty)
  /\ full = escape_label nm ++ DOT :: tyd /\ normalize_hostname host = Ok server.
Proof.
  unfold si_names. destruct (split_sub_domain ty) as [t sb].
  destruct (normalize_hostname host) as [r| | |]; simpl; try discriminate.
  intros H. inversion H; subst. auto.
Qed.

Lemma api_register_total lc ty nm host :
  utf8_valid ty = true -> utf8_valid nm = true -> total (api_register lc ty nm host).
Proof.
  intros Hty Hnm. unfold api_register.
  destruct (si_names_total ty nm host) as [[[[tyd sub] full] server] E]. rewrite E. cbn [bind].
  apply si_names_fullname in E as (-> & _ & -> & _).
  apply api_register_names_total. apply wfs_nca.
  apply wfs_app; [apply wfs_escape, valid_wfs; exact Hnm|apply split_sub_domain_wfs; exact Hty].
Qed.

(* ------------------------------------------------------------------------------------ *)
(* 5. the encoder's label split                                                           *)
(* ------------------------------------------------------------------------------------ *)

Definition good (R : N -> Prop) (l : bytes) : Prop := l <> [] /\ Forall R l.

Lemma push_label_good R cur acc :
  Forall R cur -> Forall (good R) acc -> Forall (good R) (push_label cur acc).
Proof.
  intros Hc Ha. destruct cur as [|c cur']; [exact Ha|].
  simpl. constructor; [split; [discriminate|exact Hc]|exact Ha].
Qed.

Lemma pen_good_len R n : forall s cur acc, (length s <= n)%nat ->
  Forall R s -> Forall R cur -> Forall (good R) acc -> Forall (good R) (pen s cur acc).
Proof.
  induction n as [|n IH]; intros s cur acc Hl Hs Hc Ha.
  - destruct s; [|simpl in Hl; lia]. simpl. apply Forall_rev. apply push_label_good; assumption.
  - destruct s as [|c t].
    { simpl. apply Forall_rev. apply push_label_good; assumption. }
    inversion Hs as [|? ? Rc Rt]; subst. simpl in Hl.
    cbn [pen]. destruct (c =? BSL).
    + destruct t as [|m t'].
      * apply IH; [simpl; lia|constructor|apply Forall_app; split; [exact Hc|constructor; [exact Rc|constructor]]|exact Ha].
      * inversion Rt as [|? ? Rm Rt']; subst.
        destruct ((m =? DOT) || (m =? BSL)).
        -- apply IH; [simpl in *; lia|exact Rt'|apply Forall_app; split; [exact Hc|constructor; [exact Rm|constructor]]|exact Ha].
        -- apply IH; [simpl in *; lia|exact Rt|apply Forall_app; split; [exact Hc|constructor; [exact Rc|constructor]]|exact Ha].
    + destruct (c =? DOT).
      * apply IH; [lia|exact Rt|constructor|apply push_label_good; assumption].
      * apply IH; [lia|exact Rt|apply Forall_app; split; [exact Hc|constructor; [exact Rc|constructor]]|exact Ha].
Qed.

Lemma strip_dot_Forall R s : Forall R s -> Forall R (strip_dot s).
Proof.
  intros H. unfold strip_dot. destruct (rev s) as [|c r] eqn:E; [exact H|].
  destruct (c =? DOT); [|exact H].
  assert (Hr : Forall R (rev s)) by (apply Forall_rev; exact H).
  rewrite E in Hr. inversion Hr; subst. apply Forall_rev. assumption.
Qed.

(* every label the encoder derives from a name is non-empty and consists of bytes of the name *)
Lemma name_labels_good R name : Forall R name -> Forall (good R) (name_labels name).
Proof.
  intros H. unfold name_labels, parse_escaped_name.
  apply (pen_good_len R (length (strip_dot name))); [lia|apply strip_dot_Forall; exact H|constructor|constructor].
Qed.

Lemma wf_bytesb_Forall l : Forall (fun b => b < 256) l -> wf_bytesb l = true.
Proof.
  intros H. unfold wf_bytesb. apply forallb_forall. intros x Hx.
  apply N.ltb_lt. rewrite Forall_forall in H. apply H. exact Hx.
Qed.

(* a name whose labels pass the length check has only labels the encoder accepts *)
Lemma labels_fit_label_ok name :
  wf_bytes name -> labels_fit name = true -> forallb label_ok (name_labels name) = true.
Proof.
  intros Hw Hf. unfold labels_fit in Hf. rewrite forallb_forall in Hf.
  apply forallb_forall. intros l Hl.
  pose proof (name_labels_good (fun b => b < 256) name Hw) as Hg.
  rewrite Forall_forall in Hg. destruct (Hg l Hl) as [Hne Hb].
  specialize (Hf l Hl). rewrite label_fits_pinned in Hf. apply N.ltb_lt in Hf.
  unfold label_ok. rewrite (wf_bytesb_Forall l Hb), andb_true_r.
  apply andb_true_iff. split; apply N.leb_le.
  - unfold blen. destruct l; [congruence|]. simpl length. lia.
  - lia.
Qed.

Lemma label_ok_bounds name :
  forallb label_ok (name_labels name) = true ->
  Forall (fun l => 1 <= blen l /\ blen l <= 63) (name_labels name).
Proof.
  intros H. rewrite forallb_forall in H. apply Forall_forall. intros l Hl.
  apply label_ok_inv. apply H. exact Hl.
Qed.

Lemma check_label_lengths_ok lc name : check_label_lengths lc name = Ok tt -> labels_fit name = true.
Proof. unfold check_label_lengths. destruct (labels_fit name); [reflexivity|discriminate]. Qed.

Lemma check_label_lengths_ok_lower lc name :
  check_label_lengths lc name = Ok tt -> labels_fit (lc name) = true.
Proof.
  unfold check_label_lengths. destruct (labels_fit name); [|discriminate].
  destruct (labels_fit (lc name)); [reflexivity|discriminate].
Qed.

Lemma bind_ok_unit {B} (r : res unit) (f : unit -> res B) b : bind r f = Ok b -> r = Ok tt /\ f tt = Ok b.
Proof. destruct r as [[]| | |]; simpl; try discriminate. auto. Qed.

(* accepted by browse *)
Lemma browse_accepted_encodable lc ty :
  wf_bytes ty -> api_browse lc ty = Ok tt -> forallb label_ok (name_labels ty) = true.
Proof.
  intros Hw H. unfold api_browse in H. apply bind_ok_unit in H as [_ H].
  apply labels_fit_label_ok; [exact Hw|apply (check_label_lengths_ok lc); exact H].
Qed.

Lemma resolve_accepted_encodable lc h :
  wf_bytes h -> api_resolve_hostname lc h = Ok tt -> forallb label_ok (name_labels h) = true.
Proof.
  intros Hw H. unfold api_resolve_hostname in H. apply bind_ok_unit in H as [_ H].
  apply labels_fit_label_ok; [exact Hw|apply (check_label_lengths_ok lc); exact H].
Qed.

(* ... and in the lower-cased spelling *)
Lemma browse_accepted_encodable_lower lc ty :
  wf_bytes (lc ty) -> api_browse lc ty = Ok tt -> forallb label_ok (name_labels (lc ty)) = true.
Proof.
  intros Hw H. unfold api_browse in H. apply bind_ok_unit in H as [_ H].
  apply labels_fit_label_ok; [exact Hw|apply check_label_lengths_ok_lower; exact H].
Qed.

Lemma resolve_accepted_encodable_lower lc h :
  wf_bytes (lc h) -> api_resolve_hostname lc h = Ok tt -> forallb label_ok (name_labels (lc h)) = true.
Proof.
  intros Hw H. unfold api_resolve_hostname in H. apply bind_ok_unit in H as [_ H].
  apply labels_fit_label_ok; [exact Hw|apply check_label_lengths_ok_lower; exact H].
Qed.

(* ---- the type part of an accepted registration ---- *)

Lemma pen_escape : forall s rest cur acc,
  pen (escape_label s ++ rest) cur acc = pen rest (cur ++ s) acc.
Proof.
  induction s as [|a t IH]; intros rest cur acc.
  - simpl. rewrite app_nil_r. reflexivity.
  - unfold escape_label. cbn [flat_map]. fold (escape_label t).
    destruct ((a =? DOT) || (a =? BSL)) eqn:E.
    + simpl app. cbn [pen]. rewrite N.eqb_refl. rewrite E.
      rewrite IH. rewrite <- app_assoc. reflexivity.
    + apply orb_false_iff in E as [E1 E2]. simpl app. cbn [pen]. rewrite E2, E1.
      rewrite IH. rewrite <- app_assoc. reflexivity.
Qed.

Lemma pen_acc_len n : forall s cur acc, (length s <= n)%nat -> pen s cur acc = rev acc ++ pen s cur [].
Proof.
  assert (PL : forall cur acc, rev (push_label cur acc) = rev acc ++ rev (push_label cur [])).
  { intros cur acc. destruct cur; simpl; [rewrite app_nil_r; reflexivity|reflexivity]. }
  induction n as [|n IH]; intros s cur acc Hl.
  - destruct s; [|simpl in Hl; lia]. simpl. apply PL.
  - destruct s as [|c t]; [simpl; apply PL|]. simpl in Hl. cbn [pen].
    destruct (c =? BSL).
    + destruct t as [|m t'].
      * apply IH. simpl. lia.
      * destruct ((m =? DOT) || (m =? BSL)); apply IH; simpl in *; lia.
    + destruct (c =? DOT).
      * rewrite (IH t [] (push_label cur acc)) by lia.
        rewrite (IH t [] (push_label cur [])) by lia. rewrite PL, <- app_assoc. reflexivity.
      * apply IH. lia.
Qed.

Lemma pen_acc s cur acc : pen s cur acc = rev acc ++ pen s cur [].
Proof. apply (pen_acc_len (length s)). lia. Qed.

(* the labels of `escaped-instance . rest` are the instance (if not empty) followed by the
   labels of `rest` *)
Lemma pen_instance_dot nm rest :
  pen (escape_label nm ++ DOT :: rest) [] [] = rev (push_label nm []) ++ pen rest [] [].
Proof.
  rewrite pen_escape. simpl app. destruct nm as [|a t].
  - cbn [pen]. replace (DOT =? BSL) with false by reflexivity. rewrite N.eqb_refl. reflexivity.
  - cbn [pen]. replace (DOT =? BSL) with false by reflexivity. rewrite N.eqb_refl.
    rewrite pen_acc. reflexivity.
Qed.

Lemma strip_dot_app_cons a x b : strip_dot (a ++ x :: b) = a ++ strip_dot (x :: b).
Proof.
  unfold strip_dot. rewrite rev_app_distr.
  destruct (rev (x :: b)) as [|c r] eqn:E.
  - exfalso. apply (f_equal (@length N)) in E. rewrite rev_length in E. simpl in E. lia.
  - change ((c :: r) ++ rev a) with (c :: (r ++ rev a)). cbv iota.
    destruct (c =? DOT); [|reflexivity].
    rewrite rev_app_distr, rev_involutive. reflexivity.
Qed.

Lemma strip_dot_cons_dot ty : ty <> [] -> strip_dot (DOT :: ty) = DOT :: strip_dot ty.
Proof.
  intros H. destruct ty as [|y t]; [congruence|].
  change (DOT :: y :: t) with ([DOT] ++ y :: t). rewrite strip_dot_app_cons. reflexivity.
Qed.

Lemma Forall_app_r {A} (P : A -> Prop) a b : Forall P (a ++ b) -> Forall P b.
Proof. intros H. apply Forall_app in H. tauto. Qed.

(* if the full name of a registration has only encodable labels, so has its type *)
Lemma fullname_type_labels P nm ty :
  Forall P (name_labels (escape_label nm ++ DOT :: ty)) -> Forall P (name_labels ty).
Proof.
  unfold name_labels, parse_escaped_name. intros H.
  destruct ty as [|y t].
  - simpl. constructor.
  - rewrite strip_dot_app_cons, strip_dot_cons_dot in H by discriminate.
    rewrite pen_instance_dot in H. apply Forall_app_r in H. exact H.
Qed.

Lemma forallb_Forall {A} (f : A -> bool) l : forallb f l = true <-> Forall (fun x => f x = true) l.
Proof. rewrite forallb_forall, Forall_forall. tauto. Qed.

Lemma wf_bytes_app a b : wf_bytes a -> wf_bytes b -> wf_bytes (a ++ b).
Proof. intros. apply Forall_app. tauto. Qed.

Lemma escape_label_wf s : wf_bytes s -> wf_bytes (escape_label s).
Proof.
  intros H. unfold escape_label. induction H as [|x l Hx Hl IH]; [constructor|].
  cbn [flat_map]. destruct ((x =? DOT) || (x =? BSL)).
  - constructor; [unfold BSL; lia|]. constructor; [exact Hx|exact IH].
  - constructor; [exact Hx|exact IH].
Qed.

Lemma skipn_wf n s : wf_bytes s -> wf_bytes (skipn n s).
Proof.
  intros H. unfold wf_bytes in *. rewrite <- (firstn_skipn n s) in H. apply Forall_app in H. tauto.
Qed.

Lemma firstn_wf n s : wf_bytes s -> wf_bytes (firstn n s).
Proof.
  intros H. unfold wf_bytes in *. rewrite <- (firstn_skipn n s) in H. apply Forall_app in H. tauto.
Qed.

Lemma normalize_hostname_wf h r : wf_bytes h -> normalize_hostname h = Ok r -> wf_bytes r.
Proof.
  unfold normalize_hostname. intros Hw. destruct (ends_with h local_local_suffix).
  - destruct (length h <? 6)%nat; [discriminate|]. unfold slice.
    destruct (_ && _); [|discriminate]. intros H. inversion H; subst.
    apply firstn_wf. exact Hw.
  - intros H. inversion H; subst. exact Hw.
Qed.

(* accepted by register: the full name, the type, the subtype and the host name are all
   encodable *)
Lemma register_accepted_encodable lc ty nm host tyd sub full server :
  wf_bytes ty -> wf_bytes nm -> wf_bytes host ->
  si_names ty nm host = Ok (tyd, sub, full, server) ->
  api_register lc ty nm host = Ok tt ->
  forallb label_ok (name_labels full) = true
  /\ forallb label_ok (name_labels tyd) = true
  /\ forallb label_ok (name_labels server) = true
  /\ (forall s, sub = Some s -> forallb label_ok (name_labels s) = true).
Proof.
  intros Wty Wnm Whost E H. unfold api_register in H. rewrite E in H. cbn [bind] in H.
  apply si_names_fullname in E as (Et & Es & Ef & En).
  unfold api_register_names in H.
  apply bind_ok_unit in H as [_ H]. apply bind_ok_unit in H as [_ H].
  apply bind_ok_unit in H as [H1 H]. apply bind_ok_unit in H as [H2 H].
  assert (Wtyd : wf_bytes tyd).
  { subst tyd. unfold split_sub_domain. destruct (rfind_sub sub_marker ty); simpl; [apply skipn_wf|]; exact Wty. }
  assert (Wfull : wf_bytes full).
  { subst full. apply wf_bytes_app; [apply escape_label_wf; exact Wnm|]. constructor; [unfold DOT; lia|exact Wtyd]. }
  assert (Lfull : forallb label_ok (name_labels full) = true)
    by (apply labels_fit_label_ok; [exact Wfull|apply (check_label_lengths_ok lc); exact H1]).
  split; [exact Lfull|]. split.
  - apply forallb_Forall. apply forallb_Forall in Lfull. rewrite Ef in Lfull.
    eapply fullname_type_labels. exact Lfull.
  - split.
    + apply labels_fit_label_ok; [exact (normalize_hostname_wf host server Whost En)|apply (check_label_lengths_ok lc); exact H2].
    + intros s Hs. subst sub.
      assert (s = ty).
      { unfold split_sub_domain in Hs. destruct (rfind_sub sub_marker ty); simpl in Hs; [inversion Hs; reflexivity|discriminate]. }
      subst s. rewrite Hs in H.
      apply labels_fit_label_ok; [exact Wty|apply (check_label_lengths_ok lc); exact H].
Qed.

Lemma register_accepted_encodable_lower lc ty nm host tyd sub full server :
  si_names ty nm host = Ok (tyd, sub, full, server) ->
  api_register lc ty nm host = Ok tt ->
  (wf_bytes (lc full) -> forallb label_ok (name_labels (lc full)) = true)
  /\ (wf_bytes (lc server) -> forallb label_ok (name_labels (lc server)) = true)
  /\ (forall s, sub = Some s -> wf_bytes (lc s) -> forallb label_ok (name_labels (lc s)) = true).
Proof.
  intros E H. unfold api_register in H. rewrite E in H. cbn [bind] in H.
  unfold api_register_names in H.
  apply bind_ok_unit in H as [_ H]. apply bind_ok_unit in H as [_ H].
  apply bind_ok_unit in H as [H1 H]. apply bind_ok_unit in H as [H2 H].
  repeat split.
  - intros W. apply labels_fit_label_ok; [exact W|apply check_label_lengths_ok_lower; exact H1].
  - intros W. apply labels_fit_label_ok; [exact W|apply check_label_lengths_ok_lower; exact H2].
  - intros s Hs W. subst sub. apply labels_fit_label_ok; [exact W|apply check_label_lengths_ok_lower; exact H].
Qed.

(* ------------------------------------------------------------------------------------ *)
(* 6. refutations                                                                         *)
(* ------------------------------------------------------------------------------------ *)

Definition x_tcp : bytes := [95;120;46;95;116;99;112;46;108;111;99;97;108;46].   (* _x._tcp.local. *)
Definition h_local : bytes := [104;46;108;111;99;97;108;46].                      (* h.local. *)
Definition rep (b : N) (n : nat) : bytes := repeat b n.

(* what "encodable" buys: bounds on every label, and the encoder model cannot panic *)
Lemma encodable_conclusion name :
  forallb label_ok (name_labels name) = true ->
  Forall (fun l => 1 <= blen l /\ blen l <= 63) (name_labels name)
  /\ forall t pos, exists r, write_name t pos name = Ok r.
Proof.
  intros H. split; [apply label_ok_bounds; exact H|].
  intros t pos. unfold write_name. apply write_labels_total. exact H.
Qed.

Definition enc_ok (name : bytes) : Prop :=
  Forall (fun l => 1 <= blen l /\ blen l <= 63) (name_labels name)
  /\ forall t pos, exists r, write_name t pos name = Ok r.

(* accepted names are encodable as given AND in the lower-cased spelling `lc name` (whatever
   function lc is; its results only have to be byte strings) *)
Lemma browse_accepted lc ty :
  wf_bytes ty -> wf_bytes (lc ty) -> api_browse lc ty = Ok tt -> enc_ok ty /\ enc_ok (lc ty).
Proof.
  intros W Wl H. split; apply encodable_conclusion;
    [eapply browse_accepted_encodable|eapply browse_accepted_encodable_lower]; eassumption.
Qed.

Lemma resolve_accepted lc h :
  wf_bytes h -> wf_bytes (lc h) -> api_resolve_hostname lc h = Ok tt -> enc_ok h /\ enc_ok (lc h).
Proof.
  intros W Wl H. split; apply encodable_conclusion;
    [eapply resolve_accepted_encodable|eapply resolve_accepted_encodable_lower]; eassumption.
Qed.

Lemma register_accepted lc ty nm host tyd sub full server :
  wf_bytes ty -> wf_bytes nm -> wf_bytes host ->
  si_names ty nm host = Ok (tyd, sub, full, server) ->
  api_register lc ty nm host = Ok tt ->
  enc_ok full /\ enc_ok tyd /\ enc_ok server /\ (forall s, sub = Some s -> enc_ok s)
  /\ (wf_bytes (lc full) -> enc_ok (lc full)) /\ (wf_bytes (lc server) -> enc_ok (lc server))
  /\ (forall s, sub = Some s -> wf_bytes (lc s) -> enc_ok (lc s)).
Proof.
  intros W1 W2 W3 E H.
  destruct (register_accepted_encodable lc ty nm host tyd sub full server W1 W2 W3 E H) as (A & B & C & D).
  destruct (register_accepted_encodable_lower lc ty nm host tyd sub full server E H) as (A' & C' & D').
  split; [apply encodable_conclusion; exact A|]. split; [apply encodable_conclusion; exact B|].
  split; [apply encodable_conclusion; exact C|]. split; [intros s Hs; apply encodable_conclusion; exact (D s Hs)|].
  split; [intros W; apply encodable_conclusion; exact (A' W)|].
  split; [intros W; apply encodable_conclusion; exact (C' W)|].
  intros s Hs W. apply encodable_conclusion. exact (D' s Hs W).
Qed.

Lemma register_total lc ty nm host :
  utf8_valid ty = true -> utf8_valid nm = true -> utf8_valid host = true ->
  (exists r, si_names ty nm host = Ok r) /\ safe (api_register lc ty nm host).
Proof.
  intros H1 H2 _. split; [apply si_names_total|apply api_register_total; assumption].
Qed.

(* the slice `&name[1..]` in check_service_name is reached only behind `starts_with('_')`
   and is then in range and on a character boundary *)
Lemma service_label_slice_safe name :
  nca name = true -> first_is USC name = true -> exists r, slice name 1 (length name) = Ok r.
Proof.
  intros Hn F. destruct name as [|x rest]; [discriminate|].
  simpl in F. apply N.eqb_eq in F. subst x.
  rewrite slice_ok; [eauto|simpl; lia|lia| |apply boundary_len].
  eapply nca_boundary_after; [exact Hn|reflexivity|unfold USC; lia].
Qed.

Definition Bnd (n : nat) (acc : list bytes) : Prop := Forall (fun x => (length x <= n)%nat) acc.

Lemma push_label_Bnd n cur acc : (length cur <= n)%nat -> Bnd n acc -> Bnd n (push_label cur acc).
Proof.
  intros H1 H2. destruct cur; [exact H2|]. simpl. constructor; assumption.
Qed.

Lemma pen_nobsl_step n : forall l rest cur acc,
  ~ In BSL l -> (length cur + length l <= n)%nat -> Bnd n acc ->
  exists cur' acc', pen (l ++ rest) cur acc = pen rest cur' acc'
    /\ (length cur' <= length cur + length l)%nat /\ Bnd n acc'.
Proof.
  induction l as [|c l IH]; intros rest cur acc Hn Hl Hb.
  - exists cur, acc. repeat split; [lia|exact Hb].
  - assert (Hc : (c =? BSL) = false).
    { apply N.eqb_neq. intros ->. apply Hn. left. reflexivity. }
    assert (Hn' : ~ In BSL l) by (intros X; apply Hn; right; exact X).
    simpl length in Hl. change ((c :: l) ++ rest) with (c :: (l ++ rest)). cbn [pen]. rewrite Hc.
    destruct (c =? DOT).
    + destruct (IH rest [] (push_label cur acc) Hn') as (cur' & acc' & E & L & B).
      * simpl. lia.
      * apply push_label_Bnd; [lia|exact Hb].
      * exists cur', acc'. repeat split; [exact E|simpl in L; simpl; lia|exact B].
    + destruct (IH rest (cur ++ [c]) acc Hn') as (cur' & acc' & E & L & B).
      * rewrite app_length. simpl. lia.
      * exact Hb.
      * exists cur', acc'. repeat split; [exact E|rewrite app_length in L; simpl in L; simpl; lia|exact B].
Qed.

Lemma pen_present_nobsl : forall ls tail acc,
  Forall (fun l => ~ In BSL l /\ (length l <= 63)%nat) ls ->
  ~ In BSL tail -> (length tail <= 63)%nat -> Bnd 63 acc ->
  Bnd 63 (pen (present ls ++ tail) [] acc).
Proof.
  induction ls as [|l ls IH]; intros tail acc Hls Ht Hl Hb.
  - simpl app.
    destruct (pen_nobsl_step 63 tail [] [] acc Ht) as (cur' & acc' & E & L & B); [simpl; lia|exact Hb|].
    rewrite app_nil_r in E. rewrite E. simpl. unfold Bnd. apply Forall_rev.
    apply push_label_Bnd; [simpl in L; lia|exact B].
  - inversion Hls as [|? ? [Hl1 Hl2] Hls']; subst.
    unfold present. cbn [flat_map]. fold (present ls). rewrite <- !app_assoc. simpl app.
    destruct (pen_nobsl_step 63 l (DOT :: present ls ++ tail) [] acc Hl1) as (cur' & acc' & E & L & B);
      [simpl; lia|exact Hb|].
    rewrite E. cbn [pen]. replace (DOT =? BSL) with false by reflexivity. rewrite N.eqb_refl.
    apply IH; [exact Hls'|exact Ht|exact Hl|].
    apply push_label_Bnd; [simpl in L; lia|exact B].
Qed.

Lemma strip_dot_snoc a : strip_dot (a ++ [DOT]) = a.
Proof. unfold strip_dot. rewrite rev_app_distr. simpl. apply rev_involutive. Qed.

Lemma present_snoc ls l : present (ls ++ [l]) = present ls ++ l ++ [DOT].
Proof. unfold present. rewrite flat_map_app. simpl. rewrite app_nil_r. reflexivity. Qed.

(* names from the wire whose labels contain no backslash re-split into labels no longer than
   the wire labels (a dot inside a wire label only splits it further) *)
Lemma reencode_safe_without_backslash ls :
  Forall (fun l => ~ In BSL l /\ blen l <= 63) ls -> encodable (present ls) = true.
Proof.
  intros H.
  assert (H' : Forall (fun l => ~ In BSL l /\ (length l <= 63)%nat) ls).
  { eapply Forall_impl; [|exact H]. intros l [A B]. split; [exact A|unfold blen in B; lia]. }
  clear H. unfold encodable, name_labels, parse_escaped_name.
  assert (G : Bnd 63 (pen (strip_dot (present ls)) [] [])).
  { destruct ls as [|l0 ls0]; [simpl; constructor|].
    destruct (@exists_last _ (l0 :: ls0)) as (ls' & l & E); [discriminate|]. rewrite E in *.
    apply Forall_app in H' as [H1 H2]. inversion H2 as [|? ? [A B] _]; subst.
    rewrite present_snoc, !app_assoc, strip_dot_snoc.
    apply pen_present_nobsl; [exact H1|exact A|exact B|constructor]. }
  apply forallb_forall. intros l Hl. unfold Bnd in G. rewrite Forall_forall in G.
  specialize (G l Hl). rewrite write_utf8_assert_pinned. apply N.ltb_lt. unfold blen. lia.
Qed.

Lemma params_pinned_c15 :
  (forall n, label_fits n = (n <? 64)) /\ (forall n, write_utf8_assert n = (n <? 64))
  /\ (forall n, hostname_too_long n = (255 <? n)) /\ DOMAIN_LEN = 12.
Proof.
  exact (conj label_fits_pinned (conj write_utf8_assert_pinned (conj hostname_too_long_pinned domain_len_pinned))).
Qed.

(* the argument checks of register(), as used by the command-queue model (C14) *)
Lemma register_names_safe lc ty nm host tyd sub full server :
  utf8_valid ty = true -> utf8_valid nm = true ->
  si_names ty nm host = Ok (tyd, sub, full, server) ->
  safe (api_register_names lc full server sub).
Proof.
  intros Hty Hnm E. apply si_names_fullname in E as (-> & _ & -> & _).
  apply api_register_names_total. apply wfs_nca.
  apply wfs_app; [apply wfs_escape, valid_wfs; exact Hnm|apply split_sub_domain_wfs; exact Hty].
Qed.

(* ------------------------------------------------------------------------------------ *)
(* 7. conflict renaming since c85b8fe: split_first_label, label_with_suffix              *)
(* ------------------------------------------------------------------------------------ *)

(* a piece of text without an unescaped dot, as split_first_label scans it: a backslash
   skips the next byte *)
Inductive dotfree : bytes -> Prop :=
| df_nil : dotfree []
| df_esc n a : dotfree a -> dotfree (BSL :: n :: a)
| df_plain c a : (c =? BSL) = false -> (c =? DOT) = false -> dotfree a -> dotfree (c :: a).

Lemma fdp_some_len n : forall s i, (length s <= n)%nat -> first_dot_pos s = Some i ->
  exists a r, s = a ++ DOT :: r /\ length a = i /\ dotfree a.
Proof.
  induction n as [|n IH]; intros s i Hl H.
  - destruct s; [discriminate|simpl in Hl; lia].
  - destruct s as [|c t]; [discriminate|]. simpl in H, Hl.
    destruct (c =? BSL) eqn:E1.
    + apply N.eqb_eq in E1. subst c. destruct t as [|m t']; [discriminate|].
      destruct (first_dot_pos t') as [j|] eqn:F; [|discriminate]. simpl in H. inversion H; subst i.
      destruct (IH t' j) as (a & r & -> & La & Da); [simpl in Hl; lia|exact F|].
      exists (BSL :: m :: a), r. repeat split; [simpl; rewrite La; reflexivity|constructor; exact Da].
    + destruct (c =? DOT) eqn:E2.
      * apply N.eqb_eq in E2. subst c. inversion H; subst i. exists [], t. repeat split. constructor.
      * destruct (first_dot_pos t) as [j|] eqn:F; [|discriminate]. simpl in H. inversion H; subst i.
        destruct (IH t j) as (a & r & -> & La & Da); [lia|exact F|].
        exists (c :: a), r. repeat split; [simpl; rewrite La; reflexivity|constructor; assumption].
Qed.

Definition rest_ok (first rest : bytes) : Prop :=
  rest = [] \/ exists r, rest = DOT :: r /\ dotfree first.

Lemma split_first_label_spec s :
  exists first rest, split_first_label s = Ok (first, rest) /\ s = first ++ rest /\ rest_ok first rest.
Proof.
  unfold split_first_label. destruct (first_dot_pos s) as [i|] eqn:F.
  - destruct (fdp_some_len (length s) s i (Nat.le_refl _) F) as (a & r & -> & La & Da). subst i.
    assert (Bd : is_char_boundary (a ++ DOT :: r) (length a) = true).
    { eapply (boundary_at_noncont _ _ DOT); [|reflexivity].
      replace (length a) with (length a + 0)%nat by lia. rewrite nth_error_app_r. reflexivity. }
    rewrite (slice_ok _ 0 (length a)); [|lia|rewrite app_length; lia|reflexivity|exact Bd].
    cbn [bind]. rewrite (slice_ok _ (length a) (length (a ++ DOT :: r))); [|rewrite app_length; lia|lia|exact Bd|apply boundary_len].
    cbn [bind]. exists a, (DOT :: r). split.
    + rewrite firstn_skipn0, firstn_app, Nat.sub_diag, firstn_all. simpl firstn. rewrite app_nil_r.
      rewrite skipn_firstn_all by (rewrite app_length; lia).
      rewrite skipn_app, Nat.sub_diag, skipn_all. reflexivity.
    + split; [reflexivity|]. right. exists r. split; [reflexivity|exact Da].
  - exists s, []. split; [reflexivity|]. split; [rewrite app_nil_r; reflexivity|left; reflexivity].
Qed.

Lemma back_S s e : back_to_boundary s (S e) = if is_char_boundary s (S e) then S e else back_to_boundary s e.
Proof. reflexivity. Qed.

Lemma back_to_boundary_spec s : forall e,
  is_char_boundary s (back_to_boundary s e) = true /\ (back_to_boundary s e <= e)%nat.
Proof.
  induction e as [|e IH].
  - split; [reflexivity|simpl; lia].
  - rewrite back_S. destruct (is_char_boundary s (S e)) eqn:B; [split; [exact B|lia]|].
    destruct IH as [I1 I2]. split; [exact I1|lia].
Qed.

Lemma leading_bsl_odd_head s : Nat.odd (leading_bsl s) = true -> exists t, s = BSL :: t.
Proof.
  destruct s as [|c t]; simpl; [discriminate|]. destruct (c =? BSL) eqn:E; [|discriminate].
  apply N.eqb_eq in E. subst c. eauto.
Qed.

Definition is_prefix (k b : bytes) : Prop := exists t, b = k ++ t.

(* label_with_suffix never panics; what it keeps is a prefix of the base; the result is at
   most 63 bytes long whenever the suffix is *)
Lemma label_with_suffix_spec base suffix :
  (length suffix <= 63)%nat ->
  exists kept, label_with_suffix base suffix = Ok (kept ++ suffix) /\ is_prefix kept base
    /\ (length (kept ++ suffix) <= 63)%nat.
Proof.
  intros Hs. unfold label_with_suffix, MAX_LABEL_LEN.
  set (e0 := Nat.min (length base) (63 - length suffix)).
  destruct (back_to_boundary_spec base e0) as [B1 B2].
  set (e := back_to_boundary base e0) in *.
  assert (He : (e <= length base)%nat) by (unfold e0 in B2; lia).
  assert (He2 : (e + length suffix <= 63)%nat) by (unfold e0 in B2; lia).
  rewrite (slice_ok base 0 e); [|lia|exact He|reflexivity|exact B1].
  cbn [bind]. rewrite firstn_skipn0.
  assert (Lk : length (firstn e base) = e) by (rewrite firstn_length; lia).
  assert (Pk : is_prefix (firstn e base) base) by (exists (skipn e base); symmetry; apply firstn_skipn).
  destruct ((e <? length base)%nat && Nat.odd (trailing_bsl (firstn e base))) eqn:C.
  - apply andb_true_iff in C as [_ C]. unfold trailing_bsl in C.
    apply leading_bsl_odd_head in C as [t C].
    assert (Hk : firstn e base = rev t ++ [BSL]).
    { rewrite <- (rev_involutive (firstn e base)), C. reflexivity. }
    rewrite Hk in *. rewrite app_length in *. simpl length in *.
    replace (length (rev t) + 1 =? 0)%nat with false by (symmetry; apply Nat.eqb_neq; lia).
    rewrite (slice_ok _ 0 (length (rev t) + 1 - 1)); [|lia|rewrite app_length; simpl; lia|reflexivity|].
    2:{ eapply (boundary_at_noncont _ _ BSL); [|reflexivity].
        replace (length (rev t) + 1 - 1)%nat with (length (rev t) + 0)%nat by lia.
        rewrite nth_error_app_r. reflexivity. }
    cbn [bind]. rewrite firstn_skipn0.
    replace (length (rev t) + 1 - 1)%nat with (length (rev t)) by lia.
    rewrite firstn_app, Nat.sub_diag, firstn_all. simpl firstn. rewrite app_nil_r.
    exists (rev t). split; [reflexivity|]. split.
    + destruct Pk as [u Pu]. exists ([BSL] ++ u). rewrite Pu, <- app_assoc. reflexivity.
    + rewrite app_length. lia.
  - cbn [bind]. exists (firstn e base). split; [reflexivity|]. split; [exact Pk|].
    rewrite app_length. lia.
Qed.

(* ---- decimal suffixes ---- *)

Definition plain (b : N) : Prop := b < 128 /\ (b =? DOT) = false /\ (b =? BSL) = false.

Lemma dec_fuel_plain f : forall n acc, Forall plain acc -> Forall plain (dec_fuel f n acc).
Proof.
  induction f as [|f IH]; intros n acc H; [exact H|]. simpl.
  assert (P : plain (48 + n mod 10)).
  { pose proof (N.mod_upper_bound n 10) as U. unfold plain, DOT, BSL.
    repeat split; [lia|apply N.eqb_neq; lia|apply N.eqb_neq; lia]. }
  destruct (n / 10 =? 0); [constructor; assumption|]. apply IH. constructor; assumption.
Qed.

Lemma dec_fuel_len f : forall n acc, (length (dec_fuel f n acc) <= f + length acc)%nat.
Proof.
  induction f as [|f IH]; intros n acc; [simpl; lia|]. simpl.
  destruct (n / 10 =? 0); [simpl; lia|]. specialize (IH (n / 10) ((48 + n mod 10) :: acc)). simpl in IH. lia.
Qed.

Lemma dec_plain n : Forall plain (dec n).
Proof. apply dec_fuel_plain. constructor. Qed.
Lemma dec_len n : (length (dec n) <= 20)%nat.
Proof. unfold dec. pose proof (dec_fuel_len 20 n []) as H. cbn [length] in H. lia. Qed.

Local Opaque dec.

Lemma plain_SPC : plain SPC. Proof. repeat split. Qed.
Lemma plain_LPAR : plain LPAR. Proof. repeat split. Qed.
Lemma plain_RPAR : plain RPAR. Proof. repeat split. Qed.
Lemma plain_HYP : plain HYP. Proof. repeat split. Qed.
Lemma plain_2 : plain 50. Proof. repeat split. Qed.

(* a suffix: plain bytes only, at least one *)
Definition suffix_ok (s : bytes) : Prop := Forall plain s /\ s <> [] /\ (length s <= 63)%nat.

Lemma paren_suffix_ok n : suffix_ok ([SPC; LPAR] ++ dec n ++ [RPAR]).
Proof.
  repeat split.
  - constructor; [apply plain_SPC|]. constructor; [apply plain_LPAR|].
    apply Forall_app. split; [apply dec_plain|constructor; [apply plain_RPAR|constructor]].
  - discriminate.
  - rewrite !app_length. pose proof (dec_len n). cbn [length]. lia.
Qed.

Lemma hyphen_suffix_ok n : suffix_ok ([HYP] ++ dec n).
Proof.
  repeat split.
  - constructor; [apply plain_HYP|apply dec_plain].
  - discriminate.
  - rewrite app_length. pose proof (dec_len n). cbn [length]. lia.
Qed.

Lemma default_paren_ok : suffix_ok [SPC; LPAR; 50; RPAR].
Proof. repeat split; [repeat constructor; repeat split|discriminate|simpl; lia]. Qed.
Lemma default_hyphen_ok : suffix_ok [HYP; 50].
Proof. repeat split; [repeat constructor; repeat split|discriminate|simpl; lia]. Qed.

(* ---- the shape of a renamed name ---- *)

(* res is orig with the first label `first` replaced by (a prefix of first) ++ suffix *)
Definition renamed_of (orig res : bytes) : Prop :=
  exists first rest kept suffix,
    orig = first ++ rest /\ rest_ok first rest /\ is_prefix kept first /\ suffix_ok suffix
    /\ (length (kept ++ suffix) <= 63)%nat /\ res = kept ++ suffix ++ rest.

Lemma is_prefix_trans a b c : is_prefix a b -> is_prefix b c -> is_prefix a c.
Proof. intros [t ->] [u ->]. exists (t ++ u). rewrite app_assoc. reflexivity. Qed.

Lemma slice_prefix s n r : slice s 0 n = Ok r -> is_prefix r s.
Proof.
  unfold slice. destruct (_ && _); [|discriminate]. intros H. inversion H; subst.
  exists (skipn n s). rewrite Nat.sub_0_r. symmetry. apply (firstn_skipn n s).
Qed.

Lemma lws_renamed first rest base suffix :
  rest_ok first rest -> is_prefix base first -> suffix_ok suffix ->
  exists new, label_with_suffix base suffix = Ok new /\ renamed_of (first ++ rest) (new ++ rest).
Proof.
  intros R P S. destruct S as (S1 & S2 & S3).
  destruct (label_with_suffix_spec base suffix S3) as (kept & E & Pk & L).
  exists (kept ++ suffix). split; [exact E|].
  exists first, rest, kept, suffix. repeat split; try assumption.
  - eapply is_prefix_trans; eassumption.
  - rewrite <- app_assoc. reflexivity.
Qed.

Lemma nca_prefix k s : is_prefix k s -> nca s = true -> nca k = true.
Proof. intros [t ->]. apply nca_app_l. Qed.

(* name_change: never panics on text that could follow an ASCII character (in particular on
   valid UTF-8), and produces a renamed_of *)
Lemma name_change_renamed s : wfs s -> exists r, name_change s = Ok r /\ renamed_of s r.
Proof.
  intros Hw. unfold name_change.
  destruct (split_first_label_spec s) as (first & rest & E & -> & R). rewrite E. cbn [bind].
  assert (Hn : nca first = true) by (eapply nca_prefix; [exists rest; reflexivity|apply wfs_nca; exact Hw]).
  destruct (lws_renamed first rest first [SPC; LPAR; 50; RPAR] R (ex_intro _ [] (eq_sym (app_nil_r _))) default_paren_ok)
    as (dflt & Ed & Rd).
  rewrite Ed. cbn [bind].
  assert (DONE : exists r, Ok (dflt ++ rest) = Ok r /\ renamed_of (first ++ rest) r) by eauto.
  destruct (rfind_sub [SPC; LPAR] first) as [pp|] eqn:Rf; [|exact DONE].
  apply rfind_sub_some in Rf.
  assert (P0 : nth_error first (pp + 0) = Some SPC) by (eapply prefixb_skipn_nth; [exact Rf|reflexivity]).
  assert (P1 : nth_error first (pp + 1) = Some LPAR) by (eapply prefixb_skipn_nth; [exact Rf|reflexivity]).
  rewrite Nat.add_0_r in P0.
  pose proof (nth_error_lt _ _ _ P0) as L0. pose proof (nth_error_lt _ _ _ P1) as L1.
  assert (Bpp : is_char_boundary first pp = true) by (eapply boundary_at_noncont; [exact P0|reflexivity]).
  rewrite (slice_ok first pp (length first)); [|lia|lia|exact Bpp|apply boundary_len].
  cbn [bind]. rewrite skipn_firstn_all by lia.
  destruct (find_sub [RPAR] (skipn pp first)) as [ep|] eqn:F; [|exact DONE].
  pose proof (find_sub_some _ _ _ F) as Fp.
  assert (Hsk : exists r2, skipn pp first = SPC :: LPAR :: r2).
  { apply prefixb_spec in Rf as [t Rf]. exists t. exact Rf. }
  destruct Hsk as [r2 Hsk]. rewrite Hsk in F. apply find_rpar_ge2 in F.
  assert (PE : nth_error (skipn pp first) (ep + 0) = Some RPAR) by (eapply prefixb_skipn_nth; [exact Fp|reflexivity]).
  rewrite Nat.add_0_r in PE. rewrite nth_error_skipn' in PE.
  pose proof (nth_error_lt _ _ _ PE) as LE.
  replace (length first =? 0)%nat with false by (symmetry; apply Nat.eqb_neq; lia).
  destruct (pp + ep =? length first - 1)%nat eqn:EQ; [|exact DONE].
  rewrite (slice_ok first (pp + 2) (pp + ep)); [|lia|lia| |].
  2:{ replace (pp + 2)%nat with (S (pp + 1)) by lia.
      eapply nca_boundary_after; [exact Hn|exact P1|unfold LPAR; lia]. }
  2:{ eapply boundary_at_noncont; [exact PE|reflexivity]. }
  cbn [bind].
  destruct (parse_u32 _) as [number|]; [|exact DONE].
  destruct (number =? 4294967295); [exact DONE|].
  destruct (slice first 0 pp) as [base| | |] eqn:Sb.
  2-4: rewrite (slice_ok first 0 pp) in Sb by (try lia; try reflexivity; exact Bpp); discriminate.
  cbn [bind].
  destruct (lws_renamed first rest base _ R (slice_prefix _ _ _ Sb) (paren_suffix_ok (number + 1))) as (new & En & Rn).
  rewrite En. cbn [bind]. eauto.
Qed.

Lemma hostname_change_renamed s : wfs s -> exists r, hostname_change s = Ok r /\ renamed_of s r.
Proof.
  intros Hw. unfold hostname_change.
  destruct (split_first_label_spec s) as (first & rest & E & -> & R). rewrite E. cbn [bind].
  assert (Hn : nca first = true) by (eapply nca_prefix; [exists rest; reflexivity|apply wfs_nca; exact Hw]).
  destruct (lws_renamed first rest first [HYP; 50] R (ex_intro _ [] (eq_sym (app_nil_r _))) default_hyphen_ok)
    as (dflt & Ed & Rd).
  rewrite Ed. cbn [bind].
  assert (DONE : exists r, Ok (dflt ++ rest) = Ok r /\ renamed_of (first ++ rest) r) by eauto.
  destruct (rfind_sub [HYP] first) as [hp|] eqn:Rf; [|exact DONE].
  apply rfind_sub_some in Rf.
  assert (P0 : nth_error first (hp + 0) = Some HYP) by (eapply prefixb_skipn_nth; [exact Rf|reflexivity]).
  rewrite Nat.add_0_r in P0. pose proof (nth_error_lt _ _ _ P0) as L0.
  rewrite (slice_ok first (hp + 1) (length first)); [|lia|lia| |apply boundary_len].
  2:{ replace (hp + 1)%nat with (S hp) by lia.
      eapply nca_boundary_after; [exact Hn|exact P0|unfold HYP; lia]. }
  cbn [bind].
  destruct (parse_u32 _) as [number|]; [|exact DONE].
  destruct (number =? 4294967295); [exact DONE|].
  assert (Bhp : is_char_boundary first hp = true) by (eapply boundary_at_noncont; [exact P0|reflexivity]).
  destruct (slice first 0 hp) as [base| | |] eqn:Sb.
  2-4: rewrite (slice_ok first 0 hp) in Sb by (try lia; try reflexivity; exact Bhp); discriminate.
  cbn [bind].
  destruct (lws_renamed first rest base _ R (slice_prefix _ _ _ Sb) (hyphen_suffix_ok (number + 1))) as (new & En & Rn).
  rewrite En. cbn [bind]. eauto.
Qed.

Lemma name_change_total s : utf8_valid s = true -> total (name_change s).
Proof. intros H. destruct (name_change_renamed s (valid_wfs s H)) as (r & -> & _). apply total_ok. Qed.
Lemma hostname_change_total s : utf8_valid s = true -> total (hostname_change s).
Proof. intros H. destruct (hostname_change_renamed s (valid_wfs s H)) as (r & -> & _). apply total_ok. Qed.

(* ---- renamed names stay encodable ---- *)

Lemma labels_fit_Bnd s : labels_fit s = true <-> Bnd 63 (name_labels s).
Proof.
  unfold labels_fit, Bnd. rewrite forallb_forall, Forall_forall. split; intros H l Hl; specialize (H l Hl).
  - rewrite label_fits_pinned in H. apply N.ltb_lt in H. unfold blen in H. lia.
  - rewrite label_fits_pinned. apply N.ltb_lt. unfold blen. lia.
Qed.

Lemma pen_bound_plain n : forall m x, (length x <= m)%nat -> forall c t cur acc,
  plain c -> (length cur + length x + 1 <= n)%nat -> Bnd n acc ->
  exists cur' acc', pen (x ++ c :: t) cur acc = pen t cur' acc'
    /\ (length cur' <= length cur + length x + 1)%nat /\ Bnd n acc'.
Proof.
  induction m as [|m IH]; intros x Hl c t cur acc Pc Hn Hb; destruct Pc as (Pc0 & Pc1 & Pc2).
  - destruct x; [|simpl in Hl; lia]. cbn [app]. cbn [pen]. rewrite Pc2, Pc1.
    exists (cur ++ [c]), acc. repeat split; [rewrite app_length; simpl; lia|exact Hb].
  - destruct x as [|a x'].
    { cbn [app]. cbn [pen]. rewrite Pc2, Pc1.
      exists (cur ++ [c]), acc. repeat split; [rewrite app_length; simpl; lia|exact Hb]. }
    simpl in Hl, Hn. change ((a :: x') ++ c :: t) with (a :: (x' ++ c :: t)). cbn [pen].
    destruct (a =? BSL) eqn:EB.
    + destruct x' as [|b x''].
      * cbn [app]. rewrite Pc1, Pc2. cbn [orb pen]. rewrite Pc2, Pc1.
        exists ((cur ++ [a]) ++ [c]), acc. repeat split; [rewrite !app_length; simpl; lia|exact Hb].
      * cbn [app]. simpl in Hl, Hn. destruct ((b =? DOT) || (b =? BSL)) eqn:Sp.
        -- destruct (IH x'' ltac:(lia) c t (cur ++ [b]) acc (conj Pc0 (conj Pc1 Pc2))) as (cur' & acc' & E & L & B);
             [rewrite app_length; simpl; lia|exact Hb|].
           exists cur', acc'. repeat split; [exact E|rewrite app_length in L; simpl in *; lia|exact B].
        -- destruct (IH (b :: x'') ltac:(simpl; lia) c t (cur ++ [a]) acc (conj Pc0 (conj Pc1 Pc2))) as (cur' & acc' & E & L & B);
             [rewrite app_length; simpl; lia|exact Hb|].
           exists cur', acc'. repeat split; [exact E|rewrite app_length in L; simpl in *; lia|exact B].
    + destruct (a =? DOT).
      * destruct (IH x' ltac:(lia) c t [] (push_label cur acc) (conj Pc0 (conj Pc1 Pc2))) as (cur' & acc' & E & L & B);
          [simpl; lia|apply push_label_Bnd; [lia|exact Hb]|].
        exists cur', acc'. repeat split; [exact E|simpl in *; lia|exact B].
      * destruct (IH x' ltac:(lia) c t (cur ++ [a]) acc (conj Pc0 (conj Pc1 Pc2))) as (cur' & acc' & E & L & B);
          [rewrite app_length; simpl; lia|exact Hb|].
        exists cur', acc'. repeat split; [exact E|rewrite app_length in L; simpl in *; lia|exact B].
Qed.

Lemma pen_dotfree a : dotfree a -> forall r cur acc,
  exists ua, pen (a ++ DOT :: r) cur acc = pen r [] (push_label (cur ++ ua) acc).
Proof.
  induction 1 as [|n a D IH|c a Hc1 Hc2 D IH]; intros r cur acc.
  - exists []. simpl app. cbn [pen]. replace (DOT =? BSL) with false by reflexivity. rewrite N.eqb_refl.
    rewrite app_nil_r. reflexivity.
  - change ((BSL :: n :: a) ++ DOT :: r) with (BSL :: n :: (a ++ DOT :: r)). cbn [pen]. rewrite N.eqb_refl.
    destruct ((n =? DOT) || (n =? BSL)) eqn:Sp.
    + destruct (IH r (cur ++ [n]) acc) as [ua E]. exists (n :: ua). rewrite E, <- app_assoc. reflexivity.
    + apply orb_false_iff in Sp as [S1 S2]. cbn [pen]. rewrite S2, S1.
      destruct (IH r ((cur ++ [BSL]) ++ [n]) acc) as [ua E]. exists (BSL :: n :: ua).
      rewrite E, <- !app_assoc. reflexivity.
  - change ((c :: a) ++ DOT :: r) with (c :: (a ++ DOT :: r)). cbn [pen]. rewrite Hc1, Hc2.
    destruct (IH r (cur ++ [c]) acc) as [ua E]. exists (c :: ua). rewrite E, <- app_assoc. reflexivity.
Qed.

Lemma strip_dot_last_nondot x c : (c =? DOT) = false -> strip_dot (x ++ [c]) = x ++ [c].
Proof. intros H. unfold strip_dot. rewrite rev_app_distr. simpl. rewrite H. reflexivity. Qed.

Lemma Bnd_rev n l : Bnd n l -> Bnd n (rev l).
Proof. apply Forall_rev. Qed.

Lemma renamed_fits orig res : renamed_of orig res -> Bnd 63 (name_labels orig) -> Bnd 63 (name_labels res).
Proof.
  intros (first & rest & kept & suffix & -> & R & _ & (S1 & S2 & _) & L & ->) Ho.
  destruct (@exists_last _ suffix S2) as (s0 & c & ->).
  assert (Pc : plain c). { apply Forall_app in S1 as [_ S1]. inversion S1; assumption. }
  assert (Lx : (0 + length (kept ++ s0) + 1 <= 63)%nat) by (rewrite !app_length in *; simpl in *; lia).
  (* the first label of the result, whatever follows *)
  assert (HEAD : forall t, exists cur' acc', pen ((kept ++ s0) ++ c :: t) [] [] = pen t cur' acc'
                  /\ (length cur' <= 63)%nat /\ Bnd 63 acc').
  { intros t. destruct (pen_bound_plain 63 (length (kept ++ s0)) (kept ++ s0) (Nat.le_refl _) c t [] [] Pc Lx) as (cur' & acc' & E & L' & B);
      [constructor|]. exists cur', acc'. repeat split; [exact E|simpl in L'; lia|exact B]. }
  assert (ALONE : Bnd 63 (parse_escaped_name ((kept ++ s0) ++ [c]))).
  { unfold parse_escaped_name.
    destruct (HEAD []) as (cur' & acc' & E & L' & B). rewrite E. simpl. apply Bnd_rev. apply push_label_Bnd; assumption. }
  replace (kept ++ (s0 ++ [c]) ++ rest) with (((kept ++ s0) ++ [c]) ++ rest) by (rewrite <- !app_assoc; reflexivity).
  destruct R as [->|(r & -> & Df)].
  { rewrite app_nil_r. unfold name_labels. rewrite strip_dot_last_nondot by (apply Pc). exact ALONE. }
  destruct r as [|y r0].
  { unfold name_labels in *. rewrite strip_dot_app_cons. change (strip_dot [DOT]) with (@nil N). rewrite app_nil_r. exact ALONE. }
  unfold name_labels, parse_escaped_name in *.
  rewrite strip_dot_app_cons, strip_dot_cons_dot in * by discriminate.
  set (r' := strip_dot (y :: r0)) in *.
  rewrite <- app_assoc. simpl app.
  destruct (HEAD (DOT :: r')) as (cur' & acc' & E & L' & B). rewrite E. cbn [pen].
  replace (DOT =? BSL) with false by reflexivity. rewrite N.eqb_refl. rewrite pen_acc.
  apply Forall_app. split; [apply Bnd_rev; apply push_label_Bnd; assumption|].
  destruct (pen_dotfree first Df r' [] []) as [ua E2]. rewrite E2, pen_acc in Ho.
  apply Forall_app_r in Ho. exact Ho.
Qed.

Lemma wfs_ascii_app l tail : Forall plain l -> wfs tail -> wfs (l ++ tail).
Proof.
  induction 1 as [|a l Pa _ IH]; intros H; [exact H|].
  simpl app. apply wfs_cons_ascii; [apply Pa|apply IH; exact H].
Qed.

Lemma renamed_wfs orig res : renamed_of orig res -> wfs orig -> wfs res.
Proof.
  intros (first & rest & kept & suffix & -> & R & (t & ->) & (S1 & S2 & _) & L & ->) Hw.
  unfold wfs in *.
  assert (Wk : nca (DOT :: kept) = true).
  { replace (DOT :: (kept ++ t) ++ rest) with ((DOT :: kept) ++ (t ++ rest)) in Hw by (simpl; rewrite <- app_assoc; reflexivity).
    apply nca_app_l in Hw. exact Hw. }
  assert (Wr : wfs rest).
  { destruct R as [->|(r & -> & _)]; [reflexivity|].
    replace (DOT :: (kept ++ t) ++ DOT :: r) with ((DOT :: kept ++ t) ++ DOT :: r) in Hw by reflexivity.
    apply nca_app_r in Hw. apply wfs_cons_ascii; [unfold DOT; lia|exact Hw]. }
  pose proof (wfs_ascii_app suffix rest S1 Wr) as Ws.
  destruct suffix as [|y b]; [congruence|]. simpl app in *.
  change (DOT :: kept ++ y :: b ++ rest) with ((DOT :: kept) ++ y :: (b ++ rest)).
  apply nca_app_noncont; [exact Wk|apply wfs_nca; exact Ws|].
  inversion S1 as [|? ? Py _]; subst. apply ascii_not_cont. apply Py.
Qed.

Lemma plain_lt256 b : plain b -> b < 256.
Proof. intros [H _]. lia. Qed.

Lemma renamed_wf_bytes orig res : renamed_of orig res -> wf_bytes orig -> wf_bytes res.
Proof.
  intros (first & rest & kept & suffix & -> & R & (t & ->) & (S1 & _) & L & ->) Hw.
  unfold wf_bytes in *. apply Forall_app in Hw as [Hf Hr]. apply Forall_app in Hf as [Hk _].
  apply Forall_app. split; [exact Hk|]. apply Forall_app. split; [|exact Hr].
  eapply Forall_impl; [|exact S1]. intros b Pb. apply plain_lt256. exact Pb.
Qed.

(* the invariant carried through any number of renames *)
Definition name_inv (s : bytes) : Prop := wfs s /\ wf_bytes s /\ labels_fit s = true.

Lemma renamed_inv orig res : renamed_of orig res -> name_inv orig -> name_inv res.
Proof.
  intros R (A & B & C). repeat split.
  - eapply renamed_wfs; eassumption.
  - eapply renamed_wf_bytes; eassumption.
  - apply labels_fit_Bnd. eapply renamed_fits; [exact R|apply labels_fit_Bnd; exact C].
Qed.

Lemma iter_rename_inv f :
  (forall s, wfs s -> exists r, f s = Ok r /\ renamed_of s r) ->
  forall n s, name_inv s -> exists r, iter_rename f n s = Ok r /\ name_inv r.
Proof.
  intros Hf. induction n as [|n IH]; intros s Hs; [exists s; split; [reflexivity|exact Hs]|].
  cbn [iter_rename]. destruct (Hf s (proj1 Hs)) as (r & -> & R). cbn [bind].
  apply IH. eapply renamed_inv; eassumption.
Qed.

Lemma name_inv_enc_ok s : name_inv s -> enc_ok s.
Proof. intros (_ & B & C). apply encodable_conclusion. apply labels_fit_label_ok; assumption. Qed.

(* rename_stays_encodable: any number of conflict renames of an encodable name *)
Theorem rename_stays_encodable n s :
  utf8_valid s = true -> wf_bytes s -> labels_fit s = true ->
  exists r, iter_rename name_change n s = Ok r /\ labels_fit r = true /\ enc_ok r.
Proof.
  intros V W F. destruct (iter_rename_inv name_change name_change_renamed n s) as (r & E & I);
    [repeat split; [apply valid_wfs; exact V|exact W|exact F]|].
  exists r. repeat split; [exact E|apply I|apply name_inv_enc_ok; exact I| apply name_inv_enc_ok; exact I].
Qed.

Theorem hostname_rename_stays_encodable n s :
  utf8_valid s = true -> wf_bytes s -> labels_fit s = true ->
  exists r, iter_rename hostname_change n s = Ok r /\ labels_fit r = true /\ enc_ok r.
Proof.
  intros V W F. destruct (iter_rename_inv hostname_change hostname_change_renamed n s) as (r & E & I);
    [repeat split; [apply valid_wfs; exact V|exact W|exact F]|].
  exists r. repeat split; [exact E|apply I|apply name_inv_enc_ok; exact I| apply name_inv_enc_ok; exact I].
Qed.

(* the new first label alone: never above 63 bytes, whatever the old one was *)
Theorem renamed_first_label_bounded s r :
  renamed_of s r -> exists new rest, r = new ++ rest /\ (length new <= 63)%nat
                     /\ (rest = [] \/ exists t, rest = DOT :: t).
Proof.
  intros (first & rest & kept & suffix & -> & R & _ & _ & L & ->).
  exists (kept ++ suffix), rest. repeat split; [rewrite <- app_assoc; reflexivity|exact L|].
  destruct R as [->|(t & -> & _)]; [left; reflexivity|right; eauto].
Qed.

(* ---- names from the wire since 35da75b ---- *)

Lemma present_wf ls : Forall wf_bytes ls -> wf_bytes (present ls).
Proof.
  induction 1 as [|l ls Hl _ IH]; [constructor|]. unfold present. cbn [flat_map]. fold (present ls).
  apply wf_bytes_app; [apply wf_bytes_app; [exact Hl|constructor; [unfold DOT; lia|constructor]]|exact IH].
Qed.

(* reencode_safe: any name that passed the fit test re-encodes without panic *)
Theorem fit_name_encodes name : wf_bytes name -> labels_fit name = true -> enc_ok name.
Proof. intros W F. apply encodable_conclusion. apply labels_fit_label_ok; assumption. Qed.

Theorem reencode_safe ls name :
  Forall wf_bytes ls -> read_name_fit ls = Ok name -> name = present ls /\ enc_ok name.
Proof.
  unfold read_name_fit. intros W H. destruct (labels_fit (present ls)) eqn:F; [|discriminate].
  inversion H; subst. split; [reflexivity|]. apply fit_name_encodes; [apply present_wf; exact W|exact F].
Qed.

Lemma encodable_is_labels_fit s : encodable s = labels_fit s.
Proof. reflexivity. Qed.

(* the test does not reject names without a backslash (dots inside labels included) *)
Theorem read_name_fit_accepts ls :
  Forall (fun l => ~ In BSL l /\ blen l <= 63) ls -> read_name_fit ls = Ok (present ls).
Proof.
  intros H. unfold read_name_fit. rewrite <- encodable_is_labels_fit.
  rewrite (reencode_safe_without_backslash ls H). reflexivity.
Qed.

(* ... and rejects the former witness (40 bytes + backslash, then 40 bytes) *)
Lemma read_name_fit_rejects_merged :
  read_name_fit [rep 97 40 ++ [BSL]; rep 98 40; [95;120]; [95;116;99;112]; [108;111;99;97;108]] = Err.
Proof. vm_compute. reflexivity. Qed.

Lemma validators_total lc s :
  utf8_valid s = true ->
  safe (check_domain_suffix s) /\ safe (check_service_name s)
  /\ (forall lim, safe (check_service_name_length s lim)) /\ safe (check_hostname s)
  /\ safe (check_label_lengths lc s) /\ safe (name_change s) /\ safe (hostname_change s)
  /\ (exists r, normalize_hostname s = Ok r)
  /\ safe (api_browse lc s) /\ safe (api_resolve_hostname lc s).
Proof.
  intros H. repeat split;
    try apply check_domain_suffix_total; try apply (check_service_name_total s H);
    try apply check_service_name_length_total; try apply check_hostname_total;
    try apply check_label_lengths_total; try apply (name_change_total s H);
    try apply (hostname_change_total s H); try apply normalize_hostname_total;
    try apply api_browse_total; try apply api_resolve_hostname_total.
Qed.


(* a chain of three labels ending in backslashes: every adjacent pair fits into 63 bytes, the
   re-split of the whole name does not; the fit test looks at the whole name *)
Lemma read_name_fit_rejects_chain :
  read_name_fit [rep 97 29 ++ [BSL]; rep 98 29 ++ [BSL]; rep 99 30; [108;111;99;97;108]] = Err.
Proof. vm_compute. reflexivity. Qed.
