(* C18 over ALL histories of the daemon model (Model/IntfDaemon.v): an invariant of the model
   state, preserved by every step of a history, and its consequences for every packet the model
   emits in any reachable history. *)
From Coq Require Import List NArith Bool Lia.
From Mdns Require Import Res Bytes Rec Wire Intf IntfCache Responder IntfDaemon C18Spec
     IntfProofs IntfDaemonProofs ResponderAddrProofs.
Import ListNotations.
Open Scope N_scope.

(* ---- well-formed tables ------------------------------------------------------------------------- *)

(* the OS reports an (interface, address) pair at most once *)
Definition uniq_keys (tbl : list iface) : Prop :=
  forall e e', In e tbl -> In e' tbl -> key_is e (i_index e') (i_addr e') = true -> e = e'.
(* my_intfs is keyed by the interface index *)
Definition uniq_idx (l : list myintf) : Prop := NoDup (map mi_index l).

Definition seen_has (seen : list iface) (idx : N) (a : ifaddr) : Prop :=
  exists e, In e seen /\ key_is e idx a = true.

(* an address record that is at home on interface idx: some address the OS has reported for
   that interface so far puts it in its subnet (the condition addr_ok of chk_C18) *)
Definition seen_rec (seen : list iface) (idx : N) (r : rr) : Prop :=
  match r_data r with
  | RAddr o => exists a e, o = ip_octets a /\ In e seen /\ i_index e = idx /\ valid_ip_on_intf a (i_addr e) = true
  | _ => True
  end.

(* why a packet may leave: the daemon holds an interface with an address of the packet's family
   that - if the OS reports it - is enabled by the last matching selection; the packet leaves
   on that interface; every address record it carries is at home there *)
Definition pkt_just (seen os : list iface) (sels : list selection) (p : packet) : Prop :=
  exists intf a,
    In a (mi_addrs intf) /\ is_v4 (ia_ip a) = dest_is_v4 p /\
    (forall e, In e os -> key_is e (mi_index intf) a = true -> last_match sels e = true) /\
    p_if p = egress_if os intf (dest_is_v4 p) /\
    Forall (seen_rec seen (mi_index intf)) (p_answers p ++ p_additionals p) /\
    (forall x, In x (mi_addrs intf) -> seen_has seen (mi_index intf) x).

Definition obs_just1 (seen os : list iface) (sels : list selection) (o : obs) : Prop :=
  match o with OSent p => pkt_just seen os sels p | _ => True end.

(* ---- the invariant ------------------------------------------------------------------------------ *)

Record Inv (seen : list iface) (d : dstate) : Prop := mkInv {
  inv_os : uniq_keys (d_os d);
  inv_idx : uniq_idx (d_intfs d);
  (* what the daemon holds and the OS reports is enabled by the last matching selection *)
  inv_sel : forall e, In e (d_os d) -> held (d_intfs d) (i_index e) (i_addr e) = true ->
                      last_match (d_sels d) e = true;
  inv_seen_os : incl (d_os d) seen;
  inv_seen_held : forall idx a, held (d_intfs d) idx a = true -> seen_has seen idx a;
  (* goodbyes waiting to be repeated were built for their interface *)
  inv_gb : forall t p idx v4, In (t, RUnregisterResend p idx v4) (d_retrans d) ->
             dest_is_v4 p = v4 /\ Forall (seen_rec seen idx) (p_answers p ++ p_additionals p) }.

Definition frame4 (d d' : dstate) : Prop :=
  d_intfs d' = d_intfs d /\ d_sels d' = d_sels d /\ d_os d' = d_os d /\ d_retrans d' = d_retrans d.

Lemma frame4_refl d : frame4 d d. Proof. unfold frame4. auto. Qed.
Lemma frame4_trans a b c : frame4 a b -> frame4 b c -> frame4 a c.
Proof. unfold frame4. intros (A1 & A2 & A3 & A4) (B1 & B2 & B3 & B4). rewrite B1, B2, B3, B4. auto. Qed.

Lemma Inv_frame seen d d' : frame4 d d' -> Inv seen d -> Inv seen d'.
Proof.
  intros (F1 & F2 & F3 & F4) [I1 I2 I3 I4 I5 I6].
  constructor; rewrite ?F1, ?F2, ?F3, ?F4; assumption.
Qed.

(* ---- small facts -------------------------------------------------------------------------------- *)

Lemma key_is_eq e idx a : key_is e idx a = true <-> i_index e = idx /\ i_addr e = a.
Proof.
  unfold key_is. rewrite andb_true_iff, N.eqb_eq, ifaddr_eqb_eq. split; intros [H1 H2]; auto.
Qed.

Lemma key_is_self e : key_is e (i_index e) (i_addr e) = true.
Proof. apply key_is_eq. auto. Qed.

Lemma get_held l idx m a : intf_get idx l = Some m -> In a (mi_addrs m) -> held l idx a = true.
Proof.
  intros Hg Ha. unfold held. rewrite Hg. unfold has_ifaddr. apply existsb_exists. exists a.
  split; [exact Ha|apply ifaddr_eqb_refl].
Qed.

Lemma held_get l idx a : held l idx a = true -> exists m, intf_get idx l = Some m /\ In a (mi_addrs m).
Proof.
  unfold held. destruct (intf_get idx l) as [m|]; [|discriminate]. intros H. exists m. split; [reflexivity|].
  unfold has_ifaddr in H. apply existsb_exists in H as [x [Hx He]]. apply ifaddr_eqb_eq in He. subst x. exact Hx.
Qed.

Lemma in_get l m : uniq_idx l -> In m l -> intf_get (mi_index m) l = Some m.
Proof.
  unfold uniq_idx. induction l as [|x l IH]; simpl; intros Hnd Hin; [destruct Hin|].
  inversion Hnd as [|? ? Hnot Hnd']; subst.
  destruct Hin as [->|Hin]; [rewrite N.eqb_refl; reflexivity|].
  destruct (mi_index x =? mi_index m) eqn:E; [|apply IH; assumption].
  apply N.eqb_eq in E. exfalso. apply Hnot. rewrite E. apply in_map. exact Hin.
Qed.

Lemma family_enabled_addr intf v4 : family_enabled intf v4 = true ->
  exists a, In a (mi_addrs intf) /\ is_v4 (ia_ip a) = v4.
Proof.
  unfold family_enabled, has_v4, has_v6, is_v6. destruct v4; intros H; apply existsb_exists in H as [a [Ha Hf]];
    exists a; split; auto. apply negb_true_iff in Hf. exact Hf.
Qed.

Lemma iface_eqb_eq e e' : iface_eqb e e' = true <-> e = e'.
Proof.
  unfold iface_eqb. rewrite !andb_true_iff, beq_eq, N.eqb_eq, ifaddr_eqb_eq. destruct e, e'; simpl.
  split; [intros [[-> ->] ->]; reflexivity|intros H; inversion H; auto].
Qed.

Lemma iface_mem_In e l : iface_mem e l = true <-> In e l.
Proof.
  unfold iface_mem. rewrite existsb_exists. split.
  - intros [x [Hx He]]. apply iface_eqb_eq in He. subst. exact Hx.
  - intros H. exists e. split; [exact H|apply iface_eqb_eq; reflexivity].
Qed.

Lemma add_seen_incl seen tbl : incl seen (add_seen seen tbl) /\ incl tbl (add_seen seen tbl).
Proof.
  unfold add_seen. revert seen. induction tbl as [|e tbl IH]; intros seen; simpl.
  - split; [apply incl_refl|intros x []].
  - destruct (iface_mem e seen) eqn:Em.
    + destruct (IH seen) as [H1 H2]. split; [exact H1|].
      intros x [<-|Hx]; [apply H1; apply iface_mem_In; exact Em|apply H2; exact Hx].
    + destruct (IH (seen ++ [e])) as [H1 H2]. split.
      * intros x Hx. apply H1. apply in_or_app. left. exact Hx.
      * intros x [<-|Hx]; [apply H1; apply in_or_app; right; left; reflexivity|apply H2; exact Hx].
Qed.

Lemma seen_rec_mono seen seen' idx r : incl seen seen' -> seen_rec seen idx r -> seen_rec seen' idx r.
Proof.
  unfold seen_rec. destruct (r_data r); auto. intros Hi (a & e & H1 & H2 & H3 & H4). exists a, e. auto.
Qed.

Lemma Inv_mono seen seen' d : incl seen seen' -> Inv seen d -> Inv seen' d.
Proof.
  intros Hi [I1 I2 I3 I4 I5 I6]. constructor; auto.
  - eapply incl_tran; eassumption.
  - intros idx a H. destruct (I5 idx a H) as [e [He Hk]]. exists e. auto.
  - intros t p idx v4 H. destruct (I6 t p idx v4 H) as [H1 H2]. split; [exact H1|].
    eapply Forall_impl; [|exact H2]. intros r. apply seen_rec_mono. exact Hi.
Qed.

(* records that are on the link of an interface the daemon holds are at home there *)
Definition link_ok (intf : myintf) (r : rr) : Prop :=
  match r_data r with
  | RAddr o => exists a, o = ip_octets a /\ addr_on_intf intf a = true
  | _ => True
  end.

Lemma link_ok_seen seen l intf r :
  intf_get (mi_index intf) l = Some intf ->
  (forall idx a, held l idx a = true -> seen_has seen idx a) ->
  link_ok intf r -> seen_rec seen (mi_index intf) r.
Proof.
  intros Hg Hs. unfold link_ok, seen_rec. destruct (r_data r); auto.
  intros (a & Ho & Hon). unfold addr_on_intf in Hon. apply existsb_exists in Hon as [x [Hx Hv]].
  destruct (Hs (mi_index intf) x (get_held _ _ _ _ Hg Hx)) as [e [He Hk]].
  apply key_is_eq in Hk as [Hk1 Hk2]. exists a, e. subst x. auto.
Qed.

Lemma dest_is_v4_reroute os intf p : dest_is_v4 (reroute os intf p) = dest_is_v4 p.
Proof. reflexivity. Qed.

(* the central step: a packet built for an interface the daemon holds, of a family the interface
   has, with on-link address records, is justified *)
Lemma just_from_held seen d intf p :
  Inv seen d -> intf_get (mi_index intf) (d_intfs d) = Some intf ->
  family_enabled intf (dest_is_v4 p) = true ->
  Forall (link_ok intf) (p_answers p ++ p_additionals p) ->
  pkt_just seen (d_os d) (d_sels d) (reroute (d_os d) intf p).
Proof.
  intros [I1 I2 I3 I4 I5 I6] Hg Hf Hl.
  destruct (family_enabled_addr _ _ Hf) as [a [Ha Hfa]].
  exists intf, a. rewrite dest_is_v4_reroute. repeat split; auto.
  - intros e He Hk. apply I3; [exact He|]. apply key_is_eq in Hk.
    destruct Hk as [Hk1 Hk2]. rewrite Hk1, Hk2. eapply get_held; eassumption.
  - simpl. eapply Forall_impl; [|exact Hl]. intros r. apply (link_ok_seen seen (d_intfs d)); assumption.
  - intros x Hx. apply I5. eapply get_held; eassumption.
Qed.

(* ---- packets the model builds ---------------------------------------------------------------------- *)

Lemma announce_on_facts s intf v4 p : announce_on s intf v4 = Some p ->
  dest_is_v4 p = v4 /\ family_enabled intf v4 = true /\ Forall (link_ok intf) (p_answers p ++ p_additionals p).
Proof.
  intros H. pose proof (announcement_carries_link_addresses s intf v4 p H) as [_ Ha].
  unfold announce_on in H. destruct (is_nil (intf_addrs_of v4 s intf)); [discriminate|].
  destruct (family_enabled intf v4) eqn:Ef; [|discriminate]. inversion H; subst p; clear H.
  split; [reflexivity|]. split; [reflexivity|]. cbn [p_answers p_additionals] in *. rewrite app_nil_r.
  apply Forall_forall. intros r Hr. unfold link_ok. destruct (r_data r) eqn:Ed; auto.
  destruct (Ha r octets Hr Ed) as (a & x & H1 & H2 & H3 & H4 & H5). exists a. split; [exact H2|].
  unfold addr_on_intf. apply existsb_exists. exists x. auto.
Qed.

Lemma goodbye_on_facts s intf v4 p : goodbye_on s intf v4 = Some p ->
  dest_is_v4 p = v4 /\ family_enabled intf v4 = true /\ Forall (link_ok intf) (p_answers p ++ p_additionals p).
Proof.
  unfold goodbye_on. destruct (announce_on s intf v4) as [q|] eqn:Ea; [|discriminate].
  intros H. inversion H; subst p; clear H. destruct (announce_on_facts _ _ _ _ Ea) as (H1 & H2 & H3).
  split; [exact H1|]. split; [exact H2|]. cbn [p_answers p_additionals]. rewrite app_nil_r.
  apply Forall_forall. intros r Hr. apply in_map_iff in Hr as [r0 [<- Hr]].
  rewrite Forall_forall in H3. specialize (H3 r0 (in_or_app _ _ _ (or_introl Hr))).
  unfold link_ok in *. simpl. exact H3.
Qed.

Definition not_sent (o : obs) : Prop := match o with OSent _ => False | _ => True end.

Lemma not_sent_just seen os sels o : not_sent o -> obs_just1 seen os sels o.
Proof. destruct o; simpl; tauto. Qed.

Lemma resolve_from_cache_not_sent c ty inst ev : resolve_from_cache c ty inst = Some ev -> not_sent ev.
Proof.
  unfold resolve_from_cache. destruct (tget inst (c_srv c)) as [|r l]; [discriminate|].
  destruct (r_data (c_rr r)); try discriminate. destruct (_ || _); [discriminate|].
  intros H. inversion H. exact I.
Qed.

Lemma resolve_updated_facts d updated :
  frame4 d (fst (resolve_updated d updated)) /\ Forall not_sent (snd (resolve_updated d updated)).
Proof.
  unfold resolve_updated.
  set (cands := flat_map _ (c_ptr (d_cache d))).
  match goal with |- context [fold_left ?f cands ([], [], [])] => set (stepf := f) end.
  assert (G : forall l acc, Forall not_sent (snd acc) -> Forall not_sent (snd (fold_left stepf l acc))).
  { induction l as [|[ty inst] l IH]; intros [[nr nl] out] Hout; simpl; [exact Hout|]. apply IH.
    destruct (resolve_from_cache (d_cache d) ty inst) as [ev|] eqn:Er; simpl.
    - apply Forall_app. split; [exact Hout|constructor; [eapply resolve_from_cache_not_sent; exact Er|constructor]].
    - destruct (mem inst (d_resolved d)); simpl; [|exact Hout].
      apply Forall_app. split; [exact Hout|constructor; [exact I|constructor]]. }
  specialize (G cands ([], [], []) (Forall_nil _)).
  destruct (fold_left stepf cands ([], [], [])) as [[nr nl] out]. simpl in *.
  split; [unfold frame4; simpl; auto|exact G].
Qed.

Lemma handle_response_facts d intf m :
  frame4 d (fst (handle_response d intf m)) /\ Forall not_sent (snd (handle_response d intf m)).
Proof.
  unfold handle_response. destruct (negb (for_us d m)); [split; [apply frame4_refl|constructor]|].
  match goal with |- context [fold_left ?f ?l (d_cache d, [], [])] => set (stepf := f); set (recs := l) end.
  assert (G : forall l acc, Forall not_sent (snd (fst acc)) -> Forall not_sent (snd (fst (fold_left stepf l acc)))).
  { induction l as [|r l IH]; intros [[c found] changes] Hf; simpl; [exact Hf|]. apply IH.
    destruct (is_new c r _); [|exact Hf].
    destruct ((r_type r =? TY_PTR) && (1 <? r_ttl r)); [|exact Hf].
    destruct (r_data r); try exact Hf. simpl.
    apply Forall_app. split; [exact Hf|]. destruct (mem (r_name r) (d_browsed d)); constructor; [exact I|constructor]. }
  specialize (G recs (d_cache d, [], []) (Forall_nil _)).
  destruct (fold_left stepf recs (d_cache d, [], [])) as [[c found] changes]. simpl in G.
  match goal with |- context [resolve_updated ?d0 ?u] =>
    pose proof (resolve_updated_facts d0 u) as [Hr1 Hr2]; destruct (resolve_updated d0 u) as [d' evs] end.
  simpl in *. split.
  - destruct Hr1 as (R1 & R2 & R3 & R4). unfold frame4. simpl in *. auto.
  - apply Forall_app. split; assumption.
Qed.

(* ---- datagrams ---------------------------------------------------------------------------------------- *)

Lemma handle_dgram_ok seen d g : Inv seen d ->
  frame4 d (fst (handle_dgram d g)) /\
  Forall (obs_just1 seen (d_os d) (d_sels d)) (snd (handle_dgram d g)).
Proof.
  intros HI. unfold handle_dgram.
  destruct (intf_get (dg_if g) (d_intfs d)) as [intf|] eqn:Eg; [|split; [apply frame4_refl|constructor]].
  destruct (negb (family_enabled intf (is_v4 (dg_src g)))) eqn:Ef; [split; [apply frame4_refl|constructor]|].
  apply negb_false_iff in Ef.
  destruct (decode (dg_data g)) as [m| | |]; try (split; [apply frame4_refl|constructor]).
  destruct (N.land (m_flags m) 32768 =? 0).
  - destruct (memN (dg_if g) (d_regs d)); [|split; [apply frame4_refl|constructor]].
    split; [apply frame4_refl|]. simpl.
    destruct (handle_query _) as [p|] eqn:Eq; [|constructor]. simpl. constructor; [|constructor].
    pose proof (handle_query_packet _ _ Eq) as (H1 & H2 & _ & H4). cbn [h_intf h_src_ip] in *.
    pose proof (intf_get_index _ _ _ Eg) as Hidx.
    apply just_from_held; try assumption.
    + rewrite Hidx. exact Eg.
    + change (dest_is_v4 p) with (dest_v4 (p_dest p)). rewrite H4. exact Ef.
    + eapply Forall_impl; [|exact H1]. intros r. unfold link_rec, link_ok. destruct (r_data r); auto.
      intros (s & a & _ & _ & Ho & Hon). exists a. auto.
  - pose proof (handle_response_facts d intf m) as [H1 H2]. split; [exact H1|].
    eapply Forall_impl; [|exact H2]. intros o. apply not_sent_just.
Qed.

(* ---- commands -------------------------------------------------------------------------------------------- *)

Definition is_reg_resend (x : N * rcmd) : Prop := match snd x with RRegisterResend _ _ => True | _ => False end.

(* the pending goodbyes of d' are pending goodbyes of d or satisfy the goodbye invariant *)
Lemma Inv_retrans seen d d' :
  d_intfs d' = d_intfs d -> d_sels d' = d_sels d -> d_os d' = d_os d ->
  (forall t p idx v4, In (t, RUnregisterResend p idx v4) (d_retrans d') ->
     In (t, RUnregisterResend p idx v4) (d_retrans d) \/
     (dest_is_v4 p = v4 /\ Forall (seen_rec seen idx) (p_answers p ++ p_additionals p))) ->
  Inv seen d -> Inv seen d'.
Proof.
  intros F1 F2 F3 Hr [I1 I2 I3 I4 I5 I6]. constructor; rewrite ?F1, ?F2, ?F3; auto.
  intros t p idx v4 H. destruct (Hr t p idx v4 H) as [H0|H0]; [apply (I6 t); exact H0|exact H0].
Qed.

Lemma in_app_reg_resend l r t p idx v4 : Forall is_reg_resend r ->
  In (t, RUnregisterResend p idx v4) (l ++ r) -> In (t, RUnregisterResend p idx v4) l.
Proof.
  intros Hr H. apply in_app_or in H as [H|H]; [exact H|]. rewrite Forall_forall in Hr. destruct (Hr _ H).
Qed.

Lemma announce_pair_just seen d s intf : Inv seen d -> In intf (d_intfs d) ->
  Forall (obs_just1 seen (d_os d) (d_sels d))
         (map (fun p => OSent (reroute (d_os d) intf p)) (opt_list (announce_on s intf true) ++ opt_list (announce_on s intf false))).
Proof.
  intros HI Hin. pose proof (in_get _ _ (inv_idx _ _ HI) Hin) as Hg.
  rewrite map_app. apply Forall_app. split.
  - destruct (announce_on s intf true) as [p|] eqn:E; [|constructor]. simpl. constructor; [|constructor].
    destruct (announce_on_facts _ _ _ _ E) as (H1 & H2 & H3). apply just_from_held; auto. rewrite H1. exact H2.
  - destruct (announce_on s intf false) as [p|] eqn:E; [|constructor]. simpl. constructor; [|constructor].
    destruct (announce_on_facts _ _ _ _ E) as (H1 & H2 & H3). apply just_from_held; auto. rewrite H1. exact H2.
Qed.

Lemma do_register_ok seen now d s auto : Inv seen d ->
  Inv seen (fst (do_register now d s auto)) /\
  d_os (fst (do_register now d s auto)) = d_os d /\ d_sels (fst (do_register now d s auto)) = d_sels d /\
  Forall (obs_just1 seen (d_os d) (d_sels d)) (snd (do_register now d s auto)).
Proof.
  intros HI. unfold do_register.
  set (s1 := if auto then _ else s).
  match goal with |- context [fold_left ?f (d_intfs d) ([], [], [])] => set (stepf := f) end.
  assert (G : forall l acc, (forall m, In m l -> In m (d_intfs d)) ->
             Forall (obs_just1 seen (d_os d) (d_sels d)) (snd (fst acc)) /\ Forall is_reg_resend (snd acc) ->
             Forall (obs_just1 seen (d_os d) (d_sels d)) (snd (fst (fold_left stepf l acc))) /\
             Forall is_reg_resend (snd (fold_left stepf l acc))).
  { induction l as [|intf l IH]; intros [[st sent] resend] Hl [H1 H2]; simpl; [auto|].
    apply IH; [intros m Hm; apply Hl; right; exact Hm|].
    destruct (is_nil _) eqn:En; simpl; [auto|]. split.
    - apply Forall_app. split; [exact H1|]. apply announce_pair_just; [exact HI|apply Hl; left; reflexivity].
    - apply Forall_app. split; [exact H2|constructor; [exact I|constructor]]. }
  specialize (G (d_intfs d) ([], [], []) (fun m H => H) (conj (Forall_nil _) (Forall_nil _))).
  destruct (fold_left stepf (d_intfs d) ([], [], [])) as [[st sent] resend]. simpl in G. destruct G as [G1 G2].
  simpl. split; [|auto].
  eapply Inv_retrans; [| | | |exact HI]; simpl; try reflexivity.
  intros t p idx v4 H. left. eapply in_app_reg_resend; eassumption.
Qed.

Lemma do_unregister_ok seen now d key : Inv seen d ->
  Inv seen (fst (do_unregister now d key)) /\
  d_os (fst (do_unregister now d key)) = d_os d /\ d_sels (fst (do_unregister now d key)) = d_sels d /\
  Forall (obs_just1 seen (d_os d) (d_sels d)) (snd (do_unregister now d key)).
Proof.
  intros HI. unfold do_unregister. destruct (svc_get key (d_svcs d)) as [ds|]; [|simpl; auto].
  match goal with |- context [fold_left ?f (d_intfs d) ([], [])] => set (stepf := f) end.
  pose (gb_ok := fun x : N * rcmd => match snd x with
                   | RUnregisterResend p idx v4 => dest_is_v4 p = v4 /\ Forall (seen_rec seen idx) (p_answers p ++ p_additionals p)
                   | _ => True end).
  assert (Hgb : forall intf v4 p, In intf (d_intfs d) -> goodbye_on (ds_svc ds) intf v4 = Some p ->
            pkt_just seen (d_os d) (d_sels d) (reroute (d_os d) intf p) /\
            dest_is_v4 p = v4 /\ Forall (seen_rec seen (mi_index intf)) (p_answers p ++ p_additionals p)).
  { intros intf v4 p Hin E. pose proof (in_get _ _ (inv_idx _ _ HI) Hin) as Hg.
    destruct (goodbye_on_facts _ _ _ _ E) as (H1 & H2 & H3). split; [|split; [exact H1|]].
    - apply just_from_held; auto. rewrite H1. exact H2.
    - eapply Forall_impl; [|exact H3]. intros r. apply (link_ok_seen seen (d_intfs d)); [exact Hg|apply (inv_seen_held _ _ HI)]. }
  assert (G : forall l acc, (forall m, In m l -> In m (d_intfs d)) ->
             Forall (obs_just1 seen (d_os d) (d_sels d)) (fst acc) /\ Forall gb_ok (snd acc) ->
             Forall (obs_just1 seen (d_os d) (d_sels d)) (fst (fold_left stepf l acc)) /\
             Forall gb_ok (snd (fold_left stepf l acc))).
  { induction l as [|intf l IH]; intros [sent resend] Hl [H1 H2]; simpl; [auto|].
    apply IH; [intros m Hm; apply Hl; right; exact Hm|].
    destruct (negb (is_announced _)); [auto|].
    assert (Hin : In intf (d_intfs d)) by (apply Hl; left; reflexivity).
    simpl. split.
    - apply Forall_app. split; [exact H1|]. rewrite map_app. apply Forall_app. split.
      + destruct (goodbye_on (ds_svc ds) intf true) as [p|] eqn:E; [|constructor]. simpl.
        constructor; [|constructor]. apply (Hgb intf true p Hin E).
      + destruct (goodbye_on (ds_svc ds) intf false) as [p|] eqn:E; [|constructor]. simpl.
        constructor; [|constructor]. apply (Hgb intf false p Hin E).
    - apply Forall_app. split; [exact H2|]. apply Forall_app. split.
      + destruct (goodbye_on (ds_svc ds) intf true) as [p|] eqn:E; [|constructor]. simpl.
        constructor; [|constructor]. unfold gb_ok. simpl. apply (Hgb intf true p Hin E).
      + destruct (goodbye_on (ds_svc ds) intf false) as [p|] eqn:E; [|constructor]. simpl.
        constructor; [|constructor]. unfold gb_ok. simpl. apply (Hgb intf false p Hin E). }
  specialize (G (d_intfs d) ([], []) (fun m H => H) (conj (Forall_nil _) (Forall_nil _))).
  destruct (fold_left stepf (d_intfs d) ([], [])) as [sent resend]. simpl in G. destruct G as [G1 G2].
  simpl. split; [|auto].
  eapply Inv_retrans; [| | | |exact HI]; simpl; try reflexivity.
  intros t p idx v4 H. apply in_app_or in H as [H|H]; [left; exact H|right].
  rewrite Forall_forall in G2. specialize (G2 _ H). exact G2.
Qed.

(* ---- retransmissions ---------------------------------------------------------------------------------- *)

Lemma do_retrans_ok seen d c : Inv seen d ->
  (forall p idx v4, c = RUnregisterResend p idx v4 ->
     dest_is_v4 p = v4 /\ Forall (seen_rec seen idx) (p_answers p ++ p_additionals p)) ->
  frame4 d (fst (do_retrans d c)) /\
  Forall (obs_just1 seen (d_os d) (d_sels d)) (snd (do_retrans d c)).
Proof.
  intros HI Hc. destruct c as [key idx|p idx v4]; simpl.
  - destruct (svc_get key (d_svcs d)) as [ds|]; [|split; [apply frame4_refl|constructor]].
    destruct (intf_get idx (d_intfs d)) as [intf|] eqn:Eg; [|split; [apply frame4_refl|constructor]].
    destruct (memN idx (d_regs d)); [|split; [apply frame4_refl|constructor]].
    destruct (is_nil _); [split; [apply frame4_refl|constructor]|].
    split; [unfold frame4; simpl; auto|].
    apply announce_pair_just; [exact HI|]. clear -Eg. induction (d_intfs d) as [|m l IH]; simpl in *; [discriminate|].
    destruct (mi_index m =? idx); [inversion Eg; auto|right; auto].
  - destruct (intf_get idx (d_intfs d)) as [intf|] eqn:Eg; [|split; [apply frame4_refl|constructor]].
    destruct (family_enabled intf v4) eqn:Ef; [|split; [apply frame4_refl|constructor]].
    split; [apply frame4_refl|]. constructor; [|constructor]. simpl.
    destruct (Hc p idx v4 eq_refl) as [H1 H2]. pose proof (intf_get_index _ _ _ Eg) as Hidx.
    destruct (family_enabled_addr _ _ Ef) as [a [Ha Hfa]].
    exists intf, a. rewrite dest_is_v4_reroute, H1, Hidx. repeat split; auto.
    + intros e He Hk. apply (inv_sel _ _ HI); [exact He|]. apply key_is_eq in Hk as [Hk1 Hk2].
    rewrite Hk1, Hk2. eapply get_held; eassumption.
    + simpl. rewrite H1. reflexivity.
    + intros x Hx. apply (inv_seen_held _ _ HI). eapply get_held; eassumption.
Qed.

(* ---- the interface table keeps one entry per index ------------------------------------------------------ *)

Lemma NoDup_snoc {A} (l : list A) x : NoDup l -> ~ In x l -> NoDup (l ++ [x]).
Proof.
  induction l as [|y l IH]; simpl; intros H Hn; [constructor; [tauto|constructor]|].
  inversion H; subst. constructor.
  - rewrite in_app_iff. simpl. intros [H0|[H0|[]]]; [contradiction|subst; apply Hn; left; reflexivity].
  - apply IH; [assumption|]. intros H0. apply Hn. right. exact H0.
Qed.

Lemma get_none_notin l idx : intf_get idx l = None -> ~ In idx (map mi_index l).
Proof.
  induction l as [|m l IH]; simpl; intros H; [tauto|].
  destruct (mi_index m =? idx) eqn:E; [discriminate|]. apply N.eqb_neq in E. intros [H0|H0]; [auto|exact (IH H H0)].
Qed.

Lemma put_same_indices x l m : intf_get (mi_index x) l = Some m -> map mi_index (intf_put x l) = map mi_index l.
Proof.
  induction l as [|y l IH]; simpl; [discriminate|].
  destruct (mi_index y =? mi_index x) eqn:E; intros H.
  - simpl. apply N.eqb_eq in E. rewrite E. reflexivity.
  - simpl. rewrite (IH H). reflexivity.
Qed.

Lemma uniq_idx_add l i : uniq_idx l -> uniq_idx (add_tbl l i).
Proof.
  unfold uniq_idx, add_tbl. intros H. destruct (intf_get (i_index i) l) as [m|] eqn:Eg.
  - destruct (has_ifaddr _ _); [exact H|].
    rewrite (put_same_indices (mkMyIntf (mi_name m) (i_index i) (mi_addrs m ++ [i_addr i])) l m); [exact H|exact Eg].
  - rewrite map_app. simpl. apply NoDup_snoc; [exact H|apply get_none_notin; exact Eg].
Qed.

Lemma map_index_remove idx l : map mi_index (intf_remove idx l) = filter (fun x => negb (x =? idx)) (map mi_index l).
Proof. unfold intf_remove. induction l as [|m l IH]; simpl; [reflexivity|]. destruct (negb (mi_index m =? idx)); simpl; rewrite IH; reflexivity. Qed.

Lemma uniq_idx_remove idx l : uniq_idx l -> uniq_idx (intf_remove idx l).
Proof. unfold uniq_idx. rewrite map_index_remove. apply NoDup_filter. Qed.

Lemma uniq_idx_del l i : uniq_idx l -> uniq_idx (del_tbl l i).
Proof.
  unfold del_tbl. intros H. destruct (intf_get (i_index i) l) as [m|] eqn:Eg; [|exact H].
  destruct (has_ifaddr _ _); [|exact H]. destruct (is_nil _); [apply uniq_idx_remove; exact H|].
  unfold uniq_idx. rewrite (put_same_indices (mkMyIntf (mi_name m) (i_index i) _) l m); [exact H|exact Eg].
Qed.

Lemma held_del_sub l i idx a : held (del_tbl l i) idx a = true -> held l idx a = true.
Proof. rewrite held_del_tbl. intros H. apply andb_true_iff in H. tauto. Qed.


(* ---- apply_intf_selections --------------------------------------------------------------------------------- *)

(* what holds of every state inside the loop of apply_intf_selections *)
Record J (seen os : list iface) (sels : list selection) (d0 st : dstate) : Prop := mkJ {
  j_os : d_os st = os;
  j_sels : d_sels st = sels;
  j_idx : uniq_idx (d_intfs st);
  j_seen : forall idx a, held (d_intfs st) idx a = true -> seen_has seen idx a;
  j_gb : forall t p idx v4, In (t, RUnregisterResend p idx v4) (d_retrans st) ->
                            In (t, RUnregisterResend p idx v4) (d_retrans d0) }.

Lemma add_interface_J seen os sels d0 now st i :
  J seen os sels d0 st -> In i os -> incl os seen -> uniq_keys os -> last_match sels i = true ->
  J seen os sels d0 (fst (add_interface now st i)) /\
  Forall (obs_just1 seen os sels) (snd (add_interface now st i)).
Proof.
  intros [J1 J2 J3 J4 J5] Hi Hincl Huk Hsel.
  pose proof (add_interface_intfs now st i) as (A1 & A2 & A3).
  assert (Hseen' : forall idx a, held (add_tbl (d_intfs st) i) idx a = true -> seen_has seen idx a).
  { intros idx a H. rewrite held_add_tbl in H. apply orb_true_iff in H as [H|H]; [apply J4; exact H|].
    exists i. split; [apply Hincl; exact Hi|exact H]. }
  (* the state part, up to the retransmission list *)
  assert (Hret : forall t p idx v4, In (t, RUnregisterResend p idx v4) (d_retrans (fst (add_interface now st i))) ->
                                    In (t, RUnregisterResend p idx v4) (d_retrans st)
          /\ True).
  { unfold add_interface.
    destruct (match intf_get (i_index i) (d_intfs st) with Some m => _ | None => _ end) as [intfs' new_addr].
    destruct (negb new_addr); [simpl; auto|].
    destruct (intf_get (i_index i) intfs') as [my_intf|]; [|simpl; auto].
    match goal with |- context [fold_left ?f ?l ([], [], [])] => set (stepf := f); set (sv := l) end.
    assert (G : forall l acc, Forall is_reg_resend (snd acc) -> Forall is_reg_resend (snd (fold_left stepf l acc))).
    { induction l as [|kv l IH]; intros [[svcs sent] resend] Hr; simpl; [exact Hr|]. apply IH.
      destruct (ds_auto (snd kv)); [|exact Hr]. destruct (announce_on _ _ _); simpl; [|exact Hr].
      apply Forall_app. split; [exact Hr|constructor; [exact I|constructor]]. }
    specialize (G sv ([], [], []) (Forall_nil _)).
    destruct (fold_left stepf sv ([], [], [])) as [[svcs' sent] resend]. simpl in *.
    intros t p idx v4 H. split; [|exact I]. eapply in_app_reg_resend; eassumption. }
  split.
  - constructor.
    + rewrite A3. exact J1.
    + rewrite A2. exact J2.
    + rewrite A1. apply uniq_idx_add. exact J3.
    + rewrite A1. exact Hseen'.
    + intros t p idx v4 H. apply J5. apply (Hret t p idx v4 H).
  - (* the packets *)
    unfold add_interface.
    assert (Htbl : (let '(intfs', _) := match intf_get (i_index i) (d_intfs st) with
                     | Some m => if has_ifaddr (i_addr i) (mi_addrs m) then (d_intfs st, false)
                                 else (intf_put (mkMyIntf (mi_name m) (i_index i) (mi_addrs m ++ [i_addr i])) (d_intfs st), true)
                     | None => (d_intfs st ++ [mkMyIntf (i_name i) (i_index i) [i_addr i]], true) end in intfs')
                   = add_tbl (d_intfs st) i).
    { unfold add_tbl. destruct (intf_get (i_index i) (d_intfs st)) as [m|]; [destruct (has_ifaddr _ _)|]; reflexivity. }
    destruct (match intf_get (i_index i) (d_intfs st) with Some m => _ | None => _ end) as [intfs' new_addr].
    simpl in Htbl. subst intfs'.
    destruct (negb new_addr); [constructor|].
    destruct (intf_get (i_index i) (add_tbl (d_intfs st) i)) as [my_intf|] eqn:Eg; [|constructor].
    pose proof (intf_get_index _ _ _ Eg) as Hidx.
    assert (Hin_a : In (i_addr i) (mi_addrs my_intf)).
    { assert (Hh : held (add_tbl (d_intfs st) i) (i_index i) (i_addr i) = true)
        by (rewrite held_add_tbl, key_is_self; apply orb_true_r).
      apply held_get in Hh as [m [Hm Ha]]. rewrite Eg in Hm. inversion Hm; subst. exact Ha. }
    match goal with |- context [fold_left ?f ?l ([], [], [])] => set (stepf := f); set (sv := l) end.
    assert (G : forall l acc, Forall (obs_just1 seen os sels) (snd (fst acc)) ->
                Forall (obs_just1 seen os sels) (snd (fst (fold_left stepf l acc)))).
    { induction l as [|kv l IH]; intros [[svcs sent] resend] Hs; simpl; [exact Hs|]. apply IH.
      destruct (ds_auto (snd kv)); [|exact Hs].
      destruct (announce_on _ my_intf (is_v4 (i_ip i))) as [p|] eqn:Ea; simpl; [|exact Hs].
      apply Forall_app. split; [exact Hs|constructor; [|constructor]]. simpl.
      destruct (announce_on_facts _ _ _ _ Ea) as (H1 & H2 & H3).
      exists my_intf, (i_addr i). rewrite dest_is_v4_reroute, H1, Hidx. repeat split.
      - exact Hin_a.
      - intros e He Hk. assert (e = i) by (apply Huk; assumption). subst e. exact Hsel.
      - simpl. rewrite H1, J1. reflexivity.
      - simpl. rewrite <- Hidx. eapply Forall_impl; [|exact H3]. intros r.
        apply (link_ok_seen seen (add_tbl (d_intfs st) i)); [rewrite Hidx; exact Eg|exact Hseen'].
      - intros x Hx. apply Hseen'. rewrite <- Hidx. eapply get_held; [|exact Hx]. rewrite Hidx. exact Eg. }
    specialize (G sv ([], [], []) (Forall_nil _)).
    destruct (fold_left stepf sv ([], [], [])) as [[svcs' sent] resend]. simpl in *.
    apply Forall_app. split; [exact G|constructor; [exact I|constructor]].
Qed.

Lemma del_interface_addr_J seen os sels d0 st i :
  J seen os sels d0 st ->
  J seen os sels d0 (fst (del_interface_addr st i)) /\ Forall not_sent (snd (del_interface_addr st i)).
Proof.
  intros [J1 J2 J3 J4 J5].
  pose proof (del_interface_addr_intfs st i) as (A1 & A2 & A3).
  assert (Hret : d_retrans (fst (del_interface_addr st i)) = d_retrans st /\
                 Forall not_sent (snd (del_interface_addr st i))).
  { unfold del_interface_addr. destruct (intf_get (i_index i) (d_intfs st)) as [m|]; [|simpl; auto].
    destruct (has_ifaddr _ _); [|simpl; auto].
    destruct (is_nil _).
    - destruct (holds_ip _ _); simpl; split; try reflexivity; repeat constructor.
    - destruct (negb (family_enabled _ _)); destruct (holds_ip _ _); simpl; split; try reflexivity; repeat constructor. }
  destruct Hret as [Hr Hn]. split; [|exact Hn]. constructor.
  - rewrite A3. exact J1.
  - rewrite A2. exact J2.
  - rewrite A1. apply uniq_idx_del. exact J3.
  - rewrite A1. intros idx a H. apply J4. eapply held_del_sub. exact H.
  - rewrite Hr. exact J5.
Qed.

Lemma apply_J seen os sels d0 now : incl os seen -> uniq_keys os ->
  forall tbl, incl tbl os -> forall st out,
  J seen os sels d0 st -> Forall (obs_just1 seen os sels) out ->
  let r := fold_left (fun (acc : dstate * list obs) (im : iface * bool) =>
                        let '(st, out) := acc in
                        let '(st', o) := if snd im then add_interface now st (fst im) else del_interface_addr st (fst im) in
                        (st', out ++ o)) (combine tbl (map (last_match sels) tbl)) (st, out) in
  J seen os sels d0 (fst r) /\ Forall (obs_just1 seen os sels) (snd r).
Proof.
  intros Hincl Huk. induction tbl as [|e tbl IH]; intros Htbl st out HJ Hout; simpl; [auto|].
  destruct (last_match sels e) eqn:Es.
  - destruct (add_interface_J seen os sels d0 now st e HJ (Htbl e (or_introl eq_refl)) Hincl Huk Es) as [HJ' Ho].
    destruct (add_interface now st e) as [st' o]. simpl in *.
    apply IH; [intros x Hx; apply Htbl; right; exact Hx|exact HJ'|apply Forall_app; auto].
  - destruct (del_interface_addr_J seen os sels d0 st e HJ) as [HJ' Ho].
    destruct (del_interface_addr st e) as [st' o]. simpl in *.
    apply IH; [intros x Hx; apply Htbl; right; exact Hx|exact HJ'|].
    apply Forall_app. split; [exact Hout|]. eapply Forall_impl; [|exact Ho]. intros x. apply not_sent_just.
Qed.

Lemma find_key_uniq os e : uniq_keys os -> In e os ->
  find (fun e0 => key_is e0 (i_index e) (i_addr e)) (rev os) = Some e.
Proof.
  intros Huk Hin. destruct (find _ (rev os)) as [e'|] eqn:Ef.
  - apply find_some in Ef as [H1 H2]. apply in_rev in H1. f_equal. apply Huk; assumption.
  - exfalso. assert (Hf : key_is e (i_index e) (i_addr e) = false).
    { apply (find_none _ _ Ef e). apply in_rev. rewrite rev_involutive. exact Hin. }
    rewrite key_is_self in Hf. discriminate.
Qed.

(* a state whose selections were just replaced, then apply_intf_selections on the OS table *)
Lemma apply_ok seen now d sels :
  Inv seen d ->
  let d1 := mkD (d_os d) (d_intfs d) (d_regs d) sels (d_svcs d) (d_cache d) (d_browsed d) (d_resolved d)
                (d_interval d) (d_next_check d) (d_retrans d) in
  let r := apply_intf_selections now d1 (d_os d) in
  Inv seen (fst r) /\ d_os (fst r) = d_os d /\ d_sels (fst r) = sels /\
  Forall (obs_just1 seen (d_os d) sels) (snd r).
Proof.
  intros HI d1 r. subst r. unfold apply_intf_selections. rewrite apply_marks_last_match.
  assert (HJ : J seen (d_os d) sels d d1).
  { constructor; simpl; auto. apply (inv_idx _ _ HI). apply (inv_seen_held _ _ HI). }
  pose proof (apply_J seen (d_os d) sels d now (inv_seen_os _ _ HI) (inv_os _ _ HI) (d_os d) (incl_refl _) d1 [] HJ (Forall_nil _)) as H.
  cbv zeta in H. simpl d_sels. destruct H as [[J1 J2 J3 J4 J5] Ho].
  pose proof (fun idx a => interface_table_after_apply now d1 (d_os d) idx a) as Ht. cbv zeta in Ht.
  unfold apply_intf_selections in Ht. rewrite apply_marks_last_match in Ht. simpl d_sels in Ht.
  set (res := fold_left _ (combine (d_os d) (map (last_match sels) (d_os d))) (d1, [])) in *.
  split; [|auto].
  constructor.
  - rewrite J1. apply (inv_os _ _ HI).
  - exact J3.
  - rewrite J1, J2. intros e He Hh. destruct (Ht (i_index e) (i_addr e)) as [Hheld _].
    rewrite Hheld, (find_key_uniq _ _ (inv_os _ _ HI) He) in Hh. exact Hh.
  - rewrite J1. apply (inv_seen_os _ _ HI).
  - exact J4.
  - intros t p idx v4 H. apply (inv_gb _ _ HI t). apply J5. exact H.
Qed.

(* ---- all commands ---------------------------------------------------------------------------------------- *)

Lemma do_browse_facts d ty : frame4 d (fst (do_browse d ty)) /\ Forall not_sent (snd (do_browse d ty)).
Proof.
  unfold do_browse.
  match goal with |- context [fold_left ?f ?l (d_resolved d, [])] => set (stepf := f); set (recs := l) end.
  assert (G : forall l acc, Forall not_sent (snd acc) -> Forall not_sent (snd (fold_left stepf l acc))).
  { induction l as [|r l IH]; intros [res out] Ho; simpl; [exact Ho|]. apply IH.
    destruct (alias_of r) as [inst|]; [|exact Ho].
    destruct (resolve_from_cache (d_cache d) ty inst) as [ev|] eqn:Er; simpl.
    - apply Forall_app. split; [exact Ho|]. constructor; [exact I|].
      constructor; [eapply resolve_from_cache_not_sent; exact Er|constructor].
    - apply Forall_app. split; [exact Ho|constructor; [exact I|constructor]]. }
  specialize (G recs (d_resolved d, []) (Forall_nil _)).
  destruct (fold_left stepf recs (d_resolved d, [])) as [res out]. simpl in *.
  split; [unfold frame4; simpl; auto|exact G].
Qed.

Lemma do_call_ok seen now d c : Inv seen d ->
  Inv seen (fst (do_call now d c)) /\ d_os (fst (do_call now d c)) = d_os d /\
  Forall (obs_just1 seen (d_os d) (d_sels (fst (do_call now d c)))) (snd (do_call now d c)) /\
  d_sels (fst (do_call now d c)) =
    match c with
    | CEnable ks => push_selections (d_sels d) ks true (d_os d)
    | CDisable ks => push_selections (d_sels d) ks false (d_os d)
    | _ => d_sels d
    end.
Proof.
  intros HI. destruct c as [ks|ks|s auto|key|secs|ty]; simpl do_call.
  - pose proof (apply_ok seen now d (push_selections (d_sels d) ks true (d_os d)) HI) as H. cbv zeta in H.
    destruct H as (H1 & H2 & H3 & H4). rewrite H3. auto.
  - pose proof (apply_ok seen now d (push_selections (d_sels d) ks false (d_os d)) HI) as H. cbv zeta in H.
    destruct H as (H1 & H2 & H3 & H4). rewrite H3. auto.
  - destruct (do_register_ok seen now d s auto HI) as (H1 & H2 & H3 & H4). rewrite H3. auto.
  - destruct (do_unregister_ok seen now d key HI) as (H1 & H2 & H3 & H4). rewrite H3. auto.
  - split; [eapply Inv_frame; [|exact HI]; unfold frame4; simpl; auto|]. simpl. auto.
  - destruct (do_browse_facts d ty) as [H1 H2]. pose proof H1 as (F1 & F2 & F3 & F4).
    rewrite F2, F3. split; [eapply Inv_frame; eassumption|]. split; [reflexivity|]. split; [|reflexivity].
    eapply Forall_impl; [|exact H2]. intros o. apply not_sent_just.
Qed.

(* ---- the IP check ------------------------------------------------------------------------------------------ *)

Lemma notify_removed_not_sent d removed : Forall not_sent (notify_removed d removed).
Proof.
  unfold notify_removed. apply Forall_forall. intros o Ho. apply in_flat_map in Ho as [kv [_ Ho]].
  destruct (mem (fst kv) (d_browsed d)); [|destruct Ho]. apply in_map_iff in Ho as [x [<- _]]. exact I.
Qed.

Lemma check_ip_changes_ok seen now d : Inv seen d ->
  let r := check_ip_changes now d in
  Inv seen (fst r) /\ d_os (fst r) = d_os d /\ d_sels (fst r) = d_sels d /\
  Forall (obs_just1 seen (d_os d) (d_sels d)) (snd r).
Proof.
  intros HI r. pose proof (fun idx a => interface_table_after_check now d idx a) as Htab. cbv zeta in Htab.
  subst r. revert Htab. unfold check_ip_changes.
  set (tbl := d_os d).
  set (kept := map _ (d_intfs d)).
  set (deleted_ips := filter _ (flat_map _ (d_intfs d))).
  set (deleted_intfs := filter _ kept).
  set (d1 := set_intfs kept (d_regs d) d).
  set (d2 := fold_left _ deleted_ips d1).
  assert (Hkept_idx : map mi_index kept = map mi_index (d_intfs d)).
  { subst kept. rewrite map_map. reflexivity. }
  assert (Hkept_held : forall idx a, held kept idx a = true -> held (d_intfs d) idx a = true).
  { intros idx a H. unfold held in *. subst kept. rewrite intf_get_map in H by reflexivity.
    destruct (intf_get idx (d_intfs d)) as [m|]; simpl in H; [|discriminate].
    rewrite has_ifaddr_filter in H. apply andb_true_iff in H. tauto. }
  assert (F2 : d_intfs d2 = kept /\ d_sels d2 = d_sels d /\ d_os d2 = d_os d /\ d_retrans d2 = d_retrans d).
  { subst d2. assert (G : forall l st, d_intfs (fold_left (fun st a => map_svcs (svc_remove_ip a) st) l st) = d_intfs st /\
                                        d_sels (fold_left (fun st a => map_svcs (svc_remove_ip a) st) l st) = d_sels st /\
                                        d_os (fold_left (fun st a => map_svcs (svc_remove_ip a) st) l st) = d_os st /\
                                        d_retrans (fold_left (fun st a => map_svcs (svc_remove_ip a) st) l st) = d_retrans st).
    { induction l as [|x l IH]; intros st; simpl; [auto|]. destruct (IH (map_svcs (svc_remove_ip x) st)) as (A & B & C & D).
      rewrite A, B, C, D. unfold map_svcs, upd_svcs. simpl. auto. }
    apply (G deleted_ips d1). }
  match goal with |- context [fold_left ?f deleted_intfs (d2, [])] => set (step := f) end.
  pose (P := fun acc : dstate * list obs =>
               d_sels (fst acc) = d_sels d /\ d_os (fst acc) = d_os d /\ d_retrans (fst acc) = d_retrans d /\
               uniq_idx (d_intfs (fst acc)) /\
               (forall idx a, held (d_intfs (fst acc)) idx a = true -> held (d_intfs d) idx a = true) /\
               Forall not_sent (snd acc)).
  assert (Pstep : forall acc m, P acc -> P (step acc m)).
  { intros [st out] m (P1 & P2 & P3 & P4 & P5 & P6). subst step. cbv beta iota. simpl fst in *. simpl snd in *.
    match goal with |- context [resolve_updated ?st2 ?u] =>
      pose proof (resolve_updated_facts st2 u) as [Hr Hn]; destruct (resolve_updated st2 u) as [st3 ev2] end.
    simpl in Hr, Hn. destruct Hr as (R1 & R2 & R3 & R4). simpl in R1, R2, R3, R4.
    unfold P. simpl. rewrite R1, R2, R3, R4.
    split; [exact P1|]. split; [exact P2|]. split; [exact P3|].
    split; [apply uniq_idx_remove; exact P4|].
    split; [intros idx a H; apply P5; eapply held_remove; exact H|].
    apply Forall_app. split; [exact P6|]. apply Forall_app. split; [apply notify_removed_not_sent|exact Hn]. }
  assert (P0 : P (d2, [])).
  { destruct F2 as (A & B & C & D). unfold P. simpl. rewrite A, B, C, D.
    split; [reflexivity|]. split; [reflexivity|]. split; [reflexivity|].
    split; [unfold uniq_idx; rewrite Hkept_idx; apply (inv_idx _ _ HI)|].
    split; [exact Hkept_held|constructor]. }
  assert (P3 : P (fold_left step deleted_intfs (d2, []))).
  { revert P0. generalize (d2, @nil obs). induction deleted_intfs as [|m l IH]; intros acc Hacc; simpl; [exact Hacc|].
    apply IH. apply Pstep. exact Hacc. }
  destruct (fold_left step deleted_intfs (d2, [])) as [d3 ev_cache]. destruct P3 as (S3 & O3 & R3 & U3 & H3 & N3).
  simpl in S3, O3, R3, U3, H3, N3.
  assert (HJ : J seen (d_os d) (d_sels d) d d3).
  { constructor; auto.
    - intros idx a H. apply (inv_seen_held _ _ HI). apply H3. exact H.
    - intros t p idx v4 H. rewrite R3 in H. exact H. }
  unfold apply_intf_selections. rewrite apply_marks_last_match, S3.
  pose proof (apply_J seen (d_os d) (d_sels d) d now (inv_seen_os _ _ HI) (inv_os _ _ HI) (d_os d) (incl_refl _) d3 []
                      HJ (Forall_nil _)) as Ha. cbv zeta in Ha. fold tbl in Ha.
  destruct (fold_left _ (combine tbl (map (last_match (d_sels d)) tbl)) (d3, [])) as [d4 ev_apply].
  simpl in Ha. destruct Ha as [[J1 J2 J3 J4 J5] Ho]. intros Htab. simpl in Htab. simpl. subst tbl.
  split; [|split; [exact J1|split; [exact J2|]]].
  - constructor.
    + rewrite J1. apply (inv_os _ _ HI).
    + exact J3.
    + rewrite J1, J2. intros e He Hh. destruct (Htab (i_index e) (i_addr e)) as [Hheld _].
      rewrite Hheld, (find_key_uniq _ _ (inv_os _ _ HI) He) in Hh. exact Hh.
    + rewrite J1. apply (inv_seen_os _ _ HI).
    + exact J4.
    + intros t p idx v4 H. apply (inv_gb _ _ HI t). apply J5. exact H.
  - apply Forall_app. split.
    + apply Forall_forall. intros o Ho'. apply in_map_iff in Ho' as [x [<- _]]. exact I.
    + apply Forall_app. split; [|exact Ho]. eapply Forall_impl; [|exact N3]. intros o. apply not_sent_just.
Qed.

(* ---- one iteration ------------------------------------------------------------------------------------------ *)

Lemma run_list_acc {A} (f : dstate -> A -> dstate * list obs) l : forall st out,
  fold_left (fun (acc : dstate * list obs) (x : A) => let '(st, out) := acc in let '(st', o) := f st x in (st', out ++ o))
            l (st, out)
  = (fst (run_list f l st), out ++ snd (run_list f l st)).
Proof.
  unfold run_list. induction l as [|x l IH]; intros st out; simpl; [rewrite app_nil_r; reflexivity|].
  destruct (f st x) as [st' o]. rewrite (IH st' (out ++ o)), (IH st' o). simpl. rewrite app_assoc. reflexivity.
Qed.

Lemma run_list_cons {A} (f : dstate -> A -> dstate * list obs) x l d :
  run_list f (x :: l) d = (fst (run_list f l (fst (f d x))), snd (f d x) ++ snd (run_list f l (fst (f d x)))).
Proof.
  unfold run_list at 1. simpl. destruct (f d x) as [st' o]. simpl. apply run_list_acc.
Qed.

Lemma run_list_nil {A} (f : dstate -> A -> dstate * list obs) d : run_list f [] d = (d, []).
Proof. reflexivity. Qed.

(* a returning interface the daemon still holds and the selections made meanwhile disable: the
   class of the finding C18-selection-while-absent *)
Definition hazard (d : dstate) (tbl : list iface) : bool :=
  existsb (fun e => held (d_intfs d) (i_index e) (i_addr e) && negb (iface_mem e (d_os d))
                    && negb (last_match (d_sels d) e)) tbl.

Definition obs_just (seen os : list iface) (states : list (list selection)) (o : obs) : Prop :=
  match o with
  | OSent p => exists sels, In sels states /\ pkt_just seen os sels p
  | _ => True
  end.

Lemma obs_just_of1 seen os sels states o : In sels states -> obs_just1 seen os sels o -> obs_just seen os states o.
Proof. destruct o; simpl; auto. intros H1 H2. exists sels. auto. Qed.

Lemma obs_just_incl seen os s1 s2 o : incl s1 s2 -> obs_just seen os s1 o -> obs_just seen os s2 o.
Proof. destruct o; simpl; auto. intros Hi (sels & H1 & H2). exists sels. auto. Qed.

Definition final_sels (sels : list selection) (cur : list iface) (calls : list call) : list selection :=
  fold_left (fun acc c => match c with
                          | CEnable ks => push_selections acc ks true cur
                          | CDisable ks => push_selections acc ks false cur
                          | _ => acc end) calls sels.

Lemma sel_states_head sels cur calls : In sels (sel_states sels cur calls).
Proof.
  revert sels. induction calls as [|c t IH]; intros sels; simpl; [auto|].
  destruct c; simpl; auto.
Qed.

Lemma sel_states_final sels cur calls : In (final_sels sels cur calls) (sel_states sels cur calls).
Proof.
  revert sels. induction calls as [|c t IH]; intros sels; simpl; [auto|].
  destruct c; simpl; auto.
Qed.

Lemma sel_states_tail sels cur c t :
  incl (sel_states (final_sels sels cur [c]) cur t) (sel_states sels cur (c :: t)).
Proof. destruct c; simpl; try apply incl_refl; apply incl_tl; apply incl_refl. Qed.

Lemma dgrams_ok seen l : forall d, Inv seen d ->
  Inv seen (fst (run_list handle_dgram l d)) /\
  d_os (fst (run_list handle_dgram l d)) = d_os d /\ d_sels (fst (run_list handle_dgram l d)) = d_sels d /\
  Forall (obs_just1 seen (d_os d) (d_sels d)) (snd (run_list handle_dgram l d)).
Proof.
  induction l as [|g l IH]; intros d HI; [rewrite run_list_nil; simpl; auto|].
  rewrite run_list_cons. destruct (handle_dgram_ok seen d g HI) as [Hf Ho].
  pose proof Hf as (F1 & F2 & F3 & F4).
  destruct (IH (fst (handle_dgram d g)) (Inv_frame _ _ _ Hf HI)) as (H1 & H2 & H3 & H4).
  simpl. rewrite H2, H3, F2, F3. split; [exact H1|]. split; [reflexivity|]. split; [reflexivity|].
  apply Forall_app. split; [exact Ho|]. rewrite F2, F3 in H4. exact H4.
Qed.

Lemma calls_ok seen now cur l : forall d, Inv seen d -> d_os d = cur ->
  Inv seen (fst (run_list (do_call now) l d)) /\
  d_os (fst (run_list (do_call now) l d)) = cur /\
  d_sels (fst (run_list (do_call now) l d)) = final_sels (d_sels d) cur l /\
  Forall (obs_just seen cur (sel_states (d_sels d) cur l)) (snd (run_list (do_call now) l d)).
Proof.
  induction l as [|c l IH]; intros d HI Hos; [rewrite run_list_nil; simpl; auto|].
  rewrite run_list_cons. destruct (do_call_ok seen now d c HI) as (H1 & H2 & H3 & H4).
  assert (Hfs : d_sels (fst (do_call now d c)) = final_sels (d_sels d) cur [c]).
  { rewrite H4, Hos. destruct c; reflexivity. }
  destruct (IH (fst (do_call now d c)) H1 (eq_trans H2 Hos)) as (K1 & K2 & K3 & K4).
  simpl fst. simpl snd. split; [exact K1|]. split; [exact K2|]. split.
  - rewrite K3, Hfs. reflexivity.
  - apply Forall_app. split.
    + eapply Forall_impl; [|exact H3]. intros o Ho. rewrite Hos in Ho.
      apply (obs_just_of1 _ _ (d_sels (fst (do_call now d c)))); [|exact Ho].
      rewrite Hfs. apply sel_states_tail. apply sel_states_head.
    + eapply Forall_impl; [|exact K4]. intros o. apply obs_just_incl. rewrite Hfs. apply sel_states_tail.
Qed.

Lemma retrans_ok seen l : forall d, Inv seen d ->
  (forall t p idx v4, In (t, RUnregisterResend p idx v4) l ->
     dest_is_v4 p = v4 /\ Forall (seen_rec seen idx) (p_answers p ++ p_additionals p)) ->
  let r := run_list (fun st (x : N * rcmd) => do_retrans st (snd x)) l d in
  Inv seen (fst r) /\ d_os (fst r) = d_os d /\ d_sels (fst r) = d_sels d /\
  Forall (obs_just1 seen (d_os d) (d_sels d)) (snd r).
Proof.
  induction l as [|[t c] l IH]; intros d HI Hgb; [simpl; auto|]. cbv zeta.
  rewrite run_list_cons. simpl snd at 1 2.
  assert (Hc : forall p idx v4, c = RUnregisterResend p idx v4 ->
             dest_is_v4 p = v4 /\ Forall (seen_rec seen idx) (p_answers p ++ p_additionals p)).
  { intros p idx v4 ->. apply (Hgb t). left. reflexivity. }
  destruct (do_retrans_ok seen d c HI Hc) as [Hf Ho]. pose proof Hf as (F1 & F2 & F3 & F4).
  assert (Hgb' : forall t' p idx v4, In (t', RUnregisterResend p idx v4) l ->
             dest_is_v4 p = v4 /\ Forall (seen_rec seen idx) (p_answers p ++ p_additionals p)).
  { intros t' p idx v4 H. apply (Hgb t'). right. exact H. }
  pose proof (IH (fst (do_retrans d c)) (Inv_frame _ _ _ Hf HI) Hgb') as H. cbv zeta in H.
  destruct H as (H1 & H2 & H3 & H4). simpl fst. simpl snd.
  rewrite H2, H3, F2, F3. split; [exact H1|]. split; [reflexivity|]. split; [reflexivity|].
  apply Forall_app. split; [exact Ho|]. rewrite F2, F3 in H4. exact H4.
Qed.

Theorem iterate_ok seen d s : Inv seen d ->
  (forall tbl, st_os s = Some tbl -> uniq_keys tbl /\ hazard d tbl = false) ->
  let cur := match st_os s with Some tbl => tbl | None => d_os d end in
  let seen' := add_seen seen cur in
  Inv seen' (fst (iterate d s)) /\
  Forall (obs_just seen' cur (sel_states (d_sels d) cur (st_calls s))) (snd (iterate d s)).
Proof.
  intros HI Hwf cur seen'.
  destruct (add_seen_incl seen cur) as [Hs1 Hs2]. fold seen' in Hs1, Hs2.
  unfold iterate.
  set (d0 := match st_os s with Some tbl => _ | None => d end).
  assert (H0 : Inv seen' d0 /\ d_os d0 = cur /\ d_sels d0 = d_sels d).
  { subst d0 cur. destruct (st_os s) as [tbl|] eqn:Eos.
    - destruct (Hwf tbl eq_refl) as [Huk Hhz]. split; [|simpl; auto].
      destruct HI as [I1 I2 I3 I4 I5 I6]. constructor; simpl; auto.
      + intros e He Hh. destruct (iface_mem e (d_os d)) eqn:Em.
        * apply I3; [apply iface_mem_In; exact Em|exact Hh].
        * unfold hazard in Hhz. destruct (last_match (d_sels d) e) eqn:El; [reflexivity|]. exfalso.
          assert (existsb (fun e => held (d_intfs d) (i_index e) (i_addr e) && negb (iface_mem e (d_os d))
                                    && negb (last_match (d_sels d) e)) tbl = true); [|congruence].
          apply existsb_exists. exists e. rewrite Hh, Em, El. auto.
      + intros idx a H. destruct (I5 idx a H) as [e [He Hk]]. exists e. auto.
      + intros t p idx v4 H. destruct (I6 t p idx v4 H) as [G1 G2]. split; [exact G1|].
        eapply Forall_impl; [|exact G2]. intros r. apply seen_rec_mono. exact Hs1.
    - split; [apply (Inv_mono seen); assumption|auto]. }
  destruct H0 as (HI0 & Hos0 & Hsel0).
  set (dgs := filter _ (st_dgrams s) ++ filter _ (st_dgrams s)).
  destruct (dgrams_ok seen' dgs d0 HI0) as (A1 & A2 & A3 & A4).
  destruct (run_list handle_dgram dgs d0) as [d1 o1]. simpl in A1, A2, A3, A4.
  destruct (calls_ok seen' (st_now s) cur (st_calls s) d1 A1 (eq_trans A2 Hos0)) as (B1 & B2 & B3 & B4).
  destruct (run_list (do_call (st_now s)) (st_calls s) d1) as [d2 o2]. simpl in B1, B2, B3, B4.
  set (due := filter _ (d_retrans d2)). set (rest := filter _ (d_retrans d2)).
  set (d2' := mkD (d_os d2) (d_intfs d2) (d_regs d2) (d_sels d2) (d_svcs d2) (d_cache d2) (d_browsed d2)
                  (d_resolved d2) (d_interval d2) (d_next_check d2) rest).
  assert (HI2' : Inv seen' d2').
  { eapply Inv_retrans; [| | | |exact B1]; simpl; try reflexivity.
    intros t p idx v4 H. left. subst rest. apply filter_In in H. tauto. }
  assert (Hdue : forall t p idx v4, In (t, RUnregisterResend p idx v4) due ->
             dest_is_v4 p = v4 /\ Forall (seen_rec seen' idx) (p_answers p ++ p_additionals p)).
  { intros t p idx v4 H. apply (inv_gb _ _ B1 t). subst due. apply filter_In in H. tauto. }
  pose proof (retrans_ok seen' due d2' HI2' Hdue) as C. cbv zeta in C.
  destruct (run_list _ due d2') as [d3 o3]. simpl in C. destruct C as (C1 & C2 & C3 & C4).
  set (fs := final_sels (d_sels d) cur (st_calls s)).
  assert (Hsel3 : d_sels d3 = fs) by (rewrite C3, B3, A3, Hsel0; reflexivity).
  assert (Hos3 : d_os d3 = cur) by (rewrite C2; exact B2).
  (* the periodic check *)
  set (set_next := fun n st => mkD (d_os st) (d_intfs st) (d_regs st) (d_sels st) (d_svcs st) (d_cache st)
                                    (d_browsed st) (d_resolved st) (d_interval st) n (d_retrans st)).
  assert (Hsn : forall n, Inv seen' (set_next n d3)).
  { intros n. eapply Inv_frame; [|exact C1]. unfold frame4. simpl. auto. }
  match goal with |- context [if d_interval d3 =? 0 then ?a else ?b] => set (chk := if d_interval d3 =? 0 then a else b) end.
  assert (D : Inv seen' (fst chk) /\ Forall (obs_just1 seen' cur fs) (snd chk)).
  { subst chk. destruct (d_interval d3 =? 0); [split; [apply Hsn|constructor]|].
    destruct (d_next_check d3 =? 0); [split; [apply Hsn|constructor]|].
    destruct (ParamsResponder.ip_check_due _ _); [|split; [exact C1|constructor]].
    pose proof (check_ip_changes_ok seen' (st_now s) (set_next (st_now s + d_interval d3) d3) (Hsn _)) as K.
    cbv zeta in K. destruct K as (K1 & K2 & K3 & K4). simpl in K4. rewrite Hos3, Hsel3 in K4. auto. }
  destruct chk as [d4 o4]. simpl in D. destruct D as [D1 D2]. simpl.
  split; [exact D1|].
  assert (Hfs : In fs (sel_states (d_sels d) cur (st_calls s))) by apply sel_states_final.
  assert (Hhd : In (d_sels d) (sel_states (d_sels d) cur (st_calls s))) by apply sel_states_head.
  apply Forall_app. split.
  - eapply Forall_impl; [|exact A4]. intros o Ho. rewrite Hos0, Hsel0 in Ho.
    apply (obs_just_of1 _ _ (d_sels d)); assumption.
  - apply Forall_app. split.
    + rewrite A3, Hsel0 in B4. exact B4.
    + apply Forall_app. split.
      * eapply Forall_impl; [|exact C4]. intros o Ho. simpl in Ho. rewrite B2, B3, A3, Hsel0 in Ho.
        apply (obs_just_of1 _ _ fs); assumption.
      * eapply Forall_impl; [|exact D2]. intros o Ho. apply (obs_just_of1 _ _ fs); assumption.
Qed.

(* ---- the initial state ------------------------------------------------------------------------------------ *)

Lemma initial_fold_apply tbl : forall acc,
  fold_left (fun acc i =>
               match intf_get (i_index i) acc with
               | Some m => if has_ifaddr (i_addr i) (mi_addrs m) then acc
                           else intf_put (mkMyIntf (mi_name m) (mi_index m) (mi_addrs m ++ [i_addr i])) acc
               | None => acc ++ [mkMyIntf (i_name i) (i_index i) [i_addr i]]
               end) tbl acc
  = apply_tbl (fun _ => true) acc tbl.
Proof.
  unfold apply_tbl. induction tbl as [|i tbl IH]; intros acc; simpl; [reflexivity|].
  rewrite IH. f_equal. unfold add_tbl. destruct (intf_get (i_index i) acc) as [m|] eqn:Eg; [|reflexivity].
  rewrite (intf_get_index _ _ _ Eg). reflexivity.
Qed.

Lemma initial_intfs_apply tbl : initial_intfs tbl = apply_tbl (fun _ => true) [] tbl.
Proof. apply initial_fold_apply. Qed.

Lemma uniq_idx_apply f tbl : forall l, uniq_idx l -> uniq_idx (apply_tbl f l tbl).
Proof.
  unfold apply_tbl. induction tbl as [|e tbl IH]; intros l H; simpl; [exact H|]. apply IH.
  destruct (f e); [apply uniq_idx_add|apply uniq_idx_del]; exact H.
Qed.

Lemma Inv_initial t0 os0 : uniq_keys os0 -> Inv os0 (initial_state t0 os0).
Proof.
  intros Huk. unfold initial_state. constructor; simpl.
  - exact Huk.
  - rewrite initial_intfs_apply. apply uniq_idx_apply. constructor.
  - intros e _ _. reflexivity.
  - apply incl_refl.
  - intros idx a H. rewrite initial_intfs_apply, held_apply_tbl in H.
    destruct (find (fun e => key_is e idx a) (rev os0)) as [e|] eqn:Ef; [|discriminate].
    apply find_some in Ef as [H1 H2]. exists e. split; [apply in_rev; exact H1|exact H2].
  - intros t p idx v4 [].
Qed.

(* ---- all histories -------------------------------------------------------------------------------------------- *)

Definition wf_steps (steps : list step) : Prop :=
  forall s tbl, In s steps -> st_os s = Some tbl -> uniq_keys tbl.

(* the class of the finding C18-selection-while-absent: at some step the OS reports again an
   (interface, address) pair the daemon still holds and the selections made meanwhile disable *)
Fixpoint known_class (d : dstate) (steps : list step) : bool :=
  match steps with
  | [] => false
  | s :: t => (match st_os s with Some tbl => hazard d tbl | None => false end) || known_class (fst (iterate d s)) t
  end.

(* every packet of every iteration is justified *)
Fixpoint run_just (seen : list iface) (d : dstate) (steps : list step) : Prop :=
  match steps with
  | [] => True
  | s :: t =>
    let cur := match st_os s with Some tbl => tbl | None => d_os d end in
    let seen' := add_seen seen cur in
    Forall (obs_just seen' cur (sel_states (d_sels d) cur (st_calls s))) (snd (iterate d s))
    /\ run_just seen' (fst (iterate d s)) t
  end.

Theorem run_justified steps : forall seen d,
  Inv seen d -> wf_steps steps -> known_class d steps = false -> run_just seen d steps.
Proof.
  induction steps as [|s t IH]; intros seen d HI Hwf Hk; simpl; [exact I|].
  simpl in Hk. apply orb_false_iff in Hk as [Hk1 Hk2].
  assert (Hs : forall tbl, st_os s = Some tbl -> uniq_keys tbl /\ hazard d tbl = false).
  { intros tbl E. split; [apply (Hwf s tbl (or_introl eq_refl) E)|rewrite E in Hk1; exact Hk1]. }
  pose proof (iterate_ok seen d s HI Hs) as H. cbv zeta in H. destruct H as [H1 H2].
  split; [exact H2|]. apply IH; [exact H1| |exact Hk2].
  intros s' tbl Hin. apply Hwf. right. exact Hin.
Qed.

Theorem history_packets_justified t0 os0 steps :
  uniq_keys os0 -> wf_steps steps -> known_class (initial_state t0 os0) steps = false ->
  run_just os0 (initial_state t0 os0) steps.
Proof. intros H1 H2 H3. apply run_justified; [apply Inv_initial; exact H1|exact H2|exact H3]. Qed.

(* the invariant itself holds in every reachable state *)
Fixpoint state_after (d : dstate) (steps : list step) : dstate :=
  match steps with [] => d | s :: t => state_after (fst (iterate d s)) t end.
Fixpoint seen_after (seen : list iface) (d : dstate) (steps : list step) : list iface :=
  match steps with
  | [] => seen
  | s :: t => seen_after (add_seen seen (match st_os s with Some tbl => tbl | None => d_os d end)) (fst (iterate d s)) t
  end.

Theorem invariant_reachable steps : forall seen d,
  Inv seen d -> wf_steps steps -> known_class d steps = false ->
  Inv (seen_after seen d steps) (state_after d steps).
Proof.
  induction steps as [|s t IH]; intros seen d HI Hwf Hk; simpl; [exact HI|].
  simpl in Hk. apply orb_false_iff in Hk as [Hk1 Hk2].
  assert (Hs : forall tbl, st_os s = Some tbl -> uniq_keys tbl /\ hazard d tbl = false).
  { intros tbl E. split; [apply (Hwf s tbl (or_introl eq_refl) E)|rewrite E in Hk1; exact Hk1]. }
  pose proof (iterate_ok seen d s HI Hs) as H. cbv zeta in H. destruct H as [H1 H2].
  apply IH; [exact H1| |exact Hk2]. intros s' tbl Hin. apply Hwf. right. exact Hin.
Qed.

(* a decidable form of uniq_keys for concrete tables *)
Definition uniq_keysb (tbl : list iface) : bool :=
  forallb (fun e => forallb (fun e' => negb (key_is e (i_index e') (i_addr e')) || iface_eqb e e') tbl) tbl.

Lemma uniq_keysb_ok tbl : uniq_keysb tbl = true -> uniq_keys tbl.
Proof.
  unfold uniq_keysb, uniq_keys. intros H e e' He He' Hk. rewrite forallb_forall in H.
  specialize (H e He). rewrite forallb_forall in H. specialize (H e' He'). rewrite Hk in H. simpl in H.
  apply iface_eqb_eq. exact H.
Qed.

Definition wf_stepsb (steps : list step) : bool :=
  forallb (fun s => match st_os s with Some tbl => uniq_keysb tbl | None => true end) steps.

Lemma wf_stepsb_ok steps : wf_stepsb steps = true -> wf_steps steps.
Proof.
  unfold wf_stepsb, wf_steps. intros H s tbl Hin E. rewrite forallb_forall in H. specialize (H s Hin).
  rewrite E in H. apply uniq_keysb_ok. exact H.
Qed.
