(* Result type of every modelled function that can fail in Rust.
   Err       = Rust returned Err(..)
   Panic     = Rust would panic (index/slice out of range, assert!, unwrap on None, overflow
               in a build with overflow checks)
   OutOfFuel = the model's explicit fuel ran out, i.e. "the Rust loop does not terminate
               within the budget"; safety theorems exclude it. *)
From Coq Require Import List NArith Bool.
Import ListNotations.

Inductive res (A : Type) : Type :=
| Ok (a : A)
| Err
| Panic
| OutOfFuel.
Arguments Ok {A} a.
Arguments Err {A}.
Arguments Panic {A}.
Arguments OutOfFuel {A}.

Definition bind {A B} (r : res A) (f : A -> res B) : res B :=
  match r with
  | Ok a => f a
  | Err => Err
  | Panic => Panic
  | OutOfFuel => OutOfFuel
  end.

Notation "'let?' x ':=' r 'in' k" := (bind r (fun x => k))
  (at level 200, x pattern, r at level 100, k at level 200, right associativity).

Definition is_ok {A} (r : res A) : bool := match r with Ok _ => true | _ => false end.
Definition safe {A} (r : res A) : Prop := r <> Panic /\ r <> OutOfFuel.

Lemma bind_ok_inv {A B} (r : res A) (f : A -> res B) b :
  bind r f = Ok b -> exists a, r = Ok a /\ f a = Ok b.
Proof. destruct r; simpl; intros H; try discriminate. eauto. Qed.

Lemma bind_safe {A B} (r : res A) (f : A -> res B) :
  safe r -> (forall a, r = Ok a -> safe (f a)) -> safe (bind r f).
Proof.
  unfold safe. destruct r; simpl; intros [H1 H2] H; try (split; congruence).
  apply H. reflexivity.
Qed.
