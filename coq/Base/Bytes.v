(* Bytes are N; a byte string is list N.  wf_bytes says every element is < 256. *)
From Coq Require Import List NArith Bool Lia.
Import ListNotations.
Open Scope N_scope.

Definition bytes := list N.
Definition wf_bytes (l : bytes) : Prop := Forall (fun b => b < 256) l.
Definition wf_bytesb (l : bytes) : bool := forallb (fun b => b <? 256) l.

Fixpoint beq (a b : bytes) : bool :=
  match a, b with
  | [], [] => true
  | x :: a', y :: b' => (x =? y) && beq a' b'
  | _, _ => false
  end.

Lemma beq_eq a b : beq a b = true <-> a = b.
Proof.
  revert b; induction a as [|x a IH]; destruct b as [|y b]; simpl; split; intros H;
    try reflexivity; try discriminate.
  - apply andb_true_iff in H as [H1 H2]. apply N.eqb_eq in H1. apply IH in H2. congruence.
  - inversion H; subst. rewrite N.eqb_refl. simpl. apply IH. reflexivity.
Qed.

Lemma beq_refl a : beq a a = true.
Proof. apply beq_eq. reflexivity. Qed.

Fixpoint mem (a : bytes) (l : list bytes) : bool :=
  match l with
  | [] => false
  | x :: t => beq a x || mem a t
  end.

Lemma mem_In a l : mem a l = true <-> In a l.
Proof.
  induction l as [|x t IH]; simpl.
  - split; [discriminate | tauto].
  - rewrite orb_true_iff, beq_eq, IH. split; intros [H|H]; auto.
Qed.

(* ASCII lower-casing, identity on everything else (non-ASCII case mapping is outside the
   model, see DESIGN.md 2.1). *)
Definition lower_byte (b : N) : N := if (65 <=? b) && (b <=? 90) then b + 32 else b.
Definition lower (l : bytes) : bytes := map lower_byte l.
Definition is_ascii (l : bytes) : bool := forallb (fun b => b <? 128) l.

Lemma lower_byte_idem b : lower_byte (lower_byte b) = lower_byte b.
Proof.
  unfold lower_byte.
  destruct ((65 <=? b) && (b <=? 90)) eqn:E; [|rewrite E; reflexivity].
  apply andb_true_iff in E as [E1 E2]. apply N.leb_le in E1, E2.
  destruct ((65 <=? b + 32) && (b + 32 <=? 90)) eqn:E'; [|reflexivity].
  apply andb_true_iff in E' as [_ E']. apply N.leb_le in E'. lia.
Qed.

Lemma lower_idem l : lower (lower l) = lower l.
Proof. unfold lower. rewrite map_map. apply map_ext. apply lower_byte_idem. Qed.

(* position of the first element equal to x *)
Fixpoint index_of (x : N) (l : bytes) : option nat :=
  match l with
  | [] => None
  | y :: t => if y =? x then Some O else option_map S (index_of x t)
  end.

Definition contains (x : N) (l : bytes) : bool :=
  match index_of x l with Some _ => true | None => false end.

Lemma index_of_app_not_in x a b :
  contains x a = false -> index_of x (a ++ x :: b) = Some (length a).
Proof.
  unfold contains. induction a as [|y a IH]; simpl.
  - rewrite N.eqb_refl. reflexivity.
  - destruct (y =? x) eqn:E; [discriminate|].
    destruct (index_of x a) eqn:E2; simpl; [discriminate|].
    intros _. rewrite IH; [reflexivity|]. reflexivity.
Qed.

Lemma index_of_none_not_in x a : contains x a = false -> index_of x a = None.
Proof. unfold contains. destruct (index_of x a); [discriminate|reflexivity]. Qed.
