(* Executable model of Rust's core::str::from_utf8 validation (well-formed UTF-8 per the
   Unicode standard, table 3-7: no overlongs, no surrogates, max U+10FFFF). *)
From Coq Require Import List NArith Bool Lia.
From Mdns Require Import Bytes.
Import ListNotations.
Open Scope N_scope.

Definition in_range (lo hi b : N) : bool := (lo <=? b) && (b <=? hi).
Definition cont (b : N) : bool := in_range 128 191 b.

Fixpoint utf8_valid (l : bytes) : bool :=
  match l with
  | [] => true
  | b0 :: t =>
    if b0 <? 128 then utf8_valid t
    else if in_range 194 223 b0 then
      match t with b1 :: t1 => cont b1 && utf8_valid t1 | _ => false end
    else if b0 =? 224 then
      match t with b1 :: b2 :: t2 => in_range 160 191 b1 && cont b2 && utf8_valid t2 | _ => false end
    else if in_range 225 236 b0 || in_range 238 239 b0 then
      match t with b1 :: b2 :: t2 => cont b1 && cont b2 && utf8_valid t2 | _ => false end
    else if b0 =? 237 then
      match t with b1 :: b2 :: t2 => in_range 128 159 b1 && cont b2 && utf8_valid t2 | _ => false end
    else if b0 =? 240 then
      match t with b1 :: b2 :: b3 :: t3 =>
        in_range 144 191 b1 && cont b2 && cont b3 && utf8_valid t3 | _ => false end
    else if in_range 241 243 b0 then
      match t with b1 :: b2 :: b3 :: t3 => cont b1 && cont b2 && cont b3 && utf8_valid t3 | _ => false end
    else if b0 =? 244 then
      match t with b1 :: b2 :: b3 :: t3 =>
        in_range 128 143 b1 && cont b2 && cont b3 && utf8_valid t3 | _ => false end
    else false
  end.

Lemma ascii_utf8_valid l : is_ascii l = true -> utf8_valid l = true.
Proof.
  induction l as [|b t IH]; simpl; [reflexivity|].
  intros H. apply andb_true_iff in H as [H1 H2]. rewrite H1. auto.
Qed.
