(* Shared helpers of the model-side drivers (compiled into every group against that
   group's extracted Model module). *)
open Model

(* ---- conversions between OCaml ints and the extracted numbers ---- *)
let rec pos_of_int (i : int) : positive =
  if i = 1 then XH
  else if i land 1 = 0 then XO (pos_of_int (i lsr 1))
  else XI (pos_of_int (i lsr 1))
let n_of_int (i : int) : n = if i = 0 then N0 else Npos (pos_of_int i)
let rec int_of_pos = function
  | XH -> 1
  | XO p -> 2 * int_of_pos p
  | XI p -> 2 * int_of_pos p + 1
let int_of_n = function N0 -> 0 | Npos p -> int_of_pos p
let rec nat_of_int i = if i <= 0 then O else S (nat_of_int (i - 1))
let rec int_of_nat = function O -> 0 | S n -> 1 + int_of_nat n

(* ---- hex ---- *)
let hexval c =
  match c with
  | '0' .. '9' -> Char.code c - 48
  | 'a' .. 'f' -> Char.code c - 87
  | 'A' .. 'F' -> Char.code c - 55
  | _ -> failwith "bad hex"
let bytes_of_hex (s : string) : n list =
  let s = if s = "-" then "" else s in
  let len = String.length s / 2 in
  List.init len (fun i -> n_of_int ((hexval s.[2 * i] * 16) + hexval s.[(2 * i) + 1]))
let hex_of_bytes (l : n list) : string =
  if l = [] then "-"
  else String.concat "" (List.map (fun b -> Printf.sprintf "%02x" (int_of_n b)) l)

let res_to_string f = function
  | Ok a -> "OK " ^ f a
  | Err -> "ERR"
  | Panic -> "PANIC"
  | OutOfFuel -> "HANG"

let starts_with s p = String.length s >= String.length p && String.sub s 0 (String.length p) = p
let split_str (sep : string) (s : string) : string list =
  let n = String.length sep in
  let rec go acc start i =
    if i + n > String.length s then List.rev (String.sub s start (String.length s - start) :: acc)
    else if String.sub s i n = sep then go (String.sub s start (i - start) :: acc) (i + n) (i + n)
    else go acc start (i + 1) in
  go [] 0 0

let n_of_dec (s : string) : n =
  let rec go acc i = if i >= String.length s then acc
    else go (N.add (N.mul acc (n_of_int 10)) (n_of_int (Char.code s.[i] - 48))) (i + 1) in
  go N0 0

(* decimal printing of arbitrarily large N *)
let dec_of_n (x : n) : string =
  let ten = n_of_int 10 in
  let rec go x acc =
    if x = N0 then (if acc = "" then "0" else acc)
    else go (N.div x ten) (string_of_int (int_of_n (N.modulo x ten)) ^ acc) in
  go x ""

(* "mon <ID> <case...> => <result...>" -> (id, case tokens, result) *)
let parse_mon (line : string) : (string * string list * string) option =
  let sep = " => " in
  let idx =
    let rec find i = if i + 4 > String.length line then -1 else if String.sub line i 4 = sep then i else find (i + 1) in
    find 0 in
  if idx < 0 then None else
  let left = String.sub line 0 idx and result = String.sub line (idx + 4) (String.length line - idx - 4) in
  match String.split_on_char ' ' left with
  | "mon" :: id :: case -> Some (id, case, result)
  | _ -> None

(* main loop: one case per line; lines starting with "mon " go to the monitor *)
let main_loop (run_case : string -> string) (run_monitor : string -> string list -> string -> string) : unit =
  try
    while true do
      let line = input_line stdin in
      if line <> "" then
        print_endline
          (if starts_with line "mon " then
             (match parse_mon line with
              | Some (id, case, result) -> (try run_monitor id case result with _ -> "BAD monitor exception")
              | None -> "BADCASE")
           else (try run_case line with Failure m -> "BADCASE " ^ m | _ -> "BADCASE exception"))
    done
  with End_of_file -> ()
