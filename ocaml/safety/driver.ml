(* Model-side driver of the safety group (C14, C15): evaluates the extracted Coq model on the
   same case lines as the Rust harness (harness/src/safety.rs) and hosts the monitors. *)
open Model
open Drvlib

let hexs = hex_of_bytes
let unit_res = function Ok _ -> "OK" | Err -> "ERR" | Panic -> "PANIC" | OutOfFuel -> "HANG"
let opt_hex = function None -> "~" | Some b -> hexs b

(* hex token that is not valid UTF-8: the case cannot be expressed in Rust (&str) *)
let utf8 (h : string) : n list option =
  let b = bytes_of_hex h in
  if utf8_valid b then Some b else None

(* ---- C14 histories ---- *)
let parse_call (s : string) : call =
  let op = s.[0] and arg = String.sub s 1 (String.length s - 1) in
  match op with
  | 'B' -> CBrowse (bytes_of_hex arg, false)
  | 'C' -> CBrowse (bytes_of_hex arg, true)
  | 'b' -> CStopBrowse (bytes_of_hex arg)
  | 'H' -> CResolve (bytes_of_hex arg)
  | 'h' -> CStopResolve (bytes_of_hex arg)
  | 'R' -> (match String.split_on_char ':' arg with
      | [ ty; nm; host ] -> CRegister (bytes_of_hex ty, bytes_of_hex nm, bytes_of_hex host)
      | _ -> failwith "register")
  | 'U' -> CUnregister (bytes_of_hex arg)
  | 'M' -> CMonitor
  | 'S' -> CStatus
  | 'G' -> CMetrics
  | 'X' -> CShutdown
  | 'L' -> CSetLenMax (n_of_dec arg)
  | 'I' | 'V' -> COther
  | _ -> failwith "call"

(* environment input: "an:<names of step 0>/<names of step 1>/..." (hex, ',' separated, '-' = none) *)
let parse_oracle (o : string) : n list list list =
  let o = if starts_with o "an:" then String.sub o 3 (String.length o - 3) else o in
  List.map (fun st -> if st = "-" || st = "" then [] else List.map bytes_of_hex (String.split_on_char ',' st))
    (String.split_on_char '/' o)

let parse_history ?(oracle = []) (spec : string) : stepin list =
  List.mapi (fun k st ->
      let calls = match String.index_opt st ':' with
        | Some i -> String.sub st (i + 1) (String.length st - i - 1)
        | None -> "" in
      let toks = List.filter (fun c -> c <> "") (String.split_on_char ',' calls) in
      let is_p c = c.[0] = 'P' in
      { in_found = List.map (fun c ->
            let arg = String.sub c 1 (String.length c - 1) in
            match String.split_on_char '*' arg with
            | [ ty; n ] -> (bytes_of_hex ty, n_of_dec n)
            | _ -> failwith "arrival") (List.filter is_p toks);
        in_calls = List.map parse_call (List.filter (fun c -> not (is_p c)) toks);
        in_announced = (match List.nth_opt oracle k with Some l -> l | None -> []) })
    (String.split_on_char '/' spec)

let string_of_cres = function
  | ROk -> "Ok" | RMsg -> "Msg" | RAgain -> "Again" | RShutdown -> "DaemonShutdown" | RPanic -> "PANIC"
let cres_of_string = function
  | "Ok" -> ROk | "Msg" -> RMsg | "Again" -> RAgain | "DaemonShutdown" -> RShutdown | "PANIC" -> RPanic
  | s -> failwith ("result " ^ s)
let string_of_ev = function
  | EStarted -> "Started" | EStopped -> "Stopped" | EFound -> "Found" | ERunning -> "Running" | EShutdown -> "Shutdown"
  | EUnregOK -> "UnregOK" | EUnregNotFound -> "UnregNotFound" | EMetrics -> "Metrics" | EClosed -> "closed"
let ev_of_string = function
  | "Started" -> EStarted | "Stopped" -> EStopped | "Found" -> EFound | "Running" -> ERunning | "Shutdown" -> EShutdown
  | "UnregOK" -> EUnregOK | "UnregNotFound" -> EUnregNotFound | "Metrics" -> EMetrics | "closed" -> EClosed
  | s -> failwith ("event " ^ s)

let string_of_sobs (ann : n list list) (o : sobs) : string =
  let chans = List.sort_uniq compare (List.map (fun (ch, _) -> int_of_n ch) o.so_events) in
  let ev = String.concat ";" (List.map (fun ch ->
      string_of_int ch ^ ":" ^
      String.concat "." (List.filter_map (fun (c, e) -> if int_of_n c = ch then Some (string_of_ev e) else None) o.so_events))
      chans) in
  let gb = List.sort compare (List.map hexs o.so_goodbyes) in
  let an = List.sort compare (List.map hexs ann) in
  Printf.sprintf "r=%s|ev=%s|gb=%s|an=%s|x=%s%s"
    (if o.so_results = [] then "-" else String.concat "," (List.map string_of_cres o.so_results))
    (if ev = "" then "-" else ev)
    (if gb = [] then "-" else String.concat "," gb)
    (if an = [] then "-" else String.concat "," an)
    (if o.so_exited then "1" else "0")
    (if o.so_stuck then "|dead=stuck" else "")

exception Dead of string
let sobs_of_string (s : string) : sobs =
  match String.split_on_char '|' s with
  | r :: ev :: gb :: _an :: x :: rest ->
    if rest <> [] && rest <> [ "dead=stuck" ] then raise (Dead (String.concat "|" rest));
    let strip p v = if starts_with v p then String.sub v (String.length p) (String.length v - String.length p) else failwith "field" in
    let r = strip "r=" r and ev = strip "ev=" ev and gb = strip "gb=" gb and x = strip "x=" x in
    { so_results = (if r = "-" then [] else List.map cres_of_string (String.split_on_char ',' r));
      so_events = (if ev = "-" then [] else
                     List.concat_map (fun item -> match String.split_on_char ':' item with
                         | [ ch; evs ] -> List.map (fun e -> (n_of_dec ch, ev_of_string e)) (String.split_on_char '.' evs)
                         | _ -> failwith "ev item") (String.split_on_char ';' ev));
      so_goodbyes = (if gb = "-" then [] else List.map bytes_of_hex (String.split_on_char ',' gb));
      so_exited = (x = "1"); so_stuck = (rest = [ "dead=stuck" ]) }
  | _ -> failwith "step record"

(* ---- C15 simulated histories: model_input is  c15h <call>,<call>,...  with calls
   B<ty> | H<host> | R<ty>:<name>:<host> | O (a call without name arguments) ---- *)
(* oracle for str::to_lowercase: "lc:<hex name>=<hex lower>;..." ; names not listed (and every
   name of a case without oracle) are folded on ASCII only *)
let parse_lc (o : string) : n list -> n list =
  let o = if starts_with o "lc:" then String.sub o 3 (String.length o - 3) else o in
  let tbl = List.filter_map (fun it -> match String.split_on_char '=' it with
      | [ a; b ] -> Some (bytes_of_hex a, bytes_of_hex b) | _ -> None)
      (List.filter (fun x -> x <> "") (String.split_on_char ';' o)) in
  fun name -> match List.assoc_opt name tbl with Some l -> l | None -> lower name

let c15_call (lc : n list -> n list) (s : string) : string =
  let op = s.[0] and arg = String.sub s 1 (String.length s - 1) in
  let r = match op with
    | 'B' -> api_browse lc (bytes_of_hex arg)
    | 'H' -> api_resolve_hostname lc (bytes_of_hex arg)
    | 'R' -> (match String.split_on_char ':' arg with
        | [ ty; nm; host ] -> api_register lc (bytes_of_hex ty) (bytes_of_hex nm) (bytes_of_hex host)
        | _ -> failwith "register")
    | 'L' -> if len_max_refused (n_of_dec arg) then Err else Ok ()
    | 'O' -> Ok ()
    | _ -> failwith "c15 call" in
  match r with Ok _ -> "Ok" | Err -> "Msg" | Panic -> "PANIC" | OutOfFuel -> "HANG"

let run_case (line : string) : string =
  match String.split_on_char ' ' line with
  | [ "v_dom"; h ] -> (match utf8 h with None -> "SKIP" | Some s -> unit_res (check_domain_suffix s))
  | [ "v_svc"; h ] -> (match utf8 h with None -> "SKIP" | Some s -> unit_res (check_service_name s))
  | [ "v_host"; h ] -> (match utf8 h with None -> "SKIP" | Some s -> unit_res (check_hostname s))
  | [ "v_len"; h; l ] -> (match utf8 h with None -> "SKIP" | Some s -> unit_res (check_service_name_length s (n_of_dec l)))
  | [ "v_inst"; h ] -> (match utf8 h with None -> "SKIP" | Some s -> "OK " ^ (if valid_instance_name s then "1" else "0"))
  | [ "v_nc"; h ] -> (match utf8 h with None -> "SKIP" | Some s -> res_to_string hexs (name_change s))
  | [ "v_hc"; h ] -> (match utf8 h with None -> "SKIP" | Some s -> res_to_string hexs (hostname_change s))
  | [ "v_esc"; h ] -> (match utf8 h with None -> "SKIP" | Some s -> "OK " ^ hexs (escape_instance_name s))
  | [ "v_norm"; h ] -> (match utf8 h with None -> "SKIP" | Some s -> res_to_string hexs (normalize_hostname s))
  | [ "v_sub"; h ] -> (match utf8 h with None -> "SKIP" | Some s ->
      let (a, b) = split_sub_domain s in "OK " ^ hexs a ^ " " ^ opt_hex b)
  | [ "v_lab"; h ] -> (match utf8 h with None -> "SKIP" | Some s ->
      let ls = name_labels s in
      "OK " ^ (if labels_fit s then "1" else "0") ^ " " ^ (if ls = [] then "-" else String.concat "," (List.map hexs ls)))
  | [ "v_new"; ty; nm; host ] ->
    (match utf8 ty, utf8 nm, utf8 host with
     | Some ty, Some nm, Some host ->
       res_to_string (fun (((t, sub), full), server) -> hexs t ^ " " ^ opt_hex sub ^ " " ^ hexs full ^ " " ^ hexs server)
         (si_names ty nm host)
     | _ -> "SKIP")
  | [ "c14"; spec ] -> String.concat " / " (List.map (string_of_sobs []) (run (parse_history spec)))
  | [ "c14"; spec; orc ] ->
    let h = parse_history ~oracle:(parse_oracle orc) spec in
    String.concat " / " (List.map2 (fun i o -> string_of_sobs i.in_announced o) h (run h))
  | [ "c15h"; calls ] ->
    "r=" ^ String.concat "," (List.map (c15_call lower) (String.split_on_char ',' calls)) ^ "|alive=1"
  | [ "c15h"; calls; orc ] ->
    "r=" ^ String.concat "," (List.map (c15_call (parse_lc orc)) (String.split_on_char ',' calls)) ^ "|alive=1"
  | [ "c15h" ] -> "r=-|alive=1"
  | ("stress_shutdown" | "stress_cleanup") :: _ -> "OK"
  | _ -> "BADCASE"

(* ---- monitors ---- *)
let mon_c14 (case : string list) (result : string) : string =
  match case with
  | "c14" :: spec :: orc ->
    (try
       let tr = List.map sobs_of_string (split_str " / " result) in
       let oracle = match orc with [ o ] -> parse_oracle o | _ -> [] in
       if chk_C14 (parse_history ~oracle spec) tr then "PASS" else "FAIL shutdown property violated (chk_C14)"
     with Dead what -> "FAIL daemon thread " ^ what)
  | [ "stress_shutdown"; _; _; _ ] ->
    if result = "OK" || starts_with result "OK " then "PASS" else "FAIL " ^ result
  | "stress_cleanup" :: _ ->
    (* every accepted call must be answered or closed once the daemon has ended *)
    if result = "OK" then "PASS" else "FAIL " ^ result
  | _ -> "BADCASE"

(* C15: no PANIC/HANG result; for simulated histories additionally the daemon survived and
   still serves (the projection provides alive=0|1 and the call results) *)
let mon_c15 (case : string list) (result : string) : string =
  match case with
  | [ "c15h" ] | [ "c15h"; _ ] | [ "c15h"; _; _ ] ->
    (match String.split_on_char '|' result with
     | [ r; alive ] ->
       let rs = String.split_on_char ',' (String.sub r 2 (String.length r - 2)) in
       let panics = List.length (List.filter (fun x -> x = "PANIC") rs) in
       let o = { o_call_panics = n_of_int panics; o_daemon_died = (alive <> "alive=1"); o_serves_after = (alive = "alive=1") } in
       if chk_C15 o then "PASS"
       else if panics > 0 then "FAIL a call panicked in the caller"
       else "FAIL daemon thread died or no longer serves"
     | _ -> "BAD result format")
  | [ ("v_nc" | "v_hc"); h ] when result <> "PANIC" && result <> "HANG" && result <> "CRASH" && result <> "SKIP" ->
    (* rename_stays_encodable on the implementation's output: a name whose labels fit is
       renamed to a name whose labels fit *)
    (match utf8 h, String.split_on_char ' ' result with
     | Some s, [ "OK"; r ] ->
       if labels_fit s && not (labels_fit (bytes_of_hex r)) then "FAIL renamed name has a label above 63 bytes"
       else "PASS"
     | _ -> "PASS")
  | _ ->
    let panics = if result = "PANIC" || result = "HANG" || result = "CRASH" then 1 else 0 in
    if chk_C15 { o_call_panics = n_of_int panics; o_daemon_died = false; o_serves_after = true }
    then "PASS" else "FAIL " ^ result

let run_monitor (id : string) (case : string list) (result : string) : string =
  match id with
  | "C14" -> mon_c14 case result
  | "C15" -> mon_c15 case result
  | _ -> "BADCASE"

let () = main_loop run_case run_monitor
