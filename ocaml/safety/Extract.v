(* Extraction of the executable model of group `safety` (C14, C15).
   ExtrOcamlBasic only; N, positive, nat stay the extracted inductives. No Extract Constant. *)
Require Extraction.
Require Import ExtrOcamlBasic.
From Coq Require Import NArith.
From Mdns Require Import Res Bytes Utf8 WireOut ParamsSafety SafetyNames SafetyQueue.
Extraction Language OCaml.
Extraction "model.ml"
  Utf8.utf8_valid WireOut.name_labels WireOut.write_name
  SafetyNames.check_domain_suffix SafetyNames.check_service_name SafetyNames.check_service_name_length
  SafetyNames.check_hostname SafetyNames.check_label_lengths SafetyNames.labels_fit
  SafetyNames.valid_instance_name SafetyNames.split_sub_domain SafetyNames.escape_instance_name
  SafetyNames.normalize_hostname SafetyNames.si_names SafetyNames.api_browse
  SafetyNames.api_resolve_hostname SafetyNames.api_register SafetyNames.name_change
  SafetyNames.hostname_change SafetyNames.read_name_fit SafetyNames.present SafetyNames.encodable SafetyNames.chk_C15
  Bytes.lower SafetyQueue.run SafetyQueue.chk_C14 SafetyQueue.prepare ParamsSafety.len_max_refused
  N.eqb N.add N.mul N.land N.div N.modulo.
