(* Extraction of the browser-side model (cache + browser logic + monitors) for the
   correspondence checks of C03, C04, C05.  ExtrOcamlBasic only; no Extract Constant. *)
Require Extraction.
Require Import ExtrOcamlBasic.
From Coq Require Import NArith.
From Mdns Require Import Res Bytes Utf8 Rec Wire WireOut Rfc1035 C02Spec Txt Cache Browser C03Spec BrowserSpec BrowserKnown.
Extraction Language OCaml.
Extraction "model.ml"
  Browser.run_history Browser.sort_events Browser.events_of Browser.channels_of Browser.questions_of
  WireOut.name_labels WireOut.labels_beq Wire.decode
  C03Spec.chk_C03 C03Spec.iter_dlvs C03Spec.out_ok C03Spec.wf_history C03Spec.chk_C03_last C03Spec.out_last_ok C03Spec.iter_fdlvs C03Spec.q_after C03Spec.prev_after
  BrowserSpec.viol_C04 BrowserSpec.viol_C05 BrowserSpec.chk_C04 BrowserSpec.chk_C05 BrowserSpec.obs_of BrowserSpec.ptr_targets_of
  C02Spec.dotted BrowserKnown.known_browse_expiring BrowserKnown.fresh_channels BrowserKnown.known_removal_hidden BrowserKnown.known_refresh_completes BrowserKnown.known_found_withdrawn BrowserKnown.known_overlapping_series
  N.eqb N.add N.mul N.land N.div N.modulo.
