(* Model-side driver of the browser group (C03, C04, C05): runs the extracted model of the
   cache + browser logic on a simulated-daemon history and hosts the monitors. *)
open Model
open Drvlib

let lower_b (b : n list) = List.map (fun x -> let i = int_of_n x in if i >= 65 && i <= 90 then n_of_int (i + 32) else x) b
let hx (b : n list) : string = if b = [] then "_" else hex_of_bytes b
let unhx (s : string) : n list = if s = "_" || s = "-" then [] else bytes_of_hex s
let dec_n n = dec_of_n n

(* ---- input:  sim <ifs> <iter> <iter> ...
   ifs   = idx:has4:has6,idx:has4:has6
   iter  = now/wake/calls/dgrams      wake = number | -      (wake is for the monitors only)
   calls = - | c;c;...   c = B:<tyhex>:<ch> | S:<tyhex> | V:<insthex>:<timeout> | M:<ch>
   dgrams= - | d;d;...   d = <if>:<4|6>:<hex>                                         ---- *)
let parse_ifs (s : string) =
  if s = "-" then [] else
  List.map (fun t -> match String.split_on_char ':' t with
      | [ i; a; b ] -> (n_of_dec i, (a = "1", b = "1"))
      | _ -> failwith "ifs") (String.split_on_char ',' s)

let parse_call (s : string) : call =
  match String.split_on_char ':' s with
  | [ "B"; ty; ch ] -> CBrowse (unhx ty, n_of_dec ch)
  | [ "S"; ty ] -> CStop (unhx ty)
  | [ "V"; inst; t ] -> CVerify (unhx inst, n_of_dec t)
  | [ "M"; ch ] -> CMetrics (n_of_dec ch)
  | _ -> failwith "call"

let parse_dgram (s : string) : dgram =
  match String.split_on_char ':' s with
  | [ i; f; h ] -> { d_if = n_of_dec i; d_v4 = (f = "4"); d_data = unhx h }
  | _ -> failwith "dgram"

let parse_list f s = if s = "-" then [] else List.map f (String.split_on_char ';' s)

let parse_iter (s : string) : iter * n option =
  match String.split_on_char '/' s with
  | [ now; wake; calls; dgrams ] ->
    ({ i_now = n_of_dec now; i_dgrams = parse_list parse_dgram dgrams; i_calls = parse_list parse_call calls },
     if wake = "-" then None else Some (n_of_dec wake))
  | _ -> failwith "iter"

let parse_history (toks : string list) =
  match toks with
  | "sim" :: ifs :: iters ->
    let its = List.map parse_iter iters in
    (parse_ifs ifs, List.map fst its, List.map snd its)
  | _ -> failwith "history"

(* ---- canonical observation line ------------------------------------------------------------ *)
let string_of_prop (k, v) = match v with None -> hx k | Some v -> hx k ^ "=" ^ hx v
let string_of_event (e : event) : string =
  match e with
  | EFound (ty, i) -> "F:" ^ hx ty ^ ":" ^ hx i
  | ERemoved (ty, i) -> "X:" ^ hx ty ^ ":" ^ hx i
  | EResolved r ->
    let addrs = List.sort_uniq compare (List.map (fun (ip, i) -> hx ip ^ "@" ^ dec_n i) r.rs_addrs) in
    let txt = List.map string_of_prop r.rs_txt in
    Printf.sprintf "R:%s:%s:%s:%s:%s:%s:%s" (hx r.rs_ty)
      (match r.rs_sub with Some s -> hx s | None -> "-") (hx r.rs_name) (hx r.rs_host) (dec_n r.rs_port)
      (if addrs = [] then "-" else String.concat "+" addrs)
      (if txt = [] then "-" else String.concat "+" txt)

let string_of_question (name, ty) =
  let ls = List.map lower_b (name_labels name) in      (* DNS names: ASCII case is not significant *)
  (if ls = [] then "_" else String.concat "." (List.map hx ls)) ^ ":" ^ dec_n ty

let string_of_iteration (k : int) (now : n) (o : out list) : string option =
  let chans = List.sort compare (List.map int_of_n (channels_of o)) in
  let cpart = List.map (fun c ->
      string_of_int c ^ "=" ^ String.concat "," (List.map string_of_event (sort_events (events_of (n_of_int c) o)))) chans in
  let qs = List.sort_uniq compare (List.map string_of_question (questions_of o)) in
  let ms = List.filter_map (function
      | OMetrics (ch, l) -> Some ("m" ^ dec_n ch ^ "=" ^ String.concat "." (List.map dec_n l))
      | _ -> None) o in
  if cpart = [] && qs = [] && ms = [] then None
  else Some (Printf.sprintf "#%d@%s|%s|%s|%s" k (dec_n now)
               (if cpart = [] then "-" else String.concat ";" cpart)
               (if qs = [] then "-" else String.concat "," qs)
               (if ms = [] then "-" else String.concat "," ms))

let observation (iters : iter list) (tr : out list list) : string =
  let rec go k its tr acc =
    match its, tr with
    | it :: its', o :: tr' ->
      go (k + 1) its' tr' (match string_of_iteration k it.i_now o with Some s -> s :: acc | None -> acc)
    | _ -> List.rev acc in
  let l = go 0 iters tr [] in
  "OBS " ^ string_of_int (List.length iters) ^ (if l = [] then "" else " " ^ String.concat " " l)

let run_case (line : string) : string =
  (* "na": model-free family (host names with non-ASCII cased letters, judged on the trace by the Python
     projection); the model line is a constant *)
  if line = "na" then "NA ok" else
  let (ifs, iters, _) = parse_history (String.split_on_char ' ' line) in
  observation iters (run_history ifs iters)

(* ---- parsing an observation line back (monitors) --------------------------------------------- *)
let split_first c s =
  match String.index_opt s c with
  | Some i -> (String.sub s 0 i, String.sub s (i + 1) (String.length s - i - 1))
  | None -> (s, "")

let parse_prop (s : string) =
  match String.index_opt s '=' with
  | Some i -> (unhx (String.sub s 0 i), Some (unhx (String.sub s (i + 1) (String.length s - i - 1))))
  | None -> (unhx s, None)

let parse_event (s : string) : event =
  match String.split_on_char ':' s with
  | [ "F"; ty; i ] -> EFound (unhx ty, unhx i)
  | [ "X"; ty; i ] -> ERemoved (unhx ty, unhx i)
  | [ "R"; ty; sub; i; host; port; addrs; txt ] ->
    EResolved { rs_ty = unhx ty; rs_sub = (if sub = "-" then None else Some (unhx sub)); rs_name = unhx i;
                rs_host = unhx host; rs_port = n_of_dec port;
                rs_addrs = (if addrs = "-" then [] else
                              List.map (fun a -> let (ip, i) = split_first '@' a in (unhx ip, n_of_dec i))
                                (String.split_on_char '+' addrs));
                rs_txt = (if txt = "-" then [] else List.map parse_prop (String.split_on_char '+' txt)) }
  | _ -> failwith "event"

let parse_question (s : string) : n list list * n =
  let (ls, ty) = split_first ':' s in
  ((if ls = "_" then [] else List.map unhx (String.split_on_char '.' ls)), n_of_dec ty)

(* one "#k@now|events|questions|metrics" token -> (k, (channel, event) list, questions) *)
let parse_obs_token (s : string) =
  match String.split_on_char '|' s with
  | [ hd; evs; qs; _ ] ->
    let (k, _) = split_first '@' (String.sub hd 1 (String.length hd - 1)) in
    let evts = if evs = "-" then [] else
        List.concat_map (fun part ->
            let (ch, l) = split_first '=' part in
            List.map (fun e -> (n_of_dec ch, parse_event e)) (String.split_on_char ',' l))
          (String.split_on_char ';' evs) in
    let qs = if qs = "-" then [] else List.map parse_question (String.split_on_char ',' qs) in
    (int_of_string k, evts, qs)
  | _ -> failwith "obs token"

(* observation line -> per-iteration observations (dense, n entries) *)
let parse_observation (result : string) : (((n * event) list) * ((n list list * n) list)) array =
  match String.split_on_char ' ' result with
  | "OBS" :: n :: toks ->
    let a = Array.make (int_of_string n) ([], []) in
    List.iter (fun t -> let (k, e, q) = parse_obs_token t in a.(k) <- (e, q)) toks;
    a
  | _ -> failwith "observation"

let string_of_fail (f : fail) : string * string =
  let k n = dec_n n in
  match f with
  | F_len -> ("len", "trace and history lengths differ")
  | F04_order (i, ch, inst) -> ("order", Printf.sprintf "it %s ch %s: ServiceResolved before ServiceFound for %s" (k i) (k ch) (hx inst))
  | F04_complete (i, ch, ty, inst, fresh) -> ((if fresh then "complete" else "complete:refresh-only"), Printf.sprintf "it %s ch %s: %s has live PTR+SRV+address, a record of it was delivered, not reported resolved" (k i) (k ch) (hx inst))
  | F04_followup (i, inst, stale) -> ((if stale then "followup:stale" else "followup"), Printf.sprintf "it %s: first follow-up question for %s missing at its due time" (k i) (hx inst))
  | F04_wake (i, inst, stale) -> ((if stale then "followup:stale" else "followup-wake"), Printf.sprintf "it %s: requested wake-up later than the follow-up due time of %s" (k i) (hx inst))
  | F04_many (i, inst) -> ("many", Printf.sprintf "it %s: more than 3 follow-up questions for %s without new records" (k i) (hx inst))
  | F04_labels (i, ls) -> ("labels", Printf.sprintf "it %s: follow-up asks for labels %s that no delivered PTR points to" (k i) (String.concat "." (List.map hx ls)))
  | F05_alive (i, ch, ty, inst) -> ("alive", Printf.sprintf "it %s ch %s: ServiceRemoved for %s while PTR, SRV and address are live" (k i) (k ch) (hx inst))
  | F05_dead (i, ch, ty, inst, soon, _) -> ((if soon then "dead:ptr-last-second" else "dead"), Printf.sprintf "it %s ch %s: %s still reported resolved, but PTR/SRV/address ran out" (k i) (k ch) (hx inst))
  | F05_wake (i, ch, ty, inst) -> ("wake", Printf.sprintf "it %s ch %s: requested wake-up later than the expiry that ends %s" (k i) (k ch) (hx inst))
  | F05_again (i, ch, inst) -> ("again", Printf.sprintf "it %s ch %s: ServiceResolved for %s after ServiceRemoved without new records" (k i) (k ch) (hx inst))

(* all deliveries of the history (for sub-classification of failures) *)
let all_dlvs ifs iters = List.concat_map (fun it -> iter_dlvs ifs it) iters
let ty_srv = n_of_int 33 and ty_ptr = n_of_int 12
let is_addr r = int_of_n r.r_type = 1 || int_of_n r.r_type = 28

(* the instance's SRV target and an address owner differ in letter case only *)
let case_mismatch dl inst =
  let hosts = List.filter_map (fun d -> match d.dl_rr.r_data with
      | RSrv (_, _, _, h) when d.dl_rr.r_name = inst -> Some h | _ -> None) dl in
  List.exists (fun h ->
      h <> lower_b h
      || List.exists (fun d -> is_addr d.dl_rr && lower_b d.dl_rr.r_name = lower_b h && d.dl_rr.r_name <> h) dl) hosts

(* PTR records ty -> inst delivered with different class / cache-flush bit *)
let ptr_variants dl ty inst =
  let ps = List.filter_map (fun d -> match d.dl_rr.r_data with
      | RPtr a when a = inst && d.dl_rr.r_name = ty && d.dl_rr.r_type = ty_ptr -> Some (d.dl_rr.r_class, d.dl_rr.r_flush)
      | _ -> None) dl in
  List.length (List.sort_uniq compare ps) > 1

(* the instance is pointed to by PTR records of two different names (e.g. type and subtype) *)
let two_types dl inst =
  let ts = List.filter_map (fun d -> match d.dl_rr.r_data with
      | RPtr a when a = inst && d.dl_rr.r_type = ty_ptr -> Some d.dl_rr.r_name | _ -> None) dl in
  List.length (List.sort_uniq compare ts) > 1

(* SRV records of the instance naming two different hosts (ASCII case ignored) *)
let srv_targets dl inst =
  let hs = List.filter_map (fun d -> match d.dl_rr.r_data with
      | RSrv (_, _, _, h) when d.dl_rr.r_name = inst && int_of_n d.dl_rr.r_type = 33 -> Some (lower_b h) | _ -> None) dl in
  List.length (List.sort_uniq compare hs) > 1

(* stop_browse of another name that has a PTR record to the instance, in an iteration <= i *)
let stopped_other_name iters dl i ty inst =
  let rec take n l = match l with x :: t when n > 0 -> x :: take (n - 1) t | _ -> [] in
  List.exists (fun it -> List.exists (fun cl -> match cl with
      | CStop ty2 -> ty2 <> ty && List.exists (fun d -> match d.dl_rr.r_data with
          | RPtr a -> a = inst && d.dl_rr.r_name = ty2 && d.dl_rr.r_type = ty_ptr | _ -> false) dl
      | _ -> false) it.i_calls) (take (i + 1) iters)

let refine ifs iters (hidden : bool Lazy.t) (refreshc : bool Lazy.t) (withdrawn : bool Lazy.t) (overlap : bool Lazy.t) (f : fail) (tag : string) : string =
  let dl = all_dlvs ifs iters in
  match f with
  | F04_labels (_, ls) ->
    let targets = List.concat_map (fun it -> List.concat_map (fun d -> ptr_targets_of d.d_data) it.i_dgrams) iters in
    let low = List.map lower_b in
    if List.exists (fun t -> low t <> ls && low (name_labels (dotted t)) = ls) targets then "labels:presentation" else tag
  | F05_alive (_, _, ty, inst) ->
    if ptr_variants dl ty inst then "alive:ptr-variant" else if srv_targets dl inst then "alive:srv-targets" else tag
  | F04_complete (_, _, _, inst, fresh) ->
    if fresh && srv_targets dl inst then "complete:srv-targets"
    (* the class excluded by C04_complete_is_up_partial: a delivery that is not a new record completed an instance *)
    else if Lazy.force refreshc then "complete:refresh-only" else tag
  (* the class excluded by C04_resolved_only_after_found_partial (Model/BrowserKnown.v) *)
  | F05_dead (i, _, ty, inst, _, srv_live) ->
    if not srv_live && stopped_other_name iters dl (int_of_n i) ty inst then "dead:stopped-second-name"
    (* the class excluded by C05_removed_on_time_partial: a removal was skipped because a PTR was in its last second *)
    else if Lazy.force hidden then "dead:ptr-last-second" else tag
  (* refuted inside the class (C05_no_resolved_again_refuted_in_srv_targets) *)
  | F05_again (_, _, inst) -> if srv_targets dl inst then "again:srv-targets" else tag
  (* the class found by C04_followups_as_specified_partial: ServiceFound for a PTR whose goodbye is in the same message *)
  | F04_followup (_, _, false) | F04_wake (_, _, false) ->
    if Lazy.force withdrawn then "followup:withdrawn-same-message" else tag
  (* C04-stale-resolve-overlaps-series: two Resolve retransmissions of one instance queued at a retransmission pass *)
  | F04_many _ -> if Lazy.force overlap then "many:overlapping-series" else tag
  | F04_order _ -> if known_browse_expiring ifs iters then "order:browse-expiring-ptr" else tag
  | _ -> tag

let verdict ifs iters (fs : fail list) : string =
  match fs with
  | [] -> "PASS"
  | _ ->
    let hidden = lazy (known_removal_hidden ifs iters) in
    let refreshc = lazy (known_refresh_completes ifs iters) in
    let withdrawn = lazy (known_found_withdrawn ifs iters) in
    let overlap = lazy (known_overlapping_series ifs iters) in
    let tagged = List.map (fun f -> let (t, d) = string_of_fail f in (refine ifs iters hidden refreshc withdrawn overlap f t, d)) fs in
    let tags = List.sort_uniq compare (List.map fst tagged) in
    Printf.sprintf "FAIL[%s] %s (%d failures)" (String.concat "," tags) (snd (List.hd tagged)) (List.length fs)

let run_monitor (id : string) (case : string list) (result : string) : string =
  if case = [ "na" ] then (if result = "NA ok" then "PASS" else "FAIL[nonascii] " ^ result) else
  if not (starts_with result "OBS ") then "FAIL[noobs] " ^ result else
  let (ifs, iters, wakes) = parse_history case in
  let a = parse_observation result in
  if Array.length a <> List.length iters then "FAIL[len] observation and history lengths differ" else
  let obs = Array.to_list a in
  match id with
  | "C03" ->
    if not (wf_history iters) then "PASS outside-quantifier" else
    let tr = List.map (fun (e, _) -> List.map (fun (ch, ev) -> OEvt (ch, ev)) e) obs in
    if chk_C03 ifs iters tr then begin
      (* the clause "as the network LAST advertised it" *)
      if chk_C03_last ifs iters tr then "PASS" else begin
        (* every event that breaks the clause; the known class: the SRV / TXT records of the instance
           were delivered in the pattern A, B, A - the older record announced again after another one *)
        let rec take n l = match l with x :: t when n > 0 -> x :: take (n - 1) t | _ -> [] in
        let aba l =
          let rec after a seen_b = function
            | [] -> false
            | x :: t -> if same_key a x then (seen_b || after a false t) else after a true t in
          let rec go = function [] -> false | a :: rest -> after a false rest || go rest in
          go l in
        let reannounced k inst =
          let dl = List.concat_map (fun it -> iter_dlvs ifs it) (take (k + 1) iters) in
          let of_ty t = List.filter (fun d -> d.dl_rr.r_name = inst && int_of_n d.dl_rr.r_type = t) dl in
          aba (of_ty 33) || aba (of_ty 16) in
        let rec go k q prev its tr acc =
          match its, tr with
          | it :: its', o :: tr' ->
            let cur = iter_fdlvs ifs q it in
            let bad = List.filter_map (fun x -> match x with
                | OEvt (_, (EResolved r as e)) when not (out_last_ok prev cur it.i_now x) -> Some (k, r.rs_name, e)
                | _ -> None) o in
            go (k + 1) (q_after q it.i_calls) (prev_after prev cur it.i_calls) its' tr' (acc @ bad)
          | _ -> acc in
        let bad = go 0 [] [] iters tr [] in
        let tags = List.sort_uniq compare (List.map (fun (k, inst, _) ->
            if reannounced k inst then "notlast:reannounced-older" else "notlast") bad) in
        let (k0, _, e0) = List.hd bad in
        Printf.sprintf "FAIL[%s] ServiceResolved does not carry the SRV / TXT data received last: it %d: %s (%d events)"
          (String.concat "," tags) k0 (string_of_event e0) (List.length bad)
      end
    end
    else begin
      (* locate the first event that is not justified *)
      let rec go k prev its tr =
        match its, tr with
        | it :: its', o :: tr' ->
          let cur = iter_dlvs ifs it in
          (match List.find_opt (fun x -> not (out_ok prev cur it.i_now x)) o with
           | Some (OEvt (ch, e)) -> Printf.sprintf "it %d: %s" k (string_of_event e)
           | _ -> go (k + 1) (prev @ cur) its' tr')
        | _ -> "?" in
      "FAIL[stale] ServiceResolved not justified by live received records: " ^ go 0 [] iters tr
    end
  | "C04" ->
    let tr = List.map (fun (e, q) -> { ob_evts = e; ob_qs = q }) obs in
    verdict ifs iters (viol_C04 ifs iters wakes tr)
  | "C05" ->
    (* the well-formedness condition of C05_no_resolved_again_partial, checked on every case *)
    if not (fresh_channels iters) then "FAIL[channels] a browse call reuses a channel number" else
    let tr = List.map (fun (e, q) -> { ob_evts = e; ob_qs = q }) obs in
    verdict ifs iters (viol_C05 ifs iters wakes tr)
  | _ -> "BADCASE"

let () = main_loop run_case run_monitor
