(* Model-side driver of group `responder` (C06, C18): evaluates the extracted Coq model on the
   case lines produced by tools/props/c06.py / c18.py (model_input) and hosts the monitors. *)
open Model
open Drvlib

let split_on c s = String.split_on_char c s
let find_sub (s : string) (p : string) : int =
  let n = String.length p in
  let rec go i = if i + n > String.length s then -1 else if String.sub s i n = p then i else go (i + 1) in
  go 0
let dec_n n = dec_of_n n
let nlist s f = if s = "-" || s = "" then [] else List.map f (split_on ',' s)

(* ---- addresses:  "4.<8 hex>" / "6.<32 hex>" ; interface addresses carry ".<mask hex>" ---- *)
let ip_of_string (s : string) : ip =
  match split_on '.' s with
  | "4" :: h :: _ -> V4 (n_of_octets (bytes_of_hex h))
  | "6" :: h :: _ -> V6 (n_of_octets (bytes_of_hex h))
  | _ -> failwith ("bad ip " ^ s)
let ifaddr_of_string (s : string) : ifaddr =
  match split_on '.' s with
  | [ _; _; m ] -> { ia_ip = ip_of_string s; ia_mask = n_of_octets (bytes_of_hex m) }
  | _ -> failwith ("bad ifaddr " ^ s)
let string_of_ip (a : ip) : string =
  match a with V4 _ -> "4." ^ hex_of_bytes (ip_octets a) | V6 _ -> "6." ^ hex_of_bytes (ip_octets a)

(* "idx/namehex/addr,addr" *)
let myintf_of_string (s : string) : myintf =
  match split_on '/' s with
  | [ idx; name; addrs ] ->
    { mi_name = bytes_of_hex name; mi_index = n_of_dec idx; mi_addrs = nlist addrs ifaddr_of_string }
  | _ -> failwith ("bad intf " ^ s)

(* "orighex>newhex,..." *)
let nc_of_string (s : string) : (bytes * bytes) list =
  nlist s (fun x -> match split_on '>' x with [ a; b ] -> (bytes_of_hex a, bytes_of_hex b) | _ -> failwith "bad nc")

let prop_of_string (s : string) =
  match String.index_opt s ':' with
  | None -> failwith "bad prop"
  | Some i ->
    let k = String.sub s 0 i and v = String.sub s (i + 1) (String.length s - i - 1) in
    (bytes_of_hex k, if v = "~" then None else Some (bytes_of_hex v))

let host_ttl = n_of_int 120 and other_ttl = n_of_int 4500

(* "tyhex/subhex|-/fullhex/hosthex/port/addr,addr|-/props|-/status" ; services separated by ';' *)
let entry_of_string (s : string) : entry =
  match split_on '/' s with
  | [ ty; sub; full; host; port; addrs; props; st ] ->
    let txt = match encode_txt (nlist props prop_of_string) with Ok b -> b | _ -> failwith "txt" in
    let svc = { s_ty = bytes_of_hex ty; s_sub = (if sub = "-" then None else Some (bytes_of_hex sub));
                s_fullname = bytes_of_hex full; s_host = bytes_of_hex host;
                s_addrs = nlist addrs ip_of_string; s_port = n_of_dec port;
                s_host_ttl = host_ttl; s_other_ttl = other_ttl; s_priority = N0; s_weight = N0; s_txt = txt } in
    { e_key = lower svc.s_fullname; e_svc = svc;
      e_status = (match st with "A" -> Announced | "P" -> Probing | _ -> Unknown) }
  | _ -> failwith ("bad service " ^ s)
let entries_of_string (s : string) : entry list =
  if s = "-" then [] else List.map entry_of_string (split_on ';' s)

(* ---- canonical form of packets ---- *)
let b01 b = if b then "1" else "0"
let string_of_rdata = function
  | RAddr o -> "a" ^ hex_of_bytes o
  | RPtr a -> "p" ^ hex_of_bytes a
  | RSrv (p, w, po, h) -> Printf.sprintf "s%s_%s_%s_%s" (dec_n p) (dec_n w) (dec_n po) (hex_of_bytes h)
  | RTxt t -> "t" ^ hex_of_bytes t
  | RHinfo (c, o) -> "h" ^ hex_of_bytes c ^ "_" ^ hex_of_bytes o
  | RNsec (n, b) -> "n" ^ hex_of_bytes n ^ "_" ^ hex_of_bytes b
let string_of_rr r =
  Printf.sprintf "%s.%s.%s.%s.%s.%s" (hex_of_bytes r.r_name) (dec_n r.r_type) (dec_n r.r_class)
    (b01 r.r_flush) (dec_n r.r_ttl) (string_of_rdata r.r_data)
let string_of_section l =
  if l = [] then "-" else String.concat "," (List.sort compare (List.map string_of_rr l))
let string_of_dest = function
  | DMulticast true -> "m4"
  | DMulticast false -> "m6"
  | DUnicast (a, p) -> "u" ^ string_of_ip a ^ "." ^ dec_n p
let string_of_packet (p : packet) : string =
  Printf.sprintf "dest=%s;if=%s;id=%s;flags=%s;q=%s;an=%s;ar=%s" (string_of_dest p.p_dest) (dec_n p.p_if)
    (dec_n p.p_id) (dec_n p.p_flags)
    (if p.p_questions = [] then "-" else
       String.concat "," (List.map (fun (n, t) -> hex_of_bytes n ^ "." ^ dec_n t) p.p_questions))
    (string_of_section p.p_answers) (string_of_section p.p_additionals)
let string_of_packet_gen (ifs : string) (p : packet) : string =
  Printf.sprintf "dest=%s;if=%s;id=%s;flags=%s;q=%s;an=%s;ar=%s" (string_of_dest p.p_dest) ifs
    (dec_n p.p_id) (dec_n p.p_flags)
    (if p.p_questions = [] then "-" else
       String.concat "," (List.map (fun (n, t) -> hex_of_bytes n ^ "." ^ dec_n t) p.p_questions))
    (string_of_section p.p_answers) (string_of_section p.p_additionals)
let string_of_packet_any (p : packet) : string = string_of_packet_gen "*" p
let is_goodbye (p : packet) : bool = p.p_answers <> [] && List.for_all (fun r -> r.r_ttl = N0) p.p_answers
let string_of_packet18 (p : packet) : string =
  string_of_packet_gen (if p.p_if = N0 then "?" else dec_n p.p_if) p
let string_of_reaction = function None -> "none" | Some p -> string_of_packet p

let after (pre : string) (s : string) : string =
  let n = String.length pre in
  if String.length s >= n && String.sub s 0 n = pre then String.sub s n (String.length s - n)
  else failwith ("expected " ^ pre)
let rdata_of_string (s : string) : rdata =
  let v = String.sub s 1 (String.length s - 1) in
  match s.[0] with
  | 'a' -> RAddr (bytes_of_hex v)
  | 'p' -> RPtr (bytes_of_hex v)
  | 's' -> (match split_on '_' v with
      | [ p; w; po; h ] -> RSrv (n_of_dec p, n_of_dec w, n_of_dec po, bytes_of_hex h)
      | _ -> failwith "srv")
  | 't' -> RTxt (bytes_of_hex v)
  | 'h' -> (match split_on '_' v with [ a; b ] -> RHinfo (bytes_of_hex a, bytes_of_hex b) | _ -> failwith "hinfo")
  | 'n' -> (match split_on '_' v with [ a; b ] -> RNsec (bytes_of_hex a, bytes_of_hex b) | _ -> failwith "nsec")
  | _ -> failwith "rdata"
let rr_of_string (s : string) : rr =
  match split_on '.' s with
  | [ name; ty; cls; fl; ttl; rd ] ->
    { r_name = bytes_of_hex name; r_type = n_of_dec ty; r_class = n_of_dec cls; r_flush = (fl = "1");
      r_ttl = n_of_dec ttl; r_data = rdata_of_string rd }
  | _ -> failwith ("bad rr " ^ s)
let dest_of_string (s : string) : dest =
  if s = "m4" then DMulticast true else if s = "m6" then DMulticast false
  else match split_on '.' (String.sub s 1 (String.length s - 1)) with
    | [ f; h; p ] -> DUnicast (ip_of_string (f ^ "." ^ h), n_of_dec p)
    | _ -> failwith "dest"
let reaction_of_string (s : string) : packet option =
  if s = "none" then None else
  match split_on ';' s with
  | [ d; i; id; fl; q; an; ar ] ->
    Some { p_dest = dest_of_string (after "dest=" d); p_if = n_of_dec (after "if=" i);
           p_id = n_of_dec (after "id=" id); p_flags = n_of_dec (after "flags=" fl);
           p_questions = nlist (after "q=" q) (fun x -> match split_on '.' x with
               | [ n; t ] -> (bytes_of_hex n, n_of_dec t) | _ -> failwith "q");
           p_answers = nlist (after "an=" an) rr_of_string;
           p_additionals = nlist (after "ar=" ar) rr_of_string }
  | _ -> failwith ("bad reaction " ^ s)

(* ---- C06 cases: "c06 Q <if> <nc> <svcs> <src> <hex> Q ..." -------------------------------- *)
type c06_query = { cq_intf : myintf; cq_nc : (bytes * bytes) list; cq_entries : entry list;
                   cq_src : ip; cq_port : n; cq_data : bytes }

let rec c06_queries (t : string list) : c06_query list =
  match t with
  | [] -> []
  | "Q" :: i :: nc :: svcs :: src :: hex :: rest ->
    let port = match split_on '.' src with [ _; _; p ] -> n_of_dec p | _ -> failwith "src" in
    { cq_intf = myintf_of_string i; cq_nc = nc_of_string nc; cq_entries = entries_of_string svcs;
      cq_src = ip_of_string src; cq_port = port; cq_data = bytes_of_hex hex } :: c06_queries rest
  | _ -> failwith "bad c06 case"

let c06_react (q : c06_query) : packet option =
  handle_datagram q.cq_entries q.cq_nc q.cq_intf q.cq_src q.cq_port q.cq_data

(* ---- C18 cases: "c18 t0 <os> S <t> <os|-> <dgrams|-> <calls|-> S ..." ---------------------------
   os      : iface;iface    iface = idx/namehex/4.hex.maskhex
   dgrams  : dgram;dgram    dgram = idx/4.srchex.port/datahex
   calls   : call^call      call  = en@kind,kind | dis@kind,kind | reg@<service token>@<0|1> | unreg@keyhex
                                    | ipint@secs | browse@tyhex
   kind    : All | IPv4 | IPv6 | LoopbackV4 | LoopbackV6 | Name~hex | Addr~4.hex | IndexV4~n | IndexV6~n *)
let iface_of_string (s : string) : iface =
  match split_on '/' s with
  | [ idx; name; addr ] -> { i_name = bytes_of_hex name; i_index = n_of_dec idx; i_addr = ifaddr_of_string addr }
  | _ -> failwith ("bad iface " ^ s)
let ifaces_of_string (s : string) : iface list = if s = "-" then [] else List.map iface_of_string (split_on ';' s)
let kind_of_string (s : string) : ifkind =
  match split_on '~' s with
  | [ "All" ] -> KAll | [ "IPv4" ] -> KIPv4 | [ "IPv6" ] -> KIPv6
  | [ "LoopbackV4" ] -> KLoopbackV4 | [ "LoopbackV6" ] -> KLoopbackV6
  | [ "Name"; h ] -> KName (bytes_of_hex h)
  | [ "Addr"; a ] -> KAddr (ip_of_string a)
  | [ "IndexV4"; n ] -> KIndexV4 (n_of_dec n)
  | [ "IndexV6"; n ] -> KIndexV6 (n_of_dec n)
  | _ -> failwith ("bad kind " ^ s)
let call_of_string (s : string) : call =
  match split_on '@' s with
  | [ "en"; ks ] -> CEnable (nlist ks kind_of_string)
  | [ "dis"; ks ] -> CDisable (nlist ks kind_of_string)
  | [ "reg"; svc; auto ] -> CRegister ((entry_of_string svc).e_svc, auto = "1")
  | [ "unreg"; k ] -> CUnregister (bytes_of_hex k)
  | [ "ipint"; n ] -> CSetInterval (n_of_dec n)
  | [ "browse"; t ] -> CBrowse (bytes_of_hex t)
  | _ -> failwith ("bad call " ^ s)
let dgram_of_string (s : string) : dgram =
  match split_on '/' s with
  | [ idx; src; data ] ->
    let port = match split_on '.' src with [ _; _; p ] -> n_of_dec p | _ -> failwith "src" in
    { dg_if = n_of_dec idx; dg_src = ip_of_string src; dg_port = port; dg_data = bytes_of_hex data }
  | _ -> failwith ("bad dgram " ^ s)
(* goodbye packets of the implementation with the interface they really left on:
   "<if|?>~<dest>~<answer section>" joined by ';' *)
let goodbye_of_string (s : string) : packet =
  match split_on '~' s with
  | [ i; d; an ] ->
    { p_dest = dest_of_string d; p_if = (if i = "?" then N0 else n_of_dec i); p_id = N0; p_flags = n_of_int 33792;
      p_questions = []; p_answers = nlist an rr_of_string; p_additionals = [] }
  | _ -> failwith ("bad goodbye " ^ s)
let rec c18_steps_gb (t : string list) : (step * packet list) list =
  match t with
  | [] -> []
  | "S" :: now :: os :: dgs :: calls :: gb :: rest ->
    ({ st_now = n_of_dec now; st_os = (if os = "-" then None else Some (ifaces_of_string (if os = "none" then "-" else os)));
       st_dgrams = (if dgs = "-" then [] else List.map dgram_of_string (split_on ';' dgs));
       st_calls = (if calls = "-" then [] else List.map call_of_string (split_on '^' calls)) },
     (if gb = "-" then [] else List.map goodbye_of_string (split_on ';' gb))) :: c18_steps_gb rest
  | _ -> failwith "bad c18 case"
let c18_steps (t : string list) : step list = List.map fst (c18_steps_gb t)

let int_of_nn = int_of_n
let string_of_obs_sets (l : obs list) : string =
  let ev = ref [] and tx = ref [] and br = ref [] in
  List.iter (fun o -> match o with
    | OSent p -> tx := string_of_packet18 p :: !tx
    | OIpAdd a -> ev := ("add." ^ string_of_ip a) :: !ev
    | OIpDel a -> ev := ("del." ^ string_of_ip a) :: !ev
    | OFound (ty, i) -> br := ("found/" ^ hex_of_bytes ty ^ "/" ^ hex_of_bytes i) :: !br
    | ORemoved (ty, i) -> br := ("removed/" ^ hex_of_bytes ty ^ "/" ^ hex_of_bytes i) :: !br
    | OResolved (ty, i, host, port, addrs) ->
      (* ScopedIp: an IPv4 address carries the set of interfaces it was learned on, an IPv6 address
         one interface *)
      let v4 = List.filter (fun (a, _) -> match a with V4 _ -> true | _ -> false) addrs in
      let v6 = List.filter (fun (a, _) -> match a with V6 _ -> true | _ -> false) addrs in
      let v4ips = List.sort_uniq compare (List.map (fun (a, _) -> string_of_ip a) v4) in
      let v4toks = List.map (fun ipstr ->
          let ids = List.sort_uniq compare (List.filter_map (fun (a, i) -> if string_of_ip a = ipstr then Some (int_of_nn i) else None) v4) in
          ipstr ^ "@" ^ String.concat "+" (List.map string_of_int ids)) v4ips in
      let v6toks = List.sort_uniq compare (List.map (fun (a, i) -> string_of_ip a ^ "@" ^ string_of_int (int_of_nn i)) v6) in
      br := ("resolved/" ^ hex_of_bytes ty ^ "/" ^ hex_of_bytes i ^ "/" ^ hex_of_bytes host ^ "/" ^ dec_n port ^ "/"
             ^ String.concat "_" (List.sort compare (v4toks @ v6toks))) :: !br) l;
  (* per instance only the last resolved / removed event of the iteration is kept (see c18.py) *)
  let chrono = List.rev !br in
  let key t = match split_on '/' t with k :: ty :: inst :: _ -> (k, ty ^ "/" ^ inst) | _ -> ("", t) in
  let rec keep = function
    | [] -> []
    | t :: rest ->
      let (k, id) = key t in
      if k <> "found" && List.exists (fun u -> let (k', id') = key u in k' <> "found" && id' = id) rest
      then keep rest else t :: keep rest in
  let j sep l = if l = [] then "-" else String.concat sep (List.sort compare l) in
  (* an address with several IpAdd / IpDel events in one iteration: their order ("seq.<ip>.<a|d>*") *)
  let seqs = ref [] in
  List.iter (fun o ->
      let note a c = let k = string_of_ip a in
        seqs := (if List.mem_assoc k !seqs then List.map (fun (k', v) -> if k' = k then (k', v ^ c) else (k', v)) !seqs
                 else !seqs @ [ (k, c) ]) in
      match o with OIpAdd a -> note a "a" | OIpDel a -> note a "d" | _ -> ()) l;
  List.iter (fun (k, v) -> if String.length v >= 2 then ev := ("seq." ^ k ^ "." ^ v) :: !ev) !seqs;
  Printf.sprintf "ev=%s tx=%s br=%s" (j "," !ev) (j "&" !tx) (j "," (keep chrono))

let c18_run (rest : string list) : obs list list =
  match rest with
  | t0 :: os :: steps -> run (initial_state (n_of_dec t0) (ifaces_of_string os)) (c18_steps steps)
  | _ -> failwith "bad c18 case"

let run_case (line : string) : string =
  (* "na": model-free family of C06 (names with non-ASCII cased letters asked in the registered
     spelling; tools/props/c06.py computes the expectation): the expected observation is a constant *)
  if line = "na" then "NA ok" else
  match split_on ' ' line with
  | "c06" :: rest ->
    let rs = List.map (fun q -> string_of_reaction (c06_react q)) (c06_queries rest) in
    Printf.sprintf "answered=%d/%d %s" (List.length (List.filter (fun r -> r <> "none") rs)) (List.length rs)
      (String.concat " | " rs)
  | "c18" :: rest ->
    let its = List.map string_of_obs_sets (c18_run rest) in
    Printf.sprintf "iterations=%d %s" (List.length its) (String.concat " | " its)
  | _ -> "BADCASE"

(* ---- monitors ----------------------------------------------------------------------------- *)

let quirk_names = [ "sub_answer"; "family" ]
let quirks_of_bits (b : int) : quirks = { k_sub_answer = b land 1 <> 0; k_family = b land 2 <> 0 }
let popcount b = let rec go b acc = if b = 0 then acc else go (b lsr 1) (acc + (b land 1)) in go b 0
let names_of_bits b =
  String.concat "+" (List.filteri (fun i _ -> b land (1 lsl i) <> 0) quirk_names)

(* the input of handle_query for a datagram, None when the datagram never reaches handle_query *)
let c06_input (q : c06_query) : hq_input option =
  if not (family_enabled q.cq_intf (match q.cq_src with V4 _ -> true | V6 _ -> false)) then None
  else match decode q.cq_data with
    | Ok m when N.eqb (N.coq_land m.m_flags (n_of_int 32768)) N0 ->
      Some { h_services = q.cq_entries; h_name_changes = q.cq_nc; h_intf = q.cq_intf; h_msg = m;
             h_src_ip = q.cq_src; h_src_port = q.cq_port }
    | _ -> None

(* verdict for one query: "" = as the text says; otherwise the smallest set of listed
   deviations that explains the observation, or "unexplained" *)
let c06_verdict (q : c06_query) (obs : packet option) : string =
  match c06_input q with
  | None -> if obs = None then "" else "unexplained(answer to a datagram that must be dropped)"
  | Some inp ->
    if chk_C06 inp obs then ""
    else begin
      let cands = List.sort (fun a b -> compare (popcount a, a) (popcount b, b)) (List.init 3 (fun i -> i + 1)) in
      match List.find_opt (fun b -> explained_by (quirks_of_bits b) inp obs) cands with
      | Some b -> "quirks=" ^ names_of_bits b
      | None -> "unexplained"
    end

let run_monitor (id : string) (case : string list) (result : string) : string =
  if case = [ "na" ] then
    (if result = "NA ok" then "PASS"
     else if id = "C18" then
       "FAIL an instance whose host lost address records with a removed interface is not reported again with exactly what is left: " ^ result
     else "FAIL a question in exactly the registered spelling is not answered with the right records: " ^ result) else
  match id, case with
  | "C06", "c06" :: rest ->
    let qs = c06_queries rest in
    let result = (match String.index_opt result ' ' with Some i -> String.sub result (i + 1) (String.length result - i - 1) | None -> "") in
    let obs = if result = "" then [] else List.map String.trim (split_str " | " result) in
    if List.length obs <> List.length qs then "FAIL wrong number of reactions" else
    let verdicts = List.mapi (fun i (q, o) ->
        let v = (try c06_verdict q (reaction_of_string o) with Failure m -> "unexplained(" ^ m ^ ")") in
        if v = "" then "" else Printf.sprintf "q%d:%s" i v) (List.combine qs obs) in
    let bad = List.filter (fun v -> v <> "") verdicts in
    if bad = [] then "PASS" else "FAIL " ^ String.concat " " bad
  | "C18", "c18" :: t0 :: os :: rest ->
    let os0 = ifaces_of_string os in
    let steps = c18_steps_gb rest in
    let result = (match String.index_opt result ' ' with Some i -> String.sub result (i + 1) (String.length result - i - 1) | None -> "") in
    let its = List.map String.trim (split_str " | " result) in
    let its = List.filter (fun s -> starts_with s "ev=") its in
    if List.length its <> List.length steps then "FAIL wrong number of iterations" else
    let parse_it (s : string) (gb : packet list) : obs list =
      match split_on ' ' s with
      | [ ev; tx; br ] ->
        let toks = nlist (after "ev=" ev) (fun e -> e) in
        (* "seq.<ip>.<letters>": the order of the events about one address; the other addresses have one event *)
        let seqs = List.filter_map (fun e ->
            if starts_with e "seq." then
              let body = String.sub e 4 (String.length e - 4) in
              let i = String.rindex body '.' in
              Some (String.sub body 0 i, String.sub body (i + 1) (String.length body - i - 1))
            else None) toks in
        let single = List.filter_map (fun e ->
            if starts_with e "seq." then None
            else
              let ipstr = String.sub e 4 (String.length e - 4) in
              if List.mem_assoc ipstr seqs then None
              else Some (if starts_with e "add." then OIpAdd (ip_of_string ipstr) else OIpDel (ip_of_string ipstr))) toks in
        let ordered = List.concat_map (fun (ipstr, letters) ->
            List.init (String.length letters) (fun i ->
                if letters.[i] = 'a' then OIpAdd (ip_of_string ipstr) else OIpDel (ip_of_string ipstr))) seqs in
        let evs = single @ ordered in
        (* "resolved/ty/inst/host/port/ip@id+id_ip@id": the addresses reported with the interfaces they were learned on *)
        let res = List.filter_map (fun t ->
            match split_on '/' t with
            | [ "resolved"; ty; inst; host; port; addrs ] ->
              let al = List.concat_map (fun a ->
                  match split_on '@' a with
                  | [ ipstr; ids ] -> List.map (fun i -> (ip_of_string ipstr, n_of_dec i)) (split_on '+' ids)
                  | _ -> []) (if addrs = "" then [] else split_on '_' addrs) in
              Some (OResolved (bytes_of_hex ty, bytes_of_hex inst, bytes_of_hex host, n_of_dec port, al))
            | _ -> None) (nlist (after "br=" br) (fun e -> e)) in
        let txs = if after "tx=" tx = "-" then [] else split_on '&' (after "tx=" tx) in
        let pks = List.filter_map (fun t ->
            if find_sub t ";if=*;" >= 0 then None
            else
              let t' = (let i = find_sub t ";if=?;" in
                        if i < 0 then t else String.sub t 0 i ^ ";if=0;" ^ String.sub t (i + 6) (String.length t - i - 6)) in
              match reaction_of_string t' with Some p -> Some (OSent p) | None -> None) txs in
        evs @ pks @ List.map (fun p -> OSent p) gb @ res
      | _ -> failwith "bad iteration" in
    let hist = List.map2 (fun (st, gb) s -> (st, parse_it s gb)) steps its in
    ignore t0;
    if chk_C18 os0 hist then "PASS"
    else begin
      (* locate what fails and classify it *)
      let seen = ref os0 and cur = ref os0 and sels = ref [] and bad = ref [] in
      let pushed_os : iface list list ref = ref [] in      (* OS table at the push of each selection *)
      let rec last_matching (sl : selection list) (oss : iface list list) (e : iface) =
        (* the last selection matching e and the OS table at its push *)
        match sl, oss with
        | s :: sl', o :: oss' ->
          (match last_matching sl' oss' e with
           | Some r -> Some r
           | None -> if kind_matches (fst s) e then Some (s, o) else None)
        | _, _ -> None in
      let mem_iface e l = List.exists (fun x -> x = e) l in
      List.iteri (fun k (st, os) ->
          (match st.st_os with Some t -> cur := t | None -> ());
          seen := add_seen !seen !cur;
          let states = sel_states !sels !cur st.st_calls in
          let final = List.nth states (List.length states - 1) in
          let npush = List.length final - List.length !sels in
          pushed_os := !pushed_os @ List.init npush (fun _ -> !cur);
          List.iter (fun o ->
              if not (obs_ok !seen !cur states o) then
                bad := (k, (match o with
                    | OSent p ->
                      (* (1) the packet's interface is unselected now, but an entry of it (which the daemon may
                             still hold) was absent from the OS table when the selection that unselects it was made *)
                      let v4 = (match p.p_dest with DMulticast b -> b | DUnicast (a, _) -> (match a with V4 _ -> true | _ -> false)) in
                      let cands = List.filter (fun e -> e.i_index = p.p_if
                                                        && (match e.i_addr.ia_ip with V4 _ -> v4 | V6 _ -> not v4)) !seen in
                      let addr_fine = List.for_all (fun r -> match r.r_data with
                          | RAddr oct -> List.exists (fun e -> e.i_index = p.p_if
                                                              && valid_ip_on_intf (if List.length oct = 4 then V4 (n_of_octets oct) else V6 (n_of_octets oct)) e.i_addr) !seen
                          | _ -> true) (p.p_answers @ p.p_additionals) in
                      let excused = addr_fine && List.exists (fun e ->
                          match last_matching final !pushed_os e with
                          | Some ((_, false), o) -> not (mem_iface e o)
                          | _ -> false) cands in
                      (if excused then "selection-while-absent-" else "packet-")
                      ^ string_of_dest p.p_dest ^ "-if" ^ dec_n p.p_if
                    | OIpAdd a -> "ipadd-" ^ string_of_ip a
                    | OIpDel a -> "ipdel-" ^ string_of_ip a
                    | OResolved (_, inst, _, _, addrs) ->
                      (* an address learned on an interface all of whose entries are disabled: the same excuse
                         as for packets when the daemon still holds an entry it was told to drop while absent *)
                      let deadl = List.filter (fun (_, idx) -> not (intf_live !seen !cur states idx)) addrs in
                      let excused = List.for_all (fun (_, idx) ->
                          List.exists (fun e -> e.i_index = idx &&
                                                (match last_matching final !pushed_os e with
                                                 | Some ((_, false), o) -> not (mem_iface e o)
                                                 | _ -> false)) !seen) deadl in
                      (if excused then "selection-while-absent-" else "")
                      ^ "resolved-" ^ hex_of_bytes inst ^ "-reports-"
                      ^ String.concat "+" (List.map (fun (a, idx) -> string_of_ip a ^ "@if" ^ dec_n idx) deadl)
                    | _ -> "other")) :: !bad) os;
          if not (order_ok !cur st.st_calls os) then
            bad := (k, "ipdel-after-ipadd-of-an-address-the-host-has") :: !bad;
          (* the last word about an address is IpDel although the OS table has it on an enabled entry *)
          List.iter (fun a -> bad := (k, "del-of-held-address-" ^ string_of_ip a) :: !bad)
            (List.sort_uniq compare (List.filter_map (fun o -> match o with
                 | OIpDel a when del_of_held !cur states os a -> Some a | _ -> None) os));
          sels := final) hist;
      let bad = List.rev !bad in
      let cls w = if starts_with w "selection-while-absent-" then "selection-while-absent" else "" in
      let classes = List.sort_uniq compare (List.map (fun (_, w) -> cls w) bad) in
      (if List.mem "" classes then "FAIL " else "FAIL known=" ^ String.concat "+" classes ^ " ")
      ^ String.concat " " (List.map (fun (k, w) -> Printf.sprintf "it%d:%s" k w) bad)
    end
  | _ -> "BAD unknown monitor"

let () = main_loop run_case run_monitor
