(* Extraction of the executable model of group `responder` (C06, C18).
   ExtrOcamlBasic only; N, positive, nat stay the extracted inductives. No Extract Constant. *)
Require Extraction.
Require Import ExtrOcamlBasic.
From Coq Require Import NArith List.
From Mdns Require Import Res Bytes Utf8 Txt Rec Wire Intf IntfCache Responder ResponderSpec IntfDaemon C18Spec.
Extraction Language OCaml.
Extraction "model.ml"
  Txt.encode_txt Bytes.lower Wire.decode
  Intf.valid_ip_on_intf Intf.kind_matches Intf.resolve_addr_to_index Intf.selected_intfs Intf.last_match
  Intf.push_selections
  Responder.handle_query Responder.handle_datagram Responder.n_of_octets Responder.ip_octets
  Responder.family_enabled
  ResponderSpec.spec ResponderSpec.chk_C06 ResponderSpec.explained_by ResponderSpec.text_quirks
  ResponderSpec.code_quirks ResponderSpec.wf_input ResponderSpec.clean ResponderSpec.opt_packet_eqb
  IntfDaemon.initial_state IntfDaemon.iterate IntfDaemon.run
  C18Spec.chk_C18 C18Spec.obs_ok C18Spec.packet_ok C18Spec.addrs_ok C18Spec.sel_states C18Spec.add_seen C18Spec.model_history C18Spec.intf_live C18Spec.order_ok C18Spec.last_word_ok C18Spec.del_of_held
  N.eqb N.add N.mul N.land N.div N.modulo.
