(* Extraction of the scheduling model and its monitors (group sched: C19, C13, C12).
   ExtrOcamlBasic only; N, positive, nat stay the extracted inductives. No Extract Constant. *)
Require Extraction.
Require Import ExtrOcamlBasic.
From Coq Require Import NArith List.
From Mdns Require Import Res Bytes Sched SchedSpec.
Extraction Language OCaml.
Extraction "model.ml"
  Res.bind Sched.model_run Sched.wf_cmd
  SchedSpec.wf_hist SchedSpec.chk_C19 SchedSpec.chk_C13 SchedSpec.chk_C12
  List.length N.eqb N.add N.mul N.div N.modulo.
