(* Model-side driver of group sched (C19, C13, C12): evaluates the extracted scheduling model
   on a history and hosts the monitors chk_C19 / chk_C13 / chk_C12.

   Case line (produced by tools/props/c19.py model_input from the JSON history and the
   iteration times of the implementation's trace):
     sched <t0> <it;it;...|->        it  = <now>|<cmd,cmd,...|->
     cmd = B:<tyhex>:<ch> | C:<tyhex>:<ch> | SB:<tyhex> | R:<hosthex>:<timeout|~>:<ch>
         | SR:<hosthex> | IP:<secs> | X
   Observation line (model output and projected implementation trace):
     rec;rec;...      rec = <now>/<wake|->/<exited 0|1>/<pkts|->/<events|->
     pkts   = pkt+pkt+...     pkt = q&q&...   q = <namehex>:<qtype>
     events = ev,ev,...       ev  = <ch>:S:<namehex> | <ch>:P:<namehex> | <ch>:T:<namehex> | <ch>:X
              (S = SearchStarted, P = SearchStopped, T = SearchTimeout, X = channel closed;
               grouped by channel, ascending channel number, emission order inside a channel)
   The first record is the daemon's first arrival at the gate (before any iteration). *)
open Model
open Drvlib

let split_on c s = String.split_on_char c s

(* ---- parsing the history ---- *)
let parse_cmd (s : string) : cmd =
  match split_on ':' s with
  | [ "B"; ty; ch ] -> CStart (false, bytes_of_hex ty, false, None, n_of_dec ch)
  | [ "C"; ty; ch ] -> CStart (false, bytes_of_hex ty, true, None, n_of_dec ch)
  | [ "SB"; ty ] -> CStop (false, bytes_of_hex ty)
  | [ "R"; h; t; ch ] -> CStart (true, bytes_of_hex h, false, (if t = "~" then None else Some (n_of_dec t)), n_of_dec ch)
  | [ "SR"; h ] -> CStop (true, bytes_of_hex h)
  | [ "IP"; secs ] -> CSetIp (n_of_dec secs)
  | [ "X" ] -> CShutdown
  | _ -> failwith ("cmd " ^ s)

let parse_iter (s : string) : iter =
  match split_on '|' s with
  | [ now; cmds ] ->
    { i_now = n_of_dec now; i_cmds = (if cmds = "-" then [] else List.map parse_cmd (split_on ',' cmds)) }
  | _ -> failwith "iter"

let parse_history (t : string list) : n * iter list =
  match t with
  | [ "sched"; t0; its ] -> (n_of_dec t0, if its = "-" then [] else List.map parse_iter (split_on ';' its))
  | _ -> failwith "history"

(* ---- printing / parsing observations ---- *)
let string_of_q (nm, ty) = hex_of_bytes nm ^ ":" ^ dec_of_n ty
let string_of_pkt p = String.concat "&" (List.map string_of_q p)
let string_of_ev (ch, e) =
  dec_of_n ch ^ (match e with
      | EStarted n -> ":S:" ^ hex_of_bytes n
      | EStopped n -> ":P:" ^ hex_of_bytes n
      | ETimeout n -> ":T:" ^ hex_of_bytes n
      | EClosed -> ":X")
let by_channel (evs : (n * event) list) : (n * event) list =
  List.stable_sort (fun (a, _) (b, _) -> compare (int_of_n a) (int_of_n b)) evs
let string_of_out (o : out) : string =
  Printf.sprintf "%s/%s/%s/%s/%s" (dec_of_n o.o_now)
    (match o.o_wake with None -> "-" | Some w -> dec_of_n w)
    (if o.o_exited then "1" else "0")
    (if o.o_sent = [] then "-" else String.concat "+" (List.map string_of_pkt o.o_sent))
    (if o.o_events = [] then "-" else String.concat "," (List.map string_of_ev (by_channel o.o_events)))
let string_of_trace (tr : out list) : string = String.concat ";" (List.map string_of_out tr)

let parse_q s = match split_on ':' s with [ n; t ] -> (bytes_of_hex n, n_of_dec t) | _ -> failwith "q"
let parse_ev s =
  match split_on ':' s with
  | [ ch; "S"; n ] -> (n_of_dec ch, EStarted (bytes_of_hex n))
  | [ ch; "P"; n ] -> (n_of_dec ch, EStopped (bytes_of_hex n))
  | [ ch; "T"; n ] -> (n_of_dec ch, ETimeout (bytes_of_hex n))
  | [ ch; "X" ] -> (n_of_dec ch, EClosed)
  | _ -> failwith "ev"
let parse_out (s : string) : out =
  match split_on '/' s with
  | [ now; wake; ex; pk; ev ] ->
    { o_now = n_of_dec now; o_wake = (if wake = "-" then None else Some (n_of_dec wake)); o_exited = (ex = "1");
      o_sent = (if pk = "-" then [] else List.map (fun p -> List.map parse_q (split_on '&' p)) (split_on '+' pk));
      o_events = (if ev = "-" then [] else List.map parse_ev (split_on ',' ev)) }
  | _ -> failwith "out"
let parse_trace (s : string) : out list = List.map parse_out (split_on ';' s)

let run_case (line : string) : string =
  (* "wd": exact-vs-dense comparison case of C12 (model-free; tools/props/wakediff.py): the
     expected observation is that the exact daemon never acts later than the dense one *)
  if line = "wd" then "WD ok" else
  if line = "sf" then "SF ok" else
  (* "mf": further model-free families (tools/props/mfree.py); the projection says "MF ok" or
     what it saw instead *)
  if line = "mf" then "MF ok" else
  let t0, h = parse_history (split_on ' ' line) in
  string_of_trace (model_run t0 h)

(* ---- monitors: the extracted checkers, i.e. the conclusions of the theorems in
        Props/C19.v, C13.v, C12.v, applied to what the implementation did (the theorems hold
        for every well-formed history; others are outside the quantifier). *)
let run_monitor (id : string) (case : string list) (result : string) : string =
  if case = [ "sf" ] then
    (if result = "SF ok" then "PASS"
     else "FAIL a stopped browse left cached records or kept querying: " ^ result) else
  if case = [ "mf" ] then
    (if result = "MF ok" then "PASS"
     else "FAIL model-free family: " ^ result) else
  if case = [ "wd" ] then
    (if result = "WD ok" then "PASS"
     else "FAIL time-driven work without a timer, or spinning: " ^ result) else
  let t0, h = parse_history case in
  if not (wf_hist t0 h) then "PASS outside-quantifier"
  else begin
    let tr = parse_trace result in
    let verdict ok why = if ok then "PASS" else "FAIL " ^ why in
    match id with
    | "C19" -> verdict (chk_C19 t0 h tr) "query times do not follow the back-off schedule"
    | "C13" -> verdict (chk_C13 t0 h tr) "channel protocol / silence after stop broken"
    | "C12" -> if chk_C12 t0 h tr then "PASS" else "FAIL requested wake-up misses due work or does not move forward"
    | _ -> "BADCASE"
  end

let () = main_loop run_case run_monitor
