(* Extraction of the executable models and monitors of group `hostres` (C17, C20).
   ExtrOcamlBasic only; N, positive, nat stay the extracted inductives. No Extract Constant. *)
Require Extraction.
Require Import ExtrOcamlBasic.
From Coq Require Import NArith.
From Mdns Require Import Res Bytes ParamsHostres HostresBase HostresModel HostresSpec BoundedModel BoundedSpec.
(* unique names for the C20 model's entry points (both models define `run`, `step`, ...) *)
Definition b20_run := BoundedModel.run.
Definition b20_chk := BoundedSpec.chk_C20.
Definition b20_chk_cache := BoundedSpec.chk_cache.
Definition b20_chk_sub := BoundedSpec.chk_sub.
Definition b20_chk_timers := BoundedSpec.chk_timers.
Definition b20_predicted := BoundedSpec.predicted.
Definition b20_times_ok := BoundedSpec.btimes_ok.
Definition b20_excess (t0 : N) (h : list BoundedModel.biter) : N :=
  BoundedModel.b_excess (BoundedModel.state_after BoundedModel.PCode (BoundedModel.b_init t0) h).
Extraction Language OCaml.
Extraction "model.ml"
  HostresModel.run HostresModel.observe HostresModel.step HostresModel.st0 HostresModel.due_times HostresModel.canon_out
  HostresSpec.chk_C17 HostresSpec.sp_run HostresSpec.late HostresSpec.wf_hist HostresSpec.wakes_ok HostresSpec.out_match
  b20_run b20_chk b20_chk_cache b20_chk_sub b20_chk_timers b20_predicted b20_times_ok b20_excess
  Res.is_ok
  N.eqb N.add N.mul N.land N.div N.modulo N.leb N.ltb.
