(* Extraction of the executable models and monitors of group `hostres` (C17, C20).
   ExtrOcamlBasic only; N, positive, nat stay the extracted inductives. No Extract Constant. *)
Require Extraction.
Require Import ExtrOcamlBasic.
From Coq Require Import NArith.
From Mdns Require Import Res Bytes ParamsHostres HostresBase HostresModel HostresSpec.
Extraction Language OCaml.
Extraction "model.ml"
  HostresModel.run HostresModel.observe HostresModel.step HostresModel.st0 HostresModel.due_times HostresModel.canon_out
  HostresSpec.chk_C17 HostresSpec.sp_run HostresSpec.late HostresSpec.wf_hist HostresSpec.wakes_ok HostresSpec.out_match
  Res.is_ok
  N.eqb N.add N.mul N.land N.div N.modulo N.leb N.ltb.
