(* Model-side driver of group `hostres` (C17, C20): evaluates the extracted Coq models on the
   case lines derived from simulated-daemon histories and hosts the monitors. *)
open Model
open Drvlib

let split_on c s = String.split_on_char c s
let items c s = if s = "-" || s = "" then [] else split_on c s

(* ---------------------------------------------------------------- C17 input *)
let parse_call17 (s : string) : call =
  match split_on ':' s with
  | [ "R"; h; t; ch ] -> CResolve (bytes_of_hex h, (if t = "~" then None else Some (n_of_dec t)), n_of_dec ch)
  | [ "S"; h ] -> CStop (bytes_of_hex h)
  | _ -> failwith "call"

let parse_inrec (s : string) : inrec =
  match split_on '.' s with
  | [ sec; ty; nm; cls; fl; ttl; data ] ->
    { i_ans = (sec = "a"); i_ty = n_of_dec ty; i_name = bytes_of_hex nm; i_class = n_of_dec cls;
      i_flush = (fl = "1"); i_ttl = n_of_dec ttl; i_data = bytes_of_hex data }
  | _ -> failwith "inrec"

let parse_msg (s : string) : msg =
  match String.index_opt s ':' with
  | None -> failwith "msg"
  | Some i ->
    let ifx = String.sub s 0 i and rest = String.sub s (i + 1) (String.length s - i - 1) in
    { m_if = n_of_dec ifx; m_recs = List.map parse_inrec (items '/' rest) }

(* iteration: now;wake;calls;msgs  -> (iter, wake) *)
let parse_iter17 (s : string) : iter * n option =
  match split_on ';' s with
  | [ now; wake; calls; msgs ] ->
    ({ it_now = n_of_dec now; it_calls = List.map parse_call17 (items ',' calls);
       it_msgs = List.map parse_msg (items ',' msgs) },
     (if wake = "-" then None else Some (n_of_dec wake)))
  | _ -> failwith "iter"

let parse_hist17 (s : string) : (iter * n option) list = List.map parse_iter17 (items '|' s)

(* ---------------------------------------------------------------- C17 output *)
let string_of_saddrs (l : (n list * n) list) : string =
  if l = [] then "~" else String.concat "+" (List.map (fun (a, i) -> hex_of_bytes a ^ "@" ^ dec_of_n i) l)

let string_of_ev ((c, e) : n * ev) : string =
  let c = dec_of_n c in
  match e with
  | EStarted h -> c ^ ":St:" ^ hex_of_bytes h
  | EFound (h, a) -> c ^ ":F:" ^ hex_of_bytes h ^ ":" ^ string_of_saddrs a
  | ERemoved (h, a) -> c ^ ":Rm:" ^ hex_of_bytes h ^ ":" ^ string_of_saddrs a
  | ETimeout h -> c ^ ":To:" ^ hex_of_bytes h
  | EStopped h -> c ^ ":Sp:" ^ hex_of_bytes h
  | EClosed -> c ^ ":Cl"

let string_of_query (q : (n list * n) list) : string =
  String.concat "/" (List.map (fun (nm, t) -> hex_of_bytes nm ^ "." ^ dec_of_n t) q)

let string_of_out (o : out) : string =
  dec_of_n o.o_now ^ ";"
  ^ (if o.o_events = [] then "-" else String.concat "," (List.map string_of_ev o.o_events)) ^ ";"
  ^ (if o.o_queries = [] then "-" else String.concat "," (List.map string_of_query o.o_queries))

let string_of_obs (l : out list) : string =
  "OBS " ^ (if l = [] then "-" else String.concat "|" (List.map string_of_out l))

(* ---------------------------------------------------------------- C17 observation parser *)
let parse_saddrs (s : string) : (n list * n) list =
  if s = "~" then [] else
  List.map (fun a -> match split_on '@' a with
      | [ h; i ] -> (bytes_of_hex h, n_of_dec i)
      | _ -> failwith "saddr") (split_on '+' s)

let parse_ev (s : string) : n * ev =
  match split_on ':' s with
  | [ c; "Cl" ] -> (n_of_dec c, EClosed)
  | [ c; "St"; h ] -> (n_of_dec c, EStarted (bytes_of_hex h))
  | [ c; "To"; h ] -> (n_of_dec c, ETimeout (bytes_of_hex h))
  | [ c; "Sp"; h ] -> (n_of_dec c, EStopped (bytes_of_hex h))
  | [ c; "F"; h; a ] -> (n_of_dec c, EFound (bytes_of_hex h, parse_saddrs a))
  | [ c; "Rm"; h; a ] -> (n_of_dec c, ERemoved (bytes_of_hex h, parse_saddrs a))
  | _ -> failwith "event"

let parse_query (s : string) : (n list * n) list =
  List.map (fun q -> match split_on '.' q with
      | [ nm; t ] -> (bytes_of_hex nm, n_of_dec t)
      | _ -> failwith "question") (split_on '/' s)

let parse_out (s : string) : out =
  match split_on ';' s with
  | [ now; evs; qs ] ->
    { o_now = n_of_dec now; o_events = List.map parse_ev (items ',' evs);
      o_queries = List.map parse_query (items ',' qs) }
  | _ -> failwith "out"

let parse_obs (s : string) : out list =
  if starts_with s "OBS " then List.map parse_out (items '|' (String.sub s 4 (String.length s - 4)))
  else failwith "obs"

(* ---------------------------------------------------------------- cases *)
let run_case (line : string) : string =
  match split_on ' ' line with
  | [ "hr17"; h ] -> string_of_obs (observe (run (List.map fst (parse_hist17 h))))
  | _ -> "BADCASE"

(* C17: chk_C17 (extracted) on the implementation's trace; the wake-up requests against the
   model's due times; a rejection is attributed to the known class only if the history is in
   the class (`late`) and the trace is exactly what the model of the code predicts *)
let first_diff (exp : out list) (obs : out list) : string =
  let rec go k e o = match e, o with
    | [], [] -> "none"
    | x :: e', y :: o' ->
      if out_match x y then go (k + 1) e' o'
      else Printf.sprintf "iteration %d: expected %s observed %s" k (string_of_out (canon_out x)) (string_of_out y)
    | _ -> Printf.sprintf "length differs at %d" k in
  go 0 exp obs

let mon_c17 (case : string list) (result : string) : string =
  match case with
  | [ "hr17"; hs ] ->
    if not (starts_with result "OBS ") then "FAIL no trace: " ^ result else
    let hw = parse_hist17 hs in
    let h = List.map fst hw in
    if not (wf_hist h) then "PASS outside-quantifier" else
    let obs = parse_obs result in
    if chk_C17 h obs then
      (if wakes_ok hw then "PASS" else "FAIL[wake] the daemon asked to be woken later than the next due time of a search")
    else if late h && result = string_of_obs (observe (run h)) then
      "FAIL[late-rerun-after-timeout] " ^ first_diff (sp_run h) obs
    else "FAIL trace is not what the property prescribes: " ^ first_diff (sp_run h) obs
  | _ -> "BADCASE"

let run_monitor (id : string) (case : string list) (result : string) : string =
  match id with
  | "C17" -> mon_c17 case result
  | _ -> "BADCASE"

let () = main_loop run_case run_monitor
