(* Model-side driver of group `hostres` (C17, C20): evaluates the extracted Coq models on the
   case lines derived from simulated-daemon histories and hosts the monitors. *)
open Model
open Drvlib

let split_on c s = String.split_on_char c s
let items c s = if s = "-" || s = "" then [] else split_on c s

(* ---------------------------------------------------------------- C17 input *)
let parse_call17 (s : string) : call =
  match split_on ':' s with
  | [ "R"; h; t; ch ] -> CResolve (bytes_of_hex h, (if t = "~" then None else Some (n_of_dec t)), n_of_dec ch)
  | [ "S"; h ] -> CStop (bytes_of_hex h)
  | _ -> failwith "call"

let parse_inrec (s : string) : inrec =
  match split_on '.' s with
  | [ sec; ty; nm; cls; fl; ttl; data ] ->
    { i_ans = (sec = "a"); i_ty = n_of_dec ty; i_name = bytes_of_hex nm; i_class = n_of_dec cls;
      i_flush = (fl = "1"); i_ttl = n_of_dec ttl; i_data = bytes_of_hex data }
  | _ -> failwith "inrec"

let parse_msg (s : string) : msg =
  match String.index_opt s ':' with
  | None -> failwith "msg"
  | Some i ->
    let ifx = String.sub s 0 i and rest = String.sub s (i + 1) (String.length s - i - 1) in
    { m_if = n_of_dec ifx; m_recs = List.map parse_inrec (items '/' rest) }

(* iteration: now;wake;calls;msgs  -> (iter, wake) *)
let parse_iter17 (s : string) : iter * n option =
  match split_on ';' s with
  | [ now; wake; calls; msgs ] ->
    ({ it_now = n_of_dec now; it_calls = List.map parse_call17 (items ',' calls);
       it_msgs = List.map parse_msg (items ',' msgs) },
     (if wake = "-" then None else Some (n_of_dec wake)))
  | _ -> failwith "iter"

let parse_hist17 (s : string) : (iter * n option) list = List.map parse_iter17 (items '|' s)

(* ---------------------------------------------------------------- C17 output *)
let string_of_saddrs (l : (n list * n) list) : string =
  if l = [] then "~" else String.concat "+" (List.map (fun (a, i) -> hex_of_bytes a ^ "@" ^ dec_of_n i) l)

let string_of_ev ((c, e) : n * ev) : string =
  let c = dec_of_n c in
  match e with
  | EStarted h -> c ^ ":St:" ^ hex_of_bytes h
  | EFound (h, a) -> c ^ ":F:" ^ hex_of_bytes h ^ ":" ^ string_of_saddrs a
  | ERemoved (h, a) -> c ^ ":Rm:" ^ hex_of_bytes h ^ ":" ^ string_of_saddrs a
  | ETimeout h -> c ^ ":To:" ^ hex_of_bytes h
  | EStopped h -> c ^ ":Sp:" ^ hex_of_bytes h
  | EClosed -> c ^ ":Cl"

let string_of_query (q : (n list * n) list) : string =
  String.concat "/" (List.map (fun (nm, t) -> hex_of_bytes nm ^ "." ^ dec_of_n t) q)

let string_of_out (o : out) : string =
  dec_of_n o.o_now ^ ";"
  ^ (if o.o_events = [] then "-" else String.concat "," (List.map string_of_ev o.o_events)) ^ ";"
  ^ (if o.o_queries = [] then "-" else String.concat "," (List.map string_of_query o.o_queries))

let string_of_obs (l : out list) : string =
  "OBS " ^ (if l = [] then "-" else String.concat "|" (List.map string_of_out l))

(* ---------------------------------------------------------------- C17 observation parser *)
let parse_saddrs (s : string) : (n list * n) list =
  if s = "~" then [] else
  List.map (fun a -> match split_on '@' a with
      | [ h; i ] -> (bytes_of_hex h, n_of_dec i)
      | _ -> failwith "saddr") (split_on '+' s)

let parse_ev (s : string) : n * ev =
  match split_on ':' s with
  | [ c; "Cl" ] -> (n_of_dec c, EClosed)
  | [ c; "St"; h ] -> (n_of_dec c, EStarted (bytes_of_hex h))
  | [ c; "To"; h ] -> (n_of_dec c, ETimeout (bytes_of_hex h))
  | [ c; "Sp"; h ] -> (n_of_dec c, EStopped (bytes_of_hex h))
  | [ c; "F"; h; a ] -> (n_of_dec c, EFound (bytes_of_hex h, parse_saddrs a))
  | [ c; "Rm"; h; a ] -> (n_of_dec c, ERemoved (bytes_of_hex h, parse_saddrs a))
  | _ -> failwith "event"

let parse_query (s : string) : (n list * n) list =
  List.map (fun q -> match split_on '.' q with
      | [ nm; t ] -> (bytes_of_hex nm, n_of_dec t)
      | _ -> failwith "question") (split_on '/' s)

let parse_out (s : string) : out =
  match split_on ';' s with
  | [ now; evs; qs ] ->
    { o_now = n_of_dec now; o_events = List.map parse_ev (items ',' evs);
      o_queries = List.map parse_query (items ',' qs) }
  | _ -> failwith "out"

let parse_obs (s : string) : out list =
  if starts_with s "OBS " then List.map parse_out (items '|' (String.sub s 4 (String.length s - 4)))
  else failwith "obs"

(* ---------------------------------------------------------------- C20 input / output *)
let parse_bcall (s : string) : bcall =
  match split_on ':' s with
  | [ "B"; ty ] -> BBrowse (bytes_of_hex ty)
  | [ "SB"; ty ] -> BStopBrowse (bytes_of_hex ty)
  | [ "R"; h; t ] -> BResolveHost (bytes_of_hex h, (if t = "~" then None else Some (n_of_dec t)))
  | [ "S"; h ] -> BStopHost (bytes_of_hex h)
  | [ "M" ] -> BMetrics
  | [ "I"; ms ] -> BSetIpInterval (n_of_dec ms)
  | _ -> failwith "bcall"

let parse_brec (s : string) : brec =
  match split_on '.' s with
  | [ sec; ty; nm; cls; fl; ttl; data; target ] ->
    { br_ans = (sec = "a"); br_ty = n_of_dec ty; br_name = bytes_of_hex nm; br_class = n_of_dec cls;
      br_flush = (fl = "1"); br_ttl = n_of_dec ttl; br_data = bytes_of_hex data; br_target = bytes_of_hex target }
  | _ -> failwith "brec"

let parse_bmsg (s : string) : bmsg =
  match String.index_opt s ':' with
  | None -> failwith "bmsg"
  | Some i ->
    let ifx = String.sub s 0 i and rest = String.sub s (i + 1) (String.length s - i - 1) in
    { bm_if = n_of_dec ifx; bm_recs = List.map parse_brec (items '/' rest) }

let parse_biter (s : string) : biter =
  match split_on ';' s with
  | [ now; calls; msgs ] ->
    { bi_now = n_of_dec now; bi_calls = List.map parse_bcall (items ',' calls);
      bi_msgs = List.map parse_bmsg (items ',' msgs) }
  | _ -> failwith "biter"

(* "t0#it|it|..." *)
let parse_hist20 (s : string) : n * biter list =
  match split_on '#' s with
  | [ t0; its ] -> (n_of_dec t0, List.map parse_biter (items '|' its))
  | _ -> failwith "hist20"

let string_of_sample (now : n) (m : sample) : string =
  Printf.sprintf "%s:%s,%s,%s,%s,%s,%s,%s" (dec_of_n now) (dec_of_n m.m_ptr) (dec_of_n m.m_srv) (dec_of_n m.m_txt)
    (dec_of_n m.m_addr) (dec_of_n m.m_nsec) (dec_of_n m.m_sub) (dec_of_n m.m_timer)

let string_of_samples (h : biter list) (outs : sample list list) : string =
  let l = List.concat (List.map2 (fun i o -> List.map (string_of_sample i.bi_now) o) h outs) in
  "MET " ^ (if l = [] then "-" else String.concat "|" l)

(* ---------------------------------------------------------------- cases *)
let run_case (line : string) : string =
  match split_on ' ' line with
  | [ "hr17"; h ] -> string_of_obs (observe (run (List.map fst (parse_hist17 h))))
  | [ "mf17" ] -> "MF ok"   (* model-free family of C17 (names with non-ASCII capitals): the projection judges *)
  | [ "hr20"; h ] ->
    let (t0, its) = parse_hist20 h in
    string_of_samples its (b20_run PCode t0 its)
  | _ -> "BADCASE"

(* C17: chk_C17 (extracted) on the implementation's trace; the wake-up requests against the
   model's due times *)
let first_diff (exp : out list) (obs : out list) : string =
  let rec go k e o = match e, o with
    | [], [] -> "none"
    | x :: e', y :: o' ->
      if out_match x y then go (k + 1) e' o'
      else Printf.sprintf "iteration %d: expected %s observed %s" k (string_of_out (canon_out x)) (string_of_out y)
    | _ -> Printf.sprintf "length differs at %d" k in
  go 0 exp obs

let mon_c17 (case : string list) (result : string) : string =
  match case with
  | [ "mf17" ] -> if result = "MF ok" then "PASS" else "FAIL model-free (non-ASCII name): " ^ result
  | [ "hr17"; hs ] ->
    if not (starts_with result "OBS ") then "FAIL no trace: " ^ result else
    let hw = parse_hist17 hs in
    let h = List.map fst hw in
    if not (wf_hist h) then "PASS outside-quantifier" else
    let obs = parse_obs result in
    if chk_C17 h obs then
      (if wakes_ok hw then "PASS" else "FAIL[wake] the daemon asked to be woken later than the next due time of a search")
    else "FAIL trace is not what the property prescribes: " ^ first_diff (sp_run h) obs
  | _ -> "BADCASE"

(* C20: chk_C20 (extracted) on the implementation's get_metrics samples.  A rejection is
   attributed to the registered classes only when the samples are exactly what the model of
   the code predicts *)
let parse_sample (s : string) : sample =
  match split_on ':' s with
  | [ _; v ] ->
    (match List.map n_of_dec (split_on ',' v) with
     | [ a; b; c; d; e; f; g ] ->
       { m_ptr = a; m_srv = b; m_txt = c; m_addr = d; m_nsec = e; m_sub = f; m_timer = g; m_sub_live = N0; m_timer_allow = N0 }
     | _ -> failwith "sample")
  | _ -> failwith "sample"

let rec split_counts (counts : int list) (l : 'a list) : 'a list list =
  match counts with
  | [] -> if l = [] then [] else failwith "more samples than get_metrics calls"
  | c :: rest ->
    let rec take k l acc = if k = 0 then (List.rev acc, l) else
        (match l with x :: t -> take (k - 1) t (x :: acc) | [] -> failwith "fewer samples than get_metrics calls") in
    let (a, b) = take c l [] in
    a :: split_counts rest b

let mon_c20 (case : string list) (result : string) : string =
  match case with
  | [ "hr20"; hs ] ->
    if not (starts_with result "MET ") then "FAIL no samples: " ^ result else
    let body = String.sub result 4 (String.length result - 4) in
    if List.exists (fun x -> not (String.contains x ',')) (items '|' body) then "FAIL daemon stuck or trace truncated: " ^ result else
    let (t0, h) = parse_hist20 hs in
    if not (b20_times_ok t0 h) then "PASS outside-quantifier" else
    let flat = List.map parse_sample (items '|' body) in
    let counts = List.map (fun i -> List.length (List.filter (fun c -> c = BMetrics) i.bi_calls)) h in
    let obs = split_counts counts flat in
    if b20_chk t0 h obs then "PASS"
    else begin
      let excess = b20_excess t0 h in
      (* a cache counter above the need-run is the registered class only if the model of the
         code did store a record nobody needed (b_excess > 0) *)
      let tags = (if b20_chk_cache t0 h obs then [] else [ (if excess = N0 then "cache-unexplained" else "unneeded") ])
                 @ (if b20_chk_sub t0 h obs then [] else [ "subtype" ])
                 @ (if b20_chk_timers t0 h obs then [] else [ "timers" ]) in
      (* first sample that breaks an allowance: observed numbers, need-run numbers, allowances *)
      let needs = List.concat (b20_run PNeed t0 h) and times = List.concat (List.map2 (fun i c -> List.init c (fun _ -> i.bi_now)) h counts) in
      let rec first ns os ts = match ns, os, ts with
        | n :: ns', o :: os', t :: ts' ->
          if N.leb o.m_ptr n.m_ptr && N.leb o.m_srv n.m_srv && N.leb o.m_txt n.m_txt && N.leb o.m_addr n.m_addr
             && N.leb o.m_nsec n.m_nsec && N.leb o.m_sub n.m_sub_live && N.leb o.m_timer n.m_timer_allow
          then first ns' os' ts'
          else Printf.sprintf "at %s observed %s need-run %s allowed subtype<=%s timer<=%s" (dec_of_n t)
              (string_of_sample t o) (string_of_sample t n) (dec_of_n n.m_sub_live) (dec_of_n n.m_timer_allow)
        | _ -> "?" in
      let detail = first needs flat times ^ " unneeded-records-stored=" ^ dec_of_n excess in
      if b20_predicted t0 h obs then Printf.sprintf "FAIL[%s] %s" (String.concat "," tags) detail
      else Printf.sprintf "FAIL unexplained (%s) %s" (String.concat "," tags) detail
    end
  | _ -> "BADCASE"

let run_monitor (id : string) (case : string list) (result : string) : string =
  match id with
  | "C17" -> mon_c17 case result
  | "C20" -> mon_c20 case result
  | _ -> "BADCASE"

let () = main_loop run_case run_monitor
