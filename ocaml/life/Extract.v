(* Extraction of the executable model of group `life` (C11, C10).
   ExtrOcamlBasic only; N, positive, nat stay the extracted inductives. No Extract Constant. *)
Require Extraction.
Require Import ExtrOcamlBasic.
From Coq Require Import NArith.
From Mdns Require Import Res Bytes Rec ParamsLife Life LifeSpec LifeCache LifeResp.
Extraction Language OCaml.
Extraction "model.ml"
  Life.exp_time Life.life_case Life.mk_ident Life.matches Life.rrdata_match Life.suppressed_by_answer
  Life.stored_ttl Rec.known_type
  LifeSpec.chk_C11_life LifeSpec.life_bounds LifeSpec.op_total LifeSpec.chk_C10_rel LifeSpec.B63
  LifeCache.model_run LifeCache.spec_run LifeCache.spec_run_created_ka LifeCache.ident_eqb
  LifeResp.resp_predict LifeResp.resp_spec LifeResp.chk_C10_resp
  N.eqb N.add N.mul N.land N.div N.modulo N.ltb N.leb N.sub.
