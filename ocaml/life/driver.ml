(* Model-side driver of group `life` (C11, C10): evaluates the extracted Coq model on the same
   case lines as the Rust harness and hosts the monitors (extracted checkers). *)
open Model
open Drvlib

let b01 b = if b then "1" else "0"
let dn = dec_of_n
let split_on c s = String.split_on_char c s
let u32 = n_of_dec "4294967296"
let u64 = n_of_dec "18446744073709551616"
let n_lt a b = N.ltb a b

let is_dec s = s <> "" && String.length s <= 30 && (let ok = ref true in String.iter (fun c -> if c < '0' || c > '9' then ok := false) s; !ok)

(* ---- rdata / records (k1 syntax) ---- *)
let parse_rdata (s : string) : rdata =
  match String.index_opt s ':' with
  | None -> failwith "rdata"
  | Some i ->
    let k = String.sub s 0 i and v = String.sub s (i + 1) (String.length s - i - 1) in
    (match k with
     | "A" -> RAddr (bytes_of_hex v)
     | "P" -> RPtr (bytes_of_hex v)
     | "S" -> (match split_on ',' v with
         | [ p; w; po; h ] -> RSrv (n_of_dec p, n_of_dec w, n_of_dec po, bytes_of_hex h)
         | _ -> failwith "srv")
     | "T" -> RTxt (bytes_of_hex v)
     | "H" -> (match split_on ',' v with [ a; b ] -> RHinfo (bytes_of_hex a, bytes_of_hex b) | _ -> failwith "hinfo")
     | "N" -> (match split_on ',' v with [ a; b ] -> RNsec (bytes_of_hex a, bytes_of_hex b) | _ -> failwith "nsec")
     | _ -> failwith "rdata kind")
let string_of_rdata = function
  | RAddr o -> "A:" ^ hex_of_bytes o
  | RPtr a -> "P:" ^ hex_of_bytes a
  | RSrv (p, w, po, h) -> Printf.sprintf "S:%s,%s,%s,%s" (dn p) (dn w) (dn po) (hex_of_bytes h)
  | RTxt t -> "T:" ^ hex_of_bytes t
  | RHinfo (c, o) -> "H:" ^ hex_of_bytes c ^ "," ^ hex_of_bytes o
  | RNsec (n, b) -> "N:" ^ hex_of_bytes n ^ "," ^ hex_of_bytes b

type prec = { p_id : ident; p_ttl : n; p_created : n; p_ty : n }

(* namehex/newname|~/ty/class/flush/ttl/created/rdata[@ifindex] *)
let parse_prec (s : string) : prec =
  let body, ifx = match String.rindex_opt s '@' with
    | Some i -> (String.sub s 0 i, n_of_dec (String.sub s (i + 1) (String.length s - i - 1)))
    | None -> (s, n_of_int 1) in
  match split_on '/' body with
  | [ name; _nn; ty; cls; fl; ttl; created; rd ] ->
    let c = int_of_string cls in
    let class16 = if fl = "1" then c lor 0x8000 else c in
    let ty = n_of_dec ty in
    { p_id = mk_ident (bytes_of_hex name) ty (n_of_int class16) (parse_rdata rd) ifx;
      p_ttl = n_of_dec ttl; p_created = n_of_dec created; p_ty = ty }
  | _ -> failwith "rec"

let string_of_ident_ttl (i : ident) (ttl : n) : string =
  Printf.sprintf "%s/%s/%s/%s/%s/%s" (hex_of_bytes i.i_name) (dn i.i_type) (dn i.i_class) (b01 i.i_flush)
    (dn ttl) (string_of_rdata i.i_data)

(* ---- life operations ---- *)
let parse_op (s : string) : lop =
  match split_on ',' s with
  | [ name; a; b ] ->
    let a = n_of_dec a and b = n_of_dec b in
    (match name with
     | "is_expired" -> OIsExpired a | "expires_soon" -> OExpiresSoon a | "refresh_due" -> ORefreshDue a
     | "halflife_passed" -> OHalflife a | "refresh_maybe" -> ORefreshMaybe a
     | "updated_refresh_time" -> OUpdatedRefresh a | "refresh_no_more" -> ONoMore
     | "remaining_ttl" -> ORemaining a | "update_ttl" -> OUpdateTtl a | "set_expire" -> OSetExpire a
     | "set_expire_sooner" -> OSetExpireSooner a
     | "reset_ttl" -> OResetTtl (N.modulo a u32, b)       (* the facade casts the TTL `as u32` *)
     | "snapshot" -> OSnapshot
     | _ -> failwith "op")
  | _ -> failwith "op"
let parse_ops (s : string) : lop list = if s = "-" then [] else List.map parse_op (split_on ';' s)

let string_of_lout = function
  | LBool b -> if b then "true" else "false"
  | LOpt None -> "none"
  | LOpt (Some n) -> "some," ^ dn n
  | LUnit -> "unit"
  | LNum n -> dn n
  | LSnap r -> Printf.sprintf "%s,%s,%s,%s" (dn r.t_ttl) (dn r.t_created) (dn r.t_expires) (dn r.t_refresh)

(* the result token of one op, parsed back according to the op's result type *)
let parse_lout (o : lop) (s : string) : lout =
  match o with
  | OIsExpired _ | OExpiresSoon _ | ORefreshDue _ | OHalflife _ | ORefreshMaybe _ | ORefreshOnce _ ->
    if s = "true" then LBool true else if s = "false" then LBool false else failwith "bool"
  | OUpdatedRefresh _ ->
    if s = "none" then LOpt None
    else (match split_on ',' s with [ "some"; n ] -> LOpt (Some (n_of_dec n)) | _ -> failwith "opt")
  | ONoMore | OUpdateTtl _ | OSetExpire _ | OSetExpireSooner _ | OResetTtl _ -> if s = "unit" then LUnit else failwith "unit"
  | ORemaining _ -> LNum (n_of_dec s)
  | OSnapshot ->
    (match split_on ',' s with
     | [ a; b; c; d ] -> LSnap { t_ttl = n_of_dec a; t_created = n_of_dec b; t_expires = n_of_dec c; t_refresh = n_of_dec d }
     | _ -> failwith "snap")

(* ---- simulated daemon: model input produced by tools/props/lifelib.py ---- *)
let parse_wire_rec (s : string) : ident * n = let p = parse_prec s in (p.p_id, p.p_ttl)
let parse_step (s : string) : simstep =
  match split_on '!' s with
  | [ now; nsb; nsh; recs ] ->
    { ss_now = n_of_dec now; ss_nsb = nat_of_int (int_of_string nsb); ss_nsh = nat_of_int (int_of_string nsh);
      ss_recs = (if recs = "-" then [] else List.map parse_wire_rec (split_on '+' recs)) }
  | _ -> failwith "step"
let opt_name s = if s = "-" then None else Some (bytes_of_hex s)

let fmt_query (pairs : string list) (q : qdesc) : string list =
  let qs = String.concat "+" (List.map (fun (n, t) -> hex_of_bytes n ^ "/" ^ dn t) q.qd_questions) in
  let ans = String.concat "&" (List.map (fun (i, ttl) -> string_of_ident_ttl i ttl) q.qd_answers) in
  List.map (fun p -> Printf.sprintf "Q[%s:%s@%s]" qs ans p) pairs
let fmt_addr (i : ident) = (match i.i_data with RAddr o -> hex_of_bytes o | _ -> "?") ^ "@" ^ dn i.i_if
let fmt_iter (pairs : string list) (now : n) (o : iterobs) : string option =
  let qs = List.sort compare (List.concat_map (fmt_query pairs) o.io_queries) in
  let rs = List.sort_uniq compare (List.map hex_of_bytes o.io_removed_services) in
  let ra = List.sort_uniq compare (List.map fmt_addr o.io_removed_addrs) in
  let toks = qs @ (if rs = [] then [] else [ "RS[" ^ String.concat "," rs ^ "]" ])
             @ (if ra = [] then [] else [ "RA[" ^ String.concat "," ra ^ "]" ]) in
  if toks = [] then None else Some (dn now ^ ":" ^ String.concat ";" toks)
let fmt_run pairs steps (obs : iterobs list) : string =
  let items = List.filter_map (fun x -> x) (List.map2 (fun s o -> fmt_iter pairs s.ss_now o) steps obs) in
  if items = [] then "-" else String.concat " | " items

let parse_simc (t : string list) =
  match t with
  | [ b; h; pairs; steps ] ->
    let cfg = { sc_browse = opt_name b; sc_host = opt_name h } in
    let steps = if steps = "-" then [] else List.map parse_step (split_on '|' steps) in
    (cfg, split_on ',' pairs, steps)
  | _ -> failwith "simc"

(* ---- responder cases ---- *)
let parse_orec (s : string) : orec = let p = parse_prec s in { o_id = p.p_id; o_ttl = p.p_ttl }
(* ptr+sub|~+srv+txt+addr+addr... *)
let parse_svc (s : string) : svc =
  match split_on '+' s with
  | p :: sub :: sr :: tx :: addrs ->
    { sv_ptr = parse_orec p; sv_sub = (if sub = "~" then None else Some (parse_orec sub));
      sv_srv = parse_orec sr; sv_txt = parse_orec tx; sv_addrs = List.map parse_orec addrs }
  | _ -> failwith "svc"
let parse_query (x : string) =
  match split_on '=' x with
  | [ qs; kas ] ->
    let qs = List.map (fun x -> match split_on ',' x with [ n; ty ] -> (bytes_of_hex n, n_of_dec ty) | _ -> failwith "q") (split_on '+' qs) in
    let kas = if kas = "-" then [] else List.map (fun x -> let o = parse_orec x in (o.o_id, o.o_ttl)) (split_on '+' kas) in
    (qs, kas)
  | _ -> failwith "query"
(* resp <svc|svc..> <questions=kas#questions=kas#...> *)
let parse_resp (t : string list) =
  match t with
  | [ svcs; queries ] ->
    let svcs = if svcs = "-" then [] else List.map parse_svc (split_on '|' svcs) in
    (svcs, List.map parse_query (split_on '#' queries))
  | _ -> failwith "resp"
let fmt_orec (o : orec) = string_of_ident_ttl o.o_id o.o_ttl
let fmt_resp = function
  | None -> "SILENT"
  | Some (an, ar) ->
    let f l = String.concat "&" (List.sort compare (List.map fmt_orec l)) in
    Printf.sprintf "AN[%s];AR[%s]" (f an) (f ar)
(* observed response -> records (the wire format has no interface: index 0) *)
let parse_obs_rec (s : string) : orec =
  match split_on '/' s with
  | [ name; ty; cls; fl; ttl; rd ] ->
    let c = int_of_string cls in
    { o_id = mk_ident (bytes_of_hex name) (n_of_dec ty) (n_of_int (if fl = "1" then c lor 0x8000 else c)) (parse_rdata rd) (n_of_int 1);
      o_ttl = n_of_dec ttl }
  | _ -> failwith "obs rec"
let parse_obs_resp (s : string) : (orec list * orec list) option =
  if s = "SILENT" then None
  else
    let inner pre x = let n = String.length pre in String.sub x n (String.length x - n - 1) in
    match split_on ';' s with
    | [ an; ar ] ->
      let f pre x = let b = inner pre x in if b = "" then [] else List.map parse_obs_rec (split_on '&' b) in
      Some (f "AN[" an, f "AR[" ar)
    | _ -> failwith "obs resp"

(* ---- cases ---- *)
let res_str f = function Ok a -> "OK " ^ f a | Err -> "ERR" | Panic -> "PANIC" | OutOfFuel -> "HANG"

let run_case (line : string) : string =
  match split_on ' ' line with
  | [ "exp"; c; t; p ] ->
    if not (is_dec c && is_dec t && is_dec p) then "SKIP" else
    let c = n_of_dec c and t = n_of_dec t and p = n_of_dec p in
    if not (n_lt c u64 && n_lt t u32 && n_lt p u32) then "SKIP" else res_str dn (exp_time c t p)
  | [ "life"; r; ops ] ->
    let p = parse_prec r in
    if not (known_type p.p_ty) then "SKIP"
    else res_str (fun outs -> if outs = [] then "-" else String.concat ";" (List.map string_of_lout outs))
        (life_case p.p_created p.p_ttl (parse_ops ops))
  | [ "rel"; a; b ] ->
    let pa = parse_prec a and pb = parse_prec b in
    if not (known_type pa.p_ty && known_type pb.p_ty) then "SKIP"
    else (match life_case pa.p_created pa.p_ttl [], life_case pb.p_created pb.p_ttl [] with
        | Ok _, Ok _ ->
          Printf.sprintf "OK %s %s %s" (b01 (matches pa.p_id pb.p_id)) (b01 (rrdata_match pa.p_id pb.p_id))
            (b01 (suppressed_by_answer pa.p_id pa.p_ttl pb.p_id pb.p_ttl))
        | _ -> "PANIC")
  | "simc" :: rest ->
    let cfg, pairs, steps = parse_simc rest in
    (match model_run cfg steps with
     | Ok obs -> "SIM " ^ fmt_run pairs steps obs
     | Err -> "ERR" | Panic -> "PANIC" | OutOfFuel -> "HANG")
  | "resp" :: rest ->
    let svcs, queries = parse_resp rest in
    "RSP " ^ String.concat " # " (List.map (fun (qs, kas) -> fmt_resp (resp_predict svcs qs kas)) queries)
  | _ -> "BADCASE"

(* ---- monitors ---- *)

(* observation string -> per-iteration token lists, transformed and with empty iterations dropped *)
let strip_ka (tok : string) : string =
  if starts_with tok "Q[" then
    (match String.index_opt tok ':', String.rindex_opt tok '@' with
     | Some i, Some j when j > i -> String.sub tok 0 (i + 1) ^ String.sub tok j (String.length tok - j)
     | _ -> tok)
  else tok
let view (keep : string -> bool) (tr : string -> string) (s : string) : string list =
  if s = "-" then []
  else
    List.filter_map (fun it ->
        match String.index_opt it ':' with
        | None -> Some it
        | Some i ->
          let now = String.sub it 0 i and rest = String.sub it (i + 1) (String.length it - i - 1) in
          let toks = List.map tr (List.filter keep (split_on ';' rest)) in
          if toks = [] then None else Some (now ^ ":" ^ String.concat ";" toks))
      (split_str " | " s)
let first_diff (a : string list) (b : string list) : string =
  let rec go a b = match a, b with
    | [], [] -> "?"
    | x :: _, [] -> "observed but not prescribed: " ^ x
    | [], y :: _ -> "prescribed but not observed: " ^ y
    | x :: a', y :: b' -> if x = y then go a' b' else "observed " ^ x ^ " prescribed " ^ y in
  let s = go a b in if String.length s > 300 then String.sub s 0 300 else s

let strip_prefix (pre : string) (s : string) : string =
  if starts_with s pre then String.sub s (String.length pre) (String.length s - String.length pre) else s
let mon_sim (which : string) (case : string list) (result : string) : string =
  let result = strip_prefix "SIM " result in
  let cfg, pairs, steps = parse_simc case in
  match spec_run cfg steps with
  | Ok obs ->
    let spec = fmt_run pairs steps obs in
    let keep, tr =
      if which = "C11" then ((fun _ -> true), strip_ka)
      else ((fun t -> starts_with t "Q["), (fun t -> t)) in
    let a = view keep tr result and b = view keep tr spec in
    if a = b then "PASS"
    else
      let tag =
        if which = "C10" then
          (match spec_run_created_ka cfg steps with
           | Ok obs2 -> if view keep tr (fmt_run pairs steps obs2) = a then "[ka-shortened-record]" else "[unexplained]"
           | _ -> "[unexplained]")
        else "" in
      "FAIL" ^ tag ^ " " ^ first_diff a b
  | _ -> "BAD spec did not evaluate"

let mon_c11 (case : string list) (result : string) : string =
  match case with
  | [ "exp"; c; t; p ] ->
    let c = n_of_dec c and t = n_of_dec t and p = n_of_dec p in
    (* no_overflow + the formula, inside the quantifier *)
    if n_lt c b63 && n_lt t u32 && N.leb p (n_of_int 100) then
      (if result = "OK " ^ dn (N.add c (N.mul (N.mul t p) (n_of_int 10))) then "PASS"
       else "FAIL expiration time is not created + ttl*percent*10 ms: " ^ result)
    else "PASS outside-quantifier"
  | [ "life"; r; opss ] ->
    let p = parse_prec r in
    let ops = parse_ops opss in
    if not (life_bounds p.p_created p.p_ttl ops) then "PASS outside-quantifier"
    else if result = "PANIC" then
      (if List.for_all op_total ops then "FAIL lifetime arithmetic panicked inside the bounds" else "PASS panic-not-excluded")
    else if starts_with result "OK " then begin
      let body = String.sub result 3 (String.length result - 3) in
      let toks = if body = "-" then [] else split_on ';' body in
      if List.length toks <> List.length ops then "BAD result length"
      else
        let outs = List.map2 parse_lout ops toks in
        if chk_C11_life p.p_created p.p_ttl ops outs then "PASS" else "FAIL record history contradicts lifetime / refresh-mark rules"
    end
    else "FAIL unexpected result " ^ result
  | "simc" :: rest -> mon_sim "C11" rest result
  | _ -> "BADCASE"

let mon_c10 (case : string list) (result : string) : string =
  match case with
  | [ "rel"; a; b ] ->
    let pa = parse_prec a and pb = parse_prec b in
    (match split_on ' ' result with
     | [ "OK"; m; r; s ] ->
       if chk_C10_rel pa.p_id pa.p_ttl pb.p_id pb.p_ttl (m = "1") (r = "1") (s = "1") then "PASS"
       else "FAIL suppression differs from: same record and listed TTL above half"
     | [ "PANIC" ] -> "PASS outside-quantifier"
     | _ -> "FAIL unexpected result " ^ result)
  | "simc" :: rest -> mon_sim "C10" rest result
  | "resp" :: rest ->
    let svcs, queries = parse_resp rest in
    let obs = split_str " # " (strip_prefix "RSP " result) in
    if List.length obs <> List.length queries then "BAD result length"
    else begin
      let verdicts = List.map2 (fun (qs, kas) o ->
          let o = parse_obs_resp o in
          if chk_C10_resp svcs qs kas o then "" else
          "prescribed " ^ fmt_resp (resp_spec svcs qs kas) ^ " observed " ^ fmt_resp o) queries obs in
      let bad = List.filter (fun v -> v <> "") verdicts in
      if bad = [] then "PASS"
      else
        let msg = "FAIL response differs from: every unsuppressed answer with its additionals, nothing of a suppressed one; " ^ List.hd bad in
        if String.length msg > 600 then String.sub msg 0 600 else msg
    end
  | _ -> "BADCASE"

let run_monitor (id : string) (case : string list) (result : string) : string =
  match id with
  | "C11" -> mon_c11 case result
  | "C10" -> mon_c10 case result
  | _ -> "BADCASE"

let () = main_loop run_case run_monitor
