(* Extraction of the executable model of group `registry` (C07, C08, C09).
   ExtrOcamlBasic only; N, positive, nat stay the extracted inductives. No Extract Constant. *)
Require Extraction.
Require Import ExtrOcamlBasic.
From Coq Require Import NArith.
From Mdns Require Import Res Bytes Rec WireOut Names Registry RegistryDaemon RegistrySpec.
Extraction Language OCaml.
Extraction "model.ml"
  Names.name_change Names.hostname_change Names.rename_ok Names.rename_keeps_rest Names.first_label_encodable
  Registry.compare_rr Registry.tb_cmp Registry.well_typed Registry.rrdata_match
  RegistryDaemon.iterate RegistryDaemon.d_init RegistryDaemon.d_init_os RegistryDaemon.due_work
  RegistrySpec.chk_C07 RegistrySpec.chk_C08 RegistrySpec.chk_C09 RegistrySpec.c08_final RegistrySpec.ann_names
  RegistrySpec.model_obs RegistrySpec.g7_init RegistrySpec.same_name_ci
  WireOut.name_labels WireOut.escape_label Res.bind Res.is_ok
  N.eqb N.add N.mul N.land N.div N.modulo N.leb N.ltb N.compare.
