(* Model-side driver of group `registry` (C07, C08, C09): evaluates the extracted Coq model on
   the same cases as the Rust harness and hosts the monitors (extracted chk_C07/C08/C09). *)
open Model
open Drvlib

let split_on c s = String.split_on_char c s
let b01 b = if b then "1" else "0"
let dec_n n = dec_of_n n
let nlist s = if s = "n" then [] else [ s ]
let items c s = if s = "n" then [] else split_on c s

(* ---------------------------------------------------------------- component cases (K2/K3) *)

let parse_rdata_k (s : string) : rdata =
  (* k1::parse_rec syntax:  A:hex P:hex S:p,w,port,hex T:hex H:hex,hex N:hex,hex *)
  match String.index_opt s ':' with
  | None -> failwith "rdata"
  | Some i ->
    let k = String.sub s 0 i and v = String.sub s (i + 1) (String.length s - i - 1) in
    (match k with
     | "A" -> RAddr (bytes_of_hex v)
     | "P" -> RPtr (bytes_of_hex v)
     | "S" -> (match split_on ',' v with
         | [ p; w; po; h ] -> RSrv (n_of_dec p, n_of_dec w, n_of_dec po, bytes_of_hex h)
         | _ -> failwith "srv")
     | "T" -> RTxt (bytes_of_hex v)
     | "H" -> (match split_on ',' v with [ a; b ] -> RHinfo (bytes_of_hex a, bytes_of_hex b) | _ -> failwith "hinfo")
     | "N" -> (match split_on ',' v with [ a; b ] -> RNsec (bytes_of_hex a, bytes_of_hex b) | _ -> failwith "nsec")
     | _ -> failwith "rdata kind")

(* rec: namehex/newnamehex|~/ty/class/flush/ttl/created/rdata  (class without the flush bit) *)
let parse_rec_k (s : string) : rr =
  match split_on '/' s with
  | [ name; _; ty; cls; fl; ttl; _; rd ] ->
    { r_name = bytes_of_hex name; r_type = n_of_dec ty; r_class = N.coq_land (n_of_dec cls) (n_of_int 32767);
      r_flush = (fl = "1"); r_ttl = n_of_dec ttl; r_data = parse_rdata_k rd }
  | _ -> failwith "rec"

let cmp_str = function Lt -> "-1" | Eq -> "0" | Gt -> "1"

(* ---------------------------------------------------------------- simulated histories (K6) *)

let parse_ifaddr s = match split_on '_' s with
  | [ ip; mask ] -> { ia_ip = bytes_of_hex ip; ia_mask = bytes_of_hex mask }
  | _ -> failwith "ifaddr"
let parse_intf s = match split_on ',' s with
  | [ idx; name; addrs ] -> { if_index = n_of_dec idx; if_name = bytes_of_hex name; if_addrs = List.map parse_ifaddr (items '+' addrs) }
  | _ -> failwith "intf"

let parse_rdata_s (s : string) : rdata =
  let k = s.[0] and v = String.sub s 1 (String.length s - 1) in
  match k with
  | 'A' -> RAddr (bytes_of_hex v)
  | 'P' -> RPtr (bytes_of_hex v)
  | 'S' -> (match split_on '_' v with
      | [ p; w; po; h ] -> RSrv (n_of_dec p, n_of_dec w, n_of_dec po, bytes_of_hex h)
      | _ -> failwith "srv")
  | 'T' -> RTxt (bytes_of_hex v)
  | 'H' -> (match split_on '_' v with [ a; b ] -> RHinfo (bytes_of_hex a, bytes_of_hex b) | _ -> failwith "hinfo")
  | 'N' -> (match split_on '_' v with [ a; b ] -> RNsec (bytes_of_hex a, bytes_of_hex b) | _ -> failwith "nsec")
  | _ -> failwith "rdata kind"
let parse_rr_s (s : string) : rr =
  match split_on '/' s with
  | [ name; ty; cls; fl; ttl; rd ] ->
    { r_name = bytes_of_hex name; r_type = n_of_dec ty; r_class = n_of_dec cls; r_flush = (fl = "1");
      r_ttl = n_of_dec ttl; r_data = parse_rdata_s rd }
  | _ -> failwith "rr"
let parse_q s = match split_on '/' s with [ n; t ] -> (bytes_of_hex n, n_of_dec t) | _ -> failwith "q"
let parse_dgram s = match split_on ',' s with
  | [ i; v4; src; port; resp; qs; an; ns; ar ] ->
    { g_if = n_of_dec i; g_v4 = (v4 = "1"); g_src = bytes_of_hex src; g_port = n_of_dec port; g_resp = (resp = "1");
      g_q = List.map parse_q (items '+' qs); g_an = List.map parse_rr_s (items '+' an);
      g_ns = List.map parse_rr_s (items '+' ns); g_ar = List.map parse_rr_s (items '+' ar) }
  | _ -> failwith "dgram"
let parse_call s = match split_on ',' s with
  | [ "m" ] -> CMonitor
  | [ "s" ] -> CShutdown
  | [ "o" ] -> COther
  | [ "u"; name; ch ] -> CUnregister (bytes_of_hex name, bytes_of_hex ch)
  | [ "r"; ty; sub; full; host; addrs; port; txt; probe; auto ] ->
    CRegister { s_ty = bytes_of_hex ty; s_sub = (if sub = "~" then None else Some (bytes_of_hex sub));
                s_full = bytes_of_hex full; s_host = bytes_of_hex host;
                s_addrs = List.map bytes_of_hex (items '+' addrs); s_port = n_of_dec port;
                s_txt = bytes_of_hex txt; s_probe = (probe = "1"); s_status = []; s_auto = (auto = "1") }
  | [ "i"; en; kinds ] ->
    CIfSel (en = "1", List.map (fun k ->
        if k = "A" then KAll else if k = "4" then KV4 else if k = "6" then KV6
        else if String.length k > 0 && k.[0] = 'N' then KName (bytes_of_hex (String.sub k 1 (String.length k - 1)))
        else KUnsupported) (items '+' kinds))
  | _ -> failwith ("call " ^ s)

type it_in = { i_d : int; i_iter : iter; i_wake : n option }

let parse_iter s = match split_on ':' s with
  | [ "I"; d; now; wake; jit; calls; dgs ] ->
    { i_d = int_of_string d;
      i_wake = (if wake = "n" then None else Some (n_of_dec wake));
      i_iter = { it_now = n_of_dec now; it_dgrams = List.map parse_dgram (items ';' dgs);
                 it_calls = List.map parse_call (items ';' calls); it_jitter = List.map n_of_dec (items '.' jit) } }
  | _ -> failwith "iter"

let parse_row s = match split_on ',' s with
  | [ idx; name; ip; mask ] -> { os_name = bytes_of_hex name; os_index = n_of_dec idx; os_ip = bytes_of_hex ip; os_mask = bytes_of_hex mask }
  | _ -> failwith "row"

(* the OS tables (token O:<d>:rows) by daemon *)
let os_tables : (int, osrow list) Hashtbl.t = Hashtbl.create 4
let init_state k ifs = match Hashtbl.find_opt os_tables k with
  | Some os -> d_init_os ifs os
  | None -> d_init ifs

let parse_history (toks : string list) : (int * intf list) list * it_in list =
  Hashtbl.reset os_tables;
  List.iter (fun t -> if starts_with t "O:" then
      (match split_on ':' t with [ _; k; rows ] -> Hashtbl.replace os_tables (int_of_string k) (List.map parse_row (items ';' rows)) | _ -> failwith "O")) toks;
  let ds = List.filter_map (fun t -> if starts_with t "D:" then
      (match split_on ':' t with [ _; k; ifs ] -> Some (int_of_string k, List.map parse_intf (items ';' ifs)) | _ -> failwith "D")
    else None) toks in
  let its = List.filter_map (fun t -> if starts_with t "I:" then Some (parse_iter t) else None) toks in
  (ds, its)

(* ---- canonical printing of observations ---- *)
let labels_str (name : n list) : string =
  match name_labels name with
  | [] -> "~"
  | ls -> String.concat "." (List.map hex_of_bytes ls)
let rdata_str = function
  | RAddr o -> "A" ^ hex_of_bytes o
  | RPtr a -> "P" ^ labels_str a
  | RSrv (p, w, po, h) -> Printf.sprintf "S%s_%s_%s_%s" (dec_n p) (dec_n w) (dec_n po) (labels_str h)
  | RTxt t -> "T" ^ hex_of_bytes t
  | RHinfo (c, o) -> "H" ^ hex_of_bytes c ^ "_" ^ hex_of_bytes o
  | RNsec (nx, b) -> "N" ^ labels_str nx ^ "_" ^ hex_of_bytes b
let rr_str (r : rr) =
  Printf.sprintf "%s/%s/%s/%s/%s/%s" (labels_str r.r_name) (dec_n r.r_type) (dec_n r.r_class) (b01 r.r_flush)
    (dec_n r.r_ttl) (rdata_str r.r_data)

(* a section as a sorted multiset (hash-container order decides the emission order) *)
let canon_section (recs : string list) : string =
  if recs = [] then "n" else String.concat "+" (List.sort compare recs)

(* emission-order check of a probe's authority section: one contiguous group per name, each
   group ordered by (class, type) *)
let groups_sorted (recs : string list) : bool =
  let rec go seen last = function
    | [] -> true
    | r :: t ->
      (match split_on '/' r with
       | name :: ty :: cls :: _ ->
         let key = (int_of_string cls, int_of_string ty) in
         (match last with
          | Some (ln, lk) when ln = name -> if key < lk then false else go seen (Some (name, key)) t
          | _ -> if List.mem name seen then false else go (name :: seen) (Some (name, key)) t)
       | _ -> false) in
  go [] None recs
let canon_qs (qs : (n list * n) list) : string =
  if qs = [] then "n" else
    String.concat "+" (List.sort compare (List.map (fun (n, t) -> labels_str n ^ "/" ^ dec_n t) qs))

let out_str (o : out) : string =
  match o with
  | OSend (i, v4, d, m) ->
    let ns = List.map rr_str m.o_ns in
    Printf.sprintf "S:%s:%s:%s:%s:%s:%s:%s:%s:o%d" (dec_n i) (if v4 then "4" else "6")
      (match d with Mcast -> "M" | Ucast (ip, p) -> "U" ^ hex_of_bytes ip ^ "_" ^ dec_n p)
      (if m.o_resp then "R" else "Q") (canon_qs m.o_q)
      (canon_section (List.map rr_str m.o_an)) (canon_section ns)
      (canon_section (List.map rr_str m.o_ar)) (if groups_sorted ns then 1 else 0)
  | OAnnounce (name, None) -> "E:A:" ^ hex_of_bytes name ^ ":-"
  | OAnnounce (name, Some (h, i)) -> "E:A:" ^ hex_of_bytes name ^ ":" ^ hex_of_bytes h ^ "_" ^ hex_of_bytes i
  | ONameChange (o, nw, ty, i) -> Printf.sprintf "E:N:%s:%s:%s:%s" (hex_of_bytes o) (hex_of_bytes nw) (dec_n ty) (hex_of_bytes i)
  | ORespond i -> "E:R:" ^ hex_of_bytes i
  | OReply (ch, ok) -> "U:" ^ hex_of_bytes ch ^ ":" ^ (if ok then "OK" else "NF")
  | OIp (added, ip) -> "E:I:" ^ (if added then "+" else "-") ^ ":" ^ hex_of_bytes ip
  | OExit -> "X"

let ending_str = function Running -> "R" | Exited -> "X" | Panicked -> "P"

let iter_str (d : int) (now : n) (e : ending) (njit : int) (os : out list) : string =
  let its = List.sort compare (List.filter (fun s -> s <> "X") (List.map out_str os)) in
  String.concat " " (Printf.sprintf "@%d:%s:%s:%d" d (dec_n now) (ending_str e) njit :: its)

(* runs the model over a history; returns per iteration (input, pre-state, outputs, ending, jitters used) *)
let run_history (toks : string list) =
  let (ds, its) = parse_history toks in
  let states = Hashtbl.create 4 in
  List.iter (fun (k, ifs) -> Hashtbl.replace states k (init_state k ifs)) ds;
  List.map (fun ii ->
      let st = Hashtbl.find states ii.i_d in
      let (((st', os), e), rest) = iterate st ii.i_iter in
      Hashtbl.replace states ii.i_d st';
      let used = List.length ii.i_iter.it_jitter - List.length rest in
      (ii, st, st', os, e, used)) its

let run_sim (toks : string list) : string =
  let rs = run_history toks in
  String.concat " | " (List.map (fun (ii, _, _, os, e, used) -> iter_str ii.i_d ii.i_iter.it_now e used os) rs)

(* ---------------------------------------------------------------- parsing observations back *)

let name_of_labels (s : string) : n list =
  if s = "~" then [] else
    List.concat_map (fun l -> escape_label (bytes_of_hex l) @ [ n_of_int 46 ]) (split_on '.' s)

let obs_rdata (s : string) : rdata =
  let k = s.[0] and v = String.sub s 1 (String.length s - 1) in
  match k with
  | 'A' -> RAddr (bytes_of_hex v)
  | 'P' -> RPtr (name_of_labels v)
  | 'S' -> (match split_on '_' v with
      | [ p; w; po; h ] -> RSrv (n_of_dec p, n_of_dec w, n_of_dec po, name_of_labels h)
      | _ -> failwith "obs srv")
  | 'T' -> RTxt (bytes_of_hex v)
  | _ -> RTxt (bytes_of_hex v)
let obs_rr (s : string) : rr =
  match split_on '/' s with
  | [ name; ty; cls; fl; ttl; rd ] ->
    { r_name = name_of_labels name; r_type = n_of_dec ty; r_class = n_of_dec cls; r_flush = (fl = "1");
      r_ttl = n_of_dec ttl; r_data = obs_rdata rd }
  | _ -> failwith "obs rr"
let obs_q (s : string) = match split_on '/' s with [ n; t ] -> (name_of_labels n, n_of_dec t) | _ -> failwith "obs q"

let obs_item (s : string) : out option =
  match split_on ':' s with
  | [ "S"; i; fam; d; qr; qs; an; ns; ar; _ ] ->
    let dest = if d = "M" then Mcast else
        (match split_on '_' (String.sub d 1 (String.length d - 1)) with
         | [ ip; p ] -> Ucast (bytes_of_hex ip, n_of_dec p) | _ -> failwith "dest") in
    Some (OSend (n_of_dec i, fam = "4", dest,
                 { o_resp = (qr = "R"); o_q = List.map obs_q (items '+' qs); o_an = List.map obs_rr (items '+' an);
                   o_ns = List.map obs_rr (items '+' ns); o_ar = List.map obs_rr (items '+' ar) }))
  | [ "E"; "A"; name; det ] ->
    Some (OAnnounce (bytes_of_hex name,
                     if det = "-" then None else
                       (match split_on '_' det with [ h; i ] -> Some (bytes_of_hex h, bytes_of_hex i) | _ -> None)))
  | [ "E"; "N"; o; nw; ty; i ] -> Some (ONameChange (bytes_of_hex o, bytes_of_hex nw, n_of_dec ty, bytes_of_hex i))
  | [ "E"; "R"; i ] -> Some (ORespond (bytes_of_hex i))
  | [ "E"; "I"; sg; ip ] -> Some (OIp (sg = "+", bytes_of_hex ip))
  | [ "U"; ch; r ] -> Some (OReply (bytes_of_hex ch, r = "OK"))
  | _ -> None

(* observation line -> per iteration (daemon, now, ending, items) *)
let parse_obs (result : string) : (int * string * ending * out list) list =
  List.filter_map (fun part ->
      match split_on ' ' (String.trim part) with
      | hd :: rest when String.length hd > 0 && hd.[0] = '@' ->
        (match split_on ':' (String.sub hd 1 (String.length hd - 1)) with
         | [ d; now; e; _ ] ->
           let e = (match e with "R" -> Running | "X" -> Exited | _ -> Panicked) in
           Some (int_of_string d, now, e, List.filter_map obs_item rest)
         | _ -> None)
      | _ -> None) (split_str " | " result)

let verdict_str (vs : verdict list) : string =
  let uniq l = List.sort_uniq compare l in
  let fails = uniq (List.filter_map (function VFail c -> Some (int_of_n c) | _ -> None) vs) in
  let knowns = uniq (List.filter_map (function VKnown c -> Some (int_of_n c) | _ -> None) vs) in
  let j l = String.concat "," (List.map string_of_int l) in
  if fails = [] && knowns = [] then "PASS"
  else "FAIL" ^ (if fails <> [] then " fail=" ^ j fails else "") ^ (if knowns <> [] then " known=" ^ j knowns else "")

let mon_history (id : string) (toks : string list) (result : string) : string =
  let (ds, its) = parse_history toks in
  let obs = parse_obs result in
  if List.length obs <> List.length its then "FAIL fail=90 (observation has a different number of iterations)"
  else begin
    let per_daemon = List.map (fun (k, ifs) ->
        let mine = List.filter (fun (ii, _) -> ii.i_d = k) (List.combine its obs) in
        let its_k = List.map (fun (ii, _) -> ii.i_iter) mine in
        let obs_k = List.map (fun (ii, (_, _, e, os)) -> { ob_outs = os; ob_end = e; ob_wake = ii.i_wake }) mine in
        (k, ifs, its_k, obs_k)) ds in
    let check st0 its_k obs_k =
      match id with
      | "C07" -> chk_C07 g7_init st0 its_k obs_k
      | "C08" -> chk_C08 [] st0 its_k obs_k
      | "C09" -> chk_C09 st0 its_k obs_k
      | _ -> [ VFail (n_of_int 99) ] in
    let vs = List.concat_map (fun (k, ifs, its_k, obs_k) -> check (init_state k ifs) its_k obs_k) per_daemon in
    (* the same checker on the model's own run of this history: never a VFail *)
    let self = List.concat_map (fun (k, ifs, its_k, _) -> check (init_state k ifs) its_k (model_obs (init_state k ifs) its_k)) per_daemon in
    let self_fail = List.exists (function VFail _ -> true | _ -> false) self in
    (* several daemons registering one instance on a loss-free link: the final outcome *)
    let final =
      if id = "C08" && List.length ds >= 2 then begin
        let regs = List.concat_map (fun (_, _, its_k, _) ->
            List.concat_map (fun it -> List.filter_map (function CRegister s -> Some s.s_full | _ -> None) it.it_calls) its_k) per_daemon in
        match regs with
        | r0 :: _ when List.length regs = List.length ds && List.for_all (fun r -> same_name_ci r r0) regs ->
          c08_final r0 (List.map (fun (_, _, _, obs_k) -> List.concat_map (fun o -> ann_names o.ob_outs) obs_k) per_daemon)
        | _ -> []
      end else [] in
    let s = verdict_str (vs @ final) in
    if self_fail then (if s = "PASS" then "FAIL fail=91 (checker rejects the model's own run)" else s ^ " modelself") else s
  end

let cmp_of_string s = match s with "-1" -> Lt | "0" -> Eq | "1" -> Gt | _ -> failwith "cmp"
let opp = function Lt -> Gt | Gt -> Lt | Eq -> Eq

let mon_c08_component (case : string list) (result : string) : string =
  match case, split_on ' ' result with
  | [ ("nc" | "hc"); h ], [ "OK"; r ] ->
    let o = bytes_of_hex h and nw = bytes_of_hex r in
    if not (first_label_encodable o) then "PASS outside-quantifier"
    else if rename_ok o nw then "PASS"
    else if not (rename_keeps_rest o nw) then "FAIL fail=51 (the rest after the first unescaped dot changed)"
    else if not (first_label_encodable nw) then "FAIL fail=52 (first label no longer encodable)"
    else "FAIL fail=53"
  | [ "cmp"; a; b ], [ "OK"; cab; _; cba ] ->
    let ra = parse_rec_k a and rb = parse_rec_k b in
    let cab = cmp_of_string cab and cba = cmp_of_string cba in
    if well_typed ra && well_typed rb then begin
      if cab <> opp cba then "FAIL fail=54 (compare is not antisymmetric)"
      else if (cab = Eq) <> (compare_rr ra rb = Eq) then "FAIL fail=55"
      else "PASS"
    end else "PASS outside-quantifier"
  | [ "cmp3"; a; b; c ], [ "OK"; cab; cbc; cac ] ->
    let ra = parse_rec_k a and rb = parse_rec_k b and rc = parse_rec_k c in
    let cab = cmp_of_string cab and cbc = cmp_of_string cbc and cac = cmp_of_string cac in
    if well_typed ra && well_typed rb && well_typed rc then begin
      if cab = Lt && cbc = Lt && cac <> Lt then "FAIL fail=56 (compare is not transitive)"
      else if cab = Gt && cbc = Gt && cac <> Gt then "FAIL fail=56 (compare is not transitive)"
      else if cab = Eq && cac <> cbc then "FAIL fail=57"
      else if cbc = Eq && cac <> cab then "FAIL fail=57"
      else "PASS"
    end else "PASS outside-quantifier"
  | _, [ "SKIP" ] -> "PASS skipped"
  | _ -> "BAD result format"

let run_case (line : string) : string =
  (* "na": model-free family (names with non-ASCII cased letters, judged on the trace by
     tools/props/reglib.py project_na): the expected observation is a constant *)
  if line = "na" then "NA ok" else
  match split_on ' ' line with
  | "simh" :: _ :: rest -> run_sim rest
  | "simdue" :: _ :: rest ->
    (* debugging aid: per iteration, the model's earliest due work afterwards and the wake-up the daemon asked for *)
    String.concat " | " (List.map (fun (ii, _, st', _, _, _) ->
        Printf.sprintf "%s due=%s wake=%s" (dec_n ii.i_iter.it_now)
          (match due_work st' with Some d -> dec_n d | None -> "-")
          (match ii.i_wake with Some w -> dec_n w | None -> "-")) (run_history rest))
  | [ "nc"; h ] -> "OK " ^ hex_of_bytes (name_change (bytes_of_hex h))
  | [ "hc"; h ] -> "OK " ^ hex_of_bytes (hostname_change (bytes_of_hex h))
  | [ "cmp"; a; b ] ->
    let ra = parse_rec_k a and rb = parse_rec_k b in
    "OK " ^ cmp_str (compare_rr ra rb) ^ " " ^ b01 (rrdata_match ra rb) ^ " " ^ cmp_str (compare_rr rb ra)
  | [ "cmp3"; a; b; c ] ->
    let ra = parse_rec_k a and rb = parse_rec_k b and rc = parse_rec_k c in
    "OK " ^ cmp_str (compare_rr ra rb) ^ " " ^ cmp_str (compare_rr rb rc) ^ " " ^ cmp_str (compare_rr ra rc)
  | "sim" :: _ -> "NOTAMODELINPUT"
  | "SKIPCASE" :: _ -> "SKIP"
  | _ -> "BADCASE"

let run_monitor (id : string) (case : string list) (result : string) : string =
  if case = [ "na" ] then
    (if result = "NA ok" then "PASS"
     else "FAIL fail=60 (registered spelling with non-ASCII letters: probes / announcements / answers / goodbye missing) " ^ result) else
  match case with
  | "simh" :: _ :: rest -> mon_history id rest result
  | _ -> if id = "C08" then mon_c08_component case result else "BADCASE"

let () = main_loop run_case run_monitor
