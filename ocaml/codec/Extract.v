(* Extraction of the executable model for the correspondence checks.
   ExtrOcamlBasic only: bool, option, unit, list, prod, sumbool map to OCaml's own types;
   N, positive, nat stay the extracted inductives. No Extract Constant. *)
Require Extraction.
Require Import ExtrOcamlBasic.
From Coq Require Import NArith.
From Mdns Require Import Res Bytes Utf8 Txt Rec Wire WireOut Rfc1035 C02Spec.
Extraction Language OCaml.
Extraction "model.ml"
  Txt.service_new_txt Txt.encode_txt Txt.decode_txt Txt.decode_txt_unique Txt.txt_get
  Txt.accepted Txt.dedup_ci Utf8.utf8_valid
  Wire.decode Wire.read_name Wire.name_fits C02Spec.dotted
  WireOut.to_packets_tables WireOut.to_packets WireOut.key_string WireOut.name_labels WireOut.escape_label Rfc1035.ref_parse Rfc1035.ref_u16 C02Spec.chk_C02 C02Spec.wf_out C02Spec.fits
  C02Spec.opt_rrs C02Spec.present_q C02Spec.decoder_agrees N.eqb N.add N.mul N.land N.div N.modulo.
