(* Model-side driver of the codec group (C01, C02, C16): evaluates the extracted Coq model
   on the same case lines as the Rust harness and hosts the monitors. *)
open Model
open Drvlib

(* ---- TXT properties:  "-" = empty list; props separated by ','; each "keyhex:valhex",
        value "~" = no value (boolean key), "-" = empty value ---- *)
let prop_of_string (s : string) =
  match String.index_opt s ':' with
  | None -> failwith "bad prop"
  | Some i ->
    let k = String.sub s 0 i and v = String.sub s (i + 1) (String.length s - i - 1) in
    (bytes_of_hex k, if v = "~" then None else Some (bytes_of_hex v))
let props_of_string (s : string) =
  if s = "-" then [] else List.map prop_of_string (String.split_on_char ',' s)
let string_of_prop (k, v) =
  hex_of_bytes k ^ ":" ^ (match v with None -> "~" | Some v -> hex_of_bytes v)
let string_of_props ps = if ps = [] then "-" else String.concat "," (List.map string_of_prop ps)

(* ---- wire messages ---- *)
let b01 b = if b then "1" else "0"
let dec_n n = string_of_int (int_of_n n)
let string_of_rdata = function
  | RAddr o -> "A:" ^ hex_of_bytes o
  | RPtr a -> "P:" ^ hex_of_bytes a
  | RSrv (p, w, po, h) -> Printf.sprintf "S:%s,%s,%s,%s" (dec_n p) (dec_n w) (dec_n po) (hex_of_bytes h)
  | RTxt t -> "T:" ^ hex_of_bytes t
  | RHinfo (c, o) -> "H:" ^ hex_of_bytes c ^ "," ^ hex_of_bytes o
  | RNsec (n, b) -> "N:" ^ hex_of_bytes n ^ "," ^ hex_of_bytes b
let string_of_rr r =
  Printf.sprintf "%s %s %s %s %s %s" (hex_of_bytes r.r_name) (dec_n r.r_type) (dec_n r.r_class)
    (b01 r.r_flush) (dec_n r.r_ttl) (string_of_rdata r.r_data)
let string_of_rrs l = String.concat " ; " (List.map string_of_rr l)
let string_of_msg m =
  let qs = String.concat " ; " (List.map (fun q ->
    Printf.sprintf "%s %s %s %s" (hex_of_bytes q.q_name) (dec_n q.q_type) (dec_n q.q_class) (b01 q.q_flush)) m.m_questions) in
  Printf.sprintf "%s %s %s %s %s %s | %s | %s | %s | %s" (dec_n m.m_id) (dec_n m.m_flags) (dec_n m.m_nq)
    (dec_n m.m_nan) (dec_n m.m_nns) (dec_n m.m_nar) qs (string_of_rrs m.m_answers)
    (string_of_rrs m.m_authorities) (string_of_rrs m.m_additionals)

(* ---- outgoing messages (enc / encdec cases) ---- *)
let split_on c s = String.split_on_char c s
let parse_rdata (s : string) : rdata =
  match String.index_opt s ':' with
  | None -> failwith "rdata"
  | Some i ->
    let k = String.sub s 0 i and v = String.sub s (i + 1) (String.length s - i - 1) in
    (match k with
     | "A" -> RAddr (bytes_of_hex v)
     | "P" -> RPtr (bytes_of_hex v)
     | "S" -> (match split_on ',' v with
         | [ p; w; po; h ] -> RSrv (n_of_dec p, n_of_dec w, n_of_dec po, bytes_of_hex h)
         | _ -> failwith "srv")
     | "T" -> RTxt (bytes_of_hex v)
     | "H" -> (match split_on ',' v with [ a; b ] -> RHinfo (bytes_of_hex a, bytes_of_hex b) | _ -> failwith "hinfo")
     | "N" -> (match split_on ',' v with [ a; b ] -> RNsec (bytes_of_hex a, bytes_of_hex b) | _ -> failwith "nsec")
     | _ -> failwith "rdata kind")
let parse_orec (s : string) : orec =
  match split_on '/' s with
  | [ name; nn; ty; cls; fl; ttl; created; rd ] ->
    { or_rr = { r_name = bytes_of_hex name; r_type = n_of_dec ty; r_class = N.coq_land (n_of_dec cls) (n_of_int 32767);
                r_flush = (fl = "1"); r_ttl = n_of_dec ttl; r_data = parse_rdata rd };
      or_newname = (if nn = "~" then None else Some (bytes_of_hex nn));
      or_created = n_of_dec created }
  | _ -> failwith "orec"
let plist pre s =
  let n = String.length pre in
  let s = if String.length s >= n && String.sub s 0 n = pre then String.sub s n (String.length s - n) else s in
  if s = "-" then [] else split_on ';' s
let parse_outgoing (t : string list) : outgoing =
  match t with
  | [ flags; id; mc; q; an; ns; ar ] ->
    { og_flags = n_of_dec flags; og_id = n_of_dec id; og_multicast = (mc = "1");
      og_questions = List.map (fun x -> match split_on ',' x with [ n; ty ] -> (bytes_of_hex n, n_of_dec ty) | _ -> failwith "q") (plist "q=" q);
      og_answers = List.map (fun x -> match split_on '@' x with [ r; now ] -> (parse_orec r, n_of_dec now) | _ -> failwith "an") (plist "an=" an);
      og_authorities = List.map parse_orec (plist "ns=" ns);
      og_additionals = List.map parse_orec (plist "ar=" ar) }
  | _ -> failwith "outgoing"
let string_of_table (t : (n list list * n) list) : string =
  if t = [] then "-" else
  let items = List.map (fun (k, v) -> (List.map int_of_n (key_string k), int_of_n v)) t in
  let items = List.sort compare items in
  String.concat "," (List.map (fun (k, v) ->
    (if k = [] then "-" else String.concat "" (List.map (Printf.sprintf "%02x") k)) ^ "=" ^ string_of_int v) items)

let run_case (line : string) : string =
  match String.split_on_char ' ' line with
  | [ "dec"; b ] -> res_to_string string_of_msg (decode (bytes_of_hex b))
  | ("enc" | "encdec") :: rest ->
    res_to_string (fun l -> String.concat " ## " (List.map (fun (d, t) ->
        hex_of_bytes d ^ "@" ^ string_of_table t ^ "@" ^
        (match decode d with Ok m -> string_of_msg m | Err -> "ERR" | Panic -> "PANIC" | OutOfFuel -> "HANG")) l))
      (to_packets_tables (parse_outgoing rest))
  | [ "txt_esc"; l; ty ] ->
    let lb = bytes_of_hex l and tyb = bytes_of_hex ty in
    let e = escape_label lb in
    let labels = name_labels (e @ (n_of_int 46 :: tyb)) in
    "OK " ^ hex_of_bytes e ^ " " ^ (if labels = [] then "-" else String.concat "," (List.map hex_of_bytes labels))
  | [ "txt_new"; ps ] ->
    res_to_string
      (fun (stored, b) -> string_of_props stored ^ " " ^ hex_of_bytes b)
      (service_new_txt (props_of_string ps))
  | [ "txt_trip"; ps ] ->
    res_to_string
      (fun (d, b) -> string_of_props d ^ " " ^ hex_of_bytes b)
      (match service_new_txt (props_of_string ps) with
       | Ok (_, b) -> (match decode_txt_unique b with Ok d -> Ok (d, b) | Err -> Err | Panic -> Panic | OutOfFuel -> OutOfFuel)
       | Err -> Err | Panic -> Panic | OutOfFuel -> OutOfFuel)
  | [ "txt_enc"; ps ] -> res_to_string hex_of_bytes (encode_txt (props_of_string ps))
  | [ "txt_dec"; b ] -> res_to_string string_of_props (decode_txt (bytes_of_hex b))
  | [ "txt_decu"; b ] -> res_to_string string_of_props (decode_txt_unique (bytes_of_hex b))
  | [ "txt_get"; ps; k ] -> (
    match txt_get (props_of_string ps) (bytes_of_hex k) with
    | None -> "OK NONE"
    | Some p -> "OK " ^ string_of_prop p)
  | _ -> "BADCASE"

(* ---- monitors: the property statements as executable predicates over what the
        implementation returned (same extracted definitions the theorems are about) ---- *)

let rec is_sublist (s : 'a list) (l : 'a list) : bool =
  let rec prefix s l = match s, l with [], _ -> true | x :: s', y :: l' -> x = y && prefix s' l' | _ -> false in
  prefix s l || (match l with [] -> false | _ :: t -> is_sublist s t)

(* every TXT string (length byte + that many bytes) is complete and <= 255 *)
let rec txt_wellformed (b : int list) : bool =
  match b with
  | [] -> true
  | len :: rest ->
    if len > 255 then false
    else if List.length rest < len then false
    else txt_wellformed (List.filteri (fun i _ -> i >= len) rest)

let mon_c16 (case : string list) (result : string) : string =
  match case with
  | [ "txt_trip"; pss ] ->
    let ps = props_of_string pss in
    if accepted ps then begin
      match String.split_on_char ' ' result with
      | [ "OK"; d; b ] ->
        if d <> string_of_props (dedup_ci ps) then "FAIL accepted properties did not survive the trip"
        else if not (txt_wellformed (List.map int_of_n (bytes_of_hex b))) then "FAIL malformed TXT strings"
        else "PASS"
      | _ -> "FAIL accepted properties: " ^ result
    end
    else if result = "ERR" then "PASS"
    else "FAIL unrepresentable properties were not refused"
  | [ ("txt_dec" | "txt_decu"); bs ] ->
    (match String.split_on_char ' ' result with
     | [ "OK"; d ] ->
       let b = bytes_of_hex bs in
       if List.for_all (fun (k, v) -> is_sublist k b && (match v with None -> true | Some v -> is_sublist v b))
            (props_of_string d)
       then "PASS" else "FAIL decoded property is not inside the record"
     | _ -> "FAIL decoding did not return normally: " ^ result)
  | [ "txt_get"; pss; k ] ->
    let ps = props_of_string pss in
    let expect = match txt_get (dedup_ci ps) (bytes_of_hex k) with None -> "OK NONE" | Some p -> "OK " ^ string_of_prop p in
    if result = expect then "PASS" else "FAIL lookup differs from first case-insensitive occurrence"
  | [ "txt_new"; pss ] ->
    let ps = props_of_string pss in
    if accepted ps then (if starts_with result "OK " then "PASS" else "FAIL accepted properties: " ^ result)
    else if result = "ERR" then "PASS" else "FAIL unrepresentable properties were not refused"
  | [ "txt_enc"; pss ] ->
    if accepted (props_of_string pss) && not (starts_with result "OK ") then "FAIL encode of accepted properties: " ^ result
    else "PASS"
  | _ -> "BADCASE"

(* C01: the decode outcome is a message or an error; counts and names bounded by the datagram *)
let mon_c01 (case : string list) (result : string) : string =
  match case with
  | [ "dec"; hx ] ->
    let n = (if hx = "-" then 0 else String.length hx / 2) in
    if result = "ERR" then "PASS"
    else if starts_with result "OK " then begin
      let secs = String.split_on_char '|' (String.sub result 3 (String.length result - 3)) in
      match secs with
      | [ _; q; an; ns; ar ] ->
        let items s = List.filter (fun x -> String.trim x <> "") (String.split_on_char ';' s) in
        let nrec = List.length (items an) + List.length (items ns) + List.length (items ar) in
        let nq = List.length (items q) in
        let name_ok it =
          match String.split_on_char ' ' (String.trim it) with
          | nm :: _ -> (String.length nm) / 2 <= 2 * n * (n + 1)
          | [] -> true in
        if n < 12 then "FAIL message from less than a header"
        else if nrec * 11 > n - 12 then "FAIL more records than the datagram can hold"
        else if nq * 5 > n - 12 then "FAIL more questions than the datagram can hold"
        else if not (List.for_all name_ok (items q @ items an @ items ns @ items ar)) then "FAIL name longer than bound"
        else "PASS"
      | _ -> "BAD result format"
    end
    else "FAIL decoding did not end with a message or an error: " ^ result
  | _ -> "BADCASE"

(* C02: chk_C02 (extracted) on the implementation's packets; the crate decoder's reading of
   each packet against the reference parser's *)

(* names of a reference parse that the decoder refuses because they could not be encoded
   again (Wire.name_fits on the dotted presentation): outside the decoder's vocabulary *)
let ref_names_fit (rm : ref_msg) : bool =
  let fits ls = name_fits (dotted ls) in
  let rd_ok r = match r.fr_data with FName ls -> fits ls | FSrv (_, _, _, ls) -> fits ls | FRaw _ -> true in
  let rr_ok r = fits r.fr_name && rd_ok r in
  List.for_all (fun q -> fits q.fq_name) rm.fm_questions
  && List.for_all rr_ok rm.fm_answers && List.for_all rr_ok rm.fm_authorities && List.for_all rr_ok rm.fm_additionals

let expected_decode (p : n list) : string option =
  match ref_parse p with
  | None -> None
  | Some rm when not (ref_names_fit rm) -> None
  | Some rm ->
    let resp = N.eqb (N.coq_land rm.fm_flags (n_of_int 32768)) (n_of_int 32768) in
    (match opt_rrs resp rm.fm_answers, opt_rrs resp rm.fm_authorities, opt_rrs resp rm.fm_additionals with
     | Some a, Some ns, Some ar ->
       let hdr i = match ref_u16 p (n_of_int i) with Some v -> v | None -> N0 in
       Some (string_of_msg { m_id = rm.fm_id; m_flags = rm.fm_flags; m_nq = hdr 4; m_nan = hdr 6; m_nns = hdr 8; m_nar = hdr 10;
                             m_questions = List.map present_q rm.fm_questions; m_answers = a; m_authorities = ns; m_additionals = ar })
     | _ -> None)

let mon_c02 (case : string list) (result : string) : string =
  match case with
  | [ "txt_esc"; l; ty ] ->
    (* C02_instance_escape_roundtrip: the labels are the instance label followed by the type's *)
    let lb = bytes_of_hex l and tyb = bytes_of_hex ty in
    if lb = [] then "PASS outside-quantifier" else
    let expect = lb :: name_labels tyb in
    (match String.split_on_char ' ' result with
     | [ "OK"; _; labs ] ->
       let got = if labs = "-" then [] else List.map bytes_of_hex (String.split_on_char ',' labs) in
       if got = expect then "PASS" else "FAIL instance label does not survive escaping + label split"
     | _ -> "FAIL escaping: " ^ result)
  | ("enc" | "encdec") :: rest ->
    let m = parse_outgoing rest in
    if not (wf_out m) then "PASS outside-quantifier"
    else if not (starts_with result "OK ") then "FAIL encoding a well-formed message: " ^ result
    else begin
      let parts = split_str " ## " (String.sub result 3 (String.length result - 3)) in
      let triples = List.map (fun s -> match String.split_on_char '@' s with
          | [ h; _; d ] -> (bytes_of_hex h, d) | _ -> failwith "packet format") parts in
      let pkts = List.map fst triples in
      let fit = fits m in
      if not (chk_C02 m pkts) then
        (if fit then "FAIL packets do not parse back to what was added" else "FAIL[nofit] question section exceeds one packet")
      else begin
        let utf8_ok = List.for_all (fun (q, _) -> List.for_all utf8_valid (name_labels q)) m.og_questions in
        let bad = List.exists (fun (p, d) -> match expected_decode p with
            | Some e -> utf8_ok && e <> d && d <> "ERR-nonutf8"
            | None -> false) triples in
        if bad then "FAIL crate decoder reads different content" else "PASS"
      end
    end
  | _ -> "BADCASE"


let run_monitor (id : string) (case : string list) (result : string) : string =
  match id with
  | "C16" -> mon_c16 case result
  | "C01" -> mon_c01 case result
  | "C02" -> mon_c02 case result
  | _ -> "BADCASE"

let () = main_loop run_case run_monitor
