(* Extraction of the executable model for the correspondence checks.
   ExtrOcamlBasic only: bool, option, unit, list, prod, sumbool map to OCaml's own types;
   N, positive, nat stay the extracted inductives. No Extract Constant. *)
Require Extraction.
Require Import ExtrOcamlBasic.
From Mdns Require Import Res Bytes Utf8 Txt Rec Wire.
Extraction Language OCaml.
Extraction "model.ml"
  Txt.service_new_txt Txt.encode_txt Txt.decode_txt Txt.decode_txt_unique Txt.txt_get
  Txt.accepted Txt.dedup_ci Utf8.utf8_valid
  Wire.decode Wire.read_name.
