#!/bin/sh
# Builds the extracted model and the OCaml driver (offline). Usage: ocaml/build.sh
set -e
cd "$(dirname "$0")"
coqc -q -Q ../coq Mdns Extract.v >/dev/null
ocamlfind ocamlopt -w -a -package str model.mli model.ml driver.ml -o model_driver
