#!/bin/sh
# Builds the extracted models and OCaml drivers (offline).
# Usage: ocaml/build.sh [group ...]   (default: every directory with an Extract.v)
set -e
cd "$(dirname "$0")"
groups="$*"
if [ -z "$groups" ]; then
  groups=$(for f in */Extract.v; do dirname "$f"; done)
fi
for g in $groups; do
  (
    cd "$g"
    coqc -q -Q ../../coq Mdns Extract.v >/dev/null
    cp ../drvlib.ml drvlib.ml
    ocamlfind ocamlopt -w -a -package str model.mli model.ml drvlib.ml driver.ml -o model_driver
  )
done
